#!/bin/sh
# Builds the harness (against /repo's working tree, tag verif) and the extracted model driver.
set -e
export GOFLAGS=-mod=mod GOPROXY=off GOSUMDB=off GOTOOLCHAIN=local
mkdir -p /verif/build/ocaml
(cd /verif/harness && go build -tags verif -o /verif/build/pgh ./cmd/pgh)
if [ "$1" != "go" ]; then
  cd /verif/build/ocaml
  cp /verif/coq/extract/model.ml /verif/coq/extract/model.mli /verif/ocaml/driver.ml /verif/ocaml/main.ml .
  ocamlfind ocamlopt -O3 -w -a model.mli model.ml driver.ml main.ml -o modelrun
fi
