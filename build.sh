#!/bin/sh
# Builds the harness (against /repo's working tree, tag verif), extracts the Coq model to OCaml and
# builds the model driver. Called by ./check under a lock; by ./setup.sh after a fresh restore.
set -e
export GOFLAGS=-mod=mod GOPROXY=off GOSUMDB=off GOTOOLCHAIN=local
mkdir -p /verif/build/ocaml
(cd /verif/harness && go build -tags verif -o /verif/build/pgh ./cmd/pgh)
if [ "$1" = "race" ]; then
  (cd /verif/harness && go build -race -tags verif -o /verif/build/pgh-race ./cmd/pgh)
  exit 0
fi
if [ "$1" != "go" ]; then
  # re-extract only when the model changed
  cd /verif/coq/extract
  stamp=$(cat ../Base.v ../Crc.v ../Bytes.v ../Record.v ../Flat.v ../Index.v ../Spec.v ../DB.v ../DBInv.v ../Bucket.v ../Phys.v ../PhysProofs.v Extract.v LockExtract.v ../Lock.v /verif/ocaml/*.ml | sha256sum | cut -d' ' -f1)
  if [ ! -f /verif/build/ocaml/modelrun ] || [ "$(cat /verif/build/ocaml/stamp 2>/dev/null)" != "$stamp" ]; then
    timeout 600 coqc -Q .. Pogreb Extract.v >/dev/null
    cd /verif/build/ocaml
    cp /verif/coq/extract/model.ml /verif/coq/extract/model.mli /verif/ocaml/driver.ml /verif/ocaml/main.ml .
    ocamlfind ocamlopt -O3 -w -a model.mli model.ml driver.ml main.ml -o modelrun
    (cd /verif/coq/extract && timeout 600 coqc -Q .. Pogreb LockExtract.v >/dev/null)
    cp /verif/coq/extract/lockmodel.ml /verif/coq/extract/lockmodel.mli /verif/ocaml/lockmain.ml .
    ocamlfind ocamlopt -O3 -w -a lockmodel.mli lockmodel.ml lockmain.ml -o lockrun
    echo "$stamp" > stamp
  fi
fi
