#!/bin/sh
# Run once after a fresh restore, offline: builds the translator, the whole Coq development (full .vo
# build), the extracted model driver and the Go harness from files on disk only.
set -e
export GOFLAGS=-mod=mod GOPROXY=off GOSUMDB=off GOTOOLCHAIN=local
cd /verif
mkdir -p build evidence
(cd tools/gotrans && go build -o /verif/build/gotrans .)
/verif/build/gotrans /repo /verif/coq/gen
cd /verif/coq
coq_makefile -f _CoqProject -o Makefile >/dev/null
timeout 3000 make -j16 >/verif/build/coq-build.log 2>&1 || { tail -30 /verif/build/coq-build.log; exit 1; }
cd /verif
./build.sh
echo setup ok
