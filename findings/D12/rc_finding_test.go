package pogreb

import (
	"os"
	"path/filepath"
	"testing"

	"github.com/akrylysov/pogreb/fs"
)

// A record larger than maxSegmentSize-512 seals the EMPTY current segment (Full=true, size=512).
// Close writes Full=true to its side file; a clean reopen ignores the side file of an empty segment
// (openSegment: !f.empty()), so the old empty segment is writable again and is picked by swapSegment
// although a segment with a larger sequence id holds records. Writes then land in the OLDER segment;
// after a crash recovery replays segments by sequence id and the stale value wins.
func TestRcSealedEmptySegmentLostUpdate(t *testing.T) {
	dir := filepath.Join(os.TempDir(), "rc_finding_db")
	_ = os.RemoveAll(dir)
	defer os.RemoveAll(dir)
	opts := &Options{FileSystem: fs.OS, maxSegmentSize: 1024}

	db, err := Open(dir, opts)
	if err != nil { t.Fatal(err) }
	big := make([]byte, 600)
	for i := range big { big[i] = 'A' }
	if err := db.Put([]byte("k"), big); err != nil { t.Fatal(err) }
	t.Logf("after big put: seg0 full=%v size=%d seq=%d; seg1 size=%d seq=%d; cur=%d",
		db.datalog.segments[0].meta.Full, db.datalog.segments[0].size, db.datalog.segments[0].sequenceID,
		db.datalog.segments[1].size, db.datalog.segments[1].sequenceID, db.datalog.curSeg.id)
	if err := db.Close(); err != nil { t.Fatal(err) }

	db, err = Open(dir, opts) // clean reopen
	if err != nil { t.Fatal(err) }
	t.Logf("after clean reopen: seg0 full=%v seq=%d; cur=%d (seq %d)",
		db.datalog.segments[0].meta.Full, db.datalog.segments[0].sequenceID, db.datalog.curSeg.id, db.datalog.curSeg.sequenceID)
	if err := db.Put([]byte("k"), []byte("new")); err != nil { t.Fatal(err) }
	v, _ := db.Get([]byte("k"))
	t.Logf("before crash Get(k) = %q (len %d)", truncate(v), len(v))
	// crash: no Close. The crash image is a copy of the directory (all writes are in the page cache
	// and visible to the copy), including the lock file.
	if err := db.Sync(); err != nil { t.Fatal(err) }
	dir2 := dir + "_crash"
	_ = os.RemoveAll(dir2)
	defer os.RemoveAll(dir2)
	if err := os.MkdirAll(dir2, 0755); err != nil { t.Fatal(err) }
	ents, _ := os.ReadDir(dir)
	for _, e := range ents {
		b, err := os.ReadFile(filepath.Join(dir, e.Name()))
		if err != nil { t.Fatal(err) }
		if err := os.WriteFile(filepath.Join(dir2, e.Name()), b, 0644); err != nil { t.Fatal(err) }
		t.Logf("crash image: %s (%d bytes)", e.Name(), len(b))
	}
	_ = db.Close()

	db2, err := Open(dir2, opts) // recovery
	if err != nil { t.Fatal(err) }
	v2, err := db2.Get([]byte("k"))
	if err != nil { t.Fatal(err) }
	t.Logf("after recovery Get(k) = %q (len %d)", truncate(v2), len(v2))
	if string(v2) != "new" {
		t.Errorf("LOST UPDATE: acknowledged Put(k,new) replaced by stale value of length %d after recovery", len(v2))
	}
	_ = db2.Close()
}

func truncate(b []byte) []byte { if len(b) > 8 { return b[:8] }; return b }
