package pogreb

// Demonstration of D15 (C06): place this file in the repository root and run
//   go test -run TestFindingD15 .
// on the tree BEFORE the fix "a segment counts as sealed only after its flush succeeded".
//
// A file system that keeps, per file, the content as of its last successful Sync, and that can make
// one Sync fail. History: acknowledged Puts fill the first segment (no Sync yet); the Put that rolls
// the log over hits the failing fsync and reports the error; the next Put succeeds (new segment);
// Sync returns nil; power failure: every file falls back to its last synced content. The Puts of
// the first segment were acknowledged before the Sync returned, and are gone.

import (
	"fmt"
	"os"
	"testing"
	"time"

	"github.com/akrylysov/pogreb/fs"
)

type d15FS struct {
	fs.FileSystem
	synced   map[string][]byte // name -> content at the last successful Sync
	live     map[string]*d15File
	failSync int // fail the n-th Sync from now (1 = the next one); 0 = none
}

type d15File struct {
	fs.File
	name string
	fsys *d15FS
}

func (f *d15FS) OpenFile(name string, flag int, perm os.FileMode) (fs.File, error) {
	inner, err := f.FileSystem.OpenFile(name, flag, perm)
	if err != nil {
		return nil, err
	}
	w := &d15File{File: inner, name: name, fsys: f}
	f.live[name] = w
	return w, nil
}

func (f *d15File) Sync() error {
	if f.fsys.failSync > 0 {
		f.fsys.failSync--
		if f.fsys.failSync == 0 {
			return fmt.Errorf("injected fsync failure on %s", f.name)
		}
	}
	st, err := f.File.Stat()
	if err != nil {
		return err
	}
	b, err := f.File.Slice(0, st.Size())
	if err != nil {
		return err
	}
	f.fsys.synced[f.name] = append([]byte(nil), b...)
	return f.File.Sync()
}

func TestFindingD15(t *testing.T) {
	mem := fs.Mem
	dir := fmt.Sprintf("d15-%d", time.Now().UnixNano())
	w := &d15FS{FileSystem: mem, synced: map[string][]byte{}, live: map[string]*d15File{}}
	opts := &Options{FileSystem: w, maxSegmentSize: 1024, BackgroundSyncInterval: 0}
	db, err := Open(dir, opts)
	if err != nil {
		t.Fatal(err)
	}
	val := make([]byte, 40)
	acked := 0
	// fill the first segment: every Put is acknowledged
	for i := 0; ; i++ {
		before := len(db.datalog.segmentsBySequenceID())
		if db.datalog.curSeg.size+int64(10+6+len(val)) > 1024 {
			break
		}
		if err := db.Put([]byte(fmt.Sprintf("key-%02d", i)), val); err != nil {
			t.Fatal(err)
		}
		acked++
		_ = before
	}
	// the rollover: sealing the full segment flushes it -- this flush fails once
	w.failSync = 1
	if err := db.Put([]byte("rolls-over"), val); err == nil {
		t.Fatal("the Put that hit the failing fsync should report the error")
	}
	// the next write and an explicit Sync succeed
	if err := db.Put([]byte("after"), val); err != nil {
		t.Fatal(err)
	}
	if err := db.Sync(); err != nil {
		t.Fatal(err)
	}
	// power failure: segment files fall back to their last synced content
	lost := 0
	for name, f := range w.live {
		if len(name) < 4 || name[len(name)-4:] != ".psg" {
			continue
		}
		st, _ := f.File.Stat()
		if int64(len(w.synced[name])) < st.Size() {
			lost += int(st.Size()) - len(w.synced[name])
			t.Logf("%s: %d bytes on disk, %d bytes durable", name, st.Size(), len(w.synced[name]))
		}
	}
	if lost > 0 {
		t.Fatalf("Sync returned nil, yet %d bytes of records of %d acknowledged Puts are not durable", lost, acked)
	}
}
