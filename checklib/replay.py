"""Replays a recorded violation on the current tree: ./check <ID> --replay <file>."""
import json
import os
import subprocess
import tempfile


def run(pid, path, build):
    rp = json.load(open(path))
    what = rp.get("what") or {}
    print("property %s, kind %s" % (rp.get("property"), rp.get("kind")))
    if "detail" in what:
        print("no concrete input recorded; the obligation / tie that no longer checks:")
        print(what["detail"])
        return 1
    prog = what.get("program") or []
    print("case %s, step %s: %s" % (what.get("case"), what.get("step"), what.get("cmd")))
    print("recorded implementation output:", what.get("impl"))
    if what.get("expected"):
        print("specification allows       :", what.get("expected"))
    if what.get("model"):
        print("model output                :", what.get("model"))
    if not prog or not any(p.split(" ")[0] in ("open", "put", "params", "reset") for p in prog):
        print("program / schedule:")
        for p in prog:
            print("  " + p)
        return 1
    with tempfile.NamedTemporaryFile("w", suffix=".ops", delete=False) as f:
        f.write("\n".join(prog) + "\n")
        ops = f.name
    env = dict(os.environ, GOFLAGS="-mod=mod", GOPROXY="off", GOSUMDB="off", GOTOOLCHAIN="local")
    subprocess.run([os.path.join(os.path.dirname(build), "build.sh")], env=env, check=False)
    impl = subprocess.run([os.path.join(build, "pgh"), "run", ops], capture_output=True, text=True).stdout.splitlines()
    outs = {}
    for index in ("flat", "chain", "phys"):
        outs[index] = subprocess.run("ulimit -s unlimited 2>/dev/null; %s %s %s" % (os.path.join(build, "ocaml", "modelrun"), index, ops),
                                     shell=True, capture_output=True, text=True).stdout.splitlines()
    os.unlink(ops)
    n = 0
    for i, line in enumerate(impl):
        m = outs["chain"][i] if i < len(outs["chain"]) else "<none>"
        if line.startswith("phys "):
            m = outs["phys"][i] if i < len(outs["phys"]) else "<none>"
        if line != m and not line.startswith("ev re"):
            print("line %d differs:\n  implementation: %s\n  model (chain)  : %s" % (i, line[:300], m[:300]))
            n += 1
            if n >= 5:
                break
    print("implementation output: %d lines; first difference count shown: %d" % (len(impl), n))
    return 1 if n else 0
