# Per property: which harness generators run, what the evidence says about the check.
PROPS = {
    "C08": {
        "generators": [{"name": "C08"}],
        "explanation": "Theorems over all byte strings about the validating reader (decode_next / parse_tail = segmentIterator.next driven by the recovery iterator); tie: byte-exact differential run of the recovering Open against the extracted reader and an independent decoder of the documented format on damaged tails.",
        "trusted_base": ["bufio/io.ReadFull semantics; hash/crc32 (cross-checked against Crc.v on every run)"],
        "assumptions": ["process-crash model of the property; the tail is whatever bytes follow the last complete record"],
    },
}
