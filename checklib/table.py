# Per property: which harness generators run and what the evidence says about the check.
# "race": also run the harness built with the Go race detector and classify its reports.

COMMON_ASSUME = [
    "Go semantics and runtime (sync.RWMutex, scheduler, GC, bufio, io.ReadFull, encoding/gob) and the OS (pwrite, ftruncate, flock, unlink, rename, mmap coherence, atomic directory operations) are modelled, not verified",
    "the 32-bit offset side condition `room` (no segment within one maximal record of 4 GiB) is a hypothesis of the write theorems, see DESIGN.md",
]

PROPS = {
    "C01": {
        "generators": [{"name": "C01"}],
        "explanation": "Theorems: every API call on every invariant state answers from / updates the abstract contents as a plain map (flat index); the bucket chains implement lookup/insert/delete/split for arbitrary hashes and split policy; refinement chain -> flat and the run theorems over all op sequences incl. Compact (DBSim.v, DBRun.v); the PHYSICAL index (Phys.v: bucket files addressed by offset, overflow allocation, free list) simulates the chains exactly and keeps its invariant (no shared / leaked / dangling overflow bucket), lifted to the whole database (DBSimExact.v, PhysDB.v); the integer code of bucketIndex, the split-pointer advance, bucketOffset, the rollover test and the DeletedBytes bookkeeping as TRANSLATED from the sources equals the model's for all values (gen/Funcs.v, Funcs*Check.v). Tie: every call of seeded histories on engineered colliding key sets (incl. chains longer than two buckets at a split) compared with the extracted model in three index instantiations; for the physical one the BYTES of main.pix / overflow.pix and the free list are compared; reference map; Coq invariants evaluated on every reached state.",
        "trusted_base": ["hash function and split policy are arbitrary parameters of the theorems; the driver instantiates them with MurmurHash3 / the float64 load-factor test written in OCaml"],
        "assumptions": COMMON_ASSUME + ["MaxKeys guard and uint32 wrap-around of numKeys / numBuckets not modelled; I/O errors in the middle of an index operation not modelled"],
    },
    "C02": {
        "generators": [{"name": "C02"}],
        "explanation": "Theorems close_ok, close_reopen_ok, reopen_close_same_log over every invariant state; sessions on the physical index (free list and bucket files across Close / Open / kill, PhysDB.phys_sessions; PhysCrash.phys_close_reopen_ok: what Close stores satisfies the physical invariant). Tie: histories cut into sessions; full state dumps before Close, after Close, after Open compared with the model; ShapeCheck.close_order / close_syncs over the regenerated Close skeleton.",
        "assumptions": COMMON_ASSUME + ["gob encoding of metadata is abstracted to its content"],
    },
    "C03": {
        "generators": [{"name": "C03"}],
        "explanation": "Theorems C03_put/delete/sync/close and crash_open_recover: for every crash image (every prefix of the operation's file-system calls, every cut of a record write) the next Open succeeds with the invariant and the contents before or after the operation; the same on the bucket-chain index (DBSimSessions.v) and on the physical index with offsets and free list (PhysCrash.v: crash images of related runs are related and store only well-formed indexes). Tie: the model's call trace is compared call by call (names, offsets, payload of segment writes) with the implementation's; sampled crash images are materialised on both sides and reopened.",
        "assumptions": COMMON_ASSUME + ["process-crash model of the property; index and metadata file writes are single events whose content the theorems do not depend on"],
    },
    "C04": {
        "generators": [{"name": "C04"}],
        "explanation": "Theorem C04_chain: for every finite sequence of (history, crash point) epochs including crashes inside the recovering Open; recover_idempotent; a crash inside a recovering Open on the physical index (PhysCrash.v); a process crash inside a CLEAN Open (PowerLoss3.crash_during_clean_open). Tie: chains of 1-5 epochs on both sides with state dumps (append positions vs file lengths) after every recovery.",
        "assumptions": COMMON_ASSUME,
    },
    "C05": {
        "generators": [{"name": "C05"}],
        "explanation": "Theorems compact_pick_ok, compact_step_ok (each micro-step preserves the contents and the invariants Inv, CInv, MetaOK), writers preserve CInv, db_compact_ok, no resurrection after recovery. PhysConc.phys_creach_ok: any interleaving of compaction picks / micro-steps with writers on the PHYSICAL index returns what the plain map returns, physical invariant in every intermediate state. Tie: Compact alongside goroutines that make the index grow (every key and Count afterwards); Compact stepped yield point by yield point with writer operations in between (also Puts of new keys that split buckets inside the per-record windows), crash inside, dumps; ShapeCheck.compact_order.",
        "assumptions": COMMON_ASSUME,
    },
    "C06": {
        "generators": [{"name": "C06"}],
        "explanation": "PowerLoss.v: C06_synced_writes_survive: for every history of Put/Delete/Sync/compaction steps, every later point and every admissible power-loss image (per file: dropped or torn suffix of unsynced data), recovery succeeds and the contents are those of the last sync point followed by a prefix of the later operations; sensitivity witnesses for the two flushes it needs. PowerLoss2.v: the same over histories of any number of epochs separated by process crashes (any event, torn writes), recovering Opens that may die themselves, kills and Close / reopen, with the sync point before any number of recoveries, and for a power failure in the middle of a recovering Open. PowerLoss3.v: ONE statement for a power failure after ANY number of events of such a history (C06_power_loss_at_any_instant; instant_dichotomy: the lock file exists, or the instant lies in the window after a completed Close), also with process crashes inside clean Opens. PhysPowerLoss.v: the power-loss model for any index, related images in both directions, C06_synced_writes_survive on the physical index. Tie: one data call after a sync point failing once (transient write / fsync error) with Compact in the stretch, a later Sync returning nil, power failure (found D15); power-loss images enumerated per instant from the recorded calls and reopened, also across an earlier process crash; ShapeCheck.seal_syncs / compact_order.",
        "assumptions": COMMON_ASSUME + ["power-loss model exactly as the property words it"],
    },
    "C07": {
        "generators": [{"name": "C07"}],
        "explanation": "Linz.v: every concurrent history (call / return events of any number of threads, each operation taking effect at one atomic action in between, pending operations allowed) of the chain-index database is linearizable in the sense of Herlihy and Wing with respect to the plain map, also with compaction running as background micro-steps (C07_linearizable, C07_linearizable_microsteps, read-your-writes corollary; sensitivity: a Get split in two instants is not). PhysConc.v: the same two theorems for the physical-index database (C07_linearizable_phys, C07_linearizable_microsteps_phys). The atomicity premise is ShapeCheck.all_guarded / single_region over the regenerated lock structure and Conc.pogreb_race_free. Search: porcupine on recorded concurrent histories; readers of acknowledged keys while the database grows; deterministic interleavings of atomic steps (Compact stepped lock section by lock section with index-splitting Puts in the windows and a scan in progress) against the micro-step model and the reference map; a scanner goroutine whose every returned pair must have been put.",
        "assumptions": COMMON_ASSUME + ["sync.RWMutex provides mutual exclusion (trusted)"],
    },
    "C08": {
        "generators": [{"name": "C08"}],
        "explanation": "Theorems over all byte strings about the validating reader (decode_next / parse_tail = segmentIterator.next driven by the recovery iterator); open_recover_ok says what recovery does with its result; the length decoding and the fits-in-the-file guard of segmentIterator.next as TRANSLATED from the source equal the model's for all field values (FuncsRecordCheck.next_sizes_ok). Tie: byte-exact differential run of the recovering Open against the extracted reader and an independent decoder of the documented format on damaged tails.",
        "trusted_base": ["bufio/io.ReadFull semantics; hash/crc32 (cross-checked against Crc.v on every run)"],
        "assumptions": ["process-crash model of the property; the tail is whatever bytes follow the last complete record"],
    },
    "C09": {
        "generators": [{"name": "C09"}],
        "explanation": "PowerLoss.v: C09_closed_is_durable (every admissible power-loss image after a completed Close is the closed directory), C09_reopen (next Open without recovery, closed contents), C09_power_loss_during_reopen; PowerLoss2.v: the same after histories of any number of epochs (C09_reopen_epochs) and a power failure DURING Close (C09_power_loss_during_close); PowerLoss3.v: for histories of epochs, in the window after a completed Close and inside the next clean Open every admissible image opens to EXACTLY the closed contents; PhysPowerLoss.v: on the physical index every admissible image after Close holds exactly the index Close wrote and the clean Open that trusts it answers the closed contents. Tie: power-loss images at every call from the return of Close to the completion of the next Open, reopened; Close with each of its data calls (WriteAt / Sync / Truncate) failing once: whenever it still returns nil, power-loss images right after it; ShapeCheck.close_syncs / close_order.",
        "assumptions": COMMON_ASSUME + ["power-loss model exactly as the property words it"],
    },
    "C10": {
        "generators": [{"name": "C10"}],
        "race": True,
        "explanation": "Coq: lock discipline (all_guarded), lock order (lock_order_ok: ItMu < MaintMu < Mu, TryLock never blocks), Close cancels and joins the worker before locking (close_order), after-Close behaviour of the model. Runtime part (not provable in a functional model): stress of all public methods incl. Close racing with everything under SetPanicOnFault, watchdog, goroutine dump, and the Go race detector.",
        "assumptions": COMMON_ASSUME + ["partial: data races, memory faults and goroutine leaks are runtime behaviours; they are exercised, not proved"],
    },
    "C11": {
        "generators": [{"name": "C11"}],
        "explanation": "DBProofsIter.v: C11_quiescent_scan (each live key exactly once, then done for ever), C11_truthful_at_return and C11_complete_untouched over every interleaving of Next calls with Put / Delete / compaction steps / Sync (cscan), on the chain index incl. splits that move keys during the scan; PhysIterBackup.v: the same statements with the scan running over the physical buckets (call by call equal to the chain scan, physical invariant in every state). Tie: Next call by call compared with the chain-index model, with writers between calls.",
        "assumptions": COMMON_ASSUME,
    },
    "C12": {
        "generators": [{"name": "C12"}],
        "explanation": "DBProofsBackup.v: C12_schedule: for every interleaving of the backup micro-steps with writer operations the backup directory recovers to exactly the snapshot contents and the source is untouched (also when a copy reads a disk between two file-system calls of a writer); PhysIterBackup.C12_schedule_phys: the same on the physical index (the opened backup rebuilds a well-formed physical index). Tie: Backup stepped, also after clean restarts whose first write rolled the log over; at its yield points with writers in between; ShapeCheck.backup_shape.",
        "assumptions": COMMON_ASSUME,
    },
    "C13": {
        "generators": [{"name": "C13"}],
        "explanation": "Lock.v: transition system of the lock-file protocol at system-call granularity, any number of processes, all schedules, death at any point; mutual exclusion, holder owns path and flock, unclean shutdown always detected, loser changes nothing; refutation witnesses for the pinned protocol and for the protocol without the mark byte. Tie: schedules executed with real system calls (yield hooks) and on the extracted model; ShapeCheck.lockfile_shape; database-level histories with fault-injected Opens; histories of Open / Close / Close-again-on-a-closed-handle on fs.OS and fs.OSMMap with the lock file identity checked after every call.",
        "assumptions": ["flock semantics (per open file description, released on close / process death); fstat+stat verification is one atomic step; deaths in the middle of an acquisition holding a descriptor are covered by the theorems only"],
    },
    "C14": {
        "generators": [{"name": "C14"}],
        "explanation": "ShapeCheck.results_copied over the regenerated shapes (Get/GetAppend/fetchItems copy inside the critical section); runtime part: returned slices re-read after overwrites, compaction removing the source segment, Close, under SetPanicOnFault, on all three file systems and on user-written pass-through wrappers of fs.Mem and fs.OSMMap; the caller also writes into the slices Get returned and the stored values are re-read.",
        "assumptions": COMMON_ASSUME + ["partial: aliasing and unmapping are properties of the Go heap and the MMU; exercised, not proved"],
    },
    "C15": {
        "generators": [{"name": "C15"}],
        "explanation": "DBProofsCompact.v: files_exact preserved, compact_removes_files, dir_exact; usability after compaction follows from put_ok/delete_ok/sync_ok/close_ok on the invariant state. DBProofsCompactFix.v: after a quiescent Compact every file belongs to a live segment or is a fixed file, the files of every eligible segment are gone, at most the formerly open segment can be eligible again; two Compacts always reach the fixpoint where every segment is small or dense (one does not: refutation witness, replayed on the code). Tie: churn with Compact and restarts, directory listing and handle counts compared with the model; ConstsCheck.remove_segment_ext.",
        "assumptions": COMMON_ASSUME,
    },
    "C16": {
        "generators": [{"name": "C16"}],
        "explanation": "put_ok for all admissible sizes, put_rejected (state untouched), get/has/delete for every key including over-long ones, limits fit the length fields (regenerated constants); the limit tests of Put and the length fields written by encodeRecord as TRANSLATED from the source equal the model's (put_limits_ok, encode_sizes_ok). Tie: boundary key and value lengths on both sides incl. restart and recovery.",
        "assumptions": COMMON_ASSUME + ["values near 512 MiB are not run through the model (a 512 MiB byte list); the theorem covers them"],
    },
    "C17": {
        "generators": [{"name": "C17"}],
        "explanation": "FSImpl.v: memFile, osFile, osMMapFile refine one abstract file for every admissible call sequence; the mapping is never overrun; the size bookkeeping of osMMapFile (Slice EOF test, WriteAt size update, mremap's test and new mapping size) as TRANSLATED from the source equals FSImpl's (FuncsFSCheck.v). Tie: the same programs on the harness FS, the model, fs.Mem, fs.OS, fs.OSMMap with results and segment bytes compared.",
        "assumptions": ["kernel: pwrite/ftruncate/read semantics and coherence of a shared read-only mapping with later pwrites (trusted)"],
    },
    "C18": {
        "generators": [{"name": "C18"}],
        "explanation": "Round-trip theorems for records, header, buckets, segment names, and for the index files as byte strings (every bucket of main.pix / overflow.pix decodes from its offset, Phys.v); regenerated constants and layouts compared by the kernel; encodedRecordSize / length fields as translated from the source; golden directories written by the pinned version opened by the current build; segments decoded by an independent reader and by the Coq reader.",
        "assumptions": ["gob metadata decoded by encoding/gob (trusted)"],
    },
    "C19": {
        "generators": [{"name": "C19"}],
        "explanation": "parse_alloc_le: for every byte string the reader allocates at most the bytes present; the guard that precedes the allocation in segmentIterator.next, as TRANSLATED from the source, is the model's for all header values, file sizes and offsets (FuncsRecordCheck.next_sizes_ok). Tie: TotalAlloc of the recovering Open for corner and random headers.",
        "assumptions": ["allocation of the index rebuild and of bufio is outside the reader model; covered by the measured bound"],
    },
}
