// Package interp executes the command language of the model driver (/verif/ocaml/driver.ml)
// against the real pogreb code on the tracing file system and prints the same canonical lines.
package interp

import (
	"crypto/md5"
	"encoding/binary"
	"encoding/hex"
	"errors"
	"fmt"
	"hash/crc32"
	"math"
	"os"
	"sort"
	"strconv"
	"strings"

	"github.com/akrylysov/pogreb"

	"verifharness/tfs"
)

// Record is a log record as read by the reference decoder.
type Record struct {
	Off   int
	Del   bool
	Key   []byte
	Value []byte
	Len   int
}

// RefDecode is an independent reader of the documented segment format (docs/design.md): a
// 512-byte header, then records | key size (2B LE) | type bit + value size (4B LE) | key | value |
// CRC-32 IEEE (4B LE) of everything before it |. It returns the records of the longest valid
// prefix, its length (without the header) and why it stopped.
func RefDecode(body []byte) (recs []Record, valid int, why string) {
	pos := 0
	for {
		rest := body[pos:]
		if len(rest) == 0 {
			return recs, pos, "end"
		}
		if len(rest) < 6 {
			return recs, pos, "short"
		}
		ks := int(binary.LittleEndian.Uint16(rest[0:2]))
		w := binary.LittleEndian.Uint32(rest[2:6])
		del := w&(1<<31) != 0
		vs := int(w &^ (1 << 31))
		size := 10 + ks + vs
		if len(rest) < size {
			return recs, pos, "short"
		}
		sum := binary.LittleEndian.Uint32(rest[size-4 : size])
		if sum != crc32.ChecksumIEEE(rest[:size-4]) {
			return recs, pos, "corrupt"
		}
		recs = append(recs, Record{Off: 512 + pos, Del: del, Key: rest[6 : 6+ks], Value: rest[6+ks : 6+ks+vs], Len: size})
		pos += size
	}
}

// Hex encodes bytes ("-" for the empty string).
func Hex(b []byte) string {
	if len(b) == 0 {
		return "-"
	}
	return hex.EncodeToString(b)
}

// Unhex decodes Hex.
func Unhex(s string) []byte {
	if s == "-" {
		return []byte{}
	}
	if s == "nil" {
		return nil // a nil slice argument: for the API the same as an empty one
	}
	b, err := hex.DecodeString(s)
	if err != nil {
		panic("bad hex " + s)
	}
	return b
}

// Impl is the implementation-side interpreter.
type Impl struct {
	FS       *tfs.FS
	Dir      string
	DB       *pogreb.DB
	MaxSeg   uint32
	MinSeg   uint32
	FragBits uint32
	SyncMode bool

	preEvents int // number of events before the last state-changing command
	lastFrom  int
	lastTo    int

	comp    *stepper
	backups map[string]*stepper
	saved   map[string]savedState
	iters   map[string]*pogreb.ItemIterator

	// Abandoned handles (after simulated crashes) are kept alive so that finalizers do nothing odd.
	zombies []*pogreb.DB
}

type savedState struct {
	img map[string][]byte
	dir string
}

// New returns an interpreter on an empty file system.
func New() *Impl {
	pogreb.VerifYield = nil
	return &Impl{FS: tfs.New(), Dir: "db", MaxSeg: math.MaxUint32, MinSeg: 32 << 20, FragBits: 0x3f000000,
		backups: map[string]*stepper{}, saved: map[string]savedState{}}
}

func (im *Impl) opts() *pogreb.Options {
	o := &pogreb.Options{FileSystem: im.FS}
	if im.SyncMode {
		o.BackgroundSyncInterval = -1
	}
	pogreb.VerifSetThresholds(o, im.MaxSeg, im.MinSeg, math.Float32frombits(im.FragBits))
	return o
}

func errName(err error) string {
	s := err.Error()
	switch {
	case strings.Contains(s, "key is too large"):
		return "keytoolarge"
	case strings.Contains(s, "value is too large"):
		return "valuetoolarge"
	case strings.Contains(s, "locked"):
		return "locked"
	case strings.Contains(s, "closed"):
		return "closed"
	}
	return "other:" + s
}

func isSegName(name string) bool { return strings.HasSuffix(name, ".psg") }
func isIndexFile(name string) bool {
	return name == "main.pix" || name == "overflow.pix"
}

// Visible reports whether an event is part of the normalised trace.
func (im *Impl) Visible(e tfs.Event) bool {
	name := tfs.Rel(im.Dir, e.Name)
	switch e.Kind {
	case tfs.Write:
		return isSegName(name)
	case tfs.Truncate:
		return !isIndexFile(name)
	}
	return true
}

func (im *Impl) inDir(e tfs.Event) bool {
	return strings.HasPrefix(e.Name, im.Dir+"/")
}

func (im *Impl) evLine(e tfs.Event) string {
	name := tfs.Rel(im.Dir, e.Name)
	switch e.Kind {
	case tfs.Create:
		return "ev create " + name
	case tfs.Write:
		if e.Off == 0 && len(e.Data) == 512 {
			return fmt.Sprintf("ev write %s 0 512 hdr", name)
		}
		return fmt.Sprintf("ev write %s %d %d %s", name, e.Off, len(e.Data), Hex(e.Data))
	case tfs.Truncate:
		return fmt.Sprintf("ev trunc %s %d", name, e.Size)
	case tfs.Rename:
		return fmt.Sprintf("ev rename %s %s", name, tfs.Rel(im.Dir, e.To))
	case tfs.Remove:
		return "ev remove " + name
	case tfs.Sync:
		return "ev sync " + name
	}
	return "ev ?"
}

// begin marks the start of a state-changing command.
func (im *Impl) begin() { im.lastFrom = im.FS.NumEvents() }

// end returns the normalised trace lines of the command.
func (im *Impl) end() []string {
	im.lastTo = im.FS.NumEvents()
	var out []string
	for _, e := range im.FS.Events(im.lastFrom, im.lastTo) {
		if im.inDir(e) && im.Visible(e) {
			out = append(out, im.evLine(e))
		}
	}
	return out
}

// LastEvents returns the raw events of the last state-changing command.
func (im *Impl) LastEvents() []tfs.Event { return im.FS.Events(im.lastFrom, im.lastTo) }

// LastRange returns the raw event index range of the last state-changing command.
func (im *Impl) LastRange() (int, int) { return im.lastFrom, im.lastTo }

// VisibleCount returns the number of visible events of the last state-changing command.
func (im *Impl) VisibleCount() int {
	n := 0
	for _, e := range im.LastEvents() {
		if im.inDir(e) && im.Visible(e) {
			n++
		}
	}
	return n
}

// rawIndex: number of raw events of the last command before its (i+1)-th visible event.
func (im *Impl) rawIndex(i int) int {
	seen := 0
	evs := im.LastEvents()
	for raw, e := range evs {
		if im.inDir(e) && im.Visible(e) {
			if seen == i {
				return raw
			}
			seen++
		}
	}
	return len(evs)
}

func (im *Impl) abandon() {
	if im.DB != nil {
		im.zombies = append(im.zombies, im.DB)
		im.DB = nil
	}
	if im.comp != nil {
		im.comp.abandon()
		im.comp = nil
	}
}

func (im *Impl) items() (string, error) {
	it := im.DB.Items()
	var l []string
	for {
		k, v, err := it.Next()
		if err == pogreb.ErrIterationDone {
			break
		}
		if err != nil {
			return "", err
		}
		l = append(l, Hex(k)+"="+Hex(v))
	}
	sort.Strings(l)
	return fmt.Sprintf("items %d %s", len(l), strings.Join(l, " ")), nil
}

func b01(b bool) int {
	if b {
		return 1
	}
	return 0
}

func (im *Impl) dump() []string {
	var out []string
	if im.DB == nil {
		out = append(out, "mem closed")
	} else {
		for _, s := range pogreb.VerifSegments(im.DB) {
			out = append(out, fmt.Sprintf("seg %d %d size=%d full=%d put=%d delrec=%d delkeys=%d delbytes=%d",
				s.ID, s.SequenceID, s.Size, b01(s.Meta.Full), s.Meta.PutRecords, s.Meta.DeleteRecords,
				s.Meta.DeletedKeys, s.Meta.DeletedBytes))
		}
		id, name, registered := pogreb.VerifCurrentSegment(im.DB)
		_, seq, _ := pogreb.VerifParseSegmentName(name)
		out = append(out, fmt.Sprintf("cur %d %d removed=%d", id, seq, b01(!registered)))
		out = append(out, fmt.Sprintf("maxseq %d", pogreb.VerifMaxSequenceID(im.DB)))
		out = append(out, fmt.Sprintf("count %d", im.DB.Count()))
		idx, err := pogreb.VerifIndexDump(im.DB)
		if err != nil {
			out = append(out, "idx ERROR "+err.Error())
		}
		segName := map[uint16]string{}
		for _, s := range pogreb.VerifSegments(im.DB) {
			segName[s.ID] = s.Name
		}
		var lines []string
		for _, chain := range idx.Chains {
			for _, b := range chain {
				for _, sl := range b.Slots {
					key := "?"
					if data, ok := im.FS.ReadFile(im.Dir + "/" + segName[sl.SegmentID]); ok {
						from := int(sl.Offset) + 6
						if from+int(sl.KeySize) <= len(data) {
							key = Hex(data[from : from+int(sl.KeySize)])
						}
					}
					lines = append(lines, fmt.Sprintf("idx %s %d %d %d %d %d", key, sl.SegmentID, sl.Offset, sl.KeySize, sl.ValueSize, sl.Hash))
				}
			}
		}
		sort.Strings(lines)
		out = append(out, lines...)
	}
	var dir, files []string
	for _, name := range im.FS.List(im.Dir) {
		dir = append(dir, "dir "+name)
		if isSegName(name) {
			data, _ := im.FS.ReadFile(im.Dir + "/" + name)
			files = append(files, fmt.Sprintf("file %s %d", name, len(data)))
		}
	}
	sort.Strings(dir)
	sort.Strings(files)
	out = append(out, dir...)
	out = append(out, files...)
	return out
}

// physicalSanity checks what the chain model does not represent: every bucket of a chain has a valid,
// distinct offset (main file: header + 512*i; overflow file: 512-aligned, inside the file), no bucket
// is linked twice, linked buckets are disjoint from the free list, the free list has no duplicates,
// numKeys equals the number of occupied slots, occupied slots form a prefix of every bucket.
func (im *Impl) physicalSanity() string {
	idx, err := pogreb.VerifIndexDump(im.DB)
	if err != nil {
		return "walk: " + err.Error()
	}
	seen := map[int64]bool{}
	free := map[int64]bool{}
	for _, off := range idx.Free {
		if free[off] {
			return fmt.Sprintf("offset %d twice in the free list", off)
		}
		if off < 512 || off%512 != 0 || off+512 > idx.OverflowSize {
			return fmt.Sprintf("free offset %d outside the overflow file (size %d)", off, idx.OverflowSize)
		}
		free[off] = true
	}
	slots := 0
	if int(idx.NumBuckets) != len(idx.Chains) {
		return "numBuckets differs from the number of chains"
	}
	if idx.MainSize != 512+512*int64(idx.NumBuckets) {
		return fmt.Sprintf("main file size %d for %d buckets", idx.MainSize, idx.NumBuckets)
	}
	for bi, chain := range idx.Chains {
		for ci, b := range chain {
			if ci == 0 {
				if b.Offset != 512+512*int64(bi) {
					return fmt.Sprintf("bucket %d at main offset %d", bi, b.Offset)
				}
			} else {
				if b.Offset < 512 || b.Offset%512 != 0 || b.Offset+512 > idx.OverflowSize {
					return fmt.Sprintf("overflow bucket of chain %d at offset %d (file size %d)", bi, b.Offset, idx.OverflowSize)
				}
				if seen[b.Offset] {
					return fmt.Sprintf("overflow bucket %d linked twice", b.Offset)
				}
				if free[b.Offset] {
					return fmt.Sprintf("overflow bucket %d is linked and in the free list", b.Offset)
				}
				seen[b.Offset] = true
			}
			empty := false
			for _, sl := range b.Raw {
				if sl.Offset == 0 {
					empty = true
				} else if empty {
					return fmt.Sprintf("chain %d bucket %d: occupied slot after an empty one", bi, ci)
				}
			}
			slots += len(b.Slots)
		}
	}
	if slots != int(idx.NumKeys) {
		return fmt.Sprintf("numKeys %d but %d occupied slots", idx.NumKeys, slots)
	}
	if want := uint32(1)<<idx.Level + idx.Split; want != idx.NumBuckets || idx.Split >= uint32(1)<<idx.Level {
		return fmt.Sprintf("level %d split %d numBuckets %d", idx.Level, idx.Split, idx.NumBuckets)
	}
	return ""
}

func (im *Impl) dumpRecs() []string {
	var out []string
	for _, name := range im.FS.List(im.Dir) {
		if !isSegName(name) {
			continue
		}
		data, _ := im.FS.ReadFile(im.Dir + "/" + name)
		var parts []string
		tail := "-"
		if len(data) >= 512 {
			recs, valid, _ := RefDecode(data[512:])
			for _, r := range recs {
				t := "P"
				if r.Del {
					t = "D"
				}
				parts = append(parts, fmt.Sprintf("%d:%s:%s:%s", r.Off, t, Hex(r.Key), Hex(r.Value)))
			}
			tail = Hex(data[512+valid:])
		}
		out = append(out, fmt.Sprintf("recs %s %s tail=%s", name, strings.Join(parts, ","), tail))
	}
	sort.Strings(out)
	return out
}

func atoi(s string) int {
	n, err := strconv.Atoi(s)
	if err != nil {
		panic(err)
	}
	return n
}

// Exec runs one command and returns its output lines.
func (im *Impl) Exec(line string) (out []string) {
	f := strings.Fields(line)
	if len(f) == 0 || f[0] == "#" {
		return nil
	}
	defer func() {
		if r := recover(); r != nil {
			out = append(out, fmt.Sprintf("%s PANIC %v", f[0], r))
		}
	}()
	closedErr := func(cmd string) []string { return []string{cmd + " err closed"} }
	switch f[0] {
	case "reset":
		im.abandon()
		*im = *New()
		return nil
	case "params":
		im.MaxSeg = uint32(atoi(f[1]))
		im.MinSeg = uint32(atoi(f[2]))
		im.FragBits = uint32(atoi(f[3]))
		im.SyncMode = f[4] == "1"
		return nil
	case "open":
		if im.DB != nil {
			// A second handle on the same directory.
			seed := uint32(atoi(f[1]))
			pogreb.VerifSeedOverride = &seed
			im.begin()
			db2, err := pogreb.Open(im.Dir, im.opts())
			out = im.end()
			if err != nil {
				return append(out, "open err "+errName(err))
			}
			im.zombies = append(im.zombies, db2)
			return append(out, "open ok SECOND-HANDLE")
		}
		seed := uint32(atoi(f[1]))
		pogreb.VerifSeedOverride = &seed
		_, existed := im.FS.ReadFile(im.Dir + "/lock")
		im.begin()
		db, err := pogreb.Open(im.Dir, im.opts())
		out = im.end()
		if err != nil {
			n := errName(err)
			if n != "locked" {
				n = "openfailed"
			}
			return append(out, "open err "+n)
		}
		im.DB = db
		return append(out, fmt.Sprintf("open ok recovered=%d", b01(existed)))
	case "put":
		if im.DB == nil {
			return closedErr("put")
		}
		im.begin()
		err := im.DB.Put(Unhex(f[1]), Unhex(f[2]))
		out = im.end()
		if err != nil {
			return append(out, "put err "+errName(err))
		}
		return append(out, "put ok")
	case "del":
		if im.DB == nil {
			return closedErr("del")
		}
		im.begin()
		err := im.DB.Delete(Unhex(f[1]))
		out = im.end()
		if err != nil {
			return append(out, "del err "+errName(err))
		}
		return append(out, "del ok")
	case "get", "getappend":
		if im.DB == nil {
			return closedErr(f[0])
		}
		var v []byte
		var err error
		if f[0] == "get" {
			v, err = im.DB.Get(Unhex(f[1]))
		} else {
			v, err = im.DB.GetAppend(Unhex(f[1]), Unhex(f[2]))
		}
		if err != nil {
			return []string{f[0] + " err " + errName(err)}
		}
		if v == nil {
			return []string{f[0] + " nil"}
		}
		return []string{f[0] + " val " + Hex(v)}
	case "has":
		if im.DB == nil {
			return closedErr("has")
		}
		ok, err := im.DB.Has(Unhex(f[1]))
		if err != nil {
			return []string{"has err " + errName(err)}
		}
		return []string{fmt.Sprintf("has %d", b01(ok))}
	case "count":
		if im.DB == nil {
			return closedErr("count")
		}
		return []string{fmt.Sprintf("count %d", im.DB.Count())}
	case "items":
		if im.DB == nil {
			return closedErr("items")
		}
		s, err := im.items()
		if err != nil {
			return []string{"items err " + errName(err)}
		}
		return []string{s}
	case "sync":
		if im.DB == nil {
			return closedErr("sync")
		}
		im.begin()
		err := im.DB.Sync()
		out = im.end()
		if err != nil {
			return append(out, "sync err "+errName(err))
		}
		return append(out, "sync ok")
	case "compact":
		if im.DB == nil {
			return closedErr("compact")
		}
		pogreb.VerifYield = nil
		im.begin()
		cr, err := im.DB.Compact()
		out = im.end()
		if err != nil {
			return append(out, "compact err "+errName(err))
		}
		return append(out, fmt.Sprintf("compact ok %d %d %d", cr.CompactedSegments, cr.ReclaimedRecords, cr.ReclaimedBytes))
	case "compactbusy":
		// Compact called while a stepped Backup is in progress (the yield hook of the backup stays
		// installed; it only parks backup.* points): must fail with the "busy" error at once
		if im.DB == nil {
			return closedErr("compact")
		}
		cr, err := im.DB.Compact()
		if err != nil {
			if strings.Contains(err.Error(), "already in progress") || strings.Contains(err.Error(), "busy") {
				return []string{"compact err busy"}
			}
			return []string{"compact err " + errName(err)}
		}
		return []string{fmt.Sprintf("compact ok %d %d %d", cr.CompactedSegments, cr.ReclaimedRecords, cr.ReclaimedBytes)}
	case "close":
		if im.DB == nil {
			return closedErr("close")
		}
		im.begin()
		err := im.DB.Close()
		out = im.end()
		if err != nil {
			return append(out, "close err "+errName(err))
		}
		im.DB = nil
		return append(out, "close ok")
	case "cpick":
		if im.DB == nil {
			return []string{"cpick err closed"}
		}
		im.begin()
		im.comp = startCompaction(im.DB)
		im.comp.waitYield()
		out = im.end()
		return append(out, "cpick ok")
	case "cstep":
		if im.comp == nil {
			return []string{"cstep nocursor"}
		}
		im.begin()
		done := im.comp.resume()
		out = im.end()
		if done {
			c := im.comp
			im.comp = nil
			if c.err != nil {
				return append(out, "cstep err "+errName(c.err))
			}
			return append(out, fmt.Sprintf("cstep done %d %d %d", c.cr.CompactedSegments, c.cr.ReclaimedRecords, c.cr.ReclaimedBytes))
		}
		return append(out, "cstep more")
	case "iternew":
		if im.DB == nil {
			return []string{"iternew err closed"}
		}
		if im.iters == nil {
			im.iters = map[string]*pogreb.ItemIterator{}
		}
		im.iters[f[1]] = im.DB.Items()
		return []string{"iternew ok"}
	case "iternext":
		it := im.iters[f[1]]
		if it == nil {
			return []string{"iternext noiter"}
		}
		var k, v []byte
		var err error
		var pan interface{}
		func() {
			defer func() { pan = recover() }()
			k, v, err = it.Next()
		}()
		if pan != nil {
			// the iterator's own mutex may still be held by the panicking call: drop the iterator
			delete(im.iters, f[1])
			return []string{"iternext panic " + strings.ReplaceAll(fmt.Sprint(pan), " ", "_")}
		}
		if err == pogreb.ErrIterationDone {
			return []string{"iternext done"}
		}
		if err != nil {
			return []string{"iternext err " + errName(err)}
		}
		return []string{"iternext " + Hex(k) + " " + Hex(v)}
	case "dump":
		return im.dump()
	case "dumprecs":
		return im.dumpRecs()
	case "segbytes":
		var parts []string
		for _, name := range im.FS.List(im.Dir) {
			if isSegName(name) {
				data, _ := im.FS.ReadFile(im.Dir + "/" + name)
				parts = append(parts, fmt.Sprintf("%s:%d:%x", name, len(data), md5.Sum(data)))
			}
		}
		sort.Strings(parts)
		return []string{"segbytes " + strings.Join(parts, ",")}
	case "checkinv":
		// implementation side: structural sanity of the real index files (the part of the physical
		// layout the model abstracts from: overflow-bucket offsets and the free list)
		if im.DB != nil {
			if why := im.physicalSanity(); why != "" {
				return []string{"checkinv PHYSICAL " + why}
			}
		}
		return []string{"checkinv ok"}
	case "dumpindex":
		if im.DB == nil {
			return []string{"mem closed"}
		}
		idx, err := pogreb.VerifIndexDump(im.DB)
		if err != nil {
			return []string{"dumpindex err " + err.Error()}
		}
		out = append(out, fmt.Sprintf("lvl %d %d %d %d", idx.Level, idx.Split, idx.NumBuckets, idx.NumKeys))
		for bi, chain := range idx.Chains {
			var bs []string
			for _, b := range chain {
				var ss []string
				for _, sl := range b.Slots {
					ss = append(ss, fmt.Sprintf("%d:%d:%d:%d:%d", sl.Hash, sl.SegmentID, sl.KeySize, sl.ValueSize, sl.Offset))
				}
				bs = append(bs, strings.Join(ss, ","))
			}
			out = append(out, fmt.Sprintf("chain %d %s", bi, strings.Join(bs, " | ")))
		}
		return out
	case "dumpphys":
		if im.DB == nil {
			return []string{"mem closed"}
		}
		idx, err := pogreb.VerifIndexDump(im.DB)
		if err != nil {
			return []string{"dumpphys err " + err.Error()}
		}
		var free []string
		for _, o := range idx.Free {
			free = append(free, fmt.Sprint(o))
		}
		img := func(name string) string {
			data, _ := im.FS.ReadFile(im.Dir + "/" + name)
			return fmt.Sprintf("%d:%x", len(data), md5.Sum(data))
		}
		return []string{fmt.Sprintf("phys %d %d %d %d free=%s main=%s over=%s", idx.Level, idx.Split, idx.NumBuckets, idx.NumKeys,
			strings.Join(free, ","), img("main.pix"), img("overflow.pix"))}
	case "crash":
		i, c := atoi(f[1]), atoi(f[2])
		raw := im.rawIndex(i)
		nfs := tfs.CrashKeepPending(im.FS.Base(), im.FS.Events(0, im.lastTo), im.lastFrom+raw, c)
		im.abandon()
		im.FS = nfs
		im.lastFrom, im.lastTo = 0, 0
		return []string{"crash ok"}
	case "kill":
		nfs := tfs.CrashKeepPending(im.FS.Base(), im.FS.Events(0, im.FS.NumEvents()), im.FS.NumEvents(), 0)
		im.abandon()
		im.FS = nfs
		im.lastFrom, im.lastTo = 0, 0
		return []string{"kill ok"}
	case "save":
		im.saved[f[1]] = savedState{im.FS.Image(), im.Dir}
		return []string{"save ok"}
	case "backup":
		if im.DB == nil {
			return []string{"backup err closed"}
		}
		pogreb.VerifYield = nil
		if err := im.DB.Backup("bk_" + f[1]); err != nil {
			return []string{"backup err " + errName(err)}
		}
		return []string{"backup ok"}
	case "bplan":
		if im.DB == nil {
			return []string{"bplan err closed"}
		}
		st := startBackup(im.DB, "bk_"+f[1])
		im.backups[f[1]] = st
		st.waitYield()
		return []string{"bplan ok"}
	case "bcopy":
		st := im.backups[f[1]]
		if st == nil || st.done {
			return []string{"bcopy none"}
		}
		st.resume()
		if st.done && st.err != nil {
			return []string{"bcopy err " + errName(st.err)}
		}
		return []string{"bcopy ok"}
	case "bfinish":
		st := im.backups[f[1]]
		for st != nil && !st.done {
			st.resume()
		}
		if st != nil && st.err != nil {
			return []string{"bfinish err " + errName(st.err)}
		}
		return []string{"bfinish ok"}
	case "usebackup":
		img := im.FS.Image()
		im.abandon()
		im.FS = tfs.FromImage(img)
		im.lastFrom, im.lastTo = 0, 0
		im.Dir = "bk_" + f[1]
		return []string{"usebackup ok"}
	case "loadseg":
		name := pogreb.VerifSegmentName(uint16(atoi(f[1])), uint64(atoi(f[2])))
		data := Unhex(f[3])
		if len(data) > 0 && (len(data) < 512 || string(data[:8]) != "pogreb\x0e\xfd") {
			return []string{"loadseg badheader"}
		}
		im.FS.WriteFile(im.Dir+"/"+name, data)
		return []string{"loadseg ok"}
	case "appendraw":
		name := pogreb.VerifSegmentName(uint16(atoi(f[1])), uint64(atoi(f[2])))
		data, ok := im.FS.ReadFile(im.Dir + "/" + name)
		if !ok {
			return []string{"appendraw nofile"}
		}
		im.FS.WriteFile(im.Dir+"/"+name, append(data, Unhex(f[3])...))
		return []string{"appendraw ok"}
	case "setlock":
		if f[1] == "1" {
			im.FS.WriteFile(im.Dir+"/lock", nil)
		} else {
			im.FS.DeleteFile(im.Dir + "/lock")
		}
		return []string{"setlock ok"}
	case "parse":
		recs, valid, why := RefDecode(Unhex(f[1]))
		var parts []string
		for _, r := range recs {
			t := "P"
			if r.Del {
				t = "D"
			}
			parts = append(parts, fmt.Sprintf("%s:%s:%s", t, Hex(r.Key), Hex(r.Value)))
		}
		return []string{fmt.Sprintf("parse %d %s %s", valid, why, strings.Join(parts, ","))}
	case "encode":
		return []string{"encode " + Hex(pogreb.VerifEncodeRecord(Unhex(f[2]), Unhex(f[3]), f[1] == "D"))}
	case "crc":
		return []string{fmt.Sprintf("crc %d", crc32.ChecksumIEEE(Unhex(f[1])))}
	case "hash":
		return []string{fmt.Sprintf("hash %d", pogreb.VerifHash(Unhex(f[2]), uint32(atoi(f[1]))))}
	case "echo":
		return []string{"echo " + f[1]}
	}
	return []string{"?? " + line}
}

// ---- goroutines stopped at the verif yield points ----

type stepper struct {
	yield  chan string   // the goroutine announces a yield point
	resum  chan struct{} // the interpreter lets it continue
	finish chan struct{}
	done   bool
	dead   bool
	cr     pogreb.CompactionResult
	err    error
	at     string
}

var errAbandoned = errors.New("abandoned")

func newStepper() *stepper {
	return &stepper{yield: make(chan string), resum: make(chan struct{}), finish: make(chan struct{})}
}

func (s *stepper) hook(point string) {
	s.yield <- point
	<-s.resum
}

// waitYield blocks until the goroutine reaches a yield point or finishes.
func (s *stepper) waitYield() {
	select {
	case p := <-s.yield:
		s.at = p
	case <-s.finish:
		s.done = true
	}
}

// resume lets the goroutine run to its next yield point; true when it has finished.
func (s *stepper) resume() bool {
	if s.done {
		return true
	}
	s.resum <- struct{}{}
	s.waitYield()
	return s.done
}

// abandon leaves the goroutine parked at its yield point for ever (its database handle is
// abandoned too). Letting it run would make it call the hook of a later compaction.
func (s *stepper) abandon() {
	s.dead = true
}

func startCompaction(db *pogreb.DB) *stepper {
	s := newStepper()
	pogreb.VerifYield = func(point string) {
		if strings.HasPrefix(point, "compact.") {
			s.hook(point)
		}
	}
	go func() {
		s.cr, s.err = db.Compact()
		close(s.finish)
	}()
	return s
}

func startBackup(db *pogreb.DB, path string) *stepper {
	s := newStepper()
	pogreb.VerifYield = func(point string) {
		if strings.HasPrefix(point, "backup.") {
			s.hook(point)
		}
	}
	go func() {
		s.err = db.Backup(path)
		close(s.finish)
	}()
	return s
}

// Silence unused import on some build configurations.
var _ = os.ErrClosed
