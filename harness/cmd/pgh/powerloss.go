package main

import (
	"fmt"
	"math"
	"sort"
	"strings"

	"github.com/akrylysov/pogreb"

	"verifharness/interp"
	"verifharness/tfs"
)

// Power-loss checks (C06, C09). The power-loss model of the properties: directory operations are
// durable and ordered; file data is volatile until Sync on that file; at the failure each file keeps
// its content as of its last Sync plus an in-order prefix (last write cut at a 512-aligned offset)
// of the writes and truncations issued on it since.

// plOracle tracks, per key, the value at the last completed Sync and the values written since.
type plOracle struct {
	synced map[string][]byte          // contents as of the last completed Sync
	later  map[string]map[string]bool // per key: acceptable later states ("P"+value or "D")
}

func newPLOracle() *plOracle {
	return &plOracle{synced: map[string][]byte{}, later: map[string]map[string]bool{}}
}

func (o *plOracle) write(k string, v []byte, del bool) {
	if o.later[k] == nil {
		o.later[k] = map[string]bool{}
	}
	if del {
		o.later[k]["D"] = true
	} else {
		o.later[k]["P"+string(v)] = true
	}
}

func (o *plOracle) syncedNow(ref map[string][]byte) {
	o.synced = copyMap(ref)
	o.later = map[string]map[string]bool{}
}

// check returns "" when the contents are acceptable.
func (o *plOracle) check(got map[string][]byte, universe [][]byte) string {
	keys := map[string]bool{}
	for _, k := range universe {
		keys[string(k)] = true
	}
	for k := range got {
		keys[k] = true
	}
	for k := range o.synced {
		keys[k] = true
	}
	var ks []string
	for k := range keys {
		ks = append(ks, k)
	}
	sort.Strings(ks)
	for _, k := range ks {
		v, present := got[k]
		state := "D"
		if present {
			state = "P" + string(v)
		}
		sv, sp := o.synced[k]
		sstate := "D"
		if sp {
			sstate = "P" + string(sv)
		}
		if state == sstate || o.later[k][state] {
			continue
		}
		return fmt.Sprintf("key %s: got %s, synced state %s, later writes %d", interp.Hex([]byte(k)), clip(interp.Hex([]byte(state))), clip(interp.Hex([]byte(sstate))), len(o.later[k]))
	}
	return ""
}

// readAll opens the image in a fresh interpreter and returns the contents.
func readAll(img map[string][]byte, dir string, params string) (resMap map[string][]byte, errs string) {
	defer func() {
		if rec := recover(); rec != nil {
			resMap, errs = nil, fmt.Sprint("panic while reading the reopened database: ", rec)
		}
	}()
	im := interp.New()
	im.FS = tfs.FromImage(img)
	im.Dir = dir
	if params != "" {
		im.Exec(params)
	}
	out := im.Exec("open 12345")
	res := resultLine(out)
	if !strings.HasPrefix(res, "open ok") {
		return nil, res
	}
	got := map[string][]byte{}
	it := im.DB.Items()
	for {
		k, v, err := it.Next()
		if err != nil {
			if err.Error() != "no more items in iterator" {
				return nil, "items: " + err.Error()
			}
			break
		}
		if _, dup := got[string(k)]; dup {
			return nil, "items: duplicate key " + interp.Hex(k)
		}
		got[string(k)] = v
	}
	if int(im.DB.Count()) != len(got) {
		return nil, fmt.Sprintf("count %d but %d items", im.DB.Count(), len(got))
	}
	for k, v := range got {
		gv, err := im.DB.Get([]byte(k))
		if err != nil || string(gv) != string(v) {
			return nil, "get disagrees with items for " + interp.Hex([]byte(k))
		}
	}
	return got, ""
}

// plImages enumerates power-loss images at the instant after n events.
func plImages(r *rng, base map[string][]byte, events []tfs.Event, n int, exhaustive bool) []map[string][]byte {
	d := tfs.DurabilityAt(base, events, n)
	var imgs []map[string][]byte
	none, all := map[int]int{}, map[int]int{}
	for id, ps := range d.Pending {
		all[id] = len(ps)
	}
	imgs = append(imgs, d.Image(none, nil), d.Image(all, nil))
	ids := append([]int(nil), d.Order...)
	// one file keeps j of its pending operations, everything else nothing / everything
	for _, id := range ids {
		ps := d.Pending[id]
		for j := 0; j <= len(ps); j++ {
			if !exhaustive && len(ps) > 4 && j != 0 && j != len(ps) && !r.chance(30) {
				continue
			}
			keepNone := map[int]int{id: j}
			keepAll := map[int]int{}
			for k, v := range all {
				keepAll[k] = v
			}
			keepAll[id] = j
			imgs = append(imgs, d.Image(keepNone, nil), d.Image(keepAll, nil))
			// cut the next write at a sector boundary
			if j < len(ps) && ps[j].Event.Kind == tfs.Write {
				e := ps[j].Event
				for off := (e.Off/512 + 1) * 512; off < e.Off+int64(len(e.Data)); off += 512 {
					imgs = append(imgs, d.Image(keepNone, map[int]int{id: int(off - e.Off)}))
				}
			}
		}
	}
	// random mixtures
	for t := 0; t < 4; t++ {
		keep := map[int]int{}
		for _, id := range ids {
			keep[id] = r.intn(len(d.Pending[id]) + 1)
		}
		imgs = append(imgs, d.Image(keep, nil))
	}
	return imgs
}

type plStats struct {
	instants, images int
}

func paramsCmd(g *G) string {
	for _, s := range g.c.Steps {
		if strings.HasPrefix(s.Cmd, "params ") {
			return s.Cmd
		}
	}
	return ""
}

// genC06: histories with Sync at random points, rollover, compaction, an earlier recovery; power
// failure at sampled instants; every admissible image must reopen to acceptable contents.
func genPowerLoss(prop string) func(r *rng, tier string, res *Result) {
	return func(r *rng, tier string, res *Result) {
		n := scale(tier, 40, 240)
		stats := plStats{}
		var plCases []*Case
		var plImpls [][][]string
		for i := 0; i < n; i++ {
			g := newG(r.fork(), fmt.Sprintf("%s/%d", prop, i))
			g.dumpEvery = 0
			syncMode := i%3 == 2
			g.params([]int{600, 700, 1100, 2048}[g.r.intn(4)], []int{512, 512, 560, 650}[g.r.intn(4)], []float32{0.0001, 0.1, 0.4}[g.r.intn(3)], syncMode)
			g.open()
			g.keys = g.randomKeys(8)
			if i%4 == 1 {
				// many live records per segment: compaction promotes several records, and the
				// destination segment can roll over in the middle of the promotion
				g.keys = g.randomKeys(40)
				g.c.tag("many_live_records")
			}
			o := newPLOracle()
			type inst struct {
				n      int
				oracle *plOracle
			}
			var instants []inst
			if prop == "C09" {
				// history, Close, then power failures from the return of Close to the completion of the next Open
				ops := 5 + g.r.intn(40)
				if i%5 == 4 {
					// Directed: a session that starts with a recovery which truncates a torn tail of N
					// bytes and then appends exactly N bytes: the newest segment is back at the length
					// it had when it was opened, yet all of its tail is new and volatile.
					g.bigValues = true
					for j := 0; j < 2+g.r.intn(3); j++ {
						g.put(g.pick(), g.value())
					}
					before := copyMap(g.ref)
					g.put(g.pick(), g.value())
					var cands [][2]int
					for _, p := range g.crashPoints() {
						if p[1] >= 11 && p[1] <= 400 {
							cands = append(cands, p)
						}
					}
					if len(cands) > 0 {
						p := cands[g.r.intn(len(cands))]
						g.crashLast(before, g.ref, p[0], p[1])
						refill := []byte{0x61}
						g.keys = append(g.keys, refill)
						g.put(refill, g.r.bytes(p[1]-11))
						g.c.tag("recovery_truncation_refilled_to_the_same_length")
						ops = 0
					}
				}
				for j := 0; j < ops; j++ {
					if g.r.chance(70) {
						g.put(g.pick(), g.value())
					} else if g.r.chance(50) {
						g.del(g.pickLive())
					} else if g.r.chance(50) {
						g.compact()
					} else {
						g.sync()
					}
				}
				if i%5 == 2 {
					// the previous session ran WITHOUT sync-after-every-write and was killed; this
					// session runs WITH it, only reads, and closes: Close must flush what recovery
					// inherited from the dead process
					g.params(g.maxSeg, 512, 0.3, false)
					g.close()
					g.open()
					for j := 0; j < 3+g.r.intn(8); j++ {
						g.put(g.pick(), g.value())
					}
					g.do("kill")
					g.isOpen = false
					g.params(g.maxSeg, 512, 0.3, true)
					g.open()
					g.checkAll()
					g.c.tag("read_only_sync_mode_session_after_a_killed_session")
					ops = 0
				}
				if i%5 == 3 {
					// an emptied database whose compaction removes every segment: the next Open has to
					// create a segment file, and the power may fail before its header is flushed
					for len(g.ref) > 0 {
						g.del(g.pickLive())
					}
					g.compact()
					g.compact()
					g.c.tag("emptied_and_compacted_before_close")
				}
				if i%3 == 1 {
					// a session that changes the index through compaction only
					g.close()
					g.open()
					g.compact()
					g.c.tag("compaction_only_session")
				}
				g.close()
				o.syncedNow(g.ref)
				from := g.im.FS.NumEvents()
				g.open()
				to := g.im.FS.NumEvents()
				for k := from; k <= to; k++ {
					instants = append(instants, inst{k, o})
				}
			} else {
				if i%8 == 2 {
					// a torn write that leaves fewer bytes than a record header (1-5), recovery, more
					// writes, a second unclean shutdown: nothing written after the recovery is lost
					g.shortFragmentCrash()
					g.sync()
					o.syncedNow(g.ref)
					g.c.tag("after_a_torn_write_shorter_than_a_header")
				}
				if i%8 == 6 {
					// Directed: segment ids are reused after a compaction, so the newest segment can have
					// a lower file id than an older one. Process crash, recovery, Sync: the Sync must
					// flush the segment that holds the last writes of the crashed process.
					a, b := []byte("ra"), []byte("rb")
					g.keys = append(g.keys, a, b)
					for j := 0; j < 14; j++ {
						v := g.r.bytes(30 + g.r.intn(8))
						o.write(string(a), v, false)
						g.put(a, v)
					}
					g.compact() // frees the lowest file id(s)
					for j := 0; j < 14; j++ {
						v := g.r.bytes(30 + g.r.intn(8))
						o.write(string(b), v, false)
						g.put(b, v) // rolls over into a segment that reuses a freed id
					}
					g.sync()
					o.syncedNow(g.ref)
					v := g.r.bytes(20)
					o.write(string(b), v, false)
					g.put(b, v) // unsynced when the process dies
					if syncMode {
						o.syncedNow(g.ref)
					}
					g.do("kill")
					g.isOpen = false
					g.open()
					g.sync() // everything the recovered database contains is covered now
					o.syncedNow(g.ref)
					g.c.tag("sync_after_recovery_with_reused_segment_id")
				}
				if i%4 == 3 {
					// an earlier recovery (with a torn tail to discard). What the dead process wrote
					// and never synced is still volatile: the contract is unchanged by the recovery.
					g.bigValues = true
					for j := 0; j < 1+g.r.intn(8); j++ {
						k, v := g.pick(), g.value()
						o.write(string(k), v, false)
						g.put(k, v)
						if syncMode {
							o.syncedNow(g.ref)
						}
					}
					before := copyMap(g.ref)
					k, v := g.pick(), g.value()
					o.write(string(k), v, false)
					g.put(k, v)
					pts := g.crashPoints()
					p := pts[g.r.intn(len(pts))]
					g.crashLast(before, g.ref, p[0], p[1])
					g.c.tag("after_recovery")
					if g.r.chance(50) {
						// Sync right after the recovery: everything the database contains now is covered
						g.sync()
						o.syncedNow(g.ref)
					}
				}
				ops := 10 + g.r.intn(60)
				clone := func() *plOracle {
					cp := &plOracle{synced: copyMap(o.synced), later: map[string]map[string]bool{}}
					for k, m := range o.later {
						cp.later[k] = map[string]bool{}
						for s := range m {
							cp.later[k][s] = true
						}
					}
					return cp
				}
				for j := 0; j < ops; j++ {
					pre := g.im.FS.NumEvents()
					var inflight *plOracle // contract while the operation is in flight
					switch x := g.r.intn(100); {
					case x < 50:
						k, v := g.pick(), g.value()
						o.write(string(k), v, false)
						inflight = clone()
						g.put(k, v)
						if syncMode {
							o.syncedNow(g.ref)
						}
					case x < 70:
						k := g.pickLive()
						o.write(string(k), nil, true)
						inflight = clone()
						g.del(k)
						if syncMode {
							o.syncedNow(g.ref)
						}
					case x < 82:
						inflight = clone()
						g.sync()
						o.syncedNow(g.ref)
						g.c.tag("syncs")
					default:
						inflight = clone()
						g.compact()
					}
					post := g.im.FS.NumEvents()
					for k := pre + 1; k <= post; k++ {
						if k == post {
							instants = append(instants, inst{k, clone()})
						} else if g.r.chance(scale(tier, 25, 50)) {
							instants = append(instants, inst{k, inflight})
						}
					}
				}
			}
			base := g.im.FS.Base()
			events := g.im.FS.Events(0, g.im.FS.NumEvents())
			pcmd := paramsCmd(g)
			failed := false
			for _, in := range instants {
				if failed {
					break
				}
				stats.instants++
				for _, img := range plImages(g.r, base, events, in.n, tier == "thorough") {
					stats.images++
					got, errs := readAll(img, g.im.Dir, pcmd)
					why := errs
					if why == "" {
						why = in.oracle.check(got, g.keys)
					}
					if why != "" {
						f := &Finding{Kind: "spec", Case: g.c.Name, Step: len(g.c.Steps) - 1,
							Cmd:      fmt.Sprintf("power failure after file-system event %d of the history", in.n),
							Impl:     []string{why},
							Expected: []string{"opens; every key holds its value as of the last completed Sync or a later write"},
							Program:  cmdsOf(g.c)}
						res.Findings = append(res.Findings, f)
						failed = true
						break
					}
				}
			}
			c, impl := g.finish()
			plCases = append(plCases, c)
			plImpls = append(plImpls, impl)
			if i < 2 {
				res.sample(c, 25)
			}
		}
		// the histories themselves (every call, every file-system event incl. the Syncs) against the model
		runCases(res, plCases, plImpls, !noModel)
		if prop == "C09" {
			c09CloseFaults(r, tier, res)
		}
		if prop == "C06" {
			c06WriteFaults(r, tier, res)
		}
		if res.Tags == nil {
			res.Tags = map[string]int{}
		}
		res.Tags["power_failure_instants"] = stats.instants
		res.Tags["power_loss_images_reopened"] = stats.images
		res.SpecChecked += stats.images
	}
}

// c09CloseFaults: "after Close returns nil" is the premise of C09, so a Close that returns nil must
// have flushed everything -- also when one of its file-system calls failed. The k-th data call of
// Close (WriteAt / Sync / Truncate on an open file) fails once, for every k; when Close nevertheless
// returns nil, power fails right away and every admissible image must reopen to the closed contents.
func c09CloseFaults(r *rng, tier string, res *Result) {
	for _, fam := range []string{"data", "fs", "data-sync", "fs-sync"} {
		syncMode := strings.HasSuffix(fam, "-sync")
		fsLevel := strings.HasPrefix(fam, "fs") // a call on the file system itself (OpenFile / Stat / Remove / Rename) fails
		for k := 0; k < 60; k++ {
			t := tfs.New()
			o := &pogreb.Options{FileSystem: t}
			if syncMode {
				o.BackgroundSyncInterval = -1
			}
			pogreb.VerifSetThresholds(o, 1024, 512, math.Float32frombits(fragBits(0.3)))
			db, err := pogreb.Open("db", o)
			if err != nil {
				return
			}
			ref := map[string][]byte{}
			var keys [][]byte
			nput := 50 + r.intn(20)
			for i := 0; i < nput; i++ {
				kk, vv := []byte(fmt.Sprintf("key-%03d", i%40)), r.bytes(20+r.intn(40))
				if i < 40 {
					keys = append(keys, kk)
				}
				if db.Put(kk, vv) == nil {
					ref[string(kk)] = vv
				}
			}
			for i := 0; i < 40; i += 9 {
				if db.Delete(keys[i]) == nil {
					delete(ref, string(keys[i]))
				}
			}
			if fsLevel {
				t.FailCall = t.Calls + k
			} else {
				t.FailWriteCall = t.WriteCalls + k
			}
			cerr := db.Close()
			reached := t.WriteCalls > t.FailWriteCall
			if fsLevel {
				reached = t.Calls > t.FailCall
			}
			t.FailWriteCall, t.FailCall = -1, -1
			if !reached {
				break // Close makes fewer than k such calls: all injection points done
			}
			res.Tags["close_fault_injection_points"]++
			if cerr != nil {
				continue // Close reported the failure: not a checkpoint, C09 says nothing
			}
			res.Tags["close_returned_nil_despite_a_failing_call"]++
			oracle := newPLOracle()
			oracle.syncedNow(ref)
			pcmd := fmt.Sprintf("params 1024 512 %d %d", fragBits(0.3), b2i(syncMode))
			for _, img := range plImages(r, t.Base(), t.Events(0, t.NumEvents()), t.NumEvents(), tier == "thorough") {
				res.Tags["power_loss_images_reopened"]++
				got, errs := readAll(img, "db", pcmd)
				why := errs
				if why == "" {
					why = oracle.check(got, keys)
				}
				if why != "" {
					res.Findings = append(res.Findings, &Finding{Kind: "spec", Case: fmt.Sprintf("C09/close-fault/%s/%d", fam, k),
						Cmd:      fmt.Sprintf("Close with its data call number %d (WriteAt/Sync/Truncate on an open file) failing once returned nil; power failure right after", k),
						Impl:     []string{why},
						Expected: []string{"after Close returns nil the next Open yields exactly the closed contents"},
						Program:  []string{"open (1 KiB segments, sync-after-every-write=" + fmt.Sprint(syncMode) + ")", fmt.Sprintf("%d x put on 40 keys, 5 x delete", nput), fmt.Sprintf("close with data call %d failing once -> nil", k), "power failure; open"}})
					return
				}
			}
		}
	}
}

// c06WriteFaults: "once Sync has returned" is the premise of C06 whatever happened in between -- also
// when a file-system call of an EARLIER operation failed (a transient fsync or write error: that
// operation reports the error and is not acknowledged). The k-th data call (WriteAt / Sync / Truncate
// on an open file) after a first sync point fails once, for every k; the history goes on; a later Sync
// returns nil; the power fails right after it. Every key must hold its value as of that Sync: the
// value of its last ACKNOWLEDGED write, or -- for a key whose write reported the error -- possibly
// the value of that write.
func c06WriteFaults(r *rng, tier string, res *Result) {
	for _, fam := range []string{"data", "fs", "data-sync", "fs-sync"} {
		syncMode := strings.HasSuffix(fam, "-sync")
		fsLevel := strings.HasPrefix(fam, "fs")
		for k := 0; k < 80; k++ {
			t := tfs.New()
			o := &pogreb.Options{FileSystem: t}
			if syncMode {
				o.BackgroundSyncInterval = -1
			}
			pogreb.VerifSetThresholds(o, 1024, 512, math.Float32frombits(fragBits(0.3)))
			db, err := pogreb.Open("db", o)
			if err != nil {
				return
			}
			oracle := newPLOracle()
			ref := map[string][]byte{}
			var keys [][]byte
			var prog []string
			for i := 0; i < 24; i++ {
				keys = append(keys, []byte(fmt.Sprintf("key-%02d", i)))
			}
			type failed struct {
				k   string
				v   []byte
				del bool
			}
			var fails []failed
			op := func(i int) {
				kk := keys[r.intn(len(keys))]
				if i%7 == 6 {
					if err := db.Delete(kk); err == nil {
						delete(ref, string(kk))
						prog = append(prog, fmt.Sprintf("del %s -> ok", kk))
					} else {
						fails = append(fails, failed{string(kk), nil, true})
						prog = append(prog, fmt.Sprintf("del %s -> error %v", kk, err))
					}
					return
				}
				vv := r.bytes(20 + r.intn(40))
				if err := db.Put(kk, vv); err == nil {
					ref[string(kk)] = vv
					prog = append(prog, fmt.Sprintf("put %s <%d bytes> -> ok", kk, len(vv)))
				} else {
					fails = append(fails, failed{string(kk), vv, false})
					prog = append(prog, fmt.Sprintf("put %s <%d bytes> -> error %v", kk, len(vv), err))
				}
			}
			for i := 0; i < 12+r.intn(10); i++ {
				op(i)
			}
			if err := db.Sync(); err != nil {
				_ = db.Close()
				return
			}
			prog = append(prog, "sync -> ok")
			// the faulty stretch: one data call on an open file fails (WriteAt / Sync / Truncate), or -- second
			// family -- one call on the file system itself (OpenFile / Stat / Remove / Rename / ReadDir: the
			// creation of the next segment, the removal of a compacted one, ...)
			callsBefore := t.Calls
			if fsLevel {
				t.FailCall = t.Calls + k
			} else {
				t.FailWriteCall = t.WriteCalls + k
			}
			nops := 30
			for i := 0; i < nops; i++ {
				op(i)
				if i == 2*nops/3 || i == nops-1 {
					// compaction inside the stretch: its copies, flushes and removals can be the call that
					// fails; whatever it reports, it changes no contents
					_, cerr := db.Compact()
					prog = append(prog, fmt.Sprintf("compact -> %v", cerr))
				}
			}
			reached := t.WriteCalls > t.FailWriteCall
			if fsLevel {
				reached = t.Calls > t.FailCall
				_ = callsBefore
			}
			t.FailWriteCall, t.FailCall = -1, -1
			if !reached {
				_ = db.Close()
				break // fewer than k such calls in the stretch: all injection points done
			}
			res.Tags["write_fault_injection_points"]++
			if fsLevel {
				res.Tags["file_system_call_fault_injection_points"]++
			}
			for i := 0; i < 4+r.intn(6); i++ {
				op(i)
			}
			if err := db.Sync(); err != nil {
				// not a sync point: C06 says nothing
				_ = db.Close()
				continue
			}
			prog = append(prog, "sync -> ok", "power failure")
			oracle.syncedNow(ref)
			for _, f := range fails {
				oracle.write(f.k, f.v, f.del) // an operation that reported an error may or may not have taken effect
			}
			pcmd := fmt.Sprintf("params 1024 512 %d %d", fragBits(0.3), b2i(syncMode))
			for _, img := range plImages(r, t.Base(), t.Events(0, t.NumEvents()), t.NumEvents(), tier == "thorough") {
				res.Tags["power_loss_images_reopened"]++
				got, errs := readAll(img, "db", pcmd)
				why := errs
				if why == "" {
					why = oracle.check(got, keys)
				}
				if why != "" {
					kind := "data call (WriteAt/Sync/Truncate on an open file)"
					if fsLevel {
						kind = "file-system call (OpenFile/Stat/Remove/Rename/ReadDir)"
					}
					res.Findings = append(res.Findings, &Finding{Kind: "spec", Case: fmt.Sprintf("C06/write-fault/%s/%d", fam, k),
						Cmd:      fmt.Sprintf("%s number %d after the first Sync fails once; a later Sync returns nil; power failure", kind, k),
						Impl:     []string{why},
						Expected: []string{"every key holds its value as of the last completed Sync (acknowledged writes; a write that reported the error may or may not count)"},
						Program:  prog})
					_ = db.Close()
					return
				}
			}
			_ = db.Close()
		}
	}
}
