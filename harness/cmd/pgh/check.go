package main

import (
	"flag"
	"fmt"
	"os"

	"verifharness/tfs"
)

var gens = map[string]genFunc{
	"C01": genC01,
	"C02": genC02,
	"C03": genCrash("C03", 1),
	"C04": genCrash("C04", 5),
	"C05": genC05,
	"C08": genC08,
	"C11": genC11,
	"C12": genC12,
	"C15": genC15,
	"C16": genC16,
}

var rules = map[string]string{
	"C01": "seeded online generation: per case a key universe built for the hash seed in effect (keys colliding in the low 8/12/16 hash bits, full 32-bit collisions, random keys), random thresholds, 120-600 API calls; every call is checked against a reference map and replayed on the Coq model with state dumps after every mutation; distinct = distinct command lists with more than 3 commands",
	"C02": "histories cut into 2-5 sessions by Close/Open (including empty sessions) with compactions; state dump before Close, after Close and after Open compared with the model; reference map across sessions",
	"C03": "history, then one state-changing call (Put/Delete/Sync/Compact/Close) interrupted at a random file-system event boundary or 512-aligned offset inside a segment write; reopen; contents must be those before or after the call; later session and a second recovery checked",
	"C04": "chains of 1-5 (history, crash point) epochs incl. crash points inside the recovering Open; after every recovery contents, segment sizes and file lengths are compared with model and reference",
	"C05": "random fill with tiny segments, Compact stepped yield point by yield point with Put/Delete inserted at the yield points, optional crash inside; full comparison after, and again after an unclean reopen",
	"C06": "histories with Sync at random points (both sync modes), rollover, compaction, an earlier recovery; at sampled instants (after any file-system event) power-loss images are built from the recorded calls: nothing unsynced / everything / one file keeps j pending operations with the next write cut at sector boundaries / random mixtures; each image is reopened and every key must hold its value as of the last completed Sync or a later write",
	"C09": "history, Close, next Open; power-loss images at every file-system event from the return of Close to the completion of the next Open; each image must reopen to exactly the closed contents; Close with its k-th data call failing once, for every k: when it returns nil, the images right after it as well",
	"C11": "quiescent scan call by call (each live key exactly once with its value, then done twice) and a scan interleaved with Put/Delete/Compact between Next calls on states with long chains and mid-level split pointers; returned pairs must carry a value that was put for the key; keys untouched during the scan must be returned; the sequence is compared call by call with the chain-index model",
	"C12": "Backup stepped at its yield points (snapshot, each segment copy) with Put/Delete in between (rollover mid-backup with tiny segments), also after a recovery; the opened backup must equal the reference map at the snapshot instant; the source is compared afterwards",
	"C15": "overwrite/delete churn with periodic Compact and clean restarts; after every Compact: directory listing equals the model's (no stray file), open handles = segments + 2, then one of Sync/Put/Delete/Backup/Close+Open must succeed; includes delete-everything-then-compact",
	"C16": "key lengths 0,1,2,255,256,65534,65535 and value lengths around 0, 512, the remainder and the capacity of a segment; over-long keys 65536, 65537, 131071 with a stored key of the truncated length; rejected Put leaves dump and segment bytes unchanged; restart and recovery",
	"C17": "programs of API calls (writes, deletes, compaction, restarts, simulated unclean shutdown with a torn tail) run on the harness file system, compared with the model, then replayed on fs.Mem, fs.OS and fs.OSMMap (real files): every result and the bytes (length + SHA-256) of every segment file after each Close must be identical",
	"C13": "schedules of Acquire / next-system-call / Release / Die events of 2-4 openers of one directory, executed with real system calls (goroutines parked at the yield points between open, flock, fstat/stat, write, unlink, close) and on the extracted Coq model; after every event: who holds the lock, what each finished attempt reported (fresh / existing / locked), whether the lock path exists and is marked; fixed corpus: the historical two-holder interleaving and the flag races",
	"C07": "2-7 goroutines issuing Put/Delete/Get/GetAppend/Has on 2-5 keys with Compact (held at its yield points), Sync, Count, Items, Backup, FileSize in the background; per-key call/return histories checked for linearizability against a register-with-delete specification (porcupine); Count against its bound; sequential interleavings of atomic steps: Compact stepped with Puts of new keys (bucket splits) between its lock sections, compared with the micro-step model",
	"C10": "the same workload on fs.OSMMap, fs.OS and the harness file system with Close racing with everything in every second run, SetPanicOnFault, progress watchdog, goroutine dump after Close; run again under the race detector (pgh-race)",
	"C14": "60-160 API calls on fs.OSMMap / fs.OS / fs.Mem / pass-through wrappers of fs.Mem and fs.OSMMap keeping every slice returned by Get, GetAppend and Next together with a private copy, scribbling over argument slices after each call and over half of the slices Get returned (stored values re-read afterwards); then overwrite all, Compact, delete all, Compact (the segments the values were read from are removed and unmapped), Close; all kept slices re-read under SetPanicOnFault",
	"C18": "golden directories written by the pinned version (growth, rollover+deletes, compaction, chains; clean and unclean) opened by the current build on fs.OS and fs.OSMMap: contents and Count compared, then used, closed and reopened; their segment files decoded by the independent reader and by the Coq reader; encodeRecord and the hash function compared with the model on random inputs",
	"C19": "database + a 6-byte record header (all corners key size 0/1/65535 x value size 0/1/2^20/2^29/2^31-1 x both types, then random) + 0/3/4096 further bytes appended to a segment; runtime.MemStats.TotalAlloc of the recovering Open must stay below 16 x the bytes on disk + 4 MiB; contents as C08",
	"C08": "database + one of 8 kinds of damaged tail appended to a random segment (zeroes, strict prefix, bit flip in key/value/crc, garbage, valid-after-damaged, complete unacknowledged record, flip in length fields, huge claimed sizes); recovering Open compared with an independent decoder of the documented format and with the Coq reader",
}

// extraChecks: oracle-only parts of a property that do not go through the model driver (sizes the
// list-based model cannot run in reasonable time)
var extraChecks = map[string]func(r *rng, tier string, res *Result){
	"C15": func(r *rng, tier string, res *Result) { c15LargeGarbage(r, tier, res); c15LegacyNames(r, tier, res) },
	"C02": func(r *rng, tier string, res *Result) { c02LargeIndex(r, tier, res); c02CloseFaults(r, tier, res) },
	"C16": c16LargeValueOnMMap,
	"C05": func(r *rng, tier string, res *Result) {
		for i := 0; i < scale(tier, 8, 60); i++ {
			n := concCompactGrow(r, tfs.New(), "db", res, fmt.Sprintf("C05/compact-grow/%d", i))
			if res.Tags == nil {
				res.Tags = map[string]int{}
			}
			res.Tags["keys_checked_after_compaction_alongside_growth"] += n
		}
	},
	"C03": cBackgroundDuringRecovery,
	"C04": cBackgroundDuringRecovery,
}

var specialGens = map[string]func(r *rng, tier string, res *Result){
	"C06": genPowerLoss("C06"),
	"C09": genPowerLoss("C09"),
	"C17": genC17,
	"C13": genC13,
	"C07": genC07,
	"C10": genC10,
	"C14": genC14,
	"C18": genC18,
	"C19": genC19,
}

// noModel: skip the comparison with the extracted model (oracle-only search runs)
var noModel bool

func runCheck(args []string) int {
	prop := args[0]
	fl := flag.NewFlagSet("check", flag.ExitOnError)
	seed := fl.Uint64("seed", 1, "seed")
	tier := fl.String("tier", "quick", "quick|thorough")
	out := fl.String("out", "-", "result json")
	model := fl.String("model", modelBin, "model driver binary")
	noModelF := fl.Bool("nomodel", false, "skip the model comparison")
	_ = fl.Parse(args[1:])
	noModel = *noModelF
	modelBin = *model
	r := &rng{*seed*0x9e3779b97f4a7c15 + 12345}
	res := &Result{Property: prop, Seed: *seed, Tier: *tier, Rule: rules[prop]}
	if sg, ok := specialGens[prop]; ok {
		res.Tags = map[string]int{}
		sg(r, *tier, res)
		writeResult(res, *out)
		if len(res.Findings) > 0 {
			return 1
		}
		return 0
	}
	gen, ok := gens[prop]
	if !ok {
		fmt.Fprintln(os.Stderr, "no generator for", prop)
		return 2
	}
	var cases []*Case
	var impls [][][]string
	gen(r, *tier, func(g *G) {
		c, impl := g.finish()
		cases = append(cases, c)
		impls = append(impls, impl)
	})
	if d := os.Getenv("PGH_DUMP_OPS"); d != "" {
		_ = os.MkdirAll(d, 0755)
		for i, c := range cases {
			var b []byte
			for _, st := range c.Steps {
				b = append(b, st.Cmd...)
				b = append(b, '\n')
			}
			_ = os.WriteFile(fmt.Sprintf("%s/%s-%d.ops", d, prop, i), b, 0644)
		}
	}
	runCases(res, cases, impls, !noModel)
	for i := 0; i < len(cases) && i < 2; i++ {
		res.sample(cases[i], 25)
	}
	if extra, ok := extraChecks[prop]; ok {
		extra(r, *tier, res)
	}
	writeResult(res, *out)
	if len(res.Findings) > 0 {
		return 1
	}
	return 0
}
