package main

import (
	"flag"
	"fmt"
	"os"
)

var gens = map[string]genFunc{
	"C01": genC01,
	"C02": genC02,
	"C03": genCrash("C03", 1),
	"C04": genCrash("C04", 5),
	"C05": genC05,
	"C08": genC08,
}

var rules = map[string]string{
	"C01": "seeded online generation: per case a key universe built for the hash seed in effect (keys colliding in the low 8/12/16 hash bits, full 32-bit collisions, random keys), random thresholds, 120-600 API calls; every call is checked against a reference map and replayed on the Coq model with state dumps after every mutation; distinct = distinct command lists with more than 3 commands",
	"C02": "histories cut into 2-5 sessions by Close/Open (including empty sessions) with compactions; state dump before Close, after Close and after Open compared with the model; reference map across sessions",
	"C03": "history, then one state-changing call (Put/Delete/Sync/Compact/Close) interrupted at a random file-system event boundary or 512-aligned offset inside a segment write; reopen; contents must be those before or after the call; later session and a second recovery checked",
	"C04": "chains of 1-5 (history, crash point) epochs incl. crash points inside the recovering Open; after every recovery contents, segment sizes and file lengths are compared with model and reference",
	"C05": "random fill with tiny segments, Compact stepped yield point by yield point with Put/Delete inserted at the yield points, optional crash inside; full comparison after, and again after an unclean reopen",
	"C06": "histories with Sync at random points (both sync modes), rollover, compaction, an earlier recovery; at sampled instants (after any file-system event) power-loss images are built from the recorded calls: nothing unsynced / everything / one file keeps j pending operations with the next write cut at sector boundaries / random mixtures; each image is reopened and every key must hold its value as of the last completed Sync or a later write",
	"C09": "history, Close, next Open; power-loss images at every file-system event from the return of Close to the completion of the next Open; each image must reopen to exactly the closed contents",
	"C08": "database + one of 8 kinds of damaged tail appended to a random segment (zeroes, strict prefix, bit flip in key/value/crc, garbage, valid-after-damaged, complete unacknowledged record, flip in length fields, huge claimed sizes); recovering Open compared with an independent decoder of the documented format and with the Coq reader",
}

var specialGens = map[string]func(r *rng, tier string, res *Result){
	"C06": genPowerLoss("C06"),
	"C09": genPowerLoss("C09"),
}

func runCheck(args []string) int {
	prop := args[0]
	fl := flag.NewFlagSet("check", flag.ExitOnError)
	seed := fl.Uint64("seed", 1, "seed")
	tier := fl.String("tier", "quick", "quick|thorough")
	out := fl.String("out", "-", "result json")
	model := fl.String("model", modelBin, "model driver binary")
	noModel := fl.Bool("nomodel", false, "skip the model comparison")
	_ = fl.Parse(args[1:])
	modelBin = *model
	r := &rng{*seed*0x9e3779b97f4a7c15 + 12345}
	res := &Result{Property: prop, Seed: *seed, Tier: *tier, Rule: rules[prop]}
	if sg, ok := specialGens[prop]; ok {
		sg(r, *tier, res)
		writeResult(res, *out)
		if len(res.Findings) > 0 {
			return 1
		}
		return 0
	}
	gen, ok := gens[prop]
	if !ok {
		fmt.Fprintln(os.Stderr, "no generator for", prop)
		return 2
	}
	var cases []*Case
	var impls [][][]string
	gen(r, *tier, func(g *G) {
		c, impl := g.finish()
		cases = append(cases, c)
		impls = append(impls, impl)
	})
	runCases(res, cases, impls, !*noModel)
	for i := 0; i < len(cases) && i < 2; i++ {
		res.sample(cases[i], 25)
	}
	writeResult(res, *out)
	if len(res.Findings) > 0 {
		return 1
	}
	return 0
}
