package main

import (
	"archive/tar"
	"bytes"
	"compress/gzip"
	"crypto/md5"
	"encoding/hex"
	"encoding/json"
	"fmt"
	"io"
	"math"
	"os"
	"os/exec"
	"path/filepath"
	"runtime"
	"runtime/debug"
	"sort"
	"strings"
	"sync"
	"time"

	"github.com/akrylysov/pogreb"
	"github.com/akrylysov/pogreb/fs"

	"verifharness/interp"
	"verifharness/tfs"
)

// passFS is a FileSystem written by a user of the package: it forwards every call of the
// fs.FileSystem interface to another file system and exposes nothing else.
type passFS struct{ fs.FileSystem }

// ---------------------------------------------------------------- C14: returned slices belong to the caller
func genC14(r *rng, tier string, res *Result) {
	debug.SetPanicOnFault(true)
	n := scale(tier, 30, 500)
	tmp, _ := os.MkdirTemp("", "pgh-c14-")
	defer os.RemoveAll(tmp)
	for i := 0; i < n; i++ {
		name := fmt.Sprintf("C14/%d", i)
		var fsys fs.FileSystem
		dir := filepath.Join(tmp, fmt.Sprintf("d%d", i))
		fsname := ""
		switch i % 5 {
		case 0:
			fsys, fsname = fs.OSMMap, "osmmap"
		case 1:
			fsys, fsname = fs.OS, "os"
		case 2:
			fsys, dir, fsname = fs.Mem, fmt.Sprintf("c14mem-%d-%d", res.Seed, i), "mem"
		case 3:
			// a caller's own FileSystem that forwards every call (metrics, logging, fault injection
			// wrappers are written like this): nothing but the fs.FileSystem interface is visible
			fsys, dir, fsname = passFS{fs.Mem}, fmt.Sprintf("c14wmem-%d-%d", res.Seed, i), "wrapped_mem"
		default:
			fsys, fsname = passFS{fs.OSMMap}, "wrapped_osmmap"
		}
		res.Tags["runs_on_"+fsname]++
		func() {
			var prog []string
			fail := func(what string) {
				res.Findings = append(res.Findings, &Finding{Kind: "spec", Case: name, Cmd: "on fs." + fsname, Impl: []string{what},
					Expected: []string{"returned slices keep their contents and stay readable; arguments are not retained"}, Program: prog})
			}
			defer func() {
				if rec := recover(); rec != nil {
					fail(fmt.Sprint("panic/fault: ", rec))
				}
			}()
			seed := uint32(r.next())
			pogreb.VerifSeedOverride = &seed
			o := &pogreb.Options{FileSystem: fsys}
			pogreb.VerifSetThresholds(o, uint32([]int{700, 1500, 4096}[r.intn(3)]), 512, math.Float32frombits(fragBits(0.0001)))
			db, err := pogreb.Open(dir, o)
			if err != nil {
				fail("open: " + err.Error())
				return
			}
			type held struct {
				what string
				got  []byte
				copy []byte
			}
			var kept []held
			keep := func(what string, b []byte) {
				if b != nil {
					kept = append(kept, held{what, b, append([]byte{}, b...)})
				}
			}
			// the slice is the caller's: appending to it must not reach database memory
			own := func(b []byte) {
				if b != nil {
					_ = append(b, 0xAA, 0xAA, 0xAA, 0xAA, 0xAA, 0xAA, 0xAA, 0xAA, 0xAA, 0xAA, 0xAA, 0xAA, 0xAA, 0xAA, 0xAA, 0xAA)
				}
			}
			ref := map[string][]byte{}
			nkeys := 10
			if i%2 == 1 {
				nkeys = 90 + r.intn(120) // several index buckets: a scan refills its queue several times
			}
			keys := make([][]byte, nkeys)
			for j := range keys {
				keys[j] = r.bytes(1 + r.intn(10))
			}
			if nkeys > 10 {
				for _, k := range keys {
					v := r.bytes(10 + r.intn(60))
					if err := db.Put(k, v); err == nil {
						ref[string(k)] = v
					}
				}
				prog = append(prog, fmt.Sprintf("put %d keys", nkeys))
				res.Tags["runs_with_many_buckets"]++
			}
			ops := 60 + r.intn(100)
			for j := 0; j < ops; j++ {
				k := append([]byte{}, keys[r.intn(len(keys))]...)
				switch x := r.intn(100); {
				case x < 40:
					v := r.bytes(20 + r.intn(200))
					if r.chance(20) {
						v = []byte{}
					}
					kk, vv := append([]byte{}, k...), append([]byte{}, v...)
					if err := db.Put(kk, vv); err != nil {
						fail("put: " + err.Error())
						return
					}
					ref[string(k)] = v
					// the caller may overwrite its slices as soon as the call returns
					for t := range kk {
						kk[t] ^= 0xff
					}
					for t := range vv {
						vv[t] ^= 0xff
					}
					prog = append(prog, "put "+interp.Hex(k)+" + scribble over the arguments")
				case x < 50:
					kk := append([]byte{}, k...)
					_ = db.Delete(kk)
					delete(ref, string(k))
					for t := range kk {
						kk[t] ^= 0xff
					}
					prog = append(prog, "del "+interp.Hex(k))
				case x < 70:
					v, err := db.Get(k)
					if err == nil {
						own(v)
						if r.chance(50) {
							// the slice is the caller's: it may write into it
							for t := range v {
								v[t] ^= 0x5a
							}
							prog = append(prog, "get "+interp.Hex(k)+" (slice kept, overwritten by the caller)")
						} else {
							prog = append(prog, "get "+interp.Hex(k)+" (slice kept)")
						}
						keep("Get("+interp.Hex(k)+")", v)
					}
				case x < 80:
					buf := make([]byte, 3, 3+r.intn(400))
					copy(buf, "buf")
					v, err := db.GetAppend(k, buf)
					if err == nil {
						keep("GetAppend("+interp.Hex(k)+")", v)
					}
					prog = append(prog, "getappend "+interp.Hex(k)+" (slice kept)")
				case x < 88:
					it := db.Items()
					for {
						kk, vv, err := it.Next()
						if err != nil {
							break
						}
						keep("Next key", kk)
						keep("Next value", vv)
						own(kk)
						own(vv)
					}
					prog = append(prog, "items (slices kept)")
				case x < 96:
					_, _ = db.Compact()
					prog = append(prog, "compact")
				default:
					_ = db.Sync()
					prog = append(prog, "sync")
				}
			}
			// what the database holds is what was put, whatever the caller did with its slices
			for k, want := range ref {
				got, err := db.Get([]byte(k))
				if err != nil || got == nil || !bytes.Equal(got, want) {
					fail(fmt.Sprintf("Get(%s) = %s after the caller used its slices, want %s", interp.Hex([]byte(k)), clip(interp.Hex(got)), clip(interp.Hex(want))))
					db.Close()
					return
				}
			}
			// overwrite everything, compact away the segments the values were read from, close
			for _, k := range keys {
				_ = db.Put(k, r.bytes(300))
			}
			_, _ = db.Compact()
			for _, k := range keys {
				_ = db.Delete(k)
			}
			_, _ = db.Compact()
			prog = append(prog, "overwrite all; compact; delete all; compact")
			check := func(when string) bool {
				for _, h := range kept {
					if !bytes.Equal(h.got, h.copy) {
						fail(h.what + " changed " + when)
						return false
					}
				}
				return true
			}
			if !check("after overwrites and compaction") {
				db.Close()
				return
			}
			// the database still holds what was put, not what the caller scribbled
			_ = ref
			if err := db.Close(); err != nil {
				fail("close: " + err.Error())
				return
			}
			prog = append(prog, "close")
			runtime.GC()
			check("after Close")
			res.Tags["slices_kept"] += len(kept)
		}()
		res.Cases++
		res.Distinct++
	}
	// arguments are not retained: contents equal the reference after scribbling (checked through the
	// ordinary generators as well, which pass fresh slices)
	for i := 0; i < scale(tier, 10, 100); i++ {
		t := tfs.New()
		db, err := pogreb.Open("db", &pogreb.Options{FileSystem: t})
		if err != nil {
			continue
		}
		k, v := []byte("key"), []byte("value")
		_ = db.Put(k, v)
		copy(k, "XXX")
		copy(v, "YYYYY")
		got, _ := db.Get([]byte("key"))
		if string(got) != "value" {
			res.Findings = append(res.Findings, &Finding{Kind: "spec", Case: "C14/args", Cmd: "put then scribble", Impl: []string{fmt.Sprintf("Get = %q", got)}, Expected: []string{"value"}, Program: []string{}})
		}
		db.Close()
	}
	// the copy handed to the caller is made while the segment cannot be unmapped: readers of a large
	// value (a copy that takes milliseconds) on the memory-mapped file system, racing with Close and
	// with Delete + Compact removing the segment, must never touch unmapped memory
	for i := 0; i < scale(tier, 8, 80); i++ {
		dir := filepath.Join(tmp, fmt.Sprintf("race%d", i))
		withCompact := i%2 == 1
		fault := c14Race(r, dir, withCompact)
		res.Tags["reads_racing_with_unmapping"]++
		if fault != "" {
			what := "Close"
			if withCompact {
				what = "Delete + Compact"
			}
			res.Findings = append(res.Findings, &Finding{Kind: "spec", Case: fmt.Sprintf("C14/race/%d", i), Cmd: "Get / GetAppend of a large value on fs.OSMMap racing with " + what,
				Impl: []string{clip(fault)}, Expected: []string{"the read returns the value, nil or an error; no fault"},
				Program: []string{"open (fs.OSMMap)", "put big <8 MiB>", "goroutine: loop Get(big) / GetAppend(big, <prefix>)", "main: " + what}})
			break
		}
	}
	// a scan in progress when compaction removes (fs.OSMMap: unmaps) the segment its queued items were
	// read from, or when the database is closed: whatever Next hands out afterwards is the caller's,
	// readable, and something that was stored
	for i := 0; i < scale(tier, 6, 40); i++ {
		useClose := i%3 == 2
		if fault := c10ScanAcrossUnmap(r, filepath.Join(tmp, fmt.Sprintf("scan%d", i)), useClose); fault != "" {
			what := "Compact (the segment is removed and unmapped)"
			if useClose {
				what = "Close"
			}
			res.Findings = append(res.Findings, &Finding{Kind: "spec", Case: fmt.Sprintf("C14/scan-across-unmapping/%d", i), Cmd: "Next after " + what + " on fs.OSMMap",
				Impl: []string{clip(fault)}, Expected: []string{"a pair that was stored, an error, or ErrIterationDone; no memory fault"},
				Program: []string{"open (fs.OSMMap, 1 KiB segments)", "10 x put", "overwrite half (garbage)", "it := Items(); it.Next()", what, "it.Next() ..."}})
			break
		}
		res.Tags["scans_across_unmapping"]++
	}
	res.SpecChecked = res.Tags["slices_kept"]
	res.Samples = append(res.Samples, []byte(`"60-160 calls keeping every returned slice; then overwrite all, Compact, delete all, Compact, Close; all kept slices compared with private copies under SetPanicOnFault"`))
}

// c15LargeGarbage: production-size thresholds (defaults: 4 GiB segments, 32 MiB minimum, threshold
// 0.5). One key with a 1 MiB value overwritten 48 times: about 50 MB in one segment, 98% dead.
// Compact must reclaim it: afterwards the directory holds the live megabyte (plus at most one
// minimum-size segment of slack).
func c15LargeGarbage(r *rng, tier string, res *Result) {
	rounds := scale(tier, 1, 3)
	t := tfs.New()
	db, err := pogreb.Open("big", &pogreb.Options{FileSystem: t})
	if err != nil {
		return
	}
	defer func() {
		if db != nil {
			_ = db.Close()
		}
	}()
	val := r.bytes(1 << 20)
	dirSize := func() int64 {
		var n int64
		for _, nm := range t.List("big") {
			d, _ := t.ReadFile("big/" + nm)
			n += int64(len(d))
		}
		return n
	}
	for round := 0; round < rounds; round++ {
		for i := 0; i < 48; i++ {
			val[0] = byte(i)
			if err := db.Put([]byte("the-key"), val); err != nil {
				return
			}
		}
		before := dirSize()
		cr, err := db.Compact()
		after := dirSize()
		res.Tags["large_garbage_compactions"]++
		bound := int64(32<<20) + 2*(1<<20) + (1 << 20)
		if err != nil || after > bound {
			res.Findings = append(res.Findings, &Finding{Kind: "spec", Case: "C15/large-garbage", Step: round,
				Cmd:      "default thresholds; 48 x Put(the-key, 1 MiB); Compact",
				Impl:     []string{fmt.Sprintf("directory %d bytes before, %d bytes after Compact (result %+v, err %v) for 1 MiB of live data", before, after, cr, err)},
				Expected: []string{fmt.Sprintf("at most %d bytes: the segment is 98%% dead and above the minimum size", bound)},
				Program:  []string{"open (default options)", "48 x put the-key <1 MiB>", "compact"}})
			return
		}
		_ = db.Sync()
	}
}

// c02LargeIndex: a clean restart of a database large enough for the metadata to be large too: 350,000
// keys (index level 9, a free list of about 2000 overflow buckets in index.pmt), Close, Open, Close,
// Open; Count and a sample of the keys after every Open.
func c02LargeIndex(r *rng, tier string, res *Result) {
	dir := fmt.Sprintf("c02big-%d-%d", res.Seed, r.next()%1000000)
	const n = 350000
	key := func(i int) []byte { return []byte(fmt.Sprintf("large-%07d", i)) }
	fail := func(when, what string) {
		res.Findings = append(res.Findings, &Finding{Kind: "spec", Case: "C02/large-index", Cmd: when, Impl: []string{what},
			Expected: []string{"the closed contents, opened without recovery"},
			Program:  []string{"open (fs.Mem, default options)", fmt.Sprintf("%d x put large-NNNNNNN", n), "delete every 1000th key", "close", "open", "close", "open"}})
	}
	db, err := pogreb.Open(dir, &pogreb.Options{FileSystem: fs.Mem})
	if err != nil {
		return
	}
	for i := 0; i < n; i++ {
		if err := db.Put(key(i), []byte{byte(i), byte(i >> 8)}); err != nil {
			fail("put", err.Error())
			return
		}
	}
	want := n
	for i := 0; i < n; i += 1000 {
		_ = db.Delete(key(i))
		want--
	}
	if idx, err := pogreb.VerifIndexDump(db); err == nil {
		res.Tags["large_index_free_list_entries"] = len(idx.Free)
	}
	for session := 1; session <= 2; session++ {
		if err := db.Close(); err != nil {
			fail(fmt.Sprintf("close %d", session), err.Error())
			return
		}
		db, err = pogreb.Open(dir, &pogreb.Options{FileSystem: fs.Mem})
		if err != nil {
			fail(fmt.Sprintf("open after clean close %d", session), err.Error())
			return
		}
		if c := int(db.Count()); c != want {
			fail(fmt.Sprintf("count after clean restart %d", session), fmt.Sprintf("%d, closed with %d", c, want))
			break
		}
		for j := 0; j < 3000; j++ {
			i := r.intn(n)
			v, err := db.Get(key(i))
			if i%1000 == 0 {
				if err != nil || v != nil {
					fail("get of a deleted key after a clean restart", fmt.Sprintf("%v %v", v, err))
					session = 9
					break
				}
				continue
			}
			if err != nil || len(v) != 2 || v[0] != byte(i) || v[1] != byte(i>>8) {
				fail(fmt.Sprintf("get %s after clean restart %d", key(i), session), fmt.Sprintf("%v %v", v, err))
				session = 9
				break
			}
		}
	}
	_ = db.Close()
	res.Tags["large_index_restarts"]++
}

// c02CloseFaults: "Close returned nil" must mean "cleanly closed". The k-th state-changing file-system
// call of Close fails once, for every k: if Close reports the error, the lock file stays and the
// next Open recovers; if Close returns nil, the next Open is a clean one -- either way the contents
// are the ones at Close.
func c02CloseFaults(r *rng, tier string, res *Result) {
	for k := 0; k < 40; k++ {
		t := tfs.New()
		mk := func() *pogreb.Options {
			o := &pogreb.Options{FileSystem: t}
			pogreb.VerifSetThresholds(o, 1024, 512, math.Float32frombits(fragBits(0.3)))
			return o
		}
		db, err := pogreb.Open("db", mk())
		if err != nil {
			return
		}
		ref := map[string]string{}
		for i := 0; i < 30; i++ {
			kk, vv := fmt.Sprintf("cf-%02d", i), strings.Repeat("v", 20+r.intn(40))
			if db.Put([]byte(kk), []byte(vv)) == nil {
				ref[kk] = vv
			}
		}
		for i := 0; i < 30; i += 7 {
			_ = db.Delete([]byte(fmt.Sprintf("cf-%02d", i)))
			delete(ref, fmt.Sprintf("cf-%02d", i))
		}
		t.FailWriteCall = t.WriteCalls + k
		cerr := db.Close()
		reached := t.WriteCalls > t.FailWriteCall
		t.FailWriteCall = -1
		if !reached {
			break // Close makes fewer than k state-changing calls: all injection points done
		}
		res.Tags["close_fault_injection_points"]++
		// the process goes away; descriptors are closed, the directory stays
		t2 := tfs.CrashKeepPending(t.Base(), t.Events(0, t.NumEvents()), t.NumEvents(), 0)
		_, hasLock := t2.Image()["db/lock"]
		what := ""
		if cerr == nil && hasLock {
			what = "Close returned nil but left the lock file"
		}
		if cerr != nil && !hasLock {
			what = "Close returned an error (" + cerr.Error() + ") but removed the lock file"
		}
		if what == "" {
			o := mk()
			o.FileSystem = t2
			db2, err := pogreb.Open("db", o)
			if err != nil {
				what = fmt.Sprintf("Close returned %v; the next Open fails: %v", cerr, err)
			} else {
				if int(db2.Count()) != len(ref) {
					what = fmt.Sprintf("Close returned %v; after the next Open Count() = %d, closed with %d", cerr, db2.Count(), len(ref))
				}
				for kk, vv := range ref {
					if got, _ := db2.Get([]byte(kk)); string(got) != vv && what == "" {
						what = fmt.Sprintf("Close returned %v; after the next Open Get(%s) = %q", cerr, kk, clip(string(got)))
					}
				}
				_ = db2.Close()
			}
		}
		if what != "" {
			res.Findings = append(res.Findings, &Finding{Kind: "spec", Case: fmt.Sprintf("C02/close-fault/%d", k), Cmd: fmt.Sprintf("Close with its state-changing file-system call number %d failing once", k),
				Impl: []string{what}, Expected: []string{"nil from Close means cleanly closed; an error means the next Open recovers; the contents are kept either way"},
				Program: []string{"open", "30 x put, 5 x delete (1 KiB segments)", fmt.Sprintf("close with call %d failing", k), "open"}})
			return
		}
	}
}

// c16LargeValueOnMMap: a value far above any small mapping granularity (130 MiB, a quarter of the
// limit) round-trips on the default memory-mapped file system, in the session that wrote it and
// after a restart.
func c16LargeValueOnMMap(r *rng, tier string, res *Result) {
	tmp, err := os.MkdirTemp("", "pgh-c16-")
	if err != nil {
		return
	}
	defer os.RemoveAll(tmp)
	big := make([]byte, 130<<20)
	for i := range big {
		big[i] = byte(i*13 + i>>9)
	}
	sum := md5.Sum(big)
	what := ""
	func() {
		defer func() {
			if rec := recover(); rec != nil {
				what = fmt.Sprint("panic: ", rec)
			}
		}()
		db, err := pogreb.Open(filepath.Join(tmp, "db"), nil)
		if err != nil {
			what = "open: " + err.Error()
			return
		}
		defer func() { _ = db.Close() }()
		_ = db.Put([]byte("small"), []byte("x"))
		if err := db.Put([]byte("big"), big); err != nil {
			what = "put: " + err.Error()
			return
		}
		v, err := db.Get([]byte("big"))
		if err != nil || len(v) != len(big) || md5.Sum(v) != sum {
			what = fmt.Sprintf("Get right after Put: %d bytes, err %v", len(v), err)
			return
		}
	}()
	if what == "" {
		func() {
			defer func() {
				if rec := recover(); rec != nil {
					what = fmt.Sprint("panic after restart: ", rec)
				}
			}()
			db, err := pogreb.Open(filepath.Join(tmp, "db"), nil)
			if err != nil {
				what = "reopen: " + err.Error()
				return
			}
			defer func() { _ = db.Close() }()
			v, err := db.Get([]byte("big"))
			if err != nil || len(v) != len(big) || md5.Sum(v) != sum {
				what = fmt.Sprintf("Get after restart: %d bytes, err %v", len(v), err)
			}
		}()
	}
	if what != "" {
		res.Findings = append(res.Findings, &Finding{Kind: "spec", Case: "C16/large-value-osmmap", Cmd: "Put and Get of a 130 MiB value, default options (fs.OSMMap)",
			Impl: []string{clip(what)}, Expected: []string{"the value, byte for byte"}, Program: []string{"open (default options)", "put small x", "put big <130 MiB>", "get big", "close", "open", "get big"}})
	}
	res.Tags["large_value_round_trips_on_osmmap"]++
	if tier == "thorough" {
		c16MaxSizeRecovery(tmp, res)
	}
}

// c16MaxSizeRecovery (thorough tier and the search for a failing input; about 2 GB of memory for some
// seconds): the largest legal record -- a value of exactly MaxValueLength under a 100-byte key --
// round-trips, also across an unclean restart (recovery re-reads the record from the segment).
func c16MaxSizeRecovery(tmp string, res *Result) {
	dir := filepath.Join(tmp, "max")
	what := ""
	key := []byte(strings.Repeat("k", 100))
	func() {
		defer func() {
			if rec := recover(); rec != nil {
				what = fmt.Sprint("panic: ", rec)
			}
		}()
		big := make([]byte, pogreb.MaxValueLength)
		for i := 0; i < len(big); i += 4096 {
			big[i] = byte(i >> 12)
		}
		big[len(big)-1] = 0x7e
		db, err := pogreb.Open(dir, nil)
		if err != nil {
			what = "open: " + err.Error()
			return
		}
		_ = db.Put([]byte("before"), []byte("x"))
		if err := db.Put(key, big); err != nil {
			what = "put of a value of MaxValueLength bytes: " + err.Error()
			_ = db.Close()
			return
		}
		big = nil
		_ = db.Put([]byte("after"), []byte("y"))
		if err := db.Close(); err != nil {
			what = "close: " + err.Error()
			return
		}
		// unclean: the lock file is back
		if f, err := os.OpenFile(filepath.Join(dir, "lock"), os.O_CREATE|os.O_RDWR, 0644); err == nil {
			_, _ = f.WriteAt([]byte{1}, 0)
			_ = f.Close()
		}
		runtime.GC()
		db, err = pogreb.Open(dir, nil)
		if err != nil {
			what = "recovering open: " + err.Error()
			return
		}
		defer db.Close()
		if c := db.Count(); c != 3 {
			what = fmt.Sprintf("after recovery Count() = %d, want 3", c)
			return
		}
		v, err := db.Get(key)
		if err != nil || len(v) != pogreb.MaxValueLength || v[len(v)-1] != 0x7e || v[4096*77] != 77 {
			what = fmt.Sprintf("after recovery Get(<100-byte key>) returns %d bytes, err %v; stored %d bytes", len(v), err, pogreb.MaxValueLength)
			return
		}
		if a, _ := db.Get([]byte("after")); string(a) != "y" {
			what = fmt.Sprintf("after recovery Get(after) = %q: the record behind the maximal one is lost", a)
		}
	}()
	if what != "" {
		res.Findings = append(res.Findings, &Finding{Kind: "spec", Case: "C16/max-size-recovery", Cmd: "value of MaxValueLength bytes under a 100-byte key, unclean restart (fs.OSMMap)",
			Impl: []string{clip(what)}, Expected: []string{"the record round-trips byte-exactly, also across recovery"},
			Program: []string{"open (default options)", "put before x", "put <100-byte key> <512 MiB>", "put after y", "close", "re-create the lock file", "open (recovery)", "count; get"}})
	}
	res.Tags["max_size_record_recoveries"]++
}

// cBackgroundDuringRecovery: a database opened with background compaction (and sync) enabled, after
// an unclean shutdown, on a slow device: whatever the background worker does, the recovering Open
// must return the acknowledged contents, and again after further writes and a second crash.
func cBackgroundDuringRecovery(r *rng, tier string, res *Result) {
	for round := 0; round < scale(tier, 3, 20); round++ {
		t := tfs.New()
		mk := func() *pogreb.Options {
			o := &pogreb.Options{FileSystem: t}
			pogreb.VerifSetThresholds(o, 1024, 512, math.Float32frombits(fragBits(0.05)))
			return o
		}
		db, err := pogreb.Open("db", mk())
		if err != nil {
			return
		}
		ref := map[string]string{}
		key := func(i int) string { return fmt.Sprintf("key-%04d", i) }
		for gen := 0; gen < 3; gen++ {
			for i := 0; i < 150; i++ {
				if gen > 0 && r.chance(40) {
					continue
				}
				if gen == 2 && r.chance(15) {
					_ = db.Delete([]byte(key(i)))
					delete(ref, key(i))
					continue
				}
				v := fmt.Sprintf("value-%d-%04d-%s", gen, i, strings.Repeat("x", r.intn(30)))
				if db.Put([]byte(key(i)), []byte(v)) == nil {
					ref[key(i)] = v
				}
			}
		}
		check := func(db *pogreb.DB, when string) bool {
			bad := ""
			if int(db.Count()) != len(ref) {
				bad = fmt.Sprintf("Count() = %d, %d keys acknowledged", db.Count(), len(ref))
			}
			for i := 0; i < 150 && bad == ""; i++ {
				got, err := db.Get([]byte(key(i)))
				want, live := ref[key(i)]
				switch {
				case err != nil:
					bad = fmt.Sprintf("Get(%s): %v", key(i), err)
				case live && string(got) != want:
					bad = fmt.Sprintf("Get(%s) = %q, acknowledged value is %q", key(i), got, want)
				case !live && got != nil:
					bad = fmt.Sprintf("Get(%s) = %q, the key was deleted", key(i), got)
				}
			}
			if bad != "" {
				res.Findings = append(res.Findings, &Finding{Kind: "spec", Case: fmt.Sprintf("recovery-with-background-worker/%d", round), Cmd: when,
					Impl: []string{bad}, Expected: []string{"exactly the acknowledged contents"},
					Program: []string{"3 generations of puts / deletes over 150 keys, 1 KiB segments", "unclean shutdown", "Open with BackgroundCompactionInterval = 200us on a slow device", "5 puts", "unclean shutdown", "Open"}})
				return false
			}
			return true
		}
		crash := func() *tfs.FS {
			n := tfs.CrashKeepPending(t.Base(), t.Events(0, t.NumEvents()), t.NumEvents(), 0)
			return n
		}
		t = crash()
		t.ReadDelay = 300 * time.Microsecond
		o := mk()
		o.BackgroundCompactionInterval = 200 * time.Microsecond
		o.BackgroundSyncInterval = 300 * time.Microsecond
		var db2 *pogreb.DB
		func() {
			defer func() {
				if rec := recover(); rec != nil {
					res.Findings = append(res.Findings, &Finding{Kind: "spec", Case: fmt.Sprintf("recovery-with-background-worker/%d", round), Cmd: "recovering Open",
						Impl: []string{fmt.Sprint("panic: ", rec)}, Expected: []string{"open ok"}, Program: []string{}})
				}
			}()
			db2, err = pogreb.Open("db", o)
		}()
		if db2 == nil || err != nil {
			if err != nil {
				res.Findings = append(res.Findings, &Finding{Kind: "spec", Case: fmt.Sprintf("recovery-with-background-worker/%d", round), Cmd: "recovering Open",
					Impl: []string{err.Error()}, Expected: []string{"open ok"}, Program: []string{}})
			}
			return
		}
		t.ReadDelay = 0
		ok := check(db2, "after the recovering Open (background compaction enabled)")
		if ok {
			for i := 0; i < 5; i++ {
				v := fmt.Sprintf("late-%d", i)
				if db2.Put([]byte(key(i)), []byte(v)) == nil {
					ref[key(i)] = v
				}
			}
		}
		_ = db2.Close() // stops the worker; the crash image below is the state before this Close
		if !ok {
			return
		}
		res.Tags["recoveries_with_background_worker"]++
	}
}

// c14Race returns the text of a fault / panic observed in a reader, or "".
func c14Race(r *rng, dir string, withCompact bool) string {
	o := &pogreb.Options{FileSystem: fs.OSMMap}
	pogreb.VerifSetThresholds(o, 64<<20, 512, math.Float32frombits(fragBits(0.0001)))
	db, err := pogreb.Open(dir, o)
	if err != nil {
		return ""
	}
	big := r.bytes(8 << 20)
	if err := db.Put([]byte("big"), big); err != nil {
		db.Close()
		return ""
	}
	var mu sync.Mutex
	fault := ""
	stop := make(chan struct{})
	var wg sync.WaitGroup
	for g := 0; g < 2; g++ {
		wg.Add(1)
		go func(g int) {
			defer wg.Done()
			defer debug.SetPanicOnFault(debug.SetPanicOnFault(true))
			defer func() {
				if rec := recover(); rec != nil {
					mu.Lock()
					fault = fmt.Sprint("reader faulted while the value was copied out: ", rec)
					mu.Unlock()
				}
			}()
			prefix := make([]byte, 16<<20)
			for {
				select {
				case <-stop:
					return
				default:
				}
				if g == 0 {
					_, _ = db.Get([]byte("big"))
				} else {
					_, _ = db.GetAppend([]byte("big"), prefix[:len(prefix):len(prefix)])
				}
			}
		}(g)
	}
	time.Sleep(time.Duration(1+r.intn(5)) * time.Millisecond)
	if withCompact {
		// make the segment garbage, roll over, compact: the file is unmapped and removed
		for j := 0; j < 6; j++ {
			_ = db.Delete([]byte("big"))
			_ = db.Put([]byte("pad"), big[:1<<20])
			_, _ = db.Compact()
			_ = db.Put([]byte("big"), big)
			time.Sleep(time.Millisecond)
		}
	}
	_ = db.Close()
	close(stop)
	wg.Wait()
	mu.Lock()
	defer mu.Unlock()
	return fault
}

// ---------------------------------------------------------------- C19: recovery cost bounded by the data on disk
// c19OnOS: the same bound on the plain OS file system (whose Slice / read paths allocate on their
// own): a database, an unclean shutdown, a garbage header claiming 256-300 MiB, recovering Open.
func c19OnOS(r *rng, tier string, res *Result) {
	tmp, err := os.MkdirTemp("", "pgh-c19-")
	if err != nil {
		return
	}
	defer os.RemoveAll(tmp)
	hdrs := [][]byte{
		{1, 0, 0, 0, 0, 0x10},          // put, 256 MiB value
		{1, 0, 0, 0, 0, 0x90},          // delete bit set, 256 MiB
		{0xff, 0xff, 0, 0, 0xc0, 0x12}, // 65535-byte key, 300 MiB value
	}
	for hi, hdr := range hdrs {
		for _, fsc := range []struct {
			name string
			fsys fs.FileSystem
		}{{"os", fs.OS}, {"osmmap", fs.OSMMap}} {
			dir := filepath.Join(tmp, fmt.Sprintf("d-%s-%d", fsc.name, hi))
			db, err := pogreb.Open(dir, &pogreb.Options{FileSystem: fsc.fsys})
			if err != nil {
				continue
			}
			for i := 0; i < 100; i++ {
				_ = db.Put([]byte(fmt.Sprintf("k%03d", i)), r.bytes(10+r.intn(20)))
			}
			_ = db.Close()
			_ = os.WriteFile(filepath.Join(dir, "lock"), []byte{1}, 0644)
			seg := filepath.Join(dir, pogreb.VerifSegmentName(0, 1))
			f, err := os.OpenFile(seg, os.O_WRONLY|os.O_APPEND, 0644)
			if err != nil {
				continue
			}
			tail := append(append([]byte{}, hdr...), r.bytes([]int{0, 3, 1000}[hi%3])...)
			_, _ = f.Write(tail)
			_ = f.Close()
			st, _ := os.Stat(seg)
			runtime.GC()
			var m0, m1 runtime.MemStats
			runtime.ReadMemStats(&m0)
			db, err = pogreb.Open(dir, &pogreb.Options{FileSystem: fsc.fsys})
			runtime.ReadMemStats(&m1)
			alloc := int64(m1.TotalAlloc - m0.TotalAlloc)
			bound := 16*st.Size() + (8 << 20)
			if err != nil || alloc > bound {
				res.Findings = append(res.Findings, &Finding{Kind: "spec", Case: fmt.Sprintf("C19/fs.%s/%d", fsc.name, hi),
					Cmd:      "recovering Open on fs." + fsc.name + " with tail " + interp.Hex(hdr) + "...",
					Impl:     []string{fmt.Sprintf("allocated %d bytes for a segment of %d bytes (err %v)", alloc, st.Size(), err)},
					Expected: []string{fmt.Sprintf("at most %d bytes", bound)},
					Program:  []string{"open; 100 x put; close", "write lock file; append " + interp.Hex(tail[:6]) + " + " + fmt.Sprint(len(tail)-6) + " bytes to 00000-1.psg", "open"}})
			}
			if db != nil {
				if c := db.Count(); c != 100 {
					res.Findings = append(res.Findings, &Finding{Kind: "spec", Case: fmt.Sprintf("C19/fs.%s/%d", fsc.name, hi), Cmd: "Count after recovery",
						Impl: []string{fmt.Sprint(c)}, Expected: []string{"100"}, Program: []string{}})
				}
				_ = db.Close()
			}
			res.Tags["recoveries_on_fs_"+fsc.name]++
		}
	}
}

func genC19(r *rng, tier string, res *Result) {
	c19OnOS(r, tier, res)
	n := scale(tier, 60, 5000)
	keySizes := []int{0, 1, 65535}
	valSizes := []uint32{0, 1, 1 << 20, 1 << 29, 1<<31 - 1}
	var cases [][2]interface{}
	_ = cases
	worst := 0.0
	for i := 0; i < n; i++ {
		name := fmt.Sprintf("C19/%d", i)
		g := newG(r.fork(), name)
		g.dumpEvery = 0
		g.params(1<<20, 512, 0.5, false)
		g.open()
		g.keys = g.randomKeys(6)
		for j := 0; j < 3+g.r.intn(20); j++ {
			g.put(g.pick(), g.r.bytes(g.r.intn(300)))
		}
		g.do("kill")
		var hdr [6]byte
		if i < len(keySizes)*len(valSizes)*2 {
			ks := keySizes[i%len(keySizes)]
			vs := valSizes[(i/len(keySizes))%len(valSizes)]
			if (i/(len(keySizes)*len(valSizes)))%2 == 1 {
				vs |= 1 << 31
			}
			hdr[0], hdr[1] = byte(ks), byte(ks>>8)
			hdr[2], hdr[3], hdr[4], hdr[5] = byte(vs), byte(vs>>8), byte(vs>>16), byte(vs>>24)
		} else {
			copy(hdr[:], g.r.bytes(6))
		}
		extra := []int{0, 3, 4096}[g.r.intn(3)]
		tail := append(hdr[:], g.r.bytes(extra)...)
		g.do(fmt.Sprintf("appendraw 0 1 %s", interp.Hex(tail)))
		exp := expectedFromDisk(g.im)
		diskBytes := 0
		for _, nm := range g.im.FS.List(g.im.Dir) {
			d, _ := g.im.FS.ReadFile(g.im.Dir + "/" + nm)
			diskBytes += len(d)
		}
		runtime.GC()
		var m0, m1 runtime.MemStats
		runtime.ReadMemStats(&m0)
		g.open()
		runtime.ReadMemStats(&m1)
		alloc := int(m1.TotalAlloc - m0.TotalAlloc)
		// the model's account of what the reader allocates for this tail
		g.do("palloc " + interp.Hex(tail))
		g.c.Steps[len(g.c.Steps)-2].Expect = []string{"open ok recovered=1"}
		g.ref = exp
		g.checkAll()
		// bound: a small multiple of the bytes on disk (the harness file system copies on read) + slack for the index
		bound := 16*diskBytes + (4 << 20)
		ratio := float64(alloc) / float64(diskBytes)
		if ratio > worst {
			worst = ratio
		}
		if alloc > bound {
			res.Findings = append(res.Findings, &Finding{Kind: "spec", Case: name, Cmd: "recovering Open with tail " + clip(interp.Hex(tail)),
				Impl:     []string{fmt.Sprintf("allocated %d bytes for %d bytes on disk", alloc, diskBytes)},
				Expected: []string{fmt.Sprintf("at most %d bytes", bound)}, Program: cmdsOf(g.c)})
		}
		c, impl := g.finish()
		// palloc is a model-only command: do not compare it
		for si := range c.Steps {
			if strings.HasPrefix(c.Steps[si].Cmd, "palloc ") {
				impl[si] = nil
			}
		}
		res.addCase(c)
		res.Distinct++
		if i < 2 {
			res.sample(c, 20)
		}
		// the recovering Open completes and the contents are those of the valid records (as C08)
		if f := checkSpec(c, impl); f != nil {
			res.Findings = append(res.Findings, f)
		}
	}
	res.Tags["worst_alloc_per_disk_byte_x100"] = int(worst * 100)
	res.SpecChecked = n
}

// replayDirectory: an independent reader of the documented format: segment files in sequence order,
// records decoded by interp.RefDecode, last record of a key wins, delete records remove.
func replayDirectory(img map[string][]byte, dir string) map[string]string {
	type sg struct {
		seq  uint64
		data []byte
	}
	var segs []sg
	for nm, data := range img {
		if !strings.HasPrefix(nm, dir+"/") || !strings.HasSuffix(nm, ".psg") {
			continue
		}
		_, seq, err := pogreb.VerifParseSegmentName(strings.TrimPrefix(nm, dir+"/"))
		if err != nil || len(data) < 512 {
			continue
		}
		segs = append(segs, sg{seq, data[512:]})
	}
	sort.SliceStable(segs, func(i, j int) bool { return segs[i].seq < segs[j].seq })
	out := map[string]string{}
	for _, s := range segs {
		recs, _, _ := interp.RefDecode(s.data)
		for _, rec := range recs {
			if rec.Del {
				delete(out, string(rec.Key))
			} else {
				out[string(rec.Key)] = string(rec.Value)
			}
		}
	}
	return out
}

// ---------------------------------------------------------------- C18: the on-disk format stays version 2
func untar(path, dst string) error {
	f, err := os.Open(path)
	if err != nil {
		return err
	}
	defer f.Close()
	gz, err := gzip.NewReader(f)
	if err != nil {
		return err
	}
	tr := tar.NewReader(gz)
	for {
		h, err := tr.Next()
		if err == io.EOF {
			return nil
		}
		if err != nil {
			return err
		}
		p := filepath.Join(dst, h.Name)
		if h.Typeflag == tar.TypeDir {
			if err := os.MkdirAll(p, 0755); err != nil {
				return err
			}
			continue
		}
		if err := os.MkdirAll(filepath.Dir(p), 0755); err != nil {
			return err
		}
		w, err := os.Create(p)
		if err != nil {
			return err
		}
		if _, err := io.Copy(w, tr); err != nil {
			return err
		}
		w.Close()
	}
}

func readContents(db *pogreb.DB) (map[string]string, error) {
	got := map[string]string{}
	it := db.Items()
	for {
		k, v, err := it.Next()
		if err == pogreb.ErrIterationDone {
			break
		}
		if err != nil {
			return nil, err
		}
		if _, dup := got[hex.EncodeToString(k)]; dup {
			return nil, fmt.Errorf("duplicate key %x", k)
		}
		got[hex.EncodeToString(k)] = hex.EncodeToString(v)
	}
	if int(db.Count()) != len(got) {
		return nil, fmt.Errorf("Count %d, %d items", db.Count(), len(got))
	}
	return got, nil
}

func genC18(r *rng, tier string, res *Result) {
	tmp, _ := os.MkdirTemp("", "pgh-c18-")
	defer os.RemoveAll(tmp)
	archives, _ := filepath.Glob("/verif/golden/*.tar.gz")
	sort.Strings(archives)
	if len(archives) == 0 {
		res.Findings = append(res.Findings, &Finding{Kind: "spec", Case: "C18", Cmd: "golden corpus", Impl: []string{"no archive found under /verif/golden"}, Expected: []string{"golden corpus present"}, Program: []string{}})
		return
	}
	var parseIn bytes.Buffer
	var parseWant []string
	for ai, a := range archives {
		for fi, fsys := range []fs.FileSystem{fs.OS, fs.OSMMap} {
			name := fmt.Sprintf("C18/%s/%d", filepath.Base(a), fi)
			dst := filepath.Join(tmp, fmt.Sprintf("g%d-%d", ai, fi))
			if err := untar(a, dst); err != nil {
				res.Findings = append(res.Findings, &Finding{Kind: "spec", Case: name, Cmd: "untar", Impl: []string{err.Error()}, Program: []string{}})
				continue
			}
			sub, _ := filepath.Glob(filepath.Join(dst, "*"))
			root := sub[0]
			var exp struct {
				Unclean     bool              `json:"unclean"`
				Contents    map[string]string `json:"contents"`
				MaxSeg      uint32            `json:"max_segment_size"`
				PinnedItems []string          `json:"pinned_items"`
				PinnedCount uint32            `json:"pinned_count"`
			}
			b, _ := os.ReadFile(filepath.Join(root, "expected.json"))
			_ = json.Unmarshal(b, &exp)
			fail := func(what string) {
				res.Findings = append(res.Findings, &Finding{Kind: "spec", Case: name, Cmd: "open golden directory written by the pinned version", Impl: []string{clip(what)},
					Expected: []string{fmt.Sprintf("%d keys with the recorded values", len(exp.Contents))}, Program: []string{a}})
			}
			// independent decode of the golden segments, also fed to the Coq reader
			if fi == 0 {
				segs, _ := filepath.Glob(filepath.Join(root, "db", "*.psg"))
				sort.Strings(segs)
				for _, s := range segs {
					data, _ := os.ReadFile(s)
					if len(data) < 512 || len(data) > 200000 {
						continue
					}
					recs, valid, why := interp.RefDecode(data[512:])
					var parts []string
					for _, rc := range recs {
						tp := "P"
						if rc.Del {
							tp = "D"
						}
						parts = append(parts, fmt.Sprintf("%s:%s:%s", tp, interp.Hex(rc.Key), interp.Hex(rc.Value)))
					}
					fmt.Fprintf(&parseIn, "parse %s\n", interp.Hex(data[512:]))
					parseWant = append(parseWant, fmt.Sprintf("parse %d %s %s", valid, why, strings.Join(parts, ",")))
				}
			}
			_, lockErr := os.Stat(filepath.Join(root, "db", "lock"))
			o := &pogreb.Options{FileSystem: fsys}
			if exp.MaxSeg != 0 {
				pogreb.VerifSetThresholds(o, exp.MaxSeg, 512, 0.2)
			}
			pogreb.VerifSeedOverride = nil
			db, err := pogreb.Open(filepath.Join(root, "db"), o)
			if err != nil {
				fail("Open: " + err.Error())
				continue
			}
			if exp.Unclean != (lockErr == nil) {
				fail("lock file presence does not match the recorded kind of shutdown")
			}
			// A cleanly closed directory carries the index the pinned version wrote: the current build must
			// read back exactly what the pinned version itself reads back (pair for pair, Count included;
			// where the pinned version had stored two slots for one key -- its defect D1 -- both are
			// listed). An unclean directory is rebuilt from the log: the contents are what was written.
			var items []string
			it := db.Items()
			for {
				k, v, err := it.Next()
				if err != nil {
					break
				}
				items = append(items, hex.EncodeToString(k)+"="+hex.EncodeToString(v))
			}
			sort.Strings(items)
			nkeys := len(items)
			if !exp.Unclean {
				if strings.Join(items, " ") != strings.Join(exp.PinnedItems, " ") || db.Count() != exp.PinnedCount {
					fail(fmt.Sprintf("%d items, Count %d; the pinned version read %d items, Count %d", len(items), db.Count(), len(exp.PinnedItems), exp.PinnedCount))
				}
			} else {
				var want []string
				for k, v := range exp.Contents {
					want = append(want, k+"="+v)
				}
				sort.Strings(want)
				if strings.Join(items, " ") != strings.Join(want, " ") || int(db.Count()) != len(want) {
					fail(fmt.Sprintf("%d items, Count %d; %d keys were written", len(items), db.Count(), len(want)))
				}
			}
			for k, v := range exp.Contents {
				kb, _ := hex.DecodeString(k)
				gv, err := db.Get(kb)
				if err != nil || gv == nil {
					fail("Get(" + k + ") fails")
					break
				}
				if hex.EncodeToString(gv) != v && exp.Unclean {
					fail("Get(" + k + ") differs")
					break
				}
			}
			// keep using it, close, reopen: still the same format
			_ = db.Put([]byte("c18-new"), []byte("x"))
			if err := db.Close(); err != nil {
				fail("Close: " + err.Error())
			}
			db, err = pogreb.Open(filepath.Join(root, "db"), o)
			if err != nil {
				fail("reopen: " + err.Error())
				continue
			}
			n2 := 0
			it = db.Items()
			for {
				if _, _, err := it.Next(); err != nil {
					break
				}
				n2++
			}
			if n2 != nkeys+1 {
				fail(fmt.Sprintf("after reopen: %d items, expected %d", n2, nkeys+1))
			}
			db.Close()
			res.Cases++
			res.Distinct++
			res.Tags["golden_directories_opened"]++
			res.Tags["golden_keys_compared"] += len(exp.Contents)
		}
	}
	// sequence-numbered segment names: a database whose sequence counter is large (ids are recycled,
	// sequence numbers never are) opens like any other
	for si, seq := range []uint64{65535, 65536, 1 << 32, 1<<63 + 12345} {
		t := tfs.New()
		o := &pogreb.Options{FileSystem: t}
		pogreb.VerifSeedOverride = nil
		db, err := pogreb.Open("db", o)
		if err != nil {
			continue
		}
		for j := 0; j < 20; j++ {
			_ = db.Put([]byte(fmt.Sprintf("k%d", j)), []byte(fmt.Sprintf("v%d", j)))
		}
		_ = db.Close()
		img := t.Image()
		oldName, newName := "db/"+pogreb.VerifSegmentName(0, 1), "db/"+pogreb.VerifSegmentName(0, seq)
		img[newName], img[newName+".pmt"] = img[oldName], img[oldName+".pmt"]
		delete(img, oldName)
		delete(img, oldName+".pmt")
		db, err = pogreb.Open("db", &pogreb.Options{FileSystem: tfs.FromImage(img)})
		what := ""
		if err != nil {
			what = "Open: " + err.Error()
		} else {
			if db.Count() != 20 {
				what = fmt.Sprintf("Count %d", db.Count())
			}
			for j := 0; j < 20 && what == ""; j++ {
				v, _ := db.Get([]byte(fmt.Sprintf("k%d", j)))
				if string(v) != fmt.Sprintf("v%d", j) {
					what = fmt.Sprintf("Get(k%d) = %q", j, v)
				}
			}
			_ = db.Put([]byte("more"), []byte("x"))
			_ = db.Close()
		}
		if what != "" {
			res.Findings = append(res.Findings, &Finding{Kind: "spec", Case: fmt.Sprintf("C18/seq/%d", si), Cmd: fmt.Sprintf("open a directory whose segment has sequence number %d", seq),
				Impl: []string{what}, Expected: []string{"opens with the 20 keys"}, Program: []string{newName}})
		}
		res.Tags["large_sequence_numbers_opened"]++
	}
	// sequence numbers are never reused, also when segment ids are: a history with a compaction that
	// frees a low id, a rollover that reuses it, a clean restart and another rollover; afterwards the
	// names carry distinct sequence numbers, the segment created last carries the largest, and an
	// independent replay of the files in sequence order gives the contents
	for round := 0; round < scale(tier, 2, 10); round++ {
		t := tfs.New()
		mk := func() *pogreb.Options {
			o := &pogreb.Options{FileSystem: t}
			pogreb.VerifSetThresholds(o, 1024, 512, math.Float32frombits(fragBits(0.2)))
			return o
		}
		db, err := pogreb.Open("db", mk())
		if err != nil {
			continue
		}
		ref := map[string]string{}
		put := func(k, v string) {
			if db.Put([]byte(k), []byte(v)) == nil {
				ref[k] = v
			}
		}
		// three segments; everything in the first one becomes garbage; Compact removes only it (id 0)
		for j := 0; j < 9; j++ {
			put(fmt.Sprintf("x%02d", j), strings.Repeat("x", 40))
		}
		for j := 0; j < 18; j++ {
			put(fmt.Sprintf("y%02d", j), strings.Repeat("y", 40))
		}
		for j := 0; j < 9; j++ {
			put(fmt.Sprintf("x%02d", j), strings.Repeat("X", 40))
		}
		_, _ = db.Compact()
		// keep writing until the log rolls over: the new segment reuses id 0 with the largest sequence number
		for j := 0; j < 3+r.intn(5); j++ {
			put(fmt.Sprintf("z%02d", j), strings.Repeat("z", 40))
		}
		_ = db.Close()
		db, err = pogreb.Open("db", mk())
		if err != nil {
			continue
		}
		// after the clean restart: overwrite keys whose records sit in the newest segments, roll over again
		for j := 0; j < 14; j++ {
			put(fmt.Sprintf("z%02d", j), strings.Repeat("Z", 40)+fmt.Sprint(j))
		}
		names := []string{}
		newest, newestSeq := "", uint64(0)
		seen := map[uint64]string{}
		what := ""
		for _, nm := range t.List("db") {
			if !strings.HasSuffix(nm, ".psg") {
				continue
			}
			names = append(names, nm)
			_, seq, err := pogreb.VerifParseSegmentName(nm)
			if err != nil {
				what = "unparsable segment name " + nm
				continue
			}
			if other, dup := seen[seq]; dup {
				what = fmt.Sprintf("segments %s and %s carry the same sequence number", other, nm)
			}
			seen[seq] = nm
			if seq > newestSeq {
				newest, newestSeq = nm, seq
			}
		}
		if id, nm, ok := pogreb.VerifCurrentSegment(db); ok && what == "" && nm != newest {
			what = fmt.Sprintf("the current segment %s (id %d) does not carry the largest sequence number (%s does)", nm, id, newest)
		}
		// independent replay after an unclean shutdown image
		img := tfs.CrashKeepPending(t.Base(), t.Events(0, t.NumEvents()), t.NumEvents(), 0).Image()
		_ = db.Close()
		if what == "" {
			got := replayDirectory(img, "db")
			for k, v := range ref {
				if got[k] != v {
					what = fmt.Sprintf("independent replay in sequence order: %s = %q, written last: %q", k, clip(got[k]), clip(v))
					break
				}
			}
		}
		if what != "" {
			res.Findings = append(res.Findings, &Finding{Kind: "spec", Case: fmt.Sprintf("C18/seqnames/%d", round), Cmd: "segment names after id reuse, clean restart and rollover",
				Impl: []string{what, strings.Join(names, " ")}, Expected: []string{"distinct sequence numbers, the newest segment has the largest, replay in sequence order gives the contents"},
				Program: []string{"12 x put a", "compact", "30 x put b..", "close", "open", "40 x put b..", "list segment files"}})
		}
		res.Tags["sequence_number_histories"]++
	}
	// the golden segments are accepted record for record by the Coq reader
	cmd := exec.Command("sh", "-c", "ulimit -s unlimited 2>/dev/null; exec \"$0\" flat", modelBin)
	cmd.Stdin = &parseIn
	out, err := cmd.Output()
	if err != nil {
		res.Findings = append(res.Findings, &Finding{Kind: "model:flat", Case: "C18", Cmd: "parse", Impl: []string{err.Error()}, Program: []string{}})
	} else {
		lines := strings.Split(strings.TrimSpace(string(out)), "\n")
		for i, w := range parseWant {
			if i >= len(lines) || lines[i] != w {
				got := ""
				if i < len(lines) {
					got = lines[i]
				}
				res.Findings = append(res.Findings, &Finding{Kind: "model:flat", Case: "C18", Step: i, Cmd: "parse golden segment", Impl: []string{clip(w)}, Model: []string{clip(got)}, Program: []string{}})
				break
			}
			res.ModelCompared++
		}
		res.Tags["golden_segments_parsed_by_coq_reader"] = len(parseWant)
	}
	// byte-level cross-checks of the encoders against the model on random inputs
	var enc bytes.Buffer
	var encWant []string
	for i := 0; i < scale(tier, 200, 3000); i++ {
		k, v := r.bytes(r.intn(40)), r.bytes(r.intn(300))
		del := r.chance(20)
		tp := "P"
		if del {
			tp = "D"
			v = nil
		}
		fmt.Fprintf(&enc, "encode %s %s %s\n", tp, interp.Hex(k), interp.Hex(v))
		encWant = append(encWant, "encode "+interp.Hex(pogreb.VerifEncodeRecord(k, v, del)))
		seed := uint32(r.next())
		fmt.Fprintf(&enc, "hash %d %s\n", seed, interp.Hex(k))
		encWant = append(encWant, fmt.Sprintf("hash %d", pogreb.VerifHash(k, seed)))
	}
	cmd = exec.Command(modelBin, "flat")
	cmd.Stdin = &enc
	out, err = cmd.Output()
	if err == nil {
		lines := strings.Split(strings.TrimSpace(string(out)), "\n")
		for i, w := range encWant {
			if i >= len(lines) || lines[i] != w {
				res.Findings = append(res.Findings, &Finding{Kind: "model:flat", Case: "C18", Step: i, Cmd: "encodeRecord / hash", Impl: []string{clip(w)}, Model: []string{clip(lines[min(i, len(lines)-1)])}, Program: []string{}})
				break
			}
			res.ModelCompared++
		}
		res.Tags["records_encoded_by_both"] = len(encWant) / 2
	}
	if b, err := json.Marshal(archives); err == nil {
		res.Samples = append(res.Samples, b)
	}
}

func min(a, b int) int {
	if a < b {
		return a
	}
	return b
}

// c15LegacyNames: a directory whose oldest segment still has the name pogreb 0.9.x gave it
// (`00000.psg` with side file `00000.psg.pmt`: no sequence id in the name; parseSegmentName reads it
// as sequence id 0) is part of "all histories of ... clean restarts" for anybody who upgraded. After
// Compact has compacted that segment, it and ITS side file are gone, and every remaining file belongs
// to a live segment, the index, the database metadata or the lock.
func c15LegacyNames(r *rng, tier string, res *Result) {
	for round := 0; round < scale(tier, 2, 8); round++ {
		t := tfs.New()
		mk := func() *pogreb.Options {
			o := &pogreb.Options{FileSystem: t}
			pogreb.VerifSetThresholds(o, 1024, 512, math.Float32frombits(fragBits(0.3)))
			return o
		}
		name := fmt.Sprintf("C15/legacy-segment-name/%d", round)
		var prog []string
		fail := func(cmd, what string) {
			res.Findings = append(res.Findings, &Finding{Kind: "spec", Case: name, Cmd: cmd, Impl: []string{what},
				Expected: []string{"compacted segments are gone with their side files; every remaining file belongs to a live segment, the index, the metadata or the lock; the contents are kept"}, Program: prog})
		}
		db, err := pogreb.Open("lg", mk())
		if err != nil {
			return
		}
		ref := map[string]string{}
		nk := 20 + r.intn(20)
		put := func() bool {
			for i := 0; i < nk; i++ {
				k, v := fmt.Sprintf("legacy-%02d", i), string(r.bytes(20+r.intn(30)))
				if err := db.Put([]byte(k), []byte(v)); err != nil {
					fail("put", err.Error())
					return false
				}
				ref[k] = v
			}
			return true
		}
		if !put() {
			return
		}
		prog = append(prog, fmt.Sprintf("open (1 KiB segments); %d x put; close", nk))
		if err := db.Close(); err != nil {
			return
		}
		if err := t.Rename("lg/00000-1.psg", "lg/00000.psg"); err != nil {
			return
		}
		if err := t.Rename("lg/00000-1.psg.pmt", "lg/00000.psg.pmt"); err != nil {
			return
		}
		prog = append(prog, "rename 00000-1.psg -> 00000.psg, 00000-1.psg.pmt -> 00000.psg.pmt (the names of pogreb 0.9.x)")
		db, err = pogreb.Open("lg", mk())
		if err != nil {
			fail("open", err.Error())
			return
		}
		// every file of the directory is accounted for
		audit := func(when string, closed bool) bool {
			live := map[string]bool{}
			files := map[string]bool{}
			for _, nm := range t.List("lg") {
				files[nm] = true
			}
			if !closed {
				for _, sg := range pogreb.VerifSegments(db) {
					live[sg.Name] = true
				}
			}
			var stray []string
			for nm := range files {
				switch {
				case nm == "main.pix" || nm == "overflow.pix" || nm == "index.pmt" || nm == "db.pmt" || nm == "lock":
				case strings.HasSuffix(nm, ".psg.pmt"):
					if !files[strings.TrimSuffix(nm, ".pmt")] {
						stray = append(stray, nm+" (side file of no segment)")
					}
				case strings.HasSuffix(nm, ".psg"):
					if !closed && !live[nm] {
						stray = append(stray, nm+" (not a live segment)")
					}
					if closed && !files[nm+".pmt"] {
						stray = append(stray, nm+" (closed without its side file)")
					}
				default:
					stray = append(stray, nm)
				}
			}
			sort.Strings(stray)
			if len(stray) > 0 {
				fail(when, "files that belong to nothing: "+strings.Join(stray, ", "))
				return false
			}
			return true
		}
		same := func(when string) bool {
			if int(db.Count()) != len(ref) {
				fail(when, fmt.Sprintf("Count() = %d, want %d", db.Count(), len(ref)))
				return false
			}
			for k, v := range ref {
				if got, err := db.Get([]byte(k)); err != nil || string(got) != v {
					fail(when, fmt.Sprintf("Get(%s) = %q, %v", k, clip(string(got)), err))
					return false
				}
			}
			return true
		}
		if !same("after the reopen") || !audit("after the reopen", false) {
			db.Close()
			return
		}
		if !put() || !put() {
			db.Close()
			return
		}
		cr, err := db.Compact()
		prog = append(prog, "open; overwrite every key twice; compact")
		if err != nil || cr.CompactedSegments == 0 {
			fail("compact", fmt.Sprintf("Compact = %+v, %v", cr, err))
			db.Close()
			return
		}
		res.Tags["legacy_named_segment_compacted"]++
		if !audit("after Compact", false) || !same("after Compact") {
			db.Close()
			return
		}
		if err := db.Sync(); err != nil {
			fail("sync", err.Error())
		}
		if err := db.Close(); err != nil {
			fail("close", err.Error())
			return
		}
		prog = append(prog, "close; open")
		if !audit("after Close", true) {
			return
		}
		db, err = pogreb.Open("lg", mk())
		if err != nil {
			fail("open", err.Error())
			return
		}
		ok := same("after the restart") && audit("after the restart", false)
		if ok && put() {
			_, _ = db.Compact()
			_ = audit("after the second Compact", false) && same("after the second Compact")
		}
		_ = db.Close()
		res.Cases++
		if len(res.Findings) > 0 {
			return
		}
	}
}
