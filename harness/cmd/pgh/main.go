package main

import (
	"bufio"
	"fmt"
	"os"

	"verifharness/interp"
)

func main() {
	if len(os.Args) < 2 {
		fmt.Fprintln(os.Stderr, "usage: pgh run <opsfile> | pgh check <property> [flags]")
		os.Exit(2)
	}
	switch os.Args[1] {
	case "run":
		f, err := os.Open(os.Args[2])
		if err != nil {
			panic(err)
		}
		im := interp.New()
		sc := bufio.NewScanner(f)
		sc.Buffer(make([]byte, 1<<20), 1<<30)
		w := bufio.NewWriter(os.Stdout)
		for sc.Scan() {
			for _, l := range im.Exec(sc.Text()) {
				fmt.Fprintln(w, l)
			}
		}
		w.Flush()
	default:
		os.Exit(runCheck(os.Args[2:]))
	}
}
