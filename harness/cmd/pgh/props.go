package main

import (
	"fmt"
	"strings"

	"github.com/akrylysov/pogreb"

	"verifharness/interp"
)

type genFunc func(r *rng, tier string, add func(g *G))

func scale(tier string, quick, thorough int) int {
	if tier == "thorough" {
		return thorough
	}
	return quick
}

// ---------------------------------------------------------------- C01: map semantics
func genC01(r *rng, tier string, add func(g *G)) {
	n := scale(tier, 60, 360)
	for i := 0; i < n; i++ {
		g := newG(r.fork(), fmt.Sprintf("C01/%d", i))
		g.randomParams()
		g.open()
		switch i % 4 {
		case 0: // one long chain that survives splits: keys equal in the low 16 hash bits
			g.keys = g.collidingKeys(40+g.r.intn(40), 16, "c")
			g.keys = append(g.keys, g.randomKeys(10)...)
		case 1: // full 32-bit collisions plus low-bit collisions
			g.keys = g.fullCollisions(6, "f")
			g.keys = append(g.keys, g.collidingKeys(36, 12, "d")...)
		case 2: // many fresh keys: splits
			g.keys = g.randomKeys(150)
			g.keys = append(g.keys, []byte{})
		default:
			g.keys = append(g.collidingKeys(70, 8, "e"), g.randomKeys(20)...)
		}
		ops := scale(tier, 120, 220) + g.r.intn(100)
		if i%8 == 4 {
			// Directed: a chain that is still longer than two full buckets when its bucket is split
			// (the slot writer of index.split then links more than one new overflow bucket): 100+ keys
			// equal in the low 12 hash bits, all live at the same time.
			g.keys = g.collidingKeys(100+g.r.intn(40), 12, "L")
			for j, k := range g.keys {
				g.put(k, g.value())
				if j >= 60 && j%9 == 0 {
					g.get(g.keys[g.r.intn(j)])
					g.count()
				}
			}
			g.checkAll()
			g.c.tag("directed_long_chain_split")
			ops = 40
		}
		if i%8 == 2 {
			// Directed: an overflow chain with a HOLE in its head bucket (a delete, no refill), then
			// index growth through keys of other buckets until that bucket itself is split: the split
			// must carry over the slots behind the hole
			target := uint32(g.r.next())
			coll := g.collidingKeysAt(38+g.r.intn(6), 12, target, "H")
			// the growth comes from keys of ANOTHER bucket (lowest hash bit differs), so the hole is
			// not refilled before the split
			others := g.collidingKeysAt(60+g.r.intn(30), 12, target^1, "G")
			g.keys = append(append([][]byte{}, coll...), others...)
			every := g.dumpEvery
			g.dumpEvery = 25 // (full state dumps are expensive on the list-based model)
			for _, k := range coll {
				g.put(k, g.value())
			}
			g.del(coll[g.r.intn(20)])
			for _, k := range others {
				g.put(k, g.value())
			}
			g.dumpEvery = every
			g.dump()
			g.checkAll()
			for _, k := range coll {
				g.get(k)
			}
			g.c.tag("directed_split_of_a_chain_with_a_hole")
			ops = 30
		}
		// Directed prefix: fill a chain past one bucket, open a hole early in it, re-put a late key.
		if i%4 != 2 && i%8 != 4 && i%8 != 2 && len(g.keys) >= 34 {
			for _, k := range g.keys[:34] {
				g.put(k, g.value())
			}
			g.del(g.keys[g.r.intn(20)])
			late := g.keys[32+g.r.intn(2)]
			g.put(late, g.value())
			g.del(late)
			g.get(late)
			g.count()
			g.c.tag("directed_hole_reput")
		}
		for j := 0; j < ops; j++ {
			g.randomOp()
		}
		g.checkAll()
		g.do("dumprecs")
		add(g)
	}
}

// ---------------------------------------------------------------- C02: clean restart
// directed: the free list of overflow buckets across clean restarts. A long chain is split (its old
// overflow buckets go to the free list); a later session takes a bucket from the free list without
// changing the key count or the table shape; restarts in between; then more overflow allocations.
func genC02FreeList(r *rng, tier string, add func(g *G)) {
	n := scale(tier, 4, 16)
	for i := 0; i < n; i++ {
		g := newG(r.fork(), fmt.Sprintf("C02/freelist/%d", i))
		g.dumpEvery = 0
		g.params(1<<16, 512, 0.5, false)
		g.open()
		coll := g.collidingKeys(70, 16, "f")
		others := g.randomKeys(400)
		g.keys = append(append([][]byte{}, coll...), others[:20]...)
		for _, k := range coll[:62] {
			g.put(k, g.r.bytes(4))
		}
		free := 0
		for j := 0; j < len(others) && free == 0; j++ {
			g.put(others[j], g.r.bytes(4))
			if idx, err := pogreb.VerifIndexDump(g.im.DB); err == nil {
				free = len(idx.Free)
			}
		}
		if free == 0 {
			continue
		}
		g.c.tag("free_list_nonempty_at_close")
		g.dump()
		g.close()
		g.open()
		g.c.Steps[len(g.c.Steps)-1].Expect = []string{"open ok recovered=0"}
		g.dump()
		// same key count, same table shape, but one bucket leaves the free list
		g.del(others[0])
		g.put(coll[62], g.r.bytes(4))
		g.dump()
		g.close()
		g.open()
		g.c.Steps[len(g.c.Steps)-1].Expect = []string{"open ok recovered=0"}
		g.dump()
		for _, k := range coll[63:] {
			g.put(k, g.r.bytes(4))
		}
		for _, k := range others[20:60] {
			g.put(k, g.r.bytes(4))
		}
		g.dump()
		g.checkAll()
		for _, k := range coll {
			g.get(k)
		}
		add(g)
	}
}

// directed: a database that has grown (several buckets, an overflow chain on bucket 0) and is then
// EMPTIED before a clean Close: the table keeps its shape (delete never unlinks buckets), and the
// next session must find an empty, fully usable database.
func genC02Emptied(r *rng, tier string, add func(g *G)) {
	n := scale(tier, 3, 12)
	for i := 0; i < n; i++ {
		g := newG(r.fork(), fmt.Sprintf("C02/emptied/%d", i))
		g.dumpEvery = 0
		g.params(1<<16, 512, 0.5, false)
		g.open()
		g.keys = append(g.collidingKeys(40+g.r.intn(30), 14, "z"), g.randomKeys(10)...)
		for _, k := range g.keys {
			g.put(k, g.r.bytes(3))
		}
		g.dump()
		for _, k := range g.keys {
			g.del(k)
		}
		g.count()
		g.dump()
		g.close()
		g.open()
		g.c.Steps[len(g.c.Steps)-1].Expect = []string{"open ok recovered=0"}
		g.dump()
		g.get([]byte("never-stored"))
		g.checkAll()
		for _, k := range g.keys[:20] {
			g.put(k, g.r.bytes(5))
		}
		g.checkAll()
		g.dump()
		g.close()
		g.open()
		g.checkAll()
		g.c.tag("emptied_grown_index_restart")
		add(g)
	}
}

// directed: an index of 7-20 buckets at a clean Close, growth (splits) in the next session, another
// clean restart: the bucket files are exactly as long as their buckets, new buckets land where
// bucketOffset looks for them.
func genC02Grow(r *rng, tier string, add func(g *G)) {
	n := scale(tier, 3, 12)
	for i := 0; i < n; i++ {
		g := newG(r.fork(), fmt.Sprintf("C02/grow/%d", i))
		g.dumpEvery = 0
		g.params(1<<16, 512, 0.5, false)
		g.open()
		g.keys = g.randomKeys(420)
		first := 135 + g.r.intn(200)
		for _, k := range g.keys[:first] {
			g.put(k, g.r.bytes(4))
		}
		g.dump()
		g.close()
		g.open()
		g.c.Steps[len(g.c.Steps)-1].Expect = []string{"open ok recovered=0"}
		g.dump()
		for _, k := range g.keys[first : first+60] {
			g.put(k, g.r.bytes(4))
		}
		g.dump()
		g.checkAll()
		g.close()
		g.open()
		g.dump()
		g.checkAll()
		for _, k := range g.keys[:first+60] {
			g.get(k)
		}
		g.c.tag("index_growth_across_clean_restarts")
		add(g)
	}
}

func genC02(r *rng, tier string, add func(g *G)) {
	genC02FreeList(r, tier, add)
	genC02Emptied(r, tier, add)
	genC02Grow(r, tier, add)
	n := scale(tier, 50, 300)
	for i := 0; i < n; i++ {
		g := newG(r.fork(), fmt.Sprintf("C02/%d", i))
		g.randomParams()
		g.open()
		if i%3 == 0 {
			g.keys = append(g.collidingKeys(50, 10, "c"), g.randomKeys(30)...)
		} else {
			g.keys = g.randomKeys(120)
		}
		sessions := 2 + g.r.intn(4)
		for s := 0; s < sessions; s++ {
			ops := g.r.intn(scale(tier, 80, 150))
			if g.r.chance(15) {
				ops = 0 // Open followed by Close with no writes
			}
			for j := 0; j < ops; j++ {
				g.randomOp()
			}
			if g.r.chance(30) {
				g.compact()
			}
			g.checkAll()
			g.indexShape()
			g.dump()
			g.close()
			g.dump()
			g.do("dumprecs")
			g.open()
			if !strings.Contains(g.last(), "recovered=0") {
				g.c.Steps[len(g.c.Steps)-1].Expect = []string{"open ok recovered=0"}
			}
			g.dump()
			g.checkAll()
			g.c.tag("clean_restarts")
		}
		add(g)
	}
}

// crashLast crashes inside the last state-changing command at a chosen visible event index and cut,
// reopens, and checks that the contents are those before or after that command.
func (g *G) crashLast(before, after map[string][]byte, i, cut int) {
	g.do(fmt.Sprintf("crash %d %d", i, cut))
	g.isOpen = false
	g.open()
	exp := []string{g.itemsLine(before)}
	if a := g.itemsLine(after); a != exp[0] {
		exp = append(exp, a)
	}
	out := g.do("items", exp...)
	got := resultLine(out)
	if got == g.itemsLine(after) {
		g.ref = copyMap(after)
	} else {
		g.ref = copyMap(before)
	}
	g.count()
	g.dump()
}

func copyMap(m map[string][]byte) map[string][]byte {
	o := map[string][]byte{}
	for k, v := range m {
		o[k] = v
	}
	return o
}

// crashPoints lists the (visible index, cut) pairs of the last command: every event boundary and,
// for segment writes, every 512-aligned file offset inside the write.
func (g *G) crashPoints() [][2]int {
	var pts [][2]int
	vi := 0
	for _, e := range g.im.LastEvents() {
		if !strings.HasPrefix(e.Name, g.im.Dir+"/") || !g.im.Visible(e) {
			continue
		}
		pts = append(pts, [2]int{vi, 0})
		if e.Kind == 1 /* Write */ && strings.HasSuffix(e.Name, ".psg") {
			for off := (e.Off/512 + 1) * 512; off < e.Off+int64(len(e.Data)); off += 512 {
				pts = append(pts, [2]int{vi, int(off - e.Off)})
			}
		}
		vi++
	}
	pts = append(pts, [2]int{vi, 0})
	return pts
}

// mutate issues a random state-changing command and returns the specification state before/after.
func (g *G) mutate() (before, after map[string][]byte) {
	before = copyMap(g.ref)
	switch x := g.r.intn(100); {
	case x < 50:
		g.put(g.pick(), g.value())
	case x < 75:
		g.del(g.pickLive())
	case x < 82:
		g.sync()
	case x < 92:
		g.compact()
	default:
		g.close()
	}
	return before, copyMap(g.ref)
}

// directed (C04): compaction run after a recovery stays safe. An older segment holds put(k); a newer
// one holds put(k) and delete(k) and is eligible for compaction; crash, recovery (which rebuilds the
// per-segment counters that decide what a compaction may drop), Compact, crash, recovery: k stays
// deleted. Also the clean-restart variant: recovery, Close, Open, writes, crash.
func genC04Directed(r *rng, tier string, add func(g *G)) {
	n := scale(tier, 6, 60)
	for i := 0; i < n; i++ {
		g := newG(r.fork(), fmt.Sprintf("C04/directed/%d", i))
		g.dumpEvery = 0
		// the older segment has little garbage (not eligible at a threshold of 20%), the newer one a lot
		g.params(1500, 512, 0.2, false)
		g.open()
		k, a, b, c := []byte("k"), []byte("a"), []byte("b"), []byte("c")
		g.keys = [][]byte{k, a, b, c}
		g.put(k, g.r.bytes(45+g.r.intn(10)))
		g.put(a, g.r.bytes(840+g.r.intn(20))) // fills the first segment
		g.put(b, g.r.bytes(55+g.r.intn(10)))  // does not fit: second segment
		g.put(k, g.r.bytes(35+g.r.intn(10)))
		g.del(k)
		for j := 0; j < 3; j++ {
			g.put(c, g.r.bytes(195+g.r.intn(10)))
		}
		g.dump()
		g.do("kill")
		g.isOpen = false
		g.open()
		g.c.Steps[len(g.c.Steps)-1].Expect = []string{"open ok recovered=1"}
		g.checkAll()
		g.dump()
		if i%2 == 1 {
			// the recovered state goes through a clean restart first
			g.close()
			g.open()
			g.put(c, g.r.bytes(20+g.r.intn(30)))
			g.c.tag("recovery_then_clean_restart")
		}
		g.compact()
		g.checkAll()
		g.dump()
		g.put(b, g.r.bytes(20+g.r.intn(30)))
		g.do("kill")
		g.isOpen = false
		g.open()
		g.checkAll()
		g.dump()
		g.c.tag("compaction_after_recovery_then_crash")
		add(g)
	}
	// Directed: crash, recovery, CLEAN Close, Open, a small write, crash: after the clean restart the
	// older segment (which has room left) must still be sealed, so the write goes to the newest one.
	for i := 0; i < scale(tier, 4, 40); i++ {
		g := newG(r.fork(), fmt.Sprintf("%s/recover-close-open/%d", "C04", i))
		g.dumpEvery = 0
		g.params(1024, 512, 0.2, false)
		g.open()
		a, k := []byte("a"), []byte("k")
		g.keys = [][]byte{a, k}
		g.put(a, g.r.bytes(295+g.r.intn(10))) // leaves ~200 bytes free in the first segment
		g.put(k, g.r.bytes(295+g.r.intn(10))) // does not fit: second segment
		g.do("kill")
		g.isOpen = false
		g.open()
		g.checkAll()
		g.dump()
		g.close()
		g.open()
		g.c.Steps[len(g.c.Steps)-1].Expect = []string{"open ok recovered=0"}
		g.dump()
		if i%2 == 0 {
			g.put(k, []byte("new"))
		} else {
			g.del(k)
		}
		g.checkAll()
		g.do("kill")
		g.isOpen = false
		g.open()
		g.checkAll()
		g.dump()
		g.c.tag("recovery_then_clean_restart_then_write_then_crash")
		add(g)
	}
	// Directed: segment ids are reused after a compaction, so the NEWEST segment (by sequence id) can
	// have a LOWER file id than an older one that still has room. After a crash the newest one must
	// become current again: a small write after the recovery, a second crash, and the write must
	// still win over the older record of the same key.
	for i := 0; i < scale(tier, 4, 40); i++ {
		g := newG(r.fork(), fmt.Sprintf("%s/idreuse/%d", "C04", i))
		g.dumpEvery = 0
		g.params(1024, 512, 0.2, false)
		g.open()
		a, b, k := []byte("a"), []byte("b"), []byte("k")
		g.keys = [][]byte{a, b, k}
		for j := 0; j < 11; j++ {
			g.put(a, g.r.bytes(38+g.r.intn(5)))
		}
		g.compact() // frees file id 0
		g.put(b, g.r.bytes(195+g.r.intn(10)))
		g.put(k, g.r.bytes(295+g.r.intn(10))) // does not fit: the new segment reuses id 0
		g.dump()
		g.do("kill")
		g.isOpen = false
		g.open()
		g.dump()
		if i%2 == 0 {
			g.put(k, []byte("new"))
		} else {
			g.del(k)
		}
		g.checkAll()
		g.do("kill")
		g.isOpen = false
		g.open()
		g.checkAll()
		g.dump()
		g.c.tag("newest_segment_has_lower_file_id")
		add(g)
	}
}

// ---------------------------------------------------------------- C03 / C04: process crashes
func genCrash(prop string, epochsMax int) genFunc {
	return func(r *rng, tier string, add func(g *G)) {
		// (two crashes in a row: the directed layouts belong to both properties' generators)
		genC04Directed(r, tier, add)
		// (a crash right after a compaction that had to take a small older segment along)
		genC05SmallOlder(r, tier, add)
		n := scale(tier, 60, 1500)
		for i := 0; i < n; i++ {
			g := newG(r.fork(), fmt.Sprintf("%s/%d", prop, i))
			g.dumpEvery = 0
			maxSeg := []int{600, 700, 1100, 2048}[g.r.intn(4)]
			if i%6 == 5 {
				maxSeg = 1 << 16
			}
			g.params(maxSeg, []int{512, 512, 560, 650}[g.r.intn(4)], []float32{0.0001, 0.1, 0.3}[g.r.intn(3)], g.r.chance(30))
			g.open()
			g.keys = g.randomKeys(12)
			if i%3 == 0 {
				// long values straddling sector boundaries
				g.keys = g.randomKeys(6)
				g.bigValues = true
			}
			epochs := 1 + g.r.intn(epochsMax)
			if i%6 == 5 {
				// a torn write that leaves fewer bytes than a record header: the record in flight
				// starts 1-5 bytes before a sector boundary
				g.shortFragmentCrash()
			}
			for e := 0; e < epochs; e++ {
				warm := g.r.intn(25)
				for j := 0; j < warm; j++ {
					if !g.isOpen {
						g.open()
					}
					if g.r.chance(80) {
						g.put(g.pick(), g.value())
					} else {
						g.del(g.pickLive())
					}
				}
				if !g.isOpen {
					g.open()
				}
				var before, after map[string][]byte
				if (e > 0 || i%5 == 1) && g.r.chance(25) || i%10 == 1 && e == 0 {
					// crash inside the recovering Open itself
					g.do("kill")
					g.isOpen = false
					before, after = copyMap(g.ref), copyMap(g.ref)
					g.open()
					g.c.tag("crash_inside_recovery")
				} else if i%10 == 6 && e == 0 {
					// crash inside a clean Open
					g.close()
					before, after = copyMap(g.ref), copyMap(g.ref)
					g.open()
					g.c.tag("crash_inside_clean_open")
				} else {
					before, after = g.mutate()
				}
				pts := g.crashPoints()
				p := pts[g.r.intn(len(pts))]
				if p[1] > 0 {
					g.c.tag("torn_write")
				}
				g.c.tag("crash_points")
				g.crashLast(before, after, p[0], p[1])
			}
			// the session after the last recovery stays usable and crash-safe
			for j := 0; j < 6; j++ {
				g.put(g.pick(), g.value())
			}
			g.checkAll()
			g.close()
			g.do("kill")
			g.do("setlock 1")
			g.isOpen = false
			g.open()
			g.checkAll()
			add(g)
		}
	}
}

// shortFragmentCrash pads the current segment so that the next record starts j (1..5) bytes before a
// 512-byte boundary, starts a Put, crashes at the first sector cut (j bytes of the record reach the
// file), recovers, writes, and crashes again.
func (g *G) shortFragmentCrash() {
	if g.im.DB == nil {
		return
	}
	var size int64 = -1
	for _, sg := range pogreb.VerifSegments(g.im.DB) {
		if sg.Current {
			size = sg.Size
		}
	}
	if size < 0 {
		return
	}
	j := 1 + g.r.intn(5)
	k := g.pick()
	need := (512 - int64(j) - size - 10 - int64(len(k))) % 512
	for need < 0 {
		need += 512
	}
	if int(size)+10+len(k)+int(need)+40 > g.maxSeg {
		return // would roll over: skip
	}
	g.put(k, g.r.bytes(int(need)))
	before := copyMap(g.ref)
	g.put(g.pick(), g.r.bytes(20+g.r.intn(40)))
	for _, p := range g.crashPoints() {
		if p[1] == j {
			g.c.tag("torn_write_shorter_than_a_header")
			g.crashLast(before, g.ref, p[0], p[1])
			for n := 0; n < 4; n++ {
				g.put(g.pick(), g.value())
			}
			g.do("kill")
			g.isOpen = false
			g.open()
			g.checkAll()
			g.dump()
			return
		}
	}
}

// ---------------------------------------------------------------- C05: compaction with interleaved writers
// directed: an older segment that is NOT eligible holds the live put of a key; the current segment IS
// eligible (overwrites inside it) and holds no delete record; a Delete of the key slips in right
// after the pick. If the picked current segment were still writable the delete marker would be
// compacted away with it and the next recovery would resurrect the key.
func genC05Directed(r *rng, tier string, add func(g *G)) {
	n := scale(tier, 8, 80)
	for i := 0; i < n; i++ {
		g := newG(r.fork(), fmt.Sprintf("C05/directed/%d", i))
		g.dumpEvery = 0
		g.params(700, 512, 0.1, false)
		g.open()
		a, b, c := []byte("key-a"), []byte("key-b"), []byte("key-c")
		g.keys = [][]byte{a, b, c}
		// segment 0 (188 bytes of records at most): two live records, no garbage: not eligible
		g.put(a, g.r.bytes(72+g.r.intn(4)))
		g.put(b, g.r.bytes(72+g.r.intn(4)))
		// the next record does not fit: new current segment; overwrites inside it make it eligible
		for j := 0; j < 3; j++ {
			g.put(c, g.r.bytes(28+g.r.intn(6)))
		}
		g.dump()
		g.do("cpick", "cpick ok")
		if g.r.chance(75) {
			g.del(a)
		} else {
			g.del(b)
		}
		g.c.tag("delete_right_after_pick")
		for steps := 0; steps < 200; steps++ {
			out := g.do("cstep")
			if !strings.HasPrefix(resultLine(out), "cstep more") {
				break
			}
		}
		g.checkAll()
		g.do("kill")
		g.isOpen = false
		g.open()
		g.checkAll()
		g.dump()
		add(g)
	}
}

// directed: a delete record in an eligible segment forces ALL older segments into the compaction,
// also one that was sealed while still smaller than compactionMinSegmentSize (the next record did
// not fit). Otherwise the delete record is dropped while the put it cancels stays in the log.
func genC05SmallOlder(r *rng, tier string, add func(g *G)) {
	n := scale(tier, 6, 60)
	for i := 0; i < n; i++ {
		g := newG(r.fork(), fmt.Sprintf("C05/small-older/%d", i))
		g.dumpEvery = 0
		g.params(1024, 700, 0.01, false)
		g.open()
		k, p, big := []byte("k"), []byte("p"), []byte("big")
		g.keys = [][]byte{k, p, big}
		g.put(k, g.r.bytes(5+g.r.intn(10)))
		g.put(p, g.r.bytes(80+g.r.intn(30)))
		g.put(big, g.r.bytes(390+g.r.intn(20))) // does not fit: segment 0 is sealed below the minimum size
		g.del(k)
		g.dump()
		g.compact()
		g.checkAll()
		g.dump()
		g.c.tag("older_segment_below_min_size")
		g.do("kill")
		g.isOpen = false
		g.open()
		g.checkAll()
		g.dump()
		add(g)
	}
}

// directed: the index GROWS (bucket splits move keys to new buckets) inside the per-record windows of
// a stepped compaction: between two records the writer puts enough new keys to cross a split
// threshold. Whatever the compaction looked at before the window (the bucket of the next record,
// a cached bucket, the number of buckets) is stale afterwards; a live record judged by stale data is
// dropped with its segment. Used by C05 (compaction with interleaved writers) and C07 (every
// interleaving of atomic steps is a sequential history).
func genSplitInsideCompaction(r *rng, tier string, prop string, add func(g *G)) {
	n := scale(tier, 6, 40)
	for i := 0; i < n; i++ {
		g := newG(r.fork(), fmt.Sprintf("%s/split-inside-compaction/%d", prop, i))
		g.dumpEvery = 0
		g.params([]int{900, 1400, 2048}[g.r.intn(3)], 512, 0.0001, false)
		g.open()
		// 15-60 keys: level 0-1, split pointer anywhere; every key overwritten now and then so that every
		// sealed segment is eligible and holds live records
		g.keys = g.randomKeys(15 + g.r.intn(46))
		for _, k := range g.keys {
			g.put(k, g.r.bytes(10+g.r.intn(30)))
		}
		for j := 0; j < 4+g.r.intn(8); j++ {
			g.put(g.pick(), g.r.bytes(10+g.r.intn(30)))
		}
		g.indexShape()
		g.dump()
		scan := i%2 == 0
		if scan {
			// a scan in progress: its queue holds items of the first bucket chain while the compaction
			// repoints, and finally removes, the records they were read from
			g.do("iternew w")
			g.do("iternext w")
			g.c.tag("scan_in_progress_across_compaction")
		}
		g.do("cpick", "cpick ok")
		fresh := 0
		for steps := 0; steps < 3000; steps++ {
			// 0-8 NEW keys per window: a split every ~22 new keys, at varying distances from the record
			for j := g.r.intn(9); j > 0 && fresh < 400; j-- {
				k := []byte(fmt.Sprintf("new-%d-%d", i, fresh))
				fresh++
				g.keys = append(g.keys, k)
				g.put(k, g.r.bytes(5+g.r.intn(20)))
				g.c.tag("new_keys_inside_compaction")
			}
			out := g.do("cstep")
			if !strings.HasPrefix(resultLine(out), "cstep more") {
				if !strings.HasPrefix(resultLine(out), "cstep done") {
					g.c.Steps[len(g.c.Steps)-1].Expect = []string{"cstep done ..."}
				}
				break
			}
		}
		if scan {
			// ids of removed segments are reused by the next rollover
			for j := 0; j < 12; j++ {
				g.put(g.pick(), g.r.bytes(40+g.r.intn(40)))
			}
			g.drainIter("w")
		}
		g.indexShape()
		g.checkAll()
		g.dump()
		g.do("kill")
		g.isOpen = false
		g.open()
		g.checkAll()
		g.dump()
		add(g)
	}
}

func genC05(r *rng, tier string, add func(g *G)) {
	genC05Directed(r, tier, add)
	genC05SmallOlder(r, tier, add)
	genC04Directed(r, tier, add) // compaction after a recovery (rebuilt counters), then a crash
	genSplitInsideCompaction(r, tier, "C05", add)
	n := scale(tier, 60, 1500)
	for i := 0; i < n; i++ {
		g := newG(r.fork(), fmt.Sprintf("C05/%d", i))
		g.dumpEvery = 0
		g.params([]int{600, 700, 900}[g.r.intn(3)], []int{512, 512, 560, 640}[g.r.intn(4)], []float32{0.0001, 0.0001, 0.15, 0.3}[g.r.intn(4)], false)
		g.open()
		g.keys = g.randomKeys(10)
		fill := 20 + g.r.intn(40)
		if i%4 == 1 {
			// the record of the empty key with the empty value (an all-zero 6-byte header) early in a
			// segment that will be compacted, live records behind it
			g.put(g.pick(), g.r.bytes(20+g.r.intn(30)))
			g.put([]byte{}, []byte{})
			g.keys = append(g.keys, []byte{})
			g.c.tag("empty_key_empty_value_record_in_compacted_segment")
		}
		if i%3 == 2 {
			// an overflow chain with holes: live records behind a hole must still be promoted
			g.keys = g.collidingKeys(44, 14, "h")
			for _, k := range g.keys {
				g.put(k, g.r.bytes(10+g.r.intn(30)))
			}
			for j := 0; j < 3+g.r.intn(6); j++ {
				g.del(g.keys[g.r.intn(28)])
			}
			g.indexShape()
			g.c.tag("chain_with_holes_before_compaction")
			fill = g.r.intn(20)
		}
		for j := 0; j < fill; j++ {
			if g.r.chance(70) {
				g.put(g.pick(), g.r.bytes(20+g.r.intn(60)))
			} else {
				g.del(g.pickLive())
			}
		}
		g.dump()
		scan := i%3 == 0
		if scan {
			// a scan that has started (its queue holds items of the first bucket chain) before the
			// compaction and goes on after it
			g.do("iternew v")
			g.do("iternext v")
			g.c.tag("scan_in_progress_across_compaction")
		}
		g.do("cpick", "cpick ok")
		steps := 0
		for {
			// a writer slips in at this yield point
			for g.r.chance(45) {
				if g.r.chance(60) {
					g.put(g.pick(), g.r.bytes(20+g.r.intn(60)))
				} else {
					g.del(g.pickLive())
				}
				g.c.tag("writer_ops_inside_compaction")
			}
			if g.r.chance(15) {
				g.checkAll()
			}
			out := g.do("cstep")
			steps++
			if !strings.HasPrefix(resultLine(out), "cstep more") {
				if !strings.HasPrefix(resultLine(out), "cstep done") {
					g.c.Steps[len(g.c.Steps)-1].Expect = []string{"cstep done ..."}
				}
				break
			}
			if i%2 == 1 && g.r.chance(4) {
				// crash inside Compact
				pts := g.crashPoints()
				p := pts[g.r.intn(len(pts))]
				g.c.tag("crash_inside_compaction")
				g.crashLast(g.ref, g.ref, p[0], p[1])
				break
			}
			if steps > 2000 {
				break
			}
		}
		g.c.tag("compaction_steps")
		if scan && g.isOpen {
			// segment ids freed by the compaction get reused by later writes
			for j := 0; j < 12; j++ {
				g.put(g.pick(), g.r.bytes(40+g.r.intn(60)))
			}
			g.drainIter("v")
		}
		g.checkAll()
		g.dump()
		// resurrection shows only after a recovery
		g.do("kill")
		g.isOpen = false
		g.open()
		g.checkAll()
		g.dump()
		add(g)
	}
}

// ---------------------------------------------------------------- C08: damaged tails
func expectedFromDisk(im *interp.Impl) map[string][]byte {
	type segf struct {
		seq  uint64
		data []byte
	}
	var segs []segf
	for _, name := range im.FS.List(im.Dir) {
		if !strings.HasSuffix(name, ".psg") {
			continue
		}
		_, seq, _ := pogreb.VerifParseSegmentName(name)
		data, _ := im.FS.ReadFile(im.Dir + "/" + name)
		segs = append(segs, segf{seq, data})
	}
	for i := range segs {
		for j := i + 1; j < len(segs); j++ {
			if segs[j].seq < segs[i].seq {
				segs[i], segs[j] = segs[j], segs[i]
			}
		}
	}
	m := map[string][]byte{}
	for _, s := range segs {
		if len(s.data) < 512 {
			continue
		}
		recs, _, _ := interp.RefDecode(s.data[512:])
		for _, rc := range recs {
			if rc.Del {
				delete(m, string(rc.Key))
			} else {
				m[string(rc.Key)] = append([]byte{}, rc.Value...)
			}
		}
	}
	return m
}

func flipBit(b []byte, bit int) []byte {
	o := append([]byte{}, b...)
	o[bit/8] ^= 1 << uint(bit%8)
	return o
}

func genC08(r *rng, tier string, add func(g *G)) {
	n := scale(tier, 120, 2000)
	for i := 0; i < n; i++ {
		g := newG(r.fork(), fmt.Sprintf("C08/%d", i))
		g.dumpEvery = 0
		bigKeys := i%6 == 4
		if bigKeys {
			g.params(1<<20, 512, 0.5, false)
		} else {
			g.params([]int{700, 1500, 1 << 20}[g.r.intn(3)], 512, 0.5, false)
		}
		g.open()
		g.keys = g.randomKeys(8)
		g.keys = append(g.keys, []byte{})
		fill := 3 + g.r.intn(30)
		if bigKeys {
			// records whose key is within a few bytes of the limit (6 + key size passes 65535), with an
			// empty, a one-byte or an ordinary value, in front of ordinary records and the damaged tail
			g.put(g.pick(), g.r.bytes(g.r.intn(30)))
			for j := 0; j < 1+g.r.intn(2); j++ {
				k := g.r.bytes([]int{65529, 65530, 65531, 65533, 65535}[g.r.intn(5)])
				g.keys = append(g.keys, k)
				g.put(k, g.r.bytes([]int{0, 1, 2, 40}[g.r.intn(4)]))
				if g.r.chance(25) {
					g.del(k)
				}
			}
			g.c.tag("keys_within_6_bytes_of_the_limit")
			fill = 1 + g.r.intn(6)
		}
		if i%5 == 1 {
			// the record of an empty key with an empty value has an all-zero header
			g.put(g.pick(), g.r.bytes(g.r.intn(30)))
			g.put([]byte{}, []byte{})
			g.c.tag("empty_key_empty_value_record")
		}
		for j := 0; j < fill; j++ {
			if g.r.chance(80) {
				g.put(g.pick(), g.r.bytes(g.r.intn(300)))
			} else {
				g.del(g.pickLive())
			}
		}
		g.do("kill")
		g.isOpen = false
		// choose a segment to damage
		segs := []string{}
		for _, name := range g.im.FS.List(g.im.Dir) {
			if strings.HasSuffix(name, ".psg") {
				segs = append(segs, name)
			}
		}
		name := segs[g.r.intn(len(segs))]
		id, seq, _ := pogreb.VerifParseSegmentName(name)
		valid := pogreb.VerifEncodeRecord(g.r.bytes(1+g.r.intn(20)), g.r.bytes(g.r.intn(700)), g.r.chance(20))
		var tail []byte
		kind := i % 8
		switch kind {
		case 0:
			tail = make([]byte, 1+g.r.intn(2048)) // zeroes
		case 1:
			tail = valid[:1+g.r.intn(len(valid)-1)] // strict prefix
		case 2:
			bit := 48 + g.r.intn(len(valid)*8-48) // flip in key, value or checksum
			tail = flipBit(valid, bit)
		case 3:
			tail = g.r.bytes(1 + g.r.intn(600))
		case 4: // well-formed record after a damaged one
			tail = append(flipBit(valid, 48+g.r.intn(len(valid)*8-48)), pogreb.VerifEncodeRecord([]byte("after"), []byte("x"), false)...)
		case 5: // a complete valid record (a write the process never acknowledged), then garbage
			tail = append(append([]byte{}, valid...), g.r.bytes(g.r.intn(9))...)
		case 6: // flip inside the length fields
			tail = flipBit(valid, g.r.intn(48))
		default: // header claiming huge sizes
			tail = append([]byte{byte(g.r.next()), byte(g.r.next()), 0xff, 0xff, 0xff, byte(g.r.intn(256))}, g.r.bytes(g.r.intn(40))...)
		}
		g.c.tag(fmt.Sprintf("tail_kind_%d", kind))
		g.do(fmt.Sprintf("appendraw %d %d %s", id, seq, interp.Hex(tail)))
		exp := expectedFromDisk(g.im)
		g.open()
		g.c.Steps[len(g.c.Steps)-1].Expect = []string{"open ok recovered=1"}
		g.ref = exp
		g.checkAll()
		g.dump()
		g.do("dumprecs")
		// the recovered database stays usable
		g.keys = append(g.keys, []byte("after"))
		if kind == 4 || kind == 2 {
			// write again exactly as many bytes as the damaged record had, then crash again: what was
			// rejected must never come back
			recs, _, _ := interp.RefDecode(valid)
			if len(recs) == 1 && !recs[0].Del {
				g.put(recs[0].Key, g.r.bytes(len(recs[0].Value)))
				g.c.tag("same_size_rewrite_after_recovery")
			}
		} else {
			for j := 0; j < 5; j++ {
				g.put(g.pick(), g.value())
			}
		}
		g.checkAll()
		g.do("kill")
		g.isOpen = false
		g.open()
		g.checkAll()
		g.dump()
		add(g)
	}
}

// isHexField: a field as the interpreter prints byte strings ("-" = empty, else lower-case hex)
func isHexField(x string) bool {
	if x == "-" {
		return true
	}
	if len(x)%2 != 0 {
		return false
	}
	for _, c := range x {
		if !(c >= '0' && c <= '9' || c >= 'a' && c <= 'f') {
			return false
		}
	}
	return true
}

// ---------------------------------------------------------------- C11: iteration
func genC11(r *rng, tier string, add func(g *G)) {
	n := scale(tier, 60, 1200)
	for i := 0; i < n; i++ {
		g := newG(r.fork(), fmt.Sprintf("C11/%d", i))
		g.dumpEvery = 0
		g.params([]int{700, 2048, 1 << 16}[g.r.intn(3)], []int{512, 512, 560, 650}[g.r.intn(4)], 0.0001, false)
		g.open()
		switch i % 3 {
		case 0:
			g.keys = append(g.collidingKeys(45, 10, "c"), g.randomKeys(40)...)
		case 1:
			g.keys = g.randomKeys(160)
		default:
			g.keys = append(g.collidingKeys(70, 6, "e"), g.randomKeys(10)...)
		}
		fill := 30 + g.r.intn(len(g.keys))
		for j := 0; j < fill; j++ {
			g.put(g.pick(), g.r.bytes(g.r.intn(12)))
		}
		// quiescent scan: every live key exactly once, then done for ever
		g.do("iternew q")
		seen := map[string]bool{}
		for j := 0; j < len(g.ref); j++ {
			out := resultLine(g.do("iternext q"))
			f := strings.Fields(out)
			ok := len(f) == 3 && f[0] == "iternext" && isHexField(f[1]) && isHexField(f[2])
			if ok {
				k := string(interp.Unhex(f[1]))
				v, live := g.ref[k]
				ok = live && !seen[k] && interp.Hex(v) == f[2]
				seen[k] = true
			}
			if !ok {
				g.c.Steps[len(g.c.Steps)-1].Expect = []string{"iternext <a live key not returned before> <its value>"}
			}
		}
		g.do("iternext q", "iternext done")
		g.do("iternext q", "iternext done")
		// concurrent scan: writers between the calls
		written := map[string]map[string]bool{} // every value ever put per key
		for k, v := range g.ref {
			written[k] = map[string]bool{string(v): true}
		}
		touched := map[string]bool{}
		startRef := copyMap(g.ref)
		g.do("iternew c")
		returned := map[string]bool{}
		for steps := 0; steps < 4000; steps++ {
			for g.r.chance(55) {
				switch x := g.r.intn(10); {
				case x < 6:
					k, v := g.pick(), g.r.bytes(g.r.intn(12))
					if written[string(k)] == nil {
						written[string(k)] = map[string]bool{}
					}
					written[string(k)][string(v)] = true
					touched[string(k)] = true
					g.put(k, v)
				case x < 9:
					k := g.pickLive()
					touched[string(k)] = true
					g.del(k)
				default:
					g.compact()
				}
				g.c.tag("writer_ops_during_scan")
			}
			out := resultLine(g.do("iternext c"))
			if out == "iternext done" {
				break
			}
			f := strings.Fields(out)
			ok := len(f) == 3 && f[0] == "iternext" && isHexField(f[1]) && isHexField(f[2])
			if ok {
				k := string(interp.Unhex(f[1]))
				ok = written[k][string(interp.Unhex(f[2]))]
				returned[k] = true
			}
			if !ok {
				g.c.Steps[len(g.c.Steps)-1].Expect = []string{"iternext <key> <a value that was put for that key>"}
			}
		}
		// every key that existed untouched for the whole scan was returned
		for k := range startRef {
			if !touched[k] && !returned[k] {
				g.do("echo untouched-key-missed-"+interp.Hex([]byte(k)), "echo ok")
			}
		}
		g.indexShape()
		g.checkAll()
		add(g)
	}
}

// ---------------------------------------------------------------- C12: backup
func genC12(r *rng, tier string, add func(g *G)) {
	n := scale(tier, 60, 1200)
	for i := 0; i < n; i++ {
		g := newG(r.fork(), fmt.Sprintf("C12/%d", i))
		g.dumpEvery = 0
		g.params([]int{600, 700, 1200, 1 << 16}[g.r.intn(4)], []int{512, 512, 560, 650}[g.r.intn(4)], 0.0001, g.r.chance(20))
		g.open()
		g.keys = g.randomKeys(10)
		if i%4 == 3 {
			// backup after a recovery that discarded a torn tail
			g.bigValues = true
			g.put(g.pick(), g.value())
			before := copyMap(g.ref)
			g.put(g.pick(), g.value())
			pts := g.crashPoints()
			p := pts[g.r.intn(len(pts))]
			g.crashLast(before, g.ref, p[0], p[1])
			g.c.tag("backup_after_recovery")
		}
		fill := g.r.intn(50)
		for j := 0; j < fill; j++ {
			g.randomOp()
		}
		if i%6 == 2 {
			// backup of a database that went through clean restarts in which the FIRST write of a
			// session rolled the log over (the segment that was current at the last Close is sealed
			// without having been touched in this session), followed, a restart later, by a small record
			// for the key whose newest record is in the newest segment. A backup is opened by replaying
			// the log: which segment is the newest must survive the restarts.
			for s := 0; s < 2+g.r.intn(2); s++ {
				for j := g.r.intn(10); j > 0; j-- {
					g.put(g.pick(), g.r.bytes(g.r.intn(12)))
				}
				g.close()
				g.open()
				big := g.maxSeg/2 + g.r.intn(g.maxSeg/3)
				if big > 4000 {
					big = 4000
				}
				bk := g.pick()
				g.put(bk, g.r.bytes(big))
				g.close()
				g.open()
				if g.r.chance(50) {
					g.del(bk)
				} else {
					g.put(bk, []byte{})
				}
				for j := g.r.intn(3); j > 0; j-- {
					g.put(g.pick(), g.r.bytes(g.r.intn(4)))
				}
			}
			g.dump()
			g.c.tag("backup_after_clean_restarts_with_rollover_as_first_write")
		}
		writer := func() {
			for g.r.chance(50) {
				if g.r.chance(65) {
					g.put(g.pick(), g.r.bytes(20+g.r.intn(200)))
				} else {
					g.del(g.pickLive())
				}
				g.c.tag("writer_ops_during_backup")
			}
		}
		name := "b"
		if i%5 == 0 {
			g.do("backup "+name, "backup ok")
			g.c.tag("quiescent_backups")
		} else {
			nseg := 0
			for _, nm := range g.im.FS.List(g.im.Dir) {
				if strings.HasSuffix(nm, ".psg") {
					nseg++
				}
			}
			g.do("bplan "+name, "bplan ok")
			snap := copyMap(g.ref)
			busyAt := -1
			if i%2 == 0 {
				busyAt = g.r.intn(nseg + 1)
			}
			for s := 0; s < nseg; s++ {
				writer()
				if s == busyAt {
					// a compaction (explicit or the background worker) that fires during the backup
					g.do("compactbusy", "compact err busy")
					g.c.tag("compaction_attempts_during_backup")
				}
				g.do("bcopy "+name, "bcopy ok")
			}
			writer()
			g.do("bfinish "+name, "bfinish ok")
			// the source is not affected
			g.checkAll()
			g.dump()
			g.ref = snap
		}
		g.do("usebackup " + name)
		g.isOpen = false
		g.open()
		g.c.Steps[len(g.c.Steps)-1].Expect = []string{"open ok recovered=1"}
		g.checkAll()
		g.dump()
		add(g)
	}
}

// ---------------------------------------------------------------- C15: compaction reclaims, nothing leaks, stays usable
// directed: the history of DBProofsCompactFix.FixEx (one Compact is not always a fixpoint: the open
// segment, 4 bytes too small to be considered, grows by the promoted records and becomes eligible;
// the second Compact reaches the fixpoint), on the implementation and on the model.
func genC15Fixpoint(r *rng, tier string, add func(g *G)) {
	g := newG(r.fork(), "C15/fixpoint")
	g.dumpEvery = 0
	g.params(590, 540, 0.01, false)
	g.open()
	a, b, j := []byte("a"), []byte("b"), []byte("j")
	g.keys = [][]byte{a, b, j}
	g.put(a, g.r.bytes(20))
	g.put(j, []byte{1})
	g.put(b, g.r.bytes(20))
	g.put(j, []byte{2})
	g.put(j, []byte{3})
	g.dump()
	g.do("compact", "compact ok 1 1 12")
	g.dump()
	g.do("compact", "compact ok 1 1 12")
	g.dump()
	g.do("compact", "compact ok 0 0 0")
	g.checkAll()
	g.checkDirectory()
	g.c.tag("compaction_fixpoint_after_two_runs")
	add(g)
}

// directed: churn on a key set whose index has OVERFLOW chains (70-100 keys colliding in 14 hash bits:
// a chain of 3-4 buckets that no split takes apart, next to ordinary keys): every round deletes keys
// and puts them again (a delete leaves a hole in whichever bucket held the key; the put of a key
// that is not in the index goes to the first free slot). The number of keys is steady, so the index
// files must be too: overflow.pix after any round is no longer than after the warm-up rounds.
func genC15ChainChurn(r *rng, tier string, add func(g *G)) {
	n := scale(tier, 3, 16)
	for i := 0; i < n; i++ {
		g := newG(r.fork(), fmt.Sprintf("C15/chain-churn/%d", i))
		g.dumpEvery = 0
		g.params(4096, 512, 0.3, false)
		g.open()
		coll := g.collidingKeys(70+g.r.intn(31), 14, "c")
		g.keys = append(append([][]byte{}, coll...), g.randomKeys(20)...)
		for _, k := range g.keys {
			g.put(k, g.r.bytes(4+g.r.intn(8)))
		}
		g.indexShape()
		g.dump()
		size := func() int {
			b, _ := g.im.FS.ReadFile(g.im.Dir + "/overflow.pix")
			return len(b)
		}
		rounds := scale(tier, 12, 30)
		warm := 0
		for c := 0; c < rounds; c++ {
			// delete a third of the colliding keys (from all over the chain), then put them again
			var gone [][]byte
			for _, k := range coll {
				if g.r.chance(33) {
					g.del(k)
					gone = append(gone, k)
				}
			}
			for _, k := range gone {
				g.put(k, g.r.bytes(4+g.r.intn(8)))
			}
			if c%4 == 3 {
				g.compact()
				g.checkDirectory()
			}
			if c%6 == 5 {
				g.close()
				g.open()
				g.c.Steps[len(g.c.Steps)-1].Expect = []string{"open ok recovered=0"}
			}
			g.do("dumpphys")
			if c == 2 {
				warm = size()
			}
			if c > 2 && size() > warm {
				g.do(fmt.Sprintf("echo overflow.pix-grew-from-%d-to-%d-bytes-in-round-%d-with-a-steady-key-set", warm, size(), c), "echo ok")
				break
			}
		}
		g.c.tag("delete_and_reput_rounds_on_overflow_chains")
		g.checkAll()
		g.dump()
		add(g)
	}
}

func genC15(r *rng, tier string, add func(g *G)) {
	genC15Fixpoint(r, tier, add)
	genC15Steady(r, tier, add)
	genC15ChainChurn(r, tier, add)
	n := scale(tier, 50, 800)
	for i := 0; i < n; i++ {
		g := newG(r.fork(), fmt.Sprintf("C15/%d", i))
		g.dumpEvery = 0
		g.params([]int{600, 800, 2048}[g.r.intn(3)], []int{512, 512, 560, 650}[g.r.intn(4)], []float32{0.0001, 0.3}[g.r.intn(2)], g.r.chance(25))
		g.open()
		g.keys = g.randomKeys(6 + g.r.intn(10))
		cycles := 3 + g.r.intn(scale(tier, 6, 25))
		sizes := []int{}
		for c := 0; c < cycles; c++ {
			ops := 10 + g.r.intn(40)
			for j := 0; j < ops; j++ {
				if g.r.chance(70) {
					g.put(g.pick(), g.r.bytes(30+g.r.intn(100)))
				} else {
					g.del(g.pickLive())
				}
			}
			if i%3 == 0 && c == cycles/2 {
				// delete everything, then compact: the log may become empty
				for k := range copyMap(g.ref) {
					g.del([]byte(k))
				}
				g.c.tag("delete_all_then_compact")
			}
			g.compact()
			g.checkDirectory()
			// the database remains usable: each of these must succeed
			switch g.r.intn(5) {
			case 0:
				g.sync()
			case 1:
				g.put(g.pick(), g.value())
			case 2:
				g.del(g.pickLive())
			case 3:
				g.do(fmt.Sprintf("backup u%d", c), "backup ok")
			default:
				g.close()
				g.open()
				g.c.Steps[len(g.c.Steps)-1].Expect = []string{"open ok recovered=0"}
				g.c.tag("clean_restarts")
			}
			g.sync()
			g.dump()
			total := 0
			for _, nm := range g.im.FS.List(g.im.Dir) {
				data, _ := g.im.FS.ReadFile(g.im.Dir + "/" + nm)
				total += len(data)
			}
			sizes = append(sizes, total)
		}
		g.checkAll()
		g.close()
		g.checkDirectory()
		if h := g.im.FS.OpenHandles(); h != 0 {
			g.do(fmt.Sprintf("echo open-handles-after-close-%d", h), "echo ok")
		}
		add(g)
	}
}

// steadyState: a steady overwrite workload with Compact after every clean restart must not
// accumulate segments: the number of segment files stays bounded by the live data.
func genC15Steady(r *rng, tier string, add func(g *G)) {
	n := scale(tier, 6, 60)
	for i := 0; i < n; i++ {
		g := newG(r.fork(), fmt.Sprintf("C15/steady/%d", i))
		g.dumpEvery = 0
		// segments of 4096 bytes (3584 bytes of records), compaction at 50% dead bytes of the file: a
		// segment that stays has less than 2048 dead bytes, i.e. at least 1536 live bytes, so
		// live/1500 segments plus the ones being written bound the count. Only a quarter of the keys is
		// overwritten per session, so a segment's garbage accumulates over several sessions.
		withBackup := i%2 == 1
		if withBackup {
			// periodic backups in the workload, and a minimum segment size for compaction well above
			// the header: a segment that is sealed while small could never be compacted again
			g.params(4096, 2048, 0.5, false)
			g.c.tag("steady_state_with_backups")
		} else {
			g.params(4096, 512, 0.5, false)
		}
		g.open()
		nkeys := 80 + g.r.intn(60)
		g.keys = nil
		for k := 0; k < nkeys; k++ {
			g.keys = append(g.keys, []byte(fmt.Sprintf("key-%03d", k)))
		}
		for _, k := range g.keys {
			g.put(k, g.r.bytes(40+g.r.intn(20)))
		}
		live := nkeys * 80
		bound := live/1500 + 6
		rounds := scale(tier, 40, 90)
		for c := 0; c < rounds; c++ {
			g.close()
			g.open()
			g.c.Steps[len(g.c.Steps)-1].Expect = []string{"open ok recovered=0"}
			g.compact()
			for j := 0; j < nkeys/4; j++ {
				g.put(g.pick(), g.r.bytes(40+g.r.intn(20)))
				if withBackup && j == nkeys/8 {
					g.do(fmt.Sprintf("backup s%d", c%2), "backup ok")
				}
			}
			nseg := 0
			for _, nm := range g.im.FS.List(g.im.Dir) {
				if strings.HasSuffix(nm, ".psg") {
					nseg++
				}
			}
			if nseg > bound {
				g.do(fmt.Sprintf("echo %d-segment-files-for-%d-live-bytes-in-round-%d", nseg, live, c), "echo ok")
				break
			}
		}
		g.c.tag("steady_state_rounds")
		g.checkAll()
		g.dump()
		add(g)
	}
}

// checkDirectory: every file belongs to a live segment, the index, metadata or the lock, and the
// number of open handles is what the open segments and the two index files need.
func (g *G) checkDirectory() {
	live := map[string]bool{"main.pix": true, "overflow.pix": true, "index.pmt": true, "db.pmt": true, "lock": true}
	nseg := 0
	if g.im.DB != nil {
		for _, s := range pogreb.VerifSegments(g.im.DB) {
			live[s.Name] = true
			live[s.Name+".pmt"] = true
			nseg++
		}
	} else {
		for _, nm := range g.im.FS.List(g.im.Dir) {
			if strings.HasSuffix(nm, ".psg") {
				live[nm] = true
				live[nm+".pmt"] = true
			}
		}
	}
	for _, nm := range g.im.FS.List(g.im.Dir) {
		if !live[nm] {
			g.do("echo stray-file-"+nm, "echo ok")
		}
	}
	if g.im.DB != nil {
		if h := g.im.FS.OpenHandles(); h != nseg+2 {
			g.do(fmt.Sprintf("echo open-handles-%d-for-%d-segments", h, nseg), "echo ok")
		}
	}
}

// ---------------------------------------------------------------- C16: size limits
func genC16(r *rng, tier string, add func(g *G)) {
	keyLens := []int{0, 1, 2, 255, 256, 65534, 65535}
	longLens := []int{65536, 65537, 131071}
	n := scale(tier, 16, 64)
	for i := 0; i < n; i++ {
		g := newG(r.fork(), fmt.Sprintf("C16/%d", i))
		g.dumpEvery = 0
		maxSeg := []int{1024, 4096, 70000}[g.r.intn(3)]
		if tier == "thorough" && i%20 == 0 {
			maxSeg = 1 << 20
		}
		g.params(maxSeg, 512, 0.5, false)
		g.open()
		mk := func(l int) []byte {
			b := g.r.bytes(l)
			return b
		}
		// values around 0, the sector size, the remainder of the segment, the whole segment
		valLens := []int{0, 1, 501, 502, 503, 511, 512, 513, maxSeg - 512 - 12, maxSeg - 512 - 11, maxSeg - 512 - 10, maxSeg - 512 - 9, maxSeg, maxSeg + 1}
		big := 0
		for j := 0; j < 10; j++ {
			kl := keyLens[g.r.intn(len(keyLens))]
			if kl > 60000 {
				big++
				if big > 2 {
					kl = keyLens[g.r.intn(5)]
				}
			}
			vl := valLens[g.r.intn(len(valLens))]
			if vl < 0 {
				vl = 0
			}
			k := mk(kl)
			g.keys = append(g.keys, k)
			g.put(k, mk(vl))
			g.get(k)
			g.has(k)
		}
		g.put([]byte{}, []byte{}) // empty key, empty value: distinguishable from a missing key
		g.get([]byte{})
		// nil slices are empty slices: a nil value is a stored empty value, not a deletion
		nk := mk(1 + g.r.intn(6))
		g.keys = append(g.keys, nk)
		g.put(nk, nil)
		g.get(nk)
		g.has(nk)
		if i%2 == 0 {
			g.put(nil, nil)
			g.get([]byte{})
		}
		g.c.tag("nil_slice_arguments")
		g.dump()
		g.do("dumprecs")
		// over-long keys: Put is rejected and changes nothing; Get/Has/Delete behave as for an absent key
		for li, ll := range longLens {
			if tier != "thorough" && li != i%3 {
				continue
			}
			long := mk(ll)
			// a stored key whose length equals the truncated length of the probe
			short := mk(ll - 65536)
			g.put(short, []byte("short"))
			g.keys = append(g.keys, short)
			g.do("put "+interp.Hex(long)+" 01", "put err keytoolarge")
			g.do("get "+interp.Hex(long), "get nil")
			g.do("has "+interp.Hex(long), "has 0")
			g.do("del "+interp.Hex(long), "del ok")
			g.get(short)
			g.c.tag("overlong_key_probes")
		}
		// over-long keys that agree with a stored key in all 32 bits of the hash AND in the 16 low bits
		// of the length (all an index slot records about a key): only the comparison with the key
		// bytes in the segment tells them apart
		{
			kl := []int{4, 8, 16}[g.r.intn(3)]
			short := mk(kl)
			g.keys = append(g.keys, short)
			g.put(short, g.r.bytes(3+g.r.intn(20)))
			long := append(append([]byte{}, short...), mk(65536)...)
			fixHash(long, g.seed, g.hash(short))
			if g.hash(long) == g.hash(short) {
				g.c.tag("overlong_probes_colliding_in_hash_and_low_length_bits")
				g.do("get "+interp.Hex(long), "get nil")
				g.do("getappend "+interp.Hex(long)+" "+interp.Hex([]byte("p")), "getappend nil")
				g.do("has "+interp.Hex(long), "has 0")
				g.do("put "+interp.Hex(long)+" 01", "put err keytoolarge")
				g.do("del "+interp.Hex(long), "del ok")
				g.get(short)
			}
			if maxSeg >= 70000 {
				// ... and the probe is the stored key followed by the first 64 KiB of the stored value
				k2 := mk(kl)
				v2 := mk(65536 + g.r.intn(200))
				long2 := append(append([]byte{}, k2...), v2[:65536]...)
				fixHash(long2, g.seed, g.hash(k2))
				copy(v2[65532:65536], long2[len(long2)-4:])
				if g.hash(long2) == g.hash(k2) {
					g.keys = append(g.keys, k2)
					g.put(k2, v2)
					g.c.tag("overlong_probe_equal_to_stored_key_plus_value_prefix")
					g.do("get "+interp.Hex(long2), "get nil")
					g.do("getappend "+interp.Hex(long2)+" "+interp.Hex([]byte("p")), "getappend nil")
					g.do("has "+interp.Hex(long2), "has 0")
					g.do("del "+interp.Hex(long2), "del ok")
					g.get(k2)
				}
			}
		}
		g.dump()
		g.do("dumprecs")
		g.checkAll()
		// restart and recovery preserve everything byte-exactly
		g.close()
		g.open()
		g.checkAll()
		for _, k := range g.keys {
			g.get(k)
		}
		g.do("kill")
		g.isOpen = false
		g.open()
		g.checkAll()
		for _, k := range g.keys {
			g.get(k)
		}
		g.dump()
		add(g)
	}
}
