package main

import (
	"crypto/md5"
	"fmt"
	"io"
	"math"
	"os"
	"path/filepath"
	"runtime/debug"
	"sort"
	"strings"
	"sync"

	"github.com/akrylysov/pogreb"
	"github.com/akrylysov/pogreb/fs"

	"verifharness/interp"
	"verifharness/tfs"
)

// fsRunner executes the API-level commands of a case on any fs.FileSystem (C17): the same program
// must give the same results and the same segment bytes on fs.Mem, fs.OS, fs.OSMMap (and on the
// harness file system, which is how its fidelity is checked on every run).
type fsRunner struct {
	fsys     fs.FileSystem
	dir      string
	db       *pogreb.DB
	maxSeg   uint32
	minSeg   uint32
	fragBits uint32
	syncMode bool
	iters    map[string]*pogreb.ItemIterator
	fsizes   []string // results of DB.FileSize, one per Count command
}

func (r *fsRunner) opts() *pogreb.Options {
	o := &pogreb.Options{FileSystem: r.fsys}
	if r.syncMode {
		o.BackgroundSyncInterval = -1
	}
	pogreb.VerifSetThresholds(o, r.maxSeg, r.minSeg, math.Float32frombits(r.fragBits))
	return o
}

func errShort(err error) string {
	s := err.Error()
	switch {
	case strings.Contains(s, "key is too large"):
		return "keytoolarge"
	case strings.Contains(s, "value is too large"):
		return "valuetoolarge"
	case strings.Contains(s, "locked"):
		return "locked"
	}
	return "other:" + s
}

func (r *fsRunner) writeFile(name string, data []byte, appendTo bool) error {
	sub := fs.Sub(r.fsys, r.dir)
	f, err := sub.OpenFile(name, os.O_CREATE|os.O_RDWR, 0640)
	if err != nil {
		return err
	}
	defer f.Close()
	off := int64(0)
	if appendTo {
		st, err := f.Stat()
		if err != nil {
			return err
		}
		off = st.Size()
	}
	if len(data) > 0 {
		if _, err := f.WriteAt(data, off); err != nil {
			return err
		}
	}
	return nil
}

func (r *fsRunner) exec(line string) string {
	f := strings.Fields(line)
	if len(f) == 0 {
		return ""
	}
	switch f[0] {
	case "params":
		var a, b, c int
		fmt.Sscan(f[1], &a)
		fmt.Sscan(f[2], &b)
		fmt.Sscan(f[3], &c)
		r.maxSeg, r.minSeg, r.fragBits, r.syncMode = uint32(a), uint32(b), uint32(c), f[4] == "1"
		return ""
	case "open":
		var seed uint32
		fmt.Sscan(f[1], &seed)
		pogreb.VerifSeedOverride = &seed
		_, statErr := fs.Sub(r.fsys, r.dir).Stat("lock")
		db, err := pogreb.Open(r.dir, r.opts())
		if err != nil {
			return "open err " + errShort(err)
		}
		r.db = db
		rec := 0
		if statErr == nil {
			rec = 1
		}
		return fmt.Sprintf("open ok recovered=%d", rec)
	case "put":
		if err := r.db.Put(interp.Unhex(f[1]), interp.Unhex(f[2])); err != nil {
			return "put err " + errShort(err)
		}
		return "put ok"
	case "del":
		if err := r.db.Delete(interp.Unhex(f[1])); err != nil {
			return "del err " + errShort(err)
		}
		return "del ok"
	case "get", "getappend":
		var v []byte
		var err error
		if f[0] == "get" {
			v, err = r.db.Get(interp.Unhex(f[1]))
		} else {
			v, err = r.db.GetAppend(interp.Unhex(f[1]), interp.Unhex(f[2]))
		}
		if err != nil {
			return f[0] + " err " + errShort(err)
		}
		if v == nil {
			return f[0] + " nil"
		}
		return f[0] + " val " + interp.Hex(v)
	case "has":
		ok, err := r.db.Has(interp.Unhex(f[1]))
		if err != nil {
			return "has err " + errShort(err)
		}
		return fmt.Sprintf("has %d", b2i(ok))
	case "count":
		// DB.FileSize is an API result too: recorded at every Count and compared across the three
		// shipped file systems (not with the harness file system, whose lock file is its own)
		if sz, err := r.db.FileSize(); err != nil {
			r.fsizes = append(r.fsizes, "error: "+errShort(err))
		} else {
			r.fsizes = append(r.fsizes, fmt.Sprint(sz))
		}
		return fmt.Sprintf("count %d", r.db.Count())
	case "items":
		it := r.db.Items()
		var l []string
		for {
			k, v, err := it.Next()
			if err == pogreb.ErrIterationDone {
				break
			}
			if err != nil {
				return "items err " + errShort(err)
			}
			l = append(l, interp.Hex(k)+"="+interp.Hex(v))
		}
		sort.Strings(l)
		return fmt.Sprintf("items %d %s", len(l), strings.Join(l, " "))
	case "sync":
		if err := r.db.Sync(); err != nil {
			return "sync err " + errShort(err)
		}
		return "sync ok"
	case "iternew":
		if r.iters == nil {
			r.iters = map[string]*pogreb.ItemIterator{}
		}
		r.iters[f[1]] = r.db.Items()
		return "iternew ok"
	case "iternext":
		it := r.iters[f[1]]
		if it == nil {
			return "iternext noiter"
		}
		k, v, err := it.Next()
		if err == pogreb.ErrIterationDone {
			return "iternext done"
		}
		if err != nil {
			return "iternext err " + errShort(err)
		}
		return "iternext " + interp.Hex(k) + " " + interp.Hex(v)
	case "backup":
		// the backup directory's segment bytes go to the side channel compared across file systems
		bdir := r.dir + "_bk_" + f[1]
		if err := r.db.Backup(bdir); err != nil {
			r.fsizes = append(r.fsizes, "backup error: "+errShort(err))
			return "backup err " + errShort(err)
		}
		r.fsizes = append(r.fsizes, "backup segments: "+r.segBytesOf(bdir))
		return "backup ok"
	case "compact":
		cr, err := r.db.Compact()
		if err != nil {
			return "compact err " + errShort(err)
		}
		return fmt.Sprintf("compact ok %d %d %d", cr.CompactedSegments, cr.ReclaimedRecords, cr.ReclaimedBytes)
	case "close":
		if err := r.db.Close(); err != nil {
			return "close err " + errShort(err)
		}
		r.db = nil
		return "close ok"
	case "setlock":
		if err := r.writeFile("lock", nil, false); err != nil {
			return "setlock err " + err.Error()
		}
		return "setlock ok"
	case "appendraw":
		var id, seq int
		fmt.Sscan(f[1], &id)
		fmt.Sscan(f[2], &seq)
		if err := r.writeFile(pogreb.VerifSegmentName(uint16(id), uint64(seq)), interp.Unhex(f[3]), true); err != nil {
			return "appendraw err " + err.Error()
		}
		return "appendraw ok"
	case "segbytes":
		return "segbytes " + r.segBytes()
	}
	return ""
}

// segBytes: name:length:sha256 of every segment file, sorted.
func (r *fsRunner) segBytes() string { return r.segBytesOf(r.dir) }

func (r *fsRunner) segBytesOf(dir string) string {
	sub := fs.Sub(r.fsys, dir)
	entries, err := sub.ReadDir(".")
	if err != nil {
		return "ERR " + err.Error()
	}
	var out []string
	for _, e := range entries {
		if !strings.HasSuffix(e.Name(), ".psg") {
			continue
		}
		f, err := sub.OpenFile(e.Name(), os.O_RDONLY, 0640)
		if err != nil {
			out = append(out, e.Name()+":ERR")
			continue
		}
		st, _ := f.Stat()
		data := make([]byte, st.Size())
		if len(data) > 0 {
			if _, err := f.ReadAt(data, 0); err != nil && err != io.EOF {
				out = append(out, e.Name()+":ERR "+err.Error())
			}
		}
		f.Close()
		out = append(out, fmt.Sprintf("%s:%d:%x", e.Name(), len(data), md5.Sum(data)))
	}
	sort.Strings(out)
	return strings.Join(out, ",")
}

var l1cmds = map[string]bool{"params": true, "open": true, "put": true, "del": true, "get": true, "getappend": true,
	"has": true, "count": true, "items": true, "sync": true, "compact": true, "close": true, "setlock": true, "appendraw": true, "segbytes": true,
	"iternew": true, "iternext": true, "backup": true}

// genC17: programs (writes, deletes, compaction, restart, simulated unclean shutdown with a torn
// tail) generated against the harness file system and the model, then replayed on Mem, OS, OSMMap.
func genC17(r *rng, tier string, res *Result) {
	n := scale(tier, 40, 600)
	tmp, err := os.MkdirTemp("", "pgh-c17-")
	if err != nil {
		panic(err)
	}
	defer os.RemoveAll(tmp)
	var cases []*Case
	var impls [][][]string
	for i := 0; i < n; i++ {
		g := newG(r.fork(), fmt.Sprintf("C17/%d", i))
		g.dumpEvery = 0
		g.params([]int{700, 2048, 1 << 16}[g.r.intn(3)], []int{512, 512, 560, 650}[g.r.intn(4)], []float32{0.0001, 0.3}[g.r.intn(2)], g.r.chance(25))
		g.open()
		g.keys = g.randomKeys(12)
		if i%3 == 0 {
			g.bigValues = true
		}
		sessions := 1 + g.r.intn(3)
		for s := 0; s < sessions; s++ {
			ops := 10 + g.r.intn(60)
			for j := 0; j < ops; j++ {
				g.randomOp()
			}
			if i%4 == 1 {
				// a scan that is in progress while compaction removes (and, on the mapped file system,
				// unmaps) the segment its queued items were read from
				g.do("iternew s")
				g.do("iternext s")
				for _, k := range g.keys {
					g.put(k, g.value())
				}
				g.compact()
				for j := 0; j < 4; j++ {
					g.do("iternext s")
				}
				g.c.tag("scan_across_compaction")
			}
			g.checkAll()
			if i%4 == 2 && s == 0 {
				g.do("backup w", "backup ok")
				g.c.tag("backup_on_every_file_system")
			}
			g.close()
			g.do("segbytes")
			if g.r.chance(60) {
				// simulated unclean shutdown with a torn tail on the newest segment
				segs := []string{}
				for _, nm := range g.im.FS.List(g.im.Dir) {
					if strings.HasSuffix(nm, ".psg") {
						segs = append(segs, nm)
					}
				}
				sort.Strings(segs)
				best, bestSeq := "", uint64(0)
				for _, nm := range segs {
					_, seq, _ := pogreb.VerifParseSegmentName(nm)
					if seq >= bestSeq {
						best, bestSeq = nm, seq
					}
				}
				if len(segs) > 1 && g.r.chance(40) {
					// the damaged tail is on an OLDER segment (recovery truncates any segment whose scan
					// ends in an invalid record)
					best = segs[g.r.intn(len(segs))]
					g.c.tag("torn_tail_on_an_older_segment")
				}
				g.do("setlock 1")
				if best != "" { // (compaction may have removed every segment: nothing to tear then)
					id, seq, _ := pogreb.VerifParseSegmentName(best)
					rec := pogreb.VerifEncodeRecord(g.r.bytes(3), g.r.bytes(g.r.intn(800)), false)
					g.do(fmt.Sprintf("appendraw %d %d %s", id, seq, interp.Hex(rec[:1+g.r.intn(len(rec)-1)])))
					g.c.tag("unclean_with_torn_tail")
				}
			}
			g.open()
			g.checkAll()
		}
		g.close()
		g.do("segbytes")
		c, impl := g.finish()
		cases = append(cases, c)
		impls = append(impls, impl)
		// replay on the three shipped file systems
		fileSizes := map[string][]string{}
		want := map[int]string{}
		for si, st := range c.Steps {
			f := strings.Fields(st.Cmd)
			if len(f) > 0 && l1cmds[f[0]] && f[0] != "params" {
				want[si] = resultLine(impl[si])
			}
		}
		for _, fsc := range []struct {
			name string
			fsys fs.FileSystem
			root string
		}{
			{"mem", fs.Mem, fmt.Sprintf("c17mem-%d-%d", res.Seed, i)},
			{"os", fs.OS, filepath.Join(tmp, fmt.Sprintf("os-%d", i))},
			{"osmmap", fs.OSMMap, filepath.Join(tmp, fmt.Sprintf("mm-%d", i))},
		} {
			run := &fsRunner{fsys: fsc.fsys, dir: fsc.root, maxSeg: math.MaxUint32, minSeg: 32 << 20, fragBits: 0x3f000000}
			func() {
				defer debug.SetPanicOnFault(debug.SetPanicOnFault(true))
				defer func() {
					if rec := recover(); rec != nil {
						res.Findings = append(res.Findings, &Finding{Kind: "spec", Case: c.Name, Cmd: "replay on fs." + fsc.name,
							Impl: []string{fmt.Sprint("panic: ", rec)}, Expected: []string{"no panic"}, Program: cmdsOf(c)})
					}
				}()
				for si, st := range c.Steps {
					f := strings.Fields(st.Cmd)
					if len(f) == 0 || !l1cmds[f[0]] {
						continue
					}
					got := run.exec(st.Cmd)
					if w, ok := want[si]; ok && got != w {
						res.Findings = append(res.Findings, &Finding{Kind: "spec", Case: c.Name, Step: si, Cmd: clip(st.Cmd) + " on fs." + fsc.name,
							Impl: []string{clip(got)}, Expected: []string{clip(w) + " (as on the other file systems)"}, Program: cmdsOf(c)})
						return
					}
				}
				res.Tags["replays_on_"+fsc.name]++
				fileSizes[fsc.name] = run.fsizes
			}()
			if run.db != nil {
				run.db.Close()
			}
		}
		for _, other := range []string{"os", "osmmap"} {
			a, b := fileSizes["mem"], fileSizes[other]
			if a == nil || b == nil {
				continue
			}
			for k := 0; k < len(a) && k < len(b); k++ {
				if a[k] != b[k] {
					res.Findings = append(res.Findings, &Finding{Kind: "spec", Case: c.Name, Step: k, Cmd: fmt.Sprintf("FileSize() at the %d-th Count of the program", k+1),
						Impl:     []string{"fs.mem: " + a[k], "fs." + other + ": " + b[k]},
						Expected: []string{"the same result on every FileSystem implementation"}, Program: cmdsOf(c)})
					break
				}
			}
			res.Tags["file_size_results_compared"] += len(a)
		}
	}
	runCases(res, cases, impls, !noModel)
	for i := 0; i < len(cases) && i < 2; i++ {
		res.sample(cases[i], 25)
	}
	// a file that grows past the mapped length in ONE write: a value larger than twice the smallest
	// mapping a shipped configuration could plausibly use must read back identically everywhere
	big := make([]byte, 70<<20)
	for i := range big {
		big[i] = byte(i*7 + i>>11)
	}
	sums := map[string]string{}
	for _, fsc := range []struct {
		name string
		fsys fs.FileSystem
		root string
	}{
		{"mem", fs.Mem, fmt.Sprintf("c17big-%d", res.Seed)},
		{"os", fs.OS, filepath.Join(tmp, "big-os")},
		{"osmmap", fs.OSMMap, filepath.Join(tmp, "big-mm")},
	} {
		func() {
			defer func() {
				if rec := recover(); rec != nil {
					sums[fsc.name] = fmt.Sprint("panic: ", rec)
				}
			}()
			db, err := pogreb.Open(fsc.root, &pogreb.Options{FileSystem: fsc.fsys})
			if err != nil {
				sums[fsc.name] = "open: " + err.Error()
				return
			}
			defer db.Close()
			_ = db.Put([]byte("small"), []byte("v"))
			if err := db.Put([]byte("big"), big); err != nil {
				sums[fsc.name] = "put: " + err.Error()
				return
			}
			v, err := db.Get([]byte("big"))
			if err != nil {
				sums[fsc.name] = "get: " + err.Error()
				return
			}
			sums[fsc.name] = fmt.Sprintf("%d:%x", len(v), md5.Sum(v))
		}()
	}
	want := fmt.Sprintf("%d:%x", len(big), md5.Sum(big))
	for name, got := range sums {
		if got != want {
			res.Findings = append(res.Findings, &Finding{Kind: "spec", Case: "C17/big-value", Cmd: "Put of a 70 MiB value, then Get, on fs." + name,
				Impl: []string{clip(got)}, Expected: []string{want}, Program: []string{"open", "put small v", "put big <70 MiB>", "get big"}})
		}
	}
	res.Tags["big_value_runs"] = len(sums)
	// the same READ-ONLY concurrent program on every file system: File.Slice is documented to be safe
	// for concurrent use, and readers run under a shared lock: 8 goroutines Get / Has every key of a
	// 512-key database; every result must be the stored value on every file system
	for _, fsc := range []struct {
		name string
		fsys fs.FileSystem
		root string
	}{
		{"mem", fs.Mem, fmt.Sprintf("c17conc-%d", res.Seed)},
		{"os", fs.OS, filepath.Join(tmp, "conc-os")},
		{"osmmap", fs.OSMMap, filepath.Join(tmp, "conc-mm")},
	} {
		db, err := pogreb.Open(fsc.root, &pogreb.Options{FileSystem: fsc.fsys})
		if err != nil {
			continue
		}
		const nk = 512
		kk := func(i int) []byte { return []byte(fmt.Sprintf("ck-%04d", i)) }
		vv := func(i int) []byte { return []byte(fmt.Sprintf("cv-%04d-%s", i, strings.Repeat("y", i%40))) }
		for i := 0; i < nk; i++ {
			_ = db.Put(kk(i), vv(i))
		}
		_ = db.Sync()
		var mu sync.Mutex
		bad := ""
		var wg sync.WaitGroup
		for g := 0; g < 8; g++ {
			wg.Add(1)
			go func(g int) {
				defer wg.Done()
				for round := 0; round < scale(tier, 6, 40); round++ {
					for j := 0; j < nk; j++ {
						i := (j*7 + g*61 + round) % nk
						v, err := db.Get(kk(i))
						ok, err2 := db.Has(kk(i))
						if err != nil || err2 != nil || !ok || string(v) != string(vv(i)) {
							mu.Lock()
							if bad == "" {
								bad = fmt.Sprintf("Get(%s) = %q, %v; Has = %v, %v; stored value %q", kk(i), clip(string(v)), err, ok, err2, vv(i))
							}
							mu.Unlock()
							return
						}
					}
				}
			}(g)
		}
		wg.Wait()
		_ = db.Close()
		if bad != "" {
			res.Findings = append(res.Findings, &Finding{Kind: "spec", Case: "C17/concurrent-readers", Cmd: "8 goroutines Get/Has 512 stored keys on fs." + fsc.name,
				Impl: []string{bad}, Expected: []string{"the stored value, as on the other file systems"},
				Program: []string{"open", "512 x put ck-NNNN cv-NNNN-...", "sync", "8 goroutines: Get + Has of every key, several rounds"}})
		}
		res.Tags["concurrent_reader_runs"]++
	}
	c17TornHeader(r, tier, tmp, res)
}

// c17TornHeader: a segment file that is SHORTER than its 512-byte header (what is left of a segment
// created just before the machine went down), with the lock file present. Whatever Open makes of it --
// the shipped code refuses it -- it must make the same of it on every FileSystem implementation:
// same results call by call, same segment files afterwards.
func c17TornHeader(r *rng, tier string, tmp string, res *Result) {
	lens := []int{1, 7, 8, 9, 12, 100, 511}
	for round := 0; round < scale(tier, 3, len(lens)); round++ {
		keep := lens[(round*3+r.intn(2))%len(lens)]
		type outcome struct {
			trace []string
			files []string
		}
		outs := map[string]*outcome{}
		var names []string
		for _, fsc := range []struct {
			name string
			fsys fs.FileSystem
			root string
		}{
			{"harness", tfs.New(), "th"},
			{"mem", fs.Mem, fmt.Sprintf("c17th-%d-%d", res.Seed, round)},
			{"os", fs.OS, filepath.Join(tmp, fmt.Sprintf("th-os-%d", round))},
			{"osmmap", fs.OSMMap, filepath.Join(tmp, fmt.Sprintf("th-mm-%d", round))},
		} {
			oc := &outcome{}
			outs[fsc.name] = oc
			names = append(names, fsc.name)
			note := func(what string, err error) {
				if err != nil {
					// (paths differ between the file systems: keep the text after the directory)
					oc.trace = append(oc.trace, what+": error "+strings.ReplaceAll(err.Error(), fsc.root, "<dir>"))
				} else {
					oc.trace = append(oc.trace, what+": ok")
				}
			}
			func() {
				defer func() {
					if rec := recover(); rec != nil {
						oc.trace = append(oc.trace, fmt.Sprint("panic: ", rec))
					}
				}()
				mk := func() *pogreb.Options {
					o := &pogreb.Options{FileSystem: fsc.fsys}
					pogreb.VerifSetThresholds(o, 1024, 512, math.Float32frombits(fragBits(0.5)))
					return o
				}
				db, err := pogreb.Open(fsc.root, mk())
				if err != nil {
					note("open", err)
					return
				}
				// fill the first segment; the next Put creates 00001-2.psg
				n := 0
				for ; n < 200; n++ {
					if err := db.Put([]byte(fmt.Sprintf("th-%03d", n)), []byte("0123456789")); err != nil {
						note("put", err)
						return
					}
					if len(pogreb.VerifSegments(db)) >= 2 {
						break
					}
				}
				if err := db.Close(); err != nil {
					note("close", err)
					return
				}
				sub := fs.Sub(fsc.fsys, fsc.root)
				// unclean: the lock file is there, the newest segment is cut inside its header
				if lf, err := sub.OpenFile("lock", os.O_CREATE|os.O_RDWR, 0644); err == nil {
					_, _ = lf.WriteAt([]byte{1}, 0)
					_ = lf.Close()
				} else {
					note("create lock", err)
					return
				}
				f, err := sub.OpenFile("00001-2.psg", os.O_RDWR, 0644)
				if err != nil {
					note("open segment file", err)
					return
				}
				if err := f.Truncate(int64(keep)); err != nil {
					note("truncate", err)
				}
				_ = f.Close()
				db, err = pogreb.Open(fsc.root, mk())
				note("open of the torn directory", err)
				if err == nil {
					oc.trace = append(oc.trace, fmt.Sprintf("count %d", db.Count()))
					v, err := db.Get([]byte("th-000"))
					oc.trace = append(oc.trace, fmt.Sprintf("get th-000 = %q %v", v, err))
					note("put", db.Put([]byte("after"), []byte("x")))
					v, err = db.Get([]byte("after"))
					oc.trace = append(oc.trace, fmt.Sprintf("get after = %q %v", v, err))
					note("close", db.Close())
				}
				ents, err := sub.ReadDir(".")
				if err == nil {
					for _, e := range ents {
						if strings.HasSuffix(e.Name(), ".psg") {
							if st, err := sub.Stat(e.Name()); err == nil {
								oc.files = append(oc.files, fmt.Sprintf("%s:%d", e.Name(), st.Size()))
							}
						}
					}
					sort.Strings(oc.files)
				}
			}()
		}
		ref := outs[names[0]]
		for _, nm := range names[1:] {
			o := outs[nm]
			a, b := strings.Join(ref.trace, " | ")+" || "+strings.Join(ref.files, " "), strings.Join(o.trace, " | ")+" || "+strings.Join(o.files, " ")
			if a != b {
				res.Findings = append(res.Findings, &Finding{Kind: "spec", Case: fmt.Sprintf("C17/torn-header/%d", keep), Cmd: fmt.Sprintf("unclean directory whose newest segment file has %d bytes (less than a header), on fs.%s", keep, nm),
					Impl: []string{"fs." + nm + ": " + clip(b), "fs." + names[0] + ": " + clip(a)}, Expected: []string{"the same results and the same segment files on every FileSystem implementation"},
					Program: []string{"open (1 KiB segments)", "put until a second segment exists", "close", "create lock file", fmt.Sprintf("truncate 00001-2.psg to %d bytes", keep), "open; count; get; put; get; close"}})
				return
			}
		}
		res.Tags["torn_header_directories_compared_across_file_systems"]++
	}
}
