package main

import (
	"bytes"
	"fmt"
	"math"
	"os"
	"path/filepath"
	"runtime"
	"runtime/debug"
	"sort"
	"strings"
	"sync"
	"sync/atomic"
	"time"

	"github.com/akrylysov/pogreb"
	"github.com/akrylysov/pogreb/fs"
	"github.com/anishathalye/porcupine"

	"verifharness/interp"
	"verifharness/tfs"
)

// ---- C07: linearizability. Goroutines issue Put/Delete/Get/GetAppend/Has on a few keys while
// Compact, Sync, Backup, Count and Items scans run alongside; compaction is held at its yield
// points for random periods so that writers land in the per-record lock-release window. The
// recorded call/return history is checked per key against a register-with-delete specification
// (porcupine), Count against its bounds. This is the SEARCH for a failing history; the statement
// for all schedules is Conc.v / ShapeCheck.v.

type regIn struct {
	op  int // 0 put, 1 delete, 2 get, 3 has
	val string
}
type regOut struct {
	val     string
	present bool
}

var regModel = porcupine.Model{
	Init: func() interface{} { return regOut{} },
	Step: func(state, input, output interface{}) (bool, interface{}) {
		st := state.(regOut)
		in := input.(regIn)
		out := output.(regOut)
		switch in.op {
		case 0:
			return true, regOut{in.val, true}
		case 1:
			return true, regOut{}
		case 2:
			return out.present == st.present && (!st.present || out.val == st.val), st
		default:
			return out.present == st.present, st
		}
	},
	Equal: func(a, b interface{}) bool { return a.(regOut) == b.(regOut) },
	DescribeOperation: func(input, output interface{}) string {
		in := input.(regIn)
		out := output.(regOut)
		return fmt.Sprintf("%v(%x) -> %v %x", []string{"put", "delete", "get", "has"}[in.op], in.val, out.present, out.val)
	},
}

type concStats struct {
	runs, ops, compactions, yields, scanned int
}

// c10ScanAcrossUnmap returns the text of a fault or of a wrong pair, or "".
func c10ScanAcrossUnmap(r *rng, dir string, useClose bool) (fault string) {
	o := &pogreb.Options{FileSystem: fs.OSMMap}
	pogreb.VerifSetThresholds(o, 1024, 512, math.Float32frombits(fragBits(0.01)))
	db, err := pogreb.Open(dir, o)
	if err != nil {
		return ""
	}
	stored := map[string]map[string]bool{}
	put := func(k, v string) {
		if db.Put([]byte(k), []byte(v)) == nil {
			if stored[k] == nil {
				stored[k] = map[string]bool{}
			}
			stored[k][v] = true
		}
	}
	for i := 0; i < 10; i++ {
		put(fmt.Sprintf("s%02d", i), strings.Repeat(string(rune('a'+i)), 40+r.intn(20)))
	}
	for i := 0; i < 5; i++ {
		put(fmt.Sprintf("s%02d", i), strings.Repeat("z", 30)) // garbage in the first segment
	}
	it := db.Items()
	closed := false
	defer func() {
		if !closed {
			_ = db.Close()
		}
	}()
	defer debug.SetPanicOnFault(debug.SetPanicOnFault(true))
	defer func() {
		if rec := recover(); rec != nil {
			fault = fmt.Sprint("fault / panic in Next: ", rec)
		}
	}()
	if _, _, err := it.Next(); err != nil {
		return ""
	}
	if useClose {
		_ = db.Close()
		closed = true
	} else {
		_, _ = db.Compact()
	}
	for n := 0; n < 20; n++ {
		k, v, err := it.Next()
		if err != nil {
			return ""
		}
		if !stored[string(k)][string(v)] {
			return fmt.Sprintf("Next returned (%q, %q), which was never stored", clip(string(k)), clip(string(v)))
		}
	}
	return ""
}

// concSyncMode: the next concRun opens the database in sync-after-every-write mode
var concSyncMode bool

func concRun(r *rng, fsys fs.FileSystem, dir string, nGor, nKeys, opsPer int, withClose bool, res *Result, name string, st *concStats, cold int) {
	seed := uint32(r.next())
	pogreb.VerifSeedOverride = &seed
	o := &pogreb.Options{FileSystem: fsys}
	if concSyncMode {
		// sync-after-every-write mode; on the harness file system a flush takes a little while, as on
		// a device
		o.BackgroundSyncInterval = -1
		if t, ok := fsys.(*tfs.FS); ok {
			t.SyncDelay = []time.Duration{150 * time.Microsecond, 2 * time.Millisecond, 5 * time.Millisecond}[r.intn(3)]
		}
	}
	pogreb.VerifSetThresholds(o, uint32([]int{600, 900, 2048}[r.intn(3)]), 512, math.Float32frombits(fragBits(0.0001)))
	db, err := pogreb.Open(dir, o)
	if err != nil {
		res.Findings = append(res.Findings, &Finding{Kind: "spec", Case: name, Cmd: "open", Impl: []string{err.Error()}, Expected: []string{"open ok"}, Program: []string{}})
		return
	}
	var yields int64
	ySeed := r.next()
	pogreb.VerifYield = func(point string) {
		n := atomic.AddInt64(&yields, 1)
		// hold the compaction between two records for a while so that writers slip in
		if (uint64(n)*0x9e3779b97f4a7c15+ySeed)%3 == 0 {
			time.Sleep(time.Duration(50+(n%7)*40) * time.Microsecond)
		} else {
			runtime.Gosched()
		}
	}
	defer func() { pogreb.VerifYield = nil }()
	keys := make([][]byte, nKeys)
	for i := range keys {
		keys[i] = []byte(fmt.Sprintf("k%d", i))
	}
	// cold keys: written once, never touched by the workers: compaction keeps promoting their live
	// records, one index-bucket write-back per record, while the workers update the same bucket
	for i := 0; i < cold; i++ {
		_ = db.Put([]byte(fmt.Sprintf("cold%d", i)), []byte(strings.Repeat("c", 40)))
	}
	var clock int64
	var mu sync.Mutex
	hist := map[string][]porcupine.Operation{}
	var panics []string
	var wg sync.WaitGroup
	stop := make(chan struct{})
	record := func(client int, key string, in regIn, call int64, out regOut) {
		ret := atomic.AddInt64(&clock, 1)
		mu.Lock()
		hist[key] = append(hist[key], porcupine.Operation{ClientId: client, Input: in, Call: call, Output: out, Return: ret})
		mu.Unlock()
	}
	guard := func(what string) {
		if rec := recover(); rec != nil {
			mu.Lock()
			panics = append(panics, fmt.Sprintf("%s: %v", what, rec))
			mu.Unlock()
		}
	}
	var countViol []string
	// every value that was ever handed to Put, per key (recorded BEFORE the call): what a scan may return
	var everMu sync.Mutex
	ever := map[string]map[string]bool{}
	noteValue := func(k, v string) {
		everMu.Lock()
		if ever[k] == nil {
			ever[k] = map[string]bool{}
		}
		ever[k][v] = true
		everMu.Unlock()
	}
	for i := 0; i < cold; i++ {
		noteValue(fmt.Sprintf("cold%d", i), strings.Repeat("c", 40))
	}
	var scanViol []string
	var scanned int64
	for g := 0; g < nGor; g++ {
		wg.Add(1)
		gr := r.fork()
		go func(g int) {
			defer wg.Done()
			defer guard("worker")
			for i := 0; i < opsPer; i++ {
				k := keys[gr.intn(len(keys))]
				call := atomic.AddInt64(&clock, 1)
				switch x := gr.intn(100); {
				case x < 35:
					v := fmt.Sprintf("%d.%d.%s", g, i, strings.Repeat("x", gr.intn(80)))
					noteValue(string(k), v)
					if err := db.Put(k, []byte(v)); err == nil {
						record(g, string(k), regIn{0, v}, call, regOut{})
					}
				case x < 50:
					if err := db.Delete(k); err == nil {
						record(g, string(k), regIn{1, ""}, call, regOut{})
					}
				case x < 75:
					v, err := db.Get(k)
					if err == nil {
						record(g, string(k), regIn{2, ""}, call, regOut{string(v), v != nil})
					}
				case x < 85:
					v, err := db.GetAppend(k, []byte("p"))
					if err == nil {
						if v == nil {
							record(g, string(k), regIn{2, ""}, call, regOut{})
						} else {
							record(g, string(k), regIn{2, ""}, call, regOut{string(v[1:]), true})
						}
					}
				default:
					ok, err := db.Has(k)
					if err == nil {
						record(g, string(k), regIn{3, ""}, call, regOut{"", ok})
					}
				}
			}
		}(g)
	}
	// a scanner of its own: Items scans that run ALONGSIDE Compact (the background goroutine below runs
	// its scans and compactions one after the other). Next must not fail or panic, and every pair it
	// returns must be a key of the workload with a value that was put for that key.
	wg.Add(1)
	sc := r.fork()
	go func() {
		defer wg.Done()
		defer guard("scanner (Items / Next alongside Compact)")
		for {
			select {
			case <-stop:
				return
			default:
			}
			it := db.Items()
			for n := 0; n < 100000; n++ {
				k, v, err := it.Next()
				if err == pogreb.ErrIterationDone {
					break
				}
				if err != nil {
					if !withClose {
						mu.Lock()
						if len(scanViol) < 3 {
							scanViol = append(scanViol, "Next returned the error "+err.Error())
						}
						mu.Unlock()
					}
					break
				}
				atomic.AddInt64(&scanned, 1)
				everMu.Lock()
				ok := ever[string(k)][string(v)]
				everMu.Unlock()
				if !ok {
					mu.Lock()
					if len(scanViol) < 3 {
						scanViol = append(scanViol, fmt.Sprintf("Next returned (%q, %q): never put for that key", clip(string(k)), clip(string(v))))
					}
					mu.Unlock()
				}
				if sc.chance(30) {
					// a pause between two Next calls: compaction moves on in the meantime
					time.Sleep(time.Duration(20+sc.intn(200)) * time.Microsecond)
				}
			}
		}
	}()
	// background: Compact, Sync, Count, Items, Backup, FileSize, Metrics
	wg.Add(1)
	bg := r.fork()
	go func() {
		defer wg.Done()
		defer guard("background")
		for i := 0; ; i++ {
			select {
			case <-stop:
				return
			default:
			}
			switch bg.intn(7) {
			case 0, 1:
				if cr, err := db.Compact(); err == nil && cr.CompactedSegments > 0 {
					mu.Lock()
					st.compactions++
					mu.Unlock()
				}
			case 2:
				_ = db.Sync()
			case 3:
				if c := db.Count(); int(c) > nKeys+cold {
					mu.Lock()
					countViol = append(countViol, fmt.Sprintf("Count()=%d with %d keys in use", c, nKeys))
					mu.Unlock()
				}
			case 4:
				it := db.Items()
				seen := 0
				for {
					_, _, err := it.Next()
					if err != nil {
						break
					}
					seen++
					if seen > 100000 {
						break
					}
				}
			case 5:
				_, _ = db.FileSize()
				_ = db.Metrics()
			default:
				if tf, ok := fsys.(*tfs.FS); ok && i%5 == 0 {
					_ = tf
					_ = db.Backup(fmt.Sprintf("%s-bk%d", dir, i))
				}
			}
		}
	}()
	if withClose {
		// Close racing with everything else
		time.Sleep(time.Duration(200+r.intn(3000)) * time.Microsecond)
		closed := make(chan struct{})
		go func() {
			defer close(closed)
			defer guard("close")
			_ = db.Close()
		}()
		stuck := ""
		select {
		case <-closed:
		case <-time.After(20 * time.Second):
			stuck = "Close does not return (20 s)"
		}
		close(stop)
		all := make(chan struct{})
		go func() { wg.Wait(); close(all) }()
		if stuck == "" {
			select {
			case <-all:
			case <-time.After(20 * time.Second):
				stuck = "operations racing with Close never return (20 s): deadlock"
			}
		}
		if stuck != "" {
			buf := make([]byte, 1<<16)
			buf = buf[:runtime.Stack(buf, true)]
			lines := []string{stuck}
			for _, l := range strings.Split(string(buf), "\n") {
				if strings.Contains(l, "pogreb.(*DB)") {
					lines = append(lines, strings.TrimSpace(l))
				}
				if len(lines) > 12 {
					break
				}
			}
			res.Findings = append(res.Findings, &Finding{Kind: "spec", Case: name, Cmd: "Close racing with a concurrent workload", Impl: lines, Expected: []string{"every call returns"}, Program: []string{}})
			return
		}
	} else {
		done := make(chan struct{})
		go func() { wg.Wait(); close(done) }()
		// the workers finish; then stop the background goroutine
		for g := 0; g < 200; g++ {
			time.Sleep(2 * time.Millisecond)
			mu.Lock()
			n := 0
			for _, h := range hist {
				n += len(h)
			}
			mu.Unlock()
			if n >= nGor*opsPer {
				break
			}
		}
		close(stop)
		select {
		case <-done:
		case <-time.After(20 * time.Second):
			res.Findings = append(res.Findings, &Finding{Kind: "spec", Case: name, Cmd: "concurrent workload", Impl: []string{"no progress for 20 s (deadlock?)"}, Expected: []string{"all goroutines finish"}, Program: []string{}})
			return
		}
		func() {
			defer guard("close")
			if err := db.Close(); err != nil {
				panics = append(panics, "close: "+err.Error())
			}
		}()
	}
	st.runs++
	st.yields += int(yields)
	for _, p := range panics {
		res.Findings = append(res.Findings, &Finding{Kind: "spec", Case: name, Cmd: "concurrent workload", Impl: []string{clip(p)}, Expected: []string{"no panic, no fault"}, Program: []string{}})
	}
	for _, c := range scanViol {
		res.Findings = append(res.Findings, &Finding{Kind: "spec", Case: name, Cmd: "Items scan alongside Compact and writers", Impl: []string{c},
			Expected: []string{"every pair returned is a key with a value that was put for it; no error"}, Program: []string{}})
	}
	st.scanned += int(scanned)
	for _, c := range countViol {
		res.Findings = append(res.Findings, &Finding{Kind: "spec", Case: name, Cmd: "Count", Impl: []string{c}, Expected: []string{"Count within bounds"}, Program: []string{}})
	}
	if withClose {
		return // operations that lose the race with Close may fail; only panics/deadlocks are judged
	}
	var ks []string
	for k := range hist {
		ks = append(ks, k)
	}
	sort.Strings(ks)
	for _, k := range ks {
		st.ops += len(hist[k])
		resLin, _ := porcupine.CheckOperationsVerbose(regModel, hist[k], 10*time.Second)
		if resLin == porcupine.Illegal {
			var prog []string
			ops := hist[k]
			sort.Slice(ops, func(i, j int) bool { return ops[i].Call < ops[j].Call })
			for _, op := range ops {
				prog = append(prog, fmt.Sprintf("client=%d call=%d return=%d %s", op.ClientId, op.Call, op.Return, regModel.DescribeOperation(op.Input, op.Output)))
			}
			res.Findings = append(res.Findings, &Finding{Kind: "spec", Case: name, Cmd: "history of key " + k,
				Impl: []string{"history is not linearizable"}, Expected: []string{"a sequential order respecting real time explains all results"}, Program: prog})
		}
	}
}

// concGrow: a database that grows (index splits move keys between buckets inside Puts) while readers
// look up keys whose Put has already returned and that nobody deletes: every such read must find the
// key with its value (any sequential order that respects real time has the Put before the read).
func concGrow(r *rng, fsys fs.FileSystem, dir string, nKeys, nReaders int, res *Result, name string) int {
	db, err := pogreb.Open(dir, &pogreb.Options{FileSystem: fsys})
	if err != nil {
		res.Findings = append(res.Findings, &Finding{Kind: "spec", Case: name, Cmd: "open", Impl: []string{err.Error()}, Expected: []string{"open ok"}, Program: []string{}})
		return 0
	}
	defer db.Close()
	var acked int64
	var mu sync.Mutex
	var bad []string
	var reads int64
	key := func(i int) []byte { return []byte(fmt.Sprintf("grow-%06d", i)) }
	val := func(i int) []byte { return []byte(fmt.Sprintf("value-%d", i)) }
	var wg sync.WaitGroup
	stop := make(chan struct{})
	for g := 0; g < nReaders; g++ {
		wg.Add(1)
		rr := r.fork()
		go func(g int) {
			defer wg.Done()
			for {
				select {
				case <-stop:
					return
				default:
				}
				n := int(atomic.LoadInt64(&acked))
				if n == 0 {
					runtime.Gosched()
					continue
				}
				i := rr.intn(n)
				var got string
				var what string
				switch rr.intn(3) {
				case 0:
					v, err := db.Get(key(i))
					what = "Get"
					if err != nil {
						got = "error " + err.Error()
					} else if v == nil {
						got = "nil (key absent)"
					} else if string(v) != string(val(i)) {
						got = "value " + string(v)
					}
				case 1:
					ok, err := db.Has(key(i))
					what = "Has"
					if err != nil {
						got = "error " + err.Error()
					} else if !ok {
						got = "false"
					}
				default:
					v, err := db.GetAppend(key(i), []byte("p"))
					what = "GetAppend"
					if err != nil {
						got = "error " + err.Error()
					} else if string(v) != "p"+string(val(i)) {
						got = "result " + string(v)
					}
				}
				atomic.AddInt64(&reads, 1)
				if got != "" {
					mu.Lock()
					if len(bad) < 3 {
						bad = append(bad, fmt.Sprintf("%s(%s) returned %s after Put(%s, %s) had returned (%d Puts acknowledged, none deleted); only Puts of OTHER new keys were running",
							what, key(i), got, key(i), val(i), n))
					}
					mu.Unlock()
				}
			}
		}(g)
	}
	for i := 0; i < nKeys; i++ {
		if err := db.Put(key(i), val(i)); err != nil {
			break
		}
		atomic.StoreInt64(&acked, int64(i+1))
		if i%64 == 0 {
			runtime.Gosched()
		}
	}
	close(stop)
	wg.Wait()
	if len(bad) > 0 {
		res.Findings = append(res.Findings, &Finding{Kind: "spec", Case: name, Cmd: "readers of acknowledged keys while the database grows",
			Impl: bad, Expected: []string{"every acknowledged, never deleted key is found with its value"},
			Program: []string{fmt.Sprintf("1 writer: Put grow-000000 .. grow-%06d in order", nKeys-1), fmt.Sprintf("%d readers: Get/Has/GetAppend of random keys below the acknowledged watermark", nReaders)}})
	}
	return int(reads)
}

func genC07(r *rng, tier string, res *Result) {
	n := scale(tier, 40, 400)
	st := &concStats{}
	tmp, _ := os.MkdirTemp("", "pgh-c07-")
	defer os.RemoveAll(tmp)
	for i := 0; i < n; i++ {
		var fsys fs.FileSystem = tfs.New()
		dir := "db"
		if i%4 == 3 {
			fsys, dir = fs.OSMMap, filepath.Join(tmp, fmt.Sprintf("m%d", i))
		}
		if i%8 == 1 {
			// the plain OS file system has read paths of its own (pread into buffers)
			fsys, dir = fs.OS, filepath.Join(tmp, fmt.Sprintf("o%d", i))
			res.Tags["runs_on_fs_os"]++
		}
		cold := 0
		ops := 40 + r.intn(60)
		if i%2 == 1 {
			cold, ops = 6+r.intn(8), 150+r.intn(150)
		}
		concSyncMode = i%4 == 2
		if concSyncMode {
			res.Tags["runs_in_sync_after_every_write_mode"]++
		}
		concRun(r, fsys, dir, 2+r.intn(6), 2+r.intn(4), ops, false, res, fmt.Sprintf("C07/%d", i), st, cold)
		res.Cases++
		res.Distinct++
	}
	concSyncMode = false
	growReads := 0
	for i := 0; i < scale(tier, 8, 40); i++ {
		var fsys fs.FileSystem = tfs.New()
		dir := "db"
		if i%2 == 1 {
			fsys, dir = fs.OSMMap, filepath.Join(tmp, fmt.Sprintf("g%d", i))
		}
		if i%4 == 2 {
			fsys, dir = fs.OS, filepath.Join(tmp, fmt.Sprintf("go%d", i))
		}
		growReads += concGrow(r, fsys, dir, 400+r.intn(1200), 2+r.intn(5), res, fmt.Sprintf("C07/grow/%d", i))
		res.Cases++
	}
	res.Tags["reads_of_acknowledged_keys_during_growth"] = growReads
	for i := 0; i < scale(tier, 8, 60); i++ {
		var fsys fs.FileSystem = tfs.New()
		dir := "db"
		if i%2 == 1 {
			fsys, dir = fs.OSMMap, filepath.Join(tmp, fmt.Sprintf("cg%d", i))
		}
		res.Tags["keys_checked_after_compaction_alongside_growth"] += concCompactGrow(r, fsys, dir, res, fmt.Sprintf("C07/compact-grow/%d", i))
		res.Cases++
	}
	st.ops += growReads
	res.Steps = st.ops
	res.SpecChecked = st.ops
	res.Tags["operations_in_checked_histories"] = st.ops
	res.Tags["compactions_that_removed_segments"] = st.compactions
	res.Tags["compaction_yield_points_hit"] = st.yields
	res.Tags["pairs_returned_by_scans_alongside_compaction"] = st.scanned
	res.Samples = append(res.Samples, []byte(`"2-7 goroutines x 40-100 ops on 2-5 keys + background Compact/Sync/Count/Items/Backup; per-key porcupine check"`))
	// interleavings of ATOMIC STEPS, executed deterministically: Compact stepped lock section by lock
	// section with Puts of new keys (index splits) in the windows; the history is sequential, the
	// reference map and the micro-step model (the objects of Linz.C07_linearizable_microsteps) decide
	var cases []*Case
	var impls [][][]string
	genSplitInsideCompaction(r, tier, "C07", func(g *G) {
		c, impl := g.finish()
		cases = append(cases, c)
		impls = append(impls, impl)
	})
	steps := res.Steps
	runCases(res, cases, impls, !noModel)
	res.Tags["operations_in_stepped_compaction_histories"] = res.Steps - steps
}

// ---- C10: no data race, panic, fault or deadlock, including Close racing with everything.
// The race detector part needs a binary built with -race: `pgh-race check C10race`.
func genC10(r *rng, tier string, res *Result) {
	debug.SetPanicOnFault(true)
	n := scale(tier, 30, 240)
	st := &concStats{}
	tmp, _ := os.MkdirTemp("", "pgh-c10-")
	defer os.RemoveAll(tmp)
	before := runtime.NumGoroutine()
	for i := 0; i < n; i++ {
		var fsys fs.FileSystem
		dir := filepath.Join(tmp, fmt.Sprintf("d%d", i))
		switch i % 3 {
		case 0:
			fsys = fs.OSMMap
		case 1:
			fsys = fs.OS
		default:
			fsys, dir = tfs.New(), "db"
		}
		if os.Getenv("PGH_FS") == "mem" {
			fsys, dir = fs.Mem, fmt.Sprintf("c10mem-%d-%d", res.Seed, i)
		}
		concRun(r, fsys, dir, 2+r.intn(6), 2+r.intn(4), 30+r.intn(60), i%2 == 0, res, fmt.Sprintf("C10/%d", i), st, r.intn(6))
		res.Cases++
		res.Distinct++
	}
	// readers of a large value (a copy that takes milliseconds) on the memory-mapped file system racing
	// with Close and with Delete + Compact: no memory fault
	for i := 0; i < scale(tier, 6, 20) && !raceOn; i++ { // (the race-detector build runs the small-value stress only)
		if fault := c14Race(r, filepath.Join(tmp, fmt.Sprintf("big%d", i)), i%2 == 1); fault != "" {
			what := "Close"
			if i%2 == 1 {
				what = "Delete + Compact"
			}
			res.Findings = append(res.Findings, &Finding{Kind: "spec", Case: fmt.Sprintf("C10/big/%d", i), Cmd: "Get / GetAppend of an 8 MiB value on fs.OSMMap racing with " + what,
				Impl: []string{clip(fault)}, Expected: []string{"no memory fault"},
				Program: []string{"open (fs.OSMMap)", "put big <8 MiB>", "goroutines: loop Get(big) / GetAppend(big, <prefix>)", "main: " + what}})
			break
		}
		res.Tags["large_value_reads_racing_with_unmapping"]++
	}
	// a scan whose queue holds items of a segment that is then compacted away / a database that is then
	// closed (fs.OSMMap unmaps): the following Next calls return items, an error or done -- no fault
	for i := 0; i < scale(tier, 6, 40); i++ {
		if fault := c10ScanAcrossUnmap(r, filepath.Join(tmp, fmt.Sprintf("scan%d", i)), i%2 == 1); fault != "" {
			what := "Compact"
			if i%2 == 1 {
				what = "Close"
			}
			res.Findings = append(res.Findings, &Finding{Kind: "spec", Case: fmt.Sprintf("C10/scan/%d", i), Cmd: "Next after " + what + " on fs.OSMMap",
				Impl: []string{clip(fault)}, Expected: []string{"an item that was stored, an error, or ErrIterationDone; no memory fault"},
				Program: []string{"open (fs.OSMMap, 1 KiB segments)", "10 x put", "overwrite half (garbage)", "it := Items(); it.Next()", what, "it.Next() ..."}})
			break
		}
		res.Tags["scans_across_unmapping"]++
	}
	// after Close no goroutine started by the database is left
	time.Sleep(50 * time.Millisecond)
	if after := runtime.NumGoroutine(); after > before+2 {
		buf := make([]byte, 1<<16)
		buf = buf[:runtime.Stack(buf, true)]
		if bytes.Contains(buf, []byte("pogreb.(*DB).startBackgroundWorker")) {
			res.Findings = append(res.Findings, &Finding{Kind: "spec", Case: "C10", Cmd: "goroutines after Close", Impl: []string{fmt.Sprintf("%d goroutines before, %d after", before, after)}, Expected: []string{"no goroutine of the database left"}, Program: []string{}})
		}
	}
	// background worker: started and stopped by Close
	for i := 0; i < scale(tier, 5, 50); i++ {
		t := tfs.New()
		o := &pogreb.Options{FileSystem: t, BackgroundSyncInterval: time.Millisecond, BackgroundCompactionInterval: time.Millisecond}
		db, err := pogreb.Open("db", o)
		if err != nil {
			continue
		}
		for j := 0; j < 50; j++ {
			_ = db.Put([]byte{byte(j % 5)}, []byte("v"))
		}
		time.Sleep(3 * time.Millisecond)
		_ = db.Close()
		res.Tags["background_worker_runs"]++
	}
	time.Sleep(20 * time.Millisecond)
	buf := make([]byte, 1<<18)
	buf = buf[:runtime.Stack(buf, true)]
	if bytes.Contains(buf, []byte("startBackgroundWorker")) {
		res.Findings = append(res.Findings, &Finding{Kind: "spec", Case: "C10", Cmd: "goroutines after Close", Impl: []string{"background worker still running after Close"}, Expected: []string{"no goroutine of the database left"}, Program: []string{}})
	}
	// compaction alongside index growth (under the race detector: what compaction reads of the index
	// geometry outside the lock races with the splits)
	for i := 0; i < scale(tier, 4, 30); i++ {
		var fsys fs.FileSystem = tfs.New()
		dir := "db"
		if i%2 == 1 {
			fsys, dir = fs.OSMMap, filepath.Join(tmp, fmt.Sprintf("cg%d", i))
		}
		if os.Getenv("PGH_FS") == "mem" {
			fsys, dir = fs.Mem, fmt.Sprintf("c10cg-%d-%d", res.Seed, i)
		}
		res.Tags["keys_checked_after_compaction_alongside_growth"] += concCompactGrow(r, fsys, dir, res, fmt.Sprintf("C10/compact-grow/%d", i))
	}
	// Close while a BACKGROUND compaction is in flight (parked at one of its yield points, outside the
	// database lock): Close may return only after the compaction has finished -- whatever runs it is a
	// goroutine started by the database
	for i := 0; i < scale(tier, 4, 30); i++ {
		if what := c10CloseDuringBackgroundCompaction(r); what != "" {
			if what == "no compaction" {
				res.Tags["background_compaction_never_started"]++
				continue
			}
			res.Findings = append(res.Findings, &Finding{Kind: "spec", Case: fmt.Sprintf("C10/close-during-background-compaction/%d", i), Cmd: "Close while the background compaction is parked between two of its steps",
				Impl: []string{clip(what)}, Expected: []string{"Close waits for the compaction; after Close returns no goroutine started by the database is left running"},
				Program: []string{"open (BackgroundCompactionInterval = 1 ms, 1 KiB segments)", "overwrite one key 120 times", "wait until the background compaction reaches a yield point; hold it there", "Close"}})
			break
		}
		res.Tags["closes_during_a_background_compaction"]++
	}
	res.Steps = st.ops
	res.Tags["runs_with_close_racing"] = n / 2
	res.Tags["compaction_yield_points_hit"] = st.yields
	res.SpecChecked = n
	res.Samples = append(res.Samples, []byte(`"2-7 goroutines on OSMMap/OS/harness FS, all public methods, Close racing in every second run, SetPanicOnFault"`))
	_ = interp.Hex
}

// c10CloseDuringBackgroundCompaction returns "" if Close waited for the background compaction,
// "no compaction" if none started, otherwise a description of what was observed.
func c10CloseDuringBackgroundCompaction(r *rng) string {
	t := tfs.New()
	o := &pogreb.Options{FileSystem: t, BackgroundCompactionInterval: time.Millisecond}
	pogreb.VerifSetThresholds(o, 1024, 512, math.Float32frombits(fragBits(0.01)))
	parked := make(chan string, 1)
	release := make(chan struct{})
	var once sync.Once
	skip := r.intn(4) // park at the first, second, ... yield point of the compaction
	var seen int64
	pogreb.VerifYield = func(point string) {
		if !strings.HasPrefix(point, "compact.") {
			return
		}
		if int(atomic.AddInt64(&seen, 1)) <= skip {
			return
		}
		once.Do(func() { parked <- point })
		<-release
	}
	defer func() { pogreb.VerifYield = nil }()
	db, err := pogreb.Open("db", o)
	if err != nil {
		close(release)
		return "no compaction"
	}
	for j := 0; j < 120; j++ {
		_ = db.Put([]byte("the-key"), []byte(strings.Repeat("v", 30+r.intn(30))))
	}
	var at string
	select {
	case at = <-parked:
	case <-time.After(5 * time.Second):
		close(release)
		_ = db.Close()
		return "no compaction"
	}
	closed := make(chan error, 1)
	go func() { closed <- db.Close() }()
	early := ""
	select {
	case err := <-closed:
		buf := make([]byte, 1<<18)
		buf = buf[:runtime.Stack(buf, true)]
		var frames []string
		for _, l := range strings.Split(string(buf), "\n") {
			if strings.Contains(l, "pogreb.(*DB)") {
				frames = append(frames, strings.TrimSpace(l))
			}
		}
		early = fmt.Sprintf("Close returned %v while the background compaction was parked at %s; goroutines of the database still running: %s", err, at, strings.Join(frames, " <- "))
		closed <- err
	case <-time.After(300 * time.Millisecond):
	}
	close(release)
	select {
	case <-closed:
	case <-time.After(20 * time.Second):
		return "Close does not return after the background compaction was released (20 s)"
	}
	if early != "" {
		return early
	}
	time.Sleep(20 * time.Millisecond)
	buf := make([]byte, 1<<18)
	buf = buf[:runtime.Stack(buf, true)]
	if bytes.Contains(buf, []byte("pogreb.(*DB).")) {
		return "a goroutine of the database is still running after Close returned"
	}
	// the directory is cleanly closed and complete
	db2, err := pogreb.Open("db", &pogreb.Options{FileSystem: t})
	if err != nil {
		return "reopen after Close: " + err.Error()
	}
	defer db2.Close()
	if v, err := db2.Get([]byte("the-key")); err != nil || v == nil {
		return fmt.Sprintf("after Close and reopen Get(the-key) = %q, %v", clip(string(v)), err)
	}
	return ""
}

// concCompactGrow: Compact runs while writers insert NEW keys (the index grows: every ~22 inserts a
// bucket is split and part of its keys moves to a new bucket). Whatever compaction has looked at
// outside the lock is stale after a split. Afterwards every key must be readable with its value and
// Count must agree; nothing may panic. Returns the number of keys checked.
func concCompactGrow(r *rng, fsys fs.FileSystem, dir string, res *Result, name string) int {
	// (the stepping hook of the sequential generators parks compactions at their yield points)
	pogreb.VerifYield = nil
	o := &pogreb.Options{FileSystem: fsys}
	pogreb.VerifSetThresholds(o, 4096, 512, math.Float32frombits(fragBits(0.01)))
	db, err := pogreb.Open(dir, o)
	if err != nil {
		return 0
	}
	defer db.Close()
	var mu sync.Mutex
	ref := map[string]string{}
	var bad []string
	fail := func(f string, a ...interface{}) {
		mu.Lock()
		if len(bad) < 4 {
			bad = append(bad, fmt.Sprintf(f, a...))
		}
		mu.Unlock()
	}
	nOld := 300 + r.intn(200)
	for round := 0; round < 2; round++ { // every key twice: the first copies are garbage
		for i := 0; i < nOld; i++ {
			k, v := fmt.Sprintf("old-%04d", i), fmt.Sprintf("v%d-%04d-%s", round, i, strings.Repeat("x", r.intn(20)))
			if db.Put([]byte(k), []byte(v)) == nil {
				ref[k] = v
			}
		}
	}
	var wg sync.WaitGroup
	guard := func(what string) {
		if rec := recover(); rec != nil {
			fail("%s: panic: %v", what, rec)
		}
	}
	wg.Add(1)
	go func() {
		defer wg.Done()
		defer guard("Compact")
		for i := 0; i < 3; i++ {
			if _, err := db.Compact(); err != nil {
				fail("Compact: %v", err)
			}
		}
	}()
	nw := 3 + r.intn(3)
	for g := 0; g < nw; g++ {
		wg.Add(1)
		per := 100 + r.intn(100)
		go func(g int) {
			defer wg.Done()
			defer guard("writer")
			for i := 0; i < per; i++ {
				k, v := fmt.Sprintf("new-%d-%04d", g, i), fmt.Sprintf("n%d-%d", g, i)
				if err := db.Put([]byte(k), []byte(v)); err != nil {
					fail("Put(%s): %v", k, err)
					return
				}
				mu.Lock()
				ref[k] = v
				mu.Unlock()
			}
		}(g)
	}
	wg.Wait()
	func() {
		defer guard("reads after the compaction")
		if int(db.Count()) != len(ref) {
			fail("Count() = %d, %d keys were put and none deleted", db.Count(), len(ref))
		}
		for k, v := range ref {
			got, err := db.Get([]byte(k))
			if err != nil || string(got) != v {
				fail("Get(%s) = %q, %v after Compact ran alongside Puts of new keys; last acknowledged Put(%s, %s)", k, clip(string(got)), err, k, v)
				break
			}
		}
	}()
	if len(bad) > 0 {
		res.Findings = append(res.Findings, &Finding{Kind: "spec", Case: name, Cmd: "Compact alongside writers that make the index grow",
			Impl: bad, Expected: []string{"every acknowledged key readable with its value; Count = number of keys; no panic"},
			Program: []string{fmt.Sprintf("put old-0000..old-%04d twice (4 KiB segments: the first copies are garbage)", nOld-1), "goroutine: Compact x 3", fmt.Sprintf("%d goroutines: Put of 100-200 new keys each", nw), "read everything back"}})
	}
	return len(ref)
}
