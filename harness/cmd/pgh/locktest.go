package main

import (
	"bytes"

	"fmt"
	"io"
	"os"
	"os/exec"
	"path/filepath"
	"strings"
	"time"
	"verifharness/interp"

	"github.com/akrylysov/pogreb/fs"
)

// C13: the lock-file protocol, real system calls. Each "process" is a goroutine that calls
// fs.OS.CreateLockFile / Unlock and is parked at the verif yield points between the system calls
// (flock conflicts between separate open file descriptions of one process behave like those
// between processes). A process is identified by the spelling of the lock path it uses
// ("dir/lock", "dir/./lock", ...), which is what the yield hook receives. The same schedules run
// on the extracted Coq model (Lock.v) and the observations are compared event by event.

type lproc struct {
	path    string
	at      string // yield point where it is parked, "" = idle / holder
	yield   chan string
	resume  chan bool
	done    chan struct{}
	lock    fs.LockFile
	holder  bool
	res     string
	running bool
	// specification oracle: the last attempt of the acquisition in progress created the lock file
	// itself (O_EXCL succeeded), and nobody else has moved since
	selfCreated bool
	alone       bool
	acquiring   bool
}

type lworld struct {
	dir   string
	procs [4]*lproc
	viol  string // first violation of the flag oracle
}

func spelled(dir string, p int) string {
	return dir + strings.Repeat("/.", p) + "/lock"
}

func newLWorld(dir string) *lworld {
	w := &lworld{dir: dir}
	for p := range w.procs {
		w.procs[p] = &lproc{path: spelled(dir, p), res: "none"}
	}
	fs.VerifYield = func(path, point string) {
		for _, q := range w.procs {
			if q.path == path && q.running {
				// the channels of THIS activation: a goroutine that is left parked for ever (process
				// death) must not pick up the channels of a later activation of the same process slot
				y, r := q.yield, q.resume
				y <- point
				if !<-r {
					// the process dies here: park for ever
					select {}
				}
				return
			}
		}
	}
	return w
}

// wait until the goroutine parks at a yield point or finishes its call
func (q *lproc) wait() {
	select {
	case pt := <-q.yield:
		q.at = pt
	case <-q.done:
		q.at = ""
		q.running = false
	case <-time.After(120 * time.Second):
		q.at = "STUCK"
	}
}

func (w *lworld) apply(tok string) {
	p := int(tok[1] - '0')
	q := w.procs[p]
	for _, o := range w.procs {
		if o != q {
			o.alone = false
		}
	}
	switch tok[0] {
	case 'A':
		if q.running || q.holder {
			return
		}
		q.acquiring, q.selfCreated, q.alone = true, false, false
		q.yield, q.resume, q.done = make(chan string), make(chan bool), make(chan struct{})
		q.running = true
		q.res = "none"
		go func() {
			l, existing, err := fs.OS.CreateLockFile(q.path, 0644)
			if err != nil {
				if err == os.ErrExist {
					q.res = "locked"
				} else {
					q.res = "error:" + err.Error()
				}
			} else {
				q.lock, q.holder = l, true
				if existing {
					q.res = "ok-existing"
				} else {
					q.res = "ok-fresh"
				}
			}
			close(q.done)
		}()
		q.wait()
	case 'S':
		if !q.running {
			return
		}
		prev := q.at
		q.resume <- true
		q.wait()
		if q.acquiring && prev == "lock.create" {
			// straight from the exclusive create to flock: this process created the file
			q.selfCreated, q.alone = q.at == "lock.flock", true
		}
		if q.acquiring && !q.running {
			q.acquiring = false
			if q.holder && q.selfCreated && q.alone && q.res != "ok-fresh" && w.viol == "" {
				w.viol = fmt.Sprintf("process %d created the lock file itself (exclusive create succeeded in its last attempt), nobody else moved until it held the lock, and it was told %q: an Open would run recovery on a directory nobody left unclean", p, q.res)
			}
		}
	case 'R':
		if !q.holder || q.running {
			return
		}
		q.yield, q.resume, q.done = make(chan string), make(chan bool), make(chan struct{})
		q.running = true
		q.holder = false
		l := q.lock
		go func() {
			if err := l.Unlock(); err != nil {
				q.res = "unlock-error:" + err.Error()
			}
			close(q.done)
		}()
		q.wait()
	case 'D':
		// process death: the kernel closes its descriptors; the path stays.
		if q.holder && !q.running {
			_ = q.lock.(io.Closer).Close()
			q.holder = false
			q.res = "none"
			return
		}
		if !q.running && !q.holder {
			q.res = "none" // a dead process has no result
			return
		}
		if q.running && (q.at == "lock.create" || q.at == "lock.open") {
			// no descriptor yet: the goroutine is simply never resumed
			q.running = false
			q.acquiring = false
			q.at = ""
			q.res = "none"
			go func(r chan bool) { r <- false }(q.resume)
		}
	}
}

func (w *lworld) show() string {
	var parts []string
	for p, q := range w.procs {
		st := "idle"
		if q.running {
			st = q.at
		} else if q.holder {
			st = "holder"
		}
		parts = append(parts, fmt.Sprintf("%d:%s:%s", p, st, q.res))
	}
	path := "nopath"
	if fi, err := os.Stat(filepath.Join(w.dir, "lock")); err == nil {
		if fi.Size() > 0 {
			path = "path-marked"
		} else {
			path = "path-empty"
		}
	}
	return strings.Join(parts, " ") + " " + path
}

func (w *lworld) holders() int {
	n := 0
	for _, q := range w.procs {
		if q.holder && !q.running {
			n++
		}
	}
	return n
}

// cleanup releases everything so that descriptors do not pile up
func (w *lworld) cleanup() {
	for _, q := range w.procs {
		if q.running {
			q.running = false
			go func(r chan bool) { r <- false }(q.resume)
		}
		if q.holder {
			_ = q.lock.(io.Closer).Close()
		}
	}
	fs.VerifYield = nil
}

// nextLockEvent chooses the next event of a random schedule from the state of the real world.
// Deaths in the middle of an acquisition that already holds a descriptor cannot be reproduced with
// goroutines (the descriptor is a local variable of createLockFile); they are covered by the
// theorems only.
func nextLockEvent(r *rng, w *lworld, n int) string {
	p := r.intn(n)
	q := w.procs[p]
	switch {
	case q.running:
		if (q.at == "lock.create" || q.at == "lock.open") && r.chance(5) {
			return fmt.Sprintf("D%d", p)
		}
		return fmt.Sprintf("S%d", p)
	case q.holder:
		if r.chance(25) {
			return fmt.Sprintf("D%d", p)
		}
		return fmt.Sprintf("R%d", p)
	default:
		if r.chance(3) {
			return fmt.Sprintf("D%d", p)
		}
		return fmt.Sprintf("A%d", p)
	}
}

func runLockModel(schedules [][]string) ([][]string, error) {
	var in bytes.Buffer
	for _, s := range schedules {
		fmt.Fprintln(&in, strings.Join(s, " "))
	}
	cmd := exec.Command(filepath.Join(filepath.Dir(modelBin), "lockrun"))
	cmd.Stdin = &in
	out, err := cmd.Output()
	if err != nil {
		return nil, err
	}
	var res [][]string
	for _, line := range strings.Split(string(out), "\n") {
		if strings.HasPrefix(line, "schedule ") {
			res = append(res, nil)
		} else if line != "" && len(res) > 0 {
			res[len(res)-1] = append(res[len(res)-1], line)
		}
	}
	return res, nil
}

// fixed schedules: the historical two-holder interleaving, the flag races, clean and unclean reopen
var lockCorpus = []string{
	"A0 S0 S0 S0 S0 A1 S1 S1 R0 S0 S0 S1 S1 S1 A2 S2 S2 S2 S2 S2",
	"A0 S0 S0 S0 S0 R0 S0 S0 A1 S1 S1 S1 S1",
	"A0 S0 S0 S0 S0 D0 A1 S1 S1 S1 S1 S1",
	"A2 S2 S2 S2 S2 R2 S2 S2 A0 A1 S0 S1 S1 S1 S1 S1 S0",
	"A0 A1 S0 S1 S1 S1 S1 S1 D1 S0 S0 S0 S0",
	"A0 S0 S0 S0 S0 A1 S1 S1 S1 A2 S2 S2 S2",
	// an opener meets the holder's file (create fails), the holder releases completely, the opener's
	// plain open finds nothing, it retries and creates the file itself: fresh
	"A0 S0 S0 S0 S0 A1 S1 R0 S0 S0 S1 S1 S1 S1 S1 S1",
	// ... or it had opened the holder's file before the release: flock succeeds after the release, the
	// verification fails (path gone), retry, own file: fresh
	"A0 S0 S0 S0 S0 A1 S1 S1 R0 S0 S0 S1 S1 S1 S1 S1 S1 S1",
}

// genC13db: the database level. A competing Open fails with "locked" and changes nothing; a
// directory whose last session did not complete Close is recovered by the next SUCCESSFUL Open --
// also when an Open in between acquired the stale lock and then failed (fault injected at its k-th
// file-system call); a cleanly closed one is opened without recovery.
func genC13db(r *rng, tier string, res *Result) {
	n := scale(tier, 25, 300)
	for i := 0; i < n; i++ {
		g := newG(r.fork(), fmt.Sprintf("C13/db/%d", i))
		g.dumpEvery = 0
		g.params([]int{700, 2048}[g.r.intn(2)], 512, 0.3, false)
		g.open()
		g.keys = g.randomKeys(10)
		for j := 0; j < 5+g.r.intn(30); j++ {
			g.randomOp()
		}
		// a competing Open
		before := strings.Join(g.im.FS.List(g.im.Dir), " ")
		g.do(fmt.Sprintf("open %d", g.r.intn(1000)), "open err locked")
		if after := strings.Join(g.im.FS.List(g.im.Dir), " "); after != before {
			g.do("echo failed-open-changed-the-directory", "echo ok")
		}
		g.checkAll()
		if i%2 == 0 {
			g.close()
			g.open()
			g.c.Steps[len(g.c.Steps)-1].Expect = []string{"open ok recovered=0"}
			g.checkAll()
			for j := 0; j < 5; j++ {
				g.put(g.pick(), g.value())
			}
		}
		if i%3 != 0 {
			// a Close that FAILS at its k-th file-system call did not complete: the lock file must
			// stay, and the next Open must recover (the index files may be half written)
			g.im.FS.FailCall = g.im.FS.Calls + g.r.intn(6) // (only file-system level calls are counted: the metadata files opened by Close, the lock removal)
			out := resultLine(normalise(g.im.Exec("close")))
			g.im.FS.FailCall = -1
			if strings.HasPrefix(out, "close err") {
				res.Tags["failed_closes_injected"]++
				if _, hasLock := g.im.FS.Image()[g.im.Dir+"/lock"]; !hasLock {
					res.Findings = append(res.Findings, &Finding{Kind: "spec", Case: g.c.Name, Cmd: "Close failing at one of its file-system calls",
						Impl: []string{out, "the lock file is gone although Close did not complete"}, Expected: []string{"the lock file stays: the next Open must recover"}, Program: cmdsOf(g.c)})
				}
				g.im.Exec("kill")
				g.isOpen = false
				g.open()
				g.c.Steps[len(g.c.Steps)-1].Expect = []string{"open ok recovered=1"}
				g.checkAll()
			} else if strings.HasPrefix(out, "close ok") {
				g.isOpen = false
				g.open()
				g.checkAll()
			}
		}
		// unclean end of the session; then Opens that fail at their k-th file-system call
		g.do("kill")
		g.isOpen = false
		tries := 0
		for k := 0; k < 60 && tries < scale(tier, 6, 25); k += 1 + g.r.intn(4) {
			img := g.im.FS.Image()
			g.im.FS.FailCall = g.im.FS.Calls + k
			out := resultLine(normalise(g.im.Exec(fmt.Sprintf("open %d", 7+k))))
			g.im.FS.FailCall = -1
			if strings.HasPrefix(out, "open ok") {
				// the fault was not reached: this Open succeeded; it must have recovered
				if !strings.Contains(out, "recovered=1") {
					res.Findings = append(res.Findings, &Finding{Kind: "spec", Case: g.c.Name, Cmd: "open after an unclean shutdown",
						Impl: []string{out}, Expected: []string{"open ok recovered=1"}, Program: cmdsOf(g.c)})
				}
				g.im.Exec("kill")
				_ = img
				break
			}
			tries++
			res.Tags["failed_opens_injected"]++
			// the process that failed to open goes away; whatever it did to the directory stays
			g.im.Exec("kill")
			got, errs := readAll(g.im.FS.Image(), g.im.Dir, paramsCmd(g))
			_, hadLock := g.im.FS.Image()[g.im.Dir+"/lock"]
			why := errs
			if why == "" {
				for key, v := range g.ref {
					if string(got[key]) != string(v) {
						why = "key " + interp.Hex([]byte(key)) + " lost or wrong"
						break
					}
				}
				if why == "" && len(got) != len(g.ref) {
					why = fmt.Sprintf("%d keys, expected %d", len(got), len(g.ref))
				}
			}
			if why != "" {
				res.Findings = append(res.Findings, &Finding{Kind: "spec", Case: g.c.Name,
					Cmd:      fmt.Sprintf("unclean shutdown; Open failing at its file-system call %d; next Open", k),
					Impl:     []string{why, fmt.Sprintf("lock file present after the failed Open: %v", hadLock)},
					Expected: []string{"the next successful Open recovers the acknowledged contents"}, Program: cmdsOf(g.c)})
				break
			}
		}
		c, impl := g.finish()
		res.addCase(c)
		if f := checkSpec(c, impl); f != nil {
			res.Findings = append(res.Findings, f)
		}
		res.Distinct++
	}
}

func genC13(r *rng, tier string, res *Result) {
	genC13db(r, tier, res)
	genC13real(r, tier, res)
	tmp, err := os.MkdirTemp("", "pgh-c13-")
	if err != nil {
		panic(err)
	}
	defer os.RemoveAll(tmp)
	n := scale(tier, 300, 6000)
	type run struct {
		sched  []string
		impl   []string
		multi  int // first event with more than one holder, or -1
		flag   string
		flagAt int
	}
	var runs []*run
	execute := func(idx int, fixed []string, length int) *run {
		dir := filepath.Join(tmp, fmt.Sprintf("d%d", idx))
		_ = os.MkdirAll(dir, 0755)
		w := newLWorld(dir)
		defer w.cleanup()
		rn := &run{multi: -1}
		nproc := 2 + r.intn(3)
		for j := 0; j < length; j++ {
			tok := ""
			if fixed != nil {
				tok = fixed[j]
			} else {
				tok = nextLockEvent(r, w, nproc)
			}
			w.apply(tok)
			rn.sched = append(rn.sched, tok)
			rn.impl = append(rn.impl, tok+" -> "+w.show())
			if w.holders() > 1 && rn.multi < 0 {
				rn.multi = j
			}
			if w.viol != "" && rn.flag == "" {
				rn.flag, rn.flagAt = w.viol, j
			}
		}
		return rn
	}
	for i, c := range lockCorpus {
		f := strings.Fields(c)
		runs = append(runs, execute(i, f, len(f)))
	}
	for i := 0; i < n; i++ {
		runs = append(runs, execute(len(lockCorpus)+i, nil, 8+r.intn(30)))
	}
	var schedules [][]string
	for _, rn := range runs {
		schedules = append(schedules, rn.sched)
	}
	model, err := runLockModel(schedules)
	if err != nil {
		res.Findings = append(res.Findings, &Finding{Kind: "model:lock", Case: "driver", Impl: []string{err.Error()}, Program: []string{}})
		return
	}
	distinct := map[string]bool{}
	for i, rn := range runs {
		sched := rn.sched
		if rn.multi >= 0 {
			res.Findings = append(res.Findings, &Finding{Kind: "spec", Case: fmt.Sprintf("C13/%d", i), Step: rn.multi, Cmd: sched[rn.multi],
				Impl:     []string{"more than one simultaneous holder of the lock", rn.impl[rn.multi]},
				Expected: []string{"at most one holder"}, Program: sched})
			continue
		}
		if rn.flag != "" {
			res.Findings = append(res.Findings, &Finding{Kind: "spec", Case: fmt.Sprintf("C13/%d", i), Step: rn.flagAt, Cmd: sched[rn.flagAt],
				Impl:     []string{rn.flag, rn.impl[rn.flagAt]},
				Expected: []string{"'fresh' for the process that created the lock file itself, undisturbed"}, Program: sched})
			continue
		}
		for j, line := range rn.impl {
			if j < len(model[i]) && model[i][j] != line {
				res.Findings = append(res.Findings, &Finding{Kind: "model:lock", Case: fmt.Sprintf("C13/%d", i), Step: j, Cmd: sched[j],
					Impl: []string{line}, Model: []string{model[i][j]}, Program: sched})
				break
			}
			if strings.Contains(line, ":ok-") {
				res.Tags["events_with_a_holder"]++
			}
			if strings.Contains(line, ":locked") {
				res.Tags["events_after_a_failed_attempt"]++
			}
			if strings.Contains(line, ":ok-existing") {
				res.Tags["events_with_existing_flag"]++
			}
		}
		res.Cases++
		res.Steps += len(sched)
		res.ModelCompared += len(sched)
		key := strings.Join(sched, " ")
		if !distinct[key] {
			distinct[key] = true
			res.Distinct++
		}
		if i < 3 {
			res.Samples = append(res.Samples, []byte(fmt.Sprintf("%q", key)))
		}
	}
}
