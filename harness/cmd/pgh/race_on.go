//go:build race

package main

const raceOn = true
