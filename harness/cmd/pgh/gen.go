package main

import (
	"fmt"
	"math"
	"math/bits"
	"sort"
	"strings"

	"github.com/akrylysov/pogreb"

	"verifharness/interp"
)

// G generates a case ONLINE: every command is executed on the implementation as soon as it is
// generated, so later choices (crash points, keys that collide under the seed in effect) can depend
// on what was observed. The finished command list is then replayed on the Coq model.
type G struct {
	everPut   map[string]map[string]bool // every value ever put, per key
	r         *rng
	im        *interp.Impl
	c         *Case
	impl      [][]string
	ref       map[string][]byte // the specification: a plain map
	isOpen    bool
	seed      uint32 // hash seed in effect
	keys      [][]byte
	maxSeg    int
	nextSeed  uint32
	dumpEvery int
	bigValues bool
	nmut      int
}

func newG(r *rng, name string) *G {
	return &G{r: r, im: interp.New(), c: &Case{Name: name}, ref: map[string][]byte{}, nextSeed: uint32(r.next()), dumpEvery: 1}
}

func (g *G) do(cmd string, expect ...string) []string {
	out := normalise(g.im.Exec(cmd))
	g.c.Steps = append(g.c.Steps, Step{Cmd: cmd, Expect: expect})
	g.impl = append(g.impl, out)
	return out
}

func (g *G) last() string { return resultLine(g.impl[len(g.impl)-1]) }

func fragBits(f float32) uint32 { return math.Float32bits(f) }

func (g *G) params(maxSeg, minSeg int, frag float32, sync bool) {
	g.maxSeg = maxSeg
	s := 0
	if sync {
		s = 1
	}
	g.do(fmt.Sprintf("params %d %d %d %d", maxSeg, minSeg, fragBits(frag), s))
}

func (g *G) randomParams() {
	maxSeg := []int{600, 700, 1024, 2048, 4096, 1 << 16}[g.r.intn(6)]
	minSeg := []int{512, 513, 600, 1024, 4096}[g.r.intn(5)]
	frag := []float32{0.0001, 0.05, 0.25, 0.5, 0.9}[g.r.intn(5)]
	g.params(maxSeg, minSeg, frag, g.r.chance(25))
}

func (g *G) itemsLine(m map[string][]byte) string {
	var l []string
	for k, v := range m {
		l = append(l, interp.Hex([]byte(k))+"="+interp.Hex(v))
	}
	sort.Strings(l)
	return fmt.Sprintf("items %d %s", len(l), strings.Join(l, " "))
}

func (g *G) open() {
	seed := g.nextSeed
	g.nextSeed = uint32(g.r.next())
	out := g.do(fmt.Sprintf("open %d", seed))
	if strings.HasPrefix(resultLine(out), "open ok") {
		g.isOpen = true
		g.seed = pogreb.VerifHashSeed(g.im.DB)
	}
}

func (g *G) close() {
	g.do("close", "close ok")
	g.isOpen = false
}

// hexArg: as interp.Hex, but a nil slice is passed on as nil (the API must treat it as empty)
func hexArg(b []byte) string {
	if b == nil {
		return "nil"
	}
	return interp.Hex(b)
}

func (g *G) put(k, v []byte) {
	if g.everPut == nil {
		g.everPut = map[string]map[string]bool{}
	}
	if g.everPut[string(k)] == nil {
		g.everPut[string(k)] = map[string]bool{}
	}
	g.everPut[string(k)][string(v)] = true
	g.do("put "+hexArg(k)+" "+hexArg(v), "put ok")
	g.ref[string(k)] = append([]byte{}, v...)
	g.afterMut()
}

// drainIter calls Next on a scan that is already in progress until it is done: every pair returned
// must be a key with a value that was put for that key at some time (the scan may have started
// before later writes, deletes and compactions).
func (g *G) drainIter(name string) {
	for n := 0; n < 5000; n++ {
		out := resultLine(g.do("iternext " + name))
		if out == "iternext done" {
			return
		}
		f := strings.Fields(out)
		ok := len(f) == 3 && f[0] == "iternext" && isHexField(f[1]) && isHexField(f[2])
		if ok {
			ok = g.everPut[string(interp.Unhex(f[1]))][string(interp.Unhex(f[2]))]
		}
		if !ok {
			g.c.Steps[len(g.c.Steps)-1].Expect = []string{"iternext <key> <a value that was put for that key>"}
			return
		}
	}
}

func (g *G) del(k []byte) {
	g.do("del "+interp.Hex(k), "del ok")
	delete(g.ref, string(k))
	g.afterMut()
}

func (g *G) afterMut() {
	g.nmut++
	if g.dumpEvery > 0 && g.nmut%g.dumpEvery == 0 {
		g.dump()
	}
}

// dump compares the whole state: segments, metadata, index as a key->pointer map, directory (dump),
// the physical bucket chains (dumpindex, chain model only) and evaluates the Coq invariant on the
// model's state (checkinv).
func (g *G) dump() {
	g.do("dump")
	g.do("dumpindex")
	g.do("dumpphys")
	g.do("checkinv", "checkinv ok")
}

func (g *G) get(k []byte) {
	if v, ok := g.ref[string(k)]; ok {
		g.do("get "+interp.Hex(k), "get val "+interp.Hex(v))
	} else {
		g.do("get "+interp.Hex(k), "get nil")
	}
}

func (g *G) getAppend(k, buf []byte) {
	if v, ok := g.ref[string(k)]; ok {
		g.do("getappend "+interp.Hex(k)+" "+interp.Hex(buf), "getappend val "+interp.Hex(append(append([]byte{}, buf...), v...)))
	} else {
		g.do("getappend "+interp.Hex(k)+" "+interp.Hex(buf), "getappend nil")
	}
}

func (g *G) has(k []byte) {
	_, ok := g.ref[string(k)]
	g.do("has "+interp.Hex(k), fmt.Sprintf("has %d", b2i(ok)))
}

func b2i(b bool) int {
	if b {
		return 1
	}
	return 0
}

func (g *G) count() { g.do("count", fmt.Sprintf("count %d", len(g.ref))) }
func (g *G) items() { g.do("items", g.itemsLine(g.ref)) }
func (g *G) sync()  { g.do("sync", "sync ok") }

func (g *G) compact() {
	out := g.do("compact")
	if !strings.HasPrefix(resultLine(out), "compact ok") {
		g.c.Steps[len(g.c.Steps)-1].Expect = []string{"compact ok ..."}
	} else if !strings.HasPrefix(resultLine(out), "compact ok 0 ") {
		g.c.tag("compactions")
	}
	g.afterMut()
}

func (g *G) checkAll() {
	g.count()
	g.items()
}

// ---- key universes ----

func (g *G) hash(k []byte) uint32 { return pogreb.VerifHash(k, g.seed) }

// collidingKeys returns n keys whose hashes under the seed in effect agree in the low `bits` bits.
func (g *G) collidingKeys(n, bits int, prefix string) [][]byte {
	mask := uint32(1)<<uint(bits) - 1
	if bits >= 32 {
		mask = math.MaxUint32
	}
	target := uint32(g.r.next()) & mask
	var out [][]byte
	for i := 0; len(out) < n && i < 40_000_000; i++ {
		k := []byte(fmt.Sprintf("%s%d", prefix, i))
		if g.hash(k)&mask == target {
			out = append(out, k)
		}
	}
	return out
}

// collidingKeysAt: n keys whose hashes have the given low bits.
func (g *G) collidingKeysAt(n, bits int, target uint32, prefix string) [][]byte {
	mask := uint32(1)<<uint(bits) - 1
	target &= mask
	var out [][]byte
	for i := 0; len(out) < n && i < 40_000_000; i++ {
		k := []byte(fmt.Sprintf("%s%d", prefix, i))
		if g.hash(k)&mask == target {
			out = append(out, k)
		}
	}
	return out
}

// fullCollisions returns groups of keys with identical 32-bit hashes (birthday search).
func (g *G) fullCollisions(groups int, prefix string) [][]byte {
	seen := map[uint32][]byte{}
	var out [][]byte
	for i := 0; len(out) < 2*groups && i < 3_000_000; i++ {
		k := []byte(fmt.Sprintf("%s%d", prefix, i))
		h := g.hash(k)
		if o, ok := seen[h]; ok {
			out = append(out, o, k)
			delete(seen, h)
		} else {
			seen[h] = k
		}
	}
	return out
}

func (g *G) randomKeys(n int) [][]byte {
	var out [][]byte
	for i := 0; i < n; i++ {
		l := g.r.intn(12)
		if g.r.chance(5) {
			l = 200 + g.r.intn(200)
		}
		out = append(out, g.r.bytes(l))
	}
	return out
}

func (g *G) value() []byte {
	if g.bigValues && g.r.chance(60) {
		return g.r.bytes(300 + g.r.intn(900))
	}
	switch g.r.intn(10) {
	case 0:
		if g.r.chance(50) {
			return nil // a nil slice: the same as an empty value for the API
		}
		return []byte{}
	case 1:
		return g.r.bytes(400 + g.r.intn(200))
	default:
		return g.r.bytes(g.r.intn(24))
	}
}

func (g *G) pick() []byte { return g.keys[g.r.intn(len(g.keys))] }

// pickLive returns a key that is present if there is one.
func (g *G) pickLive() []byte {
	if len(g.ref) == 0 {
		return g.pick()
	}
	var ks []string
	for k := range g.ref {
		ks = append(ks, k)
	}
	sort.Strings(ks)
	return []byte(ks[g.r.intn(len(ks))])
}

// randomOp issues one operation of a map workload.
func (g *G) randomOp() {
	switch x := g.r.intn(100); {
	case x < 40:
		g.put(g.pick(), g.value())
	case x < 60:
		g.del(g.pickLive())
	case x < 65:
		g.del(g.pick())
	case x < 75:
		g.get(g.pick())
	case x < 78:
		g.getAppend(g.pick(), g.r.bytes(g.r.intn(4)))
	case x < 83:
		g.has(g.pick())
	case x < 87:
		g.count()
	case x < 90:
		g.items()
	case x < 93:
		g.sync()
	default:
		g.compact()
	}
}

// indexShape records coverage of the index layout reached.
func (g *G) indexShape() {
	if g.im.DB == nil {
		return
	}
	idx, err := pogreb.VerifIndexDump(g.im.DB)
	if err != nil {
		return
	}
	maxChain := 0
	holes := 0
	for _, ch := range idx.Chains {
		if len(ch) > maxChain {
			maxChain = len(ch)
		}
		for i, b := range ch {
			if i < len(ch)-1 && len(b.Slots) < 31 {
				holes++
			}
		}
	}
	if maxChain >= 2 {
		g.c.tag("state_with_overflow_chain")
	}
	if maxChain >= 3 {
		g.c.tag("state_with_chain_len>=3")
	}
	if holes > 0 {
		g.c.tag("state_with_hole_in_chain")
	}
	if idx.Split > 0 {
		g.c.tag("state_with_midlevel_split")
	}
	if idx.NumBuckets > 1 {
		g.c.tag("state_with_splits")
	}
	if len(idx.Free) > 0 {
		g.c.tag("state_with_free_overflow_buckets")
	}
	if n := len(pogreb.VerifSegments(g.im.DB)); n >= 2 {
		g.c.tag("state_with_>=2_segments")
	}
}

// finish returns the case and the implementation's outputs.
func (g *G) finish() (*Case, [][]string) {
	g.indexShape()
	return g.c, g.impl
}

// fixHash overwrites the last 4 bytes of key (len(key) a multiple of 4, at least 4) so that the
// database's hash function (32-bit murmur3 with the seed in effect) maps it to target: the last block
// of murmur3 and its finalisation are bijections of the 32-bit state.
func fixHash(key []byte, seed uint32, target uint32) {
	inv := func(a uint32) uint32 { // inverse of an odd number modulo 2^32
		x := a
		for i := 0; i < 5; i++ {
			x *= 2 - a*x
		}
		return x
	}
	unfmix := func(h uint32) uint32 {
		h ^= h >> 16
		h *= inv(0xc2b2ae35)
		h ^= h>>13 ^ h>>26
		h *= inv(0x85ebca6b)
		h ^= h >> 16
		return h
	}
	const c1, c2 = 0xcc9e2d51, 0x1b873593
	n := len(key)
	if n < 4 || n%4 != 0 {
		return
	}
	prefix := key[:n-4]
	before := unfmix(pogreb.VerifHash(prefix, seed)) ^ uint32(len(prefix))
	after := unfmix(target) ^ uint32(n)
	k := bits.RotateLeft32((after-0xe6546b64)*inv(5), -13) ^ before
	block := bits.RotateLeft32(k*inv(c2), -15) * inv(c1)
	key[n-4], key[n-3], key[n-2], key[n-1] = byte(block), byte(block>>8), byte(block>>16), byte(block>>24)
}
