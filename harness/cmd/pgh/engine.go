package main

import (
	"bytes"
	"encoding/json"
	"fmt"
	"os"
	"os/exec"
	"sort"
	"strings"

	"verifharness/interp"
)

// Step is one command of a case. Expect, when non-nil, lists the acceptable result lines according
// to the specification oracle (a plain map / the crash contract); the implementation is compared with
// it directly, independently of the Coq model.
type Step struct {
	Cmd    string
	Expect []string
}

// Case is a generated program.
type Case struct {
	Name  string
	Steps []Step
	Tags  map[string]int // coverage counters (chain spills, splits, rollovers, ...)
}

func (c *Case) add(cmd string, expect ...string) {
	c.Steps = append(c.Steps, Step{Cmd: cmd, Expect: expect})
}

func (c *Case) tag(t string) {
	if c.Tags == nil {
		c.Tags = map[string]int{}
	}
	c.Tags[t]++
}

// rng is splitmix64: every random choice of a run derives from VERIF_SEED through it.
type rng struct{ s uint64 }

func (r *rng) next() uint64 {
	r.s += 0x9e3779b97f4a7c15
	z := r.s
	z = (z ^ (z >> 30)) * 0xbf58476d1ce4e5b9
	z = (z ^ (z >> 27)) * 0x94d049bb133111eb
	return z ^ (z >> 31)
}
func (r *rng) intn(n int) int {
	if n <= 0 {
		return 0
	}
	return int(r.next() % uint64(n))
}
func (r *rng) chance(pct int) bool { return r.intn(100) < pct }
func (r *rng) bytes(n int) []byte {
	b := make([]byte, n)
	for i := range b {
		b[i] = byte(r.next())
	}
	return b
}
func (r *rng) fork() *rng { return &rng{r.next()} }

// normalise sorts maximal runs of consecutive rename events and of consecutive remove events:
// they come from ReadDir-driven loops whose order is the directory order.
func normalise(lines []string) []string {
	out := make([]string, 0, len(lines))
	i := 0
	for i < len(lines) {
		kind := ""
		if strings.HasPrefix(lines[i], "ev rename ") {
			kind = "ev rename "
		} else if strings.HasPrefix(lines[i], "ev remove ") {
			kind = "ev remove "
		}
		if kind == "" {
			out = append(out, lines[i])
			i++
			continue
		}
		j := i
		for j < len(lines) && strings.HasPrefix(lines[j], kind) {
			j++
		}
		run := append([]string(nil), lines[i:j]...)
		sort.Strings(run)
		out = append(out, run...)
		i = j
	}
	return out
}

// runImpl executes a case on the implementation; result[i] = output lines of step i.
func runImpl(c *Case) [][]string {
	im := interp.New()
	res := make([][]string, len(c.Steps))
	for i, s := range c.Steps {
		res[i] = normalise(im.Exec(s.Cmd))
	}
	return res
}

var modelBin = "/verif/build/ocaml/modelrun"

// runModel executes cases on the extracted Coq model (one process for all cases).
func runModel(cases []*Case, modelIndex string) ([][][]string, error) {
	var in bytes.Buffer
	for ci, c := range cases {
		fmt.Fprintf(&in, "reset\n")
		for si, s := range c.Steps {
			fmt.Fprintf(&in, "echo @%d.%d\n%s\n", ci, si, s.Cmd)
		}
	}
	fmt.Fprintf(&in, "echo @end\n")
	// the extracted list functions are not tail-recursive: 128 KiB keys need a deep stack
	cmd := exec.Command("sh", "-c", "ulimit -s unlimited 2>/dev/null || ulimit -s 4000000 2>/dev/null; exec \"$0\" \"$1\"", modelBin, modelIndex)
	cmd.Stdin = &in
	var stderr bytes.Buffer
	cmd.Stderr = &stderr
	outb, err := cmd.Output()
	if err != nil {
		return nil, fmt.Errorf("model driver failed: %v: %s", err, stderr.String())
	}
	res := make([][][]string, len(cases))
	for i, c := range cases {
		res[i] = make([][]string, len(c.Steps))
	}
	ci, si := -1, -1
	for _, line := range strings.Split(string(outb), "\n") {
		if line == "" {
			continue
		}
		if strings.HasPrefix(line, "echo @") {
			tag := line[6:]
			if tag == "end" {
				break
			}
			fmt.Sscanf(tag, "%d.%d", &ci, &si)
			continue
		}
		if line == "reset ok" {
			continue
		}
		if ci >= 0 {
			res[ci][si] = append(res[ci][si], line)
		}
	}
	for i := range res {
		for j := range res[i] {
			res[i][j] = normalise(res[i][j])
		}
	}
	return res, nil
}

func eqLines(a, b []string) bool {
	if len(a) != len(b) {
		return false
	}
	for i := range a {
		if a[i] != b[i] {
			return false
		}
	}
	return true
}

func resultLine(lines []string) string {
	for i := len(lines) - 1; i >= 0; i-- {
		if !strings.HasPrefix(lines[i], "ev ") {
			return lines[i]
		}
	}
	return ""
}

// Finding describes one disagreement.
type Finding struct {
	Kind     string   `json:"kind"` // "spec" (implementation contradicts the specification oracle) or "model" (implementation and Coq model differ)
	Case     string   `json:"case"`
	Step     int      `json:"step"`
	Cmd      string   `json:"cmd"`
	Impl     []string `json:"impl"`
	Model    []string `json:"model,omitempty"`
	Expected []string `json:"expected,omitempty"`
	Program  []string `json:"program"` // the (shrunk) command list, replayable with `pgh run`
}

func cmdsOf(c *Case) []string {
	out := make([]string, len(c.Steps))
	for i, s := range c.Steps {
		out[i] = s.Cmd
	}
	return out
}

// checkSpec compares the implementation with the oracle.
func checkSpec(c *Case, impl [][]string) *Finding {
	for i, s := range c.Steps {
		if s.Expect == nil {
			continue
		}
		got := resultLine(impl[i])
		ok := false
		for _, e := range s.Expect {
			if e == got {
				ok = true
			}
		}
		if !ok {
			return &Finding{Kind: "spec", Case: c.Name, Step: i, Cmd: clip(s.Cmd), Impl: clipAll(impl[i]), Expected: clipAll(s.Expect), Program: cmdsOf(c)}
		}
	}
	for i := range c.Steps {
		for _, l := range impl[i] {
			if strings.Contains(l, "PANIC") {
				return &Finding{Kind: "spec", Case: c.Name, Step: i, Cmd: clip(c.Steps[i].Cmd), Impl: clipAll(impl[i]), Expected: []string{"no panic"}, Program: cmdsOf(c)}
			}
		}
	}
	return nil
}

func clip(s string) string {
	if len(s) > 300 {
		return s[:300] + fmt.Sprintf("...(%d bytes)", len(s))
	}
	return s
}
func clipAll(l []string) []string {
	out := make([]string, len(l))
	for i, s := range l {
		out[i] = clip(s)
	}
	if len(out) > 40 {
		out = append(out[:40], "...")
	}
	return out
}

// checkModel compares implementation and model step by step.
func checkModel(c *Case, impl, model [][]string, index string) *Finding {
	for i := range c.Steps {
		if index == "flat" && (c.Steps[i].Cmd == "dumpindex" || strings.HasPrefix(c.Steps[i].Cmd, "iternext ")) {
			continue // the bucket layout is not a notion of the flat reference index
		}
		if index != "phys" && c.Steps[i].Cmd == "dumpphys" {
			continue // file offsets, free list and index file bytes: the physical index model only
		}
		if !eqLines(impl[i], model[i]) {
			return &Finding{Kind: "model:" + index, Case: c.Name, Step: i, Cmd: clip(c.Steps[i].Cmd), Impl: clipAll(impl[i]), Model: clipAll(model[i]), Program: cmdsOf(c)}
		}
	}
	return nil
}

// shrink removes commands while the same kind of finding persists (delta debugging, one command
// at a time from the end, then from the start). Oracle expectations are dropped for shrunk
// programs unless the generator supplied a re-deriver, so spec findings are shrunk by re-checking
// impl against model only when kind == "model".
func shrinkModelFinding(c *Case, f *Finding, index string) *Finding {
	cur := c
	best := f
	budget := 300
	try := func(steps []Step) bool {
		if budget <= 0 {
			return false
		}
		budget--
		cand := &Case{Name: c.Name + "/shrunk", Steps: steps}
		impl := runImpl(cand)
		model, err := runModel([]*Case{cand}, index)
		if err != nil {
			return false
		}
		if nf := checkModel(cand, impl, model[0], index); nf != nil {
			cur, best = cand, nf
			return true
		}
		return false
	}
	// Cut everything after the failing step.
	if f.Step+1 < len(cur.Steps) {
		try(append([]Step(nil), cur.Steps[:f.Step+1]...))
	}
	for chunk := len(cur.Steps) / 2; chunk >= 1; chunk /= 2 {
		for i := 0; i+chunk <= len(cur.Steps)-1; {
			steps := append(append([]Step(nil), cur.Steps[:i]...), cur.Steps[i+chunk:]...)
			if !try(steps) {
				i += chunk
			}
		}
	}
	return best
}

// Result is what a property check writes for the python driver.
type Result struct {
	Property      string            `json:"property"`
	Seed          uint64            `json:"seed"`
	Tier          string            `json:"tier"`
	Cases         int               `json:"cases"`
	Steps         int               `json:"steps"`
	Distinct      int               `json:"distinct_nontrivial"`
	Rule          string            `json:"rule"`
	Tags          map[string]int    `json:"tags"`
	Samples       []json.RawMessage `json:"samples"`
	Findings      []*Finding        `json:"findings"`
	ModelCompared int               `json:"model_compared_steps"`
	SpecChecked   int               `json:"spec_checked_steps"`
	Notes         []string          `json:"notes,omitempty"`
}

func (r *Result) addCase(c *Case) {
	r.Cases++
	r.Steps += len(c.Steps)
	for k, v := range c.Tags {
		if r.Tags == nil {
			r.Tags = map[string]int{}
		}
		r.Tags[k] += v
	}
}

func (r *Result) sample(c *Case, max int) {
	cmds := cmdsOf(c)
	if len(cmds) > max {
		cmds = append(cmds[:max], fmt.Sprintf("... (%d more commands)", len(cmds)-max))
	}
	for i := range cmds {
		cmds[i] = clip(cmds[i])
	}
	b, _ := json.Marshal(map[string]interface{}{"case": c.Name, "commands": cmds})
	r.Samples = append(r.Samples, b)
}

// runCases runs all cases on both sides and records findings.
func runCases(r *Result, cases []*Case, impls [][][]string, withModel bool) {
	models := map[string][][][]string{}
	if withModel {
		// the model driver is run in parallel on chunks of the cases, for both index instantiations
		// heavy cases tend to be neighbours in the list (directed generators come first): deal the
		// cases out round-robin so that every driver process gets its share of them
		type job struct {
			index string
			idx   []int
			res   [][][]string
			err   error
		}
		var jobs []*job
		nchunks := 12
		if len(cases) < nchunks {
			nchunks = len(cases)
		}
		for _, index := range []string{"flat", "chain", "phys"} {
			for k := 0; k < nchunks; k++ {
				j := &job{index: index}
				for i := k; i < len(cases); i += nchunks {
					j.idx = append(j.idx, i)
				}
				jobs = append(jobs, j)
			}
		}
		done := make(chan *job)
		for _, j := range jobs {
			go func(j *job) {
				sub := make([]*Case, len(j.idx))
				for n, i := range j.idx {
					sub[n] = cases[i]
				}
				j.res, j.err = runModel(sub, j.index)
				done <- j
			}(j)
		}
		for range jobs {
			j := <-done
			if j.err != nil {
				r.Findings = append(r.Findings, &Finding{Kind: "model:" + j.index, Case: "driver", Impl: []string{j.err.Error()}, Program: []string{}})
				withModel = false
				continue
			}
			if models[j.index] == nil {
				models[j.index] = make([][][]string, len(cases))
			}
			for n, i := range j.idx {
				models[j.index][i] = j.res[n]
			}
		}
	}
	seen := map[string]bool{}
	for i, c := range cases {
		r.addCase(c)
		key := strings.Join(cmdsOf(c), "\n")
		if !seen[key] && len(c.Steps) > 3 {
			seen[key] = true
			r.Distinct++
		}
		for _, s := range c.Steps {
			if s.Expect != nil {
				r.SpecChecked++
			}
		}
		if f := checkSpec(c, impls[i]); f != nil {
			r.Findings = append(r.Findings, f)
			continue
		}
		if withModel {
			r.ModelCompared += len(c.Steps)
			for _, index := range []string{"flat", "chain", "phys"} {
				if f := checkModel(c, impls[i], models[index][i], index); f != nil {
					r.Findings = append(r.Findings, shrinkModelFinding(c, f, index))
					break
				}
			}
		}
	}
}

func writeResult(r *Result, path string) {
	b, _ := json.MarshalIndent(r, "", " ")
	if path == "" || path == "-" {
		os.Stdout.Write(b)
		return
	}
	_ = os.WriteFile(path, b, 0644)
}
