package main

import (
	"fmt"
	"os"
	"path/filepath"
	"strings"
	"syscall"

	"github.com/akrylysov/pogreb"
	"github.com/akrylysov/pogreb/fs"
)

// genC13real: the property at the level of the public API on the real operating-system file systems
// (fs.OS, fs.OSMMap), one directory, random histories of
//
//	open     Open by a new opener (must succeed iff no handle is open; otherwise fail, change nothing)
//	close    Close of the open handle
//	reclose  Close called AGAIN on a handle that was closed earlier (a deferred Close plus an explicit
//	         one, a signal handler plus main): whatever it returns, it must not disturb the current
//	         owner's lock
//
// with the invariant checked after every call: the lock file exists iff a handle is open, and while a
// handle is open it is the SAME file (device, inode) that handle acquired.
func genC13real(r *rng, tier string, res *Result) {
	n := scale(tier, 12, 200)
	for i := 0; i < n; i++ {
		fsys, fname := fs.OS, "os"
		if i%2 == 1 {
			fsys, fname = fs.OSMMap, "osmmap"
		}
		tmp, err := os.MkdirTemp("", "pgh-c13r-")
		if err != nil {
			panic(err)
		}
		dir := filepath.Join(tmp, "db")
		lockPath := filepath.Join(dir, "lock")
		var live *pogreb.DB
		var liveIno uint64
		var stale []*pogreb.DB
		var prog []string
		inode := func() (uint64, bool) {
			st, err := os.Stat(lockPath)
			if err != nil {
				return 0, false
			}
			return st.Sys().(*syscall.Stat_t).Ino, true
		}
		fail := func(cmd, got, want string) {
			res.Findings = append(res.Findings, &Finding{Kind: "spec", Case: fmt.Sprintf("C13/real/%s/%d", fname, i),
				Step: len(prog) - 1, Cmd: cmd, Impl: []string{got}, Expected: []string{want}, Program: append([]string{}, prog...)})
		}
		steps := 6 + r.intn(14)
		bad := false
		for j := 0; j < steps && !bad; j++ {
			var cmd string
			switch x := r.intn(10); {
			case x < 4:
				cmd = "open"
			case x < 7:
				cmd = "close"
			default:
				cmd = "reclose"
			}
			if j == 0 {
				cmd = "open"
			}
			if cmd == "close" && live == nil || cmd == "reclose" && len(stale) == 0 {
				cmd = "open"
			}
			prog = append(prog, cmd)
			switch cmd {
			case "open":
				db, err := pogreb.Open(dir, &pogreb.Options{FileSystem: fsys})
				if live == nil {
					if err != nil {
						fail(cmd, "Open failed: "+err.Error(), "Open succeeds: no handle is open")
						bad = true
						break
					}
					live = db
					liveIno, _ = inode()
					if err := db.Put([]byte(fmt.Sprintf("k%d", j)), []byte("v")); err != nil {
						fail(cmd, "Put failed: "+err.Error(), "the new handle works")
						bad = true
					}
				} else {
					if err == nil {
						fail(cmd, "a second Open succeeded while a handle is open: two simultaneous holders", "Open fails with a 'locked' error")
						_ = db.Close()
						bad = true
					} else if !strings.Contains(err.Error(), "lock") {
						fail(cmd, "competing Open failed with: "+err.Error(), "a 'locked' error")
						bad = true
					}
				}
			case "close":
				if err := live.Close(); err != nil {
					fail(cmd, "Close failed: "+err.Error(), "Close succeeds")
					bad = true
				}
				stale = append(stale, live)
				live = nil
			case "reclose":
				h := stale[r.intn(len(stale))]
				func() {
					defer func() { _ = recover() }()
					_ = h.Close()
				}()
				res.Tags["close_on_a_closed_handle"]++
			}
			if bad {
				break
			}
			ino, ok := inode()
			switch {
			case live != nil && !ok:
				fail(cmd, "the lock file of the open handle is gone", "the lock file exists while a handle is open")
				bad = true
			case live != nil && ino != liveIno:
				fail(cmd, fmt.Sprintf("the lock path names another file (inode %d, acquired %d)", ino, liveIno), "the lock file is the one the open handle acquired")
				bad = true
			case live == nil && ok:
				fail(cmd, "a lock file exists although every handle completed Close", "no lock file after a completed Close")
				bad = true
			}
			res.Steps++
			res.SpecChecked++
		}
		if live != nil {
			_ = live.Close()
		}
		_ = os.RemoveAll(tmp)
		res.Cases++
		res.Distinct++
		res.Tags["real_fs_histories_"+fname]++
	}
}
