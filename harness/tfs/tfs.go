// Package tfs is an in-memory fs.FileSystem for the verification harness. It records every call
// that changes the file system as an event, can rebuild the state after any prefix of the events
// (process-crash images, with sector-aligned tearing of the last write) and can build power-loss
// images (per file: content as of its last Sync plus a prefix of the later writes/truncations;
// directory operations are durable and ordered).
package tfs

import (
	"io"
	"sync/atomic"
	"os"
	"path/filepath"
	"sort"
	"strings"
	"sync"
	"time"

	"github.com/akrylysov/pogreb/fs"
)

// Kind of an event.
type Kind int

const (
	Create Kind = iota
	Write
	Truncate
	Rename
	Remove
	Sync
)

func (k Kind) String() string {
	return [...]string{"create", "write", "trunc", "rename", "remove", "sync"}[k]
}

// Event is one state-changing file system call.
type Event struct {
	Kind Kind
	Name string // path at the time of the call
	To   string // Rename target
	Off  int64  // Write offset
	Size int64  // Truncate size
	Data []byte // Write payload
	Node int    // node (inode) the call applied to
}

type node struct {
	id   int
	data []byte
}

// FS is the file system.
type FS struct {
	mu      sync.Mutex
	names   map[string]*node
	nextID  int
	base    map[string][]byte // state at creation (for replays)
	events  []Event
	locks   map[*node]bool // flock holders (lock files of live handles)
	handles int            // open file handles
	// FailAfter, when >= 0, makes every state-changing call fail once that many events were recorded.
	FailAfter int
	// FailCall, when >= 0, makes the FailCall-th call of any kind (counted from 0; reads, directory
	// listings and stats included) return an error once; Calls counts them.
	FailCall int
	Calls    int
	// SyncDelay makes every Sync take this long (outside the file system's own lock), as an fsync
	// on a real device does: windows that exist only while a flush is in progress become reachable.
	SyncDelay time.Duration
	syncCount int64
	// FailWriteCall, when >= 0, makes the FailWriteCall-th data call on an open file (WriteAt / Write /
	// Sync / Truncate, counted from 0 in WriteCalls) fail once.
	FailWriteCall int
	WriteCalls    int
	// ReadDelay makes every sequential Read take this long (a slow device: recovery of a large
	// database lasts a while).
	ReadDelay time.Duration
}

// New returns an empty file system.
func New() *FS { return FromImage(nil) }

// FromImage returns a file system holding the given files.
func FromImage(img map[string][]byte) *FS {
	t := &FS{names: map[string]*node{}, base: map[string][]byte{}, locks: map[*node]bool{}, FailAfter: -1, FailCall: -1, FailWriteCall: -1}
	for name, data := range img {
		t.names[name] = &node{id: t.nextID, data: append([]byte(nil), data...)}
		t.nextID++
		t.base[name] = append([]byte(nil), data...)
	}
	return t
}

// Image returns a copy of the current content.
func (t *FS) Image() map[string][]byte {
	t.mu.Lock()
	defer t.mu.Unlock()
	img := map[string][]byte{}
	for name, n := range t.names {
		img[name] = append([]byte(nil), n.data...)
	}
	return img
}

// Base returns the content the file system was created with.
func (t *FS) Base() map[string][]byte { return copyImage(t.base) }

func copyImage(m map[string][]byte) map[string][]byte {
	img := map[string][]byte{}
	for k, v := range m {
		img[k] = append([]byte(nil), v...)
	}
	return img
}

// NumEvents returns the number of events recorded so far.
func (t *FS) NumEvents() int {
	t.mu.Lock()
	defer t.mu.Unlock()
	return len(t.events)
}

// Events returns the events [from, to).
func (t *FS) Events(from, to int) []Event {
	t.mu.Lock()
	defer t.mu.Unlock()
	return append([]Event(nil), t.events[from:to]...)
}

// OpenHandles returns the number of file handles that were opened and not closed.
func (t *FS) OpenHandles() int {
	t.mu.Lock()
	defer t.mu.Unlock()
	return t.handles
}

func (t *FS) record(e Event) { t.events = append(t.events, e) }

func (t *FS) failing() bool {
	n := t.WriteCalls
	t.WriteCalls++
	if t.FailWriteCall >= 0 && n == t.FailWriteCall {
		return true
	}
	return t.FailAfter >= 0 && len(t.events) >= t.FailAfter
}

// tick counts a call and reports whether it is the one to fail.
func (t *FS) tick() bool {
	n := t.Calls
	t.Calls++
	return t.FailCall >= 0 && n == t.FailCall
}

var errInjected = &os.PathError{Op: "tfs", Path: "", Err: os.ErrPermission}

// ---- replay ----

// Apply applies one event (optionally only the first cut bytes of a write) to an image.
// Images are name -> content; node identity is tracked by the caller through the names.
type replayState struct {
	names map[string]*rnode
}
type rnode struct{ data []byte }

func applyData(data []byte, e Event, cut int) []byte {
	switch e.Kind {
	case Write:
		p := e.Data
		if cut >= 0 && cut < len(p) {
			p = p[:cut]
		}
		end := e.Off + int64(len(p))
		if len(p) == 0 {
			return data
		}
		if int64(len(data)) < end {
			data = append(data, make([]byte, end-int64(len(data)))...)
		}
		copy(data[e.Off:end], p)
	case Truncate:
		if int64(len(data)) > e.Size {
			data = data[:e.Size]
		} else {
			data = append(data, make([]byte, e.Size-int64(len(data)))...)
		}
	}
	return data
}

// CrashImage returns the state after the events [0, n) applied to base, plus the first cut bytes of
// event n when cut > 0 (event n must be a Write).
func CrashImage(base map[string][]byte, events []Event, n int, cut int) map[string][]byte {
	byName := map[string]*rnode{}
	byNode := map[int]*rnode{}
	for name, data := range base {
		byName[name] = &rnode{append([]byte(nil), data...)}
	}
	apply := func(e Event, cut int) {
		switch e.Kind {
		case Create:
			r := &rnode{}
			byName[e.Name] = r
			byNode[e.Node] = r
		case Write, Truncate:
			r := byNode[e.Node]
			if r == nil {
				r = byName[e.Name]
				byNode[e.Node] = r
			}
			if r != nil {
				r.data = applyData(r.data, e, cut)
			}
		case Rename:
			if r, ok := byName[e.Name]; ok {
				delete(byName, e.Name)
				byName[e.To] = r
				byNode[e.Node] = r
			}
		case Remove:
			if r, ok := byName[e.Name]; ok {
				byNode[e.Node] = r
			}
			delete(byName, e.Name)
		}
	}
	for i := 0; i < n && i < len(events); i++ {
		apply(events[i], -1)
	}
	if cut > 0 && n < len(events) && events[n].Kind == Write {
		apply(events[n], cut)
	}
	img := map[string][]byte{}
	for name, r := range byName {
		img[name] = append([]byte(nil), r.data...)
	}
	return img
}

// CrashKeepPending returns the file system a process crash leaves behind after the events [0, n)
// (plus the first cut bytes of event n when cut > 0): the visible content is what CrashImage gives,
// but writes and truncations that were not covered by a Sync stay pending (they sit in the page
// cache), so that a later power failure can still lose them.
func CrashKeepPending(base map[string][]byte, events []Event, n int, cut int) *FS {
	evs := append([]Event(nil), events[:min(n, len(events))]...)
	if cut > 0 && n < len(events) && events[n].Kind == Write {
		e := events[n]
		e.Data = append([]byte(nil), e.Data[:min(cut, len(e.Data))]...)
		evs = append(evs, e)
	}
	d := DurabilityAt(base, evs, len(evs))
	t := FromImage(d.Image(nil, nil))
	byID := map[int]string{}
	for name, id := range d.Names {
		byID[id] = name
	}
	// replay the pending operations in their original global order
	var pend []PendingOp
	for _, ps := range d.Pending {
		pend = append(pend, ps...)
	}
	sort.Slice(pend, func(i, j int) bool { return pend[i].Index < pend[j].Index })
	nodeOf := map[int]int{}
	for id := range d.Pending {
		nodeOf[id] = id
	}
	for _, p := range pend {
		// find the durability node the event belongs to
		owner := -1
		for id, ps := range d.Pending {
			for _, q := range ps {
				if q.Index == p.Index {
					owner = id
				}
			}
		}
		name, ok := byID[owner]
		if !ok {
			continue // the file was removed: its pending data is unreachable
		}
		nd := t.names[name]
		if nd == nil {
			continue
		}
		e := p.Event
		e.Name = name
		e.Node = nd.id
		nd.data = applyData(nd.data, e, -1)
		t.events = append(t.events, e)
	}
	return t
}

func min(a, b int) int {
	if a < b {
		return a
	}
	return b
}

// PendingOp is a write or truncation not yet covered by a Sync of its file.
type PendingOp struct {
	Event Event
	Index int // index in the event list
}

// Durability describes, at one instant, the durable content and the pending operations per file.
type Durability struct {
	Names   map[string]int      // name -> node
	Synced  map[int][]byte      // node -> content as of the last Sync (empty for a new file)
	Pending map[int][]PendingOp // node -> writes/truncations since
	Order   []int               // nodes that have pending operations, in first-pending order
}

// DurabilityAt computes the durability state after events [0, n).
// Files of the base image are durable as they are.
func DurabilityAt(base map[string][]byte, events []Event, n int) *Durability {
	d := &Durability{Names: map[string]int{}, Synced: map[int][]byte{}, Pending: map[int][]PendingOp{}}
	nextBase := -1
	for name, data := range base {
		d.Names[name] = nextBase
		d.Synced[nextBase] = append([]byte(nil), data...)
		nextBase--
	}
	alias := map[int]int{} // event node id -> durability node id (for base files)
	resolve := func(e Event) int {
		if id, ok := alias[e.Node]; ok {
			return id
		}
		if id, ok := d.Names[e.Name]; ok && id < 0 {
			alias[e.Node] = id
			return id
		}
		alias[e.Node] = e.Node
		return e.Node
	}
	for i := 0; i < n && i < len(events); i++ {
		e := events[i]
		switch e.Kind {
		case Create:
			alias[e.Node] = e.Node
			d.Names[e.Name] = e.Node
			d.Synced[e.Node] = nil
		case Write, Truncate:
			id := resolve(e)
			if len(d.Pending[id]) == 0 {
				d.Order = append(d.Order, id)
			}
			d.Pending[id] = append(d.Pending[id], PendingOp{e, i})
		case Sync:
			id := resolve(e)
			data := d.Synced[id]
			for _, p := range d.Pending[id] {
				data = applyData(data, p.Event, -1)
			}
			d.Synced[id] = data
			delete(d.Pending, id)
		case Rename:
			id := resolve(e)
			delete(d.Names, e.Name)
			d.Names[e.To] = id
		case Remove:
			resolve(e)
			delete(d.Names, e.Name)
		}
	}
	return d
}

// Image builds a power-loss image: keep[node] = number of pending operations that survive for that
// file (missing = 0), cut[node] = if > 0, the surviving byte count of the first non-surviving
// operation (must be a write).
func (d *Durability) Image(keep map[int]int, cut map[int]int) map[string][]byte {
	img := map[string][]byte{}
	for name, id := range d.Names {
		data := append([]byte(nil), d.Synced[id]...)
		ps := d.Pending[id]
		k := keep[id]
		if k > len(ps) {
			k = len(ps)
		}
		for i := 0; i < k; i++ {
			data = applyData(data, ps[i].Event, -1)
		}
		if c := cut[id]; c > 0 && k < len(ps) && ps[k].Event.Kind == Write {
			data = applyData(data, ps[k].Event, c)
		}
		img[name] = data
	}
	return img
}

// ---- fs.FileSystem ----

type info struct {
	name string
	size int64
}

func (i info) Name() string               { return filepath.Base(i.name) }
func (i info) Size() int64                { return i.size }
func (i info) Mode() os.FileMode          { return 0640 }
func (i info) ModTime() time.Time         { return time.Time{} }
func (i info) IsDir() bool                { return false }
func (i info) Sys() interface{}           { return nil }
func (i info) Type() os.FileMode          { return 0 }
func (i info) Info() (os.FileInfo, error) { return i, nil }

// OpenFile implements fs.FileSystem.
func (t *FS) OpenFile(name string, flag int, perm os.FileMode) (fs.File, error) {
	t.mu.Lock()
	defer t.mu.Unlock()
	if t.tick() {
		return nil, errInjected
	}
	name = filepath.Clean(name)
	n := t.names[name]
	if n == nil {
		if flag&os.O_CREATE == 0 {
			return nil, &os.PathError{Op: "open", Path: name, Err: os.ErrNotExist}
		}
		if t.failing() {
			return nil, errInjected
		}
		n = &node{id: t.nextID}
		t.nextID++
		t.names[name] = n
		t.record(Event{Kind: Create, Name: name, Node: n.id})
	} else if flag&os.O_TRUNC != 0 {
		if t.failing() {
			return nil, errInjected
		}
		n.data = n.data[:0:0]
		t.record(Event{Kind: Truncate, Name: name, Size: 0, Node: n.id})
	}
	t.handles++
	return &file{t: t, n: n, name: name, readonly: flag&(os.O_RDWR|os.O_WRONLY) == 0 && flag&os.O_CREATE == 0}, nil
}

// Stat implements fs.FileSystem.
func (t *FS) Stat(name string) (os.FileInfo, error) {
	t.mu.Lock()
	defer t.mu.Unlock()
	if t.tick() {
		return nil, errInjected
	}
	name = filepath.Clean(name)
	if n, ok := t.names[name]; ok {
		return info{name, int64(len(n.data))}, nil
	}
	return nil, &os.PathError{Op: "stat", Path: name, Err: os.ErrNotExist}
}

// Remove implements fs.FileSystem.
func (t *FS) Remove(name string) error {
	t.mu.Lock()
	defer t.mu.Unlock()
	if t.tick() {
		return errInjected
	}
	name = filepath.Clean(name)
	n, ok := t.names[name]
	if !ok {
		return &os.PathError{Op: "remove", Path: name, Err: os.ErrNotExist}
	}
	if t.failing() {
		return errInjected
	}
	delete(t.names, name)
	t.record(Event{Kind: Remove, Name: name, Node: n.id})
	return nil
}

// Rename implements fs.FileSystem.
func (t *FS) Rename(oldpath, newpath string) error {
	t.mu.Lock()
	defer t.mu.Unlock()
	if t.tick() {
		return errInjected
	}
	oldpath, newpath = filepath.Clean(oldpath), filepath.Clean(newpath)
	n, ok := t.names[oldpath]
	if !ok {
		return &os.PathError{Op: "rename", Path: oldpath, Err: os.ErrNotExist}
	}
	if t.failing() {
		return errInjected
	}
	delete(t.names, oldpath)
	t.names[newpath] = n
	t.record(Event{Kind: Rename, Name: oldpath, To: newpath, Node: n.id})
	return nil
}

// ReadDir implements fs.FileSystem: entries sorted by name, like os.ReadDir.
func (t *FS) ReadDir(dir string) ([]os.DirEntry, error) {
	t.mu.Lock()
	defer t.mu.Unlock()
	if t.tick() {
		return nil, errInjected
	}
	dir = filepath.Clean(dir)
	var entries []os.DirEntry
	for name, n := range t.names {
		if filepath.Dir(name) == dir {
			entries = append(entries, info{name, int64(len(n.data))})
		}
	}
	sort.Slice(entries, func(i, j int) bool { return entries[i].Name() < entries[j].Name() })
	return entries, nil
}

// List returns the sorted names (relative to dir) of the files in dir.
func (t *FS) List(dir string) []string {
	t.mu.Lock()
	t.Calls-- // not a call of the code under test
	t.mu.Unlock()
	es, _ := t.ReadDir(dir)
	var out []string
	for _, e := range es {
		out = append(out, e.Name())
	}
	return out
}

// ReadFile returns a copy of the content of a file.
func (t *FS) ReadFile(name string) ([]byte, bool) {
	t.mu.Lock()
	defer t.mu.Unlock()
	n, ok := t.names[filepath.Clean(name)]
	if !ok {
		return nil, false
	}
	return append([]byte(nil), n.data...), true
}

// WriteFile replaces the content of a file without recording an event (test set-up only).
func (t *FS) WriteFile(name string, data []byte) {
	t.mu.Lock()
	defer t.mu.Unlock()
	name = filepath.Clean(name)
	n := t.names[name]
	if n == nil {
		n = &node{id: t.nextID}
		t.nextID++
		t.names[name] = n
	}
	n.data = append([]byte(nil), data...)
	// Make the change part of the base so that replays see it.
	t.base = map[string][]byte{}
	for nm, nd := range t.names {
		t.base[nm] = append([]byte(nil), nd.data...)
	}
	t.events = nil
}

// DeleteFile removes a file without recording an event (test set-up only).
func (t *FS) DeleteFile(name string) {
	t.mu.Lock()
	defer t.mu.Unlock()
	delete(t.names, filepath.Clean(name))
	t.base = map[string][]byte{}
	for nm, nd := range t.names {
		t.base[nm] = append([]byte(nil), nd.data...)
	}
	t.events = nil
}

// MkdirAll implements fs.FileSystem.
func (t *FS) MkdirAll(path string, perm os.FileMode) error { return nil }

type lockFile struct {
	t    *FS
	n    *node
	name string
}

// CreateLockFile implements fs.FileSystem.
func (t *FS) CreateLockFile(name string, perm os.FileMode) (fs.LockFile, bool, error) {
	t.mu.Lock()
	defer t.mu.Unlock()
	name = filepath.Clean(name)
	n, existing := t.names[name]
	if existing && t.locks[n] {
		return nil, false, os.ErrExist
	}
	if !existing {
		if t.failing() {
			return nil, false, errInjected
		}
		n = &node{id: t.nextID}
		t.nextID++
		t.names[name] = n
		t.record(Event{Kind: Create, Name: name, Node: n.id})
	}
	t.locks[n] = true
	return &lockFile{t, n, name}, existing, nil
}

func (l *lockFile) Unlock() error {
	l.t.mu.Lock()
	defer l.t.mu.Unlock()
	if l.t.failing() {
		return errInjected
	}
	if l.t.names[l.name] == l.n {
		delete(l.t.names, l.name)
		l.t.record(Event{Kind: Remove, Name: l.name, Node: l.n.id})
	}
	delete(l.t.locks, l.n)
	return nil
}

type file struct {
	t        *FS
	n        *node
	name     string
	off      int64
	closed   bool
	readonly bool
}

func (f *file) Close() error {
	f.t.mu.Lock()
	defer f.t.mu.Unlock()
	if f.closed {
		return os.ErrClosed
	}
	f.closed = true
	f.t.handles--
	return nil
}

func (f *file) readAt(p []byte, off int64) (int, error) {
	if f.closed {
		return 0, os.ErrClosed
	}
	if off >= int64(len(f.n.data)) {
		return 0, io.EOF
	}
	n := copy(p, f.n.data[off:])
	if n < len(p) {
		return n, io.EOF
	}
	return n, nil
}

func (f *file) ReadAt(p []byte, off int64) (int, error) {
	f.t.mu.Lock()
	defer f.t.mu.Unlock()
	return f.readAt(p, off)
}

func (f *file) Read(p []byte) (int, error) {
	if d := f.t.ReadDelay; d > 0 {
		time.Sleep(d)
	}
	f.t.mu.Lock()
	defer f.t.mu.Unlock()
	if f.closed {
		return 0, os.ErrClosed
	}
	if len(p) == 0 {
		return 0, nil
	}
	n, err := f.readAt(p, f.off)
	f.off += int64(n)
	if n > 0 {
		err = nil
	}
	return n, err
}

func (f *file) writeAt(p []byte, off int64) (int, error) {
	if f.closed {
		return 0, os.ErrClosed
	}
	if f.t.failing() {
		return 0, errInjected
	}
	end := off + int64(len(p))
	if int64(len(f.n.data)) < end {
		f.n.data = append(f.n.data, make([]byte, end-int64(len(f.n.data)))...)
	}
	copy(f.n.data[off:end], p)
	f.t.record(Event{Kind: Write, Name: f.name, Off: off, Data: append([]byte(nil), p...), Node: f.n.id})
	return len(p), nil
}

func (f *file) WriteAt(p []byte, off int64) (int, error) {
	f.t.mu.Lock()
	defer f.t.mu.Unlock()
	return f.writeAt(p, off)
}

func (f *file) Write(p []byte) (int, error) {
	f.t.mu.Lock()
	defer f.t.mu.Unlock()
	n, err := f.writeAt(p, f.off)
	f.off += int64(n)
	return n, err
}

func (f *file) Seek(offset int64, whence int) (int64, error) {
	f.t.mu.Lock()
	defer f.t.mu.Unlock()
	if f.closed {
		return 0, os.ErrClosed
	}
	switch whence {
	case io.SeekStart:
		f.off = offset
	case io.SeekCurrent:
		f.off += offset
	case io.SeekEnd:
		f.off = int64(len(f.n.data)) + offset
	}
	return f.off, nil
}

func (f *file) Stat() (os.FileInfo, error) {
	f.t.mu.Lock()
	defer f.t.mu.Unlock()
	if f.closed {
		return nil, os.ErrClosed
	}
	return info{f.name, int64(len(f.n.data))}, nil
}

func (f *file) Sync() error {
	if d := f.t.SyncDelay; d > 0 {
		// every other flush is slow (latency of a device varies from call to call)
		if atomic.AddInt64(&f.t.syncCount, 1)%2 == 0 {
			time.Sleep(d)
		}
	}
	f.t.mu.Lock()
	defer f.t.mu.Unlock()
	if f.closed {
		return os.ErrClosed
	}
	if f.t.failing() {
		return errInjected
	}
	f.t.record(Event{Kind: Sync, Name: f.name, Node: f.n.id})
	return nil
}

func (f *file) Truncate(size int64) error {
	f.t.mu.Lock()
	defer f.t.mu.Unlock()
	if f.closed {
		return os.ErrClosed
	}
	if f.t.failing() {
		return errInjected
	}
	if int64(len(f.n.data)) > size {
		f.n.data = f.n.data[:size:size]
	} else {
		f.n.data = append(f.n.data, make([]byte, size-int64(len(f.n.data)))...)
	}
	f.t.record(Event{Kind: Truncate, Name: f.name, Size: size, Node: f.n.id})
	return nil
}

func (f *file) Slice(start int64, end int64) ([]byte, error) {
	f.t.mu.Lock()
	defer f.t.mu.Unlock()
	if f.closed {
		return nil, os.ErrClosed
	}
	if end > int64(len(f.n.data)) {
		return nil, io.EOF
	}
	return append([]byte(nil), f.n.data[start:end]...), nil
}

// Rel strips the directory prefix from an event name.
func Rel(dir, name string) string {
	return strings.TrimPrefix(name, filepath.Clean(dir)+"/")
}

var _ fs.FileSystem = (*FS)(nil)
