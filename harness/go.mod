module verifharness

go 1.18

require (
	github.com/akrylysov/pogreb v0.0.0
	github.com/anishathalye/porcupine v1.3.0
)

replace github.com/akrylysov/pogreb => /repo
