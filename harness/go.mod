module verifharness

go 1.18

require github.com/akrylysov/pogreb v0.0.0

replace github.com/akrylysov/pogreb => /repo
