(* FuncsRecordCheck.v -- OBLIGATIONS tying the integer code of the record format (segment.go:
   encodedRecordSize, the length fields written by encodeRecord, the decoding of the two length
   fields and the "does the record fit into the rest of the file" guard of segmentIterator.next;
   db.go: the size limits checked by Put) AS TRANSLATED FROM THE CURRENT SOURCES (gen/Funcs.v) to the
   definitions of the model (Record.v: rsize, vfield, decode_next; Spec/DB: valid).
   Each statement quantifies over ALL values of the Go types involved. *)
From Coq Require Import ZArith NArith Bool Lia List.
From Pogreb Require Import Base Bytes Record GoSem.
From Pogreb.gen Require Import Funcs.
Open Scope Z_scope.

(* encodedRecordSize(n) = n + 10 as long as that fits in 32 bits *)
Theorem encodedRecordSize_ok : forall n : N, (n + 10 < 2 ^ 32)%N ->
  go_encodedRecordSize (Z.of_N n) = Z.of_N (rec_overhead + n).
Proof.
  intros n Hn. change (2 ^ 32)%N with 4294967296%N in Hn. unfold go_encodedRecordSize, go_add, rec_overhead.
  rewrite (wrap_U32 (6 + Z.of_N n)) by lia. rewrite wrap_U32 by lia. lia.
Qed.

(* encodeRecord: for every key and value within the limits Put enforces, the buffer size is [rsize]
   and the value-length field is [vfield] (length, delete bit on top) *)
Theorem encode_sizes_ok : forall (r : rec),
  (nlen (rk r) <= max_key_len)%N -> (nlen (rv r) <= max_val_len)%N ->
  go_encode_sizes (Z.of_N (nlen (rk r))) (Z.of_N (nlen (rv r))) (if rdel r then 1 else 0)
  = (Z.of_N (rsize r), Z.of_N (vfield r)).
Proof.
  intros r Hk Hv. unfold max_key_len in Hk. unfold max_val_len in Hv.
  unfold go_encode_sizes, go_conv, go_add.
  rewrite (wrap_S64 (Z.of_N (nlen (rk r)) + Z.of_N (nlen (rv r)))) by lia.
  rewrite (wrap_U32 (Z.of_N (nlen (rk r)) + Z.of_N (nlen (rv r)))) by lia.
  replace (Z.of_N (nlen (rk r)) + Z.of_N (nlen (rv r))) with (Z.of_N (nlen (rk r) + nlen (rv r))) by lia.
  rewrite encodedRecordSize_ok by (change (2 ^ 32)%N with 4294967296%N; lia).
  rewrite (wrap_U32 (Z.of_N (nlen (rv r)))) by lia.
  unfold rsize, vfield, u32, go_eqb, go_or.
  f_equal; [f_equal; lia|].
  rewrite (N.mod_small (nlen (rv r))) by (change (2 ^ 32)%N with 4294967296%N; lia).
  destruct (rdel r); cbn [Z.eqb].
  - unfold delbit. rewrite lor_bit31 by lia.
    assert (D : N.land (nlen (rv r)) 2147483648 = 0%N).
    { apply N2Z.inj. apply Z.bits_inj'. intros n Hn. rewrite <- (Z2N.id n) by lia.
      rewrite N2Z.inj_testbit, N.land_spec, <- !N2Z.inj_testbit, <- Z.land_spec.
      change (Z.of_N 2147483648) with 2147483648. rewrite land_lo_bit31 by lia. reflexivity. }
    rewrite <- N.lxor_lor by exact D. rewrite <- N.add_nocarry_lxor by exact D. cbn [Pos.eqb]. lia.
  - rewrite N.lor_0_r. reflexivity.
Qed.

Lemma tup5 {A B C D E} (a a' : A) (b b' : B) (c c' : C) (d d' : D) (e e' : E) :
  a = a' -> b = b' -> c = c' -> d = d' -> e = e' -> (a, b, c, d, e) = (a', b', c', d', e').
Proof. intros; subst; reflexivity. Qed.

(* segmentIterator.next, from the two length fields to the guard: the decoded key size, value size,
   record type and record size are those of Record.decode_next, and the guard rejects exactly when
   the record does not fit into the bytes that are left ([rest] = file size - offset). *)
Theorem next_sizes_ok : forall (ks w fsize off : N),
  (ks < 2 ^ 16)%N -> (w < 2 ^ 32)%N -> (off <= fsize)%N -> (fsize < 2 ^ 63)%N -> (off < 2 ^ 32)%N ->
  go_next_sizes (Z.of_N ks) (Z.of_N w) (Z.of_N fsize) (Z.of_N off)
  = (if (delbit <=? w)%N then 1 else 0, Z.of_N ks, Z.of_N (w mod delbit),
     Z.of_N (rec_overhead + ks + w mod delbit),
     (fsize - off <? rec_overhead + ks + w mod delbit)%N).
Proof.
  intros ks w fsize off Hk Hw Ho Hf Ho32.
  change (2 ^ 16)%N with 65536%N in Hk. change (2 ^ 32)%N with 4294967296%N in Hw, Ho32.
  change (2 ^ 63)%N with 9223372036854775808%N in Hf.
  unfold go_next_sizes, go_conv.
  rewrite (wrap_U32 (Z.of_N ks)) by lia.
  assert (W : 0 <= Z.of_N w < 4294967296) by lia.
  unfold go_and, go_neqb, go_andnot. rewrite (land_bit31 _ W), (ldiff_bit31 _ W).
  assert (M : (w mod delbit = if (delbit <=? w) then w - delbit else w)%N).
  { unfold delbit. destruct (N.leb_spec 2147483648 w) as [Ge|Lt].
    - replace w with ((w - 2147483648) + 1 * 2147483648)%N at 1 by lia.
      rewrite N.mod_add by lia. apply N.mod_small. lia.
    - apply N.mod_small. lia. }
  assert (V : Z.of_N w mod 2147483648 = Z.of_N (w mod delbit)).
  { unfold delbit. rewrite N2Z.inj_mod. reflexivity. }
  rewrite V.
  unfold delbit in M |- *.
  destruct (N.leb_spec 2147483648 w) as [Ge|Lt].
  - replace (2147483648 <=? Z.of_N w) with true by (symmetry; apply Z.leb_le; lia).
    cbn [Z.eqb negb]. rewrite M.
    unfold go_add. rewrite (wrap_U32 (Z.of_N ks + Z.of_N (w - 2147483648))) by lia.
    replace (Z.of_N ks + Z.of_N (w - 2147483648)) with (Z.of_N (ks + (w - 2147483648))) by lia.
    rewrite encodedRecordSize_ok by (change (2 ^ 32)%N with 4294967296%N; lia).
    unfold go_sub, go_gtb. unfold rec_overhead.
    rewrite (wrap_S64 (Z.of_N (10 + (ks + (w - 2147483648))))) by lia.
    rewrite (wrap_S64 (Z.of_N off)) by lia. rewrite wrap_S64 by lia.
    apply tup5; try reflexivity; try lia.
    destruct (N.ltb_spec (fsize - off) (10 + ks + (w - 2147483648))); [apply Z.ltb_lt|apply Z.ltb_ge]; lia.
  - replace (2147483648 <=? Z.of_N w) with false by (symmetry; apply Z.leb_gt; lia).
    cbn [Z.eqb negb]. rewrite M.
    unfold go_add. rewrite (wrap_U32 (Z.of_N ks + Z.of_N w)) by lia.
    replace (Z.of_N ks + Z.of_N w) with (Z.of_N (ks + w)) by lia.
    rewrite encodedRecordSize_ok by (change (2 ^ 32)%N with 4294967296%N; lia).
    unfold go_sub, go_gtb. unfold rec_overhead.
    rewrite (wrap_S64 (Z.of_N (10 + (ks + w)))) by lia.
    rewrite (wrap_S64 (Z.of_N off)) by lia. rewrite wrap_S64 by lia.
    apply tup5; try reflexivity; try lia.
    destruct (N.ltb_spec (fsize - off) (10 + ks + w)); [apply Z.ltb_lt|apply Z.ltb_ge]; lia.
Qed.

(* the limits Put enforces are the model's *)
Theorem put_limits_ok : forall klen vlen : N,
  go_key_too_large (Z.of_N klen) = (max_key_len <? klen)%N /\
  go_value_too_large (Z.of_N vlen) = (max_val_len <? vlen)%N.
Proof.
  intros klen vlen. unfold go_key_too_large, go_value_too_large, go_gtb, max_key_len, max_val_len. split.
  - destruct (N.ltb_spec 65535 klen); [apply Z.ltb_lt|apply Z.ltb_ge]; lia.
  - destruct (N.ltb_spec 536870912 vlen); [apply Z.ltb_lt|apply Z.ltb_ge]; lia.
Qed.
