(* ShapeCheck.v -- obligations over the lock structure that tools/gotrans regenerates from the Go
   sources on every run (gen/Shape.v).  They are decided by computation in the kernel, so an edit of
   the code that changes a lock mode, moves work out of a critical section, reorders Close or the
   compaction steps makes this file fail to compile.

   These facts are the premise under which the model's atomic actions (Conc.v) are atomic in the
   code: every access to the shared index / log state happens under db.mu in the mode its kind
   requires, each operation has exactly one critical section (compaction: one per record), locks are
   nested in one fixed order.  That sync.RWMutex provides mutual exclusion is trusted. *)
From Coq Require Import List String Bool.
From Pogreb Require Import gen.Shape.
Import ListNotations.
Open Scope string_scope.

Definition lk_eqb (a b : lk) : bool :=
  match a, b with Mu, Mu | MaintMu, MaintMu | ItMu, ItMu => true | _, _ => false end.
Definition holds (l : lk) (held : list (lk * mode)) : bool := existsb (fun p => lk_eqb (fst p) l) held.
Definition holds_ex (l : lk) (held : list (lk * mode)) : bool :=
  existsb (fun p => lk_eqb (fst p) l && match snd p with Ex => true | Sh => false end) held.

Definition mem_str (s : string) (l : list string) : bool := existsb (String.eqb s) l.

(* calls that modify the index, the log, segment metadata or files: need db.mu exclusively *)
Definition writer_calls : list string :=
  ["db.datalog.put"; "db.put"; "db.del"; "db.sync"; "db.datalog.sealSegment"; "db.datalog.removeSegment";
   "db.datalog.sync"; "db.promoteRecord"; "db.writeMeta"; "db.datalog.close"; "db.index.close";
   "db.lock.Unlock"; "db.datalog.writeRecord"; "db.datalog.del"; "db.datalog.trackDel"; "db.index.put";
   "db.index.delete"].
(* calls that read them: need db.mu in any mode *)
Definition reader_calls : list string :=
  ["db.index.get"; "db.datalog.readKeyValue"; "db.datalog.readKey"; "db.index.count";
   "it.fetchItems"; "db.datalog.segmentsBySequenceID"; "db.pickForCompaction";
   "it.db.index.newBucketIterator"; "it.db.datalog.readKeyValue";
   (* the bucket a hash belongs to depends on level / split pointer / number of buckets, which every
      split changes: computed under the lock or not at all *)
   "db.index.bucketIndex"; "db.index.newBucketIterator"].
Definition guarded_fields : list string :=
  ["it.db.index.numBuckets"; "sourceSeg.meta"; "seg.meta"; "seg.size"].

Definition tok_guarded (t : tok) : bool :=
  match t with
  | Call c held =>
      if mem_str c writer_calls then holds_ex Mu held
      else if mem_str c reader_calls then holds Mu held
      else true
  | Field f held => if mem_str f guarded_fields then holds Mu held else true
  | _ => true
  end.

(* the functions in which the locks are taken (their callees run inside these regions) *)
Definition api : list string :=
  ["DB_Get"; "DB_GetAppend"; "DB_Has"; "DB_Put"; "DB_Delete"; "DB_Sync"; "DB_Count"; "DB_Close";
   "DB_Compact"; "DB_compact"; "DB_Backup"; "ItemIterator_Next"].

Definition lookup (n : string) : list tok :=
  match find (fun p => String.eqb (fst p) n) shape_table with Some p => snd p | None => [] end.

Definition all_guarded : bool :=
  forallb (fun n => match lookup n with [] => false | l => forallb tok_guarded l end) api.

(* lock order: ItMu before MaintMu before Mu; a lock is only acquired while holding locks that come
   earlier in that order; TryLock never blocks *)
Definition rank (l : lk) : nat := match l with ItMu => 0 | MaintMu => 1 | Mu => 2 end.
Fixpoint order_ok (held : list lk) (l : list tok) : bool :=
  match l with
  | [] => true
  | Acq x _ :: l' => forallb (fun h => Nat.ltb (rank h) (rank x)) held && order_ok (x :: held) l'
  | TryAcq x :: l' => order_ok (x :: held) l'
  | Rel x :: l' =>
      order_ok ((fix rm (hs : list lk) := match hs with [] => [] | h :: hs' => if lk_eqb h x then hs' else h :: rm hs' end) held) l'
  | _ :: l' => order_ok held l'
  end.
Definition lock_order_ok : bool := forallb (fun p => order_ok [] (snd p)) shape_table.

(* number of times db.mu is acquired *)
Definition acq_mu (l : list tok) : nat :=
  List.length (filter (fun t => match t with Acq Mu _ => true | _ => false end) l).
Definition one_region (n : string) : bool := Nat.eqb (acq_mu (lookup n)) 1.
Definition single_region_ops : bool :=
  forallb one_region ["DB_Get"; "DB_GetAppend"; "DB_Has"; "DB_Put"; "DB_Delete"; "DB_Sync"; "DB_Count";
                      "DB_Close"; "ItemIterator_Next"; "DB_Backup"; "DB_Compact"].

(* the calls of a function, in order *)
Definition calls (l : list tok) : list string :=
  List.concat (map (fun t => match t with Call c _ => [c] | _ => [] end) l).
Fixpoint subseq (a b : list string) : bool :=    (* a is a subsequence of b *)
  match a, b with
  | [], _ => true
  | _, [] => false
  | x :: a', y :: b' => if String.eqb x y then subseq a' b' else subseq a b'
  end.
Definition last_call (l : list tok) : string := last (calls l) "".

(* Close: stop the worker and wait for it BEFORE taking the lock; metadata, log, index in this
   order; the lock file is released last *)
Definition close_order_ok : bool :=
  subseq ["db.cancelBgWorker"; "db.closeWg.Wait"; "db.writeMeta"; "db.datalog.close"; "db.index.close"; "db.lock.Unlock"]
         (calls (lookup "DB_Close")) &&
  String.eqb (last_call (lookup "DB_Close")) "db.lock.Unlock" &&
  match lookup "DB_Close" with
  | Call "db.cancelBgWorker" [] :: Call "db.closeWg.Wait" [] :: Acq Mu Ex :: _ => true
  | _ => false
  end.

(* Close's callees flush before they close; the gob writer flushes *)
Definition close_syncs : bool :=
  subseq ["seg.Sync"; "seg.Close"; "writeGobFile"] (calls (lookup "datalog_close")) &&
  subseq ["idx.writeMeta"; "idx.main.Sync"; "idx.overflow.Sync"; "idx.main.Close"; "idx.overflow.Close"]
         (calls (lookup "index_close")) &&
  subseq ["f.Sync"] (calls (lookup "writeGobFile")).

(* compaction: pick and seal in one exclusive section; per record one exclusive section; the
   source is removed last, after the current segment was flushed *)
Definition compact_order_ok : bool :=
  match lookup "DB_Compact" with
  | TryAcq MaintMu :: Acq Mu Ex :: Call "db.pickForCompaction" _ :: _ => true
  | _ => false
  end &&
  subseq ["db.pickForCompaction"; "db.datalog.sealSegment"; "db.compact"] (calls (lookup "DB_Compact")) &&
  subseq ["newSegmentIterator"; "it.next"; "db.promoteRecord"; "db.datalog.sync"; "db.datalog.removeSegment"]
         (calls (lookup "DB_compact")) &&
  String.eqb (last_call (lookup "DB_compact")) "db.datalog.removeSegment" &&
  subseq ["seg.Close"; "dl.opts.FileSystem.Remove"; "dl.opts.FileSystem.Remove"] (calls (lookup "datalog_removeSegment")).

(* sealing flushes; a rollover seals *)
Definition seal_syncs : bool :=
  subseq ["seg.Sync"] (calls (lookup "datalog_sealSegment")) &&
  subseq ["dl.sealSegment"; "dl.swapSegment"] (calls (lookup "datalog_writeRecord")).

(* Backup holds the maintenance lock throughout and takes its snapshot under db.mu *)
Definition backup_shape_ok : bool :=
  match lookup "DB_Backup" with
  | Acq MaintMu Ex :: Acq Mu Sh :: _ => true
  | _ => false
  end &&
  forallb (fun t => match t with Call _ held | Field _ held => holds MaintMu held | _ => true end) (lookup "DB_Backup") &&
  subseq ["db.datalog.segmentsBySequenceID"; "io.CopyN"; "touchFile"] (calls (lookup "DB_Backup")).

(* results are copied while the lock is held (C14): the copy calls occur inside the region *)
Definition copies_inside (n c : string) : bool :=
  existsb (fun t => match t with Call c' held => String.eqb c c' && holds Mu held | _ => false end) (lookup n).
Definition results_copied : bool :=
  copies_inside "DB_Get" "cloneBytes" && copies_inside "DB_GetAppend" "append" &&
  existsb (fun t => match t with Call "cloneBytes" _ => true | _ => false end) (lookup "ItemIterator_fetchItems").

(* the lock file protocol: system calls in this order *)
Definition lockfile_shape_ok : bool :=
  subseq ["os.OpenFile"; "os.OpenFile"; "syscall.Flock"; "f.Stat"; "os.Stat"; "os.SameFile"; "f.WriteAt"]
         (calls (lookup "createLockFile")) &&
  subseq ["os.Remove"; "f.Close"] (calls (lookup "osLockFile_Unlock")).

(* Open never releases (= removes) the lock file: the lock file is the only persistent record that
   the last session did not complete Close *)
Definition open_keeps_lock : bool :=
  negb (existsb (fun c => String.eqb c "lock.Unlock" || String.eqb c "db.lock.Unlock") (calls (lookup "Open"))) &&
  subseq ["createLockFile"; "backupNonsegmentFiles"; "openIndex"; "openDatalog"; "db.recover"] (calls (lookup "Open")).

(* the background worker (periodic Sync and COMPACTION) is started only after recovery has finished:
   recover() runs without db.mu, because nobody else can hold the handle yet *)
Fixpoint before_first (stop : string) (l : list string) : list string :=
  match l with
  | [] => []
  | x :: l' => if String.eqb x stop then [] else x :: before_first stop l'
  end.
Definition open_worker_after_recovery : bool :=
  negb (existsb (String.eqb "db.startBackgroundWorker") (before_first "db.recover" (calls (lookup "Open")))) &&
  existsb (String.eqb "db.recover") (calls (lookup "Open")).

(* write-ahead order: Put appends to the log before it touches the index; Delete's index update and its
   log record are inside one exclusive section; recovery moves the non-segment files aside before it
   opens the index *)
Definition write_ahead_ok : bool :=
  subseq ["db.datalog.put"; "db.put"] (calls (lookup "DB_Put")) &&
  subseq ["db.datalog.trackDel"; "db.datalog.del"] (calls (lookup "DB_del")) &&
  subseq ["db.datalog.segmentsBySequenceID"; "it.next"; "db.put"] (calls (lookup "DB_recover")).

Theorem shape_all_guarded : all_guarded = true. Proof. vm_compute. reflexivity. Qed.
Theorem shape_lock_order : lock_order_ok = true. Proof. vm_compute. reflexivity. Qed.
Theorem shape_single_region : single_region_ops = true. Proof. vm_compute. reflexivity. Qed.
Theorem shape_close_order : close_order_ok = true. Proof. vm_compute. reflexivity. Qed.
Theorem shape_close_syncs : close_syncs = true. Proof. vm_compute. reflexivity. Qed.
Theorem shape_compact_order : compact_order_ok = true. Proof. vm_compute. reflexivity. Qed.
Theorem shape_seal_syncs : seal_syncs = true. Proof. vm_compute. reflexivity. Qed.
Theorem shape_backup : backup_shape_ok = true. Proof. vm_compute. reflexivity. Qed.
Theorem shape_results_copied : results_copied = true. Proof. vm_compute. reflexivity. Qed.
Theorem shape_lockfile : lockfile_shape_ok = true. Proof. vm_compute. reflexivity. Qed.
(* no function returns while still holding a lock that no deferred call releases *)
Theorem shape_no_lock_leak : lock_leaks = []. Proof. reflexivity. Qed.
Theorem shape_write_ahead : write_ahead_ok = true. Proof. vm_compute. reflexivity. Qed.
Theorem shape_open_keeps_lock : open_keeps_lock = true. Proof. vm_compute. reflexivity. Qed.
Theorem shape_open_worker_after_recovery : open_worker_after_recovery = true. Proof. vm_compute. reflexivity. Qed.
