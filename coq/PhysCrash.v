(* PhysCrash.v -- the PROCESS-CRASH theorems for the database running on the PHYSICAL index
   ([phys_ops], Phys.v: bucket files addressed by byte offset, overflow-bucket allocation, free list).

   DBSimSessions.v transfers the restart (C02), crash (C03) and crash-during-recovery (C04) theorems of
   the flat-index database (DBProofsRecovery.v, DBProofsCrash.v) to the bucket-chain instantiation
   [chain_ops].  This file adds one more layer: the same theorems for [phys_ops].  Three states / disks
   are related in every statement:

        s1 : st phys   --- gst_rel PR ---   sp : st pindex   --- st_rel ---   sf : st flat
        (PhysProofs.PR p c = PhysInv p /\ R_phys p c /\ PInv c;   st_rel = gst_rel idx_rel)

   NOTHING is assumed about the phys state beyond [gst_rel PR s1 sp], nothing about the chain state
   beyond [st_rel sp sf]; every other hypothesis ([Inv], [room], [bac_ok], [CInv], [DiskOK] ...) is about
   the FLAT state, exactly as in the chain_* theorems.  The side conditions of DBSimExact ([sizes_ok],
   [xok], [ff_ok]) are DERIVED from these (xok_chain_of_flat, ff_ok_of_DiskOK), so no hypothesis is added.
   No axioms (Print Assumptions at the end: all "Closed under the global context").  Nothing asked for
   turned out to be false, and nothing is partial.

   0. BASICS
        closed1 d                 the closed phys database on disk d (closedp / closed of the other layers)
        phys_disk_ok d            every index value stored on d (main.pix+overflow.pix: [d_index],
                                  index.pmt: [d_imeta]) satisfies PhysInv (no shared / leaked / dangling
                                  overflow bucket, free list exact, no cycle)
        phys_open_ok s            s is open, PhysInv of its in-memory index, phys_disk_ok of its disk
        PR_disk_ok, PR_open_ok    both follow from the relations
        answers1 P s ms           Get / Has / Count / Items of the phys database s are those of the map ms
                                  (= DBSimSessions.answers for phys_ops);  phys_reads (the four reads are
                                  EQUAL to those of a PR-related chain state), answers1_of_chain
   1. CRASH IMAGES
        phys_crash_at             same instant (events done, bytes of a torn record) => PR-related images
        phys_crash_image          every crash image of the phys run has a PR-related crash image of the
                                  chain run, and conversely                      (crash_image_g + PR_empty)
        phys_crash_image_st       the form used below (operation ran on related states)
        phys_crash_image_flat     composed with sim_crash_image: phys image <-> flat crash_image
        phys_crash_image_inv      every crash image (torn ones too) stores only indexes with PhysInv
   2. RECOVERING / CLEAN OPEN ON AN IMAGE
        phys_open_image           gdisk_rel PR img1 imgp -> ff_ok imgp -> so_rel PR (db_open phys ..) (db_open chain ..)
                                  (DBSimExact.xsim_open: both paths; in the recovery path the stored index
                                  is set aside and rebuilt by replaying the log through ph_put / ph_del)
        phys_open_clean_image     no lock file: no side condition at all        (open_clean_g)
        phys_open_image_flat      three layers: the side condition follows from DiskOK of the flat image
        phys_recover_image        = chain_recover_image with the phys layer: OOpened true on the three
                                  instances, related states, Inv, answers1 .. (abs imgf), phys_open_ok
   3. CRASH DURING AN OPERATION, THEN Open
        phys_crash_recover_ok     the engine (any operation; = chain_crash_recover_ok + phys layer)
        phys_crash_put, phys_crash_delete          contents BEFORE or AFTER the operation, nothing else
        phys_crash_sync, phys_crash_compact_pick, phys_crash_compact_step   contents unchanged
        phys_crash_close          opens by recovery, or cleanly if Close had finished; contents unchanged
        phys_crash_open_recover   a crash during the recovery itself (C04); contents unchanged
      Every conclusion: the image is PR-related to a chain image, which is disk_rel-related to a flat
      crash image; [db_open phys_ops] on the image returns [OOpened true] ([OOpened b] for Close), so does
      [db_open chain_ops]; the recovered states are related ([gst_rel PR s2 sp2], [st_rel sp2 sf2],
      [Inv P sf2]); [phys_open_ok s2]; [answers1 P s2 ..].
   4. phys_close_reopen_ok        Close; Open = clean open (OOpened false), every answer as before; the
                                  index stored by Close ([stored_index]: main.pix and index.pmt exist and
                                  hold PhysInv values that represent the flat index of before the Close)
                                  and the reopened in-memory index satisfy the physical invariant.
   5. Module PhysCrashEx (non-vacuity, by vm_compute): Open + 35 colliding Puts on the phys database (31
      slots in the main bucket, 4 in an overflow bucket), then a Put that dies (a) with 5 bytes of its
      record in the segment file, (b) after the record, before the index write.  phys_crash_put applies;
      the recovering Open returns OOpened true; in (a) the Put is gone (Count 35), in (b) it is there
      (Count 36) although the index write never happened: both branches of the conclusion are inhabited.

   DEVIATIONS
     - As in DBSimSessions.v the theorems are stated with [gcrash_image phys_ops] and with the existence
       of related images of the other two layers; the operation theorems also return the relation of the
       states AFTER the (uncrashed) operation ([gst_rel PR s1' sp'], [st_rel sp' sf']).
     - [answers1] is the phys analogue of [answers] (which is specific to chain_ops); the recovered phys
       state is moreover related to a chain state sp2 with [answers P sp2 ..] and all reads on the two are
       EQUAL (phys_reads), Items included (same order). *)
From Coq Require Import ZArith Lia ZifyN ZifyNat ZifyBool Permutation List.
From Pogreb Require Import Base BaseLemmas Crc Bytes Record RecordProofs Flat Index Spec DB DBInv
  DBLemmas DBProofsOps DBMeta DBProofsCompact DBProofsRecovery DBProofsCrash DBSim DBRun DBSimExact
  Bucket Phys PhysProofs PhysDB DBSimSessions.
Import ListNotations.
Ltac Zify.zify_post_hook ::= Z.div_mod_to_equations.

Local Notation st1 := (@DB.st phys).
Local Notation stp := (@DB.st pindex).
Local Notation stf := (@DB.st flat).
Local Notation disk1 := (@DB.disk phys).
Local Notation diskp := (@DB.disk pindex).
Local Notation diskf := (@DB.disk flat).

(* ================================================================================================ *)
(** * 0. Basics *)

Definition closed1 (d : disk1) : st1 := {| s_mem := None; s_disk := d; s_trace := [] |}.

Lemma closed1_rel (d1 : disk1) (dp : diskp) : gdisk_rel PR d1 dp -> gst_rel PR (closed1 d1) (closedp dp).
Proof. intros H. unfold closed1, closedp. constructor; [constructor|exact H|constructor]. Qed.

Lemma opt_rel_some_r {A B} (Q : A -> B -> Prop) x b :
  opt_rel Q x (Some b) -> exists a, x = Some a /\ Q a b.
Proof. intros H. inversion H as [|a b' Hab Ea Eb]; subst. exists a. split; [reflexivity|exact Hab]. Qed.

Lemma gob_rel_ok_r {A B} (Q : A -> B -> Prop) x b :
  gob_rel Q x (GOk b) -> exists a, x = GOk a /\ Q a b.
Proof. intros H. inversion H as [| |a b' Hab Ea Eb]; subst. exists a. split; [reflexivity|exact Hab]. Qed.

(* the physical invariant of everything stored in the index files *)
Definition phys_disk_ok (d : disk1) : Prop :=
  (forall i, d_index d = Some i -> PhysInv i) /\ (forall i, d_imeta d = GOk i -> PhysInv i).

(* an open phys database: invariant of the in-memory index and of the stored ones *)
Definition phys_open_ok (s : st1) : Prop :=
  (exists m, s_mem s = Some m /\ PhysInv (m_idx m)) /\ phys_disk_ok (s_disk s).

Lemma PR_disk_ok (d1 : disk1) (dp : diskp) : gdisk_rel PR d1 dp -> phys_disk_ok d1.
Proof.
  intros H. apply disk_rel_iff in H. destruct H as (_ & _ & Hi & _ & Hm & _). split.
  - intros i E. rewrite E in Hi. inversion Hi as [|a b Hab Ea Eb]; subst. exact (proj1 Hab).
  - intros i E. rewrite E in Hm. inversion Hm as [| |a b Hab Ea Eb]; subst. exact (proj1 Hab).
Qed.

Lemma PR_mem_open (s1 : st1) (sp : stp) (sf : stf) :
  gst_rel PR s1 sp -> st_rel sp sf -> s_mem sf <> None ->
  exists m, s_mem s1 = Some m /\ PhysInv (m_idx m).
Proof.
  intros H1 Hs Hm.
  destruct (st_rel_mem_cases idx_rel _ _ Hs) as [[_ E]|(mp & mf & Ep & _ & _)]; [congruence|].
  destruct (st_rel_mem_cases PR _ _ H1) as [[_ E]|(m1 & mp' & E1 & _ & Hr)]; [congruence|].
  exists m1. split; [exact E1|]. exact (proj1 (mem_rel_idx PR _ _ Hr)).
Qed.

Lemma PR_open_ok (s1 : st1) (sp : stp) (sf : stf) :
  gst_rel PR s1 sp -> st_rel sp sf -> s_mem sf <> None -> phys_open_ok s1.
Proof.
  intros H1 Hs Hm. split; [exact (PR_mem_open s1 sp sf H1 Hs Hm)|].
  exact (PR_disk_ok _ _ (st_rel_disk PR _ _ H1)).
Qed.

(* what the user sees of an open phys database *)
Definition answers1 (P : params) (s : st1) (ms : smap) : Prop :=
  (forall k, db_get phys_ops P k s = OVal (sget ms k)) /\
  (forall k, db_has phys_ops P k s = OBool (shas ms k)) /\
  db_count phys_ops s = ONum (scount ms) /\
  exists l, db_items phys_ops s = OItems l /\ Permutation l ms.

(* all reads of PR-related states are EQUAL (Items: the same list) *)
Theorem phys_reads P (s1 : st1) (sp : stp) :
  gst_rel PR s1 sp ->
  (forall k, db_get phys_ops P k s1 = db_get chain_ops P k sp) /\
  (forall k buf, db_get_append phys_ops P k buf s1 = db_get_append chain_ops P k buf sp) /\
  (forall k, db_has phys_ops P k s1 = db_has chain_ops P k sp) /\
  db_count phys_ops s1 = db_count chain_ops sp /\
  db_items phys_ops s1 = db_items chain_ops sp.
Proof.
  intros H.
  split; [intros k; exact (xsim_get phys_ops chain_ops PR phys_exact_sim P k s1 sp H)|].
  split; [intros k buf; exact (xsim_get_append phys_ops chain_ops PR phys_exact_sim P k buf s1 sp H)|].
  split; [intros k; exact (xsim_has phys_ops chain_ops PR phys_exact_sim P k s1 sp H)|].
  split; [exact (xsim_count phys_ops chain_ops PR phys_exact_sim s1 sp H)|].
  exact (xsim_items phys_ops chain_ops PR phys_exact_sim s1 sp H).
Qed.

Lemma answers1_of_chain P (s1 : st1) (sp : stp) ms :
  gst_rel PR s1 sp -> answers P sp ms -> answers1 P s1 ms.
Proof.
  intros H (A1 & A2 & A3 & l & A4 & A5). destruct (phys_reads P s1 sp H) as (R1 & _ & R2 & R3 & R4).
  split; [intros k; rewrite R1; apply A1|]. split; [intros k; rewrite R2; apply A2|].
  split; [rewrite R3; exact A3|]. exists l. split; [rewrite R4; exact A4|exact A5].
Qed.

Lemma answers1_meq P (s1 : st1) a b :
  NoDup (map fst a) -> NoDup (map fst b) -> meq a b -> answers1 P s1 a -> answers1 P s1 b.
Proof.
  intros Ha Hb Hq (A1 & A2 & A3 & l & A4 & A5). pose proof (meq_perm a b Ha Hb Hq) as Hp.
  split; [intros k; rewrite A1, (Hq k); reflexivity|].
  split; [intros k; rewrite A2; unfold shas; rewrite (Hq k); reflexivity|].
  split; [rewrite A3; unfold scount; rewrite (nlen_perm _ _ Hp); reflexivity|].
  exists l. split; [exact A4|]. etransitivity; eassumption.
Qed.

(* ================================================================================================ *)
(** * 1. Crash images of the phys run and of the chain run *)

Theorem phys_crash_at (d1 : disk1) (dp : diskp) t1 tp n cut :
  gdisk_rel PR d1 dp -> Forall2 (gev_rel PR) t1 tp ->
  opt_rel (gdisk_rel PR) (gcrash_at phys_ops d1 t1 n cut) (gcrash_at chain_ops dp tp n cut).
Proof. intros Hd Ht. exact (crash_at_g phys_ops chain_ops PR PR_empty t1 tp Ht d1 dp n cut Hd). Qed.

Theorem phys_crash_image (d1 : disk1) (dp : diskp) t1 tp :
  gdisk_rel PR d1 dp -> Forall2 (gev_rel PR) t1 tp ->
  (forall img1, gcrash_image phys_ops d1 t1 img1 ->
     exists imgp, gcrash_image chain_ops dp tp imgp /\ gdisk_rel PR img1 imgp) /\
  (forall imgp, gcrash_image chain_ops dp tp imgp ->
     exists img1, gcrash_image phys_ops d1 t1 img1 /\ gdisk_rel PR img1 imgp).
Proof. intros Hd Ht. exact (crash_image_g phys_ops chain_ops PR PR_empty d1 dp t1 tp Hd Ht). Qed.

(* the operation started on related disks and ended in related states ([gst_rel] includes the traces) *)
Corollary phys_crash_image_st (s1 s1' : st1) (sp sp' : stp) img1 :
  gdisk_rel PR (s_disk s1) (s_disk sp) -> gst_rel PR s1' sp' ->
  gcrash_image phys_ops (s_disk s1) (s_trace s1') img1 ->
  exists imgp, gcrash_image chain_ops (s_disk sp) (s_trace sp') imgp /\ gdisk_rel PR img1 imgp.
Proof.
  intros Hd Hs' H.
  exact (proj1 (phys_crash_image _ _ _ _ Hd (st_rel_trace PR _ _ Hs')) img1 H).
Qed.

(* three layers: phys images against the crash images of DBProofsCrash.v *)
Theorem phys_crash_image_flat (d1 : disk1) (dp : diskp) (df : diskf) t1 tp tf :
  gdisk_rel PR d1 dp -> disk_rel dp df -> Forall2 (gev_rel PR) t1 tp -> Forall2 ev_rel tp tf ->
  (forall img1, gcrash_image phys_ops d1 t1 img1 ->
     exists imgp imgf, gcrash_image chain_ops dp tp imgp /\ crash_image df tf imgf /\
                       gdisk_rel PR img1 imgp /\ disk_rel imgp imgf) /\
  (forall imgf, crash_image df tf imgf ->
     exists img1 imgp, gcrash_image phys_ops d1 t1 img1 /\ gcrash_image chain_ops dp tp imgp /\
                       gdisk_rel PR img1 imgp /\ disk_rel imgp imgf).
Proof.
  intros H1 Hd Ht1 Ht.
  destruct (phys_crash_image d1 dp t1 tp H1 Ht1) as [A1 B1].
  destruct (sim_crash_image dp df tp tf Hd Ht) as [A2 B2].
  split.
  - intros img1 H. destruct (A1 img1 H) as (imgp & Hp & Hr1). destruct (A2 imgp Hp) as (imgf & Hf & Hr2).
    exists imgp, imgf. split; [exact Hp|]. split; [exact Hf|]. split; [exact Hr1|exact Hr2].
  - intros imgf H. destruct (B2 imgf H) as (imgp & Hp & Hr2). destruct (B1 imgp Hp) as (img1 & H1' & Hr1).
    exists img1, imgp. split; [exact H1'|]. split; [exact Hp|]. split; [exact Hr1|exact Hr2].
Qed.

(* whatever the instant of the crash (inside a record write too): the index files of the image hold
   values that satisfy the physical invariant *)
Corollary phys_crash_image_inv (s1 s1' : st1) (sp sp' : stp) img1 :
  gdisk_rel PR (s_disk s1) (s_disk sp) -> gst_rel PR s1' sp' ->
  gcrash_image phys_ops (s_disk s1) (s_trace s1') img1 -> phys_disk_ok img1.
Proof.
  intros Hd Hs' H. destruct (phys_crash_image_st s1 s1' sp sp' img1 Hd Hs' H) as (imgp & _ & Hr).
  exact (PR_disk_ok img1 imgp Hr).
Qed.

(* ================================================================================================ *)
(** * 2. Open on an image *)

Lemma ff_ok_chain_img (imgp : diskp) (imgf : diskf) : disk_rel imgp imgf -> DiskOK imgf -> ff_ok imgp.
Proof.
  intros Hd Hok. apply (proj2 (ff_ok_rel idx_rel imgp imgf Hd)). apply ff_ok_of_DiskOK. exact Hok.
Qed.

(* both paths of Open (DBSimExact.xsim_open); the side condition concerns the segment files only *)
Theorem phys_open_image P seed (img1 : disk1) (imgp : diskp) :
  gdisk_rel PR img1 imgp -> ff_ok imgp ->
  so_rel PR (db_open phys_ops P seed (closed1 img1)) (db_open chain_ops P seed (closedp imgp)).
Proof.
  intros Hd Hff.
  exact (xsim_open phys_ops chain_ops PR phys_exact_sim P seed (closed1 img1) (closedp imgp)
           (closed1_rel img1 imgp Hd) Hff).
Qed.

(* no lock file (Close had finished): no side condition *)
Theorem phys_open_clean_image P seed (img1 : disk1) (imgp : diskp) :
  gdisk_rel PR img1 imgp -> d_lock imgp = false ->
  so_rel PR (db_open phys_ops P seed (closed1 img1)) (db_open chain_ops P seed (closedp imgp)).
Proof.
  intros Hd Hl.
  exact (open_clean_g phys_ops chain_ops PR PR_empty PR_count P seed (closed1 img1) (closedp imgp)
           (closed1_rel img1 imgp Hd) Hl).
Qed.

(* three layers: what the flat theorems give is enough *)
Theorem phys_open_image_flat P seed (img1 : disk1) (imgp : diskp) (imgf : diskf) :
  gdisk_rel PR img1 imgp -> disk_rel imgp imgf -> (d_lock imgf = true -> DiskOK imgf) ->
  so_rel PR (db_open phys_ops P seed (closed1 img1)) (db_open chain_ops P seed (closedp imgp)).
Proof.
  intros H1 Hd Hok. destruct (d_lock imgf) eqn:El.
  - apply phys_open_image; [exact H1|]. exact (ff_ok_chain_img imgp imgf Hd (Hok eq_refl)).
  - apply phys_open_clean_image; [exact H1|]. rewrite (d_lock_g idx_rel _ _ Hd). exact El.
Qed.

(* recovery of the phys database from an image related (through a chain image) to a recoverable flat
   image: the index stored in the image plays no role, it is rebuilt from the log *)
Theorem phys_recover_image P seed (img1 : disk1) (imgp : diskp) (imgf : diskf) :
  params_ok P -> gdisk_rel PR img1 imgp -> disk_rel imgp imgf ->
  DiskOK imgf -> bac_ok imgf -> d_lock imgf = true ->
  exists s2 sp2 sf2,
    db_open phys_ops P seed (closed1 img1) = (s2, OOpened true) /\
    db_open chain_ops P seed (closedp imgp) = (sp2, OOpened true) /\
    db_open flat_ops P seed (closed imgf) = (sf2, OOpened true) /\
    gst_rel PR s2 sp2 /\ st_rel sp2 sf2 /\ Inv P sf2 /\ MetaOK sf2 /\ s_mem sf2 <> None /\
    bac_ok (s_disk sf2) /\ meq (abs (s_disk sf2)) (abs imgf) /\
    phys_open_ok s2 /\ answers P sp2 (abs imgf) /\ answers1 P s2 (abs imgf).
Proof.
  intros HP H1 Hd Hok Hbac Hlock.
  destruct (chain_recover_image P seed imgp imgf HP Hd Hok Hbac Hlock)
    as (sp2 & sf2 & Ep & Ef & Hs2 & HI2 & HM2 & Hm2 & Hb2 & Ha2 & Hans).
  destruct (phys_open_image P seed img1 imgp H1 (ff_ok_chain_img imgp imgf Hd Hok)) as [Eo H2].
  rewrite Ep in Eo, H2. destruct (db_open phys_ops P seed (closed1 img1)) as [s2 o2].
  cbn [fst snd] in Eo, H2. subst o2.
  exists s2, sp2, sf2. split; [reflexivity|]. split; [exact Ep|]. split; [exact Ef|].
  split; [exact H2|]. split; [exact Hs2|]. split; [exact HI2|]. split; [exact HM2|]. split; [exact Hm2|].
  split; [exact Hb2|]. split; [exact Ha2|].
  split; [exact (PR_open_ok s2 sp2 sf2 H2 Hs2 Hm2)|]. split; [exact Hans|].
  exact (answers1_of_chain P s2 sp2 (abs imgf) H2 Hans).
Qed.

(* ================================================================================================ *)
(** * 3. A crash during an operation, then Open *)

(* the engine: an operation that ran on related states of the three layers; every crash image of the
   flat run is recoverable and satisfies [Q]; then every crash image of the PHYS run recovers, to a
   state related to the recovered chain and flat states, and answers as the flat image's contents say *)
Theorem phys_crash_recover_ok P seed (Q : diskf -> Prop)
        (s1 s1' : st1) (sp sp' : stp) (sf sf' : stf) img1 :
  params_ok P ->
  gdisk_rel PR (s_disk s1) (s_disk sp) -> gst_rel PR s1' sp' ->
  disk_rel (s_disk sp) (s_disk sf) -> st_rel sp' sf' ->
  (forall imgf, crash_image (s_disk sf) (s_trace sf') imgf ->
     DiskOK imgf /\ bac_ok imgf /\ d_lock imgf = true /\ Q imgf) ->
  gcrash_image phys_ops (s_disk s1) (s_trace s1') img1 ->
  exists imgp imgf s2 sp2 sf2,
    gcrash_image chain_ops (s_disk sp) (s_trace sp') imgp /\ gdisk_rel PR img1 imgp /\
    crash_image (s_disk sf) (s_trace sf') imgf /\ disk_rel imgp imgf /\ Q imgf /\
    db_open phys_ops P seed (closed1 img1) = (s2, OOpened true) /\
    db_open chain_ops P seed (closedp imgp) = (sp2, OOpened true) /\
    db_open flat_ops P seed (closed imgf) = (sf2, OOpened true) /\
    gst_rel PR s2 sp2 /\ st_rel sp2 sf2 /\ Inv P sf2 /\ MetaOK sf2 /\ s_mem sf2 <> None /\
    bac_ok (s_disk sf2) /\ meq (abs (s_disk sf2)) (abs imgf) /\
    phys_open_ok s2 /\ answers P sp2 (abs imgf) /\ answers1 P s2 (abs imgf).
Proof.
  intros HP Hd1 Hs1' Hd Hs' Hall Himg.
  destruct (phys_crash_image_st s1 s1' sp sp' img1 Hd1 Hs1' Himg) as (imgp & Hp & Hrel1).
  destruct (sim_crash_image_st sp sp' sf sf' imgp Hd Hs' Hp) as (imgf & Hf & Hrel).
  destruct (Hall imgf Hf) as (G1 & G2 & G3 & HQ).
  destruct (phys_recover_image P seed img1 imgp imgf HP Hrel1 Hrel G1 G2 G3) as (s2 & sp2 & sf2 & H).
  exists imgp, imgf, s2, sp2, sf2.
  split; [exact Hp|]. split; [exact Hrel1|]. split; [exact Hf|]. split; [exact Hrel|]. split; [exact HQ|exact H].
Qed.

(* C03, Put: the recovered phys database answers like the map BEFORE the Put or AFTER it *)
Theorem phys_crash_put P seed (s1 s1' : st1) (sp : stp) (sf : stf) k v o img1 :
  params_ok P -> gst_rel PR s1 sp -> st_rel sp sf -> Inv P sf ->
  (exists m, s_mem sf = Some m /\ room m) -> bac_ok (s_disk sf) ->
  Forall byte k -> Forall byte v -> nlen k <= max_key_len -> nlen v <= max_val_len ->
  db_put phys_ops P k v (clear_trace s1) = (s1', o) ->
  gcrash_image phys_ops (s_disk s1) (s_trace s1') img1 ->
  let sp' := fst (db_put chain_ops P k v (clear_trace sp)) in
  let sf' := fst (db_put flat_ops P k v (clear_trace sf)) in
  gst_rel PR s1' sp' /\ st_rel sp' sf' /\
  exists imgp imgf s2 sp2 sf2,
    gdisk_rel PR img1 imgp /\ disk_rel imgp imgf /\ before_or_after (s_disk sf) (s_disk sf') imgf /\
    db_open phys_ops P seed (closed1 img1) = (s2, OOpened true) /\
    db_open chain_ops P seed (closedp imgp) = (sp2, OOpened true) /\
    gst_rel PR s2 sp2 /\ st_rel sp2 sf2 /\ Inv P sf2 /\ s_mem sf2 <> None /\ phys_open_ok s2 /\
    (answers1 P s2 (abs (s_disk sf)) \/ answers1 P s2 (sput (abs (s_disk sf)) k v)).
Proof.
  intros HP H1 Hs HI Hroom Hbac Hbk Hbv Hk Hv Eput Himg. cbv zeta.
  pose proof (clear_trace_rel PR _ _ H1) as H1c.
  assert (Hsz : sizes_ok (clear_trace sp)) by exact (proj1 (xok_chain_of_flat P sp sf Hs HI Hroom)).
  destruct (xsim_put phys_ops chain_ops PR phys_exact_sim P k v (clear_trace s1) (clear_trace sp) H1c Hsz)
    as [_ H1'].
  rewrite Eput in H1'. cbn [fst] in H1'.
  destruct (db_put chain_ops P k v (clear_trace sp)) as [sp' op] eqn:Ec. cbn [fst] in H1' |- *.
  pose proof (clear_trace_rel idx_rel _ _ Hs) as Hsc.
  destruct (sim_put_so P (clear_trace sp) (clear_trace sf) k v Hsc (Inv_clear P sf HI) Hroom Hbk Hbv Hk Hv)
    as [_ Hs']. rewrite Ec in Hs'. cbn [fst] in Hs'.
  destruct (flat_put_abs P (clear_trace sf) k v HP (Inv_clear P sf HI) Hroom Hbk Hbv Hk Hv)
    as (sf' & Ef & _ & _ & Eabs).
  rewrite Ef in Hs' |- *. cbn [fst] in Hs' |- *. cbn [clear_trace s_disk] in Eabs.
  split; [exact H1'|]. split; [exact Hs'|].
  destruct (phys_crash_recover_ok P seed (before_or_after (s_disk sf) (s_disk sf')) s1 s1' sp sp' sf sf' img1 HP
              (st_rel_disk PR _ _ H1) H1' (st_rel_disk idx_rel _ _ Hs) Hs')
    as (imgp & imgf & s2 & sp2 & sf2 & _ & Hr1 & _ & Hrel & HQ & E1 & E2 & _ & H2 & Hs2 & HI2 & _ & Hm2 & _ & _ & Hpo & _ & Hans).
  - intros imgf Hf.
    destruct (crash_put P sf sf' k v OOk HP HI Hroom Hbac Hbk Hbv Hk Hv) with (img := imgf)
      as (G1 & G2 & G3 & Hc); [exact Ef|exact Hf|].
    split; [exact G1|]. split; [exact G2|]. split; [exact G3|]. exact Hc.
  - exact Himg.
  - exists imgp, imgf, s2, sp2, sf2. split; [exact Hr1|]. split; [exact Hrel|]. split; [exact HQ|].
    split; [exact E1|]. split; [exact E2|]. split; [exact H2|]. split; [exact Hs2|]. split; [exact HI2|].
    split; [exact Hm2|]. split; [exact Hpo|].
    destruct HQ as [HQ|HQ]; [left|right].
    + apply (answers1_meq P s2 (abs imgf) _ (abs_NoDup _) (abs_NoDup _) HQ). exact Hans.
    + rewrite <- Eabs. apply (answers1_meq P s2 (abs imgf) _ (abs_NoDup _) (abs_NoDup _) HQ). exact Hans.
Qed.

(* C03, Delete *)
Theorem phys_crash_delete P seed (s1 s1' : st1) (sp : stp) (sf : stf) k o img1 :
  params_ok P -> gst_rel PR s1 sp -> st_rel sp sf -> Inv P sf ->
  (exists m, s_mem sf = Some m /\ room m) -> bac_ok (s_disk sf) -> Forall byte k ->
  db_delete phys_ops P k (clear_trace s1) = (s1', o) ->
  gcrash_image phys_ops (s_disk s1) (s_trace s1') img1 ->
  let sp' := fst (db_delete chain_ops P k (clear_trace sp)) in
  let sf' := fst (db_delete flat_ops P k (clear_trace sf)) in
  gst_rel PR s1' sp' /\ st_rel sp' sf' /\
  exists imgp imgf s2 sp2 sf2,
    gdisk_rel PR img1 imgp /\ disk_rel imgp imgf /\ before_or_after (s_disk sf) (s_disk sf') imgf /\
    db_open phys_ops P seed (closed1 img1) = (s2, OOpened true) /\
    db_open chain_ops P seed (closedp imgp) = (sp2, OOpened true) /\
    gst_rel PR s2 sp2 /\ st_rel sp2 sf2 /\ Inv P sf2 /\ s_mem sf2 <> None /\ phys_open_ok s2 /\
    (answers1 P s2 (abs (s_disk sf)) \/ answers1 P s2 (sdel (abs (s_disk sf)) k)).
Proof.
  intros HP H1 Hs HI Hroom Hbac Hbk Edel Himg. cbv zeta.
  pose proof (clear_trace_rel PR _ _ H1) as H1c.
  destruct (xsim_delete phys_ops chain_ops PR phys_exact_sim P k (clear_trace s1) (clear_trace sp) H1c)
    as [_ H1'].
  rewrite Edel in H1'. cbn [fst] in H1'.
  destruct (db_delete chain_ops P k (clear_trace sp)) as [sp' op] eqn:Ec. cbn [fst] in H1' |- *.
  pose proof (clear_trace_rel idx_rel _ _ Hs) as Hsc.
  destruct (sim_delete_so P (clear_trace sp) (clear_trace sf) k Hsc (Inv_clear P sf HI)) as [_ Hs'].
  rewrite Ec in Hs'. cbn [fst] in Hs'.
  destruct (flat_delete_abs P (clear_trace sf) k HP (Inv_clear P sf HI) Hroom) as (sf' & Ef & _ & _ & Eabs).
  rewrite Ef in Hs' |- *. cbn [fst] in Hs' |- *. cbn [clear_trace s_disk] in Eabs.
  split; [exact H1'|]. split; [exact Hs'|].
  destruct (phys_crash_recover_ok P seed (before_or_after (s_disk sf) (s_disk sf')) s1 s1' sp sp' sf sf' img1 HP
              (st_rel_disk PR _ _ H1) H1' (st_rel_disk idx_rel _ _ Hs) Hs')
    as (imgp & imgf & s2 & sp2 & sf2 & _ & Hr1 & _ & Hrel & HQ & E1 & E2 & _ & H2 & Hs2 & HI2 & _ & Hm2 & _ & _ & Hpo & _ & Hans).
  - intros imgf Hf.
    destruct (crash_delete P sf sf' k OOk HP HI Hroom Hbac Hbk) with (img := imgf)
      as (G1 & G2 & G3 & Hc); [exact Ef|exact Hf|].
    split; [exact G1|]. split; [exact G2|]. split; [exact G3|]. exact Hc.
  - exact Himg.
  - exists imgp, imgf, s2, sp2, sf2. split; [exact Hr1|]. split; [exact Hrel|]. split; [exact HQ|].
    split; [exact E1|]. split; [exact E2|]. split; [exact H2|]. split; [exact Hs2|]. split; [exact HI2|].
    split; [exact Hm2|]. split; [exact Hpo|].
    destruct HQ as [HQ|HQ]; [left|right].
    + apply (answers1_meq P s2 (abs imgf) _ (abs_NoDup _) (abs_NoDup _) HQ). exact Hans.
    + rewrite <- Eabs. apply (answers1_meq P s2 (abs imgf) _ (abs_NoDup _) (abs_NoDup _) HQ). exact Hans.
Qed.

(* the common conclusion of the operations that do not change the contents *)
Definition recovers_unchanged (P : params) (seed : N) (b : bool) (img1 : disk1) (ms : smap) : Prop :=
  exists imgp imgf s2 sp2 sf2,
    gdisk_rel PR img1 imgp /\ disk_rel imgp imgf /\
    db_open phys_ops P seed (closed1 img1) = (s2, OOpened b) /\
    db_open chain_ops P seed (closedp imgp) = (sp2, OOpened b) /\
    gst_rel PR s2 sp2 /\ st_rel sp2 sf2 /\ Inv P sf2 /\ s_mem sf2 <> None /\ phys_open_ok s2 /\
    answers1 P s2 ms.

(* from the engine, for Q = "contents unchanged" *)
Lemma recovers_unchanged_engine P seed (s1 s1' : st1) (sp sp' : stp) (sf sf' : stf) img1 ms :
  params_ok P ->
  gdisk_rel PR (s_disk s1) (s_disk sp) -> gst_rel PR s1' sp' ->
  disk_rel (s_disk sp) (s_disk sf) -> st_rel sp' sf' ->
  (forall imgf, crash_image (s_disk sf) (s_trace sf') imgf ->
     DiskOK imgf /\ bac_ok imgf /\ d_lock imgf = true /\ meq (abs imgf) ms) ->
  NoDup (map fst ms) ->
  gcrash_image phys_ops (s_disk s1) (s_trace s1') img1 ->
  recovers_unchanged P seed true img1 ms.
Proof.
  intros HP Hd1 Hs1' Hd Hs' Hall Hnd Himg.
  destruct (phys_crash_recover_ok P seed (fun img => meq (abs img) ms) s1 s1' sp sp' sf sf' img1 HP
              Hd1 Hs1' Hd Hs' Hall Himg)
    as (imgp & imgf & s2 & sp2 & sf2 & _ & Hr1 & _ & Hrel & HQ & E1 & E2 & _ & H2 & Hs2 & HI2 & _ & Hm2 & _ & _ & Hpo & _ & Hans).
  exists imgp, imgf, s2, sp2, sf2. split; [exact Hr1|]. split; [exact Hrel|]. split; [exact E1|].
  split; [exact E2|]. split; [exact H2|]. split; [exact Hs2|]. split; [exact HI2|]. split; [exact Hm2|].
  split; [exact Hpo|].
  apply (answers1_meq P s2 (abs imgf) ms (abs_NoDup _) Hnd HQ). exact Hans.
Qed.

(* C03, Sync: no image differs from the disk before *)
Theorem phys_crash_sync P seed (s1 s1' : st1) (sp : stp) (sf : stf) o img1 :
  params_ok P -> gst_rel PR s1 sp -> st_rel sp sf -> Inv P sf -> s_mem sf <> None -> bac_ok (s_disk sf) ->
  db_sync phys_ops (clear_trace s1) = (s1', o) ->
  gcrash_image phys_ops (s_disk s1) (s_trace s1') img1 ->
  recovers_unchanged P seed true img1 (abs (s_disk sf)).
Proof.
  intros HP H1 Hs HI Hm Hbac Es Himg.
  pose proof (clear_trace_rel PR _ _ H1) as H1c.
  destruct (xsim_sync phys_ops chain_ops PR phys_exact_sim (clear_trace s1) (clear_trace sp) H1c) as [_ H1'].
  rewrite Es in H1'. cbn [fst] in H1'.
  destruct (db_sync chain_ops (clear_trace sp)) as [sp' op] eqn:Ec. cbn [fst] in H1'.
  pose proof (clear_trace_rel idx_rel _ _ Hs) as Hsc.
  destruct (sync_rel idx_rel chain_ops flat_ops idx_rel_empty _ _ Hsc) as [_ Hs'].
  rewrite Ec in Hs'. cbn [fst] in Hs'.
  destruct (db_sync flat_ops (clear_trace sf)) as [sf' of] eqn:Ef. cbn [fst] in Hs'.
  apply (recovers_unchanged_engine P seed s1 s1' sp sp' sf sf' img1 (abs (s_disk sf)) HP
           (st_rel_disk PR _ _ H1) H1' (st_rel_disk idx_rel _ _ Hs) Hs'); [|apply abs_NoDup|exact Himg].
  intros imgf Hf. destruct (crash_sync P sf sf' of HI Hm Hbac Ef imgf Hf) as (G1 & G2 & G3 & Hc & _).
  split; [exact G1|]. split; [exact G2|]. split; [exact G3|exact Hc].
Qed.

Lemma xcstep_more_inv (s1' : st1) c' (x : @cstep pindex) :
  xcstep_rel PR (CMore s1' c') x -> exists sp', x = CMore sp' c' /\ gst_rel PR s1' sp'.
Proof.
  intros H. inversion H as [|a b cc Hab Ea Eb|]; subst. exists b. split; [reflexivity|exact Hab].
Qed.

(* C03, one critical section of Compact: the contents never change *)
Theorem phys_crash_compact_step P seed (s1 s1' : st1) (sp : stp) (sf : stf) c c' img1 :
  params_ok P -> gst_rel PR s1 sp -> st_rel sp sf -> Inv P sf -> CInv sf c ->
  (exists m, s_mem sf = Some m /\ room m) -> bac_ok (s_disk sf) ->
  compact_step phys_ops P (clear_trace s1) c = CMore s1' c' ->
  gcrash_image phys_ops (s_disk s1) (s_trace s1') img1 ->
  recovers_unchanged P seed true img1 (abs (s_disk sf)).
Proof.
  intros HP H1 Hs HI HC Hroom Hbac Ec1 Himg.
  pose proof (clear_trace_rel PR _ _ H1) as H1c.
  assert (Hx : xok (clear_trace sp)) by exact (xok_chain_of_flat P sp sf Hs HI Hroom).
  pose proof (xsim_compact_step phys_ops chain_ops PR phys_exact_sim P (clear_trace s1) (clear_trace sp) c H1c Hx)
    as Hst1.
  rewrite Ec1 in Hst1. destruct (xcstep_more_inv s1' c' _ Hst1) as (sp' & Ec & H1').
  pose proof (clear_trace_rel idx_rel _ _ Hs) as Hsc.
  pose proof (sim_compact_step P (clear_trace sp) (clear_trace sf) c Hsc (Inv_clear P sf HI)) as Hstep.
  rewrite Ec in Hstep.
  destruct (compact_step flat_ops P (clear_trace sf) c) as [|sf' cf'|w] eqn:Ef; inversion Hstep; subst.
  assert (Hs' : st_rel sp' sf') by assumption.
  apply (recovers_unchanged_engine P seed s1 s1' sp sp' sf sf' img1 (abs (s_disk sf)) HP
           (st_rel_disk PR _ _ H1) H1' (st_rel_disk idx_rel _ _ Hs) Hs'); [|apply abs_NoDup|exact Himg].
  intros imgf Hf. exact (crash_compact_step P sf c sf' _ HI HC Hroom Hbac Ef imgf Hf).
Qed.

(* C03, pickForCompaction: only Sync events *)
Theorem phys_crash_compact_pick P seed (s1 s1' : st1) (sp : stp) (sf : stf) c img1 :
  params_ok P -> gst_rel PR s1 sp -> st_rel sp sf -> Inv P sf -> s_mem sf <> None -> bac_ok (s_disk sf) ->
  compact_pick phys_ops P (clear_trace s1) = Some (s1', c) ->
  gcrash_image phys_ops (s_disk s1) (s_trace s1') img1 ->
  recovers_unchanged P seed true img1 (abs (s_disk sf)).
Proof.
  intros HP H1 Hs HI Hm Hbac Ec1 Himg.
  pose proof (clear_trace_rel PR _ _ H1) as H1c.
  pose proof (xsim_compact_pick phys_ops chain_ops PR phys_exact_sim P (clear_trace s1) (clear_trace sp) H1c) as Hp1.
  rewrite Ec1 in Hp1.
  destruct (compact_pick chain_ops P (clear_trace sp)) as [[sp' cp]|] eqn:Ec; unfold pick_res_rel in Hp1;
    [|contradiction].
  destruct Hp1 as [H1' _].
  pose proof (clear_trace_rel idx_rel _ _ Hs) as Hsc.
  pose proof (compact_pick_rel idx_rel chain_ops flat_ops idx_rel_empty P _ _ Hsc) as Hp.
  rewrite Ec in Hp.
  destruct (compact_pick flat_ops P (clear_trace sf)) as [[sf' cf]|] eqn:Ef; unfold pick_res_rel in Hp;
    [|contradiction].
  destruct Hp as [Hs' _].
  apply (recovers_unchanged_engine P seed s1 s1' sp sp' sf sf' img1 (abs (s_disk sf)) HP
           (st_rel_disk PR _ _ H1) H1' (st_rel_disk idx_rel _ _ Hs) Hs'); [|apply abs_NoDup|exact Himg].
  intros imgf Hf. destruct (crash_compact_pick P sf sf' cf HI Hm Hbac Ef) as (_ & _ & H).
  destruct (H imgf Hf) as (_ & G1 & G2 & G3 & Hc). split; [exact G1|]. split; [exact G2|]. split; [exact G3|exact Hc].
Qed.

(* C04: a crash during the recovery itself; the next recovery succeeds with the same contents *)
Theorem phys_crash_open_recover P seed seed2 (d1 : disk1) (dp : diskp) (df : diskf) img1 :
  params_ok P -> gdisk_rel PR d1 dp -> disk_rel dp df -> DiskOK df -> bac_ok df -> d_lock df = true ->
  gcrash_image phys_ops d1 (s_trace (fst (db_open phys_ops P seed (closed1 d1)))) img1 ->
  recovers_unchanged P seed2 true img1 (abs df).
Proof.
  intros HP H1 Hd Hok Hbac Hlock Himg.
  destruct (phys_open_image P seed d1 dp H1 (ff_ok_chain_img dp df Hd Hok)) as [_ H1'].
  destruct (sim_open_recover_so P seed (closedp dp) (closed df) (closed_rel dp df Hd) Hok Hbac Hlock) as [_ Hs'].
  apply (recovers_unchanged_engine P seed2 (closed1 d1) _ (closedp dp) _ (closed df) _ img1 (abs df) HP
           H1 H1' Hd Hs'); [|apply abs_NoDup|exact Himg].
  intros imgf Hf. exact (crash_open_recover P seed df Hok Hbac Hlock imgf Hf).
Qed.

(* C03, Close: every image opens (by recovery, or cleanly when Close had finished) with the contents
   that were there before the Close *)
Theorem phys_crash_close P seed (s1 s1a : st1) (sp : stp) (sf : stf) o img1 :
  params_ok P -> gst_rel PR s1 sp -> st_rel sp sf -> Inv P sf -> s_mem sf <> None -> bac_ok (s_disk sf) ->
  db_close phys_ops (clear_trace s1) = (s1a, o) ->
  gcrash_image phys_ops (s_disk s1) (s_trace s1a) img1 ->
  exists b, recovers_unchanged P seed b img1 (abs (s_disk sf)).
Proof.
  intros HP H1 Hs HI Hm Hbac Ec1 Himg.
  pose proof (clear_trace_rel PR _ _ H1) as H1c.
  destruct (xsim_close phys_ops chain_ops PR phys_exact_sim (clear_trace s1) (clear_trace sp) H1c) as [_ H1a].
  rewrite Ec1 in H1a. cbn [fst] in H1a.
  destruct (db_close chain_ops (clear_trace sp)) as [sp1 op] eqn:Ec. cbn [fst] in H1a.
  pose proof (clear_trace_rel idx_rel _ _ Hs) as Hsc.
  destruct (sim_close_so _ _ Hsc) as [_ Hs1]. rewrite Ec in Hs1. cbn [fst] in Hs1.
  destruct (db_close flat_ops (clear_trace sf)) as [sf1 of] eqn:Ef. cbn [fst] in Hs1.
  destruct (phys_crash_image_st s1 s1a sp sp1 img1 (st_rel_disk PR _ _ H1) H1a Himg) as (imgp & Hp & Hrel1).
  destruct (sim_crash_image_st sp sp1 sf sf1 imgp (st_rel_disk idx_rel _ _ Hs) Hs1 Hp) as (imgf & Hf & Hrel).
  pose proof (C03_close P seed sf sf1 of imgf HP HI Hm Hbac Ef Hf) as (sf2 & b & E2 & HI2 & Hm2 & _ & Ha2).
  pose proof (closed_rel imgp imgf Hrel) as Hcl.
  assert (Hlk : d_lock imgf = true -> DiskOK imgf /\ bac_ok imgf).
  { intros El. destruct (crash_close P sf sf1 of imgf HI Hm Hbac Ef Hf) as [(G1 & G2 & _)| E]; [split; assumption|].
    exfalso. destruct (s_mem sf) as [m|] eqn:Em; [|congruence].
    pose proof (close_ok P (clear_trace sf) m (Inv_clear P sf HI) Em) as Hc. rewrite Ef in Hc.
    destruct Hc as (_ & _ & _ & _ & Hl & _). rewrite E in El. congruence. }
  assert (Hso : so_rel idx_rel (db_open chain_ops P seed (closedp imgp)) (db_open flat_ops P seed (closed imgf))).
  { destruct (d_lock imgf) eqn:El.
    - destruct (Hlk eq_refl) as [G1 G2]. apply sim_open_recover_so; assumption.
    - apply sim_open_clean_so; [exact Hcl|exact El]. }
  assert (Hso1 : so_rel PR (db_open phys_ops P seed (closed1 img1)) (db_open chain_ops P seed (closedp imgp))).
  { apply (phys_open_image_flat P seed img1 imgp imgf Hrel1 Hrel). intros El. exact (proj1 (Hlk El)). }
  fold (closed imgf) in E2. rewrite E2 in Hso. destruct Hso as [Eo Hs2]. cbn [fst snd] in Eo, Hs2.
  destruct (db_open chain_ops P seed (closedp imgp)) as [sp2 o2] eqn:Ep2. cbn [fst snd] in Eo, Hs2. subst o2.
  destruct Hso1 as [Eo1 H2]. cbn [fst snd] in Eo1, H2.
  destruct (db_open phys_ops P seed (closed1 img1)) as [s2 o2] eqn:E12. cbn [fst snd] in Eo1, H2. subst o2.
  exists b, imgp, imgf, s2, sp2, sf2. split; [exact Hrel1|]. split; [exact Hrel|]. split; [exact E12|].
  split; [exact Ep2|]. split; [exact H2|]. split; [exact Hs2|]. split; [exact HI2|]. split; [exact Hm2|].
  split; [exact (PR_open_ok s2 sp2 sf2 H2 Hs2 Hm2)|].
  apply (answers1_of_chain P s2 sp2 _ H2).
  apply (answers_meq P sp2 (abs (s_disk sf2)) _ (abs_NoDup _) (abs_NoDup _) Ha2).
  apply (answers_of_rel P sp2 sf2 Hs2 HI2 Hm2).
Qed.

(* ================================================================================================ *)
(** * 4. Close, then Open *)

(* what Close left in the index files: main.pix (+ overflow.pix) and index.pmt are there, hold values
   that satisfy the physical invariant, and represent (through a chain index) the flat index [l] *)
Definition stored_index (d : disk1) (l : flat) : Prop :=
  exists i j ip jp, d_index d = Some i /\ d_imeta d = GOk j /\
    PR i ip /\ PR j jp /\ idx_rel ip l /\ idx_rel jp l.

Lemma stored_index_inv d l : stored_index d l -> phys_disk_ok d /\ d_index d <> None /\ d_imeta d <> GAbsent.
Proof.
  intros (i & j & ip & jp & Ei & Ej & Hi & Hj & _). split; [split|split].
  - intros x E. rewrite Ei in E. injection E as <-. exact (proj1 Hi).
  - intros x E. rewrite Ej in E. injection E as <-. exact (proj1 Hj).
  - rewrite Ei. discriminate.
  - rewrite Ej. discriminate.
Qed.

(* C02: Close, then Open: OOpened false, every answer is the one given before the Close, and the
   physical invariant holds for the index Close stored and for the reopened in-memory index *)
Theorem phys_close_reopen_ok P seed (s1 : st1) (sp : stp) (sf : stf) m :
  params_ok P -> gst_rel PR s1 sp -> st_rel sp sf -> Inv P sf -> s_mem sf = Some m -> MetaOK sf ->
  let '(s1a, o1) := db_close phys_ops s1 in
  let '(s1b, o2) := db_open phys_ops P seed (clear_trace s1a) in
  o1 = OOk /\ o2 = OOpened false /\
  answers1 P s1 (abs (s_disk sf)) /\ answers1 P s1b (abs (s_disk sf)) /\
  phys_open_ok s1 /\ s_mem s1a = None /\ stored_index (s_disk s1a) (m_idx m) /\ phys_open_ok s1b /\
  exists sp2 sf2, gst_rel PR s1b sp2 /\ st_rel sp2 sf2 /\ Inv P sf2 /\ MetaOK sf2 /\ s_mem sf2 <> None /\
                  meq (abs (s_disk sf2)) (abs (s_disk sf)).
Proof.
  intros HP H1 Hs HI Em HM.
  assert (Hopen : s_mem sf <> None) by congruence.
  pose proof (answers_of_rel P sp sf Hs HI Hopen) as Hbefore.
  destruct (xsim_close phys_ops chain_ops PR phys_exact_sim s1 sp H1) as [Eo1 H1a].
  destruct (sim_close_so sp sf Hs) as [Eo Hs1].
  pose proof (close_ok P sf m HI Em) as Hc.
  pose proof (close_reopen_ok P seed sf m HP HI Em HM) as Hr.
  destruct (db_close phys_ops s1) as [s1a o1]. destruct (db_close chain_ops sp) as [sp1 op1].
  destruct (db_close flat_ops sf) as [sf1 of1].
  cbn [fst snd] in Eo1, H1a, Eo, Hs1. destruct Hc as (-> & Hn1 & _ & _ & Hl1 & Hdi & _ & Him & _).
  subst op1 o1.
  pose proof (clear_trace_rel idx_rel _ _ Hs1) as Hs1c.
  pose proof (clear_trace_rel PR _ _ H1a) as H1ac.
  destruct (sim_open_clean_so P seed (clear_trace sp1) (clear_trace sf1) Hs1c Hl1) as [Eo2 Hs2].
  assert (Hlp : d_lock (s_disk (clear_trace sp1)) = false).
  { rewrite (d_lock_g idx_rel _ _ (st_rel_disk idx_rel _ _ Hs1c)). exact Hl1. }
  destruct (open_clean_g phys_ops chain_ops PR PR_empty PR_count P seed (clear_trace s1a) (clear_trace sp1) H1ac Hlp)
    as [Eo3 H2].
  destruct (db_open phys_ops P seed (clear_trace s1a)) as [s1b o2].
  destruct (db_open chain_ops P seed (clear_trace sp1)) as [sp2 op2].
  destruct (db_open flat_ops P seed (clear_trace sf1)) as [sf2 of2].
  cbn [fst snd] in Eo2, Hs2, Eo3, H2. destruct Hr as (-> & HI2 & Ha2 & (m2 & Em2 & _) & HM2). subst op2 o2.
  assert (Hopen2 : s_mem sf2 <> None) by congruence.
  split; [reflexivity|]. split; [reflexivity|].
  split; [exact (answers1_of_chain P s1 sp _ H1 Hbefore)|].
  split.
  { apply (answers1_of_chain P s1b sp2 _ H2).
    apply (answers_meq P sp2 (abs (s_disk sf2)) (abs (s_disk sf)) (abs_NoDup _) (abs_NoDup _) Ha2).
    apply (answers_of_rel P sp2 sf2 Hs2 HI2 Hopen2). }
  split; [exact (PR_open_ok s1 sp sf H1 Hs Hopen)|].
  split.
  { destruct (st_rel_mem_cases idx_rel _ _ Hs1) as [[Ep _]|(a & b & _ & Eb & _)]; [|congruence].
    destruct (st_rel_mem_cases PR _ _ H1a) as [[E1 _]|(a & b & _ & Eb & _)]; [exact E1|congruence]. }
  split.
  { pose proof (st_rel_disk idx_rel _ _ Hs1) as Dp. apply disk_rel_iff in Dp.
    destruct Dp as (_ & _ & Dpi & _ & Dpm & _). rewrite Hdi in Dpi. rewrite Him in Dpm.
    destruct (opt_rel_some_r _ _ _ Dpi) as (ip & Eip & Rip).
    destruct (gob_rel_ok_r _ _ _ Dpm) as (jp & Ejp & Rjp).
    pose proof (st_rel_disk PR _ _ H1a) as D1. apply disk_rel_iff in D1.
    destruct D1 as (_ & _ & D1i & _ & D1m & _). rewrite Eip in D1i. rewrite Ejp in D1m.
    destruct (opt_rel_some_r _ _ _ D1i) as (i & Ei & Ri).
    destruct (gob_rel_ok_r _ _ _ D1m) as (j & Ej & Rj).
    exists i, j, ip, jp. split; [exact Ei|]. split; [exact Ej|]. split; [exact Ri|]. split; [exact Rj|].
    split; [exact Rip|exact Rjp]. }
  split; [exact (PR_open_ok s1b sp2 sf2 H2 Hs2 Hopen2)|].
  exists sp2, sf2. split; [exact H2|]. split; [exact Hs2|]. split; [exact HI2|]. split; [exact HM2|].
  split; [exact Hopen2|exact Ha2].
Qed.

(* the same with projections instead of patterns (convenient on concrete states) *)
Corollary phys_close_reopen_ok_proj P seed (s1 : st1) (sp : stp) (sf : stf) m :
  params_ok P -> gst_rel PR s1 sp -> st_rel sp sf -> Inv P sf -> s_mem sf = Some m -> MetaOK sf ->
  let s1a := fst (db_close phys_ops s1) in
  let s1b := fst (db_open phys_ops P seed (clear_trace s1a)) in
  snd (db_close phys_ops s1) = OOk /\ snd (db_open phys_ops P seed (clear_trace s1a)) = OOpened false /\
  answers1 P s1 (abs (s_disk sf)) /\ answers1 P s1b (abs (s_disk sf)) /\
  phys_open_ok s1 /\ s_mem s1a = None /\ stored_index (s_disk s1a) (m_idx m) /\ phys_open_ok s1b /\
  exists sp2 sf2, gst_rel PR s1b sp2 /\ st_rel sp2 sf2 /\ Inv P sf2 /\ MetaOK sf2 /\ s_mem sf2 <> None /\
                  meq (abs (s_disk sf2)) (abs (s_disk sf)).
Proof.
  intros HP H1 Hs HI Em HM. cbv zeta.
  pose proof (phys_close_reopen_ok P seed s1 sp sf m HP H1 Hs HI Em HM) as H.
  destruct (db_close phys_ops s1) as [s1a o1]. cbn [fst snd].
  destruct (db_open phys_ops P seed (clear_trace s1a)) as [s1b o2]. cbn [fst snd]. exact H.
Qed.

(* ================================================================================================ *)
(** * 5. Non-vacuity: a Put on the phys database cut in the middle, then the recovering Open *)

Module PhysCrashEx.
Import SessEx.

(* Open (empty directory) and 35 Puts whose keys all hash to bucket 0: 31 slots in the main bucket,
   4 in an overflow bucket allocated at offset 512 of overflow.pix *)
Definition s1X : st1 := Eval vm_compute in lfinal phys_ops exP st0 pre_ops.
Definition s1X' : st1 := Eval vm_compute in fst (db_put phys_ops exP kX vX (clear_trace s1X)).

Lemma s1X_eq : lfinal phys_ops exP st0 pre_ops = s1X. Proof. vm_compute. reflexivity. Qed.
Lemma s1X'_eq : db_put phys_ops exP kX vX (clear_trace s1X) = (s1X', OOk). Proof. vm_compute. reflexivity. Qed.

(* the physical state is not a trivial one: an overflow bucket is in use *)
Example s1X_shape :
  exists m, s_mem s1X = Some m /\ ph_nkeys (m_idx m) = 35 /\ ph_nbuckets (m_idx m) = 1 /\
    map pb_next (ph_main (m_idx m)) = [512] /\ map (fun b => nlen (pb_live b)) (ph_over (m_idx m)) = [4] /\
    ph_free (m_idx m) = [].
Proof. eexists. split; [reflexivity|]. vm_compute. repeat split. Qed.

(* the three layers are related: the hypotheses of the theorems hold *)
Lemma X_rel1 : gst_rel PR s1X spX /\ st_rel spX sfX /\ J exP sfX.
Proof.
  destruct (phys_sessions_flat exP pre_ops st0 st0 st0 exP_ok (st0_rel PR) (st0_rel idx_rel) (J_st0 exP))
    as (_ & _ & _ & A & B & C).
  - apply lsides_b_ok. vm_compute. reflexivity.
  - rewrite s1X_eq, spX_eq in A. rewrite spX_eq, sfX_eq in B. rewrite sfX_eq in C.
    split; [exact A|]. split; [exact B|exact C].
Qed.

(* the Put emits three events: the record, the index write, the Sync of the segment (p_sync) *)
Example put_trace_shape :
  map (fun e : @fsev phys => match e with EAppend _ _ _ _ => 1 | EIndex _ => 2 | ESync (FSeg _ _) => 3 | _ => 0 end)
      (s_trace s1X') = [1; 2; 3].
Proof. vm_compute. reflexivity. Qed.

(* (a) the process dies with 5 bytes of the record in the segment file *)
Definition img1Xa : option disk1 :=
  Eval vm_compute in gcrash_at phys_ops (s_disk s1X) (s_trace s1X') 0 (Some 5).
(* (b) the process dies after the record write, before the index write *)
Definition img1Xb : option disk1 :=
  Eval vm_compute in gcrash_at phys_ops (s_disk s1X) (s_trace s1X') 1 None.

Definition nkeys_on_disk (d : disk1) : N := match d_index d with Some i => ph_nkeys i | None => 0 end.

Lemma put_hyps :
  Inv exP sfX /\ (exists m, s_mem sfX = Some m /\ room m) /\ bac_ok (s_disk sfX) /\
  Forall byte kX /\ Forall byte vX /\ nlen kX <= max_key_len /\ nlen vX <= max_val_len.
Proof.
  destruct X_rel1 as (_ & _ & HJ).
  destruct HJ as [HI HM Ho Hb|? ? _ _ _ _ E _|E _ _ _|E _];
    [|vm_compute in E; discriminate E|vm_compute in E; discriminate E|vm_compute in E; discriminate E].
  split; [exact HI|]. split; [apply ex_room; vm_compute; reflexivity|]. split; [exact Hb|].
  split; [apply ex_bytes; vm_compute; reflexivity|]. split; [apply ex_bytes; vm_compute; reflexivity|].
  split; vm_compute; discriminate.
Qed.

(* what phys_crash_put gives for an image of this Put *)
Lemma ex_put_any img1 :
  gcrash_image phys_ops (s_disk s1X) (s_trace s1X') img1 ->
  exists s2, db_open phys_ops exP 9 (closed1 img1) = (s2, OOpened true) /\ phys_open_ok s2 /\
    (answers1 exP s2 (abs (s_disk sfX)) \/ answers1 exP s2 (sput (abs (s_disk sfX)) kX vX)).
Proof.
  intros Himg. destruct X_rel1 as (H1 & Hs & _).
  destruct put_hyps as (HI & Hroom & Hb & Hbk & Hbv & Hk & Hv).
  destruct (phys_crash_put exP 9 s1X s1X' spX sfX kX vX OOk img1 exP_ok H1 Hs HI Hroom Hb Hbk Hbv Hk Hv
              s1X'_eq Himg) as (_ & _ & H).
  destruct H as (imgp & imgf & s2 & sp2 & sf2 & _ & _ & _ & E1 & _ & _ & _ & _ & _ & Hpo & Hans).
  exists s2. split; [exact E1|]. split; [exact Hpo|exact Hans].
Qed.

(* (a): a torn record.  The image is neither the disk before nor the disk after; the recovering Open
   succeeds; the Put is gone *)
Example ex_torn_put_phys :
  exists img1, img1Xa = Some img1 /\ img1 <> s_disk s1X /\ img1 <> s_disk s1X' /\
    gcrash_image phys_ops (s_disk s1X) (s_trace s1X') img1 /\
    exists s2, db_open phys_ops exP 9 (closed1 img1) = (s2, OOpened true) /\ phys_open_ok s2 /\
      (answers1 exP s2 (abs (s_disk sfX)) \/ answers1 exP s2 (sput (abs (s_disk sfX)) kX vX)) /\
      db_get phys_ops exP kX s2 = OVal None /\ db_count phys_ops s2 = ONum 35.
Proof.
  destruct img1Xa as [img1|] eqn:Ei; [|vm_compute in Ei; discriminate Ei].
  exists img1. split; [reflexivity|].
  assert (Himg : gcrash_image phys_ops (s_disk s1X) (s_trace s1X') img1)
    by (apply (gcrash_at_image phys_ops _ _ 0 (Some 5)); exact Ei).
  assert (Ep : img1 = match img1Xa with Some x => x | None => s_disk s1X end) by (rewrite Ei; reflexivity).
  split.
  { intros E. rewrite Ep in E. apply (f_equal (fun d : disk1 => map f_tail (d_segs d))) in E.
    vm_compute in E. discriminate E. }
  split.
  { intros E. rewrite Ep in E. apply (f_equal (fun d : disk1 => map f_tail (d_segs d))) in E.
    vm_compute in E. discriminate E. }
  split; [exact Himg|].
  destruct (ex_put_any img1 Himg) as (s2 & E1 & Hpo & Hans).
  exists s2. split; [exact E1|]. split; [exact Hpo|]. split; [exact Hans|].
  assert (E3 : s2 = fst (db_open phys_ops exP 9 (closed1 img1))) by (rewrite E1; reflexivity).
  rewrite E3, Ep. split; vm_compute; reflexivity.
Qed.

(* (b): the record is complete, main.pix still holds the index of before the Put (35 keys, as opposed to
   36 after the Put).  Recovery rebuilds the index from the log: the Put is there *)
Example ex_put_no_index_write :
  exists img1, img1Xb = Some img1 /\ img1 <> s_disk s1X /\ img1 <> s_disk s1X' /\
    nkeys_on_disk img1 = 35 /\ nkeys_on_disk (s_disk s1X') = 36 /\
    gcrash_image phys_ops (s_disk s1X) (s_trace s1X') img1 /\
    exists s2, db_open phys_ops exP 9 (closed1 img1) = (s2, OOpened true) /\ phys_open_ok s2 /\
      (answers1 exP s2 (abs (s_disk sfX)) \/ answers1 exP s2 (sput (abs (s_disk sfX)) kX vX)) /\
      db_get phys_ops exP kX s2 = OVal (Some vX) /\ db_count phys_ops s2 = ONum 36.
Proof.
  destruct img1Xb as [img1|] eqn:Ei; [|vm_compute in Ei; discriminate Ei].
  exists img1. split; [reflexivity|].
  assert (Himg : gcrash_image phys_ops (s_disk s1X) (s_trace s1X') img1)
    by (apply (gcrash_at_image phys_ops _ _ 1 None); exact Ei).
  assert (Ep : img1 = match img1Xb with Some x => x | None => s_disk s1X end) by (rewrite Ei; reflexivity).
  split.
  { intros E. rewrite Ep in E. apply (f_equal (fun d : disk1 => map (fun f => length (f_recs f)) (d_segs d))) in E.
    vm_compute in E. discriminate E. }
  split.
  { intros E. rewrite Ep in E. apply (f_equal nkeys_on_disk) in E. vm_compute in E. discriminate E. }
  split; [rewrite Ep; vm_compute; reflexivity|]. split; [vm_compute; reflexivity|].
  split; [exact Himg|].
  destruct (ex_put_any img1 Himg) as (s2 & E1 & Hpo & Hans).
  exists s2. split; [exact E1|]. split; [exact Hpo|]. split; [exact Hans|].
  assert (E3 : s2 = fst (db_open phys_ops exP 9 (closed1 img1))) by (rewrite E1; reflexivity).
  rewrite E3, Ep. split; vm_compute; reflexivity.
Qed.

(* Close; Open on the same state: phys_close_reopen_ok applies (MetaOK from J) *)
Example ex_close_reopen :
  let s1a := fst (db_close phys_ops s1X) in
  let s1b := fst (db_open phys_ops exP 9 (clear_trace s1a)) in
  snd (db_close phys_ops s1X) = OOk /\ snd (db_open phys_ops exP 9 (clear_trace s1a)) = OOpened false /\
  phys_open_ok s1b /\ (exists l, stored_index (s_disk s1a) l) /\ answers1 exP s1b (abs (s_disk sfX)) /\
  db_count phys_ops s1b = ONum 35.
Proof.
  destruct X_rel1 as (H1 & Hs & HJ).
  destruct HJ as [HI HM Ho Hb|? ? _ _ _ _ E _|E _ _ _|E _];
    [|vm_compute in E; discriminate E|vm_compute in E; discriminate E|vm_compute in E; discriminate E].
  assert (Em : exists m, s_mem sfX = Some m) by (eexists; reflexivity).
  destruct Em as [m Em].
  pose proof (phys_close_reopen_ok_proj exP 9 s1X spX sfX m exP_ok H1 Hs HI Em HM) as H.
  cbv zeta in H |- *. destruct H as (A & B & _ & C & _ & _ & D & E & _).
  split; [exact A|]. split; [exact B|]. split; [exact E|]. split; [exists (m_idx m); exact D|].
  split; [exact C|]. vm_compute. reflexivity.
Qed.
End PhysCrashEx.

(* ================================================================================================ *)
Print Assumptions phys_reads.
Print Assumptions phys_crash_at.
Print Assumptions phys_crash_image.
Print Assumptions phys_crash_image_flat.
Print Assumptions phys_crash_image_inv.
Print Assumptions phys_open_image.
Print Assumptions phys_open_clean_image.
Print Assumptions phys_open_image_flat.
Print Assumptions phys_recover_image.
Print Assumptions phys_crash_recover_ok.
Print Assumptions phys_crash_put.
Print Assumptions phys_crash_delete.
Print Assumptions phys_crash_sync.
Print Assumptions phys_crash_compact_step.
Print Assumptions phys_crash_compact_pick.
Print Assumptions phys_crash_close.
Print Assumptions phys_crash_open_recover.
Print Assumptions phys_close_reopen_ok.
Print Assumptions phys_close_reopen_ok_proj.
Print Assumptions PhysCrashEx.s1X_shape.
Print Assumptions PhysCrashEx.X_rel1.
Print Assumptions PhysCrashEx.ex_torn_put_phys.
Print Assumptions PhysCrashEx.ex_put_no_index_write.
Print Assumptions PhysCrashEx.ex_close_reopen.
