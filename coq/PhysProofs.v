(* PhysProofs.v -- the PHYSICAL index of Phys.v (two bucket files addressed by offset, a free list
   of overflow offsets) EXACTLY SIMULATES the bucket-chain index of Index.v ([chain_ops]), and keeps
   a physical invariant: no overflow bucket is shared, none leaks, every pointer is valid.
   Together with DBSim.v (chain index refines the flat index) the theorems about the database
   transfer to the on-disk layout of index.go / bucket.go.
   No axioms: every theorem listed under "MAIN THEOREMS" is printed "Closed under the global
   context" by the Print Assumptions at the end of the file.

   DEFINITIONS
     offs_of H          the overflow offsets of a walk (handles behind the main bucket)
     ph_chain p i       option chain: the live prefixes of the buckets the iterator sees from main
                        bucket i (None if the walk fails);  ph_offs p i: their overflow offsets
     R_phys p c         level / split / nkeys equal, ph_nbuckets p = nlen (px_chains c) = nlen
                        (ph_main p), and for every i < numBuckets: ph_chain p i = Some (px_chain c i)
     bucket_ok b        31 slots, = pad_slots (pb_live b): the live slots first (all with offset
                        <> 0, by definition of the live prefix), the rest all-zero slots
     InvW p HS          HS = the walks of all main buckets; nlen main = numBuckets; every bucket of
                        BOTH files (stale ones too) is bucket_ok; every walk succeeds;
                        Permutation (concat (map offs_of HS) ++ ph_free p) (over_offs (length over)),
                        over_offs n = [512; 1024; ...; 512*n] = all block offsets of overflow.pix
     PhysInv p          exists HS, InvW p HS
     reachable p        executable: the reachable overflow offsets, all chains in order
     phys_inv_b, phys_rel_b   executable checkers (sound AND complete)
     pb_wf / phys_wf    slot fields and next in machine range (for the byte images only)
     PhysWf p           every slot of every block of both files is slot_wf; EVERY next pointer (stale
                        blocks too) and every free-list entry is < obound p = the end of overflow.pix
                        (independent of PhysInv; preserved by all operations: section 23)

   WHAT PhysInv MEANS (theorems PhysInv_buckets, PhysInv_overflow, PhysInv_walks): the single
   Permutation clause says that "reachable overflow offsets ++ free list" enumerates every block
   of overflow.pix exactly once, hence
     - every next pointer of a reachable bucket and every free-list entry is a valid offset
       (512-aligned, 512 <= off < 512 + 512 * number of overflow buckets),
     - NoDup: no overflow bucket is reachable twice -- not from two chains (no sharing), not twice
       from one chain (acyclic; the fuel of the walk is never exhausted), not reachable and free,
     - NO LEAK: every overflow bucket of the file is reachable or free:
       nlen ph_over = nlen reachable + nlen ph_free.

   MAIN THEOREMS
     phys_empty_ok      : PhysInv (ix_empty phys_ops) /\ R_phys (ix_empty phys_ops) (ix_empty chain_ops)
     phys_get_sim       : PhysInv p -> R_phys p c -> ix_get phys_ops p h m = ix_get chain_ops c h m
     phys_put_sim       : PhysInv p -> R_phys p c -> PInv c -> sl_off sl <> 0 ->
                          snd (ix_put phys_ops grow p sl m) = snd (ix_put chain_ops grow c sl m) /\
                          R_phys (fst (ix_put phys_ops grow p sl m)) (fst (ix_put chain_ops grow c sl m)) /\
                          PhysInv (fst (ix_put phys_ops grow p sl m))          (any split policy [grow])
     phys_del_sim       : PhysInv p -> R_phys p c -> PInv c ->
                          snd (ix_del phys_ops p h m) = snd (ix_del chain_ops c h m) /\
                          R_phys (fst (ix_del phys_ops p h m)) (fst (ix_del chain_ops c h m)) /\
                          PhysInv (fst (ix_del phys_ops p h m))
     phys_repoint_sim   : PhysInv p -> R_phys p c -> PInv c -> noff <> 0 ->
                          match ix_repoint phys_ops p h seg off nseg noff,
                                ix_repoint chain_ops c h seg off nseg noff with
                          | None, None => True | Some p', Some c' => R_phys p' c' /\ PhysInv p'
                          | _, _ => False end
     phys_count_sim     : R_phys p c -> ix_count phys_ops p = ix_count chain_ops c
     phys_nbuckets_sim  : R_phys p c -> ix_nbuckets phys_ops p = ix_nbuckets chain_ops c
     phys_bucket_sim    : PhysInv p -> R_phys p c -> ix_bucket phys_ops p n = ix_bucket chain_ops c n
     phys_split_sim     : PhysInv p -> R_phys p c -> PInv c ->
                          R_phys (ph_dosplit p) (px_dosplit c) /\ PhysInv (ph_dosplit p)
     phys_split_early_free_sim, phys_put_early_free_sim : the same two theorems for the variant of
                          index.split that frees the old overflow buckets BEFORE re-inserting
     PR p c := PhysInv p /\ R_phys p c /\ PInv c  and  PR_empty, PR_get, PR_put, PR_del, PR_repoint,
       PR_count, PR_nbuckets, PR_bucket: the laws in the shape of the fields of
       DBSimExact.exact_sim phys_ops chain_ops PR (one relation preserved by every operation; PInv
       preservation from Index.v).  With DBSimExact.v imported:
         Theorem phys_exact_sim : exact_sim phys_ops chain_ops PR.
         Proof. constructor.
           - exact PR_empty.  - intros a b h m H. exact (PR_get a b h m H).
           - intros g a b sl m H Hn. exact (PR_put g a b sl m H Hn).
           - intros a b h m H. exact (PR_del a b h m H).
           - intros a b h seg off nseg noff H Hn. pose proof (PR_repoint a b h seg off nseg noff H Hn) as X.
             destruct (ix_repoint phys_ops a h seg off nseg noff);
               destruct (ix_repoint chain_ops b h seg off nseg noff); try contradiction; constructor. exact X.
           - intros a b H. exact (PR_count a b H).  - intros a b H. exact (PR_nbuckets a b H).
           - intros a b n H. exact (PR_bucket a b n H).
         Qed.                                   (checked; not included: DBSimExact.v is not a dependency)
     PhysInv_buckets, PhysInv_overflow, PhysInv_walks  (the invariant in words, see above)
     phys_inv_b_ok / phys_inv_b_complete, phys_rel_b_ok / phys_rel_b_complete
     file_bytes_length, file_bytes_decode, ph_bytes_lengths, ph_main_bytes_decode,
     ph_over_bytes_decode   (byte images: length 512 * (1 + n); the block at a bucket's offset
                             unmarshals to that bucket, under phys_wf)
     PhysWf_empty, ph_put_wf (slot_wf sl), ph_del_wf, ph_repoint_wf (nseg < 2^16, noff < 2^32),
     ph_dosplit_wf : PhysWf is preserved;  PhysWf_phys_wf : PhysInv p -> PhysWf p ->
                          obound p <= 2^64 -> phys_wf p   (so the byte images of every reachable
                          state decode, as long as overflow.pix is smaller than 2^64 bytes)
     Module PhysRun (vm_compute): s39_ok (overflow bucket), s40_ok (split frees offset 512),
       s52_ok (a later put reuses 512), sdel_ok / shole_ok (delete makes a hole, next put fills it),
       s52_bytes, z72_ok, z72_split;
       split_early_free_not_refuted, split_no_free_refuted, create_overflow_nopop_refuted.

   PROOF STRUCTURE.  [wl p i H] is the fuel-free description of a successful walk (ph_walk_wl);
   [Sim p c HS] packs PhysInv, R_phys and the common witness HS (sim_intro / sim_elim).  All
   updates go through InvW_update: chain i is replaced, chains may be appended, every other walk
   is untouched because the written addresses are disjoint from its handles (NoDup from the
   Permutation clause).  single_write (delete, promoteRecord, put into an existing slot or a hole),
   append_bucket (put into a full chain: createOverflowBucket), swr_insert_step + split_slots_inv
   + split_core / split_sim (index.split: two slot writers, allocation state threaded through the
   loop).

   DEVIATIONS FROM THE REQUESTED SHAPES / FINDINGS
     - phys_count_sim and phys_nbuckets_sim need R_phys only; phys_get_sim and phys_bucket_sim need
       no PInv (an out-of-range bucket number gives None / [] on both sides).
     - "every next is a valid offset" is stated in PhysInv for REACHABLE buckets (the Permutation
       clause).  The next field of a stale bucket on the free list is never read
       (createOverflowBucket returns a fresh zero bucket); PhysWf bounds it by the file end but its
       alignment is not tracked.  bucket_ok holds for every block of both files, stale or not.
     - bucket_ok is slightly stronger than "nothing live behind the first empty slot": the slots
       behind the live prefix are ALL-ZERO slots (bucket.del and the zero-filled new buckets
       guarantee it; put needs sl_off sl <> 0 for this).
     - FINDING (item 7a): the split variant that frees the old overflow buckets of the chain BEFORE
       re-inserting is NOT refutable -- it is CORRECT: slotWriter.write runs after the loop, so a
       bucket that is re-allocated while the iterator still has to read it is overwritten only
       after it was read.  phys_split_early_free_sim / phys_put_early_free_sim prove exact
       simulation and PhysInv for that variant in ALL states (split_core is generic in "free list
       during the loop" / "offsets freed after the loop"); split_early_free_not_refuted is a
       concrete run where the reuse happens (72 colliding slots, both old overflow buckets
       re-allocated), and z72_split shows what the real order costs: overflow.pix grows from 2 to
       4 blocks, the 2 old ones go to the free list.  So "allocate before free" in index.split is
       not needed for correctness; it only delays reuse and grows the file.  The sensitivity witness for split is instead
       split_no_free_refuted (forgetting freeOverflowBucket leaks: R_phys still holds, PhysInv fails).
     - create_overflow_nopop_refuted (item 7b): two chains link the same block, a key is lost.
     - NOT PROVED: anything about I/O errors or partially executed operations (the model has
       none); uint32 wrap-around of numKeys / numBuckets (as in Index.v). *)
From Coq Require Import ZArith Lia ZifyN ZifyNat ZifyBool Permutation.
From Pogreb Require Import Base BaseLemmas Bytes Record RecordProofs Index Bucket Phys.
Ltac Zify.zify_post_hook ::= Z.div_mod_to_equations.


(* ================================================================================================ *)
(** * 0. List helpers *)

Lemma nth_lupd_same {A} n (x d : A) l : (n < length l)%nat -> nth n (lupd n x l) d = x.
Proof.
  revert n. induction l as [|y l IH]; intros n H; cbn [length] in H; [lia|].
  destruct n as [|n]; cbn [lupd nth]; [reflexivity|]. apply IH. lia.
Qed.

Lemma lupd_nth_id {A} n (d : A) l : lupd n (nth n l d) l = l.
Proof.
  revert n. induction l as [|y l IH]; intros n; [reflexivity|].
  destruct n as [|n]; cbn [lupd nth]; [reflexivity|]. rewrite IH. reflexivity.
Qed.

Lemma nth_error_lupd_same {A} n (x : A) l : (n < length l)%nat -> nth_error (lupd n x l) n = Some x.
Proof.
  revert n. induction l as [|y l IH]; intros n H; cbn [length] in H; [lia|].
  destruct n as [|n]; cbn [lupd nth_error]; [reflexivity|]. apply IH. lia.
Qed.

Lemma nth_error_lupd_other {A} n m (x : A) l : n <> m -> nth_error (lupd n x l) m = nth_error l m.
Proof.
  revert n m. induction l as [|y l IH]; intros n m H; [reflexivity|].
  destruct n as [|n]; destruct m as [|m]; cbn [lupd nth_error]; try reflexivity; try congruence.
  apply IH. congruence.
Qed.

Lemma lupd_split {A} n (x d : A) l : (n < length l)%nat ->
  exists l1 l2, l = l1 ++ nth n l d :: l2 /\ length l1 = n /\ lupd n x l = l1 ++ x :: l2.
Proof.
  intros H. destruct (nth_split l d H) as (l1 & l2 & E & L).
  exists l1, l2. split; [exact E|]. split; [exact L|].
  rewrite E at 1. rewrite <- L. apply lupd_app_exact.
Qed.

Lemma Forall_lupd {A} (P : A -> Prop) n x l : Forall P l -> P x -> Forall P (lupd n x l).
Proof.
  intros H Hx. revert n. induction H as [|y l Hy Hl IH]; intros n; [constructor|].
  destruct n as [|n]; cbn [lupd]; constructor; auto.
Qed.

Lemma map_lupd {A B} (f : A -> B) n x l : map f (lupd n x l) = lupd n (f x) (map f l).
Proof.
  revert n. induction l as [|y l IH]; intros n; [reflexivity|].
  destruct n as [|n]; cbn [lupd map]; [reflexivity|]. rewrite IH. reflexivity.
Qed.

Lemma lupd_app_l {A} n (x : A) l1 l2 : (n < length l1)%nat -> lupd n x (l1 ++ l2) = lupd n x l1 ++ l2.
Proof.
  revert n. induction l1 as [|y l1 IH]; intros n H; cbn [length] in H; [lia|].
  destruct n as [|n]; cbn [lupd app]; [reflexivity|]. rewrite IH by lia. reflexivity.
Qed.

(* the other lists of a list of lists, as one list *)
Lemma concat_lupd_perm {A} (L : list (list A)) i : (i < length L)%nat ->
  exists R, (forall X, Permutation (concat (lupd i X L)) (X ++ R)) /\
            (forall j x, j <> i -> In x (nth j L []) -> In x R).
Proof.
  intros H. destruct (nth_split L [] H) as (l1 & l2 & E & Ln).
  exists (concat l1 ++ concat l2). split.
  - intros X. rewrite E, <- Ln, lupd_app_exact, concat_app. cbn [concat].
    rewrite app_assoc, (Permutation_app_comm (concat l1) X), <- app_assoc. reflexivity.
  - intros j x Hj Hx. rewrite E in Hx. apply in_or_app.
    destruct (Nat.lt_ge_cases j i) as [Lt|Ge].
    + left. rewrite app_nth1 in Hx by lia. apply in_concat. exists (nth j l1 []).
      split; [apply nth_In; lia|exact Hx].
    + right. rewrite app_nth2 in Hx by lia. rewrite Ln in Hx.
      destruct (j - i)%nat as [|k] eqn:Ek; [lia|]. cbn [nth] in Hx.
      destruct (Nat.lt_ge_cases k (length l2)) as [Lk|Gk].
      * apply in_concat. exists (nth k l2 []). split; [apply nth_In; exact Lk|exact Hx].
      * rewrite nth_overflow in Hx by exact Gk. destruct Hx.
Qed.

Lemma perm_length_le {A} (a b l : list A) : Permutation (a ++ b) l -> (length a <= length l)%nat.
Proof. intros H. apply Permutation_length in H. rewrite app_length in H. lia. Qed.

Lemma fold_left_concat {A B} (f : A -> B -> A) (ls : list (list B)) a :
  fold_left f (concat ls) a = fold_left (fun st l => fold_left f l st) ls a.
Proof.
  revert a. induction ls as [|l ls IH]; intros a; [reflexivity|].
  cbn [concat fold_left]. rewrite fold_left_app. apply IH.
Qed.

(* ================================================================================================ *)
(** * 1. Offsets, reading and writing a bucket file *)

Lemma off_ok_true off : off_ok off = true <-> 512 <= off /\ off mod 512 = 0.
Proof. unfold off_ok. rewrite andb_true_iff, N.leb_le, N.eqb_eq. tauto. Qed.

Lemma off_ok_bucket_off i : off_ok (bucket_off i) = true.
Proof. apply off_ok_true. unfold bucket_off. lia. Qed.

Lemma off_idx_bucket_off i : off_idx (bucket_off i) = N.to_nat i.
Proof. unfold off_idx, bucket_off. f_equal. lia. Qed.

Lemma off_ok_is_bucket_off off : off_ok off = true -> off = bucket_off (N.of_nat (off_idx off)).
Proof. intros H. apply off_ok_true in H. unfold off_idx, bucket_off. lia. Qed.

Lemma bucket_off_inj i j : bucket_off i = bucket_off j -> i = j.
Proof. unfold bucket_off. lia. Qed.

Lemma bucket_off_nz i : bucket_off i <> 0.
Proof. unfold bucket_off. lia. Qed.

Lemma pb_read_bucket_off file i : pb_read file (bucket_off i) = nth_error file (N.to_nat i).
Proof. unfold pb_read. rewrite off_ok_bucket_off, off_idx_bucket_off. reflexivity. Qed.

Lemma pb_write_bucket_off file i b : pb_write file (bucket_off i) b = lupd (N.to_nat i) b file.
Proof. unfold pb_write. rewrite off_ok_bucket_off, off_idx_bucket_off. reflexivity. Qed.

(* a successful read is at the offset of a bucket of the file *)
Lemma pb_read_some file off b : pb_read file off = Some b ->
  exists i, off = bucket_off i /\ i < nlen file /\ nth_error file (N.to_nat i) = Some b.
Proof.
  unfold pb_read. destruct (off_ok off) eqn:E; [|discriminate]. intros H.
  exists (N.of_nat (off_idx off)). split; [apply off_ok_is_bucket_off; exact E|].
  rewrite Nat2N.id. split; [|exact H].
  assert (L : (off_idx off < length file)%nat) by (apply nth_error_Some; congruence).
  rewrite nlenE. lia.
Qed.

Lemma pb_write_length file off b : length (pb_write file off b) = length file.
Proof. unfold pb_write. destruct (off_ok off); [apply lupd_length|reflexivity]. Qed.

Lemma pb_read_write_same file off b : pb_read file off <> None -> pb_read (pb_write file off b) off = Some b.
Proof.
  unfold pb_read, pb_write. destruct (off_ok off); [|congruence]. intros H.
  apply nth_error_lupd_same. apply nth_error_Some. exact H.
Qed.

Lemma pb_read_write_other file off off' b : off <> off' ->
  pb_read (pb_write file off b) off' = pb_read file off'.
Proof.
  intros Hne. unfold pb_read, pb_write. destruct (off_ok off') eqn:E'; [|reflexivity].
  destruct (off_ok off) eqn:E; [|reflexivity].
  apply nth_error_lupd_other. intros Hi. apply Hne.
  rewrite (off_ok_is_bucket_off _ E), (off_ok_is_bucket_off _ E'), Hi. reflexivity.
Qed.

Lemma pb_read_app file ext off : pb_read file off <> None -> pb_read (file ++ ext) off = pb_read file off.
Proof.
  unfold pb_read. destruct (off_ok off); [|congruence]. intros H.
  apply nth_error_app1. apply nth_error_Some. exact H.
Qed.

Lemma pb_read_app_new file b ext : pb_read (file ++ b :: ext) (bucket_off (nlen file)) = Some b.
Proof.
  rewrite pb_read_bucket_off, nlenE, Nat2N.id, nth_error_app2 by lia.
  rewrite Nat.sub_diag. reflexivity.
Qed.

Lemma pb_read_lt file off : pb_read file off <> None -> exists i, off = bucket_off i /\ i < nlen file.
Proof.
  destruct (pb_read file off) as [b|] eqn:E; [|congruence]. intros _.
  destruct (pb_read_some _ _ _ E) as (i & A & B & _). exists i. auto.
Qed.

Lemma pb_read_in_range file i : i < nlen file -> pb_read file (bucket_off i) <> None.
Proof.
  intros H. rewrite pb_read_bucket_off. apply nth_error_Some. rewrite nlenE in H. lia.
Qed.

(* all offsets of an overflow file with n buckets *)
Definition over_offs (n : nat) : list N := map (fun j => bucket_off (N.of_nat j)) (seq 0 n).

Lemma over_offs_S n : over_offs (S n) = over_offs n ++ [bucket_off (N.of_nat n)].
Proof. unfold over_offs. rewrite seq_S, map_app. reflexivity. Qed.

Lemma over_offs_length n : length (over_offs n) = n.
Proof. unfold over_offs. rewrite map_length, seq_length. reflexivity. Qed.

Lemma over_offs_NoDup n : NoDup (over_offs n).
Proof.
  unfold over_offs. apply FinFun.Injective_map_NoDup; [|apply seq_NoDup].
  intros a b H. apply bucket_off_inj in H. lia.
Qed.

Lemma over_offs_In n off : In off (over_offs n) <-> exists i, off = bucket_off i /\ i < N.of_nat n.
Proof.
  unfold over_offs. rewrite in_map_iff. split.
  - intros (j & <- & Hj). apply in_seq in Hj. exists (N.of_nat j). split; [reflexivity|lia].
  - intros (i & -> & Hi). exists (N.to_nat i). rewrite N2Nat.id. split; [reflexivity|].
    apply in_seq. lia.
Qed.

Lemma over_offs_read over off : In off (over_offs (length over)) <-> pb_read over off <> None.
Proof.
  rewrite over_offs_In. split.
  - intros (i & -> & Hi). apply pb_read_in_range. rewrite nlenE. exact Hi.
  - intros H. destruct (pb_read_lt _ _ H) as (i & -> & Hi). exists i. rewrite nlenE in Hi. auto.
Qed.

(* ================================================================================================ *)
(** * 2. The structure of a walk *)

Definition hreads (p : phys) (h : bhandle) : Prop :=
  pb_read (if bh_main h then ph_main p else ph_over p) (bh_off h) = Some (bh_b h).

Fixpoint chained (off : N) (hs : list bhandle) : Prop :=
  match hs with
  | [] => off = 0
  | h :: hs' => bh_off h = off /\ off <> 0 /\ bh_main h = false /\ chained (pb_next (bh_b h)) hs'
  end.

Definition oreads (over : list pbucket) (h : bhandle) : Prop := pb_read over (bh_off h) = Some (bh_b h).

Lemma walk_over_sound over fuel : forall off hs, walk_over over fuel off = Some hs ->
  chained off hs /\ Forall (oreads over) hs /\ (length hs <= fuel)%nat.
Proof.
  induction fuel as [|f IH]; intros off hs; cbn [walk_over];
    destruct (N.eqb_spec off 0) as [E|E].
  - intros H. injection H as <-. cbn [chained length]. auto.
  - discriminate.
  - intros H. injection H as <-. cbn [chained length]. split; [exact E|]. split; [constructor|lia].
  - destruct (pb_read over off) as [b|] eqn:Er; [|discriminate].
    destruct (walk_over over f (pb_next b)) as [l|] eqn:Ew; [|discriminate].
    intros H. injection H as <-. destruct (IH _ _ Ew) as (C & R & L).
    cbn [chained length bh_off bh_main bh_b]. split; [auto|]. split; [|lia].
    constructor; [exact Er|exact R].
Qed.

Lemma walk_over_complete over fuel : forall off hs,
  chained off hs -> Forall (oreads over) hs -> (length hs <= fuel)%nat ->
  walk_over over fuel off = Some hs.
Proof.
  induction fuel as [|f IH]; intros off hs C R L.
  - destruct hs as [|h hs]; [|cbn [length] in L; lia]. cbn [chained] in C. subst off. reflexivity.
  - destruct hs as [|h hs]; cbn [chained] in C.
    + subst off. reflexivity.
    + destruct C as (C1 & C2 & C3 & C4). inversion R as [|h_ hs_ R1 R2]; subst h_ hs_.
      cbn [walk_over]. destruct (N.eqb_spec off 0) as [E|_]; [contradiction|].
      unfold oreads in R1. rewrite C1 in R1. rewrite R1.
      rewrite (IH _ hs C4 R2) by (cbn [length] in L; lia).
      destruct h as [m o b]. cbn [bh_main bh_off bh_b] in *. subst m o. reflexivity.
Qed.

(* the walk from main bucket i is H *)
Definition wl (p : phys) (i : N) (H : list bhandle) : Prop :=
  exists h0 hs, H = h0 :: hs /\ bh_main h0 = true /\ bh_off h0 = bucket_off i /\
    chained (pb_next (bh_b h0)) hs /\ Forall (hreads p) H /\
    (length hs <= S (length (ph_over p)))%nat.

Lemma oreads_hreads p hs : Forall (fun h => bh_main h = false) hs ->
  (Forall (oreads (ph_over p)) hs <-> Forall (hreads p) hs).
Proof.
  intros H. induction H as [|h hs Hh Hhs IH]; [split; constructor|].
  split; intros F; inversion F as [|h_ hs_ F1 F2]; subst h_ hs_; constructor;
    try (apply IH; exact F2); unfold oreads, hreads in *; rewrite Hh in *; exact F1.
Qed.

Lemma chained_over off hs : chained off hs -> Forall (fun h => bh_main h = false) hs.
Proof.
  revert off. induction hs as [|h hs IH]; intros off C; [constructor|].
  cbn [chained] in C. destruct C as (_ & _ & C3 & C4). constructor; [exact C3|exact (IH _ C4)].
Qed.

Lemma ph_walk_wl p i H : ph_walk p i = Some H <-> wl p i H.
Proof.
  unfold ph_walk, wl. split.
  - destruct (pb_read (ph_main p) (bucket_off i)) as [b|] eqn:Er; [|discriminate].
    destruct (walk_over (ph_over p) (S (length (ph_over p))) (pb_next b)) as [l|] eqn:Ew; [|discriminate].
    intros E. injection E as <-. destruct (walk_over_sound _ _ _ _ Ew) as (C & R & L).
    eexists _, l. split; [reflexivity|]. cbn [bh_main bh_off bh_b].
    split; [reflexivity|]. split; [reflexivity|]. split; [exact C|]. split; [|exact L].
    constructor; [exact Er|]. apply oreads_hreads; [exact (chained_over _ _ C)|exact R].
  - intros (h0 & hs & -> & M & O & C & R & L).
    inversion R as [|h_ hs_ R1 R2]; subst h_ hs_. unfold hreads in R1. rewrite M, O in R1.
    rewrite R1. rewrite (walk_over_complete _ _ _ hs C).
    + destruct h0 as [m o b]. cbn [bh_main bh_off bh_b] in *. subst m o. reflexivity.
    + apply oreads_hreads; [exact (chained_over _ _ C)|exact R2].
    + exact L.
Qed.


(* ================================================================================================ *)
(** * 3. Slot arrays *)

Local Notation live := pb_live.
Definition hlive (h : bhandle) : list slot := pb_live (bh_b h).
Definition nz (s : slot) : Prop := sl_off s <> 0.

Lemma dense_nz l : Forall nz (Bucket.dense l).
Proof.
  induction l as [|s l IH]; cbn [Bucket.dense]; [constructor|].
  destruct (N.eqb_spec (sl_off s) 0); constructor; assumption.
Qed.

Lemma dense_length_le l : (length (Bucket.dense l) <= length l)%nat.
Proof.
  induction l as [|s l IH]; cbn [Bucket.dense length]; [lia|].
  destruct (sl_off s =? 0); cbn [length]; lia.
Qed.

Lemma dense_app_nz l r : Forall nz l -> Bucket.dense (l ++ r) = l ++ Bucket.dense r.
Proof.
  induction 1 as [|s l Hs Hl IH]; [reflexivity|]. cbn [app Bucket.dense].
  destruct (N.eqb_spec (sl_off s) 0); [contradiction|]. rewrite IH. reflexivity.
Qed.

Lemma dense_repeat_empty k : Bucket.dense (repeat empty_slot k) = [].
Proof. destruct k; reflexivity. Qed.

(* a bucket as the index keeps it: 31 slots, the live ones first, the rest zero *)
Definition bucket_ok (b : pbucket) : Prop :=
  length (pb_slots b) = 31%nat /\ pb_slots b = pad_slots (pb_live b).

Lemma pad_slots_ok d next : Forall nz d -> (length d <= 31)%nat ->
  bucket_ok {| pb_slots := pad_slots d; pb_next := next |} /\
  pb_live {| pb_slots := pad_slots d; pb_next := next |} = d.
Proof.
  intros Hd Hl. unfold bucket_ok, pb_live. cbn [pb_slots].
  rewrite (dense_pad d Hd). split; [|reflexivity]. split; [|reflexivity].
  apply length_pad_slots. exact Hl.
Qed.

Lemma bucket_ok_live_le b : bucket_ok b -> (length (pb_live b) <= 31)%nat.
Proof. intros [L _]. unfold pb_live. rewrite <- L. apply dense_length_le. Qed.

Lemma empty_pb_ok : bucket_ok empty_pb /\ pb_live empty_pb = [].
Proof. split; [split|]; reflexivity. Qed.

Lemma bucket_ok_next b n : bucket_ok b -> bucket_ok {| pb_slots := pb_slots b; pb_next := n |}.
Proof. exact (fun H => H). Qed.

(* the slot loop, against the live prefix *)
Lemma scan_spec f l : forall i,
  match scan_slots f l i with
  | ScHit j s => exists l1 r, l = l1 ++ s :: r /\ Forall nz l1 /\ nz s /\ find f l1 = None /\
                              f s = true /\ j = (i + length l1)%nat
  | ScFree j => find f (Bucket.dense l) = None /\ j = (i + length (Bucket.dense l))%nat /\
                (length (Bucket.dense l) < length l)%nat
  | ScEnd j => find f (Bucket.dense l) = None /\ Bucket.dense l = l /\ j = (i + length l)%nat
  end.
Proof.
  induction l as [|s l IH]; intros i; cbn [scan_slots Bucket.dense].
  - cbn [find length]. split; [reflexivity|]. split; [reflexivity|lia].
  - destruct (N.eqb_spec (sl_off s) 0) as [E|E].
    + cbn [find length]. split; [reflexivity|]. split; lia.
    + destruct (f s) eqn:Hf.
      * exists [], l. cbn [app find length]. repeat split; auto; try lia; constructor.
      * specialize (IH (S i)). destruct (scan_slots f l (S i)) as [j s'|j|j].
        -- destruct IH as (l1 & r & -> & N1 & N2 & F1 & F2 & ->).
           exists (s :: l1), r. cbn [app find length]. rewrite Hf.
           repeat split; auto; try lia; try (constructor; assumption).
        -- destruct IH as (F & -> & L). cbn [find length]. rewrite Hf. repeat split; auto; try lia.
        -- destruct IH as (F & D & ->). cbn [find length]. rewrite Hf, D. rewrite D in F. repeat split; auto; try lia.
Qed.

Lemma pad_slots_eq x k : (length x + k = 31)%nat -> pad_slots x = x ++ repeat empty_slot k.
Proof. intros H. unfold pad_slots, slots_per_bucket. do 2 f_equal. lia. Qed.

Lemma dense_nz_cons s r : nz s -> Bucket.dense (s :: r) = s :: Bucket.dense r.
Proof. intros H. cbn [Bucket.dense]. destruct (N.eqb_spec (sl_off s) 0); [contradiction|reflexivity]. Qed.

(* the slots behind a live slot of a well-formed bucket *)
Lemma ok_tail l1 s r next : Forall nz l1 -> nz s ->
  bucket_ok {| pb_slots := l1 ++ s :: r; pb_next := next |} ->
  exists k, r = Bucket.dense r ++ repeat empty_slot k /\ (length l1 + S (length (Bucket.dense r)) + k = 31)%nat.
Proof.
  intros N1 Ns [L E]. unfold pb_live in E. cbn [pb_slots] in *.
  rewrite (dense_app_nz _ _ N1), (dense_nz_cons _ _ Ns) in E.
  assert (Hle : (length (l1 ++ s :: Bucket.dense r) <= 31)%nat).
  { rewrite <- L, !app_length. cbn [length]. pose proof (dense_length_le r). lia. }
  exists (31 - length (l1 ++ s :: Bucket.dense r))%nat.
  rewrite (pad_slots_eq _ (31 - length (l1 ++ s :: Bucket.dense r))) in E by lia.
  rewrite <- app_assoc in E. apply app_inv_head in E. cbn [app] in E.
  split; [congruence|]. rewrite app_length in *. cbn [length] in *. lia.
Qed.

(* b.slots[i] = new on a live slot *)
Lemma set_slot_hit l1 s r new next : Forall nz l1 -> nz new ->
  bucket_ok {| pb_slots := l1 ++ s :: r; pb_next := next |} -> nz s ->
  bucket_ok {| pb_slots := lupd (length l1) new (l1 ++ s :: r); pb_next := next |} /\
  pb_live {| pb_slots := lupd (length l1) new (l1 ++ s :: r); pb_next := next |} =
    l1 ++ new :: Bucket.dense r.
Proof.
  intros N1 Nn Ok Ns. destruct (ok_tail _ _ _ _ N1 Ns Ok) as (k & Er & Lk).
  rewrite lupd_app_exact.
  assert (Hd : Forall nz (l1 ++ new :: Bucket.dense r)).
  { apply Forall_app. split; [exact N1|]. constructor; [exact Nn|apply dense_nz]. }
  assert (X : l1 ++ new :: r = pad_slots (l1 ++ new :: Bucket.dense r)).
  { rewrite (pad_slots_eq _ k) by (rewrite app_length; cbn [length]; lia).
    rewrite <- app_assoc. cbn [app]. rewrite <- Er. reflexivity. }
  rewrite X. apply pad_slots_ok; [exact Hd|]. rewrite app_length. cbn [length]. lia.
Qed.

(* b.slots[i] = new on the first free slot *)
Lemma set_slot_free b new : bucket_ok b -> (length (pb_live b) < 31)%nat -> nz new ->
  bucket_ok {| pb_slots := lupd (length (pb_live b)) new (pb_slots b); pb_next := pb_next b |} /\
  pb_live {| pb_slots := lupd (length (pb_live b)) new (pb_slots b); pb_next := pb_next b |} =
    pb_live b ++ [new].
Proof.
  intros [L E] Hl Hn.
  assert (Hd : Forall nz (pb_live b ++ [new])).
  { apply Forall_app. split; [apply dense_nz|]. constructor; [exact Hn|constructor]. }
  assert (X : lupd (length (pb_live b)) new (pb_slots b) = pad_slots (pb_live b ++ [new])).
  { rewrite E. unfold pad_slots, slots_per_bucket.
    destruct (31 - length (pb_live b))%nat as [|k] eqn:Ek; [lia|].
    cbn [repeat]. rewrite lupd_app_exact, <- app_assoc. cbn [app]. f_equal. f_equal.
    rewrite app_length. cbn [length]. f_equal. lia. }
  rewrite X. apply pad_slots_ok; [exact Hd|]. rewrite app_length. cbn [length]. lia.
Qed.

Lemma del_slot_app l1 s r : del_slot (length l1) (l1 ++ s :: r) = l1 ++ r ++ [empty_slot].
Proof. induction l1 as [|a l1 IH]; cbn [length app del_slot]; [reflexivity|]. rewrite IH. reflexivity. Qed.

Lemma dense_app_empty r : Bucket.dense (r ++ [empty_slot]) = Bucket.dense r.
Proof.
  induction r as [|a r IH]; [reflexivity|]. cbn [app Bucket.dense].
  destruct (sl_off a =? 0); [reflexivity|]. rewrite IH. reflexivity.
Qed.

Lemma repeat_snoc {A} (x : A) k : repeat x k ++ [x] = x :: repeat x k.
Proof. induction k as [|k IH]; [reflexivity|]. cbn [repeat app]. rewrite IH. reflexivity. Qed.

(* bucket.del *)
Lemma del_slot_hit l1 s r next : Forall nz l1 -> nz s ->
  bucket_ok {| pb_slots := l1 ++ s :: r; pb_next := next |} ->
  bucket_ok {| pb_slots := del_slot (length l1) (l1 ++ s :: r); pb_next := next |} /\
  pb_live {| pb_slots := del_slot (length l1) (l1 ++ s :: r); pb_next := next |} = l1 ++ Bucket.dense r.
Proof.
  intros N1 Ns Ok. destruct (ok_tail _ _ _ _ N1 Ns Ok) as (k & Er & Lk).
  rewrite del_slot_app.
  assert (Hd : Forall nz (l1 ++ Bucket.dense r)).
  { apply Forall_app. split; [exact N1|apply dense_nz]. }
  assert (X : l1 ++ r ++ [empty_slot] = pad_slots (l1 ++ Bucket.dense r)).
  { rewrite (pad_slots_eq _ (S k)) by (rewrite app_length; lia).
    rewrite <- app_assoc. f_equal. rewrite Er at 1. rewrite <- app_assoc. f_equal.
    cbn [repeat]. apply repeat_snoc. }
  rewrite X. apply pad_slots_ok; [exact Hd|]. rewrite app_length. lia.
Qed.

(* ================================================================================================ *)
(** * 4. The bucket loops against the chain functions of Index.v *)

Definition hchain (H : list bhandle) : chain := map hlive H.

Lemma scan_miss_subst f g h :
  match scan_slots f (pb_slots (bh_b h)) 0 with ScHit _ _ => False | _ => True end ->
  bucket_subst f g (hlive h) = None /\ find f (hlive h) = None.
Proof.
  intros H. pose proof (scan_spec f (pb_slots (bh_b h)) 0) as S.
  assert (F : find f (hlive h) = None).
  { unfold hlive, pb_live. destruct (scan_slots f (pb_slots (bh_b h)) 0); [destruct H|tauto|tauto]. }
  split; [apply bucket_subst_none; exact F|exact F].
Qed.

(* decomposition of a bucket at a hit *)
Lemma scan_hit_subst f g h j s : scan_slots f (pb_slots (bh_b h)) 0 = ScHit j s ->
  exists l1 r, pb_slots (bh_b h) = l1 ++ s :: r /\ Forall nz l1 /\ nz s /\ j = length l1 /\
    hlive h = l1 ++ s :: Bucket.dense r /\
    bucket_subst f g (hlive h) = Some (l1 ++ g s ++ Bucket.dense r, s).
Proof.
  intros E. pose proof (scan_spec f (pb_slots (bh_b h)) 0) as S. rewrite E in S.
  destruct S as (l1 & r & El & N1 & Ns & F1 & F2 & ->). exists l1, r.
  assert (D : hlive h = l1 ++ s :: Bucket.dense r).
  { unfold hlive, pb_live. rewrite El, (dense_app_nz _ _ N1). cbn [Bucket.dense].
    destruct (N.eqb_spec (sl_off s) 0); [contradiction|reflexivity]. }
  repeat split; auto. rewrite D. clear - F1 F2.
  induction l1 as [|a l1 IH]; cbn [app bucket_subst].
  - rewrite F2. reflexivity.
  - cbn [find] in F1. destruct (f a); [discriminate|]. rewrite (IH F1). reflexivity.
Qed.

Lemma hit_loop_none f g H : hit_loop f H = None ->
  chain_subst f g (hchain H) = None /\ Forall (fun h => find f (hlive h) = None) H.
Proof.
  induction H as [|h H IH]; cbn [hit_loop hchain map chain_subst]; [split; [reflexivity|constructor]|].
  destruct (scan_slots f (pb_slots (bh_b h)) 0) as [j s|j|j] eqn:E; [discriminate| |]; intros Hl;
    (destruct (scan_miss_subst f g h) as [M1 M2]; [rewrite E; exact I|]);
    destruct (IH Hl) as [I1 I2]; fold (hchain H); rewrite M1, I1; (split; [reflexivity|]);
    constructor; assumption.
Qed.

Lemma hit_loop_some f g H h j s : hit_loop f H = Some (h, j, s) ->
  exists H1 H2 l1 r, H = H1 ++ h :: H2 /\
    pb_slots (bh_b h) = l1 ++ s :: r /\ Forall nz l1 /\ nz s /\ j = length l1 /\
    hlive h = l1 ++ s :: Bucket.dense r /\
    chain_subst f g (hchain H) = Some (hchain H1 ++ (l1 ++ g s ++ Bucket.dense r) :: hchain H2, s).
Proof.
  induction H as [|h0 H IH]; cbn [hit_loop]; [discriminate|].
  destruct (scan_slots f (pb_slots (bh_b h0)) 0) as [j0 s0|j0|j0] eqn:E.
  - intros X. injection X as -> -> ->.
    destruct (scan_hit_subst f g h j s E) as (l1 & r & A & B & C & D & F & G).
    exists [], H, l1, r. cbn [app hchain map chain_subst]. rewrite G. repeat split; auto.
  - intros X. destruct (IH X) as (H1 & H2 & l1 & r & -> & A & B & C & D & F & G).
    destruct (scan_miss_subst f g h0) as [M1 M2]; [rewrite E; exact I|].
    exists (h0 :: H1), H2, l1, r. cbn [app hchain map chain_subst]. fold (hchain (H1 ++ h :: H2)).
    rewrite M1, G. repeat split; auto.
  - intros X. destruct (IH X) as (H1 & H2 & l1 & r & -> & A & B & C & D & F & G).
    destruct (scan_miss_subst f g h0) as [M1 M2]; [rewrite E; exact I|].
    exists (h0 :: H1), H2, l1, r. cbn [app hchain map chain_subst]. fold (hchain (H1 ++ h :: H2)).
    rewrite M1, G. repeat split; auto.
Qed.

Lemma hit_loop_find f H :
  match hit_loop f H with Some (_, _, s) => Some s | None => None end = chain_find f (hchain H).
Proof.
  destruct (hit_loop f H) as [[[h j] s]|] eqn:E.
  - destruct (hit_loop_some f (fun _ => []) H h j s E) as (H1 & H2 & l1 & r & _ & _ & _ & _ & _ & _ & G).
    rewrite chain_find_concat. symmetry. exact (chain_subst_find _ _ _ _ _ G).
  - destruct (hit_loop_none f (fun _ => []) H E) as [G _].
    rewrite chain_find_concat. symmetry. apply chain_subst_none in G. exact G.
Qed.

(* ---- findInsertionBucket ---- *)

(* the writer index.put uses when the key is not in the chain and [free] is the first free slot
   met before H *)
Fixpoint free_writer (H : list bhandle) : option swriter :=
  match H with
  | [] => None
  | h :: H' => if (length (hlive h) <? 31)%nat then Some (mk_writer h (length (hlive h)))
               else free_writer H'
  end.

Lemma find_ins_hit f H free h j s : hit_loop f H = Some (h, j, s) ->
  find_ins f H free = Some (mk_writer h j, Some s).
Proof.
  revert free. induction H as [|h0 H IH]; intros free; cbn [hit_loop find_ins]; [discriminate|].
  destruct (scan_slots f (pb_slots (bh_b h0)) 0) as [j0 s0|j0|j0] eqn:E.
  - intros X. injection X as -> -> ->. reflexivity.
  - intros X. destruct H as [|h1 H]; [discriminate|]. apply IH. exact X.
  - intros X. destruct H as [|h1 H]; [discriminate|]. apply IH. exact X.
Qed.

Lemma find_ins_miss f H free : hit_loop f H = None -> H <> [] ->
  Forall (fun h => bucket_ok (bh_b h)) H ->
  find_ins f H free =
    Some (match free with
          | Some w => w
          | None => match free_writer H with
                    | Some w => w
                    | None => mk_writer (last H {| bh_main := true; bh_off := 0; bh_b := empty_pb |}) 31
                    end
          end, None).
Proof.
  revert free. induction H as [|h0 H IH]; intros free Hl Hne Hok; [congruence|].
  inversion Hok as [|h_ H_ Ok0 OkH]; subst h_ H_.
  cbn [hit_loop find_ins free_writer] in *.
  pose proof (scan_spec f (pb_slots (bh_b h0)) 0) as S.
  destruct (scan_slots f (pb_slots (bh_b h0)) 0) as [j0 s0|j0|j0] eqn:E; [discriminate| |].
  - destruct S as (_ & -> & L). cbn [Nat.add]. fold (pb_live (bh_b h0)) in *. fold (hlive h0) in *.
    destruct Ok0 as [L31 _]. rewrite L31 in L.
    destruct (Nat.ltb_spec (length (hlive h0)) 31) as [_|G]; [|lia].
    destruct H as [|h1 H].
    + destruct free; reflexivity.
    + rewrite IH; [|exact Hl|discriminate|exact OkH]. destruct free; reflexivity.
  - destruct S as (_ & D & ->). cbn [Nat.add].
    assert (L31 : length (hlive h0) = 31%nat).
    { unfold hlive, pb_live. rewrite D. exact (proj1 Ok0). }
    rewrite (proj1 Ok0). rewrite L31.
    destruct (Nat.ltb_spec 31 31) as [G|_]; [lia|].
    destruct H as [|h1 H].
    + cbn [free_writer last]. destruct free; reflexivity.
    + rewrite IH; [|exact Hl|discriminate|exact OkH]. reflexivity.
Qed.

(* insert_free, by cases *)
Lemma insert_free_full new c : Forall (fun b : bucket => length b = cap) c ->
  insert_free new c = c ++ [[new]].
Proof.
  induction 1 as [|b c Hb Hc IH]; [reflexivity|]. cbn [insert_free app].
  rewrite Hb, Nat.ltb_irrefl, IH. reflexivity.
Qed.

Lemma free_writer_none H : Forall (fun h => bucket_ok (bh_b h)) H -> free_writer H = None ->
  Forall (fun b : bucket => length b = cap) (hchain H).
Proof.
  induction 1 as [|h H Ok OkH IH]; cbn [free_writer hchain map]; [constructor|].
  destruct (Nat.ltb_spec (length (hlive h)) 31) as [L|G]; [discriminate|]. intros X.
  constructor; [|exact (IH X)]. pose proof (bucket_ok_live_le _ Ok). unfold hlive, cap in *. lia.
Qed.

Lemma free_writer_some H w : free_writer H = Some w ->
  exists H1 h H2, H = H1 ++ h :: H2 /\ w = mk_writer h (length (hlive h)) /\
    (length (hlive h) < 31)%nat /\
    forall new, insert_free new (hchain H) = hchain H1 ++ (hlive h ++ [new]) :: hchain H2.
Proof.
  induction H as [|h0 H IH]; cbn [free_writer]; [discriminate|].
  destruct (Nat.ltb_spec (length (hlive h0)) 31) as [L|G].
  - intros X. injection X as <-. exists [], h0, H. cbn [app hchain map insert_free].
    repeat split; auto. intros new. unfold cap.
    destruct (Nat.ltb_spec (length (hlive h0)) 31); [reflexivity|lia].
  - intros X. destruct (IH X) as (H1 & h & H2 & -> & Ew & L & Ins).
    exists (h0 :: H1), h, H2. cbn [app hchain map insert_free]. repeat split; auto.
    intros new. unfold cap. destruct (Nat.ltb_spec (length (hlive h0)) 31); [lia|].
    fold (hchain (H1 ++ h :: H2)). rewrite Ins. reflexivity.
Qed.


(* ================================================================================================ *)
(** * 5. The abstraction relation and the physical invariant *)

(* the overflow offsets of a walk (the first handle is the main bucket) *)
Definition offs_of (H : list bhandle) : list N := map bh_off (tl H).

(* the chain of Index.v that the walk from main bucket i shows *)
Definition ph_chain (p : phys) (i : N) : option chain := option_map hchain (ph_walk p i).
Definition ph_offs (p : phys) (i : N) : option (list N) := option_map offs_of (ph_walk p i).

Definition R_phys (p : phys) (c : pindex) : Prop :=
  ph_level p = px_level c /\ ph_split p = px_split c /\ ph_nkeys p = px_nkeys c /\
  ph_nbuckets p = nlen (px_chains c) /\ nlen (ph_main p) = ph_nbuckets p /\
  forall i, i < ph_nbuckets p -> ph_chain p i = Some (px_chain c i).

(* [HS] = the walks of all main buckets *)
Definition InvW (p : phys) (HS : list (list bhandle)) : Prop :=
  nlen (ph_main p) = ph_nbuckets p /\
  Forall bucket_ok (ph_main p) /\ Forall bucket_ok (ph_over p) /\
  length HS = length (ph_main p) /\
  (forall i, (i < length HS)%nat -> ph_walk p (N.of_nat i) = Some (nth i HS [])) /\
  Permutation (concat (map offs_of HS) ++ ph_free p) (over_offs (length (ph_over p))).

Definition PhysInv (p : phys) : Prop := exists HS, InvW p HS.

(* both together, with the walks as witness *)
Definition Sim (p : phys) (c : pindex) (HS : list (list bhandle)) : Prop :=
  InvW p HS /\ ph_level p = px_level c /\ ph_split p = px_split c /\ ph_nkeys p = px_nkeys c /\
  px_chains c = map hchain HS.

Lemma sim_intro p c : PhysInv p -> R_phys p c -> exists HS, Sim p c HS.
Proof.
  intros [HS HI] (R1 & R2 & R3 & R4 & R5 & R6). exists HS.
  split; [exact HI|]. split; [exact R1|]. split; [exact R2|]. split; [exact R3|].
  destruct HI as (I1 & _ & _ & I4 & I5 & _).
  assert (Ln : length (px_chains c) = length HS).
  { rewrite I4. rewrite !nlenE in *. lia. }
  apply (nth_ext _ _ [] []); [rewrite map_length; exact Ln|].
  intros n Hn0. assert (Hn : (n < length HS)%nat) by (rewrite <- Ln; exact Hn0).
  change [] with (hchain []) at 2. rewrite map_nth.
  assert (Hlt : N.of_nat n < ph_nbuckets p) by (rewrite <- I1, nlenE; lia).
  specialize (R6 _ Hlt). unfold ph_chain in R6. rewrite (I5 _ Hn) in R6. cbn [option_map] in R6.
  unfold px_chain in R6. rewrite Nat2N.id in R6. injection R6 as R6. symmetry. exact R6.
Qed.

Lemma sim_elim p c HS : Sim p c HS -> PhysInv p /\ R_phys p c.
Proof.
  intros (HI & R1 & R2 & R3 & R4). split; [exists HS; exact HI|].
  destruct HI as (I1 & _ & _ & I4 & I5 & _).
  assert (Ln : ph_nbuckets p = nlen (px_chains c)).
  { rewrite R4, <- I1, !nlenE, map_length, I4. reflexivity. }
  split; [exact R1|]. split; [exact R2|]. split; [exact R3|]. split; [exact Ln|].
  split; [exact I1|]. intros i Hi. unfold ph_chain.
  assert (Hn : (N.to_nat i < length HS)%nat) by (rewrite I4; rewrite <- I1, nlenE in Hi; lia).
  specialize (I5 _ Hn). rewrite N2Nat.id in I5. rewrite I5. cbn [option_map]. f_equal.
  unfold px_chain. rewrite R4. change [] with (hchain []) at 2. rewrite map_nth. reflexivity.
Qed.

(* ---- consequences of the invariant, in the words of the specification ---- *)
Lemma InvW_NoDup p HS : InvW p HS -> NoDup (concat (map offs_of HS) ++ ph_free p).
Proof.
  intros (_ & _ & _ & _ & _ & P). apply (Permutation_NoDup (Permutation_sym P)), over_offs_NoDup.
Qed.

Lemma InvW_valid p HS off : InvW p HS -> In off (concat (map offs_of HS) ++ ph_free p) ->
  exists j, off = bucket_off j /\ j < nlen (ph_over p).
Proof.
  intros (_ & _ & _ & _ & _ & P) H. apply (Permutation_in _ P) in H.
  apply over_offs_In in H. rewrite nlenE. exact H.
Qed.

Lemma InvW_no_leak p HS j : InvW p HS -> j < nlen (ph_over p) ->
  In (bucket_off j) (concat (map offs_of HS) ++ ph_free p).
Proof.
  intros (_ & _ & _ & _ & _ & P) H. apply (Permutation_in _ (Permutation_sym P)).
  apply over_offs_In. exists j. rewrite nlenE in H. auto.
Qed.

Lemma InvW_count p HS : InvW p HS ->
  nlen (ph_over p) = nlen (concat (map offs_of HS)) + nlen (ph_free p).
Proof.
  intros (_ & _ & _ & _ & _ & P). apply Permutation_length in P.
  rewrite over_offs_length, app_length in P. rewrite !nlenE. lia.
Qed.

(* ================================================================================================ *)
(** * 6. Frame reasoning *)

Definition addr (h : bhandle) : bool * N := (bh_main h, bh_off h).
Definition hkey (h : bhandle) : bool * N * N := (bh_main h, bh_off h, pb_next (bh_b h)).

Lemma chained_ext hs : forall off hs', map hkey hs = map hkey hs' -> chained off hs -> chained off hs'.
Proof.
  induction hs as [|h hs IH]; intros off hs' E C; destruct hs' as [|h' hs']; try discriminate E.
  - exact C.
  - cbn [map] in E. injection E as E1 E2 E3 E4. cbn [chained] in *.
    destruct C as (C1 & C2 & C3 & C4). rewrite <- E2, <- E1, <- E3. repeat split; auto.
Qed.

Lemma wl_frame p p' j H : wl p j H -> Forall (hreads p') H ->
  (length (ph_over p) <= length (ph_over p'))%nat -> wl p' j H.
Proof.
  intros (h0 & hs & E & M & O & C & R & L) R' Ll. exists h0, hs. repeat split; auto. lia.
Qed.

Lemma write_bh_fields p h :
  ph_level (write_bh p h) = ph_level p /\ ph_split (write_bh p h) = ph_split p /\
  ph_nkeys (write_bh p h) = ph_nkeys p /\ ph_nbuckets (write_bh p h) = ph_nbuckets p /\
  ph_free (write_bh p h) = ph_free p /\
  length (ph_main (write_bh p h)) = length (ph_main p) /\
  length (ph_over (write_bh p h)) = length (ph_over p).
Proof.
  unfold write_bh. destruct (bh_main h); cbn [set_main set_over ph_level ph_split ph_nkeys
    ph_nbuckets ph_free ph_main ph_over]; rewrite ?pb_write_length; repeat split; reflexivity.
Qed.

Lemma write_bh_same p h : hreads p {| bh_main := bh_main h; bh_off := bh_off h; bh_b := bh_b h |} \/
  pb_read (if bh_main h then ph_main p else ph_over p) (bh_off h) <> None ->
  hreads (write_bh p h) h.
Proof.
  intros Hv.
  assert (V : pb_read (if bh_main h then ph_main p else ph_over p) (bh_off h) <> None).
  { destruct Hv as [Hv|Hv]; [|exact Hv]. unfold hreads in Hv. cbn [bh_main bh_off bh_b] in Hv. congruence. }
  unfold hreads, write_bh. destruct (bh_main h); cbn [set_main set_over ph_main ph_over];
    apply pb_read_write_same; exact V.
Qed.

Lemma write_bh_other p h h0 : hreads p h0 -> addr h0 <> addr h -> hreads (write_bh p h) h0.
Proof.
  unfold hreads, write_bh, addr. intros R Hne.
  destruct (bh_main h) eqn:M; destruct (bh_main h0) eqn:M0; cbn [set_main set_over ph_main ph_over];
    try exact R; rewrite pb_read_write_other; try exact R; congruence.
Qed.

Lemma write_bh_ok p h : bucket_ok (bh_b h) ->
  Forall bucket_ok (ph_main p) -> Forall bucket_ok (ph_over p) ->
  Forall bucket_ok (ph_main (write_bh p h)) /\ Forall bucket_ok (ph_over (write_bh p h)).
Proof.
  intros Ok Om Oo. unfold write_bh, pb_write.
  destruct (bh_main h); cbn [set_main set_over ph_main ph_over]; destruct (off_ok (bh_off h));
    split; try assumption; apply Forall_lupd; assumption.
Qed.

(* the addresses of a walk *)
Lemma wl_addr_in p i H a : wl p i H -> In a (map addr H) ->
  a = (true, bucket_off i) \/ exists o, a = (false, o) /\ In o (offs_of H).
Proof.
  intros (h0 & hs & -> & M & O & C & _ & _). cbn [map]. intros [<-|Ha].
  - left. unfold addr. rewrite M, O. reflexivity.
  - right. apply in_map_iff in Ha. destruct Ha as (h & <- & Hh).
    pose proof (chained_over _ _ C) as F. rewrite Forall_forall in F.
    exists (bh_off h). unfold addr. rewrite (F _ Hh). split; [reflexivity|].
    unfold offs_of. cbn [tl]. apply in_map. exact Hh.
Qed.

Lemma wl_addr_nodup p i H : wl p i H -> NoDup (offs_of H) -> NoDup (map addr H).
Proof.
  intros (h0 & hs & -> & M & O & C & _ & _) Nd. unfold offs_of in Nd. cbn [tl map] in *.
  pose proof (chained_over _ _ C) as F. rewrite Forall_forall in F. constructor.
  - intros Hin. apply in_map_iff in Hin. destruct Hin as (h & E & Hh).
    unfold addr in E. rewrite (F _ Hh), M in E. discriminate.
  - apply (NoDup_map_inv snd). rewrite map_map. exact Nd.
Qed.

Lemma offs_of_nil : offs_of [] = [].
Proof. reflexivity. Qed.

(* one chain in focus: R = the overflow offsets of all the other chains *)
Lemma InvW_focus p HS i : InvW p HS -> (i < length HS)%nat ->
  exists R,
    Permutation (offs_of (nth i HS []) ++ R ++ ph_free p) (over_offs (length (ph_over p))) /\
    (forall X, Permutation (concat (map offs_of (lupd i X HS))) (offs_of X ++ R)) /\
    (forall j o, j <> i -> In o (offs_of (nth j HS [])) -> In o R).
Proof.
  intros (_ & _ & _ & _ & _ & P) Hi.
  destruct (concat_lupd_perm (map offs_of HS) i) as (R & R1 & R2); [rewrite map_length; exact Hi|].
  exists R. split; [|split].
  - rewrite <- P. rewrite app_assoc. apply Permutation_app_tail.
    rewrite <- (R1 (offs_of (nth i HS []))).
    rewrite <- map_lupd, lupd_nth_id. reflexivity.
  - intros X. rewrite map_lupd. apply R1.
  - intros j o Hj Ho. apply (R2 j o Hj). rewrite <- offs_of_nil, map_nth. exact Ho.
Qed.

Lemma perm_app_NoDup_l {A} (a b l : list A) : Permutation (a ++ b) l -> NoDup l -> NoDup a /\ NoDup b /\
  forall x, In x a -> In x b -> False.
Proof.
  intros P Nd. apply (Permutation_NoDup (Permutation_sym P)) in Nd. clear P.
  induction a as [|x a IH]; cbn [app] in *.
  - split; [constructor|]. split; [exact Nd|]. intros x [].
  - inversion Nd as [|x_ l_ Hx Hl]; subst x_ l_. destruct (IH Hl) as (I1 & I2 & I3).
    split; [constructor; [intros Hc; apply Hx, in_or_app; left; exact Hc|exact I1]|].
    split; [exact I2|]. intros y [<-|Hy] Hb; [apply Hx, in_or_app; right; exact Hb|exact (I3 _ Hy Hb)].
Qed.

(* the addresses of different walks differ *)
Lemma InvW_addr_disjoint p HS i j a : InvW p HS -> (i < length HS)%nat -> (j < length HS)%nat ->
  i <> j -> In a (map addr (nth i HS [])) -> In a (map addr (nth j HS [])) -> False.
Proof.
  intros HI Hi Hj Hne Ai Aj.
  destruct (InvW_focus p HS i HI Hi) as (R & P1 & _ & P3).
  pose proof HI as (_ & _ & _ & _ & W & _).
  pose proof (proj1 (ph_walk_wl _ _ _) (W _ Hi)) as Wi.
  pose proof (proj1 (ph_walk_wl _ _ _) (W _ Hj)) as Wj.
  destruct (wl_addr_in _ _ _ _ Wi Ai) as [->|(o & -> & Ho)];
    destruct (wl_addr_in _ _ _ _ Wj Aj) as [E|(o' & E & Ho')]; try discriminate E.
  - injection E as E. apply bucket_off_inj in E. lia.
  - injection E as <-.
    destruct (perm_app_NoDup_l _ _ _ P1 (over_offs_NoDup _)) as (_ & _ & D).
    apply (D o Ho). apply in_or_app. left. apply (P3 j o); [lia|exact Ho'].
Qed.

(* the generic re-establishing lemma: chain i is replaced by H', the chains [ext] are appended *)
Lemma InvW_update p p' HS i H' R ext :
  InvW p HS -> (i < length HS)%nat ->
  (forall X, Permutation (concat (map offs_of (lupd i X HS))) (offs_of X ++ R)) ->
  nlen (ph_main p') = ph_nbuckets p' ->
  length (ph_main p') = (length (ph_main p) + length ext)%nat ->
  Forall bucket_ok (ph_main p') -> Forall bucket_ok (ph_over p') ->
  (length (ph_over p) <= length (ph_over p'))%nat ->
  wl p' (N.of_nat i) H' ->
  (forall j, j <> i -> (j < length HS)%nat -> Forall (hreads p') (nth j HS [])) ->
  (forall k, (k < length ext)%nat -> wl p' (N.of_nat (length HS + k)) (nth k ext [])) ->
  Permutation (offs_of H' ++ concat (map offs_of ext) ++ R ++ ph_free p') (over_offs (length (ph_over p'))) ->
  InvW p' (lupd i H' HS ++ ext).
Proof.
  intros (I1 & I2 & I3 & I4 & I5 & I6) Hi PR N1 N2 O1 O2 Lo Wi Wj We P.
  split; [exact N1|]. split; [exact O1|]. split; [exact O2|].
  split; [rewrite app_length, lupd_length; lia|]. split.
  - intros j Hj. rewrite app_length, lupd_length in Hj. apply ph_walk_wl.
    destruct (Nat.lt_ge_cases j (length HS)) as [Lt|Ge].
    + rewrite app_nth1 by (rewrite lupd_length; exact Lt).
      destruct (Nat.eq_dec j i) as [->|Hne].
      * rewrite nth_lupd_same by exact Hi. exact Wi.
      * rewrite nth_lupd_other by congruence.
        apply (wl_frame p); [apply ph_walk_wl, I5; exact Lt|apply Wj; assumption|exact Lo].
    + rewrite app_nth2 by (rewrite lupd_length; exact Ge). rewrite lupd_length.
      replace j with (length HS + (j - length HS))%nat at 1 by lia. apply We. lia.
  - rewrite map_app, concat_app, (PR H'). rewrite <- P, <- !app_assoc.
    apply Permutation_app_head. rewrite !app_assoc. apply Permutation_app_tail.
    apply Permutation_app_comm.
Qed.

Lemma offs_of_tl H : offs_of H = tl (map bh_off H).
Proof. destruct H; reflexivity. Qed.

Lemma reads_after_write p H1 h H2 h' :
  Forall (hreads p) (H1 ++ h :: H2) -> NoDup (map addr (H1 ++ h :: H2)) -> addr h' = addr h ->
  Forall (hreads (write_bh p h')) (H1 ++ h' :: H2).
Proof.
  intros Rd Nd Ea. rewrite map_app in Nd. cbn [map] in Nd.
  pose proof (NoDup_remove_2 _ _ _ Nd) as Nin.
  apply Forall_app in Rd. destruct Rd as [R1 R2]. inversion R2 as [|h_ H_ Rh R2']; subst h_ H_.
  assert (X : forall l, Forall (hreads p) l -> (forall x, In x l -> In (addr x) (map addr H1 ++ map addr H2)) ->
                        Forall (hreads (write_bh p h')) l).
  { intros l Fl Hin. apply Forall_forall. intros x Hx. rewrite Forall_forall in Fl.
    apply write_bh_other; [apply Fl; exact Hx|]. rewrite Ea. intros Hc. apply Nin. rewrite <- Hc.
    apply Hin. exact Hx. }
  apply Forall_app. split; [|constructor].
  - apply X; [exact R1|]. intros x Hx. apply in_or_app. left. apply in_map. exact Hx.
  - apply write_bh_same. right. unfold hreads in Rh. unfold addr in Ea. injection Ea as -> ->. congruence.
  - apply X; [exact R2'|]. intros x Hx. apply in_or_app. right. apply in_map. exact Hx.
Qed.

(* ---- one bucket of chain i is rewritten in place (same file, offset and next) ---- *)
Lemma single_write p HS i H1 h H2 h' :
  InvW p HS -> (i < length HS)%nat -> nth i HS [] = H1 ++ h :: H2 ->
  hkey h' = hkey h -> bucket_ok (bh_b h') ->
  InvW (write_bh p h') (lupd i (H1 ++ h' :: H2) HS).
Proof.
  intros HI Hi En Hk Ok.
  destruct (InvW_focus p HS i HI Hi) as (R & P1 & P2 & P3).
  pose proof HI as (I1 & I2 & I3 & I4 & I5 & I6).
  destruct (write_bh_fields p h') as (F1 & F2 & F3 & F4 & F5 & F6 & F7).
  destruct (write_bh_ok p h' Ok I2 I3) as [O1 O2].
  pose proof (proj1 (ph_walk_wl _ _ _) (I5 _ Hi)) as Wi. rewrite En in Wi.
  assert (Ea : addr h' = addr h) by (unfold addr, hkey in *; congruence).
  assert (Nd : NoDup (map addr (H1 ++ h :: H2))).
  { apply (wl_addr_nodup _ _ _ Wi). rewrite <- En.
    exact (proj1 (perm_app_NoDup_l _ _ _ P1 (over_offs_NoDup _))). }
  assert (Eo : offs_of (H1 ++ h' :: H2) = offs_of (H1 ++ h :: H2)).
  { rewrite !offs_of_tl, !map_app. cbn [map]. unfold addr in Ea. injection Ea as _ ->. reflexivity. }
  assert (Ek : map hkey (H1 ++ h :: H2) = map hkey (H1 ++ h' :: H2)).
  { rewrite !map_app. cbn [map]. rewrite Hk. reflexivity. }
  rewrite <- (app_nil_r (lupd _ _ _)).
  apply (InvW_update p _ HS i _ R []); try assumption.
  - rewrite F4, <- I1, !nlenE, F6. reflexivity.
  - cbn [length]. lia.
  - lia.
  - destruct Wi as (h0 & hs & E & M & O & C & Rd & L).
    pose proof (reads_after_write p H1 h H2 h' Rd Nd Ea) as Rd'.
    destruct H1 as [|a H1]; cbn [app] in *.
    + injection E as <- <-. exists h', H2. unfold hkey in Hk. injection Hk as K1 K2 K3.
      rewrite K1, K2, K3, F7. repeat split; auto.
    + injection E as <- <-. exists a, (H1 ++ h' :: H2).
      cbn [map] in Ek. injection Ek as Ek.
      rewrite F7. repeat split; auto.
      * exact (chained_ext _ _ _ Ek C).
      * rewrite app_length in *. cbn [length] in *. exact L.
  - intros j Hne Hj. apply Forall_forall. intros x Hx.
    pose proof (proj1 (ph_walk_wl _ _ _) (I5 _ Hj)) as (_ & _ & _ & _ & _ & _ & Rd & _).
    rewrite Forall_forall in Rd. apply write_bh_other; [apply Rd; exact Hx|].
    rewrite Ea. intros Hc.
    apply (InvW_addr_disjoint p HS i j (addr h) HI Hi Hj); [congruence| |].
    + rewrite En. apply in_map. apply in_elt.
    + rewrite <- Hc. apply in_map. exact Hx.
  - intros k Hk0. cbn [length] in Hk0. lia.
  - cbn [map concat app]. rewrite Eo, <- En, F5, F7. exact P1.
Qed.


(* ================================================================================================ *)
(** * 7. Reading operations *)

Lemma sim_bidx p c HS h : Sim p c HS -> ph_bidx p h = px_bidx c h.
Proof. intros (_ & R1 & R2 & _). unfold ph_bidx, px_bidx. rewrite R1, R2. reflexivity. Qed.

Lemma sim_nbuckets p c HS : Sim p c HS ->
  ph_nbuckets p = nlen (px_chains c) /\ ph_nbuckets p = N.of_nat (length HS).
Proof.
  intros ((I1 & _ & _ & I4 & _) & _ & _ & _ & R4).
  rewrite R4, <- I1, !nlenE, map_length, I4. split; reflexivity.
Qed.

Lemma sim_walk p c HS b : Sim p c HS -> b < ph_nbuckets p ->
  (N.to_nat b < length HS)%nat /\ ph_walk p b = Some (nth (N.to_nat b) HS []) /\
  px_chain c b = hchain (nth (N.to_nat b) HS []).
Proof.
  intros S Hb. destruct (sim_nbuckets _ _ _ S) as [_ N2].
  destruct S as ((I1 & _ & _ & I4 & I5 & _) & _ & _ & _ & R4).
  assert (Hn : (N.to_nat b < length HS)%nat) by lia.
  split; [exact Hn|]. split.
  - rewrite <- (N2Nat.id b) at 1. apply I5. exact Hn.
  - unfold px_chain. rewrite R4. change [] with (hchain []) at 1. rewrite map_nth. reflexivity.
Qed.

Lemma sim_walk_out p c HS b : Sim p c HS -> ph_nbuckets p <= b ->
  ph_walk p b = None /\ px_chain c b = [].
Proof.
  intros S Hb. destruct (sim_nbuckets _ _ _ S) as [N1 N2].
  destruct S as ((I1 & _ & _ & I4 & I5 & _) & _ & _ & _ & R4). split.
  - unfold ph_walk. rewrite pb_read_bucket_off.
    replace (nth_error (ph_main p) (N.to_nat b)) with (@None pbucket); [reflexivity|].
    symmetry. apply nth_error_None. lia.
  - unfold px_chain. apply nth_overflow. rewrite N1, nlenE in Hb. lia.
Qed.

Lemma get_sim_aux p c HS h m : Sim p c HS -> ph_get p h m = px_get c h m.
Proof.
  intros S. unfold ph_get, px_get. rewrite (sim_bidx _ _ _ h S).
  destruct (N.lt_ge_cases (px_bidx c h) (ph_nbuckets p)) as [Lt|Ge].
  - destruct (sim_walk _ _ _ _ S Lt) as (_ & W & C). rewrite W, C. apply hit_loop_find.
  - destruct (sim_walk_out _ _ _ _ S Ge) as (W & C). rewrite W, C. reflexivity.
Qed.

Theorem phys_get_sim p c h m : PhysInv p -> R_phys p c ->
  ix_get phys_ops p h m = ix_get chain_ops c h m.
Proof.
  intros HI HR. destruct (sim_intro _ _ HI HR) as [HS S]. exact (get_sim_aux _ _ _ h m S).
Qed.

Theorem phys_count_sim p c : R_phys p c -> ix_count phys_ops p = ix_count chain_ops c.
Proof. intros (_ & _ & R3 & _). exact R3. Qed.

Theorem phys_nbuckets_sim p c : R_phys p c -> ix_nbuckets phys_ops p = ix_nbuckets chain_ops c.
Proof. intros (_ & _ & _ & R4 & _). exact R4. Qed.

Theorem phys_bucket_sim p c n : PhysInv p -> R_phys p c ->
  ix_bucket phys_ops p n = ix_bucket chain_ops c n.
Proof.
  intros HI HR. destruct (sim_intro _ _ HI HR) as [HS S].
  cbn [ix_bucket phys_ops chain_ops]. unfold ph_bucket. rewrite px_bucketE.
  destruct (N.lt_ge_cases n (ph_nbuckets p)) as [Lt|Ge].
  - destruct (sim_walk _ _ _ _ S Lt) as (_ & W & C). rewrite W, C. reflexivity.
  - destruct (sim_walk_out _ _ _ _ S Ge) as (W & C). rewrite W, C. reflexivity.
Qed.

(* ================================================================================================ *)
(** * 8. The empty index *)

Lemma InvW_empty : InvW ph_empty [[{| bh_main := true; bh_off := 512; bh_b := empty_pb |}]].
Proof.
  split; [reflexivity|]. split; [constructor; [apply empty_pb_ok|constructor]|].
  split; [constructor|]. split; [reflexivity|]. split.
  - intros i Hi. cbn [length] in Hi. assert (i = 0%nat) as -> by lia. reflexivity.
  - apply Permutation_refl.
Qed.

Theorem phys_empty_ok :
  PhysInv (ix_empty phys_ops) /\ R_phys (ix_empty phys_ops) (ix_empty chain_ops).
Proof.
  apply (sim_elim _ _ [[{| bh_main := true; bh_off := 512; bh_b := empty_pb |}]]).
  split; [exact InvW_empty|]. repeat split.
Qed.

(* ================================================================================================ *)
(** * 9. Operations that rewrite one bucket in place: delete, promoteRecord, put on a present key *)

Definition px_with_nkeys (c : pindex) (nk : N) : pindex :=
  {| px_level := px_level c; px_split := px_split c; px_nkeys := nk; px_chains := px_chains c |}.

Lemma Sim_set_nkeys p c HS nk : Sim p c HS -> Sim (set_nkeys p nk) (px_with_nkeys c nk) HS.
Proof.
  intros (HI & R1 & R2 & R3 & R4). split; [exact HI|]. repeat split; assumption.
Qed.

Lemma set_nkeys_id p : set_nkeys p (ph_nkeys p) = p.
Proof. destruct p; reflexivity. Qed.

Lemma px_with_nkeys_id c : px_with_nkeys c (px_nkeys c) = c.
Proof. destruct c; reflexivity. Qed.

(* every handle of a walk holds a well-formed bucket *)
Lemma InvW_handle_ok p HS i h : InvW p HS -> (i < length HS)%nat -> In h (nth i HS []) ->
  bucket_ok (bh_b h).
Proof.
  intros (_ & I2 & I3 & _ & I5 & _) Hi Hh.
  pose proof (proj1 (ph_walk_wl _ _ _) (I5 _ Hi)) as (_ & _ & _ & _ & _ & _ & Rd & _).
  rewrite Forall_forall in Rd. specialize (Rd _ Hh). unfold hreads in Rd.
  destruct (pb_read_some _ _ _ Rd) as (k & _ & _ & Hk). apply nth_error_In in Hk.
  destruct (bh_main h); [rewrite Forall_forall in I2; exact (I2 _ Hk)|
                         rewrite Forall_forall in I3; exact (I3 _ Hk)].
Qed.

Lemma InvW_handles_ok p HS i : InvW p HS -> (i < length HS)%nat ->
  Forall (fun h => bucket_ok (bh_b h)) (nth i HS []).
Proof. intros HI Hi. apply Forall_forall. intros h Hh. exact (InvW_handle_ok _ _ _ _ HI Hi Hh). Qed.

Lemma hchain_app H1 H2 : hchain (H1 ++ H2) = hchain H1 ++ hchain H2.
Proof. apply map_app. Qed.

(* the bucket where the loop stops is rewritten by [upd] *)
Lemma subst_sim p c HS b f g j s hb upd :
  Sim p c HS -> b < ph_nbuckets p ->
  hit_loop f (nth (N.to_nat b) HS []) = Some (hb, j, s) ->
  (forall l1 r next, length l1 = j -> Forall nz l1 -> nz s ->
     bucket_ok {| pb_slots := l1 ++ s :: r; pb_next := next |} ->
     bucket_ok {| pb_slots := upd (l1 ++ s :: r); pb_next := next |} /\
     pb_live {| pb_slots := upd (l1 ++ s :: r); pb_next := next |} = l1 ++ g s ++ Bucket.dense r) ->
  exists cc HS', chain_subst f g (px_chain c b) = Some (cc, s) /\
    Sim (write_bh p {| bh_main := bh_main hb; bh_off := bh_off hb;
                       bh_b := {| pb_slots := upd (pb_slots (bh_b hb)); pb_next := pb_next (bh_b hb) |} |})
        (px_set c b cc (px_nkeys c)) HS'.
Proof.
  intros S Hb Hl Hupd. destruct (sim_walk _ _ _ _ S Hb) as (Hn & W & C).
  destruct S as (HI & R1 & R2 & R3 & R4).
  destruct (hit_loop_some f g _ _ _ _ Hl) as (H1 & H2 & l1 & r & EH & Es & N1 & Ns & Ej & El & Ec).
  set (hb' := {| bh_main := bh_main hb; bh_off := bh_off hb;
                 bh_b := {| pb_slots := upd (pb_slots (bh_b hb)); pb_next := pb_next (bh_b hb) |} |}).
  assert (Okb : bucket_ok (bh_b hb)).
  { apply (InvW_handle_ok p HS _ hb HI Hn). rewrite EH. apply in_elt. }
  assert (Okb' : bucket_ok {| pb_slots := l1 ++ s :: r; pb_next := pb_next (bh_b hb) |}).
  { unfold bucket_ok, pb_live in *. cbn [pb_slots]. rewrite <- Es. exact Okb. }
  destruct (Hupd l1 r (pb_next (bh_b hb)) (eq_sym Ej) N1 Ns Okb') as [U1 U2].
  rewrite <- Es in U1, U2.
  exists (hchain H1 ++ (l1 ++ g s ++ Bucket.dense r) :: hchain H2), (lupd (N.to_nat b) (H1 ++ hb' :: H2) HS).
  split; [rewrite C; exact Ec|].
  split; [apply (single_write p HS _ H1 hb H2 hb' HI Hn EH); [reflexivity|exact U1]|].
  destruct (write_bh_fields p hb') as (F1 & F2 & F3 & F4 & F5 & F6 & F7).
  rewrite F1, F2, F3. cbn [px_set px_level px_split px_nkeys px_chains].
  split; [exact R1|]. split; [exact R2|]. split; [exact R3|].
  rewrite R4, map_lupd. f_equal. rewrite hchain_app. cbn [hchain map]. f_equal. f_equal.
  symmetry. exact U2.
Qed.

Theorem phys_del_sim p c h m : PhysInv p -> R_phys p c -> PInv c ->
  snd (ix_del phys_ops p h m) = snd (ix_del chain_ops c h m) /\
  R_phys (fst (ix_del phys_ops p h m)) (fst (ix_del chain_ops c h m)) /\
  PhysInv (fst (ix_del phys_ops p h m)).
Proof.
  intros HI HR HP. destruct (sim_intro _ _ HI HR) as [HS S].
  cbn [ix_del phys_ops chain_ops]. unfold ph_del, px_del. rewrite (sim_bidx _ _ _ h S).
  assert (Hb : px_bidx c h < ph_nbuckets p).
  { rewrite (proj1 (sim_nbuckets _ _ _ S)). apply PInv_bidx_lt. exact HP. }
  destruct (sim_walk _ _ _ _ S Hb) as (Hn & W & C). rewrite W.
  destruct (hit_loop (hit h m) (nth (N.to_nat (px_bidx c h)) HS [])) as [[[hb j] s]|] eqn:El.
  - destruct (subst_sim p c HS _ (hit h m) (fun _ => []) j s hb (del_slot j) S Hb El)
      as (cc & HS' & Ec & S').
    { intros l1 r next <- N1 Ns Ok. apply del_slot_hit; assumption. }
    rewrite Ec. cbn [fst snd]. split; [reflexivity|].
    rewrite (proj1 (proj2 (proj2 (proj2 S)))).
    apply (Sim_set_nkeys _ _ _ (px_nkeys c - 1)) in S'.
    apply sim_elim in S'. destruct S' as [S1 S2]. split; [exact S2|exact S1].
  - destruct (hit_loop_none _ (fun _ => []) _ El) as [Ec _]. rewrite C, Ec. cbn [fst snd].
    split; [reflexivity|]. split; [exact HR|exact HI].
Qed.

Theorem phys_repoint_sim p c h seg off nseg noff : PhysInv p -> R_phys p c -> PInv c -> noff <> 0 ->
  match ix_repoint phys_ops p h seg off nseg noff, ix_repoint chain_ops c h seg off nseg noff with
  | None, None => True
  | Some p', Some c' => R_phys p' c' /\ PhysInv p'
  | _, _ => False
  end.
Proof.
  intros HI HR HP Hnz. destruct (sim_intro _ _ HI HR) as [HS S].
  cbn [ix_repoint phys_ops chain_ops]. unfold ph_repoint, px_repoint. rewrite (sim_bidx _ _ _ h S).
  assert (Hb : px_bidx c h < ph_nbuckets p).
  { rewrite (proj1 (sim_nbuckets _ _ _ S)). apply PInv_bidx_lt. exact HP. }
  destruct (sim_walk _ _ _ _ S Hb) as (Hn & W & C). rewrite W.
  destruct (hit_loop (rp_hit h seg off) (nth (N.to_nat (px_bidx c h)) HS [])) as [[[hb j] s]|] eqn:El.
  - destruct (subst_sim p c HS _ (rp_hit h seg off) (fun s => [rp_new nseg noff s]) j s hb
                (lupd j (rp_new nseg noff s)) S Hb El) as (cc & HS' & Ec & S').
    { intros l1 r next <- N1 Ns Ok. cbn [app]. apply set_slot_hit; assumption. }
    rewrite Ec. apply sim_elim in S'. destruct S' as [S1 S2]. split; [exact S2|exact S1].
  - destruct (hit_loop_none _ (fun s => [rp_new nseg noff s]) _ El) as [Ec _]. rewrite C, Ec. exact I.
Qed.


(* ================================================================================================ *)
(** * 10. Several writes; createOverflowBucket *)

Definition hvalid (p : phys) (h : bhandle) : Prop :=
  pb_read (if bh_main h then ph_main p else ph_over p) (bh_off h) <> None.

Lemma pb_read_valid_len file file' off : length file = length file' ->
  pb_read file off <> None -> pb_read file' off <> None.
Proof.
  intros L. unfold pb_read. destruct (off_ok off); [|congruence].
  intros H. apply nth_error_Some. rewrite <- L. apply nth_error_Some. exact H.
Qed.

Lemma hvalid_write p h h0 : hvalid p h0 -> hvalid (write_bh p h) h0.
Proof.
  destruct (write_bh_fields p h) as (_ & _ & _ & _ & _ & F6 & F7).
  unfold hvalid. destruct (bh_main h0); apply pb_read_valid_len; symmetry; assumption.
Qed.

Lemma hreads_valid p h : hreads p h -> hvalid p h.
Proof. unfold hreads, hvalid. congruence. Qed.

Lemma writes_spec W : forall p, NoDup (map addr W) -> Forall (hvalid p) W ->
  Forall (fun h => bucket_ok (bh_b h)) W ->
  Forall bucket_ok (ph_main p) -> Forall bucket_ok (ph_over p) ->
  let p' := fold_left write_bh W p in
  Forall (hreads p') W /\
  (forall h0, hreads p h0 -> ~ In (addr h0) (map addr W) -> hreads p' h0) /\
  (forall h0, hvalid p h0 -> hvalid p' h0) /\
  ph_level p' = ph_level p /\ ph_split p' = ph_split p /\ ph_nkeys p' = ph_nkeys p /\
  ph_nbuckets p' = ph_nbuckets p /\ ph_free p' = ph_free p /\
  length (ph_main p') = length (ph_main p) /\ length (ph_over p') = length (ph_over p) /\
  Forall bucket_ok (ph_main p') /\ Forall bucket_ok (ph_over p').
Proof.
  induction W as [|h W IH]; intros p Nd V Ok Om Oo; cbn [fold_left].
  - cbn zeta. repeat split; auto.
  - cbn [map] in Nd. inversion Nd as [|a_ l_ Hnin Nd']; subst a_ l_.
    inversion V as [|h_ W_ Vh VW]; subst h_ W_. inversion Ok as [|h_ W_ Okh OkW]; subst h_ W_.
    destruct (write_bh_fields p h) as (F1 & F2 & F3 & F4 & F5 & F6 & F7).
    destruct (write_bh_ok p h Okh Om Oo) as [Om1 Oo1].
    assert (V1 : Forall (hvalid (write_bh p h)) W).
    { eapply Forall_impl; [|exact VW]. intros x. apply hvalid_write. }
    specialize (IH (write_bh p h) Nd' V1 OkW Om1 Oo1). cbn zeta in IH.
    destruct IH as (A & B & C & G1 & G2 & G3 & G4 & G5 & G6 & G7 & G8 & G9).
    cbn zeta. split; [constructor; [|exact A]|].
    { apply B; [|exact Hnin]. apply write_bh_same. right. exact Vh. }
    split.
    { intros h0 R0 Hn. apply B.
      - apply write_bh_other; [exact R0|]. intros Hc. apply Hn. left. symmetry. exact Hc.
      - intros Hc. apply Hn. right. exact Hc. }
    split; [intros h0 V0; apply C, hvalid_write; exact V0|].
    rewrite G1, G2, G3, G4, G5, G6, G7. repeat split; auto.
Qed.

Lemma swr_write_fold p w : swr_write p w = fold_left write_bh (rev (sw_prev w) ++ [sw_cur w]) p.
Proof. unfold swr_write. rewrite fold_left_app. reflexivity. Qed.

(* createOverflowBucket against the permutation invariant; U = the offsets in use *)
Lemma create_overflow_spec p U :
  Permutation (U ++ ph_free p) (over_offs (length (ph_over p))) -> Forall bucket_ok (ph_over p) ->
  exists o ext,
    snd (create_overflow p) = {| bh_main := false; bh_off := o; bh_b := empty_pb |} /\
    Permutation ((U ++ [o]) ++ ph_free (fst (create_overflow p)))
                (over_offs (length (ph_over (fst (create_overflow p))))) /\
    ph_over (fst (create_overflow p)) = ph_over p ++ ext /\
    Forall bucket_ok (ph_over (fst (create_overflow p))) /\
    ph_main (fst (create_overflow p)) = ph_main p /\
    ph_level (fst (create_overflow p)) = ph_level p /\ ph_split (fst (create_overflow p)) = ph_split p /\
    ph_nkeys (fst (create_overflow p)) = ph_nkeys p /\
    ph_nbuckets (fst (create_overflow p)) = ph_nbuckets p /\
    o <> 0 /\ pb_read (ph_over (fst (create_overflow p))) o <> None.
Proof.
  intros P Ok. unfold create_overflow. destruct (ph_free p) as [|o fr] eqn:Ef.
  - exists (bucket_off (nlen (ph_over p))), [empty_pb].
    cbn [fst snd set_over ph_over ph_free ph_main ph_level ph_split ph_nkeys ph_nbuckets].
    rewrite Ef. split; [reflexivity|]. split.
    { rewrite app_length. cbn [length]. rewrite Nat.add_1_r, over_offs_S, nlenE, !app_nil_r.
      rewrite app_nil_r in P. apply Permutation_app_tail. exact P. }
    split; [reflexivity|]. split; [apply Forall_app; split; [exact Ok|constructor; [apply empty_pb_ok|constructor]]|].
    repeat split; try reflexivity; [apply bucket_off_nz|].
    rewrite pb_read_app_new. discriminate.
  - exists o, []. cbn [fst snd set_free ph_over ph_free ph_main ph_level ph_split ph_nkeys ph_nbuckets].
    rewrite app_nil_r. split; [reflexivity|]. split.
    { rewrite <- P, <- app_assoc. reflexivity. }
    split; [reflexivity|]. split; [exact Ok|]. repeat split; try reflexivity.
    + assert (Hin : In o (over_offs (length (ph_over p)))).
      { apply (Permutation_in _ P). apply in_or_app. right. left. reflexivity. }
      apply over_offs_In in Hin. destruct Hin as (i & -> & _). apply bucket_off_nz.
    + apply over_offs_read. apply (Permutation_in _ P). apply in_or_app. right. left. reflexivity.
Qed.

(* ================================================================================================ *)
(** * 11. Chains under construction *)

Definition chained0 (H : list bhandle) : Prop :=
  match H with [] => False | h0 :: hs => chained (pb_next (bh_b h0)) hs end.

Lemma chained0_ext H H' : map hkey H = map hkey H' -> chained0 H -> chained0 H'.
Proof.
  destruct H as [|h0 hs]; destruct H' as [|h0' hs']; cbn [map chained0]; try discriminate; try tauto.
  intros E C. injection E as _ _ E3 E4. rewrite <- E3. exact (chained_ext _ _ _ E4 C).
Qed.

Lemma chained_snoc hs : forall off hl o nb,
  chained off (hs ++ [hl]) -> o <> 0 -> bh_off nb = o -> bh_main nb = false -> pb_next (bh_b nb) = 0 ->
  chained off (hs ++ [bh_set_next hl o; nb]).
Proof.
  induction hs as [|h hs IH]; intros off hl o nb C Ho Eo Em En; cbn [app chained] in *.
  - destruct C as (C1 & C2 & C3 & C4). cbn [bh_set_next bh_off bh_main bh_b pb_next].
    repeat split; auto.
  - destruct C as (C1 & C2 & C3 & C4). repeat split; auto.
Qed.

Lemma chained0_snoc H hl o nb :
  chained0 (H ++ [hl]) -> o <> 0 -> bh_off nb = o -> bh_main nb = false -> pb_next (bh_b nb) = 0 ->
  chained0 (H ++ [bh_set_next hl o; nb]).
Proof.
  destruct H as [|h0 hs]; cbn [app chained0]; intros C Ho Eo Em En.
  - cbn [bh_set_next bh_b pb_next chained]. repeat split; auto.
  - apply chained_snoc; assumption.
Qed.

Lemma wl_chained0 p i H : wl p i H <->
  (exists h0 hs, H = h0 :: hs /\ bh_main h0 = true /\ bh_off h0 = bucket_off i) /\
  chained0 H /\ Forall (hreads p) H /\ (length H <= S (S (length (ph_over p))))%nat.
Proof.
  split.
  - intros (h0 & hs & -> & M & O & C & R & L). split; [exists h0, hs; auto|].
    split; [exact C|]. split; [exact R|]. cbn [length]. lia.
  - intros ((h0 & hs & -> & M & O) & C & R & L). exists h0, hs. cbn [length] in L.
    repeat split; auto. lia.
Qed.

Lemma hreads_alloc p p1 ext h : ph_main p1 = ph_main p -> ph_over p1 = ph_over p ++ ext ->
  hreads p h -> hreads p1 h.
Proof.
  intros Em Eo. unfold hreads. rewrite Em, Eo. destruct (bh_main h); [tauto|].
  intros R. rewrite pb_read_app by congruence. exact R.
Qed.

(* ================================================================================================ *)
(** * 12. index.put without the split *)

Definition px_put_core_res (c : pindex) (sl : slot) (m : slot -> bool) := px_put_core c sl m.

Lemma last_app_single {A} (l : list A) x d : last (l ++ [x]) d = x.
Proof. induction l as [|a l IH]; [reflexivity|]. cbn [app]. destruct (l ++ [x]) eqn:E; [destruct l; discriminate|exact IH]. Qed.

Lemma exists_last' {A} (l : list A) : l <> [] -> exists l' x, l = l' ++ [x].
Proof. intros H. destruct (exists_last H) as (l' & x & E). exists l', x. exact E. Qed.

(* the chain is full: a new overflow bucket is linked behind its last bucket *)
Lemma append_bucket p HS i Hinit hl sl :
  InvW p HS -> (i < length HS)%nat -> nth i HS [] = Hinit ++ [hl] -> nz sl ->
  let r := swr_insert p (mk_writer hl 31) sl in
  exists nb', hlive nb' = [sl] /\
    InvW (swr_write (fst r) (snd r)) (lupd i (Hinit ++ [bh_set_next hl (bh_off nb'); nb']) HS) /\
    ph_level (swr_write (fst r) (snd r)) = ph_level p /\
    ph_split (swr_write (fst r) (snd r)) = ph_split p /\
    ph_nkeys (swr_write (fst r) (snd r)) = ph_nkeys p.
Proof.
  intros HI Hi En Hnz.
  destruct (InvW_focus p HS i HI Hi) as (R & P1 & P2 & P3).
  pose proof HI as (I1 & I2 & I3 & I4 & I5 & I6).
  pose proof (proj1 (ph_walk_wl _ _ _) (I5 _ Hi)) as Wi. rewrite En in Wi.
  assert (PU : Permutation ((offs_of (Hinit ++ [hl]) ++ R) ++ ph_free p) (over_offs (length (ph_over p)))).
  { rewrite <- app_assoc, <- En. exact P1. }
  destruct (create_overflow_spec p _ PU I3) as (o & ext & Enb & Pn & Eov & Okov & Emain & El & Es & Ek & Enbk & Ho & Hv).
  unfold swr_insert. cbn [mk_writer sw_idx sw_cur sw_prev Nat.eqb fst snd app].
  set (p1 := fst (create_overflow p)) in *. rewrite Enb. cbn [bh_off].
  set (hl' := bh_set_next hl o).
  set (nb' := bh_set_slot {| bh_main := false; bh_off := o; bh_b := empty_pb |} 0 sl).
  exists nb'.
  destruct (set_slot_free empty_pb sl (proj1 empty_pb_ok)) as [OkN LiveN]; [cbn; lia|exact Hnz|].
  assert (Hlive : hlive nb' = [sl]) by exact LiveN.
  split; [exact Hlive|].
  rewrite swr_write_fold. cbn [sw_prev sw_cur rev app].
  (* the two writes *)
  assert (Nd : NoDup (map addr (Hinit ++ [hl]))).
  { apply (wl_addr_nodup _ _ _ Wi). rewrite <- En.
    exact (proj1 (perm_app_NoDup_l _ _ _ P1 (over_offs_NoDup _))). }
  assert (NdU : NoDup ((offs_of (Hinit ++ [hl]) ++ R) ++ [o])).
  { exact (proj1 (perm_app_NoDup_l _ _ _ Pn (over_offs_NoDup _))). }
  assert (Ho_new : ~ In o (offs_of (Hinit ++ [hl]) ++ R)).
  { intros Hc. apply NoDup_remove_2 in NdU. rewrite app_nil_r in NdU. exact (NdU Hc). }
  assert (Ahl : addr hl' = addr hl) by reflexivity.
  assert (Anb : addr nb' = (false, o)) by reflexivity.
  assert (Hl_in : In (addr hl) (map addr (Hinit ++ [hl]))).
  { apply in_map. apply in_or_app. right. left. reflexivity. }
  assert (Anb_chain : ~ In (false, o) (map addr (Hinit ++ [hl]))).
  { intros Hc. destruct (wl_addr_in _ _ _ _ Wi Hc) as [E|(o' & E & Ho')]; [discriminate|].
    injection E as <-. apply Ho_new. apply in_or_app. left. exact Ho'. }
  assert (NdW : NoDup (map addr [hl'; nb'])).
  { cbn [map]. rewrite Ahl, Anb. constructor; [|constructor; [intros []|constructor]].
    intros [Hc|[]]. apply Anb_chain. rewrite Hc. exact Hl_in. }
  assert (Rdp1 : forall h, hreads p h -> hreads p1 h).
  { intros h. apply (hreads_alloc p p1 ext); assumption. }
  assert (Rd_hl : hreads p hl).
  { destruct Wi as (_ & _ & _ & _ & _ & _ & Rd & _). rewrite Forall_forall in Rd.
    apply Rd. apply in_or_app. right. left. reflexivity. }
  assert (VW : Forall (hvalid p1) [hl'; nb']).
  { constructor; [|constructor; [|constructor]].
    - apply (hreads_valid p1 hl). apply Rdp1. exact Rd_hl.
    - exact Hv. }
  assert (Okhl : bucket_ok (bh_b hl)).
  { apply (InvW_handle_ok p HS i hl HI Hi). rewrite En. apply in_or_app. right. left. reflexivity. }
  assert (OkW : Forall (fun h => bucket_ok (bh_b h)) [hl'; nb']).
  { constructor; [exact Okhl|]. constructor; [exact OkN|constructor]. }
  assert (Om1 : Forall bucket_ok (ph_main p1)) by (rewrite Emain; exact I2).
  destruct (writes_spec [hl'; nb'] p1 NdW VW OkW Om1 Okov)
    as (RdW & Keep & _ & G1 & G2 & G3 & G4 & G5 & G6 & G7 & G8 & G9).
  set (p' := fold_left write_bh [hl'; nb'] p1) in *.
  assert (Lov : (length (ph_over p) <= length (ph_over p'))%nat).
  { rewrite G7, Eov, app_length. lia. }
  split; [|rewrite G1, G2, G3, El, Es, Ek; auto].
  rewrite <- (app_nil_r (lupd _ _ _)).
  apply (InvW_update p p' HS i _ R []); try assumption.
  - rewrite G4, Enbk, <- I1, !nlenE, G6, Emain. reflexivity.
  - rewrite G6, Emain. cbn [length]. lia.
  - (* the new walk of chain i *)
    apply wl_chained0. apply wl_chained0 in Wi. destruct Wi as (Hd & C0 & Rd & L). split; [|split; [|split]].
    + destruct Hd as (h0 & hs & E & M & O). destruct Hinit as [|a Hinit]; cbn [app] in *.
      * injection E as <- <-. exists hl', [nb']. auto.
      * injection E as <- <-. eexists a, _. split; [reflexivity|auto].
    + apply chained0_snoc; auto.
    + apply Forall_app. split; [|exact RdW].
      apply Forall_app in Rd. destruct Rd as [Rd _]. apply Forall_forall. intros x Hx.
      rewrite Forall_forall in Rd. apply Keep; [apply Rdp1, Rd; exact Hx|].
      cbn [map]. rewrite Ahl, Anb. intros [Hc|[Hc|[]]].
      * rewrite map_app in Nd. cbn [map] in Nd. apply NoDup_remove_2 in Nd. apply Nd.
        rewrite app_nil_r, Hc. apply in_map. exact Hx.
      * apply Anb_chain. rewrite Hc. apply in_map. apply in_or_app. left. exact Hx.
    + assert (Lo : (length (offs_of (Hinit ++ [hl]) ++ [o]) <= length (ph_over p'))%nat).
      { rewrite G7. rewrite <- (over_offs_length (length (ph_over p1))).
        apply (perm_length_le _ (R ++ ph_free p1)). rewrite <- Pn.
        rewrite <- !app_assoc. apply Permutation_app_head.
        rewrite !app_assoc. apply Permutation_app_tail. apply Permutation_app_comm. }
      rewrite app_length in Lo. unfold offs_of in Lo. rewrite map_length in Lo.
      rewrite !app_length in *. cbn [length] in *.
      destruct Hinit; cbn [app tl length] in *; rewrite ?app_length in *; cbn [length] in *; lia.
  - intros j Hne Hj. apply Forall_forall. intros x Hx.
    pose proof (proj1 (ph_walk_wl _ _ _) (I5 _ Hj)) as Wj.
    pose proof Wj as (_ & _ & _ & _ & _ & _ & Rd & _). rewrite Forall_forall in Rd.
    apply Keep; [apply Rdp1, Rd; exact Hx|]. cbn [map]. rewrite Ahl, Anb. intros [Hc|[Hc|[]]].
    + apply (InvW_addr_disjoint p HS i j (addr hl) HI Hi Hj); [congruence| |].
      * rewrite En. exact Hl_in.
      * rewrite Hc. apply in_map. exact Hx.
    + assert (Hin : In (false, o) (map addr (nth j HS []))) by (rewrite Hc; apply in_map; exact Hx).
      destruct (wl_addr_in _ _ _ _ Wj Hin) as [E|(o' & E & Ho')]; [discriminate|].
      injection E as <-. apply Ho_new. apply in_or_app. right. apply (P3 j o); assumption.
  - intros k Hk0. cbn [length] in Hk0. lia.
  - cbn [map concat app]. rewrite G5, G7.
    assert (Eo : offs_of (Hinit ++ [hl'; nb']) = offs_of (Hinit ++ [hl]) ++ [o]).
    { rewrite !offs_of_tl, !map_app. cbn [map].
      destruct Hinit as [|a0 Hi0]; cbn [map app tl]; [reflexivity|]. rewrite <- app_assoc. reflexivity. }
    change (bh_set_next hl (bh_off nb')) with hl'.
    rewrite Eo, <- Pn. rewrite <- !app_assoc. apply Permutation_app_head.
    rewrite !app_assoc. apply Permutation_app_tail. apply Permutation_app_comm.
Qed.


Lemma wl_nonnil p i H : wl p i H -> H <> [].
Proof. intros (h0 & hs & -> & _). discriminate. Qed.

Lemma Sim_chain_set p c HS p' b H' nk :
  Sim p c HS -> InvW p' (lupd (N.to_nat b) H' HS) ->
  ph_level p' = ph_level p -> ph_split p' = ph_split p -> ph_nkeys p' = nk ->
  Sim p' (px_set c b (hchain H') nk) (lupd (N.to_nat b) H' HS).
Proof.
  intros (_ & R1 & R2 & R3 & R4) HI' E1 E2 E3. split; [exact HI'|].
  cbn [px_set px_level px_split px_nkeys px_chains]. rewrite E1, E2, E3, R4, map_lupd. auto.
Qed.

Lemma put_core_sim p c sl m HS : Sim p c HS -> PInv c -> nz sl ->
  exists p1 HS1, ph_put_core p sl m = Some (p1, snd (px_put_core c sl m)) /\
                 Sim p1 (fst (px_put_core c sl m)) HS1.
Proof.
  intros S HP Hnz. unfold ph_put_core, px_put_core, chain_put. rewrite (sim_bidx _ _ _ (sl_h sl) S).
  set (b := px_bidx c (sl_h sl)). set (f := hit (sl_h sl) m).
  assert (Hb : b < ph_nbuckets p).
  { rewrite (proj1 (sim_nbuckets _ _ _ S)). apply PInv_bidx_lt. exact HP. }
  destruct (sim_walk _ _ _ _ S Hb) as (Hn & W & C). rewrite W.
  pose proof S as (HI & R1 & R2 & R3 & R4).
  pose proof HI as (I1 & I2 & I3 & I4 & I5 & I6).
  set (H := nth (N.to_nat b) HS []) in *.
  pose proof (InvW_handles_ok p HS _ HI Hn) as OkH. fold H in OkH.
  assert (WH : wl p b H).
  { apply ph_walk_wl. exact W. }
  destruct (hit_loop f H) as [[[hb j] s]|] eqn:El.
  - (* the key is in the chain: overwrite *)
    destruct (subst_sim p c HS b f (fun _ => [sl]) j s hb (lupd j sl) S Hb El) as (cc & HS' & Ec & S').
    { intros l1 r next <- N1 Ns Ok. cbn [app]. apply set_slot_hit; assumption. }
    rewrite (find_ins_hit f H None hb j s El), Ec. cbn [fst snd].
    destruct (hit_loop_some f (fun _ => [sl]) _ _ _ _ El) as (H1 & H2 & l1 & r & EH & Es & N1 & Ns & Ej & _ & _).
    assert (Hj : (j < 31)%nat).
    { assert (Okb : bucket_ok (bh_b hb)).
      { rewrite Forall_forall in OkH. apply OkH. rewrite EH. apply in_elt. }
      destruct Okb as [L _]. rewrite Es, app_length in L. cbn [length] in L. lia. }
    unfold swr_insert. cbn [mk_writer sw_idx sw_cur sw_prev].
    destruct (Nat.eqb_spec j 31) as [E31|_]; [lia|]. cbn [fst snd sw_cur sw_idx sw_prev].
    unfold swr_write. cbn [sw_prev sw_cur rev fold_left].
    eexists _, HS'. split; [reflexivity|]. exact S'.
  - destruct (hit_loop_none f (fun _ => [sl]) H El) as [Ec _]. rewrite C, Ec. cbn [fst snd].
    rewrite (find_ins_miss f H None El (wl_nonnil _ _ _ WH) OkH).
    destruct (free_writer H) as [w|] eqn:Ef.
    + (* a free slot in some bucket of the chain *)
      destruct (free_writer_some H w Ef) as (H1 & hf & H2 & EH & -> & Lf & Ins).
      unfold swr_insert. cbn [mk_writer sw_idx sw_cur sw_prev].
      destruct (Nat.eqb_spec (length (hlive hf)) 31) as [E31|_]; [lia|]. cbn [fst snd sw_cur sw_idx sw_prev].
      unfold swr_write. cbn [sw_prev sw_cur rev fold_left].
      set (hf' := bh_set_slot hf (length (hlive hf)) sl).
      assert (Okf : bucket_ok (bh_b hf)).
      { rewrite Forall_forall in OkH. apply OkH. rewrite EH. apply in_elt. }
      destruct (set_slot_free (bh_b hf) sl Okf Lf Hnz) as [Ok' Live'].
      pose proof (single_write p HS _ H1 hf H2 hf' HI Hn EH eq_refl Ok') as HI'.
      destruct (write_bh_fields p hf') as (F1 & F2 & F3 & _).
      eexists _, _. split; [reflexivity|].
      assert (Ech : insert_free sl (hchain H) = hchain (H1 ++ hf' :: H2)).
      { rewrite Ins, hchain_app. cbn [hchain map]. f_equal. f_equal. symmetry. exact Live'. }
      rewrite Ech. apply (Sim_chain_set p c HS); try assumption.
      change (ph_nkeys (write_bh p hf') + 1 = px_nkeys c + 1). rewrite F3, R3. reflexivity.
    + (* every bucket is full: a new overflow bucket *)
      destruct (exists_last' H (wl_nonnil _ _ _ WH)) as (Hinit & hl & EH). rewrite EH, last_app_single.
      destruct (append_bucket p HS _ Hinit hl sl HI Hn EH Hnz) as (nb' & Lnb & HI' & F1 & F2 & F3).
      cbn zeta in HI', F1, F2, F3.
      eexists _, _. split; [reflexivity|].
      assert (Ech : insert_free sl (hchain (Hinit ++ [hl])) =
                    hchain (Hinit ++ [bh_set_next hl (bh_off nb'); nb'])).
      { rewrite insert_free_full by (rewrite <- EH; apply free_writer_none; assumption).
        rewrite !hchain_app, <- app_assoc. cbn [hchain map app]. rewrite Lnb. reflexivity. }
      rewrite Ech. apply (Sim_chain_set p c HS); try assumption.
      cbn [set_nkeys ph_nkeys]. rewrite F3, R3. reflexivity.
Qed.


(* ================================================================================================ *)
(** * 13. slotWriter.insert on a chain under construction *)

(* rearrangements of appended lists of offsets *)
Ltac perm_re := apply (Permutation_count_occ N.eq_dec); intros ?; rewrite ?count_occ_app; lia.

Definition whandles (w : swriter) : list bhandle := sw_prev w ++ [sw_cur w].
Definition woffs (w : swriter) : list N := offs_of (whandles w).

Lemma sw_insert_last s c b :
  sw_insert s (c ++ [b]) = if (length b <? cap)%nat then c ++ [b ++ [s]] else c ++ [b; [s]].
Proof.
  induction c as [|b0 c IH]; [reflexivity|]. cbn [app sw_insert].
  destruct (c ++ [b]) as [|b1 c1] eqn:E; [destruct c; discriminate|].
  rewrite IH. destruct (length b <? cap)%nat; reflexivity.
Qed.

Definition WInv (base : bool * N) (w : swriter) (ch : chain) : Prop :=
  sw_idx w = length (hlive (sw_cur w)) /\
  Forall (fun h => bucket_ok (bh_b h)) (whandles w) /\
  chained0 (whandles w) /\
  hchain (whandles w) = ch /\
  exists h0 hs, whandles w = h0 :: hs /\ addr h0 = base.

Lemma offs_of_snoc2 H a b c : bh_off b = bh_off a ->
  offs_of (H ++ [b; c]) = offs_of (H ++ [a]) ++ [bh_off c].
Proof.
  intros E. rewrite !offs_of_tl, !map_app. cbn [map]. rewrite E.
  destruct H as [|h0 H]; cbn [map app tl]; [reflexivity|]. rewrite <- app_assoc. reflexivity.
Qed.

Lemma offs_of_last H a b : bh_off b = bh_off a -> offs_of (H ++ [b]) = offs_of (H ++ [a]).
Proof. intros E. rewrite !offs_of_tl, !map_app. cbn [map]. rewrite E. reflexivity. Qed.

Lemma head_addr_last H a b base : addr b = addr a ->
  (exists h0 hs, H ++ [a] = h0 :: hs /\ addr h0 = base) ->
  forall tl', exists h0 hs, H ++ b :: tl' = h0 :: hs /\ addr h0 = base.
Proof.
  intros E (h0 & hs & Eh & Ea) tl'. destruct H as [|x H]; cbn [app] in *.
  - injection Eh as <- <-. exists b, tl'. split; [reflexivity|congruence].
  - injection Eh as <- <-. eexists x, _. split; [reflexivity|exact Ea].
Qed.

Lemma swr_insert_step p w sl U base ch :
  WInv base w ch -> nz sl ->
  Permutation (U ++ ph_free p) (over_offs (length (ph_over p))) -> Forall bucket_ok (ph_over p) ->
  exists al ext,
    WInv base (snd (swr_insert p w sl)) (sw_insert sl ch) /\
    woffs (snd (swr_insert p w sl)) = woffs w ++ al /\
    Permutation ((U ++ al) ++ ph_free (fst (swr_insert p w sl)))
                (over_offs (length (ph_over (fst (swr_insert p w sl))))) /\
    ph_over (fst (swr_insert p w sl)) = ph_over p ++ ext /\
    Forall bucket_ok (ph_over (fst (swr_insert p w sl))) /\
    ph_main (fst (swr_insert p w sl)) = ph_main p /\
    ph_level (fst (swr_insert p w sl)) = ph_level p /\
    ph_split (fst (swr_insert p w sl)) = ph_split p /\
    ph_nkeys (fst (swr_insert p w sl)) = ph_nkeys p /\
    ph_nbuckets (fst (swr_insert p w sl)) = ph_nbuckets p.
Proof.
  intros (Wi & Wok & Wc & Wh & Wb) Hnz P Ok. destruct w as [cur idx prev].
  unfold whandles, woffs in *. cbn [sw_cur sw_idx sw_prev] in *.
  assert (Okc : bucket_ok (bh_b cur)).
  { rewrite Forall_forall in Wok. apply Wok. apply in_or_app. right. left. reflexivity. }
  pose proof (bucket_ok_live_le _ Okc) as Lle. fold (hlive cur) in Lle.
  unfold swr_insert. cbn [sw_cur sw_idx sw_prev].
  destruct (Nat.eqb_spec idx 31) as [E31|N31].
  - (* the bucket is full: createOverflowBucket *)
    destruct (create_overflow_spec p U P Ok)
      as (o & ext & Enb & Pn & Eov & Okov & Emain & El & Es & Ek & Enbk & Ho & Hv).
    cbn [fst snd sw_cur sw_idx sw_prev]. rewrite Enb. cbn [bh_off].
    set (nb' := bh_set_slot {| bh_main := false; bh_off := o; bh_b := empty_pb |} 0 sl).
    destruct (set_slot_free empty_pb sl (proj1 empty_pb_ok)) as [OkN LiveN]; [cbn; lia|exact Hnz|].
    assert (Hlive : hlive nb' = [sl]) by exact LiveN.
    exists [o], ext. unfold WInv, woffs, whandles. cbn [sw_cur sw_idx sw_prev]. rewrite <- !app_assoc. cbn [app].
    split; [|split; [apply offs_of_snoc2; reflexivity|]].
    + split; [rewrite Hlive; reflexivity|]. split.
      { apply Forall_app in Wok. destruct Wok as [W1 W2]. apply Forall_app. split; [exact W1|].
        constructor; [exact Okc|]. constructor; [exact OkN|constructor]. }
      split; [apply chained0_snoc; auto|]. split.
      { rewrite <- Wh, !hchain_app. cbn [hchain map]. rewrite sw_insert_last.
        change (hlive (bh_set_next cur o)) with (hlive cur). rewrite Hlive.
        destruct (Nat.ltb_spec (length (hlive cur)) cap) as [Lt|_]; [unfold cap in Lt; lia|reflexivity]. }
      apply (head_addr_last prev cur); [reflexivity|exact Wb].
    + split; [rewrite <- app_assoc in Pn; exact Pn|]. repeat split; assumption.
  - (* room in the current bucket *)
    cbn [fst snd sw_cur sw_idx sw_prev].
    assert (Lt : (length (hlive cur) < 31)%nat) by lia.
    destruct (set_slot_free (bh_b cur) sl Okc Lt Hnz) as [Ok' Live'].
    pose proof Wi as Wi'. unfold hlive in Wi'. rewrite <- Wi' in Ok', Live'.
    set (cur' := bh_set_slot cur idx sl).
    assert (Hlive : hlive cur' = hlive cur ++ [sl]) by exact Live'.
    exists [], []. unfold WInv, woffs, whandles. cbn [sw_cur sw_idx sw_prev]. rewrite !app_nil_r.
    split; [|split; [apply offs_of_last; reflexivity|]].
    + split; [rewrite Hlive, app_length; cbn [length]; lia|]. split.
      { apply Forall_app in Wok. destruct Wok as [W1 W2]. apply Forall_app. split; [exact W1|].
        constructor; [exact Ok'|constructor]. }
      split.
      { apply (chained0_ext (prev ++ [cur])); [|exact Wc]. rewrite !map_app. reflexivity. }
      split.
      { rewrite <- Wh, !hchain_app. cbn [hchain map]. rewrite sw_insert_last, Hlive.
        destruct (Nat.ltb_spec (length (hlive cur)) cap) as [_|Ge]; [reflexivity|unfold cap in Ge; lia]. }
      apply (head_addr_last prev cur); [reflexivity|exact Wb].
    + split; [exact P|]. repeat split; auto.
Qed.

(* ================================================================================================ *)
(** * 14. The loops of index.split *)

Lemma split_fold_fst lv sp ub H : forall st fr,
  fst (fold_left (split_bucket lv sp ub) H (st, fr)) =
    fold_left (split_body lv sp ub) (concat (hchain H)) st.
Proof.
  induction H as [|h H IH]; intros st fr; [reflexivity|].
  cbn [fold_left hchain map concat]. rewrite fold_left_app. unfold split_bucket at 2.
  cbn [fst snd]. rewrite IH. reflexivity.
Qed.

(* the offsets remembered by the bucket loop: every b.next <> 0, in order *)
Lemma split_fold_snd lv sp ub hs : forall h0 st fr, chained (pb_next (bh_b h0)) hs ->
  snd (fold_left (split_bucket lv sp ub) (h0 :: hs) (st, fr)) = fr ++ map bh_off hs.
Proof.
  induction hs as [|h hs IH]; intros h0 st fr C; cbn [chained] in C.
  - cbn [fold_left]. unfold split_bucket. cbn [fst snd map]. rewrite C. cbn [N.eqb].
    rewrite app_nil_r. reflexivity.
  - destruct C as (C1 & C2 & C3 & C4).
    change (fold_left (split_bucket lv sp ub) (h0 :: h :: hs) (st, fr))
      with (fold_left (split_bucket lv sp ub) (h :: hs) (split_bucket lv sp ub (st, fr) h0)).
    unfold split_bucket at 2. cbn [fst snd].
    destruct (N.eqb_spec (pb_next (bh_b h0)) 0) as [E|_]; [congruence|].
    rewrite (IH h _ _ C4). cbn [map]. rewrite <- app_assoc, C1. reflexivity.
Qed.

(* the state of the slot loop *)
Record SplitSt (p2 : phys) (U0 : list N) (bu bn : bool * N)
               (st : phys * swriter * swriter) (ab : chain * chain) : Prop := {
  ss_upd : WInv bu (snd (fst st)) (fst ab);
  ss_sw : WInv bn (snd st) (snd ab);
  ss_perm : Permutation ((U0 ++ woffs (snd (fst st)) ++ woffs (snd st)) ++ ph_free (fst (fst st)))
                        (over_offs (length (ph_over (fst (fst st)))));
  ss_over : exists ext, ph_over (fst (fst st)) = ph_over p2 ++ ext;
  ss_ok : Forall bucket_ok (ph_over (fst (fst st)));
  ss_main : ph_main (fst (fst st)) = ph_main p2;
  ss_level : ph_level (fst (fst st)) = ph_level p2;
  ss_split : ph_split (fst (fst st)) = ph_split p2;
  ss_nkeys : ph_nkeys (fst (fst st)) = ph_nkeys p2;
  ss_nbuckets : ph_nbuckets (fst (fst st)) = ph_nbuckets p2
}.

Lemma split_slots_inv p2 U0 bu bn lv sp ub l : forall st ab, Forall nz l ->
  SplitSt p2 U0 bu bn st ab ->
  SplitSt p2 U0 bu bn (fold_left (split_body lv sp ub) l st) (fold_left (split_step lv sp ub) l ab).
Proof.
  induction l as [|s l IH]; intros st ab Hl S; [exact S|].
  inversion Hl as [|s_ l_ Hs Hl']; subst s_ l_. cbn [fold_left]. apply IH; [exact Hl'|].
  destruct st as [[p upd] sw]. destruct ab as [cu cn]. destruct S as [S1 S2 S3 S4 S5 S6 S7 S8 S9 S10].
  cbn [fst snd] in *. unfold split_body, split_step. cbn [fst snd].
  destruct (bucket_index lv sp (sl_h s) =? ub).
  - assert (P : Permutation ((U0 ++ woffs upd ++ woffs sw) ++ ph_free p) (over_offs (length (ph_over p))))
      by exact S3.
    destruct (swr_insert_step p upd s _ bu cu S1 Hs P S5)
      as (al & ext & W' & Eo & P' & Eov & Okov & Em & E1 & E2 & E3 & E4).
    constructor; cbn [fst snd]; try congruence; try assumption.
    + rewrite Eo. rewrite <- P'. apply Permutation_app_tail. perm_re.
    + destruct S4 as [ext0 S4]. exists (ext0 ++ ext). rewrite Eov, S4, app_assoc. reflexivity.
  - assert (P : Permutation ((U0 ++ woffs upd ++ woffs sw) ++ ph_free p) (over_offs (length (ph_over p))))
      by exact S3.
    destruct (swr_insert_step p sw s _ bn cn S2 Hs P S5)
      as (al & ext & W' & Eo & P' & Eov & Okov & Em & E1 & E2 & E3 & E4).
    constructor; cbn [fst snd]; try congruence; try assumption.
    + rewrite Eo. rewrite <- P'. apply Permutation_app_tail. perm_re.
    + destruct S4 as [ext0 S4]. exists (ext0 ++ ext). rewrite Eov, S4, app_assoc. reflexivity.
Qed.

Lemma fresh_writer_WInv off : WInv (true, off) (fresh_main_writer off) [[]].
Proof.
  unfold WInv, fresh_main_writer, whandles, mk_writer. cbn [sw_idx sw_cur sw_prev app].
  split; [reflexivity|]. split; [constructor; [apply empty_pb_ok|constructor]|].
  split; [reflexivity|]. split; [reflexivity|]. eexists _, []. split; reflexivity.
Qed.

Lemma hchain_nz H : Forall nz (concat (hchain H)).
Proof.
  induction H as [|h H IH]; cbn [hchain map concat]; [constructor|].
  apply Forall_app. split; [apply dense_nz|exact IH].
Qed.

(* the handles of a writer: one main handle, then overflow handles *)
Lemma WInv_addrs base w ch : WInv base w ch ->
  map addr (whandles w) = base :: map (pair false) (woffs w).
Proof.
  intros (_ & _ & Wc & _ & (h0 & hs & Eh & Ea)). unfold woffs. rewrite Eh in *.
  cbn [chained0] in Wc. unfold offs_of. cbn [map tl]. rewrite Ea. f_equal.
  pose proof (chained_over _ _ Wc) as F. clear - F.
  induction F as [|h hs Hh Hhs IH]; [reflexivity|]. cbn [map]. rewrite IH. unfold addr. rewrite Hh. reflexivity.
Qed.


(* ================================================================================================ *)
(** * 15. index.split *)

Definition avalid (p : phys) (a : bool * N) : Prop :=
  pb_read (if fst a then ph_main p else ph_over p) (snd a) <> None.

Lemma hvalid_avalid p H : Forall (avalid p) (map addr H) -> Forall (hvalid p) H.
Proof. intros F. rewrite Forall_map in F. exact F. Qed.

Lemma nodup_two_writers (a b : list N) x y : NoDup (a ++ b) -> x <> y ->
  NoDup (((true, x) :: map (pair false) b) ++ (true, y) :: map (pair false) a).
Proof.
  intros Nd Hne.
  assert (Ht : forall (z : N) (l : list N), ~ In (true, z) (map (pair false) l)).
  { intros z l Hc. apply in_map_iff in Hc. destruct Hc as (? & E & _). discriminate. }
  apply (Permutation_NoDup (l := (true, x) :: (true, y) :: map (pair false) (a ++ b))).
  - cbn [app]. apply perm_skip. rewrite map_app.
    exact (Permutation_app_comm ((true, y) :: map (pair false) a) (map (pair false) b)).
  - constructor; [intros [E|Hc]; [congruence|exact (Ht _ _ Hc)]|].
    constructor; [apply Ht|]. apply FinFun.Injective_map_NoDup; [|exact Nd].
    intros u v E. congruence.
Qed.

Lemma perm_rev_snoc {A} (l : list A) x : Permutation (rev l ++ [x]) (l ++ [x]).
Proof. apply Permutation_app_tail. apply Permutation_sym, Permutation_rev. Qed.

Lemma hreads_main_ext p p' ext h : ph_main p' = ph_main p ++ ext -> ph_over p' = ph_over p ->
  hreads p h -> hreads p' h.
Proof.
  intros Em Eo. unfold hreads. rewrite Em, Eo. destruct (bh_main h); [|tauto].
  intros R. rewrite pb_read_app by congruence. exact R.
Qed.

(* index.split after the walk H of the split chain, with the free list F0 during the loop and the
   offsets FE appended to the free list after the loop.  index.split itself: F0 = the free list,
   FE = the overflow offsets of H. *)
Definition split_result (p : phys) (H : list bhandle) (F0 FE : list N) : phys :=
  let ub := ph_split p in
  let adv := advance (ph_level p) ub in
  let p2 := set_free (set_ptr (set_main p (ph_main p ++ [empty_pb])) (fst adv) (snd adv)) F0 in
  let st := fold_left (split_body (fst adv) (snd adv) ub) (concat (hchain H))
              (p2, fresh_main_writer (bucket_off ub), fresh_main_writer (bucket_off (nlen (ph_main p)))) in
  let p4 := set_free (fst (fst st)) (ph_free (fst (fst st)) ++ FE) in
  let p6 := swr_write (swr_write p4 (snd st)) (snd (fst st)) in
  set_nbuckets p6 (ph_nbuckets p6 + 1).

Lemma split_core p c HS F0 FE : Sim p c HS -> PInv c ->
  Permutation (F0 ++ FE) (ph_free p ++ offs_of (nth (N.to_nat (ph_split p)) HS [])) ->
  exists HS', Sim (split_result p (nth (N.to_nat (ph_split p)) HS []) F0 FE) (px_dosplit c) HS'.
Proof.
  intros SS HP HF. pose proof SS as (HI & R1 & R2 & R3 & R4).
  pose proof HI as (I1 & I2 & I3 & I4 & I5 & I6).
  destruct (sim_nbuckets _ _ _ SS) as [Nb1 Nb2].
  assert (Hub : ph_split p < ph_nbuckets p).
  { rewrite R2, Nb1. apply PInv_split_lt. exact HP. }
  destruct (sim_walk _ _ _ _ SS Hub) as (Hn & W & C).
  unfold split_result, px_dosplit.
  set (ub := ph_split p) in *. set (i := N.to_nat ub) in *. set (H := nth i HS []) in *.
  assert (WH : wl p ub H) by (apply ph_walk_wl; exact W).
  destruct (InvW_focus p HS i HI Hn) as (R & P1 & P2 & P3). fold H in P1.
  rewrite <- R1, <- R2. fold ub.
  set (adv := advance (ph_level p) ub).
  set (p2 := set_free (set_ptr (set_main p (ph_main p ++ [empty_pb])) (fst adv) (snd adv)) F0).
  assert (Rd2 : forall h, hreads p h -> hreads p2 h).
  { intros h. apply (hreads_main_ext p p2 [empty_pb]); reflexivity. }
  set (bu := (true, bucket_off ub)). set (bn := (true, bucket_off (nlen (ph_main p)))).
  set (U0 := R ++ FE).
  assert (S0 : SplitSt p2 U0 bu bn
                 (p2, fresh_main_writer (bucket_off ub), fresh_main_writer (bucket_off (nlen (ph_main p))))
                 ([[]], [[]])).
  { constructor; cbn [fst snd]; try reflexivity.
    - apply fresh_writer_WInv.
    - apply fresh_writer_WInv.
    - unfold woffs, fresh_main_writer, whandles, mk_writer, offs_of. cbn [sw_prev sw_cur app tl map].
      rewrite !app_nil_r. cbn [p2 set_free ph_free ph_over set_ptr set_main]. rewrite <- P1.
      apply (Permutation_count_occ N.eq_dec). intros x.
      pose proof (proj1 (Permutation_count_occ N.eq_dec _ _) HF x) as HFx. fold i in HFx. fold H in HFx.
      unfold U0. unfold offs_of in *. rewrite ?count_occ_app in *. lia.
    - exists []. rewrite app_nil_r. reflexivity.
    - exact I3. }
  pose proof (split_slots_inv p2 U0 bu bn (fst adv) (snd adv) ub (concat (hchain H)) _ _
                (hchain_nz H) S0) as S1.
  rewrite C.
  set (ab := fold_left (split_step (fst adv) (snd adv) ub) (concat (hchain H)) ([[]], [[]])) in *.
  destruct (fold_left (split_body (fst adv) (snd adv) ub) (concat (hchain H))
              (p2, fresh_main_writer (bucket_off ub), fresh_main_writer (bucket_off (nlen (ph_main p)))))
    as [[p3 upd'] sw']. cbn [fst snd].
  destruct S1 as [Su Sn SP [ext Sov] Sok Sm Slv Ssp Snk Snb]. cbn [fst snd] in *.
  set (p4 := set_free p3 (ph_free p3 ++ FE)).
  rewrite !swr_write_fold, <- fold_left_app.
  set (Ws := (rev (sw_prev sw') ++ [sw_cur sw']) ++ rev (sw_prev upd') ++ [sw_cur upd']).
  assert (PW : Permutation Ws (whandles sw' ++ whandles upd')).
  { unfold Ws, whandles. apply Permutation_app; apply perm_rev_snoc. }
  assert (EA : map addr (whandles sw' ++ whandles upd') =
               (bn :: map (pair false) (woffs sw')) ++ bu :: map (pair false) (woffs upd')).
  { rewrite map_app, (WInv_addrs _ _ _ Su), (WInv_addrs _ _ _ Sn). reflexivity. }
  assert (NdUW : NoDup (U0 ++ woffs upd' ++ woffs sw')).
  { exact (proj1 (perm_app_NoDup_l _ _ _ SP (over_offs_NoDup _))). }
  assert (NdW : NoDup (woffs upd' ++ woffs sw') /\ forall o, In o U0 -> In o (woffs upd' ++ woffs sw') -> False).
  { destruct (perm_app_NoDup_l _ _ _ (Permutation_refl _) NdUW) as (_ & A & B). split; assumption. }
  assert (Hubn : bucket_off (nlen (ph_main p)) <> bucket_off ub).
  { intros E. apply bucket_off_inj in E. lia. }
  assert (NdA : NoDup (map addr Ws)).
  { apply (Permutation_NoDup (Permutation_sym (Permutation_map addr PW))). rewrite EA.
    apply nodup_two_writers; [exact (proj1 NdW)|exact Hubn]. }
  assert (Wvalid : forall o, In o (woffs upd' ++ woffs sw') -> pb_read (ph_over p3) o <> None).
  { intros o Ho. apply over_offs_read. apply (Permutation_in _ SP).
    apply in_or_app. left. apply in_or_app. right. exact Ho. }
  assert (VW : Forall (hvalid p4) Ws).
  { apply (Permutation_Forall (Permutation_sym PW)). apply hvalid_avalid. rewrite EA.
    assert (Vo : forall l, (forall o, In o l -> In o (woffs upd' ++ woffs sw')) ->
                           Forall (avalid p4) (map (pair false) l)).
    { intros l Hl. apply Forall_forall. intros a Ha. apply in_map_iff in Ha.
      destruct Ha as (o & <- & Ho). unfold avalid. cbn [fst snd p4 set_free ph_over].
      apply Wvalid, Hl, Ho. }
    apply Forall_app. split; constructor.
    - unfold avalid, bn. cbn [fst snd p4 set_free ph_main]. rewrite Sm.
      cbn [p2 set_free set_ptr set_main ph_main]. rewrite pb_read_app_new. discriminate.
    - apply Vo. intros o Ho. apply in_or_app. right. exact Ho.
    - unfold avalid, bu. cbn [fst snd p4 set_free ph_main]. rewrite Sm.
      cbn [p2 set_free set_ptr set_main ph_main]. rewrite pb_read_app by (apply pb_read_in_range; lia).
      apply pb_read_in_range. lia.
    - apply Vo. intros o Ho. apply in_or_app. left. exact Ho. }
  assert (OkW : Forall (fun h => bucket_ok (bh_b h)) Ws).
  { apply (Permutation_Forall (Permutation_sym PW)). apply Forall_app. split.
    - exact (proj1 (proj2 Sn)).
    - exact (proj1 (proj2 Su)). }
  assert (Om4 : Forall bucket_ok (ph_main p4)).
  { cbn [p4 set_free ph_main]. rewrite Sm. cbn [p2 set_free set_ptr set_main ph_main].
    apply Forall_app. split; [exact I2|]. constructor; [apply empty_pb_ok|constructor]. }
  destruct (writes_spec Ws p4 NdA VW OkW Om4 Sok)
    as (RdW & Keep & _ & G1 & G2 & G3 & G4 & G5 & G6 & G7 & G8 & G9).
  set (p6 := fold_left write_bh Ws p4) in *.
  set (p' := set_nbuckets p6 (ph_nbuckets p6 + 1)).
  assert (RdW' : Forall (hreads p6) (whandles sw' ++ whandles upd')).
  { exact (Permutation_Forall PW RdW). }
  apply Forall_app in RdW'. destruct RdW' as [RdSw RdUpd].
  assert (InW : forall a, In a (map addr Ws) ->
            a = bn \/ a = bu \/ exists o, a = (false, o) /\ In o (woffs upd' ++ woffs sw')).
  { intros a Ha. apply (Permutation_in _ (Permutation_map addr PW)) in Ha. rewrite EA in Ha.
    apply in_app_or in Ha. destruct Ha as [[<-|Ha]|[<-|Ha]]; auto; right; right;
      apply in_map_iff in Ha; destruct Ha as (o & <- & Ho); exists o; (split; [reflexivity|]);
      apply in_or_app; auto. }
  assert (Lov : (length (ph_over p) <= length (ph_over p6))%nat).
  { rewrite G7. cbn [p4 set_free ph_over]. rewrite Sov. cbn [p2 set_free set_ptr set_main ph_over].
    rewrite app_length. lia. }
  assert (Lw : forall w, (length (woffs w) <= length (ph_over p6))%nat ->
                         (length (whandles w) <= S (S (length (ph_over p6))))%nat).
  { intros w. unfold woffs, offs_of. rewrite map_length. destruct (whandles w); cbn [tl length]; lia. }
  assert (Lwo : (length (woffs upd') <= length (ph_over p6))%nat /\
                (length (woffs sw') <= length (ph_over p6))%nat).
  { rewrite G7. cbn [p4 set_free ph_over]. rewrite <- (over_offs_length (length (ph_over p3))).
    split.
    - apply (perm_length_le _ ((U0 ++ woffs sw') ++ ph_free p3)). rewrite <- SP. perm_re.
    - apply (perm_length_le _ ((U0 ++ woffs upd') ++ ph_free p3)). rewrite <- SP. perm_re. }
  assert (HI' : InvW p' (lupd i (whandles upd') HS ++ [whandles sw'])).
  { apply (InvW_update p p' HS i _ R [whandles sw']); try assumption.
    - cbn [p' set_nbuckets ph_main ph_nbuckets]. rewrite G4, nlenE, G6.
      cbn [p4 set_free ph_main ph_nbuckets]. rewrite Sm, Snb.
      cbn [p2 set_free set_ptr set_main ph_main ph_nbuckets]. rewrite app_length, <- I1, nlenE. cbn [length]. lia.
    - cbn [p' set_nbuckets ph_main]. rewrite G6. cbn [p4 set_free ph_main]. rewrite Sm.
      cbn [p2 set_free set_ptr set_main ph_main]. rewrite app_length. reflexivity.
    - apply wl_chained0. split; [|split; [|split]].
      + destruct Su as (_ & _ & _ & _ & (x0 & xs & Ex & Ea)). exists x0, xs.
        split; [exact Ex|]. unfold addr, bu in Ea. injection Ea as Ea1 Ea2.
        unfold i. rewrite N2Nat.id. auto.
      + exact (proj1 (proj2 (proj2 Su))).
      + exact RdUpd.
      + apply Lw. exact (proj1 Lwo).
    - intros j Hne Hj. apply Forall_forall. intros x Hx.
      pose proof (proj1 (ph_walk_wl _ _ _) (I5 _ Hj)) as Wj.
      pose proof Wj as (_ & _ & _ & _ & _ & _ & Rd & _). rewrite Forall_forall in Rd.
      apply Keep.
      + apply (hreads_alloc p2 p4 ext); [exact Sm|exact Sov|]. apply Rd2, Rd. exact Hx.
      + intros Hc. assert (Hin : In (addr x) (map addr (nth j HS []))) by (apply in_map; exact Hx).
        destruct (wl_addr_in _ _ _ _ Wj Hin) as [E|(o & E & Ho)]; rewrite E in Hc;
          destruct (InW _ Hc) as [E'|[E'|(o' & E' & Ho')]]; try discriminate E'.
        * injection E' as E'. apply bucket_off_inj in E'. rewrite I4 in Hj. lia.
        * injection E' as E'. apply bucket_off_inj in E'. unfold i in Hne. lia.
        * injection E' as <-. apply (proj2 NdW o); [|exact Ho'].
          unfold U0. apply in_or_app. left. apply (P3 j o); assumption.
    - intros k Hk. cbn [length] in Hk. assert (k = 0%nat) as -> by lia. cbn [nth].
      apply wl_chained0. split; [|split; [|split]].
      + destruct Sn as (_ & _ & _ & _ & (x0 & xs & Ex & Ea)). exists x0, xs.
        split; [exact Ex|]. unfold addr, bn in Ea. injection Ea as Ea1 Ea2.
        rewrite Nat.add_0_r, I4, <- nlenE. auto.
      + exact (proj1 (proj2 (proj2 Sn))).
      + exact RdSw.
      + apply Lw. exact (proj2 Lwo).
    - cbn [p' set_nbuckets ph_free ph_over map concat]. rewrite G5, G7, app_nil_r.
      cbn [p4 set_free ph_free ph_over]. rewrite <- SP.
      fold (woffs upd'). fold (woffs sw'). unfold U0. perm_re. }
  eexists. split; [exact HI'|].
  cbn [p' set_nbuckets ph_level ph_split ph_nkeys px_level px_split px_nkeys px_chains].
  rewrite G1, G2, G3. cbn [p4 set_free ph_level ph_split ph_nkeys]. rewrite Slv, Ssp, Snk.
  cbn [p2 set_free set_ptr set_main ph_level ph_split ph_nkeys].
  split; [reflexivity|]. split; [reflexivity|]. split; [exact R3|].
  rewrite map_app, map_lupd, R4. cbn [map].
  rewrite (proj1 (proj2 (proj2 (proj2 Su)))), (proj1 (proj2 (proj2 (proj2 Sn)))). reflexivity.
Qed.

(* the walk of the split chain is not disturbed by main.extend and the pointer advance *)
Lemma split_walk p c HS p2 : Sim p c HS -> PInv c ->
  ph_main p2 = ph_main p ++ [empty_pb] -> ph_over p2 = ph_over p ->
  ph_walk p2 (ph_split p) = Some (nth (N.to_nat (ph_split p)) HS []) /\
  exists h0 hs, nth (N.to_nat (ph_split p)) HS [] = h0 :: hs /\ chained (pb_next (bh_b h0)) hs.
Proof.
  intros SS HP Em Eo. pose proof SS as (HI & R1 & R2 & R3 & R4).
  destruct (sim_nbuckets _ _ _ SS) as [Nb1 Nb2].
  assert (Hub : ph_split p < ph_nbuckets p).
  { rewrite R2, Nb1. apply PInv_split_lt. exact HP. }
  destruct (sim_walk _ _ _ _ SS Hub) as (Hn & W & C).
  assert (WH : wl p (ph_split p) (nth (N.to_nat (ph_split p)) HS [])) by (apply ph_walk_wl; exact W).
  split.
  - apply ph_walk_wl. apply (wl_frame p); [exact WH| |rewrite Eo; apply Nat.le_refl].
    destruct WH as (_ & _ & _ & _ & _ & _ & Rd & _). eapply Forall_impl; [|exact Rd].
    intros h. apply (hreads_main_ext p _ [empty_pb]); assumption.
  - destruct WH as (h0 & hs & E & _ & _ & Ch & _). exists h0, hs. auto.
Qed.

Lemma split_sim p c HS : Sim p c HS -> PInv c -> exists HS', Sim (ph_dosplit p) (px_dosplit c) HS'.
Proof.
  intros SS HP.
  destruct (split_walk p c HS
              (set_ptr (set_main p (ph_main p ++ [empty_pb])) (fst (advance (ph_level p) (ph_split p)))
                 (snd (advance (ph_level p) (ph_split p)))) SS HP eq_refl eq_refl)
    as (W2 & h0 & hs & EH & Ch).
  assert (E : ph_dosplit p = split_result p (nth (N.to_nat (ph_split p)) HS []) (ph_free p)
                               (offs_of (nth (N.to_nat (ph_split p)) HS []))).
  { unfold ph_dosplit, split_result. rewrite W2. rewrite split_fold_fst. rewrite EH.
    rewrite (split_fold_snd _ _ _ hs h0 _ [] Ch). reflexivity. }
  rewrite E. apply split_core; [exact SS|exact HP|apply Permutation_refl].
Qed.

(* FINDING: freeing the old overflow buckets of the chain BEFORE the re-insertion is equally
   correct (in every state, for every chain): the slot writers only write after the loop. *)
Lemma set_free_app_nil p : set_free p (ph_free p ++ []) = p.
Proof.
  destruct p as [a b c d e f g]. unfold set_free.
  cbn [ph_free ph_level ph_split ph_nkeys ph_nbuckets ph_main ph_over]. rewrite app_nil_r. reflexivity.
Qed.

Lemma split_early_free_sim p c HS : Sim p c HS -> PInv c ->
  exists HS', Sim (PhysVariants.ph_dosplit_early_free p) (px_dosplit c) HS'.
Proof.
  intros SS HP.
  destruct (split_walk p c HS
              (set_ptr (set_main p (ph_main p ++ [empty_pb])) (fst (advance (ph_level p) (ph_split p)))
                 (snd (advance (ph_level p) (ph_split p)))) SS HP eq_refl eq_refl)
    as (W2 & h0 & hs & EH & Ch).
  assert (E : PhysVariants.ph_dosplit_early_free p =
              split_result p (nth (N.to_nat (ph_split p)) HS [])
                (ph_free p ++ offs_of (nth (N.to_nat (ph_split p)) HS [])) []).
  { unfold PhysVariants.ph_dosplit_early_free, split_result. rewrite W2. rewrite split_fold_fst.
    rewrite set_free_app_nil. reflexivity. }
  rewrite E. apply split_core; [exact SS|exact HP|]. rewrite app_nil_r. apply Permutation_refl.
Qed.


(* ================================================================================================ *)
(** * 16. index.put *)

Theorem phys_put_sim grow p c sl m : PhysInv p -> R_phys p c -> PInv c -> sl_off sl <> 0 ->
  snd (ix_put phys_ops grow p sl m) = snd (ix_put chain_ops grow c sl m) /\
  R_phys (fst (ix_put phys_ops grow p sl m)) (fst (ix_put chain_ops grow c sl m)) /\
  PhysInv (fst (ix_put phys_ops grow p sl m)).
Proof.
  intros HI HR HP Hnz. destruct (sim_intro _ _ HI HR) as [HS SS].
  destruct (put_core_sim p c sl m HS SS HP Hnz) as (p1 & HS1 & E & S1).
  cbn [ix_put phys_ops chain_ops]. unfold ph_put, px_put, px_put_with. rewrite E.
  destruct (px_put_core c sl m) as [c1 o1] eqn:Ec. cbn [fst snd] in *.
  destruct (px_put_core_spec _ _ _ _ _ HP Ec) as (HP1 & _).
  destruct o1 as [o|]; cbn [fst snd].
  - split; [reflexivity|]. apply sim_elim in S1. tauto.
  - split; [reflexivity|].
    assert (Eg : grow (ph_nkeys p1) (ph_nbuckets p1) = grow (px_nkeys c1) (nlen (px_chains c1))).
    { rewrite (proj1 (sim_nbuckets _ _ _ S1)). destruct S1 as (_ & _ & _ & -> & _). reflexivity. }
    rewrite Eg. destruct (grow (px_nkeys c1) (nlen (px_chains c1))).
    + destruct (split_sim _ _ _ S1 HP1) as [HS2 S2]. apply sim_elim in S2. tauto.
    + apply sim_elim in S1. tauto.
Qed.

(* index.split alone *)
Theorem phys_split_sim p c : PhysInv p -> R_phys p c -> PInv c ->
  R_phys (ph_dosplit p) (px_dosplit c) /\ PhysInv (ph_dosplit p).
Proof.
  intros HI HR HP. destruct (sim_intro _ _ HI HR) as [HS SS].
  destruct (split_sim _ _ _ SS HP) as [HS2 S2]. apply sim_elim in S2. tauto.
Qed.

(* FINDING: the order "allocate the new overflow buckets, THEN free the old ones" of index.split is
   not needed: the variant that frees first simulates the same chain index and keeps PhysInv, in
   every state (it may pick different offsets and does not grow the file; see PhysRun.z72_split). *)
Theorem phys_split_early_free_sim p c : PhysInv p -> R_phys p c -> PInv c ->
  R_phys (PhysVariants.ph_dosplit_early_free p) (px_dosplit c) /\
  PhysInv (PhysVariants.ph_dosplit_early_free p).
Proof.
  intros HI HR HP. destruct (sim_intro _ _ HI HR) as [HS SS].
  destruct (split_early_free_sim _ _ _ SS HP) as [HS2 S2]. apply sim_elim in S2. tauto.
Qed.

Theorem phys_put_early_free_sim grow p c sl m : PhysInv p -> R_phys p c -> PInv c -> sl_off sl <> 0 ->
  snd (PhysVariants.ph_put_early_free grow p sl m) = snd (px_put grow c sl m) /\
  R_phys (fst (PhysVariants.ph_put_early_free grow p sl m)) (fst (px_put grow c sl m)) /\
  PhysInv (fst (PhysVariants.ph_put_early_free grow p sl m)).
Proof.
  intros HI HR HP Hnz. destruct (sim_intro _ _ HI HR) as [HS SS].
  destruct (put_core_sim p c sl m HS SS HP Hnz) as (p1 & HS1 & E & S1).
  unfold PhysVariants.ph_put_early_free, px_put, px_put_with. rewrite E.
  destruct (px_put_core c sl m) as [c1 o1] eqn:Ec. cbn [fst snd] in *.
  destruct (px_put_core_spec _ _ _ _ _ HP Ec) as (HP1 & _).
  destruct o1 as [o|]; cbn [fst snd].
  - split; [reflexivity|]. apply sim_elim in S1. tauto.
  - split; [reflexivity|].
    assert (Eg : grow (ph_nkeys p1) (ph_nbuckets p1) = grow (px_nkeys c1) (nlen (px_chains c1))).
    { rewrite (proj1 (sim_nbuckets _ _ _ S1)). destruct S1 as (_ & _ & _ & -> & _). reflexivity. }
    rewrite Eg. destruct (grow (px_nkeys c1) (nlen (px_chains c1))).
    + destruct (split_early_free_sim _ _ _ S1 HP1) as [HS2 S2]. apply sim_elim in S2. tauto.
    + apply sim_elim in S1. tauto.
Qed.

(* ================================================================================================ *)
(** * 17. What PhysInv says, in the words of the specification *)

Lemma PhysInv_walks p : PhysInv p ->
  nlen (ph_main p) = ph_nbuckets p /\
  forall i, i < ph_nbuckets p -> exists H, ph_walk p i = Some H.
Proof.
  intros (HS & I1 & _ & _ & I4 & I5 & _). split; [exact I1|]. intros i Hi.
  exists (nth (N.to_nat i) HS []). rewrite <- (N2Nat.id i) at 1. apply I5.
  rewrite I4. rewrite <- I1, nlenE in Hi. lia.
Qed.

(* every bucket array has 31 slots, the live ones first and every live slot has offset <> 0 *)
Theorem PhysInv_buckets p b : PhysInv p -> In b (ph_main p ++ ph_over p) ->
  length (pb_slots b) = 31%nat /\
  pb_slots b = pb_live b ++ repeat empty_slot (31 - length (pb_live b)) /\
  Forall (fun s => sl_off s <> 0) (pb_live b).
Proof.
  intros (HS & _ & I2 & I3 & _) Hb.
  assert (Ok : bucket_ok b).
  { apply in_app_or in Hb. destruct Hb as [Hb|Hb];
      [rewrite Forall_forall in I2; exact (I2 _ Hb)|rewrite Forall_forall in I3; exact (I3 _ Hb)]. }
  destruct Ok as [L E]. split; [exact L|]. split; [exact E|apply dense_nz].
Qed.

(* the overflow offsets reachable from the chains (in chain order), if every walk succeeds *)
Fixpoint all_walks (p : phys) (n : nat) : option (list (list bhandle)) :=
  match n with
  | O => Some []
  | S n' => match all_walks p n', ph_walk p (N.of_nat n') with
            | Some l, Some H => Some (l ++ [H])
            | _, _ => None
            end
  end.

Lemma all_walks_spec p HS : forall n, (n <= length HS)%nat ->
  (forall i, (i < length HS)%nat -> ph_walk p (N.of_nat i) = Some (nth i HS [])) ->
  all_walks p n = Some (firstn n HS).
Proof.
  induction n as [|n IH]; intros Hn W; [reflexivity|]. cbn [all_walks].
  rewrite IH by (try lia; exact W). rewrite W by lia. f_equal.
  clear - Hn. revert n Hn. induction HS as [|H0 HS IH]; intros n Hn; cbn [length] in Hn; [lia|].
  destruct n as [|n]; [reflexivity|]. cbn [firstn nth app]. f_equal. apply IH. lia.
Qed.

Lemma all_walks_sound p : forall n HS, all_walks p n = Some HS ->
  length HS = n /\ forall i, (i < n)%nat -> ph_walk p (N.of_nat i) = Some (nth i HS []).
Proof.
  induction n as [|n IH]; intros HS; cbn [all_walks].
  - intros E. injection E as <-. split; [reflexivity|]. intros i Hi. lia.
  - destruct (all_walks p n) as [l|] eqn:El; [|discriminate].
    destruct (ph_walk p (N.of_nat n)) as [H|] eqn:Ew; [|discriminate].
    intros E. injection E as <-. destruct (IH l eq_refl) as [L W]. split.
    + rewrite app_length. cbn [length]. lia.
    + intros i Hi. destruct (Nat.eq_dec i n) as [->|Hne].
      * rewrite app_nth2 by lia. rewrite L, Nat.sub_diag. exact Ew.
      * rewrite app_nth1 by lia. apply W. lia.
Qed.

Definition reachable (p : phys) : option (list N) :=
  option_map (fun HS => concat (map offs_of HS)) (all_walks p (length (ph_main p))).

(* no overflow bucket is shared, every next / free-list entry is a valid offset, chains are
   acyclic, nothing leaks: reachable offsets ++ free list is a duplicate-free enumeration of ALL
   the buckets of overflow.pix *)
Theorem PhysInv_overflow p : PhysInv p ->
  exists offs, reachable p = Some offs /\
    NoDup (offs ++ ph_free p) /\
    (forall o, In o (offs ++ ph_free p) <-> exists j, o = bucket_off j /\ j < nlen (ph_over p)) /\
    nlen (ph_over p) = nlen offs + nlen (ph_free p).
Proof.
  intros (HS & HI). pose proof HI as (_ & _ & _ & I4 & I5 & I6).
  exists (concat (map offs_of HS)). split.
  - unfold reachable. rewrite <- I4. rewrite (all_walks_spec p HS _ (Nat.le_refl _) I5).
    rewrite firstn_all. reflexivity.
  - split; [exact (InvW_NoDup _ _ HI)|]. split; [|exact (InvW_count _ _ HI)].
    intros o. split; [apply (InvW_valid _ _ _ HI)|]. intros (j & -> & Hj). exact (InvW_no_leak _ _ _ HI Hj).
Qed.

(* ================================================================================================ *)
(** * 18. Executable checkers *)

Definition slot_eq_dec (a b : slot) : {a = b} + {a <> b}.
Proof. decide equality; apply N.eq_dec. Defined.

Definition slots_eqb (a b : list slot) : bool := if list_eq_dec slot_eq_dec a b then true else false.

Definition bucket_ok_b (b : pbucket) : bool :=
  (length (pb_slots b) =? 31)%nat && slots_eqb (pb_slots b) (pad_slots (pb_live b)).

Lemma bucket_ok_b_ok b : bucket_ok_b b = true -> bucket_ok b.
Proof.
  unfold bucket_ok_b, bucket_ok, slots_eqb. rewrite andb_true_iff, Nat.eqb_eq.
  destruct (list_eq_dec slot_eq_dec (pb_slots b) (pad_slots (pb_live b))); [tauto|].
  intros [_ H]. discriminate.
Qed.

(* is l a permutation of the duplicate-free list r?  (same length, every element of r in l) *)
Definition perm_b (l r : list N) : bool :=
  (length l =? length r)%nat && forallb (fun x => existsb (N.eqb x) l) r.

Lemma perm_b_ok l r : NoDup r -> perm_b l r = true -> Permutation l r.
Proof.
  unfold perm_b. rewrite andb_true_iff, Nat.eqb_eq, forallb_forall. intros Nd [L F].
  apply Permutation_sym. apply NoDup_Permutation_bis; [exact Nd|lia|].
  intros x Hx. specialize (F x Hx). apply existsb_exists in F. destruct F as (y & Hy & E).
  apply N.eqb_eq in E. subst y. exact Hy.
Qed.

Definition phys_inv_b (p : phys) : bool :=
  (nlen (ph_main p) =? ph_nbuckets p) &&
  forallb bucket_ok_b (ph_main p) && forallb bucket_ok_b (ph_over p) &&
  match reachable p with
  | Some offs => perm_b (offs ++ ph_free p) (over_offs (length (ph_over p)))
  | None => false
  end.

Theorem phys_inv_b_ok p : phys_inv_b p = true -> PhysInv p.
Proof.
  unfold phys_inv_b, reachable. rewrite !andb_true_iff, N.eqb_eq, !forallb_forall.
  intros [[[E1 E2] E3] E4].
  destruct (all_walks p (length (ph_main p))) as [HS|] eqn:Ew; [|discriminate].
  cbn [option_map] in E4. destruct (all_walks_sound _ _ _ Ew) as [L W].
  exists HS. split; [exact E1|].
  split; [apply Forall_forall; intros b Hb; apply bucket_ok_b_ok, E2, Hb|].
  split; [apply Forall_forall; intros b Hb; apply bucket_ok_b_ok, E3, Hb|].
  split; [exact L|]. split; [rewrite L; exact W|].
  apply perm_b_ok; [apply over_offs_NoDup|exact E4].
Qed.

Definition chain_eqb (a b : chain) : bool :=
  if list_eq_dec (list_eq_dec slot_eq_dec) a b then true else false.

Definition phys_rel_b (p : phys) (c : pindex) : bool :=
  (ph_level p =? px_level c) && (ph_split p =? px_split c) && (ph_nkeys p =? px_nkeys c) &&
  (ph_nbuckets p =? nlen (px_chains c)) && (nlen (ph_main p) =? ph_nbuckets p) &&
  forallb (fun i => match ph_chain p (N.of_nat i) with
                    | Some ch => chain_eqb ch (px_chain c (N.of_nat i))
                    | None => false
                    end) (seq 0 (N.to_nat (ph_nbuckets p))).

Theorem phys_rel_b_ok p c : phys_rel_b p c = true -> R_phys p c.
Proof.
  unfold phys_rel_b, R_phys. rewrite !andb_true_iff, !N.eqb_eq, forallb_forall.
  intros [[[[[E1 E2] E3] E4] E5] E6]. repeat (split; [assumption|]).
  intros i Hi. specialize (E6 (N.to_nat i)). rewrite N2Nat.id in E6.
  assert (Hin : In (N.to_nat i) (seq 0 (N.to_nat (ph_nbuckets p)))) by (apply in_seq; lia).
  specialize (E6 Hin). destruct (ph_chain p i) as [ch|]; [|discriminate].
  unfold chain_eqb in E6.
  destruct (list_eq_dec (list_eq_dec slot_eq_dec) ch (px_chain c i)); [congruence|discriminate].
Qed.

(* ================================================================================================ *)
(** * 19. The byte images of main.pix and overflow.pix *)

Definition pb_wf (b : pbucket) : Prop :=
  length (pb_slots b) = 31%nat /\ Forall slot_wf (pb_slots b) /\ pb_next b < 2 ^ 64.

Lemma nlen_pb_bytes b : length (pb_slots b) = 31%nat -> nlen (pb_bytes b) = 512.
Proof. intros H. unfold pb_bytes. apply marshal_bucket_length. lia. Qed.

Lemma nlen_concat_pb_bytes bs : Forall (fun b => length (pb_slots b) = 31%nat) bs ->
  nlen (concat (map pb_bytes bs)) = 512 * nlen bs.
Proof.
  induction 1 as [|b bs Hb Hbs IH]; [reflexivity|].
  cbn [map concat]. rewrite nlen_app, nlen_pb_bytes by exact Hb. rewrite IH, nlen_cons. lia.
Qed.

Theorem file_bytes_length bs : Forall (fun b => length (pb_slots b) = 31%nat) bs ->
  nlen (file_bytes bs) = 512 * (1 + nlen bs).
Proof.
  intros H. unfold file_bytes. rewrite nlen_app, nlen_header_bytes, nlen_concat_pb_bytes by exact H. lia.
Qed.

Lemma pad_slots_full l : length l = 31%nat -> pad_slots l = l.
Proof. intros H. unfold pad_slots, slots_per_bucket. rewrite H. cbn [Nat.sub repeat]. apply app_nil_r. Qed.

Lemma unmarshal_pb_bytes b rest : pb_wf b ->
  unmarshal_bucket (pb_bytes b ++ rest) = (pb_slots b, pb_next b).
Proof.
  intros (L & Wf & Hn). rewrite pow2_64 in Hn. unfold pb_bytes, unmarshal_bucket, marshal_bucket.
  rewrite (pad_slots_full _ L). f_equal.
  - change slots_per_bucket with 31%nat. rewrite <- L, <- !app_assoc. apply slots_roundtrip. exact Wf.
  - assert (L496 : nlen (marshal_slots (pb_slots b)) = 496).
    { rewrite nlen_marshal_slots, nlen_length, L. reflexivity. }
    rewrite <- !app_assoc. rewrite (ndrop_app_exact' 496 _ _ L496).
    rewrite (ntake_app_exact' 8 (le 8 (pb_next b)) _ (nlen_le 8 (pb_next b))).
    apply unle_le8. exact Hn.
Qed.

(* the 512-byte block at the offset of bucket i decodes to bucket i *)
Theorem file_bytes_decode bs i b : Forall pb_wf bs -> nth_error bs (N.to_nat i) = Some b ->
  unmarshal_bucket (ntake 512 (ndrop (bucket_off i) (file_bytes bs))) = (pb_slots b, pb_next b) /\
  ntake 512 (ndrop (bucket_off i) (file_bytes bs)) = pb_bytes b.
Proof.
  intros Wf Hn. apply nth_error_split in Hn. destruct Hn as (l1 & l2 & -> & Ll).
  apply Forall_app in Wf. destruct Wf as [W1 W2]. inversion W2 as [|b_ l_ Wb W2']; subst b_ l_.
  assert (L1 : Forall (fun b => length (pb_slots b) = 31%nat) l1).
  { eapply Forall_impl; [|exact W1]. intros x Hx. exact (proj1 Hx). }
  assert (Ed : ndrop (bucket_off i) (file_bytes (l1 ++ b :: l2)) = pb_bytes b ++ concat (map pb_bytes l2)).
  { unfold file_bytes. rewrite map_app, concat_app. cbn [map concat]. rewrite app_assoc.
    apply ndrop_app_exact'. rewrite nlen_app, nlen_header_bytes, nlen_concat_pb_bytes by exact L1.
    unfold bucket_off. rewrite nlenE. lia. }
  assert (Et : ntake 512 (ndrop (bucket_off i) (file_bytes (l1 ++ b :: l2))) = pb_bytes b).
  { rewrite Ed. apply ntake_app_exact'. apply nlen_pb_bytes. exact (proj1 Wb). }
  split; [|exact Et]. rewrite Et. rewrite <- (app_nil_r (pb_bytes b)). apply unmarshal_pb_bytes. exact Wb.
Qed.

Definition phys_wf (p : phys) : Prop := Forall pb_wf (ph_main p) /\ Forall pb_wf (ph_over p).

Theorem ph_bytes_lengths p : PhysInv p ->
  nlen (ph_main_bytes p) = 512 * (1 + nlen (ph_main p)) /\
  nlen (ph_over_bytes p) = 512 * (1 + nlen (ph_over p)).
Proof.
  intros (HS & _ & I2 & I3 & _). unfold ph_main_bytes, ph_over_bytes.
  split; apply file_bytes_length; (eapply Forall_impl; [|eassumption]); intros b Hb; exact (proj1 Hb).
Qed.

Theorem ph_main_bytes_decode p i b : phys_wf p -> pb_read (ph_main p) (bucket_off i) = Some b ->
  unmarshal_bucket (ntake 512 (ndrop (bucket_off i) (ph_main_bytes p))) = (pb_slots b, pb_next b).
Proof.
  intros [W _] H. rewrite pb_read_bucket_off in H. exact (proj1 (file_bytes_decode _ _ _ W H)).
Qed.

Theorem ph_over_bytes_decode p off b : phys_wf p -> pb_read (ph_over p) off = Some b ->
  unmarshal_bucket (ntake 512 (ndrop off (ph_over_bytes p))) = (pb_slots b, pb_next b).
Proof.
  intros [_ W] H. destruct (pb_read_some _ _ _ H) as (i & -> & _ & Hn).
  exact (proj1 (file_bytes_decode _ _ _ W Hn)).
Qed.


(* ================================================================================================ *)
(** * 20. The checkers are complete (so that [checker = false] refutes the property) *)

Lemma bucket_ok_b_complete b : bucket_ok b -> bucket_ok_b b = true.
Proof.
  intros [L E]. unfold bucket_ok_b, slots_eqb. rewrite L. cbn [Nat.eqb andb].
  destruct (list_eq_dec slot_eq_dec (pb_slots b) (pad_slots (pb_live b))); [reflexivity|contradiction].
Qed.

Lemma perm_b_complete l r : Permutation l r -> perm_b l r = true.
Proof.
  intros P. unfold perm_b. rewrite (Permutation_length P), Nat.eqb_refl. cbn [andb].
  apply forallb_forall. intros x Hx. apply existsb_exists. exists x.
  split; [exact (Permutation_in _ (Permutation_sym P) Hx)|apply N.eqb_refl].
Qed.

Theorem phys_inv_b_complete p : PhysInv p -> phys_inv_b p = true.
Proof.
  intros (HS & I1 & I2 & I3 & I4 & I5 & I6). unfold phys_inv_b, reachable.
  rewrite <- I4, (all_walks_spec p HS _ (Nat.le_refl _) I5), firstn_all. cbn [option_map].
  rewrite (perm_b_complete _ _ I6), andb_true_r.
  apply andb_true_iff. split; [apply andb_true_iff; split; [apply N.eqb_eq; exact I1|]|];
    apply forallb_forall; intros b Hb; apply bucket_ok_b_complete.
  - rewrite Forall_forall in I2. exact (I2 _ Hb).
  - rewrite Forall_forall in I3. exact (I3 _ Hb).
Qed.

Theorem phys_rel_b_complete p c : R_phys p c -> phys_rel_b p c = true.
Proof.
  intros (R1 & R2 & R3 & R4 & R5 & R6). unfold phys_rel_b.
  rewrite (proj2 (N.eqb_eq _ _) R1), (proj2 (N.eqb_eq _ _) R2), (proj2 (N.eqb_eq _ _) R3),
    (proj2 (N.eqb_eq _ _) R4), (proj2 (N.eqb_eq _ _) R5). cbn [andb].
  apply forallb_forall. intros i Hi. apply in_seq in Hi. rewrite R6 by lia.
  unfold chain_eqb. destruct (list_eq_dec (list_eq_dec slot_eq_dec) _ _); [reflexivity|congruence].
Qed.

Corollary phys_inv_b_false p : phys_inv_b p = false -> ~ PhysInv p.
Proof. intros E H. rewrite (phys_inv_b_complete _ H) in E. discriminate. Qed.

Corollary phys_rel_b_false p c : phys_rel_b p c = false -> ~ R_phys p c.
Proof. intros E H. rewrite (phys_rel_b_complete _ _ H) in E. discriminate. Qed.

(* ================================================================================================ *)
(** * 21. Non-vacuity: concrete runs, physical index and chain index side by side *)
Module PhysRun.
Import PxEx PhysVariants.

(* split exactly when the 40th key arrives *)
Definition grow40 (nk nb : N) : bool := nk =? 40.
Definition isk (k : N) (s : slot) : bool := sl_ks s =? k.

Definition pstep (grow : N -> N -> bool) (pc : phys * pindex) (sl : slot) : phys * pindex :=
  (fst (ph_put grow (fst pc) sl (isk (sl_ks sl))), fst (px_put grow (snd pc) sl (isk (sl_ks sl)))).

Definition both_ok (pc : phys * pindex) : bool := phys_inv_b (fst pc) && phys_rel_b (fst pc) (snd pc).

(* (live slots, next) of every bucket of both files; free list; level, split, numKeys, numBuckets *)
Definition shape (p : phys) :=
  (map (fun b => (length (pb_live b), pb_next b)) (ph_main p),
   map (fun b => (length (pb_live b), pb_next b)) (ph_over p), ph_free p,
   (ph_level p, ph_split p, ph_nkeys p, ph_nbuckets p)).

Lemma both_ok_sound pc : both_ok pc = true -> PhysInv (fst pc) /\ R_phys (fst pc) (snd pc).
Proof.
  unfold both_ok. rewrite andb_true_iff. intros [A B].
  split; [apply phys_inv_b_ok; exact A|apply phys_rel_b_ok; exact B].
Qed.

(* the chain side of a run keeps PInv *)
Lemma pstep_PInv grow l : forall pc, PInv (snd pc) -> PInv (snd (fold_left (pstep grow) l pc)).
Proof.
  induction l as [|sl l IH]; intros pc HP; [exact HP|]. cbn [fold_left]. apply IH.
  unfold pstep. cbn [snd].
  destruct (px_put grow (snd pc) sl (isk (sl_ks sl))) as [c' o] eqn:E.
  exact (proj1 (px_put_spec _ _ _ _ _ _ HP E)).
Qed.

Definition s0 : phys * pindex := (ph_empty, px_empty).

(* 39 slots in ONE chain (hashes 0,1,0,1,... at level 0): the main bucket is full and points to
   the first block of overflow.pix *)
Definition s39 := fold_left (pstep grow40) (map mkalt (seq 0 39)) s0.
Example s39_ok :
  shape (fst s39) = ([(31%nat, 512)], [(8%nat, 0)], [], (0, 0, 39, 1)) /\
  PhysInv (fst s39) /\ R_phys (fst s39) (snd s39) /\ PInv (snd s39).
Proof.
  split; [vm_compute; reflexivity|].
  destruct (both_ok_sound s39) as [A B]; [vm_compute; reflexivity|].
  split; [exact A|]. split; [exact B|]. apply pstep_PInv. exact PInv_empty.
Qed.

(* the 40th key triggers index.split: both new chains fit into their main buckets, the overflow
   bucket at offset 512 is FREED (it keeps its stale 9 slots in the file) *)
Definition s40 := pstep grow40 s39 (mkalt 39).
Example s40_ok :
  shape (fst s40) = ([(20%nat, 0); (20%nat, 0)], [(9%nat, 0)], [512], (1, 0, 40, 2)) /\
  PhysInv (fst s40) /\ R_phys (fst s40) (snd s40) /\ PInv (snd s40).
Proof.
  split; [vm_compute; reflexivity|].
  destruct (both_ok_sound s40) as [A B]; [vm_compute; reflexivity|].
  split; [exact A|]. split; [exact B|].
  apply (pstep_PInv grow40 [mkalt 39] s39). apply pstep_PInv. exact PInv_empty.
Qed.

(* 12 more keys for bucket 0: the 32nd slot of chain 0 REUSES the freed offset 512; overflow.pix
   does not grow *)
Definition mke (k : nat) : slot :=
  {| sl_h := 2; sl_seg := 0; sl_ks := 100 + N.of_nat k; sl_vs := 1; sl_off := 900 + N.of_nat k |}.
Definition s52 := fold_left (pstep grow0) (map mke (seq 0 12)) s40.
Example s52_ok :
  shape (fst s52) = ([(31%nat, 512); (20%nat, 0)], [(1%nat, 0)], [], (1, 0, 52, 2)) /\
  PhysInv (fst s52) /\ R_phys (fst s52) (snd s52) /\ PInv (snd s52).
Proof.
  split; [vm_compute; reflexivity|].
  destruct (both_ok_sound s52) as [A B]; [vm_compute; reflexivity|].
  split; [exact A|]. split; [exact B|].
  apply pstep_PInv. apply (pstep_PInv grow40 [mkalt 39] s39). apply pstep_PInv. exact PInv_empty.
Qed.

(* a delete in the full main bucket makes a hole there (30 + 1 slots) *)
Definition sdel : phys * pindex := (fst (ph_del (fst s52) 0 (isk 4)), fst (px_del (snd s52) 0 (isk 4))).
Example sdel_ok :
  snd (ph_del (fst s52) 0 (isk 4)) = Some (mkalt 4) /\
  shape (fst sdel) = ([(30%nat, 512); (20%nat, 0)], [(1%nat, 0)], [], (1, 0, 51, 2)) /\
  PhysInv (fst sdel) /\ R_phys (fst sdel) (snd sdel).
Proof.
  split; [vm_compute; reflexivity|]. split; [vm_compute; reflexivity|].
  apply both_ok_sound. vm_compute. reflexivity.
Qed.

(* the next new key goes into the hole of the main bucket, not behind the overflow bucket; the
   results of get agree *)
Example shole_ok :
  let pc := pstep grow0 sdel (mke 50) in
  shape (fst pc) = ([(31%nat, 512); (20%nat, 0)], [(1%nat, 0)], [], (1, 0, 52, 2)) /\
  both_ok pc = true /\
  ph_get (fst pc) 2 (isk 150) = Some (mke 50) /\ px_get (snd pc) 2 (isk 150) = Some (mke 50) /\
  ph_get (fst pc) 2 (isk 111) = px_get (snd pc) 2 (isk 111) /\
  ph_bucket (fst pc) 0 = px_bucket (snd pc) 0.
Proof. vm_compute. repeat split. Qed.

(* the byte images: main.pix has the header and 2 blocks, the block of bucket 1 decodes to it *)
Example s52_bytes :
  nlen (ph_main_bytes (fst s52)) = 1536 /\ nlen (ph_over_bytes (fst s52)) = 1024 /\
  Some (unmarshal_bucket (ntake 512 (ndrop 1024 (ph_main_bytes (fst s52))))) =
    option_map (fun b => (pb_slots b, pb_next b)) (pb_read (ph_main (fst s52)) 1024).
Proof. vm_compute. repeat split. Qed.

(* ---------------------------------------------------------------------------------------------- *)
(** ** Sensitivity *)

(* 72 slots in one chain: main bucket + 2 overflow buckets (offsets 512, 1024) *)
Definition mkz (k : nat) : slot :=
  {| sl_h := 0; sl_seg := 0; sl_ks := N.of_nat k; sl_vs := 1; sl_off := 600 + N.of_nat k |}.
Definition z72 := fold_left (pstep grow0) (map mkz (seq 0 72)) s0.
Example z72_ok :
  shape (fst z72) = ([(31%nat, 512)], [(31%nat, 1024); (10%nat, 0)], [], (0, 0, 72, 1)) /\
  PhysInv (fst z72) /\ R_phys (fst z72) (snd z72) /\ PInv (snd z72).
Proof.
  split; [vm_compute; reflexivity|].
  destruct (both_ok_sound z72) as [A B]; [vm_compute; reflexivity|].
  split; [exact A|]. split; [exact B|]. apply pstep_PInv. exact PInv_empty.
Qed.

(* index.split as written: the two overflow buckets the re-insertion needs are taken by
   extending the file (offsets 1536, 2048) BEFORE 512 and 1024 are freed: overflow.pix doubles *)
Example z72_split :
  shape (ph_dosplit (fst z72)) =
    ([(31%nat, 1536); (0%nat, 0)], [(31%nat, 1024); (10%nat, 0); (31%nat, 2048); (10%nat, 0)],
     [512; 1024], (1, 0, 72, 2)) /\
  both_ok (ph_dosplit (fst z72), px_dosplit (snd z72)) = true.
Proof. vm_compute. split; reflexivity. Qed.

(* (a) FINDING: the variant that frees the old overflow buckets BEFORE re-inserting is NOT wrong.
   It hands out 512 and 1024 again while the loop still has to read them, but slotWriter only
   writes after the loop, so the stale blocks are read before they are overwritten: the result
   satisfies PhysInv and R_phys, and the file does not grow.  (General theorem, all states:
   phys_split_early_free_sim above; this is the concrete run where the reuse happens.) *)
Definition z72e : phys * pindex := (ph_dosplit_early_free (fst z72), px_dosplit (snd z72)).
Theorem split_early_free_not_refuted :
  shape (fst z72e) = ([(31%nat, 512); (0%nat, 0)], [(31%nat, 1024); (10%nat, 0)], [], (1, 0, 72, 2)) /\
  PhysInv (fst z72e) /\ R_phys (fst z72e) (snd z72e).
Proof.
  split; [vm_compute; reflexivity|].
  destruct (both_ok_sound z72e) as [A B]; [vm_compute; reflexivity|]. exact (conj A B).
Qed.

(* (a') a split that forgets freeOverflowBucket: the chains are still right, but the two old
   overflow buckets are neither reachable nor free *)
Theorem split_no_free_refuted :
  exists p c, PhysInv p /\ R_phys p c /\ PInv c /\
    R_phys (ph_dosplit_no_free p) (px_dosplit c) /\ ~ PhysInv (ph_dosplit_no_free p).
Proof.
  exists (fst z72), (snd z72). destruct z72_ok as (_ & A & B & C).
  split; [exact A|]. split; [exact B|]. split; [exact C|]. split.
  - apply phys_rel_b_ok. vm_compute. reflexivity.
  - apply phys_inv_b_false. vm_compute. reflexivity.
Qed.

(* (b) createOverflowBucket that does not pop the free list: from s40 (free list [512]) chain 0
   and then chain 1 overflow; both link the SAME block 512, the second overwrites the first:
   a key of chain 0 is lost *)
Definition nstep (pc : phys * pindex) (sl : slot) : phys * pindex :=
  (fst (ph_put_nopop (fst pc) sl (isk (sl_ks sl))), fst (px_put grow0 (snd pc) sl (isk (sl_ks sl)))).
Definition mko (k : nat) : slot :=
  {| sl_h := 3; sl_seg := 0; sl_ks := 200 + N.of_nat k; sl_vs := 1; sl_off := 1200 + N.of_nat k |}.
Definition n64 := fold_left nstep (map mko (seq 0 12)) (fold_left nstep (map mke (seq 0 12)) s40).

Theorem create_overflow_nopop_refuted :
  PhysInv (fst s40) /\ R_phys (fst s40) (snd s40) /\ PInv (snd s40) /\
  map pb_next (ph_main (fst n64)) = [512; 512] /\
  ~ PhysInv (fst n64) /\ ~ R_phys (fst n64) (snd n64) /\
  px_get (snd n64) 2 (isk 111) = Some (mke 11) /\ ph_get (fst n64) 2 (isk 111) = None.
Proof.
  destruct s40_ok as (_ & A & B & C).
  split; [exact A|]. split; [exact B|]. split; [exact C|].
  split; [vm_compute; reflexivity|].
  split; [apply phys_inv_b_false; vm_compute; reflexivity|].
  split; [apply phys_rel_b_false; vm_compute; reflexivity|].
  split; vm_compute; reflexivity.
Qed.

End PhysRun.


(* ================================================================================================ *)
(** * 22. Packaging: ONE relation that is preserved by every operation

   [PR p c] = the physical invariant, the abstraction relation and the invariant of the chain
   index.  The eight laws below are the fields of an exact simulation between [phys_ops] and
   [chain_ops] with respect to [PR] (same results, related new states). *)

Definition PR (p : phys) (c : pindex) : Prop := PhysInv p /\ R_phys p c /\ PInv c.

Theorem PR_empty : PR (ix_empty phys_ops) (ix_empty chain_ops).
Proof. destruct phys_empty_ok as [A B]. split; [exact A|]. split; [exact B|exact PInv_empty]. Qed.

Theorem PR_get p c h m : PR p c -> ix_get phys_ops p h m = ix_get chain_ops c h m.
Proof. intros (A & B & _). apply phys_get_sim; assumption. Qed.

Theorem PR_put grow p c sl m : PR p c -> sl_off sl <> 0 ->
  snd (ix_put phys_ops grow p sl m) = snd (ix_put chain_ops grow c sl m) /\
  PR (fst (ix_put phys_ops grow p sl m)) (fst (ix_put chain_ops grow c sl m)).
Proof.
  intros (A & B & C) Hnz. destruct (phys_put_sim grow p c sl m A B C Hnz) as (E & R' & I').
  split; [exact E|]. split; [exact I'|]. split; [exact R'|].
  cbn [ix_put chain_ops]. destruct (px_put grow c sl m) as [c' o] eqn:Ep.
  exact (proj1 (px_put_spec _ _ _ _ _ _ C Ep)).
Qed.

Theorem PR_del p c h m : PR p c ->
  snd (ix_del phys_ops p h m) = snd (ix_del chain_ops c h m) /\
  PR (fst (ix_del phys_ops p h m)) (fst (ix_del chain_ops c h m)).
Proof.
  intros (A & B & C). destruct (phys_del_sim p c h m A B C) as (E & R' & I').
  split; [exact E|]. split; [exact I'|]. split; [exact R'|].
  cbn [ix_del chain_ops]. destruct (px_del c h m) as [c' o] eqn:Ep.
  exact (proj1 (px_del_spec _ _ _ _ _ C Ep)).
Qed.

Theorem PR_repoint p c h seg off nseg noff : PR p c -> noff <> 0 ->
  match ix_repoint phys_ops p h seg off nseg noff, ix_repoint chain_ops c h seg off nseg noff with
  | None, None => True
  | Some p', Some c' => PR p' c'
  | _, _ => False
  end.
Proof.
  intros (A & B & C) Hnz. pose proof (phys_repoint_sim p c h seg off nseg noff A B C Hnz) as H.
  destruct (ix_repoint phys_ops p h seg off nseg noff) as [p'|];
    destruct (ix_repoint chain_ops c h seg off nseg noff) as [c'|] eqn:Ec; try exact H.
  destruct H as [R' I']. split; [exact I'|]. split; [exact R'|].
  cbn [ix_repoint chain_ops] in Ec. exact (proj1 (px_repoint_some _ _ _ _ _ _ _ C Ec)).
Qed.

Theorem PR_count p c : PR p c -> ix_count phys_ops p = ix_count chain_ops c.
Proof. intros (_ & B & _). apply phys_count_sim. exact B. Qed.

Theorem PR_nbuckets p c : PR p c -> ix_nbuckets phys_ops p = ix_nbuckets chain_ops c.
Proof. intros (_ & B & _). apply phys_nbuckets_sim. exact B. Qed.

Theorem PR_bucket p c n : PR p c -> ix_bucket phys_ops p n = ix_bucket chain_ops c n.
Proof. intros (A & B & _). apply phys_bucket_sim; assumption. Qed.


(* ================================================================================================ *)
(** * 23. Machine ranges: every slot field fits its type and EVERY next pointer (stale buckets
   included) and every free-list entry lies below the end of overflow.pix.  This invariant is
   independent of PhysInv and is what the byte images need (phys_wf). *)

Definition obound (p : phys) : N := bucket_off (nlen (ph_over p)).
Definition bwf (B : N) (b : pbucket) : Prop := Forall slot_wf (pb_slots b) /\ pb_next b < B.
Definition hbwf (B : N) (h : bhandle) : Prop := bwf B (bh_b h).

Definition PhysWf (p : phys) : Prop :=
  Forall (bwf (obound p)) (ph_main p) /\ Forall (bwf (obound p)) (ph_over p) /\
  Forall (fun o => o < obound p) (ph_free p).

Lemma bwf_mono B B' b : B <= B' -> bwf B b -> bwf B' b.
Proof. intros H [A C]. split; [exact A|lia]. Qed.

Lemma Forall_bwf_mono B B' l : B <= B' -> Forall (bwf B) l -> Forall (bwf B') l.
Proof. intros H F. eapply Forall_impl; [|exact F]. intros b. apply bwf_mono. exact H. Qed.

Lemma Forall_hbwf_mono B B' l : B <= B' -> Forall (hbwf B) l -> Forall (hbwf B') l.
Proof. intros H F. eapply Forall_impl; [|exact F]. intros b. apply bwf_mono. exact H. Qed.

Lemma obound_ge p : 512 <= obound p.
Proof. unfold obound, bucket_off. lia. Qed.

Lemma empty_pb_bwf B : 512 <= B -> bwf B empty_pb.
Proof.
  intros H. split; [|cbn [empty_pb pb_next]; lia]. cbn [empty_pb pb_slots].
  apply Forall_forall. intros x Hx. apply repeat_spec in Hx. subst x. apply empty_slot_wf.
Qed.

Lemma PhysWf_empty : PhysWf ph_empty.
Proof.
  split; [constructor; [apply empty_pb_bwf; apply obound_ge|constructor]|]. split; constructor.
Qed.

Lemma write_bh_wf p h : PhysWf p -> hbwf (obound p) h ->
  PhysWf (write_bh p h) /\ obound (write_bh p h) = obound p.
Proof.
  intros (A & B & C) Hh.
  assert (E : obound (write_bh p h) = obound p).
  { unfold obound. rewrite !nlenE. destruct (write_bh_fields p h) as (_ & _ & _ & _ & _ & _ & F7).
    rewrite F7. reflexivity. }
  split; [|exact E]. unfold PhysWf. rewrite E.
  destruct (write_bh_fields p h) as (_ & _ & _ & _ & F5 & _ & _). rewrite F5.
  unfold write_bh, pb_write.
  destruct (bh_main h); cbn [set_main set_over ph_main ph_over]; destruct (off_ok (bh_off h));
    repeat split; try assumption; apply Forall_lupd; assumption.
Qed.

Lemma writes_wf W : forall p, PhysWf p -> Forall (hbwf (obound p)) W ->
  PhysWf (fold_left write_bh W p) /\ obound (fold_left write_bh W p) = obound p.
Proof.
  induction W as [|h W IH]; intros p Hp F; cbn [fold_left]; [auto|].
  inversion F as [|h_ W_ Fh FW]; subst h_ W_. destruct (write_bh_wf p h Hp Fh) as [Hp1 E1].
  rewrite <- E1 in FW. destruct (IH _ Hp1 FW) as [Hp2 E2]. split; [exact Hp2|congruence].
Qed.

Lemma swr_write_wf p w : PhysWf p -> Forall (hbwf (obound p)) (whandles w) ->
  PhysWf (swr_write p w) /\ obound (swr_write p w) = obound p.
Proof.
  intros Hp F. rewrite swr_write_fold. apply writes_wf; [exact Hp|].
  unfold whandles in F. apply Forall_app in F. destruct F as [F1 F2].
  apply Forall_app. split; [apply Forall_rev; exact F1|exact F2].
Qed.

Lemma create_overflow_wf p : PhysWf p ->
  PhysWf (fst (create_overflow p)) /\ obound p <= obound (fst (create_overflow p)) /\
  bh_off (snd (create_overflow p)) < obound (fst (create_overflow p)) /\
  bh_b (snd (create_overflow p)) = empty_pb.
Proof.
  intros (A & B & C). unfold create_overflow. destruct (ph_free p) as [|o fr] eqn:Ef.
  - cbn [fst snd bh_off bh_b]. unfold PhysWf, obound.
    cbn [set_over ph_main ph_over ph_free]. rewrite Ef, nlen_appE. cbn [nlen].
    assert (Hle : bucket_off (nlen (ph_over p)) <= bucket_off (nlen (ph_over p) + N.succ 0))
      by (unfold bucket_off; lia).
    split; [|split; [exact Hle|split; [unfold bucket_off; lia|reflexivity]]].
    split; [exact (Forall_bwf_mono _ _ _ Hle A)|]. split; [|constructor].
    apply Forall_app. split; [exact (Forall_bwf_mono _ _ _ Hle B)|].
    constructor; [|constructor]. apply empty_pb_bwf. unfold bucket_off. lia.
  - cbn [fst snd bh_off bh_b]. inversion C as [|o_ fr_ Co Cfr]; subst o_ fr_.
    split; [|split; [apply N.le_refl|split; [exact Co|reflexivity]]].
    split; [exact A|]. split; [exact B|exact Cfr].
Qed.

Lemma set_slot_bwf B h i sl : hbwf B h -> slot_wf sl -> hbwf B (bh_set_slot h i sl).
Proof. intros [A C] Hs. split; [apply Forall_lupd; assumption|exact C]. Qed.

Lemma del_slot_wf i : forall l, Forall slot_wf l -> Forall slot_wf (del_slot i l).
Proof.
  induction i as [|i IH]; intros l F; destruct l as [|s l]; cbn [del_slot]; try constructor.
  - inversion F; subst. apply Forall_app. split; [assumption|]. constructor; [apply empty_slot_wf|constructor].
  - inversion F; assumption.
  - apply IH. inversion F; assumption.
Qed.

Lemma swr_insert_wf p w sl : PhysWf p -> Forall (hbwf (obound p)) (whandles w) -> slot_wf sl ->
  PhysWf (fst (swr_insert p w sl)) /\
  Forall (hbwf (obound (fst (swr_insert p w sl)))) (whandles (snd (swr_insert p w sl))) /\
  obound p <= obound (fst (swr_insert p w sl)).
Proof.
  intros Hp F Hs. destruct w as [cur idx prev]. unfold whandles in *. cbn [sw_cur sw_prev] in *.
  apply Forall_app in F. destruct F as [F1 F2]. inversion F2 as [|c_ l_ Fc _]; subst c_ l_.
  unfold swr_insert. cbn [sw_cur sw_idx sw_prev]. destruct (idx =? 31)%nat.
  - destruct (create_overflow_wf p Hp) as (Hp1 & Hle & Ho & Eb).
    cbn [fst snd sw_cur sw_idx sw_prev]. split; [exact Hp1|]. split; [|exact Hle].
    apply Forall_app. split.
    + apply Forall_app. split; [exact (Forall_hbwf_mono _ _ _ Hle F1)|].
      constructor; [|constructor]. destruct Fc as [Fc1 Fc2]. split; [exact Fc1|exact Ho].
    + constructor; [|constructor]. apply set_slot_bwf; [|exact Hs]. unfold hbwf. rewrite Eb.
      apply empty_pb_bwf. apply obound_ge.
  - cbn [fst snd sw_cur sw_idx sw_prev]. split; [exact Hp|]. split; [|apply N.le_refl].
    apply Forall_app. split; [exact F1|]. constructor; [|constructor]. apply set_slot_bwf; assumption.
Qed.

(* the three-component state of the slot loop of index.split *)
Definition Wf3 (st : phys * swriter * swriter) : Prop :=
  PhysWf (fst (fst st)) /\ Forall (hbwf (obound (fst (fst st)))) (whandles (snd (fst st))) /\
  Forall (hbwf (obound (fst (fst st)))) (whandles (snd st)).

Lemma split_body_wf lv sp ub st s : Wf3 st -> slot_wf s ->
  Wf3 (split_body lv sp ub st s) /\ obound (fst (fst st)) <= obound (fst (fst (split_body lv sp ub st s))).
Proof.
  destruct st as [[p u] w]. intros (A & B & C) Hs. unfold Wf3, split_body. cbn [fst snd] in *.
  destruct (bucket_index lv sp (sl_h s) =? ub); cbn [fst snd].
  - destruct (swr_insert_wf p u s A B Hs) as (A1 & B1 & Hle).
    split; [|exact Hle]. split; [exact A1|]. split; [exact B1|exact (Forall_hbwf_mono _ _ _ Hle C)].
  - destruct (swr_insert_wf p w s A C Hs) as (A1 & C1 & Hle).
    split; [|exact Hle]. split; [exact A1|]. split; [exact (Forall_hbwf_mono _ _ _ Hle B)|exact C1].
Qed.

Lemma split_slots_wf lv sp ub l : forall st, Wf3 st -> Forall slot_wf l ->
  Wf3 (fold_left (split_body lv sp ub) l st) /\
  obound (fst (fst st)) <= obound (fst (fst (fold_left (split_body lv sp ub) l st))).
Proof.
  induction l as [|s l IH]; intros st H F; cbn [fold_left]; [split; [exact H|apply N.le_refl]|].
  inversion F as [|s_ l_ Fs Fl]; subst s_ l_.
  destruct (split_body_wf lv sp ub st s H Fs) as [H1 L1]. destruct (IH _ H1 Fl) as [H2 L2].
  split; [exact H2|lia].
Qed.

Lemma dense_wf l : Forall slot_wf l -> Forall slot_wf (Bucket.dense l).
Proof.
  induction 1 as [|s l Hs Hl IH]; cbn [Bucket.dense]; [constructor|].
  destruct (sl_off s =? 0); constructor; assumption.
Qed.

Lemma split_buckets_wf lv sp ub B0 hs : forall st fr, Wf3 st -> B0 <= obound (fst (fst st)) ->
  Forall (fun o => o < obound (fst (fst st))) fr -> Forall (hbwf B0) hs ->
  let r := fold_left (split_bucket lv sp ub) hs (st, fr) in
  Wf3 (fst r) /\ Forall (fun o => o < obound (fst (fst (fst r)))) (snd r).
Proof.
  induction hs as [|h hs IH]; intros st fr H HB Ffr Fh; cbn [fold_left]; [split; assumption|].
  inversion Fh as [|h_ hs_ [Fh1 Fh2] Fhs]; subst h_ hs_.
  unfold split_bucket at 2. cbn [fst snd].
  destruct (split_slots_wf lv sp ub (pb_live (bh_b h)) st H (dense_wf _ Fh1)) as [H1 L1].
  apply IH; [exact H1|lia| |exact Fhs].
  assert (Ffr' : Forall (fun o => o < obound (fst (fst (fold_left (split_body lv sp ub) (pb_live (bh_b h)) st)))) fr).
  { eapply Forall_impl; [|exact Ffr]. cbn beta. intros o Ho. lia. }
  destruct (pb_next (bh_b h) =? 0); [exact Ffr'|]. apply Forall_app. split; [exact Ffr'|].
  constructor; [lia|constructor].
Qed.

(* the handles of a walk hold buckets of the files *)
Lemma walk_wf p i H : PhysWf p -> ph_walk p i = Some H -> Forall (hbwf (obound p)) H.
Proof.
  intros (A & B & _) W. apply ph_walk_wl in W. destruct W as (_ & _ & _ & _ & _ & _ & Rd & _).
  apply Forall_forall. intros h Hh. rewrite Forall_forall in Rd. specialize (Rd _ Hh).
  unfold hreads in Rd. destruct (pb_read_some _ _ _ Rd) as (k & _ & _ & Hk). apply nth_error_In in Hk.
  unfold hbwf. destruct (bh_main h); [rewrite Forall_forall in A; exact (A _ Hk)|
                                       rewrite Forall_forall in B; exact (B _ Hk)].
Qed.

Lemma PhysWf_main_ext p : PhysWf p -> forall lv sp, PhysWf (set_ptr (set_main p (ph_main p ++ [empty_pb])) lv sp).
Proof.
  intros (A & B & C) lv sp. split; [|split; [exact B|exact C]].
  cbn [set_ptr set_main ph_main]. apply Forall_app. split; [exact A|].
  constructor; [apply empty_pb_bwf, obound_ge|constructor].
Qed.

Lemma fresh_writer_wf B off : 512 <= B -> Forall (hbwf B) (whandles (fresh_main_writer off)).
Proof. intros H. constructor; [apply empty_pb_bwf; exact H|constructor]. Qed.

Theorem ph_dosplit_wf p : PhysWf p -> PhysWf (ph_dosplit p).
Proof.
  intros Hp. unfold ph_dosplit.
  set (adv := advance (ph_level p) (ph_split p)).
  pose proof (PhysWf_main_ext p Hp (fst adv) (snd adv)) as Hp2.
  set (p2 := set_ptr (set_main p (ph_main p ++ [empty_pb])) (fst adv) (snd adv)) in *.
  destruct (ph_walk p2 (ph_split p)) as [hs|] eqn:W; [|exact Hp2].
  pose proof (walk_wf p2 _ _ Hp2 W) as Fh.
  assert (W0 : Wf3 (p2, fresh_main_writer (bucket_off (ph_split p)), fresh_main_writer (bucket_off (nlen (ph_main p))))).
  { split; [exact Hp2|]. cbn [fst snd]. split; apply fresh_writer_wf, obound_ge. }
  destruct (split_buckets_wf (fst adv) (snd adv) (ph_split p) (obound p2) hs _ [] W0 (N.le_refl _)
              (Forall_nil _) Fh) as [H3 Ffr].
  cbn zeta in H3, Ffr.
  set (r := fold_left (split_bucket (fst adv) (snd adv) (ph_split p)) hs
              (p2, fresh_main_writer (bucket_off (ph_split p)), fresh_main_writer (bucket_off (nlen (ph_main p))), [])) in *.
  destruct (fst r) as [[p3 u] w]. cbn [fst snd] in *. destruct H3 as (A3 & B3 & C3). cbn [fst snd] in *.
  set (p4 := set_free p3 (ph_free p3 ++ snd r)).
  assert (Hp4 : PhysWf p4).
  { destruct A3 as (X & Y & Z). split; [exact X|]. split; [exact Y|]. apply Forall_app. split; assumption. }
  destruct (swr_write_wf p4 w Hp4 C3) as [Hp5 E5].
  assert (B5 : Forall (hbwf (obound (swr_write p4 w))) (whandles u)) by (rewrite E5; exact B3).
  destruct (swr_write_wf _ u Hp5 B5) as [Hp6 E6]. exact Hp6.
Qed.

Lemma find_ins_wf f B H : Forall (hbwf B) H -> forall free w o,
  (forall w0, free = Some w0 -> Forall (hbwf B) (whandles w0)) ->
  find_ins f H free = Some (w, o) -> Forall (hbwf B) (whandles w).
Proof.
  induction 1 as [|h H Fh FH IH]; intros free w o Hfree; cbn [find_ins]; [discriminate|].
  assert (Hm : forall i, Forall (hbwf B) (whandles (mk_writer h i))).
  { intros i. constructor; [exact Fh|constructor]. }
  destruct (scan_slots f (pb_slots (bh_b h)) 0) as [j s|j|j].
  - intros E. injection E as <- _. apply Hm.
  - destruct H as [|h1 H].
    + destruct free as [w0|]; intros E; injection E as <- _; [apply Hfree; reflexivity|apply Hm].
    + apply IH. intros w0 E. destruct free as [w1|]; injection E as <-; [apply Hfree; reflexivity|apply Hm].
  - destruct H as [|h1 H].
    + destruct free as [w0|]; intros E; injection E as <- _; [apply Hfree; reflexivity|apply Hm].
    + apply IH. exact Hfree.
Qed.

Lemma PhysWf_set_nkeys p n : PhysWf p -> PhysWf (set_nkeys p n).
Proof. exact (fun H => H). Qed.

Lemma ph_put_core_wf p sl m p1 o : PhysWf p -> slot_wf sl -> ph_put_core p sl m = Some (p1, o) -> PhysWf p1.
Proof.
  intros Hp Hs. unfold ph_put_core.
  destruct (ph_walk p (ph_bidx p (sl_h sl))) as [H|] eqn:W; [|discriminate].
  pose proof (walk_wf p _ _ Hp W) as FH.
  destruct (find_ins (hit (sl_h sl) m) H None) as [[w old]|] eqn:Ef; [|discriminate].
  assert (Fw : Forall (hbwf (obound p)) (whandles w)).
  { apply (find_ins_wf (hit (sl_h sl) m) _ _ FH None w old); [discriminate|exact Ef]. }
  destruct (swr_insert_wf p w sl Hp Fw Hs) as (A1 & B1 & _).
  destruct (swr_write_wf _ _ A1 B1) as [A2 _].
  destruct old; intros E; injection E as <- _; [exact A2|apply PhysWf_set_nkeys; exact A2].
Qed.

Theorem ph_put_wf grow p sl m : PhysWf p -> slot_wf sl -> PhysWf (fst (ph_put grow p sl m)).
Proof.
  intros Hp Hs. unfold ph_put. destruct (ph_put_core p sl m) as [[p1 o]|] eqn:E; [|exact Hp].
  pose proof (ph_put_core_wf _ _ _ _ _ Hp Hs E) as H1.
  destruct o; cbn [fst]; [exact H1|]. destruct (grow _ _); [apply ph_dosplit_wf; exact H1|exact H1].
Qed.

Lemma hit_loop_in f H h j s : hit_loop f H = Some (h, j, s) ->
  In h H /\ In s (pb_slots (bh_b h)).
Proof.
  intros E. destruct (hit_loop_some f (fun _ => []) _ _ _ _ E) as (H1 & H2 & l1 & r & -> & Es & _).
  split; [apply in_elt|rewrite Es; apply in_elt].
Qed.

Theorem ph_del_wf p h m : PhysWf p -> PhysWf (fst (ph_del p h m)).
Proof.
  intros Hp. unfold ph_del. destruct (ph_walk p (ph_bidx p h)) as [H|] eqn:W; [|exact Hp].
  pose proof (walk_wf p _ _ Hp W) as FH.
  destruct (hit_loop (hit h m) H) as [[[b i] s]|] eqn:E; [|exact Hp]. cbn [fst].
  apply PhysWf_set_nkeys. apply write_bh_wf; [exact Hp|].
  destruct (hit_loop_in _ _ _ _ _ E) as [Hb _]. rewrite Forall_forall in FH.
  destruct (FH _ Hb) as [A C]. split; [apply del_slot_wf; exact A|exact C].
Qed.

Theorem ph_repoint_wf p h seg off nseg noff p' : PhysWf p -> nseg < 2 ^ 16 -> noff < 2 ^ 32 ->
  ph_repoint p h seg off nseg noff = Some p' -> PhysWf p'.
Proof.
  intros Hp Hg Ho. unfold ph_repoint. destruct (ph_walk p (ph_bidx p h)) as [H|] eqn:W; [|discriminate].
  pose proof (walk_wf p _ _ Hp W) as FH.
  destruct (hit_loop (rp_hit h seg off) H) as [[[b i] s]|] eqn:E; [|discriminate].
  intros X. injection X as <-. apply write_bh_wf; [exact Hp|].
  destruct (hit_loop_in _ _ _ _ _ E) as [Hb Hsl]. rewrite Forall_forall in FH.
  pose proof (FH _ Hb) as Fb. apply set_slot_bwf; [exact Fb|].
  destruct Fb as [A _]. rewrite Forall_forall in A. destruct (A _ Hsl) as (W1 & W2 & W3 & W4 & W5).
  unfold slot_wf, rp_new. cbn [sl_h sl_seg sl_ks sl_vs sl_off]. auto.
Qed.

(* with the file size in int64 range, the byte images decode *)
Theorem PhysWf_phys_wf p : PhysInv p -> PhysWf p -> obound p <= 2 ^ 64 -> phys_wf p.
Proof.
  intros (HS & _ & I2 & I3 & _) (A & B & _) Hb.
  assert (X : forall l, Forall bucket_ok l -> Forall (bwf (obound p)) l -> Forall pb_wf l).
  { intros l F1 F2. apply Forall_forall. intros b Hin. rewrite Forall_forall in F1, F2.
    destruct (F1 _ Hin) as [L _]. destruct (F2 _ Hin) as [S1 S2]. split; [exact L|]. split; [exact S1|lia]. }
  split; apply X; assumption.
Qed.

(* ================================================================================================ *)
Print Assumptions phys_empty_ok.
Print Assumptions phys_get_sim.
Print Assumptions phys_put_sim.
Print Assumptions phys_del_sim.
Print Assumptions phys_repoint_sim.
Print Assumptions phys_count_sim.
Print Assumptions phys_nbuckets_sim.
Print Assumptions phys_bucket_sim.
Print Assumptions phys_split_sim.
Print Assumptions phys_split_early_free_sim.
Print Assumptions phys_put_early_free_sim.
Print Assumptions PR_empty.
Print Assumptions PR_get.
Print Assumptions PR_put.
Print Assumptions PR_del.
Print Assumptions PR_repoint.
Print Assumptions PR_count.
Print Assumptions PR_nbuckets.
Print Assumptions PR_bucket.
Print Assumptions PhysInv_buckets.
Print Assumptions PhysInv_overflow.
Print Assumptions PhysInv_walks.
Print Assumptions phys_inv_b_ok.
Print Assumptions phys_inv_b_complete.
Print Assumptions phys_rel_b_ok.
Print Assumptions phys_rel_b_complete.
Print Assumptions file_bytes_length.
Print Assumptions file_bytes_decode.
Print Assumptions ph_bytes_lengths.
Print Assumptions ph_main_bytes_decode.
Print Assumptions ph_over_bytes_decode.
Print Assumptions PhysWf_empty.
Print Assumptions ph_put_wf.
Print Assumptions ph_del_wf.
Print Assumptions ph_repoint_wf.
Print Assumptions ph_dosplit_wf.
Print Assumptions PhysWf_phys_wf.
Print Assumptions PhysRun.s39_ok.
Print Assumptions PhysRun.s40_ok.
Print Assumptions PhysRun.s52_ok.
Print Assumptions PhysRun.sdel_ok.
Print Assumptions PhysRun.shole_ok.
Print Assumptions PhysRun.split_early_free_not_refuted.
Print Assumptions PhysRun.split_no_free_refuted.
Print Assumptions PhysRun.create_overflow_nopop_refuted.
