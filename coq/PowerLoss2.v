(* PowerLoss2.v -- C06 "synced writes survive power loss through rollover, compaction AND RECOVERY", and C09
   "power failure during Close", for the database model (DB.v) with the flat reference index.  Extends
   PowerLoss.v (power-loss model [pl], discipline automaton [dur], reduction [pl_reduce], C06 for histories
   of one process) to histories of SEVERAL EPOCHS: between the sync point and the power failure there may be
   process crashes (in the middle of a step, also with a torn write, or between steps), recovering Opens
   (also recovery attempts that die themselves), Close followed by a clean Open.
   New file only; nothing else is touched.  No axioms (Print Assumptions at the end).

   FINDING.  The property HOLDS for the code as it is now (with fix D13: recovery makes the newest segment the
   current one).  The strict automaton of PowerLoss.v rejects the events of a recovering Open only because
   they change the *.bac names while the newest segment file may be unflushed; nothing is lost there.  What
   makes the proof go through, and would break it otherwise:
     - at a process crash the only segment file with pending data is the current, unsealed one, which is the
       NEWEST by sequence id ([seq_order] of the invariant; the rollover flushes the sealed one);
     - a recovering Open writes (header of an empty file, truncation of a stuck tail) only to DIRTY segment
       files, and only the newest one can be dirty after a crash ([xstep_wtr], [open_wtr_y]);
     - after the recovery the newest segment is the current one and writable (D13; [recover_swap_none] shows
       that swapSegment then creates no new file while old data is unflushed), so the next epoch keeps writing
       to the one unflushed file, Sync flushes it, and the rollover seals (flushes) it first.
   No counterexample was found; none exists within this model (the theorems are unconditional).

   CONTENTS
   1. [dur2]: the automaton of PowerLoss.v with "quiet" weakened to "does not touch a segment file proper"
      (renames / removals of non-segment files, the lock file and the *.bac names no longer require that
      nothing is pending).  [dur_dur2]: it accepts whatever [dur] accepts.  [pl_dur2], [frozen2],
      [pl_reduce2]: the reduction of PowerLoss.v for [dur2], with [same_log] (the segment files proper) in the
      place of [Same]; lock file and *.bac names of an image always equal those of the real disk ([pl_agree]).
   2. Chunked histories [list chunk]: [CE es] events, [CT id seq r c] the partial write a dying process left
      (c bytes of record r at the end of a segment file).  [plh]: [pl] on the events; a [CT] is kept (c
      bytes), dropped, or cut shorter.  [hrun], [hdur2], [hcrash] (process-crash images of a chunked history),
      [plh_agree], [plh_dur2], [hfrozen], [plh_reduce]; executable [plh_exec] / [plh_exec_sound];
      [pl_plh] / [plh_pl]: without torn chunks [plh] is [pl] on the concatenation.
   3. [Jd y d u] / [Neat u d]: only segment file y can be dirty, none is newer than y, the unflushed segment
      file exists and is the newest.  [wtr]: lists of events that write to segment file y only; [Jd_run],
      [Jd_accept] (a recovering Open is accepted by the automaton), [cut_Jd].
   4. [open_wtr_y], [open_dur2]: THE RECOVERING OPEN KEEPS THE DISCIPLINE (every prefix of it too); afterwards
      the unflushed segment file, if any, is the current segment ([DurS]).
   5. [xstep_wtr]: every step (Put / Delete / Sync / pick / compaction micro-step) writes to one segment file,
      the newest; hence [crash_trans]: a crash image of a step (any cut [cutof], = [crash_image] by
      [cutof_crash_image] / [crash_image_cutof]) is [Neat].
   6. [close_dur2] (Close leaves nothing pending), [clean_open_dur2] (clean Open: lock file, at most one new
      empty segment, which is the current one).
   7. [mrun P cf mh K cf']: histories of epochs  MOps os (acknowledged steps: xrun) | MCrash o (step o in
      flight, cut anywhere, then recovery attempts [rrun]) | MKill (killed between steps, or in the middle of
      Close before the lock file is removed; recovery attempts) | MClose (Close, clean Open).
      [mrun_main]: invariants kept, the automaton accepts, every process-crash image of the whole history is
      DiskOK with contents [after c mh]: c followed by a prefix of a linearisation [lin] of mh (the operation
      in flight at a crash counted or not).
   8. THEOREMS
      C06_with_recovery             a sync point anywhere in a history of epochs; the history goes on through
                                    any epochs; the power fails after ANY event at which the lock file exists
                                    ([hcut]); every admissible image ([plh]): db_open = OOpened true, Inv, and
                                    the contents are those at the sync point followed by a prefix of the
                                    later operations.  C06_with_recovery_per_key: per key.
      C06_with_recovery_last_epoch  the power fails at any event of the last epoch of operations
      C06_power_loss_during_recovery   ... during the last recovering Open itself
      C09_power_loss_during_close   single-process history with a sync point, unsynced steps os, Close; the
                                    power fails after any prefix of the events of Close: every admissible image
                                    opens (recovery while the lock file exists, whatever became of db.pmt /
                                    index.pmt / *.psg.pmt; clean Open after the complete Close) with contents
                                    = sync point + prefix of os (all of os after the complete Close).
      C09_reopen_epochs             after a history of several epochs and a complete Close every admissible
                                    image is the closed directory; the next Open is clean, contents intact
                                    (the instants at which the lock file does not exist)
      C06_with_recovery_nonvacuous(_recover,_key1)  vm_compute: Put [1]; Sync; Put [3]; Put [5] dies after 5
                                    of 12 bytes; recovering Open; Put [7]; power failure.  Three admissible
                                    images (lost append with kept index write; everything after the Sync lost;
                                    a shorter torn prefix); the strict automaton rejects the history, [dur2]
                                    accepts it; the theorem applies; key [1] is there.
      C09_close_nonvacuous(_recover)  the power fails while db.pmt / index.pmt are half-written
      C06_with_close_nonvacuous     a history with Close + clean Open between the Sync and the power failure
   NOT COVERED
      - one statement for "any instant": an instant of a history of epochs is covered by C06_with_recovery if
        the lock file exists there and by C09_reopen_epochs if it is the instant after a complete Close; that
        these are all instants is not stated as a theorem;
      - a PROCESS crash in the middle of a CLEAN Open as an epoch boundary (a process crash during Close is
        covered, power failures during both are covered); concurrency finer than the micro-steps of xstep
        (as in PowerLoss.v);
      - the model's abstractions (directory operations durable and ordered, per-file prefix semantics, content
        of *.bac and overflow.pix not modelled) are those of PowerLoss.v. *)
From Coq Require Import ZArith Lia ZifyN ZifyNat ZifyBool Permutation Sorted.
From Pogreb Require Import Base BaseLemmas Crc Bytes Record RecordProofs Flat Spec DB DBInv DBLemmas
  DBProofsOps DBMeta DBProofsRecovery DBProofsCompact DBProofsCrash PowerLoss.
Ltac Zify.zify_post_hook ::= Z.div_mod_to_equations.

Local Notation disk := (@DB.disk flat).
Local Notation st := (@DB.st flat).
Local Notation mem := (@DB.mem flat).
Local Notation fsev := (@DB.fsev flat).
Local Notation run_evs := (fold_left (apply_ev flat_ops)).
(* ================================================================================================ *)
(* 1. The sync discipline, generalised: only the segment files matter                                *)

(* events that do not change any segment file proper *)
Definition quiet2 (e : fsev) : bool := negb (touches_log e).

(* [dur_step] of PowerLoss.v with [quiet] replaced by [quiet2]: renames of non-segment files, *.bac
   names and the lock file may change while a segment file is unflushed *)
Definition dur2_step (u : option (N * N)) (e : fsev) : option (option (N * N)) :=
  match seg_data e with
  | Some x => match u with
              | None => Some (Some x)
              | Some y => if pair_eqb x y then Some (Some x) else None
              end
  | None =>
    match e with
    | ESync (FSeg i q) => Some (match u with
                                | Some y => if pair_eqb (i, q) y then None else u
                                | None => None
                                end)
    | _ => if quiet2 e then Some u else match u with None => Some None | Some _ => None end
    end
  end.

Fixpoint dur2 (u : option (N * N)) (es : list fsev) : option (option (N * N)) :=
  match es with
  | [] => Some u
  | e :: es' => match dur2_step u e with Some u' => dur2 u' es' | None => None end
  end.

Lemma dur2_app es1 : forall u es2,
  dur2 u (es1 ++ es2) = match dur2 u es1 with Some u1 => dur2 u1 es2 | None => None end.
Proof.
  induction es1 as [|e es1 IH]; intros u es2; [reflexivity|]. cbn [app dur2].
  destruct (dur2_step u e) as [u1|]; [apply IH|reflexivity].
Qed.

Lemma dur2_prefix es1 es2 u : dur2 u (es1 ++ es2) <> None -> dur2 u es1 <> None.
Proof. rewrite dur2_app. destruct (dur2 u es1); [discriminate|auto]. Qed.

Lemma dur2_cat u es1 es2 u1 u2 : dur2 u es1 = Some u1 -> dur2 u1 es2 = Some u2 -> dur2 u (es1 ++ es2) = Some u2.
Proof. intros H1 H2. rewrite dur2_app, H1. exact H2. Qed.

Lemma quiet_quiet2 e : quiet e = true -> quiet2 e = true.
Proof.
  unfold quiet, quiet2. intros H. apply andb_true_iff in H. destruct H as [H _]. apply andb_true_iff in H. apply H.
Qed.

(* the generalised automaton accepts whatever the strict one accepts, with the same state *)
Lemma dur_dur2_step u e u' : dur_step u e = Some u' -> dur2_step u e = Some u'.
Proof.
  unfold dur_step, dur2_step. destruct (seg_data e); [auto|].
  destruct e as [f|f|id seq off r|j|id seq m|j|sd|f n|f g|f|f]; try (destruct f); auto;
    match goal with
    | |- (if quiet ?e then _ else _) = _ -> _ =>
        destruct (quiet e) eqn:Eq; [rewrite (quiet_quiet2 _ Eq); auto|];
        destruct (quiet2 e); [|auto]; destruct u; [discriminate|auto]
    end.
Qed.

Lemma dur_dur2 es : forall u u', dur u es = Some u' -> dur2 u es = Some u'.
Proof.
  induction es as [|e es IH]; intros u u' H; [exact H|]. cbn [dur dur2] in *.
  destruct (dur_step u e) as [u1|] eqn:E; [|discriminate]. rewrite (dur_dur2_step _ _ _ E). apply IH. exact H.
Qed.

Lemma quiet2_forget e L i q : quiet2 e = true -> forget e L (FSeg i q) = L (FSeg i q).
Proof.
  unfold quiet2. destruct e as [f|f|id seq off r|j|id seq m|j|sd|f n|f g|f|f]; cbn [forget]; try reflexivity.
  - destruct f; try (intros _; apply fdel_other; discriminate). discriminate.
  - destruct f; try (intros _; apply fdel_other; discriminate). discriminate.
Qed.

Lemma quiet2_same_log (d : disk) e : quiet2 e = true -> same_log d (apply_ev flat_ops d e).
Proof. unfold quiet2. intros H. apply negb_true_iff in H. apply apply_ev_same_log. exact H. Qed.

Lemma data_nonseg_quiet2 e f : data_file e = Some f -> seg_data e = None -> quiet2 e = true.
Proof. intros H1 H2. apply quiet_quiet2. eapply data_nonseg_quiet; eassumption. Qed.

(* the step of the automaton on an event that is quiet2 and not a Sync of a segment file *)
Lemma dur2_step_quiet u e : seg_data e = None -> quiet2 e = true -> (forall i q, e <> ESync (FSeg i q)) ->
  dur2_step u e = Some u.
Proof.
  intros Hs Hq Hn. unfold dur2_step. rewrite Hs.
  destruct e as [f|f|id seq off r|j|id seq m|j|sd|f n|f g|f|f]; try (rewrite Hq; reflexivity).
  destruct f; try (rewrite Hq; reflexivity). exfalso. eapply Hn. reflexivity.
Qed.

(* a file that has lost a write is the one the automaton knows as unflushed *)
Lemma pl_dur2 L img es L' img' :
  pl L img es L' img' -> forall u u',
  dur2 u es = Some u' -> (forall i q, L (FSeg i q) = true -> u = Some (i, q)) ->
  forall i q, L' (FSeg i q) = true -> u' = Some (i, q).
Proof.
  intros H. induction H as [L d0|L d0 e es L1 d1 H1 H2 H3 IH|L d0 e f es L1 d1 H1 H3 IH|L d0 id seq off r c es L1 d1 H1 H2 H2' H3 IH];
    intros u u' Hd HL; cbn [dur2] in Hd.
  - inversion Hd; subst. exact HL.
  - destruct (dur2_step u e) as [u1|] eqn:Es; [|discriminate]. apply (IH u1 u' Hd).
    intros i q Hl. pose proof (HL i q (forget_le _ _ _ Hl)) as Eu. subst u.
    unfold dur2_step in Es. destruct (seg_data e) as [x|] eqn:Esd.
    + destruct (pair_eqb x (i, q)) eqn:Ex; [|discriminate]. apply pair_eqb_eq in Ex. subst x.
      apply seg_data_file in Esd. cbn [fst snd] in Esd.
      pose proof (forget_le _ _ _ Hl) as Hl'. rewrite (H1 _ Esd) in Hl'. discriminate.
    + destruct e as [f|f|id seq off r|j|id seq m|j|sd|f n|f g|f|f];
        try (destruct (quiet2 _); inversion Es; reflexivity).
      destruct f as [i' q'| | | | | | |]; try (destruct (quiet2 _); inversion Es; reflexivity).
      destruct (pair_eqb (i', q') (i, q)) eqn:Ex; [|inversion Es; reflexivity].
      apply pair_eqb_eq in Ex. inversion Ex; subst i' q'.
      cbn [forget] in Hl. rewrite (H2 _ eq_refl) in Hl. discriminate.
  - destruct (dur2_step u e) as [u1|] eqn:Es; [|discriminate]. apply (IH u1 u' Hd).
    intros i q Hl. unfold dur2_step in Es. destruct (seg_data e) as [x|] eqn:Esd.
    + pose proof Esd as Esd'. apply seg_data_file in Esd'. rewrite H1 in Esd'. inversion Esd'; subst f.
      apply fadd_true in Hl. destruct Hl as [E|Hl].
      * inversion E. destruct x as [x1 x2]. cbn [fst snd] in *. subst i q.
        destruct u as [y|]; [|inversion Es; reflexivity].
        destruct (pair_eqb (x1, x2) y); inversion Es; reflexivity.
      * pose proof (HL i q Hl) as Eu. subst u. destruct (pair_eqb x (i, q)) eqn:Ex; [|discriminate].
        apply pair_eqb_eq in Ex. subst x. inversion Es; reflexivity.
    + rewrite (data_nonseg_quiet2 e f H1 Esd) in Es.
      assert (Hnf : f <> FSeg i q) by (intros E; subst f; exact (seg_data_none_file e i q Esd H1)).
      rewrite fadd_other in Hl by (intros E; apply Hnf; symmetry; exact E).
      pose proof (HL i q Hl) as Eu. subst u.
      destruct e as [f0|f0|id seq off r|j|id seq m|j|sd|f0 n|f0 g|f0|f0]; try discriminate H1; try (inversion Es; reflexivity).
  - cbn [dur2_step seg_data] in Hd.
    destruct (match u with None => Some (Some (id, seq)) | Some y => if pair_eqb (id, seq) y then Some (Some (id, seq)) else None end)
      as [u1|] eqn:Es; [|discriminate].
    apply (IH u1 u' Hd). intros i q Hl. apply fadd_true in Hl. destruct Hl as [E|Hl].
    + inversion E; subst i q. destruct u as [y|]; [|inversion Es; reflexivity].
      destruct (pair_eqb (id, seq) y); inversion Es; reflexivity.
    + pose proof (HL i q Hl) as Eu. subst u. destruct (pair_eqb (id, seq) (i, q)) eqn:Ex; [|discriminate].
      apply pair_eqb_eq in Ex. inversion Ex; subst. rewrite H1 in Hl. discriminate.
Qed.

Lemma same_log_torn (d img : disk) id seq r c : same_log d img -> same_log (torn d id seq r c) (torn img id seq r c).
Proof.
  intros A. unfold same_log, torn. rewrite !d_segs_upd_seg. apply core_fun_map_core; [apply core_fun_torn|exact A].
Qed.

Lemma Agree_same_log L (d img : disk) : seg_clean L -> Agree L d img -> same_log d img.
Proof.
  intros HL (A1 & _). unfold same_log. induction A1 as [|f f' l l' (_ & _ & C & _) _ IH]; [reflexivity|].
  cbn [map]. rewrite IH, (C (HL _ _)). reflexivity.
Qed.

(* once a segment file has lost a write, no segment file of the image changes any more *)
Lemma frozen2 L img es L' img' :
  pl L img es L' img' -> forall x, L (FSeg (fst x) (snd x)) = true -> dur2 (Some x) es <> None ->
  same_log img img' /\ L' (FSeg (fst x) (snd x)) = true /\ dur2 (Some x) es = Some (Some x).
Proof.
  intros H. induction H as [L d0|L d0 e es L1 d1 H1 H2 H3 IH|L d0 e f es L1 d1 H1 H3 IH|L d0 id seq off r c es L1 d1 H1 H2 H2' H3 IH];
    intros x HL Hd; cbn [dur2] in Hd |- *.
  - split; [apply same_log_refl|split; [exact HL|reflexivity]].
  - destruct (dur2_step (Some x) e) as [u1|] eqn:Es; [|congruence].
    unfold dur2_step in Es. destruct (seg_data e) as [y|] eqn:Esd.
    + destruct (pair_eqb y x) eqn:Ex; [|discriminate]. apply pair_eqb_eq in Ex. subst y.
      apply seg_data_file in Esd. rewrite (H1 _ Esd) in HL. discriminate.
    + assert (Hq : quiet2 e = true -> (forall i q, e <> ESync (FSeg i q)) ->
                   same_log d0 d1 /\ L1 (FSeg (fst x) (snd x)) = true /\ dur2 u1 es = Some (Some x)).
      { intros Hq Hns.
        assert (Eu : u1 = Some x).
        { pose proof (dur2_step_quiet (Some x) e Esd Hq Hns) as E'. unfold dur2_step in E'. rewrite Esd in E'.
          rewrite E' in Es. inversion Es. reflexivity. }
        subst u1. destruct (IH x) as (S1 & S2 & S3); [rewrite quiet2_forget by exact Hq; exact HL|exact Hd|].
        split; [eapply same_log_trans; [apply quiet2_same_log; exact Hq|exact S1]|split; assumption]. }
      destruct (quiet2 e) eqn:Eq.
      * destruct e as [f|f|id seq off r|j|id seq m|j|sd|f n|f g|f|f]; try (apply Hq; [reflexivity|discriminate]).
        destruct f as [i q| | | | | | |]; try (apply Hq; [reflexivity|discriminate]).
        destruct (pair_eqb (i, q) x) eqn:Ex.
        -- apply pair_eqb_eq in Ex. subst x. cbn [fst snd] in HL. rewrite (H2 _ eq_refl) in HL. discriminate.
        -- inversion Es; subst u1. apply (IH x); [exact HL|exact Hd].
      * destruct e as [f|f|id seq off r|j|id seq m|j|sd|f n|f g|f|f]; try discriminate Es; try discriminate Eq;
          destruct f; discriminate.
  - destruct (dur2_step (Some x) e) as [u1|] eqn:Es; [|congruence].
    assert (Eu : u1 = Some x).
    { unfold dur2_step in Es. destruct (seg_data e) as [y|] eqn:Esd.
      - destruct (pair_eqb y x) eqn:Ex; [|discriminate]. apply pair_eqb_eq in Ex. subst y. inversion Es; reflexivity.
      - rewrite (data_nonseg_quiet2 e f H1 Esd) in Es.
        destruct e as [f0|f0|id seq off r|j|id seq m|j|sd|f0 n|f0 g|f0|f0]; try discriminate H1; inversion Es; reflexivity. }
    subst u1. apply (IH x); [apply fadd_mono; exact HL|exact Hd].
  - cbn [dur2_step seg_data] in Hd. destruct (pair_eqb (id, seq) x) eqn:Ex; [|congruence].
    apply pair_eqb_eq in Ex. subst x. cbn [fst snd] in HL. congruence.
Qed.

(* THE REDUCTION, generalised.  Under the discipline [dur2] a power-loss image of a history is either
   complete on every segment file, or its segment files are those of a process-crash image of the same
   history (the crash taken at the first lost write to a segment file). *)
Theorem pl_reduce2 L img es L' img' :
  pl L img es L' img' -> forall d u, seg_clean L -> Agree L d img -> dur2 u es <> None ->
  (seg_clean L' /\ Agree L' (run_evs es d) img') \/
  (exists cimg x, crash_image d es cimg /\ same_log cimg img' /\ L' (FSeg (fst x) (snd x)) = true /\
                  dur2 u es = Some (Some x)).
Proof.
  intros H. induction H as [L d0|L d0 e es L1 d1 H1 H2 H3 IH|L d0 e f es L1 d1 H1 H3 IH|L d0 id seq off r c es L1 d1 H1 H2 H2' H3 IH];
    intros d u HL HA Hd; cbn [dur2 fold_left] in *.
  - left. split; assumption.
  - destruct (dur2_step u e) as [u1|] eqn:Es; [|congruence].
    destruct (IH (apply_ev flat_ops d e) u1) as [Hl|(cimg & x & C1 & C2 & C3 & C4)].
    + intros i q. destruct (forget e L (FSeg i q)) eqn:E; [|reflexivity]. apply forget_le in E. rewrite HL in E. discriminate.
    + apply agree_keep; assumption.
    + exact Hd.
    + left. exact Hl.
    + right. exists cimg, x. split; [apply ci_step; exact C1|split; [assumption|split; assumption]].
  - destruct (dur2_step u e) as [u1|] eqn:Es; [|congruence].
    unfold dur2_step in Es. destruct (seg_data e) as [x|] eqn:Esd.
    + assert (Eu : u1 = Some x) by (destruct u as [y|]; [destruct (pair_eqb x y)|]; inversion Es; reflexivity).
      subst u1. pose proof Esd as Esd'. apply seg_data_file in Esd'. rewrite H1 in Esd'. inversion Esd'; subst f.
      destruct (frozen2 _ _ _ _ _ H3 x (fadd_same _ _) Hd) as (S1 & S2 & S3).
      right. exists d, x. split; [apply ci_here|]. split; [|split; [exact S2|exact S3]].
      eapply same_log_trans; [apply (Agree_same_log L); eassumption|exact S1].
    + rewrite (data_nonseg_quiet2 e f H1 Esd) in Es.
      assert (Eu : u1 = u).
      { destruct e as [f0|f0|id seq off r|j|id seq m|j|sd|f0 n|f0 g|f0|f0]; try discriminate H1; inversion Es; reflexivity. }
      subst u1.
      destruct (IH (apply_ev flat_ops d e) u) as [Hl|(cimg & x & C1 & C2 & C3 & C4)].
      * intros i q. rewrite fadd_other; [apply HL|]. intros E. exact (seg_data_none_file e i q Esd (eq_trans H1 (f_equal Some (eq_sym E)))).
      * apply (agree_drop L d d0 e f HA H1).
      * exact Hd.
      * left. exact Hl.
      * right. exists cimg, x. split; [apply ci_step; exact C1|split; [assumption|split; assumption]].
  - cbn [dur2_step seg_data] in Hd |- *.
    assert (Hd' : dur2 (Some (id, seq)) es <> None /\
                  match (match u with None => Some (Some (id, seq)) | Some y => if pair_eqb (id, seq) y then Some (Some (id, seq)) else None end)
                  with Some u' => dur2 u' es | None => None end = dur2 (Some (id, seq)) es).
    { destruct u as [y|]; [destruct (pair_eqb (id, seq) y)|]; try congruence; split; auto. }
    destruct Hd' as [Hd' Eq]. rewrite Eq.
    destruct (frozen2 _ _ _ _ _ H3 (id, seq) (fadd_same _ _) Hd') as (S1 & S2 & S3).
    right. exists (torn d id seq r c), (id, seq). split; [apply ci_torn; assumption|]. split; [|split; [exact S2|exact S3]].
    eapply same_log_trans; [apply same_log_torn; apply (Agree_same_log L); eassumption|exact S1].
Qed.
(* ================================================================================================ *)
(* 2. Histories that span several processes: chunks of events, glued by torn writes                  *)

(* A history is a list of chunks: [CE es] -- the events [es] were issued; [CT id seq r c] -- a process
   died in the middle of the write of record [r] at the end of segment file (id, seq), after the first
   [c] bytes had been handed to the file system (0 < c < rsize r): a pending write like any other. *)
Inductive chunk := CE (es : list fsev) | CT (id seq : N) (r : rec) (c : N).

Definition hstep (d : disk) (k : chunk) : disk :=
  match k with CE es => run_evs es d | CT id seq r c => torn d id seq r c end.
Definition hrun (H : list chunk) (d : disk) : disk := fold_left hstep H d.

Lemma hrun_app H1 H2 (d : disk) : hrun (H1 ++ H2) d = hrun H2 (hrun H1 d).
Proof. apply fold_left_app. Qed.

(* the power-loss model on chunked histories: [pl] on the events; the partial write of a dying process
   reaches the disk entirely (its c bytes), not at all, or only its first c' < c bytes *)
Inductive plh : fset -> disk -> list chunk -> fset -> disk -> Prop :=
| plh_nil L d : plh L d [] L d
| plh_evs L d es L1 d1 H L' img' : pl L d es L1 d1 -> plh L1 d1 H L' img' -> plh L d (CE es :: H) L' img'
| plh_tkeep L d id seq r c H L' img' :
    L (FSeg id seq) = false -> plh L (torn d id seq r c) H L' img' -> plh L d (CT id seq r c :: H) L' img'
| plh_tdrop L d id seq r c H L' img' :
    plh (fadd (FSeg id seq) L) d H L' img' -> plh L d (CT id seq r c :: H) L' img'
| plh_ttear L d id seq r c c' H L' img' :
    L (FSeg id seq) = false -> 0 < c' -> c' < c ->
    plh (fadd (FSeg id seq) L) (torn d id seq r c') H L' img' -> plh L d (CT id seq r c :: H) L' img'.

Lemma plh_app_inv H1 : forall L d H2 L' img',
  plh L d (H1 ++ H2) L' img' -> exists L1 d1, plh L d H1 L1 d1 /\ plh L1 d1 H2 L' img'.
Proof.
  induction H1 as [|k H1 IH]; intros L d H2 L' img' Hp.
  - exists L, d. split; [apply plh_nil|exact Hp].
  - rewrite <- app_comm_cons in Hp.
    inversion Hp as [|L0 d0 es L1 d1 H0 L0' img0 A B|L0 d0 id seq r c H0 L0' img0 A B|L0 d0 id seq r c H0 L0' img0 B
                     |L0 d0 id seq r c c' H0 L0' img0 A A1 A2 B]; subst.
    + destruct (IH _ _ _ _ _ B) as (L2 & d2 & X & Y). exists L2, d2. split; [eapply plh_evs; eassumption|exact Y].
    + destruct (IH _ _ _ _ _ B) as (L2 & d2 & X & Y). exists L2, d2. split; [apply plh_tkeep; assumption|exact Y].
    + destruct (IH _ _ _ _ _ B) as (L2 & d2 & X & Y). exists L2, d2. split; [apply plh_tdrop; assumption|exact Y].
    + destruct (IH _ _ _ _ _ B) as (L2 & d2 & X & Y). exists L2, d2. split; [apply (plh_ttear _ _ _ _ _ _ c'); assumption|exact Y].
Qed.

Lemma plh_app K1 : forall L d K2 L1 d1 L' img',
  plh L d K1 L1 d1 -> plh L1 d1 K2 L' img' -> plh L d (K1 ++ K2) L' img'.
Proof.
  intros L d K2 L1 d1 L' img' Hp. revert K2 L' img'.
  induction Hp as [L d|L d es L1 d1 K L' img' Hpl Hrest IH|L d id seq r c K L' img' HLf Hrest IH|L d id seq r c K L' img' Hrest IH|L d id seq r c c' K L' img' HLf Hc0 Hc1 Hrest IH]; intros K2 L'' img'' Hq; cbn [app].
  - exact Hq.
  - eapply plh_evs; [exact Hpl|]. apply IH. exact Hq.
  - apply plh_tkeep; [exact HLf|]. apply IH. exact Hq.
  - apply plh_tdrop. apply IH. exact Hq.
  - apply (plh_ttear _ _ _ _ _ _ c'); try assumption. apply IH. exact Hq.
Qed.

(* a single chunk of events *)
Lemma plh_one L d es L' img' : pl L d es L' img' -> plh L d [CE es] L' img'.
Proof. intros Hp. eapply plh_evs; [exact Hp|apply plh_nil]. Qed.

Lemma plh_one_inv L d es L' img' : plh L d [CE es] L' img' -> pl L d es L' img'.
Proof. intros Hp. inversion Hp as [|L0 d0 es0 L1 d1 H0 L0' img0 A B| | |]; subst. inversion B; subst. exact A. Qed.

(* ---- what the image has in common with the real disk ---- *)
Lemma agree_tkeep L (d img : disk) id seq r c :
  Agree L d img -> L (FSeg id seq) = false -> Agree L (torn d id seq r c) (torn img id seq r c).
Proof.
  intros (A1 & A2 & A3 & A4 & A5 & A6 & A7) HL. unfold Agree, torn; dproj. split; [|repeat split; auto].
  apply (core_both L id seq _ _ _ (core_fun_torn r c)); assumption.
Qed.

Lemma agree_tdrop L (d img : disk) id seq r c :
  Agree L d img -> Agree (fadd (FSeg id seq) L) (torn d id seq r c) img.
Proof.
  intros (A1 & A2 & A3 & A4 & A5 & A6 & A7).
  assert (Hw : forall g, fadd (FSeg id seq) L g = false -> L g = false) by (intros g; apply fadd_false).
  unfold Agree, torn; dproj. split; [|repeat split; auto].
  apply (core_left L id seq); [intros s; repeat split|exact A1].
Qed.

Lemma agree_ttear L (d img : disk) id seq r c c' :
  Agree L d img -> Agree (fadd (FSeg id seq) L) (torn d id seq r c) (torn img id seq r c').
Proof.
  intros HA. pose proof (agree_tdrop L d img id seq r c HA) as (A1 & A2 & A3 & A4 & A5 & A6 & A7).
  unfold Agree. unfold torn at 2; dproj. split; [|repeat split; auto].
  apply (upd_right (fadd (FSeg id seq) L) _ id seq); [exact A1| |auto].
  intros f f' (B1 & B2 & B3 & B4) Hs. destruct (is_seg_true _ _ _ Hs) as [Ei Eq].
  split; [exact B1|]. split; [exact B2|]. split; [|exact B4].
  rewrite Ei, Eq, fadd_same. discriminate.
Qed.

Theorem plh_agree L img H L' img' :
  plh L img H L' img' -> forall d, Agree L d img -> Agree L' (hrun H d) img'.
Proof.
  intros Hp. induction Hp as [L d|L d es L1 d1 K L' img' Hpl Hrest IH|L d id seq r c K L' img' HLf Hrest IH|L d id seq r c K L' img' Hrest IH|L d id seq r c c' K L' img' HLf Hc0 Hc1 Hrest IH]; intros d0 HA; cbn [hrun fold_left hstep].
  - exact HA.
  - apply IH. eapply pl_agree; eassumption.
  - apply IH. apply agree_tkeep; assumption.
  - apply IH. apply agree_tdrop. exact HA.
  - apply IH. apply agree_ttear. exact HA.
Qed.

(* ---- the discipline on chunked histories ---- *)
Definition dur2_data (u : option (N * N)) (x : N * N) : option (option (N * N)) :=
  match u with None => Some (Some x) | Some y => if pair_eqb x y then Some (Some x) else None end.

Definition hdur2_step (u : option (N * N)) (k : chunk) : option (option (N * N)) :=
  match k with CE es => dur2 u es | CT id seq _ _ => dur2_data u (id, seq) end.

Fixpoint hdur2 (u : option (N * N)) (H : list chunk) : option (option (N * N)) :=
  match H with
  | [] => Some u
  | k :: H' => match hdur2_step u k with Some u' => hdur2 u' H' | None => None end
  end.

Lemma hdur2_app H1 : forall u H2,
  hdur2 u (H1 ++ H2) = match hdur2 u H1 with Some u1 => hdur2 u1 H2 | None => None end.
Proof.
  induction H1 as [|k H1 IH]; intros u H2; [reflexivity|]. cbn [app hdur2].
  destruct (hdur2_step u k) as [u1|]; [apply IH|reflexivity].
Qed.

Lemma hdur2_cat u H1 H2 u1 u2 : hdur2 u H1 = Some u1 -> hdur2 u1 H2 = Some u2 -> hdur2 u (H1 ++ H2) = Some u2.
Proof. intros A B. rewrite hdur2_app, A. exact B. Qed.

Lemma dur2_data_inv u x u' : dur2_data u x = Some u' -> u' = Some x /\ (u = None \/ u = Some x).
Proof.
  unfold dur2_data. destruct u as [y|]; [|intros E; inversion E; auto].
  destruct (pair_eqb x y) eqn:Ex; [|discriminate]. apply pair_eqb_eq in Ex. subst y. intros E; inversion E; auto.
Qed.

Lemma plh_dur2 L img H L' img' :
  plh L img H L' img' -> forall u u',
  hdur2 u H = Some u' -> (forall i q, L (FSeg i q) = true -> u = Some (i, q)) ->
  forall i q, L' (FSeg i q) = true -> u' = Some (i, q).
Proof.
  intros Hp. induction Hp as [L d|L d es L1 d1 K L' img' Hpl Hrest IH|L d id seq r c K L' img' HLf Hrest IH|L d id seq r c K L' img' Hrest IH|L d id seq r c c' K L' img' HLf Hc0 Hc1 Hrest IH]; intros u u' Hd HL; cbn [hdur2 hdur2_step] in Hd.
  - inversion Hd; subst. exact HL.
  - destruct (dur2 u es) as [u1|] eqn:E1; [|discriminate]. apply (IH u1 u' Hd).
    apply (pl_dur2 _ _ _ _ _ Hpl u u1 E1 HL).
  - destruct (dur2_data u (id, seq)) as [u1|] eqn:E1; [|discriminate]. apply (IH u1 u' Hd).
    destruct (dur2_data_inv _ _ _ E1) as [-> Hu]. intros i q Hl. pose proof (HL i q Hl) as Eu.
    destruct Hu as [Hu|Hu]; rewrite Hu in Eu; [discriminate|]. inversion Eu; subst. congruence.
  - destruct (dur2_data u (id, seq)) as [u1|] eqn:E1; [|discriminate]. apply (IH u1 u' Hd).
    destruct (dur2_data_inv _ _ _ E1) as [-> Hu]. intros i q Hl. apply fadd_true in Hl. destruct Hl as [E|Hl].
    + inversion E; reflexivity.
    + pose proof (HL i q Hl) as Eu. destruct Hu as [Hu|Hu]; rewrite Hu in Eu; [discriminate|]. inversion Eu; reflexivity.
  - destruct (dur2_data u (id, seq)) as [u1|] eqn:E1; [|discriminate]. apply (IH u1 u' Hd).
    destruct (dur2_data_inv _ _ _ E1) as [-> Hu]. intros i q Hl. apply fadd_true in Hl. destruct Hl as [E|Hl].
    + inversion E; reflexivity.
    + pose proof (HL i q Hl) as Eu. destruct Hu as [Hu|Hu]; rewrite Hu in Eu; [discriminate|]. inversion Eu; reflexivity.
Qed.

Lemma hfrozen L img H L' img' :
  plh L img H L' img' -> forall x, L (FSeg (fst x) (snd x)) = true -> hdur2 (Some x) H <> None ->
  same_log img img' /\ L' (FSeg (fst x) (snd x)) = true.
Proof.
  intros Hp. induction Hp as [L d|L d es L1 d1 K L' img' Hpl Hrest IH|L d id seq r c K L' img' HLf Hrest IH|L d id seq r c K L' img' Hrest IH|L d id seq r c c' K L' img' HLf Hc0 Hc1 Hrest IH]; intros x HL Hd; cbn [hdur2 hdur2_step] in Hd.
  - split; [apply same_log_refl|exact HL].
  - destruct (dur2 (Some x) es) as [u1|] eqn:E1; [|congruence].
    destruct (frozen2 _ _ _ _ _ Hpl x HL) as (S1 & S2 & S3); [rewrite E1; discriminate|].
    rewrite S3 in E1. inversion E1; subst u1. destruct (IH x S2 Hd) as [T1 T2].
    split; [eapply same_log_trans; eassumption|exact T2].
  - exfalso. destruct (dur2_data (Some x) (id, seq)) as [u1|] eqn:E1; [|congruence].
    destruct (dur2_data_inv _ _ _ E1) as [_ [Hu|Hu]]; [discriminate|]. inversion Hu; subst x. cbn [fst snd] in HL. congruence.
  - destruct (dur2_data (Some x) (id, seq)) as [u1|] eqn:E1; [|congruence].
    destruct (dur2_data_inv _ _ _ E1) as [-> [Hu|Hu]]; [discriminate|]. inversion Hu; subst x.
    apply (IH (id, seq)); [apply fadd_same|exact Hd].
  - exfalso. destruct (dur2_data (Some x) (id, seq)) as [u1|] eqn:E1; [|congruence].
    destruct (dur2_data_inv _ _ _ E1) as [_ [Hu|Hu]]; [discriminate|]. inversion Hu; subst x. cbn [fst snd] in HL. congruence.
Qed.

(* process-crash images of a chunked history: the crash may strike inside any chunk of events; where a
   process died in the middle of a write, any non-empty prefix of the bytes it wrote may be there *)
Inductive hcrash : disk -> list chunk -> disk -> Prop :=
| hc_here d H : hcrash d H d
| hc_in d es H cimg : crash_image d es cimg -> hcrash d (CE es :: H) cimg
| hc_evs d es H cimg : hcrash (run_evs es d) H cimg -> hcrash d (CE es :: H) cimg
| hc_torn d id seq r c c' H : 0 < c' -> c' <= c -> hcrash d (CT id seq r c :: H) (torn d id seq r c')
| hc_tnext d id seq r c H cimg : hcrash (torn d id seq r c) H cimg -> hcrash d (CT id seq r c :: H) cimg.

Lemma hcrash_app_l K1 K2 : forall d cimg, hcrash d K1 cimg -> hcrash d (K1 ++ K2) cimg.
Proof.
  intros d cimg Hc. induction Hc as [d K|d es K cimg Hci|d es K cimg Hc IH|d id seq r c c' K Hc0 Hc1|d id seq r c K cimg Hc IH]; cbn [app].
  - apply hc_here.
  - apply hc_in. exact Hci.
  - apply hc_evs. exact IH.
  - apply hc_torn; assumption.
  - apply hc_tnext. exact IH.
Qed.

Lemma hcrash_app_r H1 : forall H2 d cimg, hcrash (hrun H1 d) H2 cimg -> hcrash d (H1 ++ H2) cimg.
Proof.
  induction H1 as [|k H1 IH]; intros H2 d cimg Hc; [exact Hc|]. cbn [app]. cbn [hrun fold_left] in Hc.
  destruct k as [es|id seq r c]; [apply hc_evs|apply hc_tnext]; apply IH; exact Hc.
Qed.

(* THE REDUCTION for chunked histories *)
Theorem plh_reduce L img H L' img' :
  plh L img H L' img' -> forall d u, seg_clean L -> Agree L d img -> hdur2 u H <> None ->
  (seg_clean L' /\ Agree L' (hrun H d) img') \/
  (exists cimg x, hcrash d H cimg /\ same_log cimg img' /\ L' (FSeg (fst x) (snd x)) = true).
Proof.
  intros Hp. induction Hp as [L d|L d es L1 d1 K L' img' Hpl Hrest IH|L d id seq r c K L' img' HLf Hrest IH|L d id seq r c K L' img' Hrest IH|L d id seq r c c' K L' img' HLf Hc0 Hc1 Hrest IH]; intros d0 u HL HA Hd; cbn [hdur2 hdur2_step hrun fold_left hstep] in *.
  - left. split; assumption.
  - destruct (dur2 u es) as [u1|] eqn:E1; [|congruence].
    destruct (pl_reduce2 _ _ _ _ _ Hpl d0 u HL HA) as [[HL1 HA1]|(cimg & x & C1 & C2 & C3 & C4)]; [rewrite E1; discriminate| |].
    + destruct (IH (run_evs es d0) u1 HL1 HA1 Hd) as [Hl|(cimg & x & C1 & C2 & C3)]; [left; exact Hl|].
      right. exists cimg, x. split; [apply hc_evs; exact C1|split; assumption].
    + rewrite E1 in C4. inversion C4; subst u1. destruct (hfrozen _ _ _ _ _ Hrest x C3 Hd) as [T1 T2].
      right. exists cimg, x. split; [apply hc_in; exact C1|]. split; [eapply same_log_trans; eassumption|exact T2].
  - destruct (dur2_data u (id, seq)) as [u1|] eqn:E1; [|congruence].
    destruct (IH (torn d0 id seq r c) u1 HL (agree_tkeep _ _ _ _ _ _ _ HA HLf) Hd) as [Hl|(cimg & x & C1 & C2 & C3)]; [left; exact Hl|].
    right. exists cimg, x. split; [apply hc_tnext; exact C1|split; assumption].
  - destruct (dur2_data u (id, seq)) as [u1|] eqn:E1; [|congruence].
    destruct (dur2_data_inv _ _ _ E1) as [-> _].
    destruct (hfrozen _ _ _ _ _ Hrest (id, seq) (fadd_same _ _) Hd) as [T1 T2].
    right. exists d0, (id, seq). split; [apply hc_here|]. split; [|exact T2].
    eapply same_log_trans; [apply (Agree_same_log L); eassumption|exact T1].
  - destruct (dur2_data u (id, seq)) as [u1|] eqn:E1; [|congruence].
    destruct (dur2_data_inv _ _ _ E1) as [-> _].
    destruct (hfrozen _ _ _ _ _ Hrest (id, seq) (fadd_same _ _) Hd) as [T1 T2].
    right. exists (torn d0 id seq r c'), (id, seq). split; [apply hc_torn; [assumption|apply N.lt_le_incl; assumption]|].
    split; [|exact T2].
    eapply same_log_trans; [apply same_log_torn; apply (Agree_same_log L); eassumption|exact T1].
Qed.

(* ---- executable form ---- *)
Inductive hch := HC (cs : list plc) | HKeep | HDrop | HTear (c' : N).

Fixpoint plh_exec (hs : list hch) (L : fset) (d : disk) (H : list chunk) : option (fset * disk) :=
  match hs, H with
  | [], [] => Some (L, d)
  | HC cs :: hs', CE es :: H' =>
      match pl_exec cs L d es with Some (L1, d1) => plh_exec hs' L1 d1 H' | None => None end
  | HKeep :: hs', CT id seq r c :: H' =>
      if L (FSeg id seq) then None else plh_exec hs' L (torn d id seq r c) H'
  | HDrop :: hs', CT id seq r c :: H' => plh_exec hs' (fadd (FSeg id seq) L) d H'
  | HTear c' :: hs', CT id seq r c :: H' =>
      if L (FSeg id seq) then None
      else if negb ((0 <? c') && (c' <? c)) then None
      else plh_exec hs' (fadd (FSeg id seq) L) (torn d id seq r c') H'
  | _, _ => None
  end.

Lemma plh_exec_sound hs : forall L d H L' img',
  plh_exec hs L d H = Some (L', img') -> plh L d H L' img'.
Proof.
  induction hs as [|h hs IH]; intros L d H L' img' E.
  - destruct H; [|discriminate E]. cbn [plh_exec] in E. inversion E; subst. apply plh_nil.
  - destruct h as [cs| | |c']; destruct H as [|[es|id seq r c] H]; try discriminate E; cbn [plh_exec] in E.
    + destruct (pl_exec cs L d es) as [[L1 d1]|] eqn:E1; [|discriminate].
      eapply plh_evs; [apply (pl_exec_sound cs); exact E1|apply IH; exact E].
    + destruct (L (FSeg id seq)) eqn:El; [discriminate|]. apply plh_tkeep; [exact El|apply IH; exact E].
    + apply plh_tdrop. apply IH. exact E.
    + destruct (L (FSeg id seq)) eqn:El; [discriminate|].
      destruct ((0 <? c') && (c' <? c)) eqn:Ec; [|discriminate]. cbn [negb] in E.
      apply andb_true_iff in Ec. destruct Ec as [A B].
      apply (plh_ttear _ _ _ _ _ _ c'); [exact El|apply N.ltb_lt; exact A|apply N.ltb_lt; exact B|apply IH; exact E].
Qed.
(* ================================================================================================ *)
(* 3. Which segment files are "dirty", and what a list of events does to them                        *)

Definition fpair (f : dseg) : N * N := (f_id f, f_seq f).
(* a segment file that a recovery writes to: no header yet, or a (stuck) tail to cut *)
Definition dirty (f : dseg) : Prop := f_hdr f = false \/ f_tail f <> [].
Definition Qd (y : N * N) (d : disk) : Prop := forall f, In f (d_segs d) -> dirty f -> fpair f = y.
Definition bound (y : N * N) (d : disk) : Prop := forall f, In f (d_segs d) -> f_seq f <= snd y.
Definition present (x : N * N) (d : disk) : Prop := exists f, In f (d_segs d) /\ fpair f = x.

(* [Jd y d u]: only the segment file y can be dirty, no segment file is newer than y, and the segment
   file the automaton knows as unflushed exists and is the newest one *)
Definition Jd (y : N * N) (d : disk) (u : option (N * N)) : Prop :=
  Qd y d /\ bound y d /\ forall x, u = Some x -> present x d /\ bound x d.
Definition Neat (u : option (N * N)) (d : disk) : Prop := exists y, Jd y d u.

Definition allclean (d : disk) : Prop := forall f, In f (d_segs d) -> f_hdr f = true /\ f_tail f = [].

Lemma same_log_back (d d' : disk) f' : same_log d d' -> In f' (d_segs d') ->
  exists f, In f (d_segs d) /\ seg_core f' = seg_core f.
Proof.
  intros H Hf. destruct (same_log_In d' d f' (same_log_sym _ _ H) Hf) as (f & Hin & E). exists f. split; [exact Hin|symmetry; exact E].
Qed.

Lemma Qd_same_log y (d d' : disk) : same_log d d' -> Qd y d -> Qd y d'.
Proof.
  intros H HQ f' Hf' Hd. destruct (same_log_back d d' f' H Hf') as (f & Hf & E). apply seg_core_inv in E.
  destruct E as (E1 & E2 & E3 & _ & E5 & _). unfold fpair. rewrite E1, E2. apply (HQ f Hf).
  unfold dirty in *. rewrite <- E3, <- E5. exact Hd.
Qed.
Lemma bound_same_log y (d d' : disk) : same_log d d' -> bound y d -> bound y d'.
Proof.
  intros H HB f' Hf'. destruct (same_log_back d d' f' H Hf') as (f & Hf & E). apply seg_core_inv in E.
  destruct E as (_ & E2 & _). rewrite E2. apply (HB f Hf).
Qed.
Lemma present_same_log x (d d' : disk) : same_log d d' -> present x d -> present x d'.
Proof.
  intros H (f & Hf & E). destruct (same_log_In d d' f H Hf) as (f' & Hf' & E'). apply seg_core_inv in E'.
  destruct E' as (E1 & E2 & _). exists f'. split; [exact Hf'|]. unfold fpair in *. congruence.
Qed.
Lemma Jd_same_log y (d d' : disk) u : same_log d d' -> Jd y d u -> Jd y d' u.
Proof.
  intros H (A & B & C). split; [eapply Qd_same_log; eassumption|]. split; [eapply bound_same_log; eassumption|].
  intros x Ex. destruct (C x Ex) as [C1 C2]. split; [eapply present_same_log; eassumption|eapply bound_same_log; eassumption].
Qed.
Lemma Neat_same_log (d d' : disk) u : same_log d d' -> Neat u d -> Neat u d'.
Proof. intros H (y & HJ). exists y. eapply Jd_same_log; eassumption. Qed.

(* updates of one segment file *)
Definition keeps_ids (g : dseg -> dseg) : Prop := forall s, f_id (g s) = f_id s /\ f_seq (g s) = f_seq s.

Lemma upd_In i q g (d : disk) f' : In f' (d_segs (upd_seg i q g d)) ->
  exists f, In f (d_segs d) /\ ((is_seg i q f = true /\ f' = g f) \/ (is_seg i q f = false /\ f' = f)).
Proof.
  rewrite d_segs_upd_seg. intros H. apply in_map_iff in H. destruct H as (f & E & Hf). exists f. split; [exact Hf|].
  destruct (is_seg i q f); [left|right]; split; auto.
Qed.

Lemma upd_Qd i q g (d : disk) : keeps_ids g -> Qd (i, q) d -> Qd (i, q) (upd_seg i q g d).
Proof.
  intros Hg HQ f' Hf' Hd. destruct (upd_In _ _ _ _ _ Hf') as (f & Hf & [[Hs ->]|[Hs ->]]).
  - destruct (Hg f) as [a b]. destruct (is_seg_true _ _ _ Hs) as [Ei Eq]. unfold fpair. congruence.
  - apply (HQ f Hf Hd).
Qed.
Lemma upd_bound y i q g (d : disk) : keeps_ids g -> bound y d -> bound y (upd_seg i q g d).
Proof.
  intros Hg HB f' Hf'. destruct (upd_In _ _ _ _ _ Hf') as (f & Hf & [[Hs ->]|[Hs ->]]).
  - destruct (Hg f) as [_ b]. rewrite b. apply (HB f Hf).
  - apply (HB f Hf).
Qed.
Lemma upd_present x i q g (d : disk) : keeps_ids g -> present x d -> present x (upd_seg i q g d).
Proof.
  intros Hg (f & Hf & E). rewrite <- E. exists (if is_seg i q f then g f else f).
  split; [rewrite d_segs_upd_seg; apply (in_map (fun s => if is_seg i q s then g s else s)); exact Hf|].
  destruct (is_seg i q f); [|reflexivity]. destruct (Hg f) as [a b]. unfold fpair. congruence.
Qed.
Lemma upd_seqs i q g (d : disk) : keeps_ids g -> map f_seq (d_segs (upd_seg i q g d)) = map f_seq (d_segs d).
Proof.
  intros Hg. rewrite d_segs_upd_seg, map_map. apply map_ext. intros f. destruct (is_seg i q f); [apply Hg|reflexivity].
Qed.

(* an event that writes data to the segment file (i, q) is an update of that file *)
Lemma seg_data_upd e i q : seg_data e = Some (i, q) ->
  exists g, keeps_ids g /\ forall d : disk, apply_ev flat_ops d e = upd_seg i q g d.
Proof.
  destruct e as [f|f|id seq off r|j|id seq m|j|sd|f n|f g|f|f]; cbn [seg_data]; try discriminate.
  - destruct f; try discriminate. intros E. inversion E; subst. eexists. split; [|intros d; reflexivity].
    intros s. split; reflexivity.
  - intros E. inversion E; subst. exists (append_seg off r). split; [intros s; split; reflexivity|intros d; reflexivity].
  - destruct f; try discriminate. intros E. inversion E; subst. exists (trunc_seg n).
    split; [|intros d; reflexivity]. intros s. destruct (proj1 (core_fun_trunc n) s) as (a & b & _). split; assumption.
Qed.

Lemma torn_upd (d : disk) i q r c : exists g, keeps_ids g /\ torn d i q r c = upd_seg i q g d.
Proof. eexists. split; [|reflexivity]. intros s. split; reflexivity. Qed.

Lemma touches_log_seg_data e : touches_log e = false -> seg_data e = None.
Proof. destruct e as [f|f|id seq off r|j|id seq m|j|sd|f n|f g|f|f]; cbn; try reflexivity; try discriminate; destruct f; try reflexivity; discriminate. Qed.

(* ---- steps of the automaton by kind of event ---- *)
Lemma dur2_step_nolog u e : touches_log e = false -> exists u', dur2_step u e = Some u' /\ (u' = u \/ u' = None).
Proof.
  intros H. unfold dur2_step, quiet2. rewrite (touches_log_seg_data e H), H. cbn [negb].
  destruct e as [f|f|id seq off r|j|id seq m|j|sd|f n|f g|f|f]; try (exists u; split; [reflexivity|left; reflexivity]).
  destruct f; try (exists u; split; [reflexivity|left; reflexivity]).
  eexists. split; [reflexivity|]. destruct u as [y|]; [|right; reflexivity]. destruct (pair_eqb (id, seq) y); auto.
Qed.

Lemma dur2_step_data u e x : seg_data e = Some x -> dur2_step u e = dur2_data u x.
Proof. intros H. unfold dur2_step, dur2_data. rewrite H. reflexivity. Qed.

Lemma dur2_step_create u i q : dur2_step u (ECreate (FSeg i q)) = match u with None => Some None | Some _ => None end.
Proof. reflexivity. Qed.
Lemma dur2_step_remove u i q : dur2_step u (ERemove (FSeg i q)) = match u with None => Some None | Some _ => None end.
Proof. reflexivity. Qed.

(* ---- lists of events that write to the segment file y only ---- *)
(* strict = true: a segment file is created only in a directory without segment files, none is removed
   (what a recovering Open does); strict = false: what the operations do *)
Inductive wtr (strict : bool) (y : N * N) : disk -> list fsev -> Prop :=
| wt_nil d : wtr strict y d []
| wt_quiet d e es : touches_log e = false -> wtr strict y (apply_ev flat_ops d e) es -> wtr strict y d (e :: es)
| wt_data d e es : seg_data e = Some y -> present y d -> wtr strict y (apply_ev flat_ops d e) es -> wtr strict y d (e :: es)
| wt_create d es : (strict = true -> d_segs d = []) ->
    wtr strict y (apply_ev flat_ops d (ECreate (FSeg (fst y) (snd y)))) es ->
    wtr strict y d (ECreate (FSeg (fst y) (snd y)) :: es)
| wt_remove d i q es : strict = false -> wtr strict y (apply_ev flat_ops d (ERemove (FSeg i q))) es ->
    wtr strict y d (ERemove (FSeg i q) :: es).

Lemma wtr_inv b y (d : disk) e es : wtr b y d (e :: es) ->
  wtr b y (apply_ev flat_ops d e) es /\
  (touches_log e = false \/ (seg_data e = Some y /\ present y d) \/
   (e = ECreate (FSeg (fst y) (snd y)) /\ (b = true -> d_segs d = [])) \/
   (b = false /\ exists i q, e = ERemove (FSeg i q))).
Proof.
  intros H. inversion H; subst; (split; [assumption|]).
  - left. assumption.
  - right. left. split; assumption.
  - right. right. left. split; [reflexivity|assumption].
  - right. right. right. split; [first [assumption|reflexivity]|]. eexists _, _. reflexivity.
Qed.

Lemma wtr_cons b y (d : disk) e es : wtr b y (apply_ev flat_ops d e) es ->
  (touches_log e = false \/ (seg_data e = Some y /\ present y d) \/
   (e = ECreate (FSeg (fst y) (snd y)) /\ (b = true -> d_segs d = [])) \/
   (b = false /\ exists i q, e = ERemove (FSeg i q))) -> wtr b y d (e :: es).
Proof.
  intros H [A|[[A A']|[[-> A]|[A (i & q & ->)]]]].
  - apply wt_quiet; assumption.
  - apply wt_data; assumption.
  - apply wt_create; assumption.
  - apply wt_remove; assumption.
Qed.

Lemma wtr_app b y es1 : forall d es2, wtr b y d es1 -> wtr b y (run_evs es1 d) es2 -> wtr b y d (es1 ++ es2).
Proof.
  induction es1 as [|e es1 IH]; intros d es2 H1 H2; [exact H2|]. cbn [app]. cbn [fold_left] in H2.
  destruct (wtr_inv _ _ _ _ _ H1) as [B K]. apply wtr_cons; [apply IH; assumption|exact K].
Qed.

Lemma wtr_app_inv b y es1 : forall d es2, wtr b y d (es1 ++ es2) -> wtr b y d es1 /\ wtr b y (run_evs es1 d) es2.
Proof.
  induction es1 as [|e es1 IH]; intros d es2 H; [split; [apply wt_nil|exact H]|]. cbn [app] in H. cbn [fold_left].
  destruct (wtr_inv _ _ _ _ _ H) as [B K]. destruct (IH _ _ B) as [X Y]. split; [apply wtr_cons; assumption|exact Y].
Qed.

Lemma wtr_nolog b y es : forall d, Forall (fun e => touches_log e = false) es -> wtr b y d es.
Proof.
  induction es as [|e es IH]; intros d H; [apply wt_nil|]. inversion H; subst. apply wt_quiet; [assumption|apply IH; assumption].
Qed.

Lemma neutral_nolog es : Forall neutral es -> Forall (fun e : fsev => touches_log e = false) es.
Proof. intros H. apply Forall_forall. intros e He. rewrite Forall_forall in H. apply (H e He). Qed.

Lemma syncs_nolog es : Forall is_sync es -> Forall (fun e : fsev => touches_log e = false) es.
Proof. intros H. apply Forall_forall. intros e He. rewrite Forall_forall in H. destruct (H e He) as (i & q & ->). reflexivity. Qed.

(* one step keeps the invariant *)
Lemma Jd_nolog y (d : disk) u e u' : touches_log e = false -> dur2_step u e = Some u' -> Jd y d u -> Jd y (apply_ev flat_ops d e) u'.
Proof.
  intros H Es HJ. destruct (dur2_step_nolog u e H) as (u1 & E1 & Hu). rewrite Es in E1. inversion E1; subst u1.
  apply (Jd_same_log y d); [apply apply_ev_same_log; exact H|].
  destruct HJ as (A & B & C). split; [exact A|]. split; [exact B|]. intros x Ex.
  destruct Hu as [->| ->]; [apply C; exact Ex|discriminate].
Qed.

Lemma Jd_data y (d : disk) u e u' : seg_data e = Some y -> present y d -> dur2_step u e = Some u' -> Jd y d u ->
  Jd y (apply_ev flat_ops d e) u' /\ u' = Some y /\ (u = None \/ u = Some y).
Proof.
  intros H Hp Es (A & B & C). rewrite (dur2_step_data u e y H) in Es. destruct (dur2_data_inv _ _ _ Es) as [-> Hu].
  split; [|split; [reflexivity|exact Hu]]. destruct y as [i q]. destruct (seg_data_upd e i q H) as (g & Hg & Eg). rewrite Eg.
  split; [apply upd_Qd; assumption|]. split; [apply upd_bound; assumption|].
  intros x Ex. inversion Ex; subst x. split; [apply upd_present; assumption|apply upd_bound; assumption].
Qed.

Lemma Jd_create y (d : disk) u u' : dur2_step u (ECreate (FSeg (fst y) (snd y))) = Some u' -> Jd y d u ->
  Jd y (apply_ev flat_ops d (ECreate (FSeg (fst y) (snd y)))) u' /\ u = None /\ u' = None.
Proof.
  rewrite dur2_step_create. destruct u as [x|]; [discriminate|]. intros E; inversion E; subst u'. intros (A & B & _).
  split; [|split; reflexivity]. split; [|split; [|intros x Ex; discriminate]].
  - intros f Hf Hd. rewrite d_segs_create_seg in Hf. apply in_app_or in Hf. destruct Hf as [Hf|[<-|[]]].
    + apply (A f Hf Hd).
    + destruct y; reflexivity.
  - intros f Hf. rewrite d_segs_create_seg in Hf. apply in_app_or in Hf. destruct Hf as [Hf|[<-|[]]].
    + apply (B f Hf).
    + cbn [f_seq]. apply N.le_refl.
Qed.

Lemma Jd_remove y (d : disk) u u' i q : dur2_step u (ERemove (FSeg i q)) = Some u' -> Jd y d u ->
  Jd y (apply_ev flat_ops d (ERemove (FSeg i q))) u'.
Proof.
  rewrite dur2_step_remove. destruct u as [x|]; [discriminate|]. intros E; inversion E; subst u'. intros (A & B & _).
  split; [|split; [|intros x Ex; discriminate]].
  - intros f Hf Hd. rewrite d_segs_remove_seg in Hf. apply filter_In in Hf. apply (A f (proj1 Hf) Hd).
  - intros f Hf. rewrite d_segs_remove_seg in Hf. apply filter_In in Hf. apply (B f (proj1 Hf)).
Qed.

Theorem Jd_run b y es : forall (d : disk) u u', wtr b y d es -> dur2 u es = Some u' -> Jd y d u -> Jd y (run_evs es d) u'.
Proof.
  induction es as [|e es IH]; intros d u u' Hw Hd HJ; cbn [dur2 fold_left] in *.
  - inversion Hd; subst. exact HJ.
  - destruct (dur2_step u e) as [u1|] eqn:Es; [|discriminate].
    destruct (wtr_inv _ _ _ _ _ Hw) as [B [A|[[A A']|[[-> A]|[A (i & q & ->)]]]]]; apply (IH _ u1 u' B Hd).
    + apply (Jd_nolog y d u e u1 A Es HJ).
    + apply (Jd_data y d u e u1 A A' Es HJ).
    + apply (Jd_create y d u u1 Es HJ).
    + apply (Jd_remove y d u u1 i q Es HJ).
Qed.

(* a recovering Open: the automaton accepts *)
Lemma Jd_unique y (d : disk) u : NoDup (map f_seq (d_segs d)) -> Jd y d u -> present y d -> u = None \/ u = Some y.
Proof.
  intros Hnd (_ & B & C) (fy & Hfy & Ey). destruct u as [x|]; [right|left; reflexivity].
  destruct (C x eq_refl) as [(fx & Hfx & Ex) Bx]. f_equal.
  assert (E : fx = fy).
  { apply (NoDup_map_inj f_seq (d_segs d)); try assumption. pose proof (Bx fy Hfy) as H1. pose proof (B fx Hfx) as H2.
    rewrite <- Ex in H1. rewrite <- Ey in H2. cbn [fpair snd] in H1, H2. lia. }
  subst fx. congruence.
Qed.

Theorem Jd_accept y es : forall (d : disk) u, wtr true y d es -> Jd y d u -> NoDup (map f_seq (d_segs d)) ->
  exists u', dur2 u es = Some u'.
Proof.
  induction es as [|e es IH]; intros d u Hw HJ Hnd; cbn [dur2]; [exists u; reflexivity|].
  destruct (wtr_inv _ _ _ _ _ Hw) as [B [A|[[A A']|[[-> A]|[A _]]]]].
  - destruct (dur2_step_nolog u e A) as (u1 & E1 & _). rewrite E1. apply (IH _ u1 B).
    + apply (Jd_nolog y d u e u1 A E1 HJ).
    + rewrite (same_log_seqs _ _ (apply_ev_same_log d e A)). exact Hnd.
  - assert (E1 : dur2_step u e = Some (Some y)).
    { rewrite (dur2_step_data u e y A). destruct (Jd_unique y d u Hnd HJ A') as [->| ->]; cbn [dur2_data]; [reflexivity|].
      rewrite pair_eqb_refl. reflexivity. }
    rewrite E1. apply (IH _ (Some y) B).
    + apply (Jd_data y d u e (Some y) A A' E1 HJ).
    + destruct y as [i q]. destruct (seg_data_upd e i q A) as (g & Hg & Eg). rewrite Eg, (upd_seqs i q g d Hg). exact Hnd.
  - assert (Eu : u = None).
    { destruct u as [x|]; [|reflexivity]. destruct HJ as (_ & _ & C). destruct (C x eq_refl) as [(f & Hf & _) _].
      rewrite (A eq_refl) in Hf. destruct Hf. }
    subst u. rewrite dur2_step_create. apply (IH _ None B).
    + apply (Jd_create y d None None eq_refl HJ).
    + rewrite d_segs_create_seg, (A eq_refl). cbn [app map]. constructor; [intros []|constructor].
  - discriminate A.
Qed.

Lemma Jd_torn y (d : disk) u r c : Jd y d u -> present y d -> Jd y (torn d (fst y) (snd y) r c) (Some y).
Proof.
  intros (A & B & _) Hp. destruct y as [i q]. cbn [fst snd]. destruct (torn_upd d i q r c) as (g & Hg & ->).
  split; [apply upd_Qd; assumption|]. split; [apply upd_bound; assumption|].
  intros x Ex. inversion Ex; subst x. split; [apply upd_present; assumption|apply upd_bound; assumption].
Qed.

(* ---- the disk of an open database: every segment file is clean ---- *)
Lemma Inv_allclean P (s : st) m : Inv P s -> s_mem s = Some m -> allclean (s_disk s).
Proof.
  intros HI Em. destruct (Inv_open P s m Em HI) as ((Hd & (HA & HB) & _) & _).
  intros f Hf. destruct (HB f Hf) as (g & Hg & E1 & E2).
  destruct (HA g Hg) as (f' & Hf' & F1 & F2 & F3 & F4 & F5).
  assert (E : f' = f).
  { apply (NoDup_map_inj f_id (d_segs (s_disk s))); [apply Hd|exact Hf'|exact Hf|congruence]. }
  subst f'. split; assumption.
Qed.

Lemma allclean_Qd y (d : disk) : allclean d -> Qd y d.
Proof. intros H f Hf [Hd|Hd]; destruct (H f Hf) as [A B]; congruence. Qed.

Lemma bound_exists (d : disk) : exists M, forall f, In f (d_segs d) -> f_seq f <= M.
Proof.
  induction (d_segs d) as [|f l (M & IH)]; [exists 0; intros f []|].
  exists (N.max (f_seq f) M). intros x [<-|Hx]; [lia|]. pose proof (IH x Hx). lia.
Qed.

Lemma DurM_upart P (s : st) m u : Inv P s -> s_mem s = Some m -> DurM u m ->
  forall x, u = Some x -> present x (s_disk s) /\ bound x (s_disk s).
Proof.
  intros HI Em HD x Ex. destruct (HD x Ex) as (g & Ec & Hnf & ->).
  destruct (cur_seg_Some _ _ Ec) as (_ & Hg & _).
  destruct (Inv_InvLog P s m Em HI) as (_ & (HA & HB) & _ & (_ & Hso) & _).
  destruct (HA g Hg) as (f & Hf & F1 & F2 & _). split.
  - exists f. split; [exact Hf|]. unfold fpair. congruence.
  - intros f' Hf'. destruct (HB f' Hf') as (g' & Hg' & G1 & G2). cbn [snd]. rewrite <- G2. apply Hso; assumption.
Qed.

Lemma DurS_Neat P (s : st) u : Inv P s -> DurS u s -> Neat u (s_disk s).
Proof.
  intros HI (m & Em & HD). destruct (bound_exists (s_disk s)) as (M & HM). exists (0, M).
  split; [apply allclean_Qd; eapply Inv_allclean; eassumption|]. split; [exact HM|].
  eapply DurM_upart; eassumption.
Qed.
(* ================================================================================================ *)
(* 4. The events of a recovering Open write to the dirty segment file only                           *)

Definition wrun (y : N * N) (s s' : st) : Prop :=
  exists es, s_trace s' = s_trace s ++ es /\ s_disk s' = run_evs es (s_disk s) /\ wtr true y (s_disk s) es.

Lemma wrun_refl y (s : st) : wrun y s s.
Proof. exists []. rewrite app_nil_r. repeat split. apply wt_nil. Qed.

Lemma wrun_trans y (a b c : st) : wrun y a b -> wrun y b c -> wrun y a c.
Proof.
  intros (e1 & T1 & D1 & W1) (e2 & T2 & D2 & W2). exists (e1 ++ e2).
  split; [rewrite T2, T1, app_assoc; reflexivity|]. split; [rewrite D2, D1, fold_left_app; reflexivity|].
  apply wtr_app; [exact W1|]. rewrite <- D1. exact W2.
Qed.

Lemma nrun_wrun y (s s' : st) : nrun s s' -> wrun y s s'.
Proof.
  intros (es & T & D & Hn & _). exists es. split; [exact T|]. split; [exact D|].
  apply wtr_nolog. apply neutral_nolog. exact Hn.
Qed.

Lemma wrun_same y (s s' : st) : s_trace s' = s_trace s -> s_disk s' = s_disk s -> wrun y s s'.
Proof. intros T D. exists []. rewrite app_nil_r. split; [exact T|]. split; [exact D|apply wt_nil]. Qed.

Lemma wrun_Qd y (s s' : st) : wrun y s s' -> Qd y (s_disk s) -> Qd y (s_disk s').
Proof.
  intros (es & _ & D & W) HQ. rewrite D. clear D. revert W HQ. generalize (s_disk s). clear s s'.
  induction es as [|e es IH]; intros d W HQ; [exact HQ|]. cbn [fold_left].
  destruct (wtr_inv _ _ _ _ _ W) as [B [A|[[A A']|[[-> A]|[A _]]]]]; try discriminate A; apply (IH _ B).
  - apply (Qd_same_log y d); [apply apply_ev_same_log; exact A|exact HQ].
  - destruct y as [i q]. destruct (seg_data_upd e i q A) as (g & Hg & Eg). rewrite Eg. apply upd_Qd; assumption.
  - intros f Hf Hd. rewrite d_segs_create_seg in Hf. apply in_app_or in Hf. destruct Hf as [Hf|[<-|[]]].
    + apply (HQ f Hf Hd).
    + destruct y; reflexivity.
Qed.

(* memory and disk name the same segment files *)
Definition SegCons (G : list mseg) (d : disk) : Prop :=
  forall g f, In g G -> In f (d_segs d) -> f_id f = g_id g -> f_seq f = g_seq g.

Lemma Cons_upd G i q g (d : disk) : keeps_ids g -> SegCons G d -> SegCons G (upd_seg i q g d).
Proof.
  intros Hg HC x f' Hx Hf' E. destruct (upd_In _ _ _ _ _ Hf') as (f & Hf & [[Hs ->]|[Hs ->]]).
  - destruct (Hg f) as [a b]. rewrite b. apply (HC x f Hx Hf). congruence.
  - apply (HC x f Hx Hf E).
Qed.

(* the headers of empty segment files *)
Lemma hdr_fold_wrun y L : forall s : st,
  (forall f, In f L -> f_hdr f = false -> fpair f = y /\ present y (s_disk s)) ->
  wrun y s (fold_left rc_hdr_step L s).
Proof.
  induction L as [|f L IH]; intros s H; [apply wrun_refl|]. cbn [fold_left].
  assert (S1 : wrun y s (rc_hdr_step s f) /\
               (forall x, present x (s_disk s) -> present x (s_disk (rc_hdr_step s f)))).
  { unfold rc_hdr_step. destruct (f_hdr f) eqn:Eh; [split; [apply wrun_refl|auto]|].
    destruct (H f (or_introl eq_refl) Eh) as [Ey Hp]. split.
    - exists [EHeader (FSeg (f_id f) (f_seq f))]. split; [reflexivity|]. split; [reflexivity|].
      apply wt_data; [rewrite <- Ey; reflexivity|exact Hp|apply wt_nil].
    - intros x Hx. rewrite s_disk_emit.
      destruct (seg_data_upd (EHeader (FSeg (f_id f) (f_seq f))) (f_id f) (f_seq f) eq_refl) as (g & Hg & Eg).
      rewrite Eg. apply upd_present; assumption. }
  destruct S1 as [S1 Hpres]. eapply wrun_trans; [exact S1|]. apply IH.
  intros f' Hf' Eh. destruct (H f' (or_intror Hf') Eh) as [A B]. split; [exact A|apply Hpres; exact B].
Qed.

(* recovery of one segment: at most the truncation of its (stuck, non-empty) tail *)
Lemma recover_segment_wrun P y id seq (s : st) (m : mem) :
  Good (s_disk s) -> Qd y (s_disk s) -> (forall f, find_dseg id (s_disk s) = Some f -> f_seq f = seq) ->
  let s1 := fst (recover_segment flat_ops P id seq s m) in
  wrun y s s1 /\ Qd y (s_disk s1) /\ (forall G, SegCons G (s_disk s) -> SegCons G (s_disk s1)).
Proof.
  intros Hg HQ Hseq. unfold recover_segment.
  destruct (find_dseg id (s_disk s)) as [f|] eqn:Ef; [|cbn [fst]; split; [apply wrun_refl|split; auto]].
  destruct (find_dseg_In _ _ _ Ef) as [Hin Eid].
  assert (Hst : tail_stuck (f_tail f)).
  { destruct Hg as ((H1 & _) & _). rewrite Forall_forall in H1. apply (H1 f Hin). }
  destruct (rc_tail_stuck_parse _ Hst) as (why & Ep & _). rewrite Ep. cbv beta iota zeta.
  rewrite rc_reframe_nil. cbn [fst].
  set (n := header_size + recs_len (f_recs f) + 0).
  assert (St : why <> SEnd ->
            wrun y s (emit flat_ops (ETrunc (FSeg id seq) n) s) /\ Qd y (s_disk (emit flat_ops (ETrunc (FSeg id seq) n) s)) /\
            (forall G, SegCons G (s_disk s) -> SegCons G (s_disk (emit flat_ops (ETrunc (FSeg id seq) n) s)))).
  { intros Hw.
    assert (Hne : f_tail f <> []).
    { intros E. rewrite E, empty_tail in Ep. inversion Ep. congruence. }
    assert (Ey : (id, seq) = y).
    { rewrite <- (HQ f Hin (or_intror Hne)). unfold fpair. rewrite Eid, (Hseq f eq_refl). reflexivity. }
    destruct (seg_data_upd (ETrunc (FSeg id seq) n) id seq eq_refl) as (g & Hgk & Eg).
    split; [|split].
    - exists [ETrunc (FSeg id seq) n]. split; [reflexivity|]. split; [reflexivity|].
      apply wt_data; [rewrite <- Ey; reflexivity| |apply wt_nil].
      exists f. split; [exact Hin|]. rewrite <- Ey. unfold fpair. rewrite Eid, (Hseq f eq_refl). reflexivity.
    - rewrite s_disk_emit, Eg, <- Ey. apply upd_Qd; [exact Hgk|rewrite Ey; exact HQ].
    - intros G HC. rewrite s_disk_emit, Eg. apply Cons_upd; assumption. }
  destruct why; [split; [apply wrun_refl|split; auto]|apply St; discriminate|apply St; discriminate|apply St; discriminate].
Qed.

Lemma recover_loop_wrun P y (G : list mseg) : forall (s : st) (m : mem),
  Good (s_disk s) -> Qd y (s_disk s) -> SegCons G (s_disk s) ->
  let s1 := fst (fold_left (fun sm g => recover_segment flat_ops P (g_id g) (g_seq g) (fst sm) (snd sm)) G (s, m)) in
  wrun y s s1 /\ Qd y (s_disk s1).
Proof.
  induction G as [|g G IH]; intros s m Hg HQ HC; [split; [apply wrun_refl|exact HQ]|]. cbn [fold_left fst snd].
  assert (Hseq : forall f, find_dseg (g_id g) (s_disk s) = Some f -> f_seq f = g_seq g).
  { intros f Ef. destruct (find_dseg_In _ _ _ Ef) as [Hin Eid]. apply (HC g f (or_introl eq_refl) Hin Eid). }
  destruct (recover_segment_wrun P y (g_id g) (g_seq g) s m Hg HQ Hseq) as (W1 & Q1 & C1).
  pose proof (srun_recover_segment P (g_id g) (g_seq g) s m Hg) as S1.
  destruct (recover_segment flat_ops P (g_id g) (g_seq g) s m) as [s1 m1]. cbn [fst] in *.
  destruct (IH s1 m1 (proj1 (srun_good _ _ S1 Hg)) Q1) as [W2 Q2].
  { apply C1. intros x f Hx. apply (HC x f (or_intror Hx)). }
  split; [eapply wrun_trans; eassumption|exact Q2].
Qed.

(* the segments in memory keep their ids, sequence ids and "full" flags through the loop *)
Lemma replay_fold_msig P (d : disk) id (es : list (N * rec)) : forall m : mem,
  map rc_msig (m_segs (fold_left (fun m e => replay_rec flat_ops P d id (fst e) (snd e) m) es m)) = map rc_msig (m_segs m).
Proof.
  induction es as [|e es IH]; intros m; [reflexivity|]. cbn [fold_left]. rewrite IH.
  apply (rc_replay_rec_frame P d id (fst e) (snd e) m).
Qed.

Lemma recover_segment_msig0 P id seq (s : st) (m : mem) :
  map rc_msig0 (m_segs (snd (recover_segment flat_ops P id seq s m))) = map rc_msig0 (m_segs m).
Proof.
  unfold recover_segment. destruct (find_dseg id (s_disk s)) as [f|]; [|reflexivity].
  destruct (parse_tail (f_tail f)) as [[extra n] why]. cbn [snd].
  match goal with |- map rc_msig0 (m_segs (fold_left _ _ ?m1)) = _ => transitivity (map rc_msig0 (m_segs m1)) end.
  { apply rc_msig_msig0. apply replay_fold_msig. }
  assert (Hsz : map rc_msig0 (m_segs (set_msegs m (upd_mseg id (fun g => set_gsize g (header_size + recs_len (f_recs f) + n)) (m_segs m)))) =
                map rc_msig0 (m_segs m)).
  { cbn [set_msegs m_segs]. unfold upd_mseg. rewrite map_map. apply map_ext. intros g. destruct (g_id g =? id); reflexivity. }
  destruct why; [reflexivity|exact Hsz|exact Hsz|exact Hsz].
Qed.

Lemma recover_loop_msig0 P (G : list mseg) : forall (s : st) (m : mem),
  map rc_msig0 (m_segs (snd (fold_left (fun sm g => recover_segment flat_ops P (g_id g) (g_seq g) (fst sm) (snd sm)) G (s, m)))) =
  map rc_msig0 (m_segs m).
Proof.
  induction G as [|g G IH]; intros s m; [reflexivity|]. cbn [fold_left fst snd].
  pose proof (recover_segment_msig0 P (g_id g) (g_seq g) s m) as E.
  destruct (recover_segment flat_ops P (g_id g) (g_seq g) s m) as [s1 m1]. cbn [snd] in E. rewrite IH. exact E.
Qed.

(* D13: after the loop the newest segment is still writable: swapSegment picks it and emits nothing *)
Lemma recover_swap_none (s1 : st) (m m1 : mem) :
  ids_increasing (m_segs m) -> (forall g, In g (m_segs m) -> sm_full (g_meta g) = false) -> m_segs m <> [] ->
  map rc_msig0 (m_segs m1) = map rc_msig0 (m_segs m) ->
  fst (swap_segment flat_ops s1 (seal_all_but_last (by_seq (m_segs m)) m1)) = s1.
Proof.
  intros Hinc Hnf Hne0 R11. set (order := by_seq (m_segs m)).
  destruct (rc_seal_all_spec order m1) as (S1 & _). cbv zeta in S1.
  set (m2 := seal_all_but_last order m1) in *.
  assert (Hex : exists gl, In gl (m_segs m2) /\ sm_full (g_meta gl) = false).
  { assert (Hneo : order <> []).
    { intros E. apply Hne0. apply Permutation_nil. rewrite <- E. apply rc_by_seq_perm. }
    destruct (exists_last Hneo) as (R' & g0 & Eo).
    assert (ER : removelast order = R') by (rewrite Eo; apply removelast_last).
    assert (Hg0 : In g0 (m_segs m)).
    { apply (proj1 (rc_by_seq_In _ _)). change (In g0 order). rewrite Eo. apply in_or_app. right. left. reflexivity. }
    destruct (rc_msig0_In _ _ g0 (eq_sym R11) Hg0) as (g1 & Hg1 & C1 & C2 & C3).
    exists (rc_sealf (removelast order) g1). split; [rewrite S1; apply in_map; exact Hg1|].
    destruct (rc_sealf_fields (removelast order) g1) as (_ & _ & _ & F4). rewrite F4, C3, (Hnf g0 Hg0). cbn [orb].
    rewrite ER.
    destruct (existsb (fun x => g_id g1 =? g_id x) R') eqn:Ex; [|reflexivity].
    exfalso. apply existsb_exists in Ex. destruct Ex as (x & Hx & Ex). apply N.eqb_eq in Ex.
    assert (Hndo : NoDup (map g_id order)).
    { apply (Permutation_NoDup (l := map g_id (m_segs m))); [apply Permutation_map; symmetry; apply rc_by_seq_perm|].
      apply ids_increasing_NoDup. exact Hinc. }
    rewrite Eo, map_app in Hndo. cbn [map] in Hndo. apply NoDup_remove_2 in Hndo. apply Hndo.
    rewrite app_nil_r. rewrite <- C1, Ex. apply in_map. exact Hx. }
  destruct Hex as (gl & Hgl & Hglf). unfold swap_segment.
  destruct (find (fun g => negb (sm_full (g_meta g))) (m_segs m2)) as [gc|] eqn:Ef; [reflexivity|].
  exfalso. pose proof (find_none _ _ Ef gl Hgl) as Hn. cbn beta in Hn. rewrite Hglf in Hn. discriminate.
Qed.

Lemma swap_trace (s : st) (m : mem) :
  let id := lowest_free 0 (m_segs m) in let seq := m_maxseq m + 1 in
  exists pre, s_trace (fst (swap_segment flat_ops s m)) = s_trace s ++ pre /\
              s_disk (fst (swap_segment flat_ops s m)) = run_evs pre (s_disk s) /\
    ((pre = [] /\ exists g, In g (m_segs m) /\ sm_full (g_meta g) = false) \/
     (pre = [ECreate (FSeg id seq); EHeader (FSeg id seq)] /\ forall g, In g (m_segs m) -> sm_full (g_meta g) = true)).
Proof.
  cbv zeta. unfold swap_segment. destruct (find (fun g => negb (sm_full (g_meta g))) (m_segs m)) as [g|] eqn:Ef.
  - exists []. cbn [fst]. rewrite app_nil_r. split; [reflexivity|]. split; [reflexivity|]. left. split; [reflexivity|].
    apply find_some in Ef. destruct Ef as [Hg Hn]. apply negb_true_iff in Hn. exists g. auto.
  - eexists. cbn [fst]. split; [apply s_trace_emits|]. split; [apply s_disk_emits|]. right. split; [reflexivity|].
    intros g Hg. pose proof (find_none _ _ Ef g Hg) as Hn. cbn beta in Hn. apply negb_false_iff in Hn. exact Hn.
Qed.

Lemma recover_wrun P y (s : st) (m : mem) :
  Good (s_disk s) -> Qd y (s_disk s) -> rc_magree (m_segs m) (s_disk s) -> ids_increasing (m_segs m) ->
  (forall g, In g (m_segs m) -> sm_full (g_meta g) = false) -> m_segs m <> [] ->
  wrun y s (fst (recover flat_ops P s m)).
Proof.
  intros Hg HQ Hag Hinc Hnf Hne. unfold recover.
  assert (HC : SegCons (by_seq (m_segs m)) (s_disk s)).
  { intros g f Hgin Hf Eid. apply (proj1 (rc_by_seq_In _ _)) in Hgin.
    destruct (proj1 Hag g Hgin) as (f0 & Hf0 & A1 & A2 & _).
    assert (f = f0) by (apply (NoDup_map_inj f_id (d_segs (s_disk s))); [apply Hg|exact Hf|exact Hf0|congruence]).
    subst f0. exact A2. }
  pose proof (recover_loop_wrun P y (by_seq (m_segs m)) s m Hg HQ HC) as [W1 Q1].
  pose proof (recover_loop_msig0 P (by_seq (m_segs m)) s m) as R11.
  pose proof (srun_recover_loop P (by_seq (m_segs m)) s m Hg) as S1.
  destruct (fold_left _ (by_seq (m_segs m)) (s, m)) as [s1 m1]. cbn [fst snd] in W1, Q1, R11, S1.
  destruct (srun_good _ _ S1 Hg) as [Hg1 _].
  pose proof (recover_swap_none s1 m m1 Hinc Hnf Hne R11) as Esw.
  destruct (swap_segment flat_ops s1 (seal_all_but_last (by_seq (m_segs m)) m1)) as [s1' m3]. cbn [fst] in Esw. subst s1'.
  cbn [fst]. eapply wrun_trans; [exact W1|]. apply nrun_wrun.
  eapply nrun_trans; [apply nrun_emit; apply neutral_index|]. apply nrun_remove_bac.
  rewrite s_disk_emit. destruct Hg1 as (_ & Hb1 & Hl1).
  apply (lock_bac_step _ (EIndex (m_idx m3)) eq_refl Logic.I Hb1 Hl1).
Qed.

(* the whole recovering Open *)
Lemma open_wtr_y P seed (d : disk) y :
  Good d -> Qd y d -> (d_segs d = [] -> y = (0, 1)) ->
  wtr true y d (s_trace (fst (db_open flat_ops P seed (closed d)))).
Proof.
  intros Hg HQ Hy. pose proof Hg as (Hok & Hbac & Hlock).
  enough (W : wrun y (closed d) (fst (db_open flat_ops P seed (closed d)))).
  { destruct W as (es & T & _ & W). cbn [closed s_trace s_disk app] in T, W. rewrite T. exact W. }
  unfold db_open. change (s_mem (closed d)) with (@None mem). cbv iota.
  change (d_lock (s_disk (closed d))) with (d_lock d). rewrite Hlock. cbv iota.
  (* backupNonsegmentFiles *)
  pose proof (rc_backup_spec (closed d) Hok Hbac) as H1. cbv zeta in H1.
  pose proof (nrun_backup (closed d)) as N1.
  set (s1 := backup_nonseg flat_ops (closed d)) in *.
  destruct H1 as (Hsl1 & _ & _ & Hi1 & Hmeta1 & _). change (s_disk (closed d)) with d in Hsl1.
  assert (S1 : srun (closed d) s1) by (apply nrun_srun; [exact N1|exact Hg]).
  destruct (srun_good _ _ S1 Hg) as [Hg1 _].
  (* openIndex *)
  destruct (rc_open_index_fresh s1 Hi1) as (s2 & E2 & Hsegs2 & _).
  rewrite E2. pose proof (nrun_open_index s1 s2 [] E2) as N2.
  assert (S2 : srun s1 s2) by (apply nrun_srun; [exact N2|exact Hg1]).
  destruct (srun_good _ _ S2 Hg1) as [Hg2 _].
  assert (Hsl2 : same_log d (s_disk s2)).
  { eapply same_log_trans; [exact Hsl1|]. apply same_log_segs. exact Hsegs2. }
  assert (Q2 : Qd y (s_disk s2)) by (apply (Qd_same_log y d); assumption).
  (* openDatalog *)
  assert (Hmeta2 : forall f, In f (d_segs (s_disk s2)) -> f_meta f = GAbsent).
  { rewrite Hsegs2. exact Hmeta1. }
  destruct (rc_open_segments_recovery s2 (proj1 Hg2) Hmeta2)
    as (s3 & segs & E3 & _ & _ & Hmag3 & Hinc3 & Hm0 & Hrs3 & _).
  destruct (rc_open_segments_spec s2 (proj1 (proj2 (proj1 Hg2)))) as (s3' & segs' & E3' & _ & _ & _ & Efold & _).
  rewrite E3 in E3'. injection E3' as <- <-. rewrite E3.
  assert (S3 : srun s2 s3) by (rewrite Efold; apply srun_hdr_fold; exact Hg2).
  destruct (srun_good _ _ S3 Hg2) as [Hg3 _].
  assert (W3 : wrun y s2 s3).
  { rewrite Efold. apply hdr_fold_wrun. intros f Hf Eh.
    apply (Permutation_in _ (rc_sort_segs_perm _)) in Hf.
    assert (Ey : fpair f = y) by (apply (Q2 f Hf); left; exact Eh).
    split; [exact Ey|]. exists f. split; assumption. }
  pose proof (wrun_Qd y s2 s3 W3 Q2) as Q3.
  (* swapSegment *)
  match goal with |- context [swap_segment flat_ops s3 ?m] => set (m0 := m) end.
  assert (S4 : srun s3 (fst (swap_segment flat_ops s3 m0))).
  { apply srun_swap; [exact Hg3|exact Hmag3|exact Hinc3|]. intros g Hin. apply (rc_fold_max_ge segs 0). exact Hin. }
  destruct (swap_trace s3 m0) as (pre & T4 & D4 & Hpre). cbv zeta in Hpre.
  destruct (rc_swap_spec s3 m0 Hmag3 Hinc3) as (s4 & m1 & E4 & Hcase). rewrite E4 in *. cbn [fst] in S4, T4, D4.
  destruct (srun_good _ _ S4 Hg3) as [Hg4 _].
  assert (W4 : wrun y s3 s4 /\ rc_magree (m_segs m1) (s_disk s4) /\ ids_increasing (m_segs m1) /\
               (forall g, In g (m_segs m1) -> sm_full (g_meta g) = false) /\ m_segs m1 <> []).
  { destruct Hcase as [(g & Hgin & Hnf & -> & ->)|(Hfull & Em1 & Ed4 & _ & _ & Hfresh)].
    - cbn [set_cur m_segs m0]. split; [apply wrun_refl|]. split; [exact Hmag3|]. split; [exact Hinc3|].
      split; [intros x Hx; rewrite (Hm0 x Hx); reflexivity|]. intros E. cbn [m0 m_segs] in Hgin. rewrite E in Hgin. destruct Hgin.
    - assert (Esegs : segs = []).
      { destruct segs as [|g l]; [reflexivity|]. exfalso. pose proof (Hfull g (or_introl eq_refl)) as F.
        cbn [m0 m_segs] in F. rewrite (Hm0 g (or_introl eq_refl)) in F. discriminate F. }
      assert (Ed3 : d_segs (s_disk s3) = []).
      { destruct (d_segs (s_disk s3)) as [|f l] eqn:E; [reflexivity|]. exfalso.
        destruct (proj2 Hmag3 f) as (g & Hgin & _); [rewrite E; left; reflexivity|]. rewrite Esegs in Hgin. destruct Hgin. }
      assert (Ed0 : d_segs d = []).
      { unfold rc_rsim in Hrs3. rewrite Ed3 in Hrs3. cbn [map] in Hrs3. apply map_eq_nil in Hrs3.
        unfold same_log in Hsl2. rewrite Hrs3 in Hsl2. cbn [map] in Hsl2. apply map_eq_nil in Hsl2. exact Hsl2. }
      pose proof (Hy Ed0) as Ey. cbv zeta in Em1, Ed4, Hfresh.
      assert (Eid : lowest_free 0 (m_segs m0) = 0) by (cbn [m0 m_segs]; rewrite Esegs; reflexivity).
      assert (Eseq : m_maxseq m0 + 1 = 1) by (cbn [m0 m_maxseq]; rewrite Esegs; reflexivity).
      rewrite Eid, Eseq in *.
      destruct Hpre as [[_ (g & Hgin & _)]|[Epre _]]; [cbn [m0 m_segs] in Hgin; rewrite Esegs in Hgin; destruct Hgin|].
      assert (Hmaxseq : forall g, In g segs -> g_seq g <= m_maxseq m0) by (rewrite Esegs; intros g []).
      destruct (rc_create_spec (s_disk s3) (s_disk s4) segs (m_maxseq m0) 0 1 (proj1 Hg3) Hmag3 Hinc3 Hmaxseq
                  (eq_sym Eseq) Hfresh Ed4) as (_ & K2 & K3 & _).
      split; [|rewrite Em1; cbn [set_cur set_maxseq set_msegs m_segs m0]; split; [exact K2|split; [exact K3|split]]].
      + exists pre. split; [exact T4|]. split; [exact D4|]. rewrite Epre, Ey.
        apply (wt_create true (0, 1)); [intros _; exact Ed3|].
        apply wt_data; [reflexivity| |apply wt_nil].
        eexists. split; [rewrite d_segs_create_seg; apply in_or_app; right; left; reflexivity|reflexivity].
      + intros x Hx. apply insert_mseg_In in Hx. destruct Hx as [->|Hx]; [reflexivity|rewrite (Hm0 x Hx); reflexivity].
      + intros E. assert (Hin : In (rc_newg 0 1) (insert_mseg (rc_newg 0 1) segs)) by (apply insert_mseg_In; left; reflexivity).
        rewrite E in Hin. destruct Hin. }
  destruct W4 as (W4 & Hmag4 & Hinc4 & Hnf4 & Hne4).
  pose proof (wrun_Qd y s3 s4 W4 Q3) as Q4.
  cbn [ix_count flat_ops nlen]. change (0 =? 0) with true. cbv iota.
  (* recover *)
  match goal with |- context [recover flat_ops P s4 ?m] => set (m2 := m) end.
  pose proof (recover_wrun P y s4 m2 Hg4 Q4 Hmag4 Hinc4 Hnf4 Hne4) as W5.
  destruct (recover flat_ops P s4 m2) as [s5 m3]. cbn [fst] in W5 |- *.
  eapply wrun_trans; [apply nrun_wrun; exact N1|]. eapply wrun_trans; [apply nrun_wrun; exact N2|].
  eapply wrun_trans; [exact W3|]. eapply wrun_trans; [exact W4|]. eapply wrun_trans; [exact W5|].
  apply wrun_same; reflexivity.
Qed.

(* cutting an accepted list of events *)
Lemma cut_Jd b y es : forall (d : disk) u u_end p q,
  wtr b y d es -> Jd y d u -> dur2 u es = Some u_end -> es = p ++ q ->
  exists u_p, dur2 u p = Some u_p /\ Jd y (run_evs p d) u_p /\ dur2 u_p q = Some u_end /\ wtr b y (run_evs p d) q.
Proof.
  intros d u u_end p q W HJ Hd ->. destruct (wtr_app_inv _ _ _ _ _ W) as [Wp Wq].
  rewrite dur2_app in Hd. destruct (dur2 u p) as [u_p|] eqn:Ep; [|discriminate].
  exists u_p. split; [reflexivity|]. split; [apply (Jd_run b y p d u u_p Wp Ep HJ)|]. split; assumption.
Qed.

(* THE RECOVERING OPEN KEEPS THE DISCIPLINE.  On a recoverable directory in which at most the newest
   segment file is dirty and the unflushed segment file (if any) is the newest one, the events of the
   recovering Open are accepted by the automaton; afterwards the unflushed segment file (if any) is the
   current segment.  The same holds for every prefix of these events (a recovery that dies). *)
Theorem open_dur2 P seed (d : disk) u :
  params_ok P -> Good d -> Neat u d ->
  exists s' u', db_open flat_ops P seed (closed d) = (s', OOpened true) /\ Open P s' /\
    ceq (cont (s_disk s')) (cont d) /\ s_disk s' = run_evs (s_trace s') d /\
    dur2 u (s_trace s') = Some u' /\ DurS u' s' /\
    forall p q, s_trace s' = p ++ q -> exists u_p, dur2 u p = Some u_p /\ Neat u_p (run_evs p d).
Proof.
  intros HP Hg (y0 & HJ0). pose proof Hg as (Hok & Hbac & Hlock).
  assert (Hy : exists y, Jd y d u /\ (d_segs d = [] -> y = (0, 1))).
  { destruct (d_segs d) as [|f l] eqn:E.
    - exists (0, 1). split; [|reflexivity]. destruct HJ0 as (_ & _ & C).
      split; [intros f Hf; rewrite E in Hf; destruct Hf|]. split; [intros f Hf; rewrite E in Hf; destruct Hf|exact C].
    - exists y0. split; [exact HJ0|discriminate]. }
  destruct Hy as (y & HJ & Hy).
  pose proof (open_wtr_y P seed d y Hg (proj1 HJ) Hy) as W.
  pose proof (open_recover_ok P seed d HP Hok Hbac Hlock) as HR.
  destruct (open_srun P seed d Hg) as (es & T & D & _). fold (closed d) in HR.
  destruct (db_open flat_ops P seed (closed d)) as [s' o']. cbn [fst] in W, T, D.
  cbn [closed s_trace s_disk app] in T, D. rewrite <- T in D.
  destruct HR as (-> & HI & Hm & Habs & Hb' & _ & (m' & Em' & _ & _ & Hrm & (g & Hgin & Hgc & Hgnf & Hgnew)) & _).
  destruct (Jd_accept y (s_trace s') d u W HJ (proj2 (proj2 Hok))) as (u' & Hd).
  pose proof (Jd_run true y (s_trace s') d u u' W Hd HJ) as HJ'. rewrite <- D in HJ'.
  exists s', u'. split; [reflexivity|].
  split; [split; [exact HI|split; [exact Hm|unfold bac_ok; rewrite Hb'; constructor]]|].
  split; [exact Habs|]. split; [exact D|]. split; [exact Hd|]. split.
  - exists m'. split; [exact Em'|]. intros x Ex.
    destruct (Inv_InvLog P s' m' Em' HI) as ((_ & _ & Hnq) & (HA & HB) & Hinc & _).
    exists g. split; [apply cur_seg_intro; [exact Hinc|exact Hrm|exact Hgin|symmetry; exact Hgc]|]. split; [exact Hgnf|].
    destruct HJ' as (_ & _ & C). destruct (C x Ex) as [(fx & Hfx & Efx) Bx].
    destruct (HA g Hgin) as (fg & Hfg & G1 & G2 & _).
    destruct (HB fx Hfx) as (gx & Hgx & X1 & X2).
    assert (E : fx = fg).
    { apply (NoDup_map_inj f_seq (d_segs (s_disk s'))); try assumption.
      pose proof (Bx fg Hfg) as H1. rewrite <- Efx in H1. cbn [fpair snd] in H1.
      pose proof (Hgnew gx Hgx) as H2. lia. }
    subst fx. rewrite <- Efx. unfold fpair. congruence.
  - intros p q Epq. destruct (cut_Jd true y (s_trace s') d u u' p q W HJ Hd Epq) as (u_p & A & B & _).
    exists u_p. split; [exact A|exists y; exact B].
Qed.
(* ================================================================================================ *)
(* 5. The events of one step of an open database write to one segment file only                      *)

Definition op_wtr (s s' : st) : Prop :=
  exists tr y, s_trace s' = s_trace s ++ tr /\ wtr false y (s_disk s) tr /\ Qd y (s_disk s) /\ bound y (s_disk s).

Lemma nolog_op_wtr (s s' : st) tr :
  allclean (s_disk s) -> s_trace s' = s_trace s ++ tr -> Forall (fun e : fsev => touches_log e = false) tr -> op_wtr s s'.
Proof.
  intros Hc T Hn. destruct (bound_exists (s_disk s)) as (M & HM). exists tr, (0, M).
  split; [exact T|]. split; [apply wtr_nolog; exact Hn|]. split; [apply allclean_Qd; exact Hc|exact HM].
Qed.

Lemma pre_wtr b y (d : disk) pre : b = false -> wr_pre_shape pre (fst y) (snd y) -> wtr b y d pre.
Proof.
  intros -> Hs.
  assert (Hch : forall d0 : disk, wtr false y d0 [ECreate (FSeg (fst y) (snd y)); EHeader (FSeg (fst y) (snd y))]).
  { intros d0. apply wt_create; [discriminate|]. apply wt_data; [destruct y; reflexivity| |apply wt_nil].
    eexists. split; [rewrite d_segs_create_seg; apply in_or_app; right; left; reflexivity|destruct y; reflexivity]. }
  destruct Hs as [->|[(i & q & ->)|[->|(i & q & ->)]]].
  - apply wt_nil.
  - apply wt_quiet; [reflexivity|apply wt_nil].
  - apply Hch.
  - apply wt_quiet; [reflexivity|apply Hch].
Qed.

Lemma pre_seqs (d : disk) pre id seq : wr_pre_shape pre id seq ->
  forall f, In f (d_segs d) -> exists f', In f' (d_segs (run_evs pre d)) /\ f_seq f' = f_seq f.
Proof.
  intros Hs f Hf.
  assert (Hch : forall d0 : disk, In f (d_segs d0) ->
            exists f', In f' (d_segs (run_evs [ECreate (FSeg id seq); EHeader (FSeg id seq)] d0)) /\ f_seq f' = f_seq f).
  { intros d0 Hf0. cbn [fold_left].
    destruct (seg_data_upd (EHeader (FSeg id seq)) id seq eq_refl) as (g & Hg & Eg). rewrite Eg, d_segs_upd_seg, d_segs_create_seg.
    exists (if is_seg id seq f then g f else f). split.
    - apply (in_map (fun s => if is_seg id seq s then g s else s)). apply in_or_app. left. exact Hf0.
    - destruct (is_seg id seq f); [apply Hg|reflexivity]. }
  destruct Hs as [->|[(i & q & ->)|[->|(i & q & ->)]]].
  - exists f. split; [exact Hf|reflexivity].
  - exists f. split; [exact Hf|reflexivity].
  - apply Hch. exact Hf.
  - change (run_evs (ESync (FSeg i q) :: [ECreate (FSeg id seq); EHeader (FSeg id seq)]) d)
      with (run_evs [ECreate (FSeg id seq); EHeader (FSeg id seq)] d). apply Hch. exact Hf.
Qed.

(* datalog.writeRecord *)
Lemma wr_wtr P r (s : st) (m : mem) s' m' id off :
  InvLog m (s_disk s) -> room m -> write_record flat_ops P r s m = Some (s', m', id, off) ->
  exists tr y, s_trace s' = s_trace s ++ tr /\ s_disk s' = run_evs tr (s_disk s) /\
    wtr false y (s_disk s) tr /\ bound y (s_disk s).
Proof.
  intros HI Hroom. rewrite write_record_eq.
  destruct (wr_prelude_spec P r s m HI Hroom)
    as (s1 & m1 & g & pre & E1 & HI1 & _ & Ec1 & Hnf1 & _ & _ & _ & _ & _ & Et1 & Ed1 & Hp1).
  rewrite E1. unfold wr_tail. rewrite Ec1.
  destruct (find_dseg (g_id g) (s_disk s1)) as [f|] eqn:Ef; [|discriminate].
  destruct ((f_seq f =? g_seq g) && (flen f =? g_size g)) eqn:Echk; cbn [negb]; [|discriminate].
  intros E. inversion E; subst s' m' id off; clear E.
  apply andb_true_iff in Echk. destruct Echk as [Eseq _]. apply N.eqb_eq in Eseq.
  destruct (find_dseg_In _ _ _ Ef) as [Hfin Efid].
  set (y := (g_id g, g_seq g)).
  exists (pre ++ [EAppend (g_id g) (g_seq g) (g_size g) r]), y.
  split; [rewrite s_trace_emit, Et1, app_assoc; reflexivity|].
  split; [rewrite s_disk_emit, fold_left_app, <- Ed1; reflexivity|]. split.
  - apply wtr_app; [apply pre_wtr; [reflexivity|exact Hp1]|]. rewrite <- Ed1.
    apply wt_data; [reflexivity| |apply wt_nil]. exists f. split; [exact Hfin|]. unfold fpair, y. congruence.
  - intros f0 Hf0. destruct (pre_seqs (s_disk s) pre (g_id g) (g_seq g) Hp1 f0 Hf0) as (f1 & Hf1 & E1').
    rewrite <- Ed1 in Hf1. rewrite <- E1'. cbn [y snd].
    destruct HI1 as (_ & (_ & HB) & _ & (_ & Hso) & _).
    destruct (HB f1 Hf1) as (g1 & Hg1 & _ & G2). rewrite <- G2.
    destruct (cur_seg_Some _ _ Ec1) as (_ & Hgin & _). apply Hso; assumption.
Qed.

Lemma op_wtr_write (s s1 s' : st) tr y post :
  allclean (s_disk s) -> s_trace s1 = s_trace s ++ tr -> s_disk s1 = run_evs tr (s_disk s) ->
  wtr false y (s_disk s) tr -> bound y (s_disk s) ->
  s_trace s' = s_trace s1 ++ post -> Forall (fun e : fsev => touches_log e = false) post -> op_wtr s s'.
Proof.
  intros Hc T D W B T' Hn. exists (tr ++ post), y. split; [rewrite T', T, app_assoc; reflexivity|].
  split; [apply wtr_app; [exact W|apply wtr_nolog; exact Hn]|]. split; [apply allclean_Qd; exact Hc|exact B].
Qed.

Lemma finish_trace P (s : st) (m : mem) :
  exists post, s_trace (fst (finish flat_ops P s m)) = s_trace s ++ post /\ Forall (fun e : fsev => touches_log e = false) post.
Proof.
  unfold finish. cbn [fst with_mem s_trace]. destruct (p_sync P).
  - destruct (do_sync_spec s m) as (_ & _ & [E|(i & q & E)]); rewrite E.
    + exists []. rewrite app_nil_r. split; [reflexivity|constructor].
    + exists [ESync (FSeg i q)]. split; [reflexivity|]. constructor; [reflexivity|constructor].
  - exists []. rewrite app_nil_r. split; [reflexivity|constructor].
Qed.

Lemma put_wtr P (s s' : st) (m : mem) k v o :
  Inv P s -> s_mem s = Some m -> room m -> db_put flat_ops P k v s = (s', o) -> op_wtr s s'.
Proof.
  intros HI Em Hroom. pose proof (Inv_allclean P s m HI Em) as Hc. unfold db_put. rewrite Em.
  assert (Hsame : forall o', (s, o') = (s', o) -> op_wtr s s').
  { intros o' E. inversion E; subst s' o. apply (nolog_op_wtr s s [] Hc); [rewrite app_nil_r; reflexivity|constructor]. }
  destruct (max_key_len <? nlen k); [apply Hsame|]. destruct (max_val_len <? nlen v); [apply Hsame|].
  destruct (write_record flat_ops P (mkput k v) s m) as [[[[s1 m1] id] off]|] eqn:Ew; [|apply Hsame].
  destruct (wr_wtr P _ s m s1 m1 id off (Inv_InvLog P s m Em HI) Hroom Ew) as (tr & y & T1 & D1 & W1 & B1).
  destruct (ix_put flat_ops (p_grow P) (m_idx m1) _ (matchf (s_disk s1) k)) as [i2 old].
  match goal with |- finish flat_ops P ?sx ?mx = _ -> _ => destruct (finish_trace P sx mx) as (post & Tp & Hp);
    destruct (finish flat_ops P sx mx) as [sf of] end.
  cbn [fst] in Tp. intros E. inversion E; subst s' o.
  apply (op_wtr_write s s1 sf tr y (EIndex i2 :: post) Hc T1 D1 W1 B1).
  - rewrite Tp, s_trace_emit, <- app_assoc. reflexivity.
  - constructor; [reflexivity|exact Hp].
Qed.

Lemma delete_wtr P (s s' : st) (m : mem) k o :
  Inv P s -> s_mem s = Some m -> room m -> db_delete flat_ops P k s = (s', o) -> op_wtr s s'.
Proof.
  intros HI Em Hroom. pose proof (Inv_allclean P s m HI Em) as Hc. unfold db_delete. rewrite Em.
  destruct (ix_del flat_ops (m_idx m) _ (matchf (s_disk s) k)) as [i1 old].
  destruct old as [o0|].
  - pose proof (Inv_InvLog P s m Em HI) as HL.
    destruct (write_record flat_ops P (mkdel k) s (track_del o0 m)) as [[[[s1 m1] id] off]|] eqn:Ew.
    + destruct (wr_wtr P _ s (track_del o0 m) s1 m1 id off (track_del_InvLog _ _ _ HL) (track_del_room _ _ Hroom) Ew)
        as (tr & y & T1 & D1 & W1 & B1).
      match goal with |- finish flat_ops P ?sx ?mx = _ -> _ => destruct (finish_trace P sx mx) as (post & Tp & Hp);
        destruct (finish flat_ops P sx mx) as [sf of] end.
      cbn [fst] in Tp. intros E. inversion E; subst s' o.
      apply (op_wtr_write s s1 sf tr y (EIndex i1 :: post) Hc T1 D1 W1 B1).
      * rewrite Tp, s_trace_emit, <- app_assoc. reflexivity.
      * constructor; [reflexivity|exact Hp].
    + intros E. inversion E; subst s' o. apply (nolog_op_wtr s s [] Hc); [rewrite app_nil_r; reflexivity|constructor].
  - destruct (finish_trace P s m) as (post & Tp & Hp). destruct (finish flat_ops P s m) as [sf of]. cbn [fst] in Tp.
    intros E. inversion E; subst s' o. apply (nolog_op_wtr s sf post Hc Tp Hp).
Qed.

Lemma sync_wtr P (s s' : st) (m : mem) o :
  Inv P s -> s_mem s = Some m -> db_sync flat_ops s = (s', o) -> op_wtr s s'.
Proof.
  intros HI Em. pose proof (Inv_allclean P s m HI Em) as Hc. unfold db_sync. rewrite Em. intros E. inversion E; subst s' o.
  destruct (do_sync_spec s m) as (_ & _ & [T|(i & q & T)]).
  - apply (nolog_op_wtr s _ [] Hc); [rewrite app_nil_r; exact T|constructor].
  - apply (nolog_op_wtr s _ [ESync (FSeg i q)] Hc T). constructor; [reflexivity|constructor].
Qed.

Lemma cstep_wtr P (s : st) (c : cursor) (m : mem) s' c' :
  Inv P s -> s_mem s = Some m -> room m -> compact_step flat_ops P s c = CMore s' c' -> op_wtr s s'.
Proof.
  intros HI Em Hroom E. pose proof (Inv_allclean P s m HI Em) as Hc. unfold compact_step in E. rewrite Em in E.
  pose proof (Inv_InvLog P s m Em HI) as HL.
  assert (Hsame : forall sx : st, s_trace sx = s_trace s -> op_wtr s sx).
  { intros sx T. apply (nolog_op_wtr s sx [] Hc); [rewrite app_nil_r; exact T|constructor]. }
  destruct (c_src c) as [[[id seq] off]|] eqn:Esrc.
  2:{ destruct (c_todo c) as [|[id seq] todo]; [discriminate|]. inversion E; subst s' c'. apply Hsame. reflexivity. }
  destruct (find_dseg id (s_disk s)) as [f|] eqn:Ef; [|discriminate].
  destruct (rec_at off (seg_entries f)) as [r|] eqn:Er.
  - destruct (rdel r); [inversion E; subst s' c'; apply Hsame; reflexivity|].
    cbn [ix_repoint flat_ops] in E.
    destruct (fl_repoint (m_idx m) (p_hash P (m_seed m) (rk r)) id (u32 off) id (u32 off));
      [|inversion E; subst s' c'; apply Hsame; reflexivity].
    destruct (write_record flat_ops P r s m) as [[[[s1 m1] nid] noff]|] eqn:Ew; [|discriminate].
    destruct (wr_wtr P r s m s1 m1 nid noff HL Hroom Ew) as (tr & y & T1 & D1 & W1 & B1).
    destruct (fl_repoint (m_idx m1) (p_hash P (m_seed m) (rk r)) id (u32 off) nid noff) as [i2|]; [|discriminate].
    inversion E; subst s' c'.
    apply (op_wtr_write s s1 _ tr y [EIndex i2] Hc T1 D1 W1 B1).
    + cbn [with_mem s_trace]. apply s_trace_emit.
    + constructor; [reflexivity|constructor].
  - destruct (negb ((flen f =? off) && (f_seq f =? seq))); [discriminate|]. inversion E; subst s' c'.
    destruct (remove_segment_shape id seq s m) as (es & Hn & T & _).
    destruct (bound_exists (s_disk s)) as (M & HM). exists (es ++ [ERemove (FSeg id seq)]), (0, M).
    split; [exact T|]. split; [|split; [apply allclean_Qd; exact Hc|exact HM]].
    apply wtr_app; [apply wtr_nolog; apply neutral_nolog; exact Hn|].
    apply wt_remove; [reflexivity|apply wt_nil].
Qed.

(* every step: its events write to one segment file only, which is not older than any other *)
Theorem xstep_wtr P cf o cf' u :
  params_ok P -> XOpen P cf -> xstep P cf o cf' -> DurS u (fst cf) ->
  exists y, Jd y (s_disk (fst cf)) u /\ wtr false y (s_disk (fst cf)) (s_trace (fst cf')).
Proof.
  intros HP [HO HC] Hs (m & Em & HD). destruct HO as (HI & Hm & Hb).
  assert (Hfin : forall s', op_wtr (clear_trace (fst cf)) s' ->
            exists y, Jd y (s_disk (fst cf)) u /\ wtr false y (s_disk (fst cf)) (s_trace s')).
  { intros s' (tr & y & T & W & Q & B). cbn [clear_trace s_trace s_disk app] in T, W, Q, B. exists y. rewrite T.
    split; [|exact W]. split; [exact Q|]. split; [exact B|]. eapply DurM_upart; eassumption. }
  destruct Hs as [s c o Hpre|s s' c HM E|s c s' c' Hroom E|s c E]; cbn [fst snd] in *.
  - destruct o as [k v|k|]; cbn [run_op op_pre] in *.
    + destruct Hpre as ((m0 & Em0 & Hroom) & _). assert (m0 = m) by congruence. subst m0.
      apply Hfin. apply (put_wtr P (clear_trace s) _ m k v _ (Inv_clear P s HI) Em Hroom (surjective_pairing _)).
    + destruct Hpre as ((m0 & Em0 & Hroom) & _). assert (m0 = m) by congruence. subst m0.
      apply Hfin. apply (delete_wtr P (clear_trace s) _ m k _ (Inv_clear P s HI) Em Hroom (surjective_pairing _)).
    + apply Hfin. apply (sync_wtr P (clear_trace s) _ m _ (Inv_clear P s HI) Em (surjective_pairing _)).
  - apply Hfin. destruct (crash_compact_pick P s s' c HI Hm Hb E) as (Hsy & _).
    apply (nolog_op_wtr (clear_trace s) s' (s_trace s')); [apply (Inv_allclean P s m HI Em)|reflexivity|apply syncs_nolog; exact Hsy].
  - destruct Hroom as (m0 & Em0 & Hroom). assert (m0 = m) by congruence. subst m0.
    apply Hfin. apply (cstep_wtr P (clear_trace s) c m s' c' (Inv_clear P s HI) Em Hroom E).
  - apply Hfin. apply (nolog_op_wtr (clear_trace s) (clear_trace s) []); [apply (Inv_allclean P s m HI Em)|reflexivity|constructor].
Qed.
(* ================================================================================================ *)
(* 6. Close and the clean Open that follows keep the discipline                                      *)

Lemma dur2_nolog_None es : Forall (fun e : fsev => touches_log e = false) es -> dur2 None es = Some None.
Proof.
  induction es as [|e es IH]; intros H; [reflexivity|]. inversion H as [|? ? He H']; subst. cbn [dur2].
  destruct (dur2_step_nolog None e He) as (u1 & E1 & [->| ->]); rewrite E1; apply IH; exact H'.
Qed.

Lemma dur2_nolog es : forall u, Forall (fun e : fsev => touches_log e = false) es ->
  exists u', dur2 u es = Some u' /\ (u' = u \/ u' = None).
Proof.
  induction es as [|e es IH]; intros u H; [exists u; split; [reflexivity|left; reflexivity]|].
  inversion H as [|? ? He H']; subst. cbn [dur2].
  destruct (dur2_step_nolog u e He) as (u1 & E1 & [->| ->]); rewrite E1.
  - apply IH. exact H'.
  - rewrite (dur2_nolog_None es H'). exists None. split; [reflexivity|right; reflexivity].
Qed.

(* events that do not write to segment files: a Sync of the unflushed segment file clears the state *)
Lemma dur2_nolog_clr x es : Forall (fun e : fsev => touches_log e = false) es ->
  clr (FSeg (fst x) (snd x)) es false = true -> dur2 (Some x) es = Some None.
Proof.
  induction es as [|e es IH]; intros H Hc; [discriminate Hc|]. inversion H as [|? ? He H']; subst. cbn [dur2 clr] in *.
  destruct (fname_opt_eqb (sync_file e) (FSeg (fst x) (snd x))) eqn:Es.
  - apply fname_opt_eqb_true in Es. destruct e; try discriminate Es. cbn [sync_file] in Es. inversion Es; subst f.
    cbn [dur2_step seg_data]. destruct x as [i q]. cbn [fst snd]. rewrite pair_eqb_refl. apply dur2_nolog_None. exact H'.
  - assert (Ed : fname_opt_eqb (data_file e) (FSeg (fst x) (snd x)) = false).
    { destruct (fname_opt_eqb (data_file e) (FSeg (fst x) (snd x))) eqn:Ed; [|reflexivity].
      apply fname_opt_eqb_true in Ed. exfalso.
      assert (Esd : seg_data e = Some x) by (apply seg_data_file; exact Ed).
      rewrite (touches_log_seg_data e He) in Esd. discriminate. }
    rewrite Ed in Hc.
    assert (E1 : dur2_step (Some x) e = Some (Some x)).
    { destruct (dur2_step_nolog (Some x) e He) as (u1 & E1 & Hu). rewrite E1. f_equal. destruct Hu as [->| ->]; [reflexivity|].
      exfalso. unfold dur2_step in E1. rewrite (touches_log_seg_data e He) in E1.
      destruct e as [f|f|id seq off r|j|id seq m|j|sd|f n|f g|f|f]; try (destruct (quiet2 _); discriminate E1).
      destruct f as [i q| | | | | | |]; try (destruct (quiet2 _); discriminate E1).
      destruct (pair_eqb (i, q) x) eqn:Ex; [|discriminate E1]. apply pair_eqb_eq in Ex. subst x.
      cbn [sync_file fname_opt_eqb fst snd] in Es. rewrite rc_fname_eqb_refl in Es. discriminate. }
    rewrite E1. apply IH; assumption.
Qed.

Theorem close_dur2 P (s : st) (m : mem) u :
  Inv P s -> s_mem s = Some m -> DurM u m ->
  dur2 u (s_trace (fst (db_close flat_ops (clear_trace s)))) = Some None.
Proof.
  intros HI Em HD.
  destruct (close_cl_run (clear_trace s) m Em) as (es & T & _ & Hcov).
  destruct (close_shape (clear_trace s) m Em) as (s3 & (es' & T' & _ & Hn & _) & E).
  rewrite E in T |- *. cbn [fst s_trace clear_trace app] in T, T' |- *. rewrite T' in T |- *.
  assert (Hes : es = es' ++ [ERemove FLock]) by (symmetry; exact T).
  pose proof (neutral_nolog es' Hn) as Hnl.
  apply (dur2_cat _ _ _ None); [|reflexivity].
  destruct u as [x|]; [|apply dur2_nolog_None; exact Hnl].
  apply dur2_nolog_clr; [exact Hnl|].
  destruct (HD x eq_refl) as (g & Ec & _ & ->). cbn [fst snd].
  destruct (cur_seg_Some _ _ Ec) as (_ & Hg & _).
  assert (Hc : clr (FSeg (g_id g) (g_seq g)) es false = true).
  { apply Hcov. unfold CloseF. do 4 right. exists g. split; [exact Hg|left; reflexivity]. }
  rewrite Hes, clr_app in Hc. cbn [clr sync_file data_file fname_opt_eqb] in Hc. exact Hc.
Qed.

(* the closed directory *)
Lemma closed_facts P (s : st) (m : mem) s1 o :
  Inv P s -> s_mem s = Some m -> bac_ok (s_disk s) -> db_close flat_ops (clear_trace s) = (s1, o) ->
  o = OOk /\ s_mem s1 = None /\ DiskOK (s_disk s1) /\ bac_ok (s_disk s1) /\ d_lock (s_disk s1) = false /\
  d_index (s_disk s1) = Some (m_idx m) /\ d_overflow (s_disk s1) = true /\ d_imeta (s_disk s1) = GOk (m_idx m) /\
  (forall f, In f (d_segs (s_disk s1)) -> f_hdr f = true) /\ ceq (cont (s_disk s1)) (cont (s_disk s)) /\
  s_disk s1 = run_evs (s_trace s1) (s_disk s).
Proof.
  intros HI Em Hb Ec.
  pose proof (close_ok P (clear_trace s) m (Inv_clear P s HI) Em) as Hc. rewrite Ec in Hc.
  destruct Hc as (Ho & Hm1 & Hok1 & Hlog1 & Hl1 & Hi1 & Hov1 & Him1 & _).
  destruct (rc_close_char (clear_trace s) m Em) as (s1' & Ec' & _ & Es1 & _ & _ & _ & _ & _ & _ & Eb1 & _).
  rewrite Ec in Ec'. inversion Ec'; subst s1'. cbn [clear_trace s_disk] in Es1, Eb1, Hlog1.
  destruct (close_cl_run (clear_trace s) m Em) as (es & T & D & _). rewrite Ec in T, D. cbn [fst clear_trace s_trace s_disk app] in T, D.
  split; [congruence|]. split; [exact Hm1|]. split; [exact Hok1|]. split; [unfold bac_ok; rewrite Eb1; exact Hb|].
  split; [exact Hl1|]. split; [exact Hi1|]. split; [exact Hov1|]. split; [exact Him1|]. split; [|split].
  - intros f Hf. rewrite Es1 in Hf. apply in_map_iff in Hf. destruct Hf as (f0 & <- & Hf0).
    pose proof (rc_wmetas_core (m_segs m) f0) as Ecore. apply seg_core_inv in Ecore. destruct Ecore as (_ & _ & Eh & _).
    rewrite Eh. apply (Inv_allclean P s m HI Em f0 Hf0).
  - intros k. unfold cont, abs. rewrite Hlog1. reflexivity.
  - rewrite T. exact D.
Qed.

(* the clean Open of a closed directory: the lock file, and at most one new, empty segment file *)
Theorem clean_open_dur2 P seed (d : disk) i j s2 :
  DiskOK d -> bac_ok d -> d_lock d = false -> d_index d = Some i -> d_overflow d = true -> d_imeta d = GOk j ->
  (forall f, In f (d_segs d) -> f_hdr f = true) ->
  db_open flat_ops P seed (closed d) = (s2, OOpened false) -> Inv P s2 ->
  exists u', dur2 None (s_trace s2) = Some u' /\ DurS u' s2 /\ s_disk s2 = run_evs (s_trace s2) d.
Proof.
  intros Hok Hbac Hlock Hi Hov Him Hhdr E HI2. revert E.
  unfold db_open. change (s_mem (closed d)) with (@None mem). cbv iota.
  change (d_lock (s_disk (closed d))) with (d_lock d). rewrite Hlock. cbv iota.
  set (s0 := emit flat_ops (ECreate FLock) (closed d)).
  rewrite (rc_open_index_existing s0 i j Hi Hov Him).
  destruct (rc_open_segments_spec s0 (proj1 (proj2 Hok))) as (s3 & segs & E3 & _ & _ & _ & Es3 & Hsegs & Hincs).
  assert (Es30 : fold_left rc_hdr_step (sort_segs (d_segs (s_disk s0))) s0 = s0).
  { apply rc_hdr_fold_all_hdr. intros f Hf. apply Hhdr. apply (Permutation_in _ (rc_sort_segs_perm _)). exact Hf. }
  rewrite Es30 in Es3. subst s3. rewrite E3.
  match goal with |- context [swap_segment flat_ops s0 ?m] => set (m0 := m) end.
  assert (Hmag : rc_magree (m_segs m0) (s_disk s0)).
  { cbn [m0 m_segs]. split.
    - intros g Hg. apply Hsegs in Hg. destruct Hg as (f & Hf & ->). exists f. split; [exact Hf|].
      cbn [rc_mkseg g_id g_seq g_size]. split; [reflexivity|]. split; [reflexivity|]. apply rc_flen_hdr. apply Hhdr. exact Hf.
    - intros f Hf. exists (rc_mkseg f). split; [apply Hsegs; exists f; split; [exact Hf|reflexivity]|]. split; reflexivity. }
  destruct (swap_trace s0 m0) as (pre & T4 & D4 & Hpre). cbv zeta in Hpre.
  destruct (rc_swap_spec s0 m0 Hmag Hincs) as (s4 & m1 & E4 & Hcase). rewrite E4 in *. cbn [fst] in T4, D4.
  change (s_trace s0) with [@ECreate flat FLock] in T4.
  assert (D4' : s_disk s4 = run_evs ([@ECreate flat FLock] ++ pre) d) by (rewrite D4; reflexivity).
  destruct (if ix_count flat_ops i =? 0 then Some seed else match d_dbmeta (s_disk s4) with GOk sd => Some sd | _ => None end) as [sd|];
    [|discriminate].
  intros E. inversion E; subst s2; clear E. cbn [with_mem s_trace s_mem s_disk]. rewrite T4.
  destruct Hpre as [[-> _]|[-> Hfull]].
  - exists None. split; [reflexivity|]. split; [|exact D4']. eexists. split; [reflexivity|apply DurM_None].
  - set (id := lowest_free 0 (m_segs m0)) in *. set (seq := m_maxseq m0 + 1) in *.
    exists (Some (id, seq)). split; [reflexivity|]. split; [|exact D4'].
    eexists. split; [reflexivity|]. intros x Ex. inversion Ex; subst x.
    destruct Hcase as [(g & Hg & Hnf & _)|(_ & Em1 & _)]; [rewrite (Hfull g Hg) in Hnf; discriminate|].
    cbv zeta in Em1. fold id seq in Em1.
    exists (rc_newg id seq). split; [|split; reflexivity].
    apply cur_seg_intro.
    + unfold Inv in HI2. cbn [with_mem s_mem] in HI2. destruct HI2 as (_ & _ & Hinc & _). exact Hinc.
    + rewrite Em1. reflexivity.
    + rewrite Em1. cbn [m_segs set_cur set_maxseq set_msegs]. apply insert_mseg_In. left. reflexivity.
    + rewrite Em1. reflexivity.
Qed.
(* ================================================================================================ *)
(* 7. Histories of several epochs                                                                    *)

(* ---- where a dying process leaves the events of the operation in flight ---- *)
Inductive cutof : disk -> list fsev -> list chunk -> disk -> Prop :=
| cut_evs d p q : cutof d (p ++ q) [CE p] (run_evs p d)
| cut_torn d p id seq off r q c : 0 < c -> c < rsize r ->
    cutof d (p ++ EAppend id seq off r :: q) [CE p; CT id seq r c] (torn (run_evs p d) id seq r c).

(* ... these are exactly the process-crash images of DBProofsCrash.v *)
Lemma cutof_crash_image d es K cimg : cutof d es K cimg -> crash_image d es cimg.
Proof.
  intros H. destruct H as [d p q|d p id seq off r q c Hc0 Hc1].
  - apply crash_image_app_l. apply crash_image_full.
  - apply crash_image_app_r. apply ci_torn; assumption.
Qed.

Lemma crash_image_cutof d es cimg : crash_image d es cimg -> exists K, cutof d es K cimg.
Proof.
  intros H. induction H as [d es|d e es img H IH|d id seq off r es c Hc0 Hc1].
  - exists [CE []]. apply (cut_evs d [] es).
  - destruct IH as (K & HK). remember (apply_ev flat_ops d e) as d1 eqn:Ed1.
    destruct HK as [d0 p q|d0 p id seq off r q c Hc0 Hc1]; subst d0.
    + exists [CE (e :: p)]. apply (cut_evs d (e :: p) q).
    + exists [CE (e :: p); CT id seq r c]. apply (cut_torn d (e :: p) id seq off r q c Hc0 Hc1).
  - exists [CE []; CT id seq r c]. apply (cut_torn d [] id seq off r es c Hc0 Hc1).
Qed.

Lemma cutof_hrun d es K cimg : cutof d es K cimg -> hrun K d = cimg.
Proof. intros H. destruct H; reflexivity. Qed.

Lemma hcrash_nil_inv (d x : disk) : hcrash d [] x -> x = d.
Proof. intros H. inversion H; subst. reflexivity. Qed.

Lemma hcrash_app_inv K1 : forall K2 (d x : disk),
  hcrash d (K1 ++ K2) x -> hcrash d K1 x \/ hcrash (hrun K1 d) K2 x.
Proof.
  induction K1 as [|k K1 IH]; intros K2 d x H; [right; exact H|]. cbn [app] in H. cbn [hrun fold_left].
  inversion H as [d0 K0|d0 es K0 cimg Hci|d0 es K0 cimg Hc|d0 id seq r c c' K0 Hc0 Hc1|d0 id seq r c K0 cimg Hc]; subst.
  - left. apply hc_here.
  - left. apply hc_in. exact Hci.
  - destruct (IH _ _ _ Hc) as [Hl|Hr]; [left; apply hc_evs; exact Hl|right; exact Hr].
  - left. apply hc_torn; assumption.
  - destruct (IH _ _ _ Hc) as [Hl|Hr]; [left; apply hc_tnext; exact Hl|right; exact Hr].
Qed.

Lemma hcrash_one (d x : disk) es : hcrash d [CE es] x -> crash_image d es x.
Proof.
  intros H. inversion H as [d0 K0|d0 es0 K0 cimg Hci|d0 es0 K0 cimg Hc| |]; subst.
  - apply ci_here.
  - exact Hci.
  - apply hcrash_nil_inv in Hc. subst. apply crash_image_full.
Qed.

Lemma cutof_hcrash d es K cimg x : cutof d es K cimg -> hcrash d K x -> crash_image d es x.
Proof.
  intros H Hx. destruct H as [d p q|d p id seq off r q c Hc0 Hc1].
  - apply crash_image_app_l. apply hcrash_one. exact Hx.
  - change [CE p; CT id seq r c] with ([CE p] ++ [CT id seq r c]) in Hx.
    destruct (hcrash_app_inv _ _ _ _ Hx) as [Hl|Hr]; [apply crash_image_app_l; apply hcrash_one; exact Hl|].
    cbn [hrun fold_left hstep] in Hr. apply crash_image_app_r.
    inversion Hr as [d0 K0| | |d0 id0 seq0 r0 c0 c' K0 Hc0' Hc1'|d0 id0 seq0 r0 c0 K0 cimg0 Hc]; subst.
    + apply ci_here.
    + apply ci_torn; [assumption|]. eapply N.le_lt_trans; eassumption.
    + apply hcrash_nil_inv in Hc. subst. apply ci_torn; assumption.
Qed.

(* ---- recovery attempts: any number of recovering Opens that die, then one that completes ---- *)
Inductive rrun (P : params) : disk -> list chunk -> st -> Prop :=
| rr_done d seed s' : db_open flat_ops P seed (closed d) = (s', OOpened true) -> rrun P d [CE (s_trace s')] s'
| rr_crash d seed p q K s' : s_trace (fst (db_open flat_ops P seed (closed d))) = p ++ q ->
    rrun P (run_evs p d) K s' -> rrun P d (CE p :: K) s'.

Lemma hdur2_one u es : hdur2 u [CE es] = dur2 u es.
Proof. cbn [hdur2 hdur2_step]. destruct (dur2 u es); reflexivity. Qed.

Lemma rrun_ok P d Kr s1 : params_ok P -> rrun P d Kr s1 -> forall u, Good d -> Neat u d ->
  Open P s1 /\ ceq (cont (s_disk s1)) (cont d) /\ s_disk s1 = hrun Kr d /\
  (exists u1, hdur2 u Kr = Some u1 /\ DurS u1 s1) /\
  (forall x, hcrash d Kr x -> Good x /\ ceq (cont x) (cont d)).
Proof.
  intros HP H. induction H as [d seed s' E|d seed p q K s' Etr H IH]; intros u Hg HN.
  - destruct (open_dur2 P seed d u HP Hg HN) as (s2 & u' & E2 & HO & Hc & Hd & Hdur & HD & _).
    rewrite E in E2. inversion E2; subst s2. split; [exact HO|]. split; [exact Hc|].
    split; [cbn [hrun fold_left hstep]; exact Hd|]. split; [exists u'; split; [rewrite hdur2_one; exact Hdur|exact HD]|].
    intros x Hx. apply hcrash_one in Hx. destruct Hg as (G1 & G2 & G3).
    assert (Hx' : crash_image d (s_trace (fst (db_open flat_ops P seed {| s_mem := None; s_disk := d; s_trace := [] |}))) x).
    { change {| s_mem := None; s_disk := d; s_trace := [] |} with (closed d). rewrite E. exact Hx. }
    destruct (crash_open_recover P seed d G1 G2 G3 x Hx') as (A1 & A2 & A3 & A4). split; [split; [exact A1|split; assumption]|exact A4].
  - destruct (open_dur2 P seed d u HP Hg HN) as (s2 & u' & E2 & _ & _ & _ & _ & _ & Hpre).
    rewrite E2 in Etr. cbn [fst] in Etr. destruct (Hpre p q Etr) as (u_p & Hdp & HNp).
    pose proof Hg as (G1 & G2 & G3).
    assert (Himg : forall x, crash_image d p x -> Good x /\ ceq (cont x) (cont d)).
    { intros x Hx.
      assert (Hx' : crash_image d (s_trace (fst (db_open flat_ops P seed {| s_mem := None; s_disk := d; s_trace := [] |}))) x).
      { change {| s_mem := None; s_disk := d; s_trace := [] |} with (closed d). rewrite E2. cbn [fst]. rewrite Etr.
        apply crash_image_app_l. exact Hx. }
      destruct (crash_open_recover P seed d G1 G2 G3 x Hx') as (A1 & A2 & A3 & A4). split; [split; [exact A1|split; assumption]|exact A4]. }
    destruct (Himg _ (crash_image_full p d)) as [Hgp Hcp].
    destruct (IH u_p Hgp HNp) as (HO & Hc & Hd & (u1 & Hdur & HD) & Hcr).
    split; [exact HO|]. split; [eapply ceq_trans; eassumption|]. split; [exact Hd|].
    split; [exists u1; split; [cbn [hdur2 hdur2_step]; rewrite Hdp; exact Hdur|exact HD]|].
    intros x Hx. inversion Hx as [d0 K0|d0 es0 K0 cimg Hci|d0 es0 K0 cimg Hc'| |]; subst.
    + split; [exact Hg|apply ceq_refl].
    + apply Himg. exact Hci.
    + destruct (Hcr x Hc') as [A B]. split; [exact A|eapply ceq_trans; eassumption].
Qed.

(* ---- the specification: what may be found after a history of several epochs ---- *)
Inductive mitem := MOps (os : list xop) | MCrash (o : xop) | MKill | MClose.

(* the acknowledged operations in order; the operation in flight at a crash took effect or did not *)
Inductive lin : list mitem -> list xop -> Prop :=
| lin_nil : lin [] []
| lin_ops os mh l : lin mh l -> lin (MOps os :: mh) (os ++ l)
| lin_lost o mh l : lin mh l -> lin (MCrash o :: mh) l
| lin_done o mh l : lin mh l -> lin (MCrash o :: mh) (o :: l)
| lin_kill mh l : lin mh l -> lin (MKill :: mh) l
| lin_close mh l : lin mh l -> lin (MClose :: mh) l.

(* [after c mh c']: c' is c followed by a prefix of the operations of mh *)
Definition after (c : cmap) (mh : list mitem) (c' : cmap) : Prop :=
  exists l j, lin mh l /\ (j <= length l)%nat /\ ceq c' (xspec_hist (firstn j l) c).

Lemma lin_exists mh : exists l, lin mh l.
Proof.
  induction mh as [|it mh (l & IH)]; [exists []; apply lin_nil|].
  destruct it as [os|o| |]; eexists; [apply lin_ops|apply lin_lost|apply lin_kill|apply lin_close]; exact IH.
Qed.

Lemma after_here c mh c' : ceq c' c -> after c mh c'.
Proof. intros H. destruct (lin_exists mh) as (l & Hl). exists l, O. split; [exact Hl|]. split; [apply Nat.le_0_l|exact H]. Qed.

Lemma after_ceq c c2 mh c' : after c mh c' -> ceq c c2 -> after c2 mh c'.
Proof.
  intros (l & j & Hl & Hj & Hc) H. exists l, j. split; [exact Hl|]. split; [exact Hj|].
  eapply ceq_trans; [exact Hc|]. apply xspec_hist_ceq. exact H.
Qed.

Lemma after_ceq_r c mh c' c2 : after c mh c' -> ceq c2 c' -> after c mh c2.
Proof.
  intros (l & j & Hl & Hj & Hc) H. exists l, j. split; [exact Hl|]. split; [exact Hj|]. eapply ceq_trans; eassumption.
Qed.

Lemma xspec_hist_app a b c : xspec_hist (a ++ b) c = xspec_hist b (xspec_hist a c).
Proof. unfold xspec_hist. apply fold_left_app. Qed.

Lemma after_ops_in c os mh c' j : (j <= length os)%nat -> ceq c' (xspec_hist (firstn j os) c) -> after c (MOps os :: mh) c'.
Proof.
  intros Hj Hc. destruct (lin_exists mh) as (l & Hl). exists (os ++ l), j. split; [apply lin_ops; exact Hl|].
  split; [rewrite app_length; lia|]. rewrite firstn_app. replace (j - length os)%nat with O by lia.
  cbn [firstn]. rewrite app_nil_r. exact Hc.
Qed.

Lemma after_ops c os mh c' : after (xspec_hist os c) mh c' -> after c (MOps os :: mh) c'.
Proof.
  intros (l & j & Hl & Hj & Hc). exists (os ++ l), (length os + j)%nat. split; [apply lin_ops; exact Hl|].
  split; [rewrite app_length; lia|]. rewrite firstn_app_2, xspec_hist_app. exact Hc.
Qed.

Lemma after_lost c o mh c' : after c mh c' -> after c (MCrash o :: mh) c'.
Proof. intros (l & j & Hl & Hj & Hc). exists l, j. split; [apply lin_lost; exact Hl|]. split; assumption. Qed.

Lemma after_done c o mh c' : after (xspec o c) mh c' -> after c (MCrash o :: mh) c'.
Proof.
  intros (l & j & Hl & Hj & Hc). exists (o :: l), (S j). split; [apply lin_done; exact Hl|].
  split; [cbn [length]; lia|]. exact Hc.
Qed.

Lemma after_kill c mh c' : after c mh c' -> after c (MKill :: mh) c'.
Proof. intros (l & j & Hl & Hj & Hc). exists l, j. split; [apply lin_kill; exact Hl|]. split; assumption. Qed.

Lemma after_close c mh c' : after c mh c' -> after c (MClose :: mh) c'.
Proof. intros (l & j & Hl & Hj & Hc). exists l, j. split; [apply lin_close; exact Hl|]. split; assumption. Qed.

Lemma prefix_of_snoc {A} (es1 es2 es' : list A) x : es1 ++ es2 = es' ++ [x] -> es2 <> [] -> exists r, es' = es1 ++ r.
Proof.
  revert es'. induction es1 as [|a es1 IH]; intros es' E Hne; [exists es'; reflexivity|].
  destruct es' as [|b es'].
  - cbn [app] in E. inversion E as [[Ea Eb]]. apply app_eq_nil in Eb. destruct Eb as [_ Eb]. contradiction.
  - cbn [app] in E. inversion E as [[Ea Eb]]. destruct (IH es' Eb Hne) as (r & ->). exists r. reflexivity.
Qed.

(* the events of Close before the removal of the lock file are neutral *)
Lemma close_prefix_neutral (s : st) (m : mem) s1 o p e q :
  s_mem s = Some m -> db_close flat_ops (clear_trace s) = (s1, o) -> s_trace s1 = p ++ e :: q -> Forall neutral p.
Proof.
  intros Em Ec Etr. destruct (close_shape (clear_trace s) m Em) as (s3 & (es' & T' & _ & Hn & _) & E').
  rewrite Ec in E'. inversion E' as [[E1']]. cbn [clear_trace s_trace app] in T'.
  assert (Et : p ++ e :: q = es' ++ [ERemove FLock]) by (rewrite <- Etr, <- T', E1'; reflexivity).
  destruct (prefix_of_snoc p (e :: q) es' _ Et) as (r & ->); [discriminate|].
  apply Forall_app in Hn. apply Hn.
Qed.

(* ---- the histories ---- *)
(* [mrun P cf mh K cf']: from the open database cf, the epochs mh are run; K: all events; cf': the open
   database at the end.  Between epochs: a process crash in the middle of a step (any prefix of its events,
   or a torn write) or between steps, followed by recovery attempts; or Close and a clean Open. *)
Inductive mrun (P : params) : cfg -> list mitem -> list chunk -> cfg -> Prop :=
| mr_nil cf : mrun P cf [] [] cf
| mr_ops cf os cfs tr cf1 mh K cf' :
    xrun P cf os cfs tr cf1 -> mrun P cf1 mh K cf' -> mrun P cf (MOps os :: mh) (CE tr :: K) cf'
| mr_crash cf o cfx Kc cimg Kr s1 mh K cf' :
    xstep P cf o cfx -> cutof (s_disk (fst cf)) (s_trace (fst cfx)) Kc cimg -> rrun P cimg Kr s1 ->
    mrun P (s1, None) mh K cf' -> mrun P cf (MCrash o :: mh) (Kc ++ Kr ++ K) cf'
| mr_kill cf Kr s1 mh K cf' :
    rrun P (s_disk (fst cf)) Kr s1 -> mrun P (s1, None) mh K cf' -> mrun P cf (MKill :: mh) (Kr ++ K) cf'
| mr_close cf s1 seed s2 mh K cf' :
    db_close flat_ops (clear_trace (fst cf)) = (s1, OOk) ->
    db_open flat_ops P seed (closed (s_disk s1)) = (s2, OOpened false) ->
    mrun P (s2, None) mh K cf' -> mrun P cf (MClose :: mh) (CE (s_trace s1) :: CE (s_trace s2) :: K) cf'
(* the process dies in the middle of Close (at least one event, e, has not been issued: the lock file is
   still there); recovery attempts *)
| mr_crash_close cf s1 o p e q Kr s1' mh K cf' :
    db_close flat_ops (clear_trace (fst cf)) = (s1, o) -> s_trace s1 = p ++ e :: q ->
    rrun P (run_evs p (s_disk (fst cf))) Kr s1' -> mrun P (s1', None) mh K cf' ->
    mrun P cf (MKill :: mh) (CE p :: Kr ++ K) cf'.

(* the crash of a step *)
Lemma crash_trans P cf o cfx Kc cimg u :
  params_ok P -> XOpen P cf -> DurS u (fst cf) -> xstep P cf o cfx ->
  cutof (s_disk (fst cf)) (s_trace (fst cfx)) Kc cimg ->
  Good cimg /\ (exists u1, hdur2 u Kc = Some u1 /\ Neat u1 cimg) /\
  (forall x, hcrash (s_disk (fst cf)) Kc x ->
     Good x /\ (ceq (cont x) (cont (s_disk (fst cf))) \/ ceq (cont x) (xspec o (cont (s_disk (fst cf)))))).
Proof.
  intros HP HX HD Hs Hcut.
  destruct (xstep_ok P cf o cfx HP HX Hs) as (_ & Hspec & _).
  assert (Himg : forall x, crash_image (s_disk (fst cf)) (s_trace (fst cfx)) x ->
            Good x /\ (ceq (cont x) (cont (s_disk (fst cf))) \/ ceq (cont x) (xspec o (cont (s_disk (fst cf)))))).
  { intros x Hx. destruct (xstep_crash P cf o cfx x HP HX Hs Hx) as [Hg [Hc|Hc]]; (split; [exact Hg|]); [left; exact Hc|right].
    eapply ceq_trans; eassumption. }
  split; [apply Himg; eapply cutof_crash_image; exact Hcut|].
  split; [|intros x Hx; apply Himg; eapply cutof_hcrash; eassumption].
  destruct (xstep_dur P cf o cfx u HP HX Hs HD) as (ue & Hdur & _). apply dur_dur2 in Hdur.
  destruct (xstep_wtr P cf o cfx u HP HX Hs HD) as (y & HJ & W).
  remember (s_disk (fst cf)) as d eqn:Ed. remember (s_trace (fst cfx)) as es eqn:Ees.
  destruct Hcut as [d p q|d p id seq off r q c Hc0 Hc1].
  - destruct (cut_Jd false y (p ++ q) d u ue p q W HJ Hdur eq_refl) as (u_p & A & B & _).
    exists u_p. split; [rewrite hdur2_one; exact A|exists y; exact B].
  - destruct (cut_Jd false y _ d u ue p (EAppend id seq off r :: q) W HJ Hdur eq_refl) as (u_p & A & B & C & Wq).
    destruct (wtr_inv _ _ _ _ _ Wq) as [_ [K|[[K K']|[[K _]|[_ (i & q0 & K)]]]]]; try discriminate K.
    cbn [seg_data] in K. inversion K; subst y. cbn [dur2] in C.
    destruct (dur2_step u_p (EAppend id seq off r)) as [u2|] eqn:Es; [|discriminate].
    rewrite (dur2_step_data u_p (EAppend id seq off r) (id, seq) eq_refl) in Es.
    exists u2. split; [cbn [hdur2 hdur2_step]; rewrite A; cbn [hdur2_step]; rewrite Es; reflexivity|].
    destruct (dur2_data_inv _ _ _ Es) as [-> _]. exists (id, seq).
    apply (Jd_torn (id, seq) (run_evs p d) u_p r c B K').
Qed.

Theorem mrun_main P cf mh K cf' : params_ok P -> mrun P cf mh K cf' -> forall u, XOpen P cf -> DurS u (fst cf) ->
  XOpen P cf' /\ s_disk (fst cf') = hrun K (s_disk (fst cf)) /\
  (exists u', hdur2 u K = Some u' /\ DurS u' (fst cf')) /\
  (forall x, hcrash (s_disk (fst cf)) K x ->
     DiskOK x /\ bac_ok x /\ after (cont (s_disk (fst cf))) mh (cont x)).
Proof.
  intros HP H.
  induction H as [cf|cf os cfs tr cf1 mh K cf' Hr H IH|cf o cfx Kc cimg Kr s1 mh K cf' Hs Hcut Hrr H IH
                  |cf Kr s1 mh K cf' Hrr H IH|cf s1 seed s2 mh K cf' Ec Eo H IH
                  |cf s1 o p e q Kr s1' mh K cf' Ec Etr Hrr H IH]; intros u HX HD.
  - split; [exact HX|]. split; [reflexivity|]. split; [exists u; split; [reflexivity|exact HD]|].
    intros x Hx. apply hcrash_nil_inv in Hx. subst x. destruct HX as [(HI & Hm & Hb) _].
    destruct (Inv_Good P _ HI Hm Hb) as (G1 & _). split; [exact G1|]. split; [exact Hb|apply after_here; apply ceq_refl].
  - destruct (xrun_ok P _ _ _ _ _ HP Hr HX) as (HX1 & Ed1 & Hc1 & _).
    destruct (xrun_dur P _ _ _ _ _ HP Hr HX u HD) as (u1 & Hd1 & HD1). apply dur_dur2 in Hd1.
    destruct (IH u1 HX1 HD1) as (HX' & Ed' & (u' & Hd' & HD') & Hcr).
    split; [exact HX'|]. split; [cbn [hrun fold_left hstep]; rewrite <- Ed1; exact Ed'|].
    split; [exists u'; split; [cbn [hdur2 hdur2_step]; rewrite Hd1; exact Hd'|exact HD']|].
    intros x Hx. inversion Hx as [d0 K0|d0 es0 K0 cimg Hci|d0 es0 K0 cimg Hc| |]; subst.
    + destruct HX as [(HI & Hm & Hb) _]. destruct (Inv_Good P _ HI Hm Hb) as (G1 & _).
      split; [exact G1|]. split; [exact Hb|apply after_here; apply ceq_refl].
    + destruct (xrun_crash P _ _ _ _ _ HP Hr HX x Hci) as [(G1 & G2 & _) (j & Hj & Hc)].
      split; [exact G1|]. split; [exact G2|]. eapply after_ops_in; eassumption.
    + rewrite <- Ed1 in Hc. destruct (Hcr x Hc) as (A1 & A2 & A3). split; [exact A1|]. split; [exact A2|].
      apply after_ops. eapply after_ceq; [exact A3|exact Hc1].
  - destruct (crash_trans P cf o cfx Kc cimg u HP HX HD Hs Hcut) as (Hgc & (uc & Hdc & HNc) & Hcrc).
    destruct (rrun_ok P cimg Kr s1 HP Hrr uc Hgc HNc) as (HO1 & Hc1 & Ed1 & (u1 & Hd1 & HD1) & Hcrr).
    assert (HX1 : XOpen P (s1, None)) by (split; [exact HO1|exact Logic.I]).
    destruct (IH u1 HX1 HD1) as (HX' & Ed' & (u' & Hd' & HD') & Hcr). cbn [fst] in Ed', Hcr.
    pose proof (cutof_hrun _ _ _ _ Hcut) as Ehc.
    destruct (Hcrc cimg) as [_ Hcc]; [rewrite <- Ehc; clear; generalize (s_disk (fst cf)); induction Kc as [|k Kc IHk]; intros d; [apply hc_here|];
      cbn [hrun fold_left]; destruct k; [apply hc_evs|apply hc_tnext]; apply IHk|].
    split; [exact HX'|]. split; [rewrite !hrun_app, Ehc, <- Ed1; exact Ed'|].
    split; [exists u'; split; [apply (hdur2_cat _ _ _ _ _ Hdc); apply (hdur2_cat _ _ _ _ _ Hd1); exact Hd'|exact HD']|].
    intros x Hx. destruct (hcrash_app_inv _ _ _ _ Hx) as [Hl|Hr2].
    + destruct (Hcrc x Hl) as [(G1 & G2 & _) [Hc|Hc]]; (split; [exact G1|]; split; [exact G2|]).
      * apply after_here. exact Hc.
      * apply after_done. apply after_here. exact Hc.
    + rewrite Ehc in Hr2. destruct (hcrash_app_inv _ _ _ _ Hr2) as [Hl|Hr3].
      * destruct (Hcrr x Hl) as [(G1 & G2 & _) Hc]. split; [exact G1|]. split; [exact G2|].
        destruct Hcc as [Hcc|Hcc].
        -- apply after_here. eapply ceq_trans; eassumption.
        -- apply after_done. apply after_here. eapply ceq_trans; eassumption.
      * rewrite <- Ed1 in Hr3. destruct (Hcr x Hr3) as (A1 & A2 & A3). split; [exact A1|]. split; [exact A2|].
        destruct Hcc as [Hcc|Hcc].
        -- apply after_lost. eapply after_ceq; [exact A3|]. eapply ceq_trans; eassumption.
        -- apply after_done. eapply after_ceq; [exact A3|]. eapply ceq_trans; eassumption.
  - pose proof HX as [(HI & Hm & Hb) _]. pose proof (Inv_Good P _ HI Hm Hb) as Hg0.
    pose proof (DurS_Neat P (fst cf) u HI HD) as HN0.
    destruct (rrun_ok P _ Kr s1 HP Hrr u Hg0 HN0) as (HO1 & Hc1 & Ed1 & (u1 & Hd1 & HD1) & Hcrr).
    assert (HX1 : XOpen P (s1, None)) by (split; [exact HO1|exact Logic.I]).
    destruct (IH u1 HX1 HD1) as (HX' & Ed' & (u' & Hd' & HD') & Hcr). cbn [fst] in Ed', Hcr.
    split; [exact HX'|]. split; [rewrite hrun_app, <- Ed1; exact Ed'|].
    split; [exists u'; split; [apply (hdur2_cat _ _ _ _ _ Hd1); exact Hd'|exact HD']|].
    intros x Hx. destruct (hcrash_app_inv _ _ _ _ Hx) as [Hl|Hr2].
    + destruct (Hcrr x Hl) as [(G1 & G2 & _) Hc]. split; [exact G1|]. split; [exact G2|]. apply after_here. exact Hc.
    + rewrite <- Ed1 in Hr2. destruct (Hcr x Hr2) as (A1 & A2 & A3). split; [exact A1|]. split; [exact A2|].
      apply after_kill. eapply after_ceq; eassumption.
  - pose proof HX as [(HI & Hm & Hb) _]. destruct HD as (m & Em & HDm).
    destruct (closed_facts P (fst cf) m s1 OOk HI Em Hb Ec) as (_ & Hm1 & Hok1 & Hb1 & Hl1 & Hi1 & Hov1 & Him1 & Hh1 & Hc1 & Ed1).
    pose proof (close_reopen_ok_nometa P seed (clear_trace (fst cf)) m HP (Inv_clear P _ HI) Em) as Hro.
    pose proof (close_reopen_bac P seed (clear_trace (fst cf)) m (Inv_clear P _ HI) Em) as Hrb.
    rewrite Ec in Hro, Hrb.
    assert (E : clear_trace s1 = closed (s_disk s1)) by (unfold clear_trace, closed; rewrite Hm1; reflexivity).
    rewrite E, Eo in Hro, Hrb. destruct Hro as (_ & HI2 & Ha2 & m2 & Em2 & _). cbn [clear_trace s_disk] in Ha2, Hrb.
    assert (HO2 : Open P s2) by (split; [exact HI2|split; [congruence|unfold bac_ok; rewrite Hrb; exact Hb]]).
    destruct (clean_open_dur2 P seed (s_disk s1) _ _ s2 Hok1 Hb1 Hl1 Hi1 Hov1 Him1 Hh1 Eo HI2) as (u2 & Hd2 & HD2 & Ed2).
    pose proof (close_dur2 P (fst cf) m u HI Em HDm) as Hdc. rewrite Ec in Hdc. cbn [fst] in Hdc.
    assert (HX2 : XOpen P (s2, None)) by (split; [exact HO2|exact Logic.I]).
    destruct (IH u2 HX2 HD2) as (HX' & Ed' & (u' & Hd' & HD') & Hcr). cbn [fst] in Ed', Hcr.
    split; [exact HX'|]. split; [cbn [hrun fold_left hstep]; rewrite <- Ed1, <- Ed2; exact Ed'|].
    split; [exists u'; split; [cbn [hdur2 hdur2_step]; rewrite Hdc, Hd2; exact Hd'|exact HD']|].
    assert (Hcl : DiskOK (s_disk s1) /\ bac_ok (s_disk s1) /\ after (cont (s_disk (fst cf))) (MClose :: mh) (cont (s_disk s1))).
    { split; [exact Hok1|]. split; [exact Hb1|]. apply after_here. exact Hc1. }
    intros x Hx. inversion Hx as [d0 K0|d0 es0 K0 cimg Hci|d0 es0 K0 cimg Hc| |]; subst.
    + destruct (Inv_Good P _ HI Hm Hb) as (G1 & _). split; [exact G1|]. split; [exact Hb|apply after_here; apply ceq_refl].
    + destruct (crash_close P (fst cf) s1 OOk x HI Hm Hb Ec Hci) as [(G1 & G2 & _ & Hc)| ->]; [|exact Hcl].
      split; [exact G1|]. split; [exact G2|]. apply after_here. exact Hc.
    + rewrite <- Ed1 in Hc. inversion Hc as [d0 K0|d0 es0 K0 cimg Hci|d0 es0 K0 cimg Hc2| |]; subst.
      * exact Hcl.
      * destruct (clean_open_trace P seed (s_disk s1) _ _ Hok1 Hb1 Hl1 Hi1 Hov1 Him1 Hh1) as (pre & T & Hsafe & _).
        rewrite Eo in T. cbn [fst] in T. rewrite T in Hci.
        inversion Hci as [d0 es0|d0 e0 es0 img0 Hci'|]; subst; [exact Hcl|].
        assert (Hg1 : Good (apply_ev flat_ops (s_disk s1) (ECreate FLock))) by (split; [exact Hok1|split; [exact Hb1|reflexivity]]).
        destruct (safe_run_images pre _ x Hsafe Hg1 Hci') as ((G1 & G2 & _) & Ho).
        split; [exact G1|]. split; [exact G2|]. apply after_here. intros k. unfold cont. rewrite (olog_abs _ _ Ho). apply Hc1.
      * rewrite <- Ed2 in Hc2. destruct (Hcr x Hc2) as (A1 & A2 & A3). split; [exact A1|]. split; [exact A2|].
        apply after_close. eapply after_ceq; [exact A3|exact Ha2].
  - pose proof HX as [(HI & Hm & Hb) _]. pose proof (Inv_Good P _ HI Hm Hb) as Hg0.
    destruct (DurS_Neat P (fst cf) u HI HD) as (y & HJ0). destruct HD as (m & Em & HDm).
    pose proof (close_prefix_neutral (fst cf) m s1 o p e q Em Ec Etr) as Hn.
    pose proof (neutral_nolog p Hn) as Hnl.
    destruct (safe_run_end p _ (neutral_safe_run p _ Hn Hg0) Hg0) as [Hgp Hop].
    assert (Hslp : same_log (s_disk (fst cf)) (run_evs p (s_disk (fst cf)))).
    { apply (no_log_images_same_log p); [exact Hnl|apply crash_image_full]. }
    destruct (dur2_nolog p u Hnl) as (u_p & Hdp & Hup).
    assert (HNp : Neat u_p (run_evs p (s_disk (fst cf)))).
    { exists y. apply (Jd_same_log y _ _ _ Hslp). destruct HJ0 as (A & B & C). split; [exact A|]. split; [exact B|].
      intros x Ex. destruct Hup as [->| ->]; [apply C; exact Ex|discriminate]. }
    destruct (rrun_ok P _ Kr s1' HP Hrr u_p Hgp HNp) as (HO1 & Hc1 & Ed1 & (u1 & Hd1 & HD1) & Hcrr).
    assert (HX1 : XOpen P (s1', None)) by (split; [exact HO1|exact Logic.I]).
    destruct (IH u1 HX1 HD1) as (HX' & Ed' & (u' & Hd' & HD') & Hcr). cbn [fst] in Ed', Hcr.
    assert (Hcp : ceq (cont (run_evs p (s_disk (fst cf)))) (cont (s_disk (fst cf)))).
    { intros k. unfold cont. rewrite (olog_abs _ _ Hop). reflexivity. }
    split; [exact HX'|]. split; [cbn [hrun fold_left hstep]; rewrite hrun_app, <- Ed1; exact Ed'|].
    split; [exists u'; split; [cbn [hdur2 hdur2_step]; rewrite Hdp; apply (hdur2_cat _ _ _ _ _ Hd1); exact Hd'|exact HD']|].
    intros x Hx. inversion Hx as [d0 K0|d0 es0 K0 cimg Hci|d0 es0 K0 cimg Hc| |]; subst.
    + destruct Hg0 as (G1 & _). split; [exact G1|]. split; [exact Hb|apply after_here; apply ceq_refl].
    + destruct (neutral_images p _ x Hn Hg0 Hci) as ((G1 & G2 & _) & Ho). split; [exact G1|]. split; [exact G2|].
      apply after_here. intros k. unfold cont. rewrite (olog_abs _ _ Ho). reflexivity.
    + destruct (hcrash_app_inv _ _ _ _ Hc) as [Hl|Hr2].
      * destruct (Hcrr x Hl) as [(G1 & G2 & _) Hcx]. split; [exact G1|]. split; [exact G2|].
        apply after_here. eapply ceq_trans; eassumption.
      * rewrite <- Ed1 in Hr2. destruct (Hcr x Hr2) as (A1 & A2 & A3). split; [exact A1|]. split; [exact A2|].
        apply after_kill. eapply after_ceq; [exact A3|]. eapply ceq_trans; eassumption.
Qed.
(* ================================================================================================ *)
(* 8. C06 with recoveries                                                                            *)

(* [hcut Kc K]: Kc is K cut after some event: the history up to the power failure *)
Inductive hcut : list chunk -> list chunk -> Prop :=
| hcut_here es1 es2 K : hcut [CE es1] (CE (es1 ++ es2) :: K)
| hcut_cons k Kc K : hcut Kc K -> hcut (k :: Kc) (k :: K).

Lemma hcut_app K1 Kc K : hcut Kc K -> hcut (K1 ++ Kc) (K1 ++ K).
Proof. intros H. induction K1 as [|k K1 IH]; [exact H|]. cbn [app]. apply hcut_cons. exact IH. Qed.

Lemma hcut_self Kc K : hcut Kc K -> forall d : disk, hcrash d K (hrun Kc d).
Proof.
  intros H. induction H as [es1 es2 K|k Kc K H IH]; intros d; cbn [hrun fold_left hstep].
  - apply hc_in. apply crash_image_app_l. apply crash_image_full.
  - destruct k as [es|id seq r c]; [apply hc_evs|apply hc_tnext]; apply IH.
Qed.

Lemma hcut_hcrash Kc K : hcut Kc K -> forall d x : disk, hcrash d Kc x -> hcrash d K x.
Proof.
  intros H. induction H as [es1 es2 K|k Kc K H IH]; intros d x Hx.
  - apply hc_in. apply crash_image_app_l. apply hcrash_one. exact Hx.
  - inversion Hx as [d0 K0|d0 es0 K0 cimg Hci|d0 es0 K0 cimg Hc|d0 id seq r c c' K0 Hc0 Hc1|d0 id seq r c K0 cimg Hc]; subst.
    + apply hc_here.
    + apply hc_in. exact Hci.
    + apply hc_evs. apply IH. exact Hc.
    + apply hc_torn; assumption.
    + apply hc_tnext. apply IH. exact Hc.
Qed.

Lemma hcut_hdur2 Kc K : hcut Kc K -> forall u, hdur2 u K <> None -> hdur2 u Kc <> None.
Proof.
  intros H. induction H as [es1 es2 K|k Kc K H IH]; intros u Hd.
  - rewrite hdur2_one. cbn [hdur2 hdur2_step] in Hd. apply (dur2_prefix es1 es2). destruct (dur2 u (es1 ++ es2)); [discriminate|exact Hd].
  - cbn [hdur2] in *. destruct (hdur2_step u k) as [u1|]; [apply IH; exact Hd|exact Hd].
Qed.

(* events of consecutive chunks, as one list *)
Lemma pl_plh ess : forall L d L' img', pl L d (concat ess) L' img' -> plh L d (map CE ess) L' img'.
Proof.
  induction ess as [|es ess IH]; intros L d L' img' H; cbn [concat map] in *.
  - inversion H; subst. apply plh_nil.
  - destruct (pl_app_inv _ _ _ _ _ _ H) as (L1 & d1 & A & B). eapply plh_evs; [exact A|apply IH; exact B].
Qed.

(* ... and back: on histories without torn chunks [plh] is [pl] on the concatenation *)
Lemma plh_pl ess : forall L d L' img', plh L d (map CE ess) L' img' -> pl L d (concat ess) L' img'.
Proof.
  induction ess as [|es ess IH]; intros L d L' img' H; cbn [concat map] in *.
  - inversion H; subst. apply pl_nil.
  - inversion H as [|L0 d0 es0 L1 d1 K0 L0' img0 A B| | |]; subst. eapply pl_app; [exact A|apply IH; exact B].
Qed.

Lemma open_DurS_None P cf : XOpen P cf -> DurS None (fst cf).
Proof.
  intros [(_ & Hm & _) _]. destruct (s_mem (fst cf)) as [m|] eqn:Em; [|congruence]. exists m. split; [exact Em|apply DurM_None].
Qed.

(* after a sync point of a history of several epochs nothing is pending on any segment file *)
Lemma msync_clean P cf0 mh0 K0 cfa osync cf1 L1 img1 :
  params_ok P -> XOpen P cf0 -> mrun P cf0 mh0 K0 cfa -> xstep P cfa osync cf1 -> sync_point P osync ->
  plh fnone (s_disk (fst cf0)) (K0 ++ [CE (s_trace (fst cf1))]) L1 img1 ->
  XOpen P cf1 /\ seg_clean L1 /\ Agree L1 (s_disk (fst cf1)) img1.
Proof.
  intros HP HX0 Hr0 Hs Hsp Hpl.
  destruct (mrun_main P _ _ _ _ HP Hr0 None HX0 (open_DurS_None P cf0 HX0)) as (HXa & Eda & (ua & Da & HDa) & _).
  destruct (xstep_ok P _ _ _ HP HXa Hs) as (HX1 & _ & Ed1).
  destruct (xstep_dur P _ _ _ ua HP HXa Hs HDa) as (u1 & D1 & _ & Hu1). rewrite (Hu1 Hsp) in D1. apply dur_dur2 in D1.
  assert (Hdur : hdur2 None (K0 ++ [CE (s_trace (fst cf1))]) = Some None).
  { apply (hdur2_cat _ _ _ _ _ Da). rewrite hdur2_one. exact D1. }
  split; [exact HX1|]. split.
  - intros i q. destruct (L1 (FSeg i q)) eqn:E; [|reflexivity].
    assert (Hx : None = Some (i, q)); [|discriminate Hx].
    apply (plh_dur2 _ _ _ _ _ Hpl None None Hdur); [intros i' q' H'; discriminate H'|exact E].
  - assert (Edisk : s_disk (fst cf1) = hrun (K0 ++ [CE (s_trace (fst cf1))]) (s_disk (fst cf0))).
    { rewrite hrun_app. cbn [hrun fold_left hstep]. rewrite <- Eda. exact Ed1. }
    rewrite Edisk. apply (plh_agree _ _ _ _ _ Hpl). apply Agree_refl.
Qed.

(* C06, with recoveries.  A history of any number of epochs from a durable directory; in some epoch a Sync
   (or, with p_sync, a Put / Delete) completes with contents A0 = cont (s_disk (fst cf1)); the history goes
   on through any number of epochs mh (operations, compaction steps; process crashes in the middle of a step,
   with torn writes, or between steps; recovery attempts that die themselves; Close and clean re-Open); the
   power fails after any event of it at which the lock file exists.  Whatever the file system kept: the next
   Open recovers, with the invariant, and the contents are A0 followed by a prefix of the later operations
   (an operation in flight at a process crash counted or not). *)
Theorem C06_with_recovery P seed cf0 mh0 K0 cfa osync cf1 mh K cf' Kcut L' img' :
  params_ok P -> XOpen P cf0 ->
  mrun P cf0 mh0 K0 cfa -> xstep P cfa osync cf1 -> sync_point P osync ->
  mrun P cf1 mh K cf' -> hcut Kcut K -> d_lock (hrun Kcut (s_disk (fst cf1))) = true ->
  plh fnone (s_disk (fst cf0)) (K0 ++ CE (s_trace (fst cf1)) :: Kcut) L' img' ->
  exists s2, db_open flat_ops P seed (closed img') = (s2, OOpened true) /\ Inv P s2 /\ s_mem s2 <> None /\
    after (cont (s_disk (fst cf1))) mh (cont (s_disk s2)).
Proof.
  intros HP HX0 Hr0 Hs Hsp Hr Hcut Hlock Hpl.
  change (K0 ++ CE (s_trace (fst cf1)) :: Kcut) with (K0 ++ [CE (s_trace (fst cf1))] ++ Kcut) in Hpl. rewrite app_assoc in Hpl.
  destruct (plh_app_inv _ _ _ _ _ _ Hpl) as (L1 & img1 & Hpl1 & Hpl2).
  destruct (msync_clean P _ _ _ _ _ _ L1 img1 HP HX0 Hr0 Hs Hsp Hpl1) as (HX1 & Hcl & HA).
  destruct (mrun_main P _ _ _ _ HP Hr None HX1 (open_DurS_None P cf1 HX1)) as (_ & _ & (u' & Hd & _) & Hcr).
  assert (Hne : hdur2 None Kcut <> None) by (apply (hcut_hdur2 Kcut K Hcut); rewrite Hd; discriminate).
  pose proof (plh_agree _ _ _ _ _ Hpl2 _ HA) as (_ & _ & _ & _ & _ & A6 & A7).
  destruct (Hcr _ (hcut_self Kcut K Hcut _)) as (_ & Hbf & _).
  assert (Hc : exists cimg, hcrash (s_disk (fst cf1)) K cimg /\ same_log cimg img').
  { destruct (plh_reduce _ _ _ _ _ Hpl2 (s_disk (fst cf1)) None Hcl HA Hne) as [[HL' HA']|(cimg & x & C1 & C2 & _)].
    - exists (hrun Kcut (s_disk (fst cf1))). split; [apply hcut_self; exact Hcut|apply (Agree_same_log L'); assumption].
    - exists cimg. split; [apply (hcut_hcrash Kcut K Hcut); exact C1|exact C2]. }
  destruct Hc as (cimg & Hci & Hsame). destruct (Hcr cimg Hci) as (G1 & _ & Haf).
  assert (G1' : DiskOK img') by (apply (same_log_DiskOK _ _ Hsame G1)).
  assert (G2' : bac_ok img') by (unfold bac_ok; rewrite A7; exact Hbf).
  assert (G3' : d_lock img' = true) by (rewrite A6; exact Hlock).
  destruct (crash_then_recover P seed img' HP G1' G2' G3') as (s2 & E2 & HI2 & Hm2 & _ & Ha2).
  exists s2. split; [exact E2|]. split; [exact HI2|]. split; [exact Hm2|].
  apply (after_ceq_r _ _ _ _ Haf). intros k. unfold cont. rewrite Ha2, (same_log_abs _ _ Hsame). reflexivity.
Qed.

(* per key: the value at the sync point, or the value after one of the later operations *)
Corollary C06_with_recovery_per_key P seed cf0 mh0 K0 cfa osync cf1 mh K cf' Kcut L' img' :
  params_ok P -> XOpen P cf0 ->
  mrun P cf0 mh0 K0 cfa -> xstep P cfa osync cf1 -> sync_point P osync ->
  mrun P cf1 mh K cf' -> hcut Kcut K -> d_lock (hrun Kcut (s_disk (fst cf1))) = true ->
  plh fnone (s_disk (fst cf0)) (K0 ++ CE (s_trace (fst cf1)) :: Kcut) L' img' ->
  exists s2, db_open flat_ops P seed (closed img') = (s2, OOpened true) /\ Inv P s2 /\
    exists l, lin mh l /\ forall k, exists j, (j <= length l)%nat /\
      sget (abs (s_disk s2)) k = xspec_hist (firstn j l) (cont (s_disk (fst cf1))) k.
Proof.
  intros HP HX0 Hr0 Hs Hsp Hr Hcut Hlock Hpl.
  destruct (C06_with_recovery P seed _ _ _ _ _ _ _ _ _ _ _ _ HP HX0 Hr0 Hs Hsp Hr Hcut Hlock Hpl)
    as (s2 & E2 & HI2 & _ & l & j & Hl & Hj & Hc).
  exists s2. split; [exact E2|]. split; [exact HI2|]. exists l. split; [exact Hl|]. intros k. exists j. split; [exact Hj|apply Hc].
Qed.

(* ---- composition of histories ---- *)
Lemma mrun_app P cf mh1 K1 cfb : mrun P cf mh1 K1 cfb -> forall mh2 K2 cf', mrun P cfb mh2 K2 cf' ->
  mrun P cf (mh1 ++ mh2) (K1 ++ K2) cf'.
Proof.
  intros H. induction H as [cf|cf os cfs tr cf1 mh K cfb Hr H IH|cf o cfx Kc cimg Kr s1 mh K cfb Hs Hcut Hrr H IH
                            |cf Kr s1 mh K cfb Hrr H IH|cf s1 seed s2 mh K cfb Ec Eo H IH
                            |cf s1 o p e q Kr s1' mh K cfb Ec Etr Hrr H IH]; intros mh2 K2 cf' H2; cbn [app].
  - exact H2.
  - eapply mr_ops; [exact Hr|apply IH; exact H2].
  - rewrite <- !app_assoc. eapply mr_crash; [exact Hs|exact Hcut|exact Hrr|apply IH; exact H2].
  - rewrite <- app_assoc. eapply mr_kill; [exact Hrr|apply IH; exact H2].
  - eapply mr_close; [exact Ec|exact Eo|apply IH; exact H2].
  - rewrite <- app_assoc. eapply mr_crash_close; [exact Ec|exact Etr|exact Hrr|apply IH; exact H2].
Qed.

(* the power fails at any event of the LAST epoch of operations *)
Theorem C06_with_recovery_last_epoch P seed cf0 mh0 K0 cfa osync cf1 mh K cfb os cfs tr cf' es1 es2 L' img' :
  params_ok P -> XOpen P cf0 ->
  mrun P cf0 mh0 K0 cfa -> xstep P cfa osync cf1 -> sync_point P osync ->
  mrun P cf1 mh K cfb -> xrun P cfb os cfs tr cf' -> tr = es1 ++ es2 ->
  plh fnone (s_disk (fst cf0)) (K0 ++ CE (s_trace (fst cf1)) :: K ++ [CE es1]) L' img' ->
  exists s2, db_open flat_ops P seed (closed img') = (s2, OOpened true) /\ Inv P s2 /\ s_mem s2 <> None /\
    after (cont (s_disk (fst cf1))) (mh ++ [MOps os]) (cont (s_disk s2)).
Proof.
  intros HP HX0 Hr0 Hs Hsp Hr Hx Etr Hpl.
  assert (HX1 : XOpen P cf1).
  { destruct (mrun_main P _ _ _ _ HP Hr0 None HX0 (open_DurS_None P cf0 HX0)) as (HXa & _).
    apply (xstep_ok P _ _ _ HP HXa Hs). }
  destruct (mrun_main P _ _ _ _ HP Hr None HX1 (open_DurS_None P cf1 HX1)) as (HXb & Edb & _).
  assert (Hr' : mrun P cf1 (mh ++ [MOps os]) (K ++ [CE tr]) cf').
  { apply (mrun_app P _ _ _ _ Hr). eapply mr_ops; [exact Hx|apply mr_nil]. }
  apply (C06_with_recovery P seed _ _ _ _ _ _ _ _ _ (K ++ [CE es1]) L' img' HP HX0 Hr0 Hs Hsp Hr').
  - apply hcut_app. rewrite Etr. apply hcut_here.
  - rewrite hrun_app, <- Edb. cbn [hrun fold_left hstep].
    destruct (xrun_crash P _ _ _ _ _ HP Hx HXb (run_evs es1 (s_disk (fst cfb)))) as [(_ & _ & G3) _]; [|exact G3].
    rewrite Etr. apply crash_image_app_l. apply crash_image_full.
  - exact Hpl.
Qed.

(* the power fails during the LAST recovering Open itself *)
Theorem C06_power_loss_during_recovery P seed seed' cf0 mh0 K0 cfa osync cf1 mh K cfb o cfx Kc cimg p q L' img' :
  params_ok P -> XOpen P cf0 ->
  mrun P cf0 mh0 K0 cfa -> xstep P cfa osync cf1 -> sync_point P osync ->
  mrun P cf1 mh K cfb -> xstep P cfb o cfx -> cutof (s_disk (fst cfb)) (s_trace (fst cfx)) Kc cimg ->
  s_trace (fst (db_open flat_ops P seed' (closed cimg))) = p ++ q ->
  plh fnone (s_disk (fst cf0)) (K0 ++ CE (s_trace (fst cf1)) :: K ++ Kc ++ [CE p]) L' img' ->
  exists s2, db_open flat_ops P seed (closed img') = (s2, OOpened true) /\ Inv P s2 /\ s_mem s2 <> None /\
    after (cont (s_disk (fst cf1))) (mh ++ [MCrash o]) (cont (s_disk s2)).
Proof.
  intros HP HX0 Hr0 Hs Hsp Hr Hs' Hcut Etr Hpl.
  assert (HX1 : XOpen P cf1).
  { destruct (mrun_main P _ _ _ _ HP Hr0 None HX0 (open_DurS_None P cf0 HX0)) as (HXa & _).
    apply (xstep_ok P _ _ _ HP HXa Hs). }
  destruct (mrun_main P _ _ _ _ HP Hr None HX1 (open_DurS_None P cf1 HX1)) as (HXb & Edb & _).
  destruct (xstep_crash P _ _ _ cimg HP HXb Hs' (cutof_crash_image _ _ _ _ Hcut)) as [(G1 & G2 & G3) _].
  destruct (crash_then_recover P seed' cimg HP G1 G2 G3) as (s' & E' & _).
  change {| s_mem := None; s_disk := cimg; s_trace := [] |} with (closed cimg) in E'.
  rewrite E' in Etr. cbn [fst] in Etr.
  assert (Hr' : mrun P cf1 (mh ++ [MCrash o]) (K ++ Kc ++ [CE (p ++ q)] ++ []) (s', None)).
  { apply (mrun_app P _ _ _ _ Hr). eapply mr_crash; [exact Hs'|exact Hcut| |apply mr_nil].
    rewrite <- Etr. apply (rr_done P cimg seed' s' E'). }
  apply (C06_with_recovery P seed _ _ _ _ _ _ _ _ _ (K ++ Kc ++ [CE p]) L' img' HP HX0 Hr0 Hs Hsp Hr').
  - apply hcut_app. apply hcut_app. apply hcut_here.
  - rewrite !hrun_app, <- Edb, (cutof_hrun _ _ _ _ Hcut). cbn [hrun fold_left hstep].
    assert (Hx' : crash_image cimg (s_trace (fst (db_open flat_ops P seed' {| s_mem := None; s_disk := cimg; s_trace := [] |}))) (run_evs p cimg)).
    { change {| s_mem := None; s_disk := cimg; s_trace := [] |} with (closed cimg). rewrite E'. cbn [fst]. rewrite Etr.
      apply crash_image_app_l. apply crash_image_full. }
    apply (crash_open_recover P seed' cimg G1 G2 G3 _ Hx').
  - exact Hpl.
Qed.
(* ================================================================================================ *)
(* 9. Non-vacuity: a concrete history with a process crash (torn write), a recovery, more writes,    *)
(*    and a power failure                                                                            *)

(* segments of 4096 bytes: no rollover in this history *)
Definition ey_P : params :=
  {| p_maxseg := 4096; p_minseg := 0; p_frag := fun _ _ => false; p_sync := false;
     p_grow := fun _ _ => false; p_hash := fun _ _ => 0 |}.
Lemma ey_params_ok : params_ok ey_P. Proof. reflexivity. Qed.

(* Open (pl_q0: a freshly created database, durable) ; Put [1]:=[2] ; Sync ; Put [3]:=[4] (not synced) ;
   Put [5]:=[6] is in flight when the process dies: 5 of the 12 bytes of its record are in the file ;
   recovering Open ; Put [7]:=[8] ; power failure *)
Definition ey1 : st := Eval vm_compute in run_op ey_P (OpPut [1] [2]) pl_q0.
Definition ey2 : st := Eval vm_compute in run_op ey_P OpSync ey1.
Definition ey3 : st := Eval vm_compute in run_op ey_P (OpPut [3] [4]) ey2.
Definition ey4 : st := Eval vm_compute in run_op ey_P (OpPut [5] [6]) ey3.
Definition ey_cimg : disk := torn (s_disk ey3) 0 1 (mkput [5] [6]) 5.
Definition ey_r : st := Eval vm_compute in fst (db_open flat_ops ey_P 9 (closed ey_cimg)).
Definition ey5 : st := Eval vm_compute in run_op ey_P (OpPut [7] [8]) ey_r.

Lemma ey_E1 : run_op ey_P (OpPut [1] [2]) pl_q0 = ey1. Proof. vm_compute. reflexivity. Qed.
Lemma ey_E2 : run_op ey_P OpSync ey1 = ey2. Proof. vm_compute. reflexivity. Qed.
Lemma ey_E3 : run_op ey_P (OpPut [3] [4]) ey2 = ey3. Proof. vm_compute. reflexivity. Qed.
Lemma ey_E4 : run_op ey_P (OpPut [5] [6]) ey3 = ey4. Proof. vm_compute. reflexivity. Qed.
Lemma ey_Er : db_open flat_ops ey_P 9 (closed ey_cimg) = (ey_r, OOpened true). Proof. vm_compute. reflexivity. Qed.
Lemma ey_E5 : run_op ey_P (OpPut [7] [8]) ey_r = ey5. Proof. vm_compute. reflexivity. Qed.
Lemma ey_T4 : s_trace ey4 = [] ++ EAppend 0 1 536 (mkput [5] [6]) :: tl (s_trace ey4). Proof. vm_compute. reflexivity. Qed.

Lemma ey_step (s s' : st) k v : run_op ey_P (OpPut k v) s = s' ->
  match s_mem s with Some m => room_b m | None => false end = true ->
  forallb (fun b => b <? 256) k = true -> forallb (fun b => b <? 256) v = true ->
  (nlen k <=? max_key_len) = true -> (nlen v <=? max_val_len) = true ->
  xstep ey_P (s, None) (XOp (OpPut k v)) (s', None).
Proof. intros <- H1 H2 H3 H4 H5. apply xs_op. apply pl_put_pre; assumption. Qed.

Lemma ey_run1 (s s' : st) k v : xstep ey_P (s, None) (XOp (OpPut k v)) (s', None) ->
  xrun ey_P (s, None) [XOp (OpPut k v)] [(s', None)] (s_trace s' ++ []) (s', None).
Proof. intros H. apply (xr_cons ey_P (s, None) _ (s', None)); [exact H|apply xr_nil]. Qed.

Definition ey_mh0 : list mitem := [MOps [XOp (OpPut [1] [2])]].
Definition ey_K0 : list chunk := [CE (s_trace ey1 ++ [])].
Definition ey_mh : list mitem := [MOps [XOp (OpPut [3] [4])]; MCrash (XOp (OpPut [5] [6]))].
Definition ey_K : list chunk := CE (s_trace ey3 ++ []) :: ([CE []; CT 0 1 (mkput [5] [6]) 5] ++ [CE (s_trace ey_r)] ++ []).

Lemma ey_mrun0 : mrun ey_P (pl_q0, None) ey_mh0 ey_K0 (ey1, None).
Proof.
  eapply mr_ops; [|apply mr_nil]. apply ey_run1. apply (ey_step _ _ _ _ ey_E1); vm_compute; reflexivity.
Qed.

Lemma ey_sync : xstep ey_P (ey1, None) (XOp OpSync) (ey2, None).
Proof. rewrite <- ey_E2. apply xs_op. exact Logic.I. Qed.

Lemma ey_mrun : mrun ey_P (ey2, None) ey_mh ey_K (ey_r, None).
Proof.
  eapply mr_ops; [apply ey_run1; apply (ey_step _ _ _ _ ey_E3); vm_compute; reflexivity|].
  apply (mr_crash ey_P (ey3, None) (XOp (OpPut [5] [6])) (ey4, None) [CE []; CT 0 1 (mkput [5] [6]) 5] ey_cimg
                  [CE (s_trace ey_r)] ey_r [] [] (ey_r, None)).
  - apply (ey_step _ _ _ _ ey_E4); vm_compute; reflexivity.
  - cbn [fst]. rewrite ey_T4. apply (cut_torn (s_disk ey3) [] 0 1 536 (mkput [5] [6]) (tl (s_trace ey4)) 5); reflexivity.
  - apply (rr_done ey_P ey_cimg 9 ey_r ey_Er).
  - apply mr_nil.
Qed.

Lemma ey_last : xrun ey_P (ey_r, None) [XOp (OpPut [7] [8])] [(ey5, None)] (s_trace ey5 ++ []) (ey5, None).
Proof. apply ey_run1. apply (ey_step _ _ _ _ ey_E5); vm_compute; reflexivity. Qed.

(* all the events up to the power failure *)
Definition ey_hist : list chunk := ey_K0 ++ CE (s_trace ey2) :: ey_K ++ [CE (s_trace ey5 ++ [])].

(* image A: everything reached the disk (also the 5 bytes of the torn record, which the recovery then cut
   off) except the append of the last Put -- whose index write was kept;
   image B: everything written to the segment file after the Sync is lost: the append of [3], the torn
   bytes, the truncation by the recovery, the append of [7] *)
Definition ey_keep12 : list plc := [Keep; Keep; Keep; Keep; Keep; Keep; Keep; Keep; Keep; Keep; Keep; Keep].
Definition ey_lostA : list hch := [HC [Keep; Keep]; HC [Keep]; HC [Keep; Keep]; HC []; HKeep; HC ey_keep12; HC [Drop; Keep]].
Definition ey_lostB : list hch :=
  [HC [Keep; Keep]; HC [Keep]; HC [Drop; Keep]; HC []; HDrop;
   HC [Keep; Keep; Keep; Keep; Keep; Keep; Keep; Keep; Drop; Keep; Keep; Keep]; HC [Drop; Keep]].
(* a shorter torn prefix than the process left (3 of its 5 bytes) *)
Definition ey_lostC : list hch :=
  [HC [Keep; Keep]; HC [Keep]; HC [Keep; Keep]; HC []; HTear 3;
   HC [Keep; Keep; Keep; Keep; Keep; Keep; Keep; Keep; Drop; Keep; Keep; Keep]; HC [Drop; Keep]].

Lemma ey_image (hs : list hch) :
  is_some (plh_exec hs fnone (s_disk pl_q0) ey_hist) = true ->
  exists L, plh fnone (s_disk pl_q0) ey_hist L (img_of (plh_exec hs fnone (s_disk pl_q0) ey_hist)).
Proof.
  intros H. destruct (plh_exec hs fnone (s_disk pl_q0) ey_hist) as [[L img]|] eqn:E; [|discriminate H].
  exists L. apply (plh_exec_sound hs). exact E.
Qed.

Example C06_with_recovery_nonvacuous :
  (* the events of the recovering Open *)
  s_trace ey_r =
    [ERename FMain (FBac FMain); ERename FOverflow (FBac FOverflow); ECreate FMain; EHeader FMain;
     ECreate FOverflow; EHeader FOverflow; ETrunc FMain 1024; EIndex []; ETrunc (FSeg 0 1) 536;
     EIndex [{| sl_h := 0; sl_seg := 0; sl_ks := 1; sl_vs := 1; sl_off := 512 |};
             {| sl_h := 0; sl_seg := 0; sl_ks := 1; sl_vs := 1; sl_off := 524 |}];
     ERemove (FBac FMain); ERemove (FBac FOverflow)] /\
  (* the whole history keeps the generalised discipline -- the strict one of PowerLoss.v rejects it *)
  hdur2 None ey_hist = Some (Some (0, 1)) /\
  dur None (concat [s_trace ey1; s_trace ey2; s_trace ey3; s_trace ey_r]) = None /\
  (* the three images are admissible; losing the append of [1] (before the Sync) is not *)
  (exists L, plh fnone (s_disk pl_q0) ey_hist L (img_of (plh_exec ey_lostA fnone (s_disk pl_q0) ey_hist))) /\
  (exists L, plh fnone (s_disk pl_q0) ey_hist L (img_of (plh_exec ey_lostB fnone (s_disk pl_q0) ey_hist))) /\
  (exists L, plh fnone (s_disk pl_q0) ey_hist L (img_of (plh_exec ey_lostC fnone (s_disk pl_q0) ey_hist))) /\
  plh_exec (HC [Drop; Keep] :: tl ey_lostA) fnone (s_disk pl_q0) ey_hist = None /\
  (* contents: at the Sync, at the end, and of the images *)
  abs (s_disk ey2) = [([1], [2])] /\ abs (s_disk ey5) = [([7], [8]); ([3], [4]); ([1], [2])] /\
  abs (img_of (plh_exec ey_lostA fnone (s_disk pl_q0) ey_hist)) = [([3], [4]); ([1], [2])] /\
  abs (img_of (plh_exec ey_lostB fnone (s_disk pl_q0) ey_hist)) = [([1], [2])] /\
  abs (img_of (plh_exec ey_lostC fnone (s_disk pl_q0) ey_hist)) = [([3], [4]); ([1], [2])] /\
  map (fun f => nlen (f_tail f)) (d_segs (img_of (plh_exec ey_lostC fnone (s_disk pl_q0) ey_hist))) = [3].
Proof.
  split; [vm_compute; reflexivity|]. split; [vm_compute; reflexivity|]. split; [vm_compute; reflexivity|].
  split; [apply ey_image; vm_compute; reflexivity|]. split; [apply ey_image; vm_compute; reflexivity|].
  split; [apply ey_image; vm_compute; reflexivity|]. split; [vm_compute; reflexivity|].
  split; [vm_compute; reflexivity|]. split; [vm_compute; reflexivity|]. split; [vm_compute; reflexivity|].
  split; [vm_compute; reflexivity|]. split; vm_compute; reflexivity.
Qed.

(* the theorem applies to this history and to every admissible image of it; the key written before the
   Sync is there *)
Example C06_with_recovery_nonvacuous_recover :
  forall hs, is_some (plh_exec hs fnone (s_disk pl_q0) ey_hist) = true ->
  let img := img_of (plh_exec hs fnone (s_disk pl_q0) ey_hist) in
  exists s2, db_open flat_ops ey_P 11 (closed img) = (s2, OOpened true) /\ Inv ey_P s2 /\ s_mem s2 <> None /\
    after (cont (s_disk ey2)) (ey_mh ++ [MOps [XOp (OpPut [7] [8])]]) (cont (s_disk s2)).
Proof.
  intros hs Hhs img. destruct (ey_image hs Hhs) as (L & Hpl). fold img in Hpl.
  apply (C06_with_recovery_last_epoch ey_P 11 (pl_q0, None) ey_mh0 ey_K0 (ey1, None) (XOp OpSync) (ey2, None)
           ey_mh ey_K (ey_r, None) _ _ _ (ey5, None) (s_trace ey5 ++ []) [] L img ey_params_ok
           (conj (pl_open0 ey_P) Logic.I) ey_mrun0 ey_sync Logic.I ey_mrun ey_last (eq_sym (app_nil_r _)) Hpl).
Qed.

Example C06_with_recovery_nonvacuous_key1 :
  let sA := fst (db_open flat_ops ey_P 11 (closed (img_of (plh_exec ey_lostA fnone (s_disk pl_q0) ey_hist)))) in
  let sB := fst (db_open flat_ops ey_P 11 (closed (img_of (plh_exec ey_lostB fnone (s_disk pl_q0) ey_hist)))) in
  sget (abs (s_disk sA)) [1] = Some [2] /\ sget (abs (s_disk sA)) [3] = Some [4] /\ sget (abs (s_disk sA)) [7] = None /\
  sget (abs (s_disk sB)) [1] = Some [2] /\ sget (abs (s_disk sB)) [3] = None /\ sget (abs (s_disk sB)) [7] = None.
Proof.
  cbv zeta. split; [vm_compute; reflexivity|]. split; [vm_compute; reflexivity|]. split; [vm_compute; reflexivity|].
  split; [vm_compute; reflexivity|]. split; vm_compute; reflexivity.
Qed.
(* ================================================================================================ *)
(* 10. C09: the power fails during Close                                                             *)

Lemma xrun_app P a os1 cfs1 tr1 b : xrun P a os1 cfs1 tr1 b -> forall os2 cfs2 tr2 c,
  xrun P b os2 cfs2 tr2 c -> xrun P a (os1 ++ os2) (cfs1 ++ cfs2) (tr1 ++ tr2) c.
Proof.
  intros H. induction H as [cf|cf o cf1 os cfs tr cf' Hs H IH]; intros os2 cfs2 tr2 c H2; cbn [app]; [exact H2|].
  rewrite <- app_assoc. apply (xr_cons P cf o cf1); [exact Hs|apply IH; exact H2].
Qed.

(* A history with a sync point (contents A0 = cont (s_disk (fst cf1))), later steps os that are not synced,
   then Close -- and the power fails after any prefix es1 of the events of Close.  Every admissible image
   opens: through a recovery (the lock file is still there: OOpened true) as long as the removal of the lock
   file has not been issued, whatever became of the half-written db.pmt / index.pmt / *.psg.pmt / main.pix;
   cleanly after the complete Close.  The contents are A0 followed by a prefix of os -- all of os once the
   segment files have been flushed, in particular after the complete Close. *)
Theorem C09_power_loss_during_close P seed cf0 os0 cfs0 tr0 cfa osync cf1 os cfs tr (s : st) c s1 o es1 es2 L' img' :
  params_ok P -> XOpen P cf0 ->
  xrun P cf0 os0 cfs0 tr0 cfa -> xstep P cfa osync cf1 -> sync_point P osync ->
  xrun P cf1 os cfs tr (s, c) ->
  db_close flat_ops (clear_trace s) = (s1, o) -> s_trace s1 = es1 ++ es2 ->
  pl fnone (s_disk (fst cf0)) (tr0 ++ s_trace (fst cf1) ++ tr ++ es1) L' img' ->
  exists s2 b, db_open flat_ops P seed (closed img') = (s2, OOpened b) /\ Inv P s2 /\ s_mem s2 <> None /\
    (exists j, (j <= length os)%nat /\
       ceq (cont (s_disk s2)) (xspec_hist (firstn j os) (cont (s_disk (fst cf1))))) /\
    (es2 <> [] -> b = true) /\
    (es2 = [] -> b = false /\ ceq (cont (s_disk s2)) (cont (s_disk s))).
Proof.
  intros HP HX0 Hr0 Hs Hsp Hr Ec Etr Hpl.
  destruct (xrun_ok P _ _ _ _ _ HP Hr0 HX0) as (HXa & _).
  destruct (xstep_ok P _ _ _ HP HXa Hs) as (HX1 & _).
  destruct (xrun_ok P _ _ _ _ _ HP Hr HX1) as (HXs & Eds & Hcs & _). cbn [fst] in Eds, Hcs.
  pose proof HXs as [(HI & Hm & Hb) _]. cbn [fst] in HI, Hm, Hb.
  destruct (s_mem s) as [m|] eqn:Em; [|congruence].
  destruct (closed_facts P s m s1 o HI Em Hb Ec) as (-> & Hm1 & _).
  destruct es2 as [|e2 es2].
  - (* the complete Close *)
    rewrite app_nil_r in Etr. subst es1.
    assert (HrX : xrun P cf0 (os0 ++ osync :: os) (cfs0 ++ cf1 :: cfs) (tr0 ++ s_trace (fst cf1) ++ tr) (s, c)).
    { apply (xrun_app P _ _ _ _ _ Hr0). apply (xr_cons P cfa osync cf1); assumption. }
    rewrite !app_assoc in Hpl. rewrite <- (app_assoc tr0) in Hpl.
    destruct (C09_reopen P seed _ _ _ _ _ _ _ _ _ _ _ HP HX0 HrX Em Ec Hpl) as (s2 & E2 & HI2 & Hc2 & m2 & Em2 & _).
    exists s2, false. split; [exact E2|]. split; [exact HI2|]. split; [congruence|]. split.
    + exists (length os). split; [apply Nat.le_refl|]. rewrite firstn_all. eapply ceq_trans; eassumption.
    + split; [intros H; contradiction H; reflexivity|]. intros _. split; [reflexivity|exact Hc2].
  - (* the lock file has not been removed *)
    pose proof (close_reopen_ok_nometa P 0 (clear_trace s) m HP (Inv_clear P s HI) Em) as Hro. rewrite Ec in Hro.
    assert (E : clear_trace s1 = closed (s_disk s1)) by (unfold clear_trace, closed; rewrite Hm1; reflexivity).
    rewrite E in Hro. destruct (db_open flat_ops P 0 (closed (s_disk s1))) as [s2' o2] eqn:Eo. destruct Hro as (-> & _).
    assert (Hm0 : mrun P cf0 [MOps os0] [CE tr0] cfa) by (eapply mr_ops; [exact Hr0|apply mr_nil]).
    assert (Hm1' : mrun P cf1 [MOps os; MClose] [CE tr; CE (s_trace s1); CE (s_trace s2')] (s2', None)).
    { eapply mr_ops; [exact Hr|]. eapply mr_close; [exact Ec|exact Eo|apply mr_nil]. }
    assert (Hcut : hcut [CE tr; CE es1] [CE tr; CE (s_trace s1); CE (s_trace s2')]).
    { apply hcut_cons. rewrite Etr. apply hcut_here. }
    assert (Hlock : d_lock (hrun [CE tr; CE es1] (s_disk (fst cf1))) = true).
    { cbn [hrun fold_left hstep]. rewrite <- Eds.
      pose proof (close_prefix_neutral s m s1 OOk es1 e2 es2 Em Ec Etr) as Hn1.
      pose proof (Inv_Good P s HI ltac:(congruence) Hb) as Hg.
      apply (safe_run_end es1 (s_disk s) (neutral_safe_run es1 (s_disk s) Hn1 Hg) Hg). }
    assert (Hplh : plh fnone (s_disk (fst cf0)) ([CE tr0] ++ CE (s_trace (fst cf1)) :: [CE tr; CE es1]) L' img').
    { apply (pl_plh [tr0; s_trace (fst cf1); tr; es1]). cbn [concat]. rewrite app_nil_r. exact Hpl. }
    destruct (C06_with_recovery P seed _ _ _ _ _ _ _ _ _ _ L' img' HP HX0 Hm0 Hs Hsp Hm1' Hcut Hlock Hplh)
      as (s2 & E2 & HI2 & Hm2 & l & j & Hl & Hj & Hc).
    exists s2, true. split; [exact E2|]. split; [exact HI2|]. split; [exact Hm2|]. split.
    + inversion Hl as [|os' mh' l1 Hl1| | | |]; subst. inversion Hl1 as [| | | | |mh'' l2 Hl2]; subst. inversion Hl2; subst.
      rewrite app_nil_r in Hj, Hc. exists j. split; assumption.
    + split; [intros _; reflexivity|discriminate].
Qed.

(* ---- a concrete instance: Put [1] ; Sync ; Put [3] ; Close, and the power fails in the middle of Close ---- *)
Definition ez_cl : st := Eval vm_compute in fst (db_close flat_ops (clear_trace ey3)).
Lemma ez_Ecl : db_close flat_ops (clear_trace ey3) = (ez_cl, OOk). Proof. vm_compute. reflexivity. Qed.

Definition ez_events (n : nat) : list fsev :=
  (s_trace ey1 ++ []) ++ s_trace ey2 ++ (s_trace ey3 ++ []) ++ firstn n (s_trace ez_cl).

(* image A: the power fails while db.pmt is being written (3 events of Close issued): its body is lost, and
   so is the append of [3], which nothing has flushed yet;
   image B: the power fails before index.pmt is flushed (12 events issued; the segment file has been flushed
   by Close, the segment meta file written and flushed): the body of index.pmt is lost *)
Definition ez_lostA : list plc := [Keep; Keep; Keep; Drop; Keep; Keep; Keep; Drop].
Definition ez_lostB : list plc :=
  [Keep; Keep; Keep; Keep; Keep; Keep; Keep; Keep; Keep; Keep; Keep; Keep; Keep; Keep; Keep; Keep; Drop].

Lemma ez_image n (cs : list plc) :
  is_some (pl_exec cs fnone (s_disk pl_q0) (ez_events n)) = true ->
  exists L, pl fnone (s_disk pl_q0) (ez_events n) L (img_of (pl_exec cs fnone (s_disk pl_q0) (ez_events n))).
Proof.
  intros H. destruct (pl_exec cs fnone (s_disk pl_q0) (ez_events n)) as [[L img]|] eqn:E; [|discriminate H].
  exists L. apply (pl_exec_sound cs). exact E.
Qed.

Example C09_close_nonvacuous :
  s_trace ez_cl =
    [ECreate FDbMeta; EHeader FDbMeta; EGobDb 7; ESync FDbMeta; ESync (FSeg 0 1); ECreate (FSegMeta 0 1);
     EHeader (FSegMeta 0 1);
     EGobSeg 0 1 {| sm_full := false; sm_put := 2; sm_delrec := 0; sm_delkeys := 0; sm_delbytes := 0 |};
     ESync (FSegMeta 0 1); ECreate FIndexMeta; EHeader FIndexMeta;
     EGobIndex [{| sl_h := 0; sl_seg := 0; sl_ks := 1; sl_vs := 1; sl_off := 512 |};
                {| sl_h := 0; sl_seg := 0; sl_ks := 1; sl_vs := 1; sl_off := 524 |}];
     ESync FIndexMeta; ESync FMain; ESync FOverflow; ERemove FLock] /\
  let imgA := img_of (pl_exec ez_lostA fnone (s_disk pl_q0) (ez_events 3)) in
  let imgB := img_of (pl_exec ez_lostB fnone (s_disk pl_q0) (ez_events 12)) in
  (exists L, pl fnone (s_disk pl_q0) (ez_events 3) L imgA) /\
  (exists L, pl fnone (s_disk pl_q0) (ez_events 12) L imgB) /\
  (* half-written metadata files, the lock file still there *)
  d_dbmeta imgA = GPartial /\ d_lock imgA = true /\ abs imgA = [([1], [2])] /\
  d_imeta imgB = GPartial /\ d_lock imgB = true /\
  abs imgB = [([3], [4]); ([1], [2])] /\
  (* once Close has flushed the segment file, losing the append of [3] is not admissible *)
  pl_exec [Keep; Keep; Keep; Drop; Keep; Keep; Keep; Keep; Keep; Keep; Keep; Keep; Keep; Keep; Keep; Keep; Keep]
          fnone (s_disk pl_q0) (ez_events 12) = None.
Proof.
  split; [vm_compute; reflexivity|]. cbv zeta.
  split; [apply ez_image; vm_compute; reflexivity|]. split; [apply ez_image; vm_compute; reflexivity|].
  split; [vm_compute; reflexivity|]. split; [vm_compute; reflexivity|]. split; [vm_compute; reflexivity|].
  split; [vm_compute; reflexivity|]. split; [vm_compute; reflexivity|].
  split; vm_compute; reflexivity.
Qed.

(* the theorem applies to every admissible image at every point of this Close *)
Example C09_close_nonvacuous_recover :
  forall n cs, is_some (pl_exec cs fnone (s_disk pl_q0) (ez_events n)) = true ->
  let img := img_of (pl_exec cs fnone (s_disk pl_q0) (ez_events n)) in
  exists s2 b, db_open flat_ops ey_P 11 (closed img) = (s2, OOpened b) /\ Inv ey_P s2 /\ s_mem s2 <> None /\
    exists j, (j <= 1)%nat /\
      ceq (cont (s_disk s2)) (xspec_hist (firstn j [XOp (OpPut [3] [4])]) (cont (s_disk ey2))).
Proof.
  intros n cs Hcs img. destruct (ez_image n cs Hcs) as (L & Hpl). fold img in Hpl.
  assert (R0 : xrun ey_P (pl_q0, None) [XOp (OpPut [1] [2])] [(ey1, None)] (s_trace ey1 ++ []) (ey1, None)).
  { apply ey_run1. apply (ey_step _ _ _ _ ey_E1); vm_compute; reflexivity. }
  assert (R1 : xrun ey_P (ey2, None) [XOp (OpPut [3] [4])] [(ey3, None)] (s_trace ey3 ++ []) (ey3, None)).
  { apply ey_run1. apply (ey_step _ _ _ _ ey_E3); vm_compute; reflexivity. }
  destruct (C09_power_loss_during_close ey_P 11 (pl_q0, None) _ _ _ (ey1, None) (XOp OpSync) (ey2, None) _ _ _ ey3 None
              ez_cl OOk (firstn n (s_trace ez_cl)) (skipn n (s_trace ez_cl)) L img ey_params_ok
              (conj (pl_open0 ey_P) Logic.I) R0 ey_sync Logic.I R1 ez_Ecl (eq_sym (firstn_skipn n _)) Hpl)
    as (s2 & b & E2 & HI2 & Hm2 & Hj & _).
  exists s2, b. split; [exact E2|]. split; [exact HI2|]. split; [exact Hm2|exact Hj].
Qed.

(* ---- a history with Close and a clean re-Open between the Sync and the power failure ---- *)
Definition ez_o : st := Eval vm_compute in fst (db_open flat_ops ey_P 13 (closed (s_disk ez_cl))).
Definition ez5 : st := Eval vm_compute in run_op ey_P (OpPut [7] [8]) ez_o.
Lemma ez_Eo : db_open flat_ops ey_P 13 (closed (s_disk ez_cl)) = (ez_o, OOpened false). Proof. vm_compute. reflexivity. Qed.
Lemma ez_E5 : run_op ey_P (OpPut [7] [8]) ez_o = ez5. Proof. vm_compute. reflexivity. Qed.

Definition ez_mh : list mitem := [MOps [XOp (OpPut [3] [4])]; MClose].
Definition ez_K : list chunk := [CE (s_trace ey3 ++ []); CE (s_trace ez_cl); CE (s_trace ez_o)].
Definition ez_hist : list chunk := ey_K0 ++ CE (s_trace ey2) :: ez_K ++ [CE (s_trace ez5 ++ [])].

Lemma ez_mrun : mrun ey_P (ey2, None) ez_mh ez_K (ez_o, None).
Proof.
  eapply mr_ops; [apply ey_run1; apply (ey_step _ _ _ _ ey_E3); vm_compute; reflexivity|].
  apply (mr_close ey_P (ey3, None) ez_cl 13 ez_o [] [] (ez_o, None) ez_Ecl ez_Eo). apply mr_nil.
Qed.

Example C06_with_close_nonvacuous :
  s_trace ez_o = [ECreate FLock] /\
  hdur2 None ez_hist = Some (Some (0, 1)) /\
  forall hs, is_some (plh_exec hs fnone (s_disk pl_q0) ez_hist) = true ->
  let img := img_of (plh_exec hs fnone (s_disk pl_q0) ez_hist) in
  exists s2, db_open flat_ops ey_P 11 (closed img) = (s2, OOpened true) /\ Inv ey_P s2 /\ s_mem s2 <> None /\
    after (cont (s_disk ey2)) (ez_mh ++ [MOps [XOp (OpPut [7] [8])]]) (cont (s_disk s2)).
Proof.
  split; [vm_compute; reflexivity|]. split; [vm_compute; reflexivity|]. intros hs Hhs img.
  assert (Hpl : exists L, plh fnone (s_disk pl_q0) ez_hist L img).
  { unfold img. destruct (plh_exec hs fnone (s_disk pl_q0) ez_hist) as [[L im]|] eqn:E; [|discriminate Hhs].
    exists L. apply (plh_exec_sound hs). exact E. }
  destruct Hpl as (L & Hpl).
  assert (Rl : xrun ey_P (ez_o, None) [XOp (OpPut [7] [8])] [(ez5, None)] (s_trace ez5 ++ []) (ez5, None)).
  { apply ey_run1. apply (ey_step _ _ _ _ ez_E5); vm_compute; reflexivity. }
  apply (C06_with_recovery_last_epoch ey_P 11 (pl_q0, None) ey_mh0 ey_K0 (ey1, None) (XOp OpSync) (ey2, None)
           ez_mh ez_K (ez_o, None) _ _ _ (ez5, None) (s_trace ez5 ++ []) [] L img ey_params_ok
           (conj (pl_open0 ey_P) Logic.I) ey_mrun0 ey_sync Logic.I ez_mrun Rl (eq_sym (app_nil_r _)) Hpl).
Qed.

(* ---- C09 after a history of several epochs: the complete Close is a durable checkpoint ---- *)
Theorem C09_reopen_epochs P seed cf0 mh K (s : st) c (m : mem) s1 o L' img' :
  params_ok P -> XOpen P cf0 -> mrun P cf0 mh K (s, c) -> s_mem s = Some m ->
  db_close flat_ops (clear_trace s) = (s1, o) ->
  plh fnone (s_disk (fst cf0)) (K ++ [CE (s_trace s1)]) L' img' ->
  (* every admissible image of the whole history is the closed directory itself (up to the bookkeeping list
     of orphaned side files, which no clean Open reads) ... *)
  img' = set_orphans (s_disk s1) (d_orphans img') /\ d_lock img' = false /\
  (* ... hence the next Open is a clean one and finds exactly the closed contents *)
  exists s2, db_open flat_ops P seed (closed img') = (s2, OOpened false) /\ Inv P s2 /\ s_mem s2 <> None /\
    ceq (cont (s_disk s2)) (cont (s_disk s)).
Proof.
  intros HP HX0 Hr Em Ec Hpl.
  destruct (mrun_main P _ _ _ _ HP Hr None HX0 (open_DurS_None P cf0 HX0)) as ([(HI & _ & _) _] & Ed & _). cbn [fst] in HI, Ed.
  destruct (close_cl_run (clear_trace s) m Em) as (es & T & D & Hcov). rewrite Ec in T, D. cbn [fst clear_trace s_trace s_disk app] in T, D.
  assert (HA : Agree L' (s_disk s1) img').
  { rewrite D, Ed. replace (run_evs es (hrun K (s_disk (fst cf0)))) with (hrun (K ++ [CE es]) (s_disk (fst cf0))) by (rewrite hrun_app; reflexivity).
    rewrite <- T. apply (plh_agree _ _ _ _ _ Hpl). apply Agree_refl. }
  destruct (plh_app_inv _ _ _ _ _ _ Hpl) as (L1 & img1 & _ & Hpl2). apply plh_one_inv in Hpl2. rewrite T in Hpl2.
  assert (HL : forall f, CloseF (m_segs m) f -> L' f = false).
  { intros f Hf. apply (pl_clr _ _ _ _ _ Hpl2 f false); [discriminate|apply Hcov; exact Hf]. }
  destruct (close_reopen_master P 0 (clear_trace s) m (Inv_clear P s HI) Em)
    as (s1' & _ & _ & Ec' & _ & _ & _ & _ & _ & _ & _ & _ & _ & _ & Hsegs & _).
  rewrite Ec in Ec'. inversion Ec'; subst s1' o.
  destruct (rc_close_char (clear_trace s) m Em) as (s1' & Ec'' & _ & _ & _ & _ & _ & _ & _ & El & _).
  rewrite Ec in Ec''. inversion Ec''; subst s1'.
  destruct HA as (A1 & A2 & A3 & A4 & A5 & A6 & A7).
  assert (B1 : d_segs img' = d_segs (s_disk s1)).
  { apply (agree_segs_eq L' _ _ A1). intros f Hf. destruct (Hsegs f Hf) as (g & Hg & E1 & E2 & _).
    rewrite E1, E2. split; apply HL; unfold CloseF; do 4 right; exists g; split; auto. }
  assert (B2 : d_index img' = d_index (s_disk s1)) by (apply A2; apply HL; unfold CloseF; tauto).
  assert (B4 : d_imeta img' = d_imeta (s_disk s1)) by (apply A4; apply HL; unfold CloseF; tauto).
  assert (B5 : d_dbmeta img' = d_dbmeta (s_disk s1)) by (apply A5; apply HL; unfold CloseF; tauto).
  assert (Eimg : img' = set_orphans (s_disk s1) (d_orphans img')) by (apply disk_eq_orph; assumption).
  split; [exact Eimg|]. split; [congruence|].
  pose proof (close_reopen_ok_nometa P seed (clear_trace s) m HP (Inv_clear P s HI) Em) as H.
  pose proof (close_ok P (clear_trace s) m (Inv_clear P s HI) Em) as Hc.
  rewrite Ec in H, Hc. destruct Hc as (_ & Hm1 & _ & _ & Hl1 & _).
  assert (E : clear_trace s1 = closed (s_disk s1)) by (unfold clear_trace, closed; rewrite Hm1; reflexivity).
  rewrite E in H. rewrite Eimg, (db_open_orph P seed _ _ Hl1).
  destruct (db_open flat_ops P seed (closed (s_disk s1))) as [s2 o2]. cbn [fst snd].
  destruct H as (-> & HI2 & Ha2 & m2 & Em2 & _).
  exists (osim (d_orphans img') s2). split; [reflexivity|]. split; [apply Inv_osim; exact HI2|].
  split; [cbn [osim s_mem]; congruence|exact Ha2].
Qed.

(* ================================================================================================ *)
Print Assumptions dur_dur2.
Print Assumptions pl_dur2.
Print Assumptions frozen2.
Print Assumptions pl_reduce2.
Print Assumptions plh_agree.
Print Assumptions plh_dur2.
Print Assumptions plh_reduce.
Print Assumptions plh_exec_sound.
Print Assumptions pl_plh.
Print Assumptions plh_pl.
Print Assumptions Jd_run.
Print Assumptions Jd_accept.
Print Assumptions open_wtr_y.
Print Assumptions open_dur2.
Print Assumptions xstep_wtr.
Print Assumptions close_dur2.
Print Assumptions clean_open_dur2.
Print Assumptions cutof_crash_image.
Print Assumptions crash_image_cutof.
Print Assumptions rrun_ok.
Print Assumptions crash_trans.
Print Assumptions mrun_main.
Print Assumptions C06_with_recovery.
Print Assumptions C06_with_recovery_per_key.
Print Assumptions C06_with_recovery_last_epoch.
Print Assumptions C06_power_loss_during_recovery.
Print Assumptions C09_power_loss_during_close.
Print Assumptions C09_reopen_epochs.
Print Assumptions C06_with_recovery_nonvacuous.
Print Assumptions C06_with_recovery_nonvacuous_recover.
Print Assumptions C06_with_recovery_nonvacuous_key1.
Print Assumptions C09_close_nonvacuous.
Print Assumptions C09_close_nonvacuous_recover.
Print Assumptions C06_with_close_nonvacuous.
