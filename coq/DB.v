(* DB.v -- executable model of the pogreb database: write-ahead log segments, index (through the
   [idx_ops] interface), metadata, the file-system events every operation issues, compaction as
   micro-steps, clean close / open, recovery, backup.  It follows the code of /repo as it is NOW
   (db.go, datalog.go, segment.go, compaction.go, recovery.go, backup.go, file.go, gobfile.go).
   Definitions only: the theorems are in the *Proofs.v files, so that the model still runs when a
   proof breaks.

   Conventions: every machine integer is an N; narrowing casts are written (u16, u32).
   The disk changes ONLY through [emit]; an operation's events are exactly what it asked of the
   file system, in order, so crash images are prefixes of the trace (Crash.v). *)
From Pogreb Require Import Base Crc Bytes Record.

(* ------------------------------------------------------------------------------------------ *)
(* Parameters: everything the properties quantify over is an arbitrary function here.          *)
Record params := {
  p_maxseg : N;                 (* opts.maxSegmentSize *)
  p_minseg : N;                 (* opts.compactionMinSegmentSize *)
  p_frag : N -> N -> bool;      (* deletedBytes size -> "fragmentation >= compactionMinFragmentation" *)
  p_sync : bool;                (* BackgroundSyncInterval == -1 *)
  p_grow : N -> N -> bool;      (* numKeys numBuckets -> load factor exceeded *)
  p_hash : N -> key -> N;       (* seed -> key -> 32-bit hash *)
}.

(* ------------------------------------------------------------------------------------------ *)
(* Files.                                                                                      *)
Inductive fname :=
| FSeg (id seq : N)             (* %05d-%d.psg *)
| FSegMeta (id seq : N)         (* %05d-%d.psg.pmt *)
| FMain | FOverflow | FIndexMeta | FDbMeta | FLock
| FBac (f : fname).             (* f ++ ".bac" *)

Fixpoint fname_eqb (a b : fname) : bool :=
  match a, b with
  | FSeg i s, FSeg j t => (i =? j) && (s =? t)
  | FSegMeta i s, FSegMeta j t => (i =? j) && (s =? t)
  | FMain, FMain | FOverflow, FOverflow | FIndexMeta, FIndexMeta
  | FDbMeta, FDbMeta | FLock, FLock => true
  | FBac f, FBac g => fname_eqb f g
  | _, _ => false
  end.

(* The file names as byte strings, and the order in which ReadDir lists them. *)
Fixpoint digits_fuel (fuel : nat) (n : N) (acc : bytes) : bytes :=
  match fuel with
  | O => acc
  | S f => let acc' := (48 + n mod 10) :: acc in
           if n / 10 =? 0 then acc' else digits_fuel f (n / 10) acc'
  end.
Definition decimal (n : N) : bytes := digits_fuel 20 n [].     (* %d for n < 10^20 *)
Definition pad5 (l : bytes) : bytes := repeat 48 (5 - length l) ++ l.     (* %05d *)
Definition ext_psg : bytes := [46; 112; 115; 103].
Definition ext_pmt : bytes := [46; 112; 109; 116].
Definition ext_pix : bytes := [46; 112; 105; 120].
Definition ext_bac : bytes := [46; 98; 97; 99].
Fixpoint name_str (f : fname) : bytes :=
  match f with
  | FSeg i s => pad5 (decimal i) ++ [45] ++ decimal s ++ ext_psg
  | FSegMeta i s => pad5 (decimal i) ++ [45] ++ decimal s ++ ext_psg ++ ext_pmt
  | FMain => [109; 97; 105; 110] ++ ext_pix
  | FOverflow => [111; 118; 101; 114; 102; 108; 111; 119] ++ ext_pix
  | FIndexMeta => [105; 110; 100; 101; 120] ++ ext_pmt
  | FDbMeta => [100; 98] ++ ext_pmt
  | FLock => [108; 111; 99; 107]
  | FBac g => name_str g ++ ext_bac
  end.
Fixpoint lex_ltb (a b : bytes) : bool :=
  match a, b with
  | _, [] => false
  | [], _ :: _ => true
  | x :: a', y :: b' => if x <? y then true else if y <? x then false else lex_ltb a' b'
  end.
Fixpoint insert_name (f : fname) (l : list fname) : list fname :=
  match l with
  | [] => [f]
  | g :: l' => if lex_ltb (name_str f) (name_str g) then f :: l else g :: insert_name f l'
  end.
Definition sort_names (l : list fname) : list fname := fold_right insert_name [] l.

(* segmentMeta *)
Record smeta := { sm_full : bool; sm_put : N; sm_delrec : N; sm_delkeys : N; sm_delbytes : N }.
Definition smeta0 : smeta :=
  {| sm_full := false; sm_put := 0; sm_delrec := 0; sm_delkeys := 0; sm_delbytes := 0 |}.

(* content of a gob-encoded metadata file *)
Inductive gob (A : Type) := GAbsent | GPartial | GOk (a : A).
Arguments GAbsent {A}. Arguments GPartial {A}. Arguments GOk {A}.
Definition gob_present {A} (g : gob A) : bool := match g with GAbsent => false | _ => true end.

(* a segment file and its side file *)
Record dseg := {
  f_id : N; f_seq : N;
  f_hdr : bool;                 (* false: the file exists with length 0 *)
  f_recs : list rec;            (* complete records, in file order *)
  f_tail : bytes;               (* whatever bytes follow them (torn write, garbage) *)
  f_meta : gob smeta;           (* the .psg.pmt side file *)
}.

Section WithIndex.
Context {I : Type}.
Variable ops : idx_ops I.
Variable P : params.

Record disk := {
  d_segs : list dseg;           (* in creation order *)
  d_orphans : list (N * N);     (* .psg.pmt side files whose segment file is gone *)
  d_index : option I;           (* main.pix (present iff Some) and the buckets the index files hold *)
  d_overflow : bool;            (* overflow.pix is present *)
  d_imeta : gob I;              (* index.pmt: the counters of this index value *)
  d_dbmeta : gob N;             (* db.pmt: hash seed *)
  d_lock : bool;
  d_bac : list fname;           (* *.bac files (names only; nothing ever reads them) *)
}.

Definition disk0 : disk :=
  {| d_segs := []; d_orphans := []; d_index := None; d_overflow := false; d_imeta := GAbsent;
     d_dbmeta := GAbsent; d_lock := false; d_bac := [] |}.

(* File-system events. Payloads are kept so that [apply_ev] is a function of the event alone. *)
Inductive fsev :=
| ECreate (f : fname)
| EHeader (f : fname)                       (* WriteAt(header, 0) on a new file *)
| EAppend (id seq off : N) (r : rec)        (* WriteAt(encode r, off) on a segment *)
| EIndex (i : I)                            (* bucket writes / extends of main.pix, overflow.pix *)
| EGobSeg (id seq : N) (m : smeta)          (* body of a segment meta file *)
| EGobIndex (i : I)
| EGobDb (seed : N)
| ETrunc (f : fname) (n : N)
| ERename (f g : fname)
| ERemove (f : fname)
| ESync (f : fname).

(* ---- directory listing ------------------------------------------------------------------- *)
Definition seg_names (d : disk) : list fname :=
  concat (map (fun s => FSeg (f_id s) (f_seq s) ::
                        (if gob_present (f_meta s) then [FSegMeta (f_id s) (f_seq s)] else []))
              (d_segs d)).
Definition dir (d : disk) : list fname :=
  seg_names d ++ map (fun p => FSegMeta (fst p) (snd p)) (d_orphans d) ++
  (match d_index d with Some _ => [FMain] | None => [] end) ++
  (if d_overflow d then [FOverflow] else []) ++
  (if gob_present (d_imeta d) then [FIndexMeta] else []) ++
  (if gob_present (d_dbmeta d) then [FDbMeta] else []) ++
  (if d_lock d then [FLock] else []) ++ d_bac d.
Definition exists_file (d : disk) (f : fname) : bool := existsb (fname_eqb f) (dir d).

(* ---- applying one event to the disk ------------------------------------------------------- *)
Definition is_seg (id seq : N) (s : dseg) : bool := (f_id s =? id) && (f_seq s =? seq).

Definition upd_seg (id seq : N) (g : dseg -> dseg) (d : disk) : disk :=
  {| d_segs := map (fun s => if is_seg id seq s then g s else s) (d_segs d);
     d_orphans := d_orphans d; d_index := d_index d; d_overflow := d_overflow d; d_imeta := d_imeta d;
     d_dbmeta := d_dbmeta d; d_lock := d_lock d; d_bac := d_bac d |}.

Definition set_segs (d : disk) (l : list dseg) : disk :=
  {| d_segs := l; d_orphans := d_orphans d; d_index := d_index d; d_overflow := d_overflow d; d_imeta := d_imeta d;
     d_dbmeta := d_dbmeta d; d_lock := d_lock d; d_bac := d_bac d |}.
Definition set_orphans (d : disk) (l : list (N * N)) : disk :=
  {| d_segs := d_segs d; d_orphans := l; d_index := d_index d; d_overflow := d_overflow d; d_imeta := d_imeta d;
     d_dbmeta := d_dbmeta d; d_lock := d_lock d; d_bac := d_bac d |}.
Definition set_index (d : disk) (i : option I) : disk :=
  {| d_segs := d_segs d; d_orphans := d_orphans d; d_index := i; d_overflow := d_overflow d; d_imeta := d_imeta d;
     d_dbmeta := d_dbmeta d; d_lock := d_lock d; d_bac := d_bac d |}.
Definition set_overflow (d : disk) (b : bool) : disk :=
  {| d_segs := d_segs d; d_orphans := d_orphans d; d_index := d_index d; d_overflow := b;
     d_imeta := d_imeta d; d_dbmeta := d_dbmeta d; d_lock := d_lock d; d_bac := d_bac d |}.
Definition set_imeta (d : disk) (g : gob I) : disk :=
  {| d_segs := d_segs d; d_orphans := d_orphans d; d_index := d_index d; d_overflow := d_overflow d; d_imeta := g;
     d_dbmeta := d_dbmeta d; d_lock := d_lock d; d_bac := d_bac d |}.
Definition set_dbmeta (d : disk) (g : gob N) : disk :=
  {| d_segs := d_segs d; d_orphans := d_orphans d; d_index := d_index d; d_overflow := d_overflow d; d_imeta := d_imeta d;
     d_dbmeta := g; d_lock := d_lock d; d_bac := d_bac d |}.
Definition set_lock (d : disk) (b : bool) : disk :=
  {| d_segs := d_segs d; d_orphans := d_orphans d; d_index := d_index d; d_overflow := d_overflow d; d_imeta := d_imeta d;
     d_dbmeta := d_dbmeta d; d_lock := b; d_bac := d_bac d |}.
Definition set_bac (d : disk) (l : list fname) : disk :=
  {| d_segs := d_segs d; d_orphans := d_orphans d; d_index := d_index d; d_overflow := d_overflow d; d_imeta := d_imeta d;
     d_dbmeta := d_dbmeta d; d_lock := d_lock d; d_bac := l |}.

Definition set_fmeta (g : gob smeta) (s : dseg) : dseg :=
  {| f_id := f_id s; f_seq := f_seq s; f_hdr := f_hdr s; f_recs := f_recs s;
     f_tail := f_tail s; f_meta := g |}.

(* byte length of a segment file *)
Definition recs_len (rs : list rec) : N := fold_right (fun r n => rsize r + n) 0 rs.
Definition flen (s : dseg) : N :=
  if f_hdr s then header_size + recs_len (f_recs s) + nlen (f_tail s) else 0.

(* records of a segment file with their offsets *)
Fixpoint with_offsets (off : N) (rs : list rec) : list (N * rec) :=
  match rs with [] => [] | r :: rs' => (off, r) :: with_offsets (off + rsize r) rs' end.
Definition seg_entries (s : dseg) : list (N * rec) := with_offsets header_size (f_recs s).

(* Truncate(n) of a segment file: keep the records that end at or before n. (Recovery only
   truncates at a record boundary; anything else leaves the cut record's bytes as tail.) *)
Fixpoint trunc_recs (off n : N) (rs : list rec) : list rec * N :=
  match rs with
  | [] => ([], off)
  | r :: rs' => if off + rsize r <=? n
                then let '(l, e) := trunc_recs (off + rsize r) n rs' in (r :: l, e)
                else ([], off)
  end.
Definition file_bytes_from (rs : list rec) (tail : bytes) : bytes :=
  concat (map encode_rec rs) ++ tail.
Definition trunc_seg (n : N) (s : dseg) : dseg :=
  if negb (f_hdr s) then s else
  let '(keep, e) := trunc_recs header_size n (f_recs s) in
  let rest := file_bytes_from (skipn (length keep) (f_recs s)) (f_tail s) in
  {| f_id := f_id s; f_seq := f_seq s; f_hdr := true; f_recs := keep;
     f_tail := ntake (n - e) rest; f_meta := f_meta s |}.

Definition append_seg (off : N) (r : rec) (s : dseg) : dseg :=
  (* WriteAt at the end of the file; the model's operations never write anywhere else
     (DBProofs: the append offset equals the file length in every reachable state). *)
  {| f_id := f_id s; f_seq := f_seq s; f_hdr := f_hdr s; f_recs := f_recs s ++ [r];
     f_tail := f_tail s; f_meta := f_meta s |}.

Fixpoint remove_name (f : fname) (l : list fname) : list fname :=
  match l with [] => [] | g :: l' => if fname_eqb f g then l' else g :: remove_name f l' end.

Definition file_removed (f : fname) (d : disk) : disk :=
  match f with
  | FSeg id seq =>
      let gone := filter (is_seg id seq) (d_segs d) in
      let orph := concat (map (fun s => if gob_present (f_meta s) then [(f_id s, f_seq s)] else []) gone) in
      set_orphans (set_segs d (filter (fun s => negb (is_seg id seq s)) (d_segs d))) (d_orphans d ++ orph)
  | FSegMeta id seq =>
      set_orphans (upd_seg id seq (set_fmeta GAbsent) d)
                  (filter (fun p => negb ((fst p =? id) && (snd p =? seq))) (d_orphans d))
  | FMain => set_index d None
  | FOverflow => set_overflow d false
  | FIndexMeta => set_imeta d GAbsent
  | FDbMeta => set_dbmeta d GAbsent
  | FLock => set_lock d false
  | FBac _ => set_bac d (remove_name f (d_bac d))
  end.

Definition apply_ev (d : disk) (e : fsev) : disk :=
  match e with
  | ECreate (FSeg id seq) =>
      set_segs d (d_segs d ++ [{| f_id := id; f_seq := seq; f_hdr := false; f_recs := [];
                                  f_tail := []; f_meta := GAbsent |}])
  | ECreate (FSegMeta id seq) => upd_seg id seq (set_fmeta GPartial) d
  | ECreate FMain => set_index d (Some (ix_empty ops))
  | ECreate FOverflow => set_overflow d true
  | ECreate FIndexMeta => set_imeta d GPartial
  | ECreate FDbMeta => set_dbmeta d GPartial
  | ECreate FLock => set_lock d true
  | ECreate (FBac f) => set_bac d (d_bac d ++ [FBac f])
  | EHeader (FSeg id seq) =>
      upd_seg id seq (fun s => {| f_id := f_id s; f_seq := f_seq s; f_hdr := true;
                                  f_recs := f_recs s; f_tail := f_tail s; f_meta := f_meta s |}) d
  | EHeader _ => d
  | EAppend id seq off r => upd_seg id seq (append_seg off r) d
  | EIndex i => set_index d (Some i)
  | EGobSeg id seq m => upd_seg id seq (set_fmeta (GOk m)) d
  | EGobIndex i => set_imeta d (GOk i)
  | EGobDb s => set_dbmeta d (GOk s)
  | ETrunc (FSeg id seq) n => upd_seg id seq (trunc_seg n) d
  | ETrunc (FSegMeta id seq) _ => upd_seg id seq (set_fmeta GPartial) d
  | ETrunc FIndexMeta _ => set_imeta d GPartial
  | ETrunc FDbMeta _ => set_dbmeta d GPartial
  | ETrunc _ _ => d                         (* extend of main.pix / overflow.pix: see EIndex *)
  | ERename f g =>
      (* only recovery renames: name -> name.bac *)
      (* an existing target is replaced *)
      set_bac (file_removed f d) (remove_name g (d_bac (file_removed f d)) ++ [g])
  | ERemove f => file_removed f d
  | ESync _ => d                            (* durability is tracked in PowerLoss.v *)
  end.

(* ------------------------------------------------------------------------------------------ *)
(* In-memory state.                                                                            *)
Record mseg := { g_id : N; g_seq : N; g_size : N; g_meta : smeta }.   (* segment struct *)

Record mem := {
  m_segs : list mseg;           (* dl.segments, in id order *)
  m_cur : N * N;                (* dl.curSeg: id, sequence id *)
  m_cur_removed : bool;         (* curSeg was removed by compaction (its struct says Full) *)
  m_maxseq : N;
  m_idx : I;
  m_seed : N;
}.

Record st := {
  s_mem : option mem;           (* None: no open handle *)
  s_disk : disk;
  s_trace : list fsev;          (* events of the operation in progress, oldest first *)
}.

Definition emit (e : fsev) (s : st) : st :=
  {| s_mem := s_mem s; s_disk := apply_ev (s_disk s) e; s_trace := s_trace s ++ [e] |}.
Definition emits (es : list fsev) (s : st) : st := fold_left (fun s e => emit e s) es s.
Definition with_mem (m : mem) (s : st) : st :=
  {| s_mem := Some m; s_disk := s_disk s; s_trace := s_trace s |}.
Definition clear_trace (s : st) : st :=
  {| s_mem := s_mem s; s_disk := s_disk s; s_trace := [] |}.

Definition set_msegs (m : mem) (l : list mseg) : mem :=
  {| m_segs := l; m_cur := m_cur m; m_cur_removed := m_cur_removed m; m_maxseq := m_maxseq m;
     m_idx := m_idx m; m_seed := m_seed m |}.
Definition set_idx (m : mem) (i : I) : mem :=
  {| m_segs := m_segs m; m_cur := m_cur m; m_cur_removed := m_cur_removed m;
     m_maxseq := m_maxseq m; m_idx := i; m_seed := m_seed m |}.
Definition set_cur (m : mem) (c : N * N) (removed : bool) : mem :=
  {| m_segs := m_segs m; m_cur := c; m_cur_removed := removed; m_maxseq := m_maxseq m;
     m_idx := m_idx m; m_seed := m_seed m |}.
Definition set_maxseq (m : mem) (n : N) : mem :=
  {| m_segs := m_segs m; m_cur := m_cur m; m_cur_removed := m_cur_removed m; m_maxseq := n;
     m_idx := m_idx m; m_seed := m_seed m |}.

Definition set_gmeta (g : mseg) (m : smeta) : mseg :=
  {| g_id := g_id g; g_seq := g_seq g; g_size := g_size g; g_meta := m |}.
Definition set_gsize (g : mseg) (n : N) : mseg :=
  {| g_id := g_id g; g_seq := g_seq g; g_size := n; g_meta := g_meta g |}.
Definition set_full (m : smeta) : smeta :=
  {| sm_full := true; sm_put := sm_put m; sm_delrec := sm_delrec m;
     sm_delkeys := sm_delkeys m; sm_delbytes := sm_delbytes m |}.

Definition find_mseg (id : N) (l : list mseg) : option mseg := find (fun g => g_id g =? id) l.
Definition upd_mseg (id : N) (f : mseg -> mseg) (l : list mseg) : list mseg :=
  map (fun g => if g_id g =? id then f g else g) l.
Fixpoint insert_mseg (g : mseg) (l : list mseg) : list mseg :=    (* keep id order *)
  match l with
  | [] => [g]
  | x :: l' => if g_id g <? g_id x then g :: l else x :: insert_mseg g l'
  end.

Definition find_dseg (id : N) (d : disk) : option dseg := find (fun s => f_id s =? id) (d_segs d).

(* ---- results ------------------------------------------------------------------------------- *)
Inductive err := EKeyTooLarge | EValueTooLarge | EClosed | ELocked | EOpenFailed.
Inductive out :=
| OOk
| OErr (e : err)
| OVal (v : option val)
| OBool (b : bool)
| ONum (n : N)
| OItems (l : list (key * val))
| OCompact (segs recs nbytes : N)
| OOpened (recovered : bool)
| OBroken (why : N).     (* the model left the states the code can be in; excluded by DBInv *)

(* ---- reading the log ----------------------------------------------------------------------- *)
Fixpoint rec_at (off : N) (es : list (N * rec)) : option rec :=
  match es with
  | [] => None
  | (o, r) :: es' => if o =? off then Some r else rec_at off es'
  end.

(* datalog.readKey / readKeyValue: Slice(off+6, off+6+keySize(+valueSize)) *)
Definition read_kv (d : disk) (sl : slot) : option (key * val) :=
  match find_dseg (sl_seg sl) d with
  | None => None
  | Some s =>
    match rec_at (sl_off sl) (seg_entries s) with
    | None => None
    | Some r => let kv := rk r ++ rv r in
                Some (ntake (sl_ks sl) kv, ntake (sl_vs sl) (ndrop (sl_ks sl) kv))
    end
  end.

(* the matchKey callbacks of Get/Has/put/del *)
Definition matchf (d : disk) (k : key) (sl : slot) : bool :=
  (u16 (nlen k) =? sl_ks sl) &&
  match read_kv d sl with Some (k', _) => key_eqb k k' | None => false end.

(* datalog.trackDel *)
Definition track_del (sl : slot) (m : mem) : mem :=
  set_msegs m (upd_mseg (sl_seg sl)
    (fun g => set_gmeta g
      {| sm_full := sm_full (g_meta g); sm_put := sm_put (g_meta g); sm_delrec := sm_delrec (g_meta g);
         sm_delkeys := u32 (sm_delkeys (g_meta g) + 1);
         sm_delbytes := u32 (sm_delbytes (g_meta g) + u32 (rec_overhead + u32 (sl_ks sl + sl_vs sl))) |})
    (m_segs m)).

(* ---- datalog.writeRecord -------------------------------------------------------------------- *)
Definition cur_seg (m : mem) : option mseg :=
  if m_cur_removed m then None
  else match find_mseg (fst (m_cur m)) (m_segs m) with
       | Some g => if g_seq g =? snd (m_cur m) then Some g else None
       | None => None
       end.

(* sealSegment *)
Definition seal (id : N) (s : st) (m : mem) : st * mem :=
  match find_mseg id (m_segs m) with
  | Some g => if sm_full (g_meta g) then (s, m)
              else (emit (ESync (FSeg (g_id g) (g_seq g))) s,
                    set_msegs m (upd_mseg id (fun g => set_gmeta g (set_full (g_meta g))) (m_segs m)))
  | None => (s, m)
  end.

Fixpoint lowest_free (n : N) (l : list mseg) : N :=     (* l in id order *)
  match l with
  | [] => n
  | g :: l' => if g_id g =? n then lowest_free (n + 1) l' else n
  end.

(* swapSegment *)
Definition swap_segment (s : st) (m : mem) : st * mem :=
  match find (fun g => negb (sm_full (g_meta g))) (m_segs m) with
  | Some g => (s, set_cur m (g_id g, g_seq g) false)
  | None =>
      let id := lowest_free 0 (m_segs m) in
      let seq := m_maxseq m + 1 in
      let s1 := emits [ECreate (FSeg id seq); EHeader (FSeg id seq)] s in
      let g := {| g_id := id; g_seq := seq; g_size := header_size; g_meta := smeta0 |} in
      (s1, set_cur (set_maxseq (set_msegs m (insert_mseg g (m_segs m))) seq) (id, seq) false)
  end.

Definition count_rec (r : rec) (sm : smeta) : smeta :=
  if rdel r
  then {| sm_full := sm_full sm; sm_put := sm_put sm; sm_delrec := u32 (sm_delrec sm + 1);
          sm_delkeys := sm_delkeys sm; sm_delbytes := sm_delbytes sm |}
  else {| sm_full := sm_full sm; sm_put := u32 (sm_put sm + 1); sm_delrec := sm_delrec sm;
          sm_delkeys := sm_delkeys sm; sm_delbytes := sm_delbytes sm |}.

(* returns the state and (segment id, uint32 offset); None = the model is out of its domain *)
Definition write_record (r : rec) (s : st) (m : mem) : option (st * mem * N * N) :=
  let need_swap := match cur_seg m with
                   | None => true
                   | Some g => sm_full (g_meta g) || (p_maxseg P <? g_size g + rsize r)
                   end in
  let '(s1, m1) :=
    if need_swap
    then let '(s0, m0) := match cur_seg m with
                          | Some g => seal (g_id g) s m
                          | None => (s, m)
                          end in
         swap_segment s0 m0
    else (s, m) in
  match cur_seg m1 with
  | None => None
  | Some g =>
    match find_dseg (g_id g) (s_disk s1) with
    | None => None
    | Some f =>
      if negb ((f_seq f =? g_seq g) && (flen f =? g_size g)) then None
      else
        let off := g_size g in
        let s2 := emit (EAppend (g_id g) (g_seq g) off r) s1 in
        let m2 := set_msegs m1 (upd_mseg (g_id g)
                    (fun g => set_gmeta (set_gsize g (off + rsize r)) (count_rec r (g_meta g)))
                    (m_segs m1)) in
        Some (s2, m2, g_id g, u32 off)
    end
  end.

(* ---- datalog.sync / db.sync ------------------------------------------------------------------ *)
Definition do_sync (s : st) (m : mem) : st :=
  match cur_seg m with
  | Some g => emit (ESync (FSeg (g_id g) (g_seq g))) s
  | None => s                     (* the current segment was removed by compaction *)
  end.

Definition finish (s : st) (m : mem) : st * out :=
  let s' := if p_sync P then do_sync s m else s in
  (with_mem m s', OOk).

(* ---- Put -------------------------------------------------------------------------------------- *)
Definition db_put (k : key) (v : val) (s : st) : st * out :=
  match s_mem s with
  | None => (s, OErr EClosed)
  | Some m =>
    if max_key_len <? nlen k then (s, OErr EKeyTooLarge)
    else if max_val_len <? nlen v then (s, OErr EValueTooLarge)
    else
      let h := p_hash P (m_seed m) k in
      match write_record (mkput k v) s m with
      | None => (s, OBroken 1)
      | Some (s1, m1, id, off) =>
        let sl := {| sl_h := h; sl_seg := id; sl_ks := u16 (nlen k); sl_vs := u32 (nlen v);
                     sl_off := off |} in
        let '(i2, old) := ix_put ops (p_grow P) (m_idx m1) sl (matchf (s_disk s1) k) in
        let m2 := match old with Some o => track_del o m1 | None => m1 end in
        let s2 := emit (EIndex i2) s1 in
        finish s2 (set_idx m2 i2)
      end
  end.

(* ---- Delete ----------------------------------------------------------------------------------- *)
Definition add_delbytes (id n : N) (m : mem) : mem :=
  set_msegs m (upd_mseg id
    (fun g => set_gmeta g
      {| sm_full := sm_full (g_meta g); sm_put := sm_put (g_meta g); sm_delrec := sm_delrec (g_meta g);
         sm_delkeys := sm_delkeys (g_meta g); sm_delbytes := u32 (sm_delbytes (g_meta g) + n) |})
    (m_segs m)).

Definition db_delete (k : key) (s : st) : st * out :=
  match s_mem s with
  | None => (s, OErr EClosed)
  | Some m =>
    let h := p_hash P (m_seed m) k in
    let '(i1, old) := ix_del ops (m_idx m) h (matchf (s_disk s) k) in
    match old with
    | None => finish s m
    | Some o =>
      let m0 := track_del o m in
      match write_record (mkdel k) s m0 with
      | None => (s, OBroken 2)
      | Some (s1, m1, id, _) =>
        let m2 := add_delbytes id (u32 (rsize (mkdel k))) m1 in
        let s2 := emit (EIndex i1) s1 in
        finish s2 (set_idx m2 i1)
      end
    end
  end.

(* ---- reads ------------------------------------------------------------------------------------- *)
Definition db_get (k : key) (s : st) : out :=
  match s_mem s with
  | None => OErr EClosed
  | Some m =>
    match ix_get ops (m_idx m) (p_hash P (m_seed m) k) (matchf (s_disk s) k) with
    | None => OVal None
    | Some sl => match read_kv (s_disk s) sl with
                 | Some (_, v) => OVal (Some v)
                 | None => OBroken 3
                 end
    end
  end.

Definition db_get_append (k : key) (buf : bytes) (s : st) : out :=
  match db_get k s with
  | OVal (Some v) => OVal (Some (buf ++ v))
  | o => o
  end.

Definition db_has (k : key) (s : st) : out :=
  match s_mem s with
  | None => OErr EClosed
  | Some m =>
    match ix_get ops (m_idx m) (p_hash P (m_seed m) k) (matchf (s_disk s) k) with
    | None => OBool false
    | Some _ => OBool true
    end
  end.

Definition db_count (s : st) : out :=
  match s_mem s with
  | None => OErr EClosed
  | Some m => ONum (ix_count ops (m_idx m))
  end.

(* ItemIterator: bucket n is drained in one critical section (fetchItems) *)
Fixpoint read_slots (d : disk) (l : list slot) : option (list (key * val)) :=
  match l with
  | [] => Some []
  | sl :: l' => match read_kv d sl, read_slots d l' with
                | Some kv, Some r => Some (kv :: r)
                | _, _ => None
                end
  end.

Definition fetch_bucket (s : st) (n : N) : option (list (key * val)) :=
  match s_mem s with
  | None => None
  | Some m => read_slots (s_disk s) (ix_bucket ops (m_idx m) n)
  end.

Fixpoint nseq (start : N) (len : nat) : list N :=
  match len with O => [] | S l => start :: nseq (start + 1) l end.

(* ItemIterator.Next: one shared critical section. The bound is re-read on every call; whole
   buckets are drained into the queue until it is non-empty; then one item is popped. *)
Record dbiter := { it_next : N; it_queue : list (key * val) }.
Definition dbiter0 : dbiter := {| it_next := 0; it_queue := [] |}.

Fixpoint dbiter_fill (fuel : nat) (s : st) (it : dbiter) : option dbiter :=
  match it_queue it with
  | _ :: _ => Some it
  | [] =>
    match fuel with
    | O => Some it
    | S f =>
      match s_mem s with
      | None => None
      | Some m =>
        if it_next it <? ix_nbuckets ops (m_idx m) then
          match fetch_bucket s (it_next it) with
          | None => None
          | Some l => dbiter_fill f s {| it_next := it_next it + 1; it_queue := l |}
          end
        else Some it
      end
    end
  end.

(* None: the model left its domain (closed database / unreadable slot) *)
Definition dbiter_step (s : st) (it : dbiter) : option (dbiter * option (key * val)) :=
  match s_mem s with
  | None => None
  | Some m =>
    let fuel := N.to_nat (ix_nbuckets ops (m_idx m) - it_next it) in
    match dbiter_fill fuel s it with
    | None => None
    | Some it' =>
      match it_queue it' with
      | [] => Some (it', None)                      (* ErrIterationDone *)
      | kv :: q => Some ({| it_next := it_next it'; it_queue := q |}, Some kv)
      end
    end
  end.

(* a full scan of a database nobody modifies *)
Definition db_items (s : st) : out :=
  match s_mem s with
  | None => OErr EClosed
  | Some m =>
    let bs := nseq 0 (N.to_nat (ix_nbuckets ops (m_idx m))) in
    (fix go (l : list N) : out :=
       match l with
       | [] => OItems []
       | n :: l' => match fetch_bucket s n, go l' with
                    | Some a, OItems b => OItems (a ++ b)
                    | None, _ => OBroken 4
                    | _, o => o
                    end
       end) bs
  end.

Definition db_sync (s : st) : st * out :=
  match s_mem s with
  | None => (s, OErr EClosed)
  | Some m => (do_sync s m, OOk)
  end.

(* ---- compaction ---------------------------------------------------------------------------------
   Compact = pick (exclusive section: pick + seal everything picked);
             per picked segment: [seal]; one record per exclusive section; remove (exclusive).  *)
Fixpoint insert_by_seq (g : mseg) (l : list mseg) : list mseg :=   (* stable *)
  match l with
  | [] => [g]
  | x :: l' => if g_seq g <? g_seq x then g :: l else x :: insert_by_seq g l'
  end.
Definition by_seq (l : list mseg) : list mseg := fold_left (fun acc g => insert_by_seq g acc) l [].

(* pickForCompaction: [older] are the segments older than [g], oldest first *)
Fixpoint pick_rev (rev_segs : list mseg) (picked : list mseg) : list mseg :=
  match rev_segs with
  | [] => picked
  | g :: older =>
    if u32 (g_size g) <? p_minseg P then pick_rev older picked
    else if negb (p_frag P (sm_delbytes (g_meta g)) (g_size g)) then pick_rev older picked
    else if 0 <? sm_delrec (g_meta g) then rev older ++ g :: picked
    else pick_rev older (g :: picked)
  end.
Definition pick (m : mem) : list mseg := pick_rev (rev (by_seq (m_segs m))) [].

(* progress of a compaction *)
Record cursor := {
  c_todo : list (N * N);              (* picked segments not yet started: id, sequence id *)
  c_src : option (N * N * N);         (* segment being compacted and the next offset to read *)
  c_segs : N; c_recs : N; c_bytes : N (* CompactionResult so far *)
}.

Definition compact_pick (s : st) : option (st * cursor) :=
  match s_mem s with
  | None => None
  | Some m =>
    let picked := pick m in
    let '(s1, m1) := fold_left (fun sm g => seal (g_id g) (fst sm) (snd sm)) picked (s, m) in
    Some (with_mem m1 s1,
          {| c_todo := map (fun g => (g_id g, g_seq g)) picked; c_src := None;
             c_segs := 0; c_recs := 0; c_bytes := 0 |})
  end.

Inductive cstep := CDone | CMore (s : st) (c : cursor) | CFail (why : N).

(* removeSegment, preceded by the sync of the current segment *)
Definition remove_segment (id seq : N) (s : st) (m : mem) : st :=
  let s1 := do_sync s m in
  let m1 := set_msegs m (filter (fun g => negb (g_id g =? id)) (m_segs m)) in
  let m2 := if (fst (m_cur m) =? id) && (snd (m_cur m) =? seq)
            then set_cur m1 (m_cur m) true else m1 in
  let s2 := if exists_file (s_disk s1) (FSegMeta id seq)
            then emit (ERemove (FSegMeta id seq)) s1 else s1 in
  with_mem m2 (emit (ERemove (FSeg id seq)) s2).

(* one critical section of Compact *)
Definition compact_step (s : st) (c : cursor) : cstep :=
  match s_mem s with
  | None => CFail 10
  | Some m =>
    match c_src c with
    | None =>
      match c_todo c with
      | [] => CDone
      | (id, seq) :: todo =>
        (* compact(): mark the source full (pick has sealed it already), start the iterator *)
        let m1 := set_msegs m (upd_mseg id (fun g => set_gmeta g (set_full (g_meta g))) (m_segs m)) in
        CMore (with_mem m1 s)
              {| c_todo := todo; c_src := Some (id, seq, header_size);
                 c_segs := c_segs c; c_recs := c_recs c; c_bytes := c_bytes c |}
      end
    | Some (id, seq, off) =>
      match find_dseg id (s_disk s) with
      | None => CFail 11
      | Some f =>
        match rec_at off (seg_entries f) with
        | None =>
          (* end of the segment (the model requires a clean end: no tail) *)
          if negb ((flen f =? off) && (f_seq f =? seq)) then CFail 12 else
          CMore (remove_segment id seq s m)
                {| c_todo := c_todo c; c_src := None;
                   c_segs := c_segs c + 1; c_recs := c_recs c; c_bytes := c_bytes c |}
        | Some r =>
          let next := Some (id, seq, off + rsize r) in
          let reclaimed := {| c_todo := c_todo c; c_src := next; c_segs := c_segs c;
                              c_recs := c_recs c + 1; c_bytes := c_bytes c + rsize r |} in
          let kept := {| c_todo := c_todo c; c_src := next; c_segs := c_segs c;
                         c_recs := c_recs c; c_bytes := c_bytes c |} in
          if rdel r then CMore s reclaimed
          else
            (* promoteRecord *)
            let h := p_hash P (m_seed m) (rk r) in
            match ix_repoint ops (m_idx m) h id (u32 off) id (u32 off) with
            | None => CMore s reclaimed
            | Some _ =>
              match write_record r s m with
              | None => CFail 13
              | Some (s1, m1, nid, noff) =>
                match ix_repoint ops (m_idx m1) h id (u32 off) nid noff with
                | None => CFail 14
                | Some i2 => CMore (with_mem (set_idx m1 i2) (emit (EIndex i2) s1)) kept
                end
              end
            end
        end
      end
    end
  end.

Fixpoint compact_run (fuel : nat) (s : st) (c : cursor) : st * out :=
  match fuel with
  | O => (s, OBroken 5)
  | S f => match compact_step s c with
           | CDone => (s, OCompact (c_segs c) (c_recs c) (c_bytes c))
           | CFail w => (s, OBroken w)
           | CMore s' c' => compact_run f s' c'
           end
  end.

Definition total_recs (d : disk) : nat :=
  fold_right (fun f n => (length (f_recs f) + n)%nat) O (d_segs d).

(* Compact on a database nobody else touches *)
Definition db_compact (s : st) : st * out :=
  match compact_pick s with
  | None => (s, OErr EClosed)
  | Some (s1, c) =>
    compact_run (S (2 * length (c_todo c) + 2 * total_recs (s_disk s1) + 2)) s1 c
  end.

(* ---- gob files ------------------------------------------------------------------------------------ *)
(* writeGobFile: openFile(truncate) = create or truncate, header, body, Sync *)
Definition gob_write (f : fname) (body : fsev) (s : st) : st :=
  let s1 := if exists_file (s_disk s) f then emit (ETrunc f 0) s else emit (ECreate f) s in
  emits [EHeader f; body; ESync f] s1.

(* ---- Close ----------------------------------------------------------------------------------------- *)
Definition db_close (s : st) : st * out :=
  match s_mem s with
  | None => (s, OErr EClosed)
  | Some m =>
    let s1 := gob_write FDbMeta (EGobDb (m_seed m)) s in
    let s2 := fold_left (fun s g =>
                gob_write (FSegMeta (g_id g) (g_seq g)) (EGobSeg (g_id g) (g_seq g) (g_meta g))
                          (emit (ESync (FSeg (g_id g) (g_seq g))) s))
              (m_segs m) s1 in
    let s3 := gob_write FIndexMeta (EGobIndex (m_idx m)) s2 in
    let s4 := emits [ESync FMain; ESync FOverflow; ERemove FLock] s3 in
    ({| s_mem := None; s_disk := s_disk s4; s_trace := s_trace s4 |}, OOk)
  end.

(* ---- Open ------------------------------------------------------------------------------------------ *)
(* canonical directory order of the names a ReadDir-driven loop visits (the harness sorts the same way) *)
Definition is_segfile (f : fname) : bool := match f with FSeg _ _ => true | _ => false end.

(* backupNonsegmentFiles *)
Definition backup_nonseg (s : st) : st :=
  fold_left (fun s f => emit (ERename f (FBac f)) s)
            (sort_names (filter (fun f => negb (is_segfile f || fname_eqb f FLock)) (dir (s_disk s)))) s.

(* removeRecoveryBackupFiles *)
Definition remove_bac (s : st) : st :=
  fold_left (fun s f => emit (ERemove f) s) (sort_names (d_bac (s_disk s))) s.

(* openIndex *)
Definition open_index (s : st) : option (st * I) :=
  let fresh := match d_index (s_disk s) with None => true | Some _ => false end in
  let s1 := if fresh then emits [ECreate FMain; EHeader FMain] s else s in
  let s2 := if d_overflow (s_disk s1) then s1 else emits [ECreate FOverflow; EHeader FOverflow] s1 in
  if fresh then
    (* main.empty(): add the first bucket *)
    Some (emits [ETrunc FMain (header_size + 512); EIndex (ix_empty ops)] s2, ix_empty ops)
  else
    match d_index (s_disk s2), d_imeta (s_disk s2) with
    | Some i, GOk j => Some (s2, i)    (* buckets from the files, counters from index.pmt: see DBInv *)
    | _, _ => None
    end.

Fixpoint insert_dseg (f : dseg) (l : list dseg) : list dseg :=
  match l with
  | [] => [f]
  | g :: l' => if lex_ltb (name_str (FSeg (f_id f) (f_seq f))) (name_str (FSeg (f_id g) (f_seq g)))
               then f :: l else g :: insert_dseg f l'
  end.
Definition sort_segs (l : list dseg) : list dseg := fold_right insert_dseg [] l.

(* openDatalog: open every segment file (writing the header of empty ones), read the side files *)
Definition open_segments (s : st) : st * list mseg :=
  fold_left (fun (acc : st * list mseg) (f : dseg) =>
    let '(s, l) := acc in
    let s1 := if f_hdr f then s else emit (EHeader (FSeg (f_id f) (f_seq f))) s in
    let size := match find_dseg (f_id f) (s_disk s1) with Some f' => flen f' | None => 0 end in
    (* the side file is read when the segment is not empty or the side file exists *)
    let meta := match f_meta f with GOk m => m | _ => smeta0 end in
    (s1, insert_mseg {| g_id := f_id f; g_seq := f_seq f; g_size := size; g_meta := meta |} l))
  (sort_segs (d_segs (s_disk s))) (s, []).

(* recover(): replay every record of every segment, oldest segment first *)
Definition replay_rec (d : disk) (id off : N) (r : rec) (m : mem) : mem :=
  let h := p_hash P (m_seed m) (rk r) in
  if rdel r then
    let '(i1, old) := ix_del ops (m_idx m) h (matchf d (rk r)) in
    let m1 := match old with Some o => track_del o m | None => m end in
    let m2 := set_idx m1 i1 in
    set_msegs m2 (upd_mseg id
      (fun g => set_gmeta g
        {| sm_full := sm_full (g_meta g); sm_put := sm_put (g_meta g);
           sm_delrec := u32 (sm_delrec (g_meta g) + 1); sm_delkeys := sm_delkeys (g_meta g);
           sm_delbytes := u32 (sm_delbytes (g_meta g) + u32 (rsize r)) |}) (m_segs m2))
  else
    let sl := {| sl_h := h; sl_seg := id; sl_ks := u16 (nlen (rk r)); sl_vs := u32 (nlen (rv r));
                 sl_off := u32 off |} in
    let '(i1, old) := ix_put ops (p_grow P) (m_idx m) sl (matchf d (rk r)) in
    let m1 := match old with Some o => track_del o m | None => m end in
    let m2 := set_idx m1 i1 in
    set_msegs m2 (upd_mseg id
      (fun g => set_gmeta g
        {| sm_full := sm_full (g_meta g); sm_put := u32 (sm_put (g_meta g) + 1);
           sm_delrec := sm_delrec (g_meta g); sm_delkeys := sm_delkeys (g_meta g);
           sm_delbytes := sm_delbytes (g_meta g) |}) (m_segs m2)).

(* change of representation only: the first n bytes of the tail are the encodings of [extra] *)
Definition reframe (id seq : N) (extra : list rec) (n : N) (s : st) : st :=
  {| s_mem := s_mem s;
     s_disk := upd_seg id seq (fun f => {| f_id := f_id f; f_seq := f_seq f; f_hdr := f_hdr f;
                                            f_recs := f_recs f ++ extra; f_tail := ndrop n (f_tail f);
                                            f_meta := f_meta f |}) (s_disk s);
     s_trace := s_trace s |}.

(* one segment: accept the complete records and the valid framings found in the tail, truncate *)
Definition recover_segment (id seq : N) (s : st) (m : mem) : st * mem :=
  match find_dseg id (s_disk s) with
  | None => (s, m)
  | Some f =>
    let '(extra, n, why) := parse_tail (f_tail f) in
    let valid := header_size + recs_len (f_recs f) + n in
    (* the valid framings found in the tail are records of the file: same bytes, other
       representation (RecordProofs.decode_canonical) *)
    let s0 := reframe id seq extra n s in
    let s1 := match why with
              | SEnd => s0
              | _ => emit (ETrunc (FSeg id seq) valid) s0
              end in
    let m1 := match why with
              | SEnd => m
              | _ => set_msegs m (upd_mseg id (fun g => set_gsize g valid) (m_segs m))
              end in
    let entries := with_offsets header_size (f_recs f ++ extra) in
    (s1, fold_left (fun m e => replay_rec (s_disk s1) id (fst e) (snd e) m) entries m1)
  end.

Definition seal_all_but_last (l : list mseg) (m : mem) : mem :=
  fold_left (fun m g => set_msegs m (upd_mseg (g_id g) (fun g => set_gmeta g (set_full (g_meta g))) (m_segs m)))
            (removelast l) m.

Definition recover (s : st) (m : mem) : st * mem :=
  let order := by_seq (m_segs m) in
  let '(s1, m1) := fold_left (fun sm g => recover_segment (g_id g) (g_seq g) (fst sm) (snd sm))
                             order (s, m) in
  let m2 := seal_all_but_last order m1 in
  (* make the newest segment the current one, so that Sync flushes it *)
  let '(s1', m3) := swap_segment s1 m2 in
  let s2 := emit (EIndex (m_idx m3)) s1' in
  (remove_bac s2, m3).

Definition db_open (seed : N) (s : st) : st * out :=
  match s_mem s with
  | Some _ => (s, OErr ELocked)
  | None =>
    let existing := d_lock (s_disk s) in
    let s0 := if existing then s else emit (ECreate FLock) s in
    let s1 := if existing then backup_nonseg s0 else s0 in
    match open_index s1 with
    | None => (s1, OErr EOpenFailed)
    | Some (s2, i) =>
      let '(s3, segs) := open_segments s2 in
      let maxseq := fold_left (fun n g => N.max n (g_seq g)) segs 0 in
      let m0 := {| m_segs := segs; m_cur := (0, 0); m_cur_removed := true; m_maxseq := maxseq;
                   m_idx := i; m_seed := seed |} in
      let '(s4, m1) := swap_segment s3 m0 in
      let seed_ok :=
        if ix_count ops i =? 0 then Some seed
        else match d_dbmeta (s_disk s4) with GOk sd => Some sd | _ => None end in
      match seed_ok with
      | None => (s4, OErr EOpenFailed)
      | Some sd =>
        let m2 := {| m_segs := m_segs m1; m_cur := m_cur m1; m_cur_removed := m_cur_removed m1;
                     m_maxseq := m_maxseq m1; m_idx := m_idx m1; m_seed := sd |} in
        if existing
        then let '(s5, m3) := recover s4 m2 in (with_mem m3 s5, OOpened true)
        else (with_mem m2 s4, OOpened false)
      end
    end
  end.

(* ---- Backup ------------------------------------------------------------------------------------------
   snapshot (shared section): the segment list and the sizes of the non-full segments;
   then every file is copied outside of the lock; finally an empty lock file is created. *)
Definition backup_plan (m : mem) : list (N * N * option N) :=
  map (fun g => (g_id g, g_seq g, if sm_full (g_meta g) then None else Some (g_size g)))
      (by_seq (m_segs m)).

(* io.Copy / io.CopyN of one segment file as it is at the time of the copy *)
Definition copy_seg (d : disk) (p : N * N * option N) : option dseg :=
  let '(id, seq, lim) := p in
  match find (is_seg id seq) (d_segs d) with
  | None => None
  | Some f =>
    Some (match lim with
          | None => set_fmeta GAbsent f
          | Some n => set_fmeta GAbsent (trunc_seg n f)
          end)
  end.

Definition backup_disk (copies : list dseg) : disk :=
  {| d_segs := copies; d_orphans := []; d_index := None; d_overflow := false; d_imeta := GAbsent;
     d_dbmeta := GAbsent; d_lock := true; d_bac := [] |}.

(* Backup on a database nobody else touches *)
Definition db_backup (s : st) : option disk :=
  match s_mem s with
  | None => None
  | Some m =>
    option_map backup_disk
    ((fix go (l : list (N * N * option N)) : option (list dseg) :=
       match l with
       | [] => Some []
       | p :: l' => match copy_seg (s_disk s) p, go l' with
                    | Some c, Some r => Some (c :: r)
                    | _, _ => None
                    end
       end) (backup_plan m))
  end.

End WithIndex.
