(* PhysDB.v -- the database running on the PHYSICAL index (Phys.v: bucket files addressed by offset,
   overflow-bucket allocation, free list) refines the plain map.
   Glue of three developments:
     PhysProofs.v   phys_ops simulates chain_ops exactly (PR = PhysInv /\ R_phys /\ PInv)
     DBSimExact.v   an exact index simulation lifts to every function of DB.v and to runs
     DBSim.v/DBRun.v  the chain-index database refines the flat-index database and the map spec *)
From Coq Require Import ZArith List.
From Pogreb Require Import Base Flat Index Spec DB DBInv DBMeta DBSim DBRun DBSimExact Bucket Phys PhysProofs.
Import ListNotations.

Theorem phys_exact_sim : exact_sim phys_ops chain_ops PR.
Proof.
  constructor.
  - exact PR_empty.
  - intros a b h m H. exact (PR_get a b h m H).
  - intros g a b sl m H Hn. exact (PR_put g a b sl m H Hn).
  - intros a b h m H. exact (PR_del a b h m H).
  - intros a b h seg off nseg noff H Hn. pose proof (PR_repoint a b h seg off nseg noff H Hn) as X.
    destruct (ix_repoint phys_ops a h seg off nseg noff);
      destruct (ix_repoint chain_ops b h seg off nseg noff); try contradiction; constructor. exact X.
  - intros a b H. exact (PR_count a b H).
  - intros a b H. exact (PR_nbuckets a b H).
  - intros a b n H. exact (PR_bucket a b n H).
Qed.

(* Every sequence of Put / Delete / Get / GetAppend / Has / Count / Items / Sync / Compact on the
   database with the physical index: outputs equal to those of the chain-index database, hence those
   of the plain map; the physical invariant (no shared, leaked or dangling overflow bucket; free list
   exact) holds in the final in-memory index and in every index stored on disk. *)
Theorem C01_phys_refines_map P (s1 : @DB.st phys) (sp : @DB.st pindex) (sf : @DB.st flat) (l : list op') :
  params_ok P -> gst_rel PR s1 sp -> st_rel sp sf -> Inv P sf -> MetaOK sf ->
  Forall op_valid' l -> rooms' P sf l ->
  Forall2 out_equiv' (run' (step' phys_ops P) s1 l) (run' step_spec' (abs (s_disk sf)) l) /\
  run' (step' phys_ops P) s1 l = run' (step_chain' P) sp l /\
  gst_rel PR (final' (step' phys_ops P) s1 l) (final' (step_chain' P) sp l).
Proof.
  intros HP H1 Hs HI HM Hv Hr.
  destruct (C01_exact_refines_map phys_ops PR P s1 sp sf l phys_exact_sim HP H1 Hs HI HM Hv Hr)
    as (A & _ & C & D). cbv zeta in D. destruct D as (D & _).
  split; [exact A|]. split; [exact C|exact D].
Qed.

(* sessions: Open (clean and recovering), Close, process crash between operations, and the operations
   above, in any order: the physical-index database and the chain-index database return the same
   outputs and stay related *)
Theorem phys_sessions P (l : list lop) (s1 : @DB.st phys) (s2 : @DB.st pindex) :
  gst_rel PR s1 s2 -> loks chain_ops P s2 l ->
  lrun phys_ops P s1 l = lrun chain_ops P s2 l /\
  gst_rel PR (lfinal phys_ops P s1 l) (lfinal chain_ops P s2 l).
Proof. exact (xsim_run phys_ops chain_ops PR phys_exact_sim P l s1 s2). Qed.

Print Assumptions phys_exact_sim.
Print Assumptions C01_phys_refines_map.
Print Assumptions phys_sessions.
