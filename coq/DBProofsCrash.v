(* DBProofsCrash.v -- process-crash theorems of the database model (DB.v) instantiated with the flat
   reference index.  Properties C03 (a process crash at any instant: acknowledged writes survive, the
   write in flight is atomic) and C04 (repeated crashes: recovery is idempotent, also when the crash
   strikes during recovery itself).  No axioms (Print Assumptions at the end). *)
From Coq Require Import ZArith Lia ZifyN ZifyNat ZifyBool Permutation.
From Pogreb Require Import Base BaseLemmas Crc Bytes Record RecordProofs Flat Spec DB DBInv DBLemmas
  DBProofsOps DBProofsRecovery.
Ltac Zify.zify_post_hook ::= Z.div_mod_to_equations.

Local Notation disk := (@DB.disk flat).
Local Notation st := (@DB.st flat).
Local Notation mem := (@DB.mem flat).
Local Notation fsev := (@DB.fsev flat).
Local Notation run_evs := (fold_left (apply_ev flat_ops)).

(* ================================================================================================ *)
(* 1. The crash model                                                                                *)

(* the first c bytes of the record reached the file *)
Definition torn (d : disk) (id seq : N) (r : rec) (c : N) : disk :=
  upd_seg id seq (fun f => {| f_id := f_id f; f_seq := f_seq f; f_hdr := f_hdr f; f_recs := f_recs f;
                              f_tail := f_tail f ++ ntake c (encode_rec r); f_meta := f_meta f |}) d.

Inductive crash_image : disk -> list fsev -> disk -> Prop :=
| ci_here d es : crash_image d es d                                   (* died before the next call *)
| ci_step d e es img : crash_image (apply_ev flat_ops d e) es img -> crash_image d (e :: es) img
| ci_torn d id seq off r es c : 0 < c -> c < rsize r ->
    crash_image d (EAppend id seq off r :: es) (torn d id seq r c).

Lemma crash_image_split es1 : forall d es2 img,
  crash_image d (es1 ++ es2) img ->
  crash_image d es1 img \/ crash_image (run_evs es1 d) es2 img.
Proof.
  induction es1 as [|e es1 IH]; intros d es2 img H.
  - right. exact H.
  - rewrite <- app_comm_cons in H. inversion H as [d0 es0|d0 e0 es0 img0 H'|d0 id seq off r es0 c Hc0 Hc1]; subst.
    + left. apply ci_here.
    + destruct (IH _ _ _ H') as [Hl|Hr]; [left; apply ci_step; exact Hl|right; exact Hr].
    + left. apply ci_torn; assumption.
Qed.

Lemma crash_image_full es : forall d, crash_image d es (run_evs es d).
Proof. induction es as [|e es IH]; intros d; [apply ci_here|apply ci_step; apply IH]. Qed.

Lemma crash_image_app_l es1 es2 : forall d img, crash_image d es1 img -> crash_image d (es1 ++ es2) img.
Proof.
  intros d img H. induction H as [d es|d e es img H IH|d id seq off r es c Hc0 Hc1].
  - apply ci_here.
  - rewrite <- app_comm_cons. apply ci_step. exact IH.
  - rewrite <- app_comm_cons. apply ci_torn; assumption.
Qed.

Lemma crash_image_app_r es1 : forall es2 d img,
  crash_image (run_evs es1 d) es2 img -> crash_image d (es1 ++ es2) img.
Proof.
  induction es1 as [|e es1 IH]; intros es2 d img H; [exact H|].
  rewrite <- app_comm_cons. apply ci_step. apply IH. exact H.
Qed.

Definition is_append (e : fsev) : bool := match e with EAppend _ _ _ _ => true | _ => false end.

(* without a data write in the list, the images are the disks after the prefixes *)
Lemma crash_image_no_append es : forall d img,
  Forall (fun e => is_append e = false) es -> crash_image d es img ->
  exists es1 es2, es = es1 ++ es2 /\ img = run_evs es1 d.
Proof.
  induction es as [|e es IH]; intros d img Hna H.
  - inversion H; subst. exists [], []. split; reflexivity.
  - inversion Hna as [|? ? He Hna']; subst.
    inversion H as [d0 es0|d0 e0 es0 img0 H'|d0 id seq off r es0 c Hc0 Hc1]; subst.
    + exists [], (e :: es). split; reflexivity.
    + destruct (IH _ _ Hna' H') as (es1 & es2 & -> & ->). exists (e :: es1), es2. split; reflexivity.
    + discriminate He.
Qed.

(* ================================================================================================ *)
(* 2. What a recovery looks at: segment files proper, the lock file, the *.bac names                 *)
Definition Good (d : disk) : Prop := DiskOK d /\ bac_ok d /\ d_lock d = true.

(* [DiskOK], [bac_ok], [d_lock] and [abs] do not depend on the index files, the metadata files or the
   segment side files: two disks with the same segment files proper ([same_log]), the same lock and
   the same *.bac names cannot be told apart by the crash theorems. *)
Lemma crash_facts_indep (d d' : disk) :
  same_log d d' -> d_lock d' = d_lock d -> d_bac d' = d_bac d ->
  (DiskOK d <-> DiskOK d') /\ (bac_ok d <-> bac_ok d') /\ d_lock d' = d_lock d /\
  olog d' = olog d /\ abs d' = abs d.
Proof.
  intros Hsl Hl Hb. split; [|split; [|split; [exact Hl|split]]].
  - split; [apply same_log_DiskOK; exact Hsl|apply same_log_DiskOK; apply same_log_sym; exact Hsl].
  - unfold bac_ok. rewrite Hb. tauto.
  - apply same_log_olog. exact Hsl.
  - apply same_log_abs. exact Hsl.
Qed.

(* overwriting the content of main.pix / overflow.pix / index.pmt / db.pmt and of every .psg.pmt *)
Definition scramble (i : option flat) (ov : bool) (im : gob flat) (dm : gob N) (fm : dseg -> gob smeta)
  (d : disk) : disk :=
  {| d_segs := map (fun f => set_fmeta (fm f) f) (d_segs d); d_orphans := d_orphans d; d_index := i;
     d_overflow := ov; d_imeta := im; d_dbmeta := dm; d_lock := d_lock d; d_bac := d_bac d |}.

Lemma scramble_same_log i ov im dm fm (d : disk) : same_log d (scramble i ov im dm fm d).
Proof.
  unfold same_log, scramble. cbn [d_segs]. rewrite map_map. apply map_ext. intros f. reflexivity.
Qed.

Theorem image_facts_indep i ov im dm fm (img : disk) :
  (DiskOK img <-> DiskOK (scramble i ov im dm fm img)) /\
  (bac_ok img <-> bac_ok (scramble i ov im dm fm img)) /\
  d_lock (scramble i ov im dm fm img) = d_lock img /\
  olog (scramble i ov im dm fm img) = olog img /\
  abs (scramble i ov im dm fm img) = abs img.
Proof. apply crash_facts_indep; [apply scramble_same_log|reflexivity|reflexivity]. Qed.

Lemma Good_same_log (d d' : disk) :
  same_log d d' -> d_lock d' = d_lock d -> d_bac d' = d_bac d -> Good d -> Good d'.
Proof.
  intros Hsl Hl Hb (H1 & H2 & H3).
  destruct (crash_facts_indep d d' Hsl Hl Hb) as (A1 & A2 & _).
  split; [apply A1; exact H1|]. split; [apply A2; exact H2|congruence].
Qed.

Lemma olog_abs (d d' : disk) : olog d' = olog d -> abs d' = abs d.
Proof. unfold abs. intros ->. reflexivity. Qed.

(* events that leave the segment files proper and the lock alone, and rename only to *.bac *)
Definition neutral (e : fsev) : Prop := touches_log e = false /\ touches_lock e = false /\ ev_bac_ok e.

Lemma neutral_not_append e : neutral e -> is_append e = false.
Proof. intros (H & _). destruct e; try reflexivity. discriminate H. Qed.

Lemma neutral_step (d : disk) e :
  neutral e -> Good d -> Good (apply_ev flat_ops d e) /\ olog (apply_ev flat_ops d e) = olog d.
Proof.
  intros (Hlog & Hlock & Hbac) (H1 & H2 & H3).
  pose proof (apply_ev_same_log d e Hlog) as Hsl.
  split; [split; [|split]|].
  - eapply same_log_DiskOK; eassumption.
  - apply apply_ev_bac_ok; assumption.
  - rewrite (apply_ev_d_lock d e Hlock). exact H3.
  - apply same_log_olog. exact Hsl.
Qed.

(* ---- lists of events every prefix of which keeps the disk recoverable with the same log ---- *)
Inductive safe_run : disk -> list fsev -> Prop :=
| sr_nil d : safe_run d []
| sr_cons d e es : is_append e = false ->
    Good (apply_ev flat_ops d e) -> olog (apply_ev flat_ops d e) = olog d ->
    safe_run (apply_ev flat_ops d e) es -> safe_run d (e :: es).

Lemma safe_run_app es1 : forall d es2,
  safe_run d es1 -> safe_run (run_evs es1 d) es2 -> safe_run d (es1 ++ es2).
Proof.
  induction es1 as [|e es1 IH]; intros d es2 H1 H2; [exact H2|].
  inversion H1 as [|? ? ? Ha Hg Ho Hr]; subst. rewrite <- app_comm_cons.
  apply sr_cons; [exact Ha|exact Hg|exact Ho|]. apply IH; [exact Hr|exact H2].
Qed.

Lemma safe_run_images es : forall d img,
  safe_run d es -> Good d -> crash_image d es img -> Good img /\ olog img = olog d.
Proof.
  induction es as [|e es IH]; intros d img Hs Hg H.
  - inversion H; subst. split; [exact Hg|reflexivity].
  - inversion Hs as [|? ? ? Ha Hg' Ho Hr]; subst.
    inversion H as [d0 es0|d0 e0 es0 img0 H'|d0 id seq off r es0 c Hc0 Hc1]; subst.
    + split; [exact Hg|reflexivity].
    + destruct (IH _ _ Hr Hg' H') as [A B]. split; [exact A|congruence].
    + discriminate Ha.
Qed.

Lemma safe_run_end es d : safe_run d es -> Good d -> Good (run_evs es d) /\ olog (run_evs es d) = olog d.
Proof. intros Hs Hg. apply (safe_run_images es d _ Hs Hg). apply crash_image_full. Qed.

Lemma neutral_safe_run es : forall d, Forall neutral es -> Good d -> safe_run d es.
Proof.
  induction es as [|e es IH]; intros d Hn Hg; [apply sr_nil|].
  inversion Hn as [|? ? He Hn']; subst. destruct (neutral_step d e He Hg) as [Hg' Ho].
  apply sr_cons; [apply neutral_not_append; exact He|exact Hg'|exact Ho|]. apply IH; assumption.
Qed.

Lemma neutral_images es d img :
  Forall neutral es -> Good d -> crash_image d es img -> Good img /\ olog img = olog d.
Proof. intros Hn Hg. apply safe_run_images; [apply neutral_safe_run; assumption|exact Hg]. Qed.
