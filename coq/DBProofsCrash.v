(* DBProofsCrash.v -- process-crash theorems of the database model (DB.v) instantiated with the flat
   reference index.  Properties C03 (a process crash at any instant: acknowledged writes survive, the
   write in flight is atomic) and C04 (repeated crashes: recovery is idempotent, also when the crash
   strikes during recovery itself).  No axioms (Print Assumptions at the end).

   Crash model: [crash_image d es img] -- the operation whose events are [es] was started on disk [d] and
   the process died: before some call (ci_here after ci_step's), or in the middle of a data write with
   the first c bytes of the record in the file, for EVERY 0 < c < rsize r ([torn]).
   Main statements:
     crash_image_split, crash_image_no_append, neutral_images, safe_run_images   generic
     crash_facts_indep, image_facts_indep, neutral_payload_free   nothing depends on index / metadata content
     write_crash, torn_ok             the write-ahead order; a torn append leaves a stuck tail
     crash_put, crash_delete, crash_sync, crash_close, crash_open_recover   all images of an operation
     crash_then_recover               open_recover_ok in "exists" form
     C03_put, C03_delete, C03_sync, C03_close
     C04_recover_after_crashed_recovery, C04_chain (inductive [epochs], [recoveries], [history];
       specification [spec_epochs]), C04_epoch
     crash_compact_pick, crash_compact_step, C03_compact_step, C03_compact_pick   compaction (CInv of
       DBProofsCompact.v); write_record_shape, remove_segment_shape, compact_step_shape: the events
     crash_promote                    the promotion micro-step from first principles (not used by the above)
     crash_put_nonvacuous, crash_put_nonvacuous_recover   concrete instance with a torn image *)
From Coq Require Import ZArith Lia ZifyN ZifyNat ZifyBool Permutation.
From Pogreb Require Import Base BaseLemmas Crc Bytes Record RecordProofs Flat Spec DB DBInv DBLemmas
  DBProofsOps DBMeta DBProofsRecovery DBProofsCompact.
Ltac Zify.zify_post_hook ::= Z.div_mod_to_equations.

Local Notation disk := (@DB.disk flat).
Local Notation st := (@DB.st flat).
Local Notation mem := (@DB.mem flat).
Local Notation fsev := (@DB.fsev flat).
Local Notation run_evs := (fold_left (apply_ev flat_ops)).

(* ================================================================================================ *)
(* 1. The crash model                                                                                *)

(* the first c bytes of the record reached the file *)
Definition torn (d : disk) (id seq : N) (r : rec) (c : N) : disk :=
  upd_seg id seq (fun f => {| f_id := f_id f; f_seq := f_seq f; f_hdr := f_hdr f; f_recs := f_recs f;
                              f_tail := f_tail f ++ ntake c (encode_rec r); f_meta := f_meta f |}) d.

Inductive crash_image : disk -> list fsev -> disk -> Prop :=
| ci_here d es : crash_image d es d                                   (* died before the next call *)
| ci_step d e es img : crash_image (apply_ev flat_ops d e) es img -> crash_image d (e :: es) img
| ci_torn d id seq off r es c : 0 < c -> c < rsize r ->
    crash_image d (EAppend id seq off r :: es) (torn d id seq r c).

Lemma crash_image_split es1 : forall d es2 img,
  crash_image d (es1 ++ es2) img ->
  crash_image d es1 img \/ crash_image (run_evs es1 d) es2 img.
Proof.
  induction es1 as [|e es1 IH]; intros d es2 img H.
  - right. exact H.
  - rewrite <- app_comm_cons in H. inversion H as [d0 es0|d0 e0 es0 img0 H'|d0 id seq off r es0 c Hc0 Hc1]; subst.
    + left. apply ci_here.
    + destruct (IH _ _ _ H') as [Hl|Hr]; [left; apply ci_step; exact Hl|right; exact Hr].
    + left. apply ci_torn; assumption.
Qed.

Lemma crash_image_full es : forall d, crash_image d es (run_evs es d).
Proof. induction es as [|e es IH]; intros d; [apply ci_here|apply ci_step; apply IH]. Qed.

Lemma crash_image_app_l es1 es2 : forall d img, crash_image d es1 img -> crash_image d (es1 ++ es2) img.
Proof.
  intros d img H. induction H as [d es|d e es img H IH|d id seq off r es c Hc0 Hc1].
  - apply ci_here.
  - rewrite <- app_comm_cons. apply ci_step. exact IH.
  - rewrite <- app_comm_cons. apply ci_torn; assumption.
Qed.

Lemma crash_image_app_r es1 : forall es2 d img,
  crash_image (run_evs es1 d) es2 img -> crash_image d (es1 ++ es2) img.
Proof.
  induction es1 as [|e es1 IH]; intros es2 d img H; [exact H|].
  rewrite <- app_comm_cons. apply ci_step. apply IH. exact H.
Qed.

Definition is_append (e : fsev) : bool := match e with EAppend _ _ _ _ => true | _ => false end.

Lemma crash_image_single (d : disk) e img :
  is_append e = false -> crash_image d [e] img -> img = d \/ img = apply_ev flat_ops d e.
Proof.
  intros He H. inversion H as [d0 es0|d0 e0 es0 img0 H'|d0 id seq off r es0 c Hc0 Hc1]; subst.
  - left. reflexivity.
  - right. inversion H'; subst. reflexivity.
  - discriminate He.
Qed.

(* without a data write in the list, the images are the disks after the prefixes *)
Lemma crash_image_no_append es : forall d img,
  Forall (fun e => is_append e = false) es -> crash_image d es img ->
  exists es1 es2, es = es1 ++ es2 /\ img = run_evs es1 d.
Proof.
  induction es as [|e es IH]; intros d img Hna H.
  - inversion H; subst. exists [], []. split; reflexivity.
  - inversion Hna as [|? ? He Hna']; subst.
    inversion H as [d0 es0|d0 e0 es0 img0 H'|d0 id seq off r es0 c Hc0 Hc1]; subst.
    + exists [], (e :: es). split; reflexivity.
    + destruct (IH _ _ Hna' H') as (es1 & es2 & -> & ->). exists (e :: es1), es2. split; reflexivity.
    + discriminate He.
Qed.

(* ================================================================================================ *)
(* 2. What a recovery looks at: segment files proper, the lock file, the *.bac names                 *)
Definition Good (d : disk) : Prop := DiskOK d /\ bac_ok d /\ d_lock d = true.

(* [DiskOK], [bac_ok], [d_lock] and [abs] do not depend on the index files, the metadata files or the
   segment side files: two disks with the same segment files proper ([same_log]), the same lock and
   the same *.bac names cannot be told apart by the crash theorems. *)
Lemma crash_facts_indep (d d' : disk) :
  same_log d d' -> d_lock d' = d_lock d -> d_bac d' = d_bac d ->
  (DiskOK d <-> DiskOK d') /\ (bac_ok d <-> bac_ok d') /\ d_lock d' = d_lock d /\
  olog d' = olog d /\ abs d' = abs d.
Proof.
  intros Hsl Hl Hb. split; [|split; [|split; [exact Hl|split]]].
  - split; [apply same_log_DiskOK; exact Hsl|apply same_log_DiskOK; apply same_log_sym; exact Hsl].
  - unfold bac_ok. rewrite Hb. tauto.
  - apply same_log_olog. exact Hsl.
  - apply same_log_abs. exact Hsl.
Qed.

(* overwriting the content of main.pix / overflow.pix / index.pmt / db.pmt and of every .psg.pmt *)
Definition scramble (i : option flat) (ov : bool) (im : gob flat) (dm : gob N) (fm : dseg -> gob smeta)
  (d : disk) : disk :=
  {| d_segs := map (fun f => set_fmeta (fm f) f) (d_segs d); d_orphans := d_orphans d; d_index := i;
     d_overflow := ov; d_imeta := im; d_dbmeta := dm; d_lock := d_lock d; d_bac := d_bac d |}.

Lemma scramble_same_log i ov im dm fm (d : disk) : same_log d (scramble i ov im dm fm d).
Proof.
  unfold same_log, scramble. cbn [d_segs]. rewrite map_map. apply map_ext. intros f. reflexivity.
Qed.

Theorem image_facts_indep i ov im dm fm (img : disk) :
  (DiskOK img <-> DiskOK (scramble i ov im dm fm img)) /\
  (bac_ok img <-> bac_ok (scramble i ov im dm fm img)) /\
  d_lock (scramble i ov im dm fm img) = d_lock img /\
  olog (scramble i ov im dm fm img) = olog img /\
  abs (scramble i ov im dm fm img) = abs img.
Proof. apply crash_facts_indep; [apply scramble_same_log|reflexivity|reflexivity]. Qed.

Lemma Good_same_log (d d' : disk) :
  same_log d d' -> d_lock d' = d_lock d -> d_bac d' = d_bac d -> Good d -> Good d'.
Proof.
  intros Hsl Hl Hb (H1 & H2 & H3).
  destruct (crash_facts_indep d d' Hsl Hl Hb) as (A1 & A2 & _).
  split; [apply A1; exact H1|]. split; [apply A2; exact H2|congruence].
Qed.

Lemma olog_abs (d d' : disk) : olog d' = olog d -> abs d' = abs d.
Proof. unfold abs. intros ->. reflexivity. Qed.

(* events that leave the segment files proper and the lock alone, and rename only to *.bac *)
Definition neutral (e : fsev) : Prop := touches_log e = false /\ touches_lock e = false /\ ev_bac_ok e.

Lemma neutral_not_append e : neutral e -> is_append e = false.
Proof. intros (H & _). destruct e; try reflexivity. discriminate H. Qed.

Lemma neutral_step (d : disk) e :
  neutral e -> Good d -> Good (apply_ev flat_ops d e) /\ olog (apply_ev flat_ops d e) = olog d.
Proof.
  intros (Hlog & Hlock & Hbac) (H1 & H2 & H3).
  pose proof (apply_ev_same_log d e Hlog) as Hsl.
  split; [split; [|split]|].
  - eapply same_log_DiskOK; eassumption.
  - apply apply_ev_bac_ok; assumption.
  - rewrite (apply_ev_d_lock d e Hlock). exact H3.
  - apply same_log_olog. exact Hsl.
Qed.

(* ---- lists of events every prefix of which keeps the disk recoverable with the same log ---- *)
Inductive safe_run : disk -> list fsev -> Prop :=
| sr_nil d : safe_run d []
| sr_cons d e es : is_append e = false ->
    Good (apply_ev flat_ops d e) -> olog (apply_ev flat_ops d e) = olog d ->
    safe_run (apply_ev flat_ops d e) es -> safe_run d (e :: es).

Lemma safe_run_app es1 : forall d es2,
  safe_run d es1 -> safe_run (run_evs es1 d) es2 -> safe_run d (es1 ++ es2).
Proof.
  induction es1 as [|e es1 IH]; intros d es2 H1 H2; [exact H2|].
  inversion H1 as [|? ? ? Ha Hg Ho Hr]; subst. rewrite <- app_comm_cons.
  apply sr_cons; [exact Ha|exact Hg|exact Ho|]. apply IH; [exact Hr|exact H2].
Qed.

Lemma safe_run_images es : forall d img,
  safe_run d es -> Good d -> crash_image d es img -> Good img /\ olog img = olog d.
Proof.
  induction es as [|e es IH]; intros d img Hs Hg H.
  - inversion H; subst. split; [exact Hg|reflexivity].
  - inversion Hs as [|? ? ? Ha Hg' Ho Hr]; subst.
    inversion H as [d0 es0|d0 e0 es0 img0 H'|d0 id seq off r es0 c Hc0 Hc1]; subst.
    + split; [exact Hg|reflexivity].
    + destruct (IH _ _ Hr Hg' H') as [A B]. split; [exact A|congruence].
    + discriminate Ha.
Qed.

Lemma safe_run_end es d : safe_run d es -> Good d -> Good (run_evs es d) /\ olog (run_evs es d) = olog d.
Proof. intros Hs Hg. apply (safe_run_images es d _ Hs Hg). apply crash_image_full. Qed.

Lemma neutral_safe_run es : forall d, Forall neutral es -> Good d -> safe_run d es.
Proof.
  induction es as [|e es IH]; intros d Hn Hg; [apply sr_nil|].
  inversion Hn as [|? ? He Hn']; subst. destruct (neutral_step d e He Hg) as [Hg' Ho].
  apply sr_cons; [apply neutral_not_append; exact He|exact Hg'|exact Ho|]. apply IH; assumption.
Qed.

Lemma neutral_images es d img :
  Forall neutral es -> Good d -> crash_image d es img -> Good img /\ olog img = olog d.
Proof. intros Hn Hg. apply safe_run_images; [apply neutral_safe_run; assumption|exact Hg]. Qed.

(* events that do not touch the segment files proper: every image has the same log files *)
Lemma no_log_images_same_log es : forall d img,
  Forall (fun e => touches_log e = false) es -> crash_image d es img -> same_log d img.
Proof.
  induction es as [|e es IH]; intros d img Hn H.
  - inversion H; subst. apply same_log_refl.
  - inversion Hn as [|? ? He Hn']; subst.
    inversion H as [d0 es0|d0 e0 es0 img0 H'|d0 id seq off r es0 c Hc0 Hc1]; subst.
    + apply same_log_refl.
    + eapply same_log_trans; [apply apply_ev_same_log; exact He|apply IH; assumption].
    + discriminate He.
Qed.

(* the writes of the index files and of the metadata files are neutral whatever they write: none of
   the theorems below looks at the payload of these events *)
Lemma neutral_payload_free (i : flat) id seq (sm : smeta) (sd : N) :
  neutral (EIndex i) /\ neutral (EGobIndex i) /\ neutral (EGobSeg id seq sm) /\ neutral (EGobDb sd).
Proof. repeat split. Qed.

(* ================================================================================================ *)
(* 3. A write (Put / Delete of a present key): prelude, append, index                               *)
Definition tails_nil (d : disk) : Prop := forall f, In f (d_segs d) -> f_tail f = [].

Lemma Inv_tails_nil P (s : st) : Inv P s -> s_mem s <> None -> tails_nil (s_disk s).
Proof.
  intros HI Hm. destruct (s_mem s) as [m|] eqn:Em; [|congruence].
  destruct (Inv_open P s m Em HI) as ((Hd & (HA & HB) & _) & _).
  intros f Hf. destruct (HB f Hf) as (g & Hg & E1 & E2).
  destruct (HA g Hg) as (f' & Hf' & F1 & F2 & F3 & F4 & F5).
  assert (E : f' = f).
  { apply (NoDup_map_inj f_id (d_segs (s_disk s))); [apply Hd|exact Hf'|exact Hf|congruence]. }
  subst f'. exact F4.
Qed.

Lemma Inv_Good P (s : st) : Inv P s -> s_mem s <> None -> bac_ok (s_disk s) -> Good (s_disk s).
Proof.
  intros HI Hm Hb. destruct (s_mem s) as [m|] eqn:Em; [|congruence].
  destruct (Inv_open P s m Em HI) as ((Hd & _) & _ & Hl & _). split; [exact Hd|split; assumption].
Qed.

Lemma lock_bac_step (d : disk) e :
  touches_lock e = false -> ev_bac_ok e -> bac_ok d -> d_lock d = true ->
  bac_ok (apply_ev flat_ops d e) /\ d_lock (apply_ev flat_ops d e) = true.
Proof.
  intros Hl He Hb Hlk. split; [apply apply_ev_bac_ok; assumption|].
  rewrite (apply_ev_d_lock d e Hl). exact Hlk.
Qed.

Lemma dseg_ok_before_append off r f : dseg_ok (append_seg off r f) -> dseg_ok f /\ f_hdr f = true.
Proof.
  unfold dseg_ok. cbn [append_seg f_recs f_tail f_hdr]. intros (H1 & H2 & H3 & H4 & H5).
  apply Forall_app in H1. destruct H1 as [H1 _]. rewrite recs_len_snoc in H5.
  assert (Hh : f_hdr f = true).
  { destruct (f_hdr f) eqn:Eh; [reflexivity|]. destruct (H4 eq_refl) as [E _].
    apply app_eq_nil in E. destruct E as [_ E]. discriminate E. }
  split; [|exact Hh]. split; [exact H1|]. split; [exact H2|]. split; [exact H3|]. split.
  - intros Hf. congruence.
  - lia.
Qed.

Lemma DiskOK_before_append (d : disk) id seq off r :
  DiskOK (apply_ev flat_ops d (EAppend id seq off r)) -> DiskOK d.
Proof.
  rewrite apply_ev_append. unfold DiskOK. rewrite d_segs_upd_seg, !map_map.
  intros (H1 & H2 & H3). split; [|split].
  - apply Forall_forall. intros f Hf. rewrite Forall_forall in H1.
    pose proof (H1 _ (in_map _ _ _ Hf)) as Hx. cbv beta in Hx.
    destruct (is_seg id seq f); [apply (dseg_ok_before_append off r f Hx)|exact Hx].
  - rewrite (map_ext _ f_id) in H2; [exact H2|]. intros f. destruct (is_seg id seq f); reflexivity.
  - rewrite (map_ext _ f_seq) in H3; [exact H3|]. intros f. destruct (is_seg id seq f); reflexivity.
Qed.

Lemma tails_nil_before_append (d : disk) id seq off r :
  tails_nil (apply_ev flat_ops d (EAppend id seq off r)) -> tails_nil d.
Proof.
  rewrite apply_ev_append. unfold tails_nil. rewrite d_segs_upd_seg. intros H f Hf.
  pose proof (H _ (in_map _ _ _ Hf)) as Hx. cbv beta in Hx.
  destruct (is_seg id seq f); exact Hx.
Qed.

Lemma rec_fits_ok r : rec_fits r -> rec_ok r.
Proof.
  intros (H1 & H2 & H3 & H4). consts. split; [exact H1|]. split; [exact H2|].
  rewrite delbit_val. split; lia.
Qed.

Lemma tail_stuck_torn r c : rec_fits r -> 0 < c -> c < rsize r -> tail_stuck (ntake c (encode_rec r)).
Proof.
  intros Hr H0 Hc. unfold tail_stuck.
  rewrite (strict_prefix_rejected r c (rec_fits_ok r Hr) H0 Hc). split; reflexivity.
Qed.

(* a torn append leaves a tail that recovery rejects at once: nothing of it is ever replayed *)
Lemma torn_ok (d : disk) id seq off r c :
  DiskOK (apply_ev flat_ops d (EAppend id seq off r)) -> tails_nil d -> rec_fits r ->
  0 < c -> c < rsize r ->
  DiskOK (torn d id seq r c) /\ olog (torn d id seq r c) = olog d /\ same_rest d (torn d id seq r c).
Proof.
  intros Hok Ht Hr H0 Hc. split; [|split].
  - revert Hok. rewrite apply_ev_append. unfold torn, DiskOK. rewrite !d_segs_upd_seg, !map_map.
    intros (H1 & H2 & H3). split; [|split].
    + apply Forall_forall. intros x Hx. apply in_map_iff in Hx. destruct Hx as (f & <- & Hf).
      rewrite Forall_forall in H1. pose proof (H1 _ (in_map _ _ _ Hf)) as Hx. cbv beta in Hx.
      destruct (is_seg id seq f); [|exact Hx].
      pose proof (Ht f Hf) as Etl.
      destruct (dseg_ok_before_append off r f Hx) as [(A1 & A2 & A3 & A4 & A5) Hh].
      unfold dseg_ok. cbn [f_recs f_tail f_hdr]. rewrite Etl. cbn [app].
      split; [exact A1|]. split; [apply tail_stuck_torn; assumption|].
      split; [apply Forall_ntake; apply encode_rec_bytes; apply rec_fits_ok; exact Hr|].
      split; [intros Hf'; congruence|exact A5].
    + rewrite (map_ext _ f_id); [|intros f; destruct (is_seg id seq f); reflexivity].
      rewrite (map_ext _ f_id) in H2; [exact H2|]. intros f. destruct (is_seg id seq f); reflexivity.
    + rewrite (map_ext _ f_seq); [|intros f; destruct (is_seg id seq f); reflexivity].
      rewrite (map_ext _ f_seq) in H3; [exact H3|]. intros f. destruct (is_seg id seq f); reflexivity.
  - apply rc_rsim_olog. unfold torn. apply rc_upd_seg_rsim. intros s. reflexivity.
  - unfold torn. apply upd_seg_same_rest.
Qed.

(* the new, still empty segment file of swapSegment: created, then its header written *)
Lemma create_header_back (d : disk) id seq :
  DiskOK d ->
  DiskOK (apply_ev flat_ops (apply_ev flat_ops d (ECreate (FSeg id seq))) (EHeader (FSeg id seq))) ->
  DiskOK (apply_ev flat_ops d (ECreate (FSeg id seq))).
Proof.
  intros (D1 & D2 & D3). cbn [apply_ev]. unfold DiskOK. rewrite d_segs_upd_seg.
  set (d1 := set_segs d _). rewrite !map_map. intros (H1 & H2 & H3). split; [|split].
  - unfold d1. cbn [set_segs d_segs]. apply Forall_app. split; [exact D1|].
    constructor; [|constructor]. unfold dseg_ok. cbn [f_recs f_tail f_hdr recs_len fold_right].
    split; [constructor|]. split; [apply tail_stuck_nil|]. split; [constructor|].
    split; [intros _; split; reflexivity|]. consts. lia.
  - rewrite (map_ext _ f_id) in H2; [exact H2|]. intros f. destruct (is_seg id seq f); reflexivity.
  - rewrite (map_ext _ f_seq) in H3; [exact H3|]. intros f. destruct (is_seg id seq f); reflexivity.
Qed.

Lemma create_header_safe (d : disk) id seq :
  Good d ->
  DiskOK (run_evs [ECreate (FSeg id seq); EHeader (FSeg id seq)] d) ->
  safe_run d [ECreate (FSeg id seq); EHeader (FSeg id seq)].
Proof.
  intros (H1 & H2 & H3) Hok. cbn [fold_left] in Hok.
  pose proof (create_header_back d id seq H1 Hok) as Hok1.
  destruct (lock_bac_step d (ECreate (FSeg id seq)) eq_refl Logic.I H2 H3) as [B1 L1].
  destruct (lock_bac_step _ (EHeader (FSeg id seq)) eq_refl Logic.I B1 L1) as [B2 L2].
  apply sr_cons; [reflexivity|split; [exact Hok1|split; assumption]|apply olog_create_seg|].
  apply sr_cons; [reflexivity|split; [exact Hok|split; assumption]|apply olog_header|apply sr_nil].
Qed.

Lemma neutral_sync f : neutral (ESync f).
Proof. split; [reflexivity|]. split; [reflexivity|exact Logic.I]. Qed.
Lemma neutral_index i : neutral (EIndex i).
Proof. split; [reflexivity|]. split; [reflexivity|exact Logic.I]. Qed.

Lemma pre_safe (d : disk) pre id seq :
  wr_pre_shape pre id seq -> Good d -> DiskOK (run_evs pre d) -> safe_run d pre.
Proof.
  intros Hs Hg Hok. destruct Hs as [->|[(i & q & ->)|[->|(i & q & ->)]]].
  - apply sr_nil.
  - apply neutral_safe_run; [|exact Hg]. constructor; [apply neutral_sync|constructor].
  - apply create_header_safe; assumption.
  - apply (safe_run_app [ESync (FSeg i q)] d [ECreate (FSeg id seq); EHeader (FSeg id seq)]).
    + apply neutral_safe_run; [|exact Hg]. constructor; [apply neutral_sync|constructor].
    + apply create_header_safe; [exact Hg|exact Hok].
Qed.

Lemma post_neutral (post : list fsev) :
  (post = [] \/ exists i q, post = [ESync (FSeg i q)]) -> Forall neutral post.
Proof. intros [->|(i & q & ->)]; [constructor|]. constructor; [apply neutral_sync|constructor]. Qed.

(* The write-ahead order.  Every image before the complete append has the old log (a torn append
   leaves a stuck tail); every image from the complete append on has the new log. *)
Lemma write_crash (d d' : disk) r id seq off pre i post img :
  Good d -> wr_pre_shape pre id seq -> (post = [] \/ exists j q, post = [ESync (FSeg j q)]) ->
  d' = run_evs (pre ++ [EAppend id seq off r; EIndex i]) d ->
  DiskOK d' -> tails_nil d' -> rec_fits r ->
  crash_image d (pre ++ [EAppend id seq off r; EIndex i] ++ post) img ->
  Good img /\ (olog img = olog d \/ olog img = olog d').
Proof.
  intros Hg Hshape Hpost Ed' Hok' Ht' Hr Himg.
  rewrite fold_left_app in Ed'. cbn [fold_left] in Ed'.
  set (d2 := run_evs pre d) in *. set (d3 := apply_ev flat_ops d2 (EAppend id seq off r)) in *.
  assert (Hsl : same_log d3 d') by (apply same_log_segs; rewrite Ed'; apply d_segs_index).
  assert (Hok3 : DiskOK d3) by (apply (same_log_DiskOK _ _ (same_log_sym _ _ Hsl)); exact Hok').
  assert (Ht3 : tails_nil d3).
  { intros f Hf. apply Ht'. rewrite Ed', d_segs_index. exact Hf. }
  assert (Hok2 : DiskOK d2) by (apply (DiskOK_before_append d2 id seq off r); exact Hok3).
  assert (Ht2 : tails_nil d2) by (apply (tails_nil_before_append d2 id seq off r); exact Ht3).
  pose proof (pre_safe d pre id seq Hshape Hg Hok2) as Hsafe.
  destruct (safe_run_end pre d Hsafe Hg) as [Hg2 Ho2]. fold d2 in Hg2, Ho2.
  destruct (crash_image_split _ _ _ _ Himg) as [Hl|Hrgt].
  - destruct (safe_run_images pre d img Hsafe Hg Hl) as [A B]. split; [exact A|left; exact B].
  - fold d2 in Hrgt. cbn [app] in Hrgt.
    inversion Hrgt as [d0 es0|d0 e0 es0 img0 H'|d0 id0 seq0 off0 r0 es0 c Hc0 Hc1]; subst.
    + split; [exact Hg2|left; exact Ho2].
    + fold d3 in H'. destruct Hg2 as (_ & B2 & L2).
      destruct (lock_bac_step d2 (EAppend id seq off r) eq_refl Logic.I B2 L2) as [B3 L3]. fold d3 in B3, L3.
      assert (Hg3 : Good d3) by (split; [exact Hok3|split; assumption]).
      assert (Hn : Forall neutral (EIndex i :: post)).
      { constructor; [apply neutral_index|apply post_neutral; exact Hpost]. }
      destruct (neutral_images _ d3 img Hn Hg3 H') as [A B]. split; [exact A|right].
      rewrite B. symmetry. apply same_log_olog. exact Hsl.
    + destruct (torn_ok d2 id seq off r c Hok3 Ht2 Hr Hc0 Hc1) as (A1 & A2 & A3).
      destruct A3 as (_ & _ & _ & _ & _ & R6 & R7). destruct Hg2 as (_ & B2 & L2).
      split; [split; [exact A1|split; [unfold bac_ok; rewrite R7; exact B2|congruence]]|].
      left. congruence.
Qed.

(* Ready for compaction (promoteRecord = the same events, the record being a COPY of the live record
   of its key): every image has the same contents as before the step. *)
Lemma append_copy_same_contents (d d' : disk) id off r :
  olog d' = olog d ++ [(id, off, r)] -> rdel r = false -> sget (abs d) (rk r) = Some (rv r) ->
  forall k, sget (abs d') k = sget (abs d) k.
Proof.
  intros Eo Hdel Hlive k. rewrite (abs_snoc _ _ _ Eo), sget_apply_rec. cbn [snd]. rewrite Hdel.
  destruct (key_eqb k (rk r)) eqn:E; [|reflexivity]. apply key_eqb_eq in E. subst k. symmetry. exact Hlive.
Qed.

Lemma crash_promote (d d' : disk) r id seq off pre i img :
  Good d -> wr_pre_shape pre id seq ->
  d' = run_evs (pre ++ [EAppend id seq off r; EIndex i]) d ->
  DiskOK d' -> tails_nil d' -> rec_fits r ->
  olog d' = olog d ++ [(id, off, r)] -> rdel r = false -> sget (abs d) (rk r) = Some (rv r) ->
  crash_image d (pre ++ [EAppend id seq off r; EIndex i]) img ->
  Good img /\ forall k, sget (abs img) k = sget (abs d) k.
Proof.
  intros Hg Hshape Ed' Hok' Ht' Hr Eo Hdel Hlive Himg.
  rewrite <- (app_nil_r [EAppend id seq off r; EIndex i]) in Himg.
  destruct (write_crash d d' r id seq off pre i [] img Hg Hshape (or_introl eq_refl) Ed' Hok' Ht' Hr Himg) as [G Ho].
  split; [exact G|]. intros k. destruct Ho as [Ho|Ho].
  - rewrite (olog_abs _ _ Ho). reflexivity.
  - rewrite (olog_abs _ _ Ho). apply (append_copy_same_contents d d' id off r Eo Hdel Hlive).
Qed.

(* ================================================================================================ *)
(* 4. C03: crash images of Put, Delete, Sync                                                        *)
Definition closed (d : disk) : st := {| s_mem := None; s_disk := d; s_trace := [] |}.

Lemma Inv_clear P (s : st) : Inv P s -> Inv P (clear_trace s).
Proof. apply Inv_same; reflexivity. Qed.

Theorem crash_put P (s s' : st) k v o :
  params_ok P -> Inv P s -> (exists m, s_mem s = Some m /\ room m) -> bac_ok (s_disk s) ->
  Forall byte k -> Forall byte v -> nlen k <= max_key_len -> nlen v <= max_val_len ->
  db_put flat_ops P k v (clear_trace s) = (s', o) ->
  forall img, crash_image (s_disk s) (s_trace s') img ->
  DiskOK img /\ bac_ok img /\ d_lock img = true /\
  ((forall k', sget (abs img) k' = sget (abs (s_disk s)) k') \/
   (forall k', sget (abs img) k' = sget (abs (s_disk s')) k')).
Proof.
  intros HP HI Hm Hb Hbk Hbv Hk Hv Eput img Himg.
  assert (Hmn : s_mem s <> None) by (destruct Hm as (m & -> & _); discriminate).
  pose proof (Inv_Good P s HI Hmn Hb) as Hg.
  destruct (put_ok_ex P (clear_trace s) k v HP (Inv_clear P s HI) Hm Hbk Hbv Hk Hv)
    as (s0 & E0 & HI' & Hm' & _ & id & seq & off & pre & i2 & post & Et & Hshape & Hpost & _ & _ & Ed).
  rewrite Eput in E0. inversion E0; subst s0 o. clear E0.
  cbn [clear_trace s_trace s_disk app] in Et, Ed. rewrite Et in Himg.
  assert (Hok' : DiskOK (s_disk s')).
  { destruct (s_mem s') as [m'|] eqn:Em'; [|congruence]. apply (Inv_open P s' m' Em' HI'). }
  destruct (write_crash (s_disk s) (s_disk s') (mkput k v) id seq off pre i2 post img Hg Hshape Hpost Ed Hok'
              (Inv_tails_nil P s' HI' Hm') (rec_fits_mkput k v Hbk Hbv Hk Hv) Himg) as ((G1 & G2 & G3) & Ho).
  split; [exact G1|]. split; [exact G2|]. split; [exact G3|].
  destruct Ho as [Ho|Ho]; [left|right]; intros k'; rewrite (olog_abs _ _ Ho); reflexivity.
Qed.

Lemma sync_images (d : disk) (tr : list fsev) img :
  (tr = [] \/ exists i q, tr = [ESync (FSeg i q)]) -> crash_image d tr img -> img = d.
Proof.
  intros Htr H. destruct (crash_image_no_append tr d img) as (es1 & es2 & E & ->).
  - destruct Htr as [->|(i & q & ->)]; repeat constructor.
  - exact H.
  - destruct Htr as [->|(i & q & ->)].
    + destruct es1; [reflexivity|discriminate E].
    + destruct es1 as [|e es1]; [reflexivity|]. inversion E; subst.
      destruct es1; [reflexivity|discriminate].
Qed.

Theorem crash_delete P (s s' : st) k o :
  params_ok P -> Inv P s -> (exists m, s_mem s = Some m /\ room m) -> bac_ok (s_disk s) ->
  Forall byte k ->
  db_delete flat_ops P k (clear_trace s) = (s', o) ->
  forall img, crash_image (s_disk s) (s_trace s') img ->
  DiskOK img /\ bac_ok img /\ d_lock img = true /\
  ((forall k', sget (abs img) k' = sget (abs (s_disk s)) k') \/
   (forall k', sget (abs img) k' = sget (abs (s_disk s')) k')).
Proof.
  intros HP HI Hm Hb Hbk Edel img Himg.
  assert (Hmn : s_mem s <> None) by (destruct Hm as (m & -> & _); discriminate).
  pose proof (Inv_Good P s HI Hmn Hb) as Hg.
  destruct (delete_ok_ex P (clear_trace s) k HP (Inv_clear P s HI) Hm Hbk)
    as (s0 & E0 & HI' & Hm' & _ & _ & Hcases).
  rewrite Edel in E0. inversion E0; subst s0 o. clear E0.
  destruct Hcases as [(_ & Ed & Etr)|(_ & Hk & id & seq & off & pre & i1 & post & Et & Hshape & Hpost & _ & _ & Ed)].
  - cbn [clear_trace s_trace s_disk app] in Etr, Ed.
    assert (E : img = s_disk s) by (apply (sync_images (s_disk s) (s_trace s') img); assumption).
    subst img. destruct Hg as (G1 & G2 & G3). split; [exact G1|]. split; [exact G2|]. split; [exact G3|].
    left. reflexivity.
  - cbn [clear_trace s_trace s_disk app] in Et, Ed. rewrite Et in Himg.
    assert (Hok' : DiskOK (s_disk s')).
    { destruct (s_mem s') as [m'|] eqn:Em'; [|congruence]. apply (Inv_open P s' m' Em' HI'). }
    destruct (write_crash (s_disk s) (s_disk s') (mkdel k) id seq off pre i1 post img Hg Hshape Hpost Ed Hok'
                (Inv_tails_nil P s' HI' Hm') (rec_fits_mkdel k Hbk Hk) Himg) as ((G1 & G2 & G3) & Ho).
    split; [exact G1|]. split; [exact G2|]. split; [exact G3|].
    destruct Ho as [Ho|Ho]; [left|right]; intros k'; rewrite (olog_abs _ _ Ho); reflexivity.
Qed.

Lemma sync_trace (s : st) : s_mem s <> None ->
  s_disk (fst (db_sync flat_ops (clear_trace s))) = s_disk s /\
  (s_trace (fst (db_sync flat_ops (clear_trace s))) = [] \/
   exists i q, s_trace (fst (db_sync flat_ops (clear_trace s))) = [ESync (FSeg i q)]).
Proof.
  intros Hm. unfold db_sync. cbn [clear_trace s_mem]. destruct (s_mem s) as [m|]; [|congruence].
  cbn [fst]. destruct (do_sync_spec (clear_trace s) m) as (_ & E2 & E3). split; [exact E2|exact E3].
Qed.

(* Sync never changes the contents: every image is the disk itself *)
Theorem crash_sync P (s s' : st) o :
  Inv P s -> s_mem s <> None -> bac_ok (s_disk s) ->
  db_sync flat_ops (clear_trace s) = (s', o) ->
  forall img, crash_image (s_disk s) (s_trace s') img ->
  DiskOK img /\ bac_ok img /\ d_lock img = true /\
  (forall k', sget (abs img) k' = sget (abs (s_disk s)) k') /\
  (forall k', sget (abs img) k' = sget (abs (s_disk s')) k').
Proof.
  intros HI Hm Hb Es img Himg. destruct (sync_trace s Hm) as [Ed Et]. rewrite Es in Ed, Et. cbn [fst] in Ed, Et.
  assert (E : img = s_disk s) by (apply (sync_images (s_disk s) (s_trace s') img); assumption).
  subst img. destruct (Inv_Good P s HI Hm Hb) as (G1 & G2 & G3).
  split; [exact G1|]. split; [exact G2|]. split; [exact G3|]. rewrite Ed. split; reflexivity.
Qed.

(* ---- recovery from any image (open_recover_ok, in the form used below) ---- *)
Theorem crash_then_recover P seed (img : disk) :
  params_ok P -> DiskOK img -> bac_ok img -> d_lock img = true ->
  exists s2, db_open flat_ops P seed {| s_mem := None; s_disk := img; s_trace := [] |} = (s2, OOpened true) /\
    Inv P s2 /\ s_mem s2 <> None /\ bac_ok (s_disk s2) /\
    (forall k, sget (abs (s_disk s2)) k = sget (abs img) k).
Proof.
  intros HP Hok Hb Hl. pose proof (open_recover_ok P seed img HP Hok Hb Hl) as H.
  destruct (db_open flat_ops P seed {| s_mem := None; s_disk := img; s_trace := [] |}) as [s2 o2].
  destruct H as (-> & HI & Hm & Habs & Hbac & _). exists s2. split; [reflexivity|].
  split; [exact HI|]. split; [exact Hm|]. split; [unfold bac_ok; rewrite Hbac; constructor|exact Habs].
Qed.

Theorem C03_put P seed (s s' : st) k v o img :
  params_ok P -> Inv P s -> (exists m, s_mem s = Some m /\ room m) -> bac_ok (s_disk s) ->
  Forall byte k -> Forall byte v -> nlen k <= max_key_len -> nlen v <= max_val_len ->
  db_put flat_ops P k v (clear_trace s) = (s', o) ->
  crash_image (s_disk s) (s_trace s') img ->
  exists s2, db_open flat_ops P seed {| s_mem := None; s_disk := img; s_trace := [] |} = (s2, OOpened true) /\
    Inv P s2 /\ s_mem s2 <> None /\ bac_ok (s_disk s2) /\
    ((* exactly the contents before the Put *)
     (forall k', sget (abs (s_disk s2)) k' = sget (abs (s_disk s)) k') \/
     (* exactly the contents after it *)
     ((forall k', sget (abs (s_disk s2)) k' = sget (abs (s_disk s')) k') /\
      (forall k', sget (abs (s_disk s2)) k' = if key_eqb k' k then Some v else sget (abs (s_disk s)) k'))).
Proof.
  intros HP HI Hm Hb Hbk Hbv Hk Hv Eput Himg.
  destruct (crash_put P s s' k v o HP HI Hm Hb Hbk Hbv Hk Hv Eput img Himg) as (G1 & G2 & G3 & Hc).
  destruct (crash_then_recover P seed img HP G1 G2 G3) as (s2 & E2 & HI2 & Hm2 & Hb2 & Ha2).
  exists s2. split; [exact E2|]. split; [exact HI2|]. split; [exact Hm2|]. split; [exact Hb2|].
  destruct Hc as [Hc|Hc]; [left; intros k'; rewrite Ha2; apply Hc|right].
  pose proof (put_ok P (clear_trace s) k v HP (Inv_clear P s HI) Hm Hbk Hbv Hk Hv) as Hp.
  rewrite Eput in Hp. destruct Hp as (_ & _ & _ & Hnew). cbn [clear_trace s_disk] in Hnew.
  split; intros k'; rewrite Ha2, Hc; [reflexivity|apply Hnew].
Qed.

Theorem C03_delete P seed (s s' : st) k o img :
  params_ok P -> Inv P s -> (exists m, s_mem s = Some m /\ room m) -> bac_ok (s_disk s) ->
  Forall byte k ->
  db_delete flat_ops P k (clear_trace s) = (s', o) ->
  crash_image (s_disk s) (s_trace s') img ->
  exists s2, db_open flat_ops P seed {| s_mem := None; s_disk := img; s_trace := [] |} = (s2, OOpened true) /\
    Inv P s2 /\ s_mem s2 <> None /\ bac_ok (s_disk s2) /\
    ((forall k', sget (abs (s_disk s2)) k' = sget (abs (s_disk s)) k') \/
     ((forall k', sget (abs (s_disk s2)) k' = sget (abs (s_disk s')) k') /\
      (forall k', sget (abs (s_disk s2)) k' = if key_eqb k' k then None else sget (abs (s_disk s)) k'))).
Proof.
  intros HP HI Hm Hb Hbk Edel Himg.
  destruct (crash_delete P s s' k o HP HI Hm Hb Hbk Edel img Himg) as (G1 & G2 & G3 & Hc).
  destruct (crash_then_recover P seed img HP G1 G2 G3) as (s2 & E2 & HI2 & Hm2 & Hb2 & Ha2).
  exists s2. split; [exact E2|]. split; [exact HI2|]. split; [exact Hm2|]. split; [exact Hb2|].
  destruct Hc as [Hc|Hc]; [left; intros k'; rewrite Ha2; apply Hc|right].
  pose proof (delete_ok P (clear_trace s) k HP (Inv_clear P s HI) Hm Hbk) as Hp.
  rewrite Edel in Hp. destruct Hp as (_ & _ & _ & Hnew & _). cbn [clear_trace s_disk] in Hnew.
  split; intros k'; rewrite Ha2, Hc; [reflexivity|apply Hnew].
Qed.

Theorem C03_sync P seed (s s' : st) o img :
  params_ok P -> Inv P s -> s_mem s <> None -> bac_ok (s_disk s) ->
  db_sync flat_ops (clear_trace s) = (s', o) ->
  crash_image (s_disk s) (s_trace s') img ->
  exists s2, db_open flat_ops P seed {| s_mem := None; s_disk := img; s_trace := [] |} = (s2, OOpened true) /\
    Inv P s2 /\ s_mem s2 <> None /\ bac_ok (s_disk s2) /\
    (forall k', sget (abs (s_disk s2)) k' = sget (abs (s_disk s)) k').
Proof.
  intros HP HI Hm Hb Es Himg.
  destruct (crash_sync P s s' o HI Hm Hb Es img Himg) as (G1 & G2 & G3 & Hc & _).
  destruct (crash_then_recover P seed img HP G1 G2 G3) as (s2 & E2 & HI2 & Hm2 & Hb2 & Ha2).
  exists s2. split; [exact E2|]. split; [exact HI2|]. split; [exact Hm2|]. split; [exact Hb2|].
  intros k'. rewrite Ha2. apply Hc.
Qed.

(* ================================================================================================ *)
(* 5. C03: crash images of Close                                                                    *)
(* pieces of code that only emit neutral events *)
Definition nrun (s s' : st) : Prop :=
  exists es, s_trace s' = s_trace s ++ es /\ s_disk s' = run_evs es (s_disk s) /\ Forall neutral es /\
             s_mem s' = s_mem s.

Lemma nrun_refl (s : st) : nrun s s.
Proof. exists []. rewrite app_nil_r. repeat split. constructor. Qed.

Lemma nrun_trans (a b c : st) : nrun a b -> nrun b c -> nrun a c.
Proof.
  intros (e1 & T1 & D1 & N1 & M1) (e2 & T2 & D2 & N2 & M2). exists (e1 ++ e2).
  split; [rewrite T2, T1, app_assoc; reflexivity|]. split; [rewrite D2, D1, fold_left_app; reflexivity|].
  split; [apply Forall_app; split; assumption|congruence].
Qed.

Lemma nrun_emit e (s : st) : neutral e -> nrun s (emit flat_ops e s).
Proof. intros H. exists [e]. repeat split. constructor; [exact H|constructor]. Qed.

Lemma nrun_emits es : forall s : st, Forall neutral es -> nrun s (emits flat_ops es s).
Proof.
  induction es as [|e es IH]; intros s H; [apply nrun_refl|].
  inversion H as [|? ? He H']; subst. rewrite rc_emits_cons.
  eapply nrun_trans; [apply nrun_emit; exact He|apply IH; exact H'].
Qed.

Definition meta_name (f : fname) : Prop :=
  match f with FDbMeta | FIndexMeta | FSegMeta _ _ => True | _ => False end.

Lemma nrun_gob_write f body (s : st) :
  meta_name f -> neutral body -> nrun s (gob_write flat_ops f body s).
Proof.
  intros Hf Hb. unfold gob_write.
  assert (H3 : Forall neutral [EHeader f; body; ESync f]).
  { constructor; [|constructor; [exact Hb|constructor; [apply neutral_sync|constructor]]].
    destruct f; try destruct Hf; (split; [reflexivity|split; [reflexivity|exact Logic.I]]). }
  destruct (exists_file (s_disk s) f).
  - eapply nrun_trans; [apply nrun_emit|apply nrun_emits; exact H3].
    destruct f; try destruct Hf; (split; [reflexivity|split; [reflexivity|exact Logic.I]]).
  - eapply nrun_trans; [apply nrun_emit|apply nrun_emits; exact H3].
    destruct f; try destruct Hf; (split; [reflexivity|split; [reflexivity|exact Logic.I]]).
Qed.

Lemma nrun_close_segs G : forall s : st,
  nrun s (fold_left (fun s g =>
            gob_write flat_ops (FSegMeta (g_id g) (g_seq g)) (EGobSeg (g_id g) (g_seq g) (g_meta g))
                      (emit flat_ops (ESync (FSeg (g_id g) (g_seq g))) s)) G s).
Proof.
  induction G as [|g G IH]; intros s; [apply nrun_refl|]. cbn [fold_left].
  eapply nrun_trans; [|apply IH].
  eapply nrun_trans; [apply nrun_emit; apply neutral_sync|].
  apply nrun_gob_write; [exact Logic.I|]. split; [reflexivity|split; [reflexivity|exact Logic.I]].
Qed.

(* Close = neutral events, then the removal of the lock file *)
Lemma close_shape (s : st) m : s_mem s = Some m ->
  exists s3 : st, nrun s s3 /\
    db_close flat_ops s =
      ({| s_mem := None; s_disk := apply_ev flat_ops (s_disk s3) (ERemove FLock);
          s_trace := s_trace s3 ++ [ERemove FLock] |}, OOk).
Proof.
  intros Em. unfold db_close. rewrite Em.
  set (s1 := gob_write flat_ops FDbMeta (EGobDb (m_seed m)) s).
  set (s2 := fold_left _ (m_segs m) s1).
  set (s3 := gob_write flat_ops FIndexMeta (EGobIndex (m_idx m)) s2).
  exists (emits flat_ops [ESync FMain; ESync FOverflow] s3). split; [|reflexivity].
  assert (N1 : nrun s s1).
  { apply nrun_gob_write; [exact Logic.I|]. split; [reflexivity|split; [reflexivity|exact Logic.I]]. }
  assert (N2 : nrun s1 s2) by apply nrun_close_segs.
  assert (N3 : nrun s2 s3).
  { apply nrun_gob_write; [exact Logic.I|]. split; [reflexivity|split; [reflexivity|exact Logic.I]]. }
  eapply nrun_trans; [exact N1|]. eapply nrun_trans; [exact N2|]. eapply nrun_trans; [exact N3|].
  apply nrun_emits. constructor; [apply neutral_sync|constructor; [apply neutral_sync|constructor]].
Qed.

(* every image reached before the removal of the lock file is recoverable with the same contents;
   the image after the last event is the cleanly closed disk *)
Theorem crash_close P (s s1 : st) o img :
  Inv P s -> s_mem s <> None -> bac_ok (s_disk s) ->
  db_close flat_ops (clear_trace s) = (s1, o) ->
  crash_image (s_disk s) (s_trace s1) img ->
  (DiskOK img /\ bac_ok img /\ d_lock img = true /\
   (forall k, sget (abs img) k = sget (abs (s_disk s)) k)) \/
  img = s_disk s1.
Proof.
  intros HI Hm Hb Ec Himg. pose proof (Inv_Good P s HI Hm Hb) as Hg.
  destruct (s_mem s) as [m|] eqn:Em; [|congruence].
  destruct (close_shape (clear_trace s) m Em) as (s3 & (es & T & D & Hn & _) & E).
  rewrite Ec in E. inversion E; subst s1 o. clear E.
  cbn [clear_trace s_trace s_disk app] in T, D. cbn [s_trace s_disk] in *. rewrite T in Himg.
  destruct (crash_image_split _ _ _ _ Himg) as [Hl|Hr].
  - left. destruct (neutral_images es (s_disk s) img Hn Hg Hl) as ((G1 & G2 & G3) & Ho).
    split; [exact G1|]. split; [exact G2|]. split; [exact G3|]. intros k. rewrite (olog_abs _ _ Ho). reflexivity.
  - destruct (crash_image_single _ (ERemove FLock) _ eq_refl Hr) as [->| ->].
    + left. destruct (neutral_images es (s_disk s) _ Hn Hg (crash_image_full es _)) as ((G1 & G2 & G3) & Ho).
      split; [exact G1|]. split; [exact G2|]. split; [exact G3|]. intros k. rewrite (olog_abs _ _ Ho). reflexivity.
    + right. rewrite D. reflexivity.
Qed.

Theorem C03_close P seed (s s1 : st) o img :
  params_ok P -> Inv P s -> s_mem s <> None -> bac_ok (s_disk s) ->
  db_close flat_ops (clear_trace s) = (s1, o) ->
  crash_image (s_disk s) (s_trace s1) img ->
  exists s2 b, db_open flat_ops P seed {| s_mem := None; s_disk := img; s_trace := [] |} = (s2, OOpened b) /\
    Inv P s2 /\ s_mem s2 <> None /\ bac_ok (s_disk s2) /\
    (forall k, sget (abs (s_disk s2)) k = sget (abs (s_disk s)) k).
Proof.
  intros HP HI Hm Hb Ec Himg.
  destruct (crash_close P s s1 o img HI Hm Hb Ec Himg) as [(G1 & G2 & G3 & Hc)| ->].
  - destruct (crash_then_recover P seed img HP G1 G2 G3) as (s2 & E2 & HI2 & Hm2 & Hb2 & Ha2).
    exists s2, true. split; [exact E2|]. split; [exact HI2|]. split; [exact Hm2|]. split; [exact Hb2|].
    intros k. rewrite Ha2. apply Hc.
  - destruct (s_mem s) as [m|] eqn:Em; [|congruence].
    pose proof (close_reopen_ok_nometa P seed (clear_trace s) m HP (Inv_clear P s HI) Em) as H.
    pose proof (close_reopen_bac P seed (clear_trace s) m (Inv_clear P s HI) Em) as Hbb.
    pose proof (close_ok P (clear_trace s) m (Inv_clear P s HI) Em) as Hc.
    rewrite Ec in H, Hbb, Hc. destruct Hc as (_ & Hm1 & _).
    assert (E : clear_trace s1 = {| s_mem := None; s_disk := s_disk s1; s_trace := [] |}).
    { unfold clear_trace. rewrite Hm1. reflexivity. }
    rewrite E in H, Hbb.
    destruct (db_open flat_ops P seed {| s_mem := None; s_disk := s_disk s1; s_trace := [] |}) as [s2 o2].
    destruct H as (-> & HI2 & Ha2 & m2 & Em2 & _). exists s2, false.
    split; [reflexivity|]. split; [exact HI2|]. split; [congruence|].
    split; [unfold bac_ok; rewrite Hbb; exact Hb|exact Ha2].
Qed.

(* ================================================================================================ *)
(* 6. C04: a crash during recovery itself                                                           *)
(* pieces of code every prefix of whose events keeps the disk recoverable, with the same log *)
Definition srun (s s' : st) : Prop :=
  exists es, s_trace s' = s_trace s ++ es /\ s_disk s' = run_evs es (s_disk s) /\ safe_run (s_disk s) es.

Lemma srun_refl (s : st) : srun s s.
Proof. exists []. rewrite app_nil_r. repeat split. apply sr_nil. Qed.

Lemma srun_trans (a b c : st) : srun a b -> srun b c -> srun a c.
Proof.
  intros (e1 & T1 & D1 & S1) (e2 & T2 & D2 & S2). exists (e1 ++ e2).
  split; [rewrite T2, T1, app_assoc; reflexivity|]. split; [rewrite D2, D1, fold_left_app; reflexivity|].
  apply safe_run_app; [exact S1|]. rewrite <- D1. exact S2.
Qed.

Lemma srun_good (s s' : st) : srun s s' -> Good (s_disk s) -> Good (s_disk s') /\ olog (s_disk s') = olog (s_disk s).
Proof. intros (es & _ & D & S) Hg. rewrite D. apply safe_run_end; assumption. Qed.

Lemma nrun_srun (s s' : st) : nrun s s' -> Good (s_disk s) -> srun s s'.
Proof.
  intros (es & T & D & Hn & _) Hg. exists es. split; [exact T|]. split; [exact D|].
  apply neutral_safe_run; assumption.
Qed.

Lemma srun_same (s s' : st) : s_trace s' = s_trace s -> s_disk s' = s_disk s -> srun s s'.
Proof. intros T D. exists []. rewrite app_nil_r. split; [exact T|]. split; [exact D|apply sr_nil]. Qed.

Lemma nrun_fold_emit {A} (ev : A -> fsev) (L : list A) : forall s : st,
  Forall (fun x => neutral (ev x)) L -> nrun s (fold_left (fun s x => emit flat_ops (ev x) s) L s).
Proof.
  induction L as [|x L IH]; intros s H; [apply nrun_refl|].
  inversion H as [|? ? Hx H']; subst. cbn [fold_left].
  eapply nrun_trans; [apply nrun_emit; exact Hx|apply IH; exact H'].
Qed.

(* ---- backupNonsegmentFiles ---- *)
Lemma nrun_backup (s : st) : nrun s (backup_nonseg flat_ops s).
Proof.
  unfold backup_nonseg. apply (nrun_fold_emit (fun f => ERename f (FBac f))).
  apply Forall_forall. intros f Hf.
  apply (Permutation_in _ (rc_sort_names_perm _)) in Hf. apply filter_In in Hf. destruct Hf as [_ Hf].
  apply negb_true_iff in Hf. apply orb_false_iff in Hf. destruct Hf as [Hs Hl].
  split; [|split; [|exact Logic.I]].
  - destruct f; try reflexivity. discriminate Hs.
  - destruct f; try reflexivity. discriminate Hl.
Qed.

(* ---- openIndex ---- *)
Lemma nrun_open_index (s s2 : st) i : open_index flat_ops s = Some (s2, i) -> nrun s s2.
Proof.
  unfold open_index.
  assert (NM : Forall neutral [@ECreate flat FMain; EHeader FMain]).
  { repeat constructor. }
  assert (NO : Forall neutral [@ECreate flat FOverflow; EHeader FOverflow]).
  { repeat constructor. }
  assert (NT : Forall neutral [@ETrunc flat FMain (header_size + 512); EIndex (ix_empty flat_ops)]).
  { repeat constructor. }
  set (fresh := match d_index (s_disk s) with None => true | Some _ => false end).
  set (s1 := if fresh then emits flat_ops [ECreate FMain; EHeader FMain] s else s).
  set (s2' := if d_overflow (s_disk s1) then s1 else emits flat_ops [ECreate FOverflow; EHeader FOverflow] s1).
  assert (N1 : nrun s s1) by (unfold s1; destruct fresh; [apply nrun_emits; exact NM|apply nrun_refl]).
  assert (N2 : nrun s1 s2').
  { unfold s2'. destruct (d_overflow (s_disk s1)); [apply nrun_refl|apply nrun_emits; exact NO]. }
  destruct fresh.
  - set (s3 := emits flat_ops [ETrunc FMain (header_size + 512); EIndex (ix_empty flat_ops)] s2').
    assert (N3 : nrun s2' s3) by (apply nrun_emits; exact NT).
    clearbody s3. intros E. injection E as <- _.
    eapply nrun_trans; [exact N1|]. eapply nrun_trans; [exact N2|exact N3].
  - destruct (d_index (s_disk s2')) as [i0|]; [|discriminate].
    destruct (d_imeta (s_disk s2')) as [| |j]; try discriminate.
    intros E. injection E as <- _. eapply nrun_trans; [exact N1|exact N2].
Qed.

(* ---- openDatalog: the headers of empty segment files ---- *)
Lemma dseg_ok_hdr_on f :
  dseg_ok f -> dseg_ok {| f_id := f_id f; f_seq := f_seq f; f_hdr := true; f_recs := f_recs f;
                          f_tail := f_tail f; f_meta := f_meta f |}.
Proof.
  unfold dseg_ok. cbn [f_recs f_tail f_hdr]. intros (H1 & H2 & H3 & _ & H5).
  split; [exact H1|]. split; [exact H2|]. split; [exact H3|]. split; [discriminate|exact H5].
Qed.

Lemma header_seg_safe (d : disk) id seq :
  Good d -> Good (apply_ev flat_ops d (EHeader (FSeg id seq))) /\
            olog (apply_ev flat_ops d (EHeader (FSeg id seq))) = olog d.
Proof.
  intros ((H1 & H2 & H3) & Hb & Hl). split; [|apply olog_header].
  destruct (lock_bac_step d (EHeader (FSeg id seq)) eq_refl Logic.I Hb Hl) as [Hb' Hl'].
  split; [|split; assumption].
  cbn [apply_ev]. unfold DiskOK. rewrite d_segs_upd_seg, !map_map. split; [|split].
  - apply Forall_forall. intros x Hx. apply in_map_iff in Hx. destruct Hx as (f & <- & Hf).
    rewrite Forall_forall in H1. pose proof (H1 f Hf) as Hx.
    destruct (is_seg id seq f); [apply dseg_ok_hdr_on; exact Hx|exact Hx].
  - rewrite (map_ext _ f_id); [exact H2|]. intros f. destruct (is_seg id seq f); reflexivity.
  - rewrite (map_ext _ f_seq); [exact H3|]. intros f. destruct (is_seg id seq f); reflexivity.
Qed.

Lemma srun_hdr_fold L : forall s : st, Good (s_disk s) -> srun s (fold_left rc_hdr_step L s).
Proof.
  induction L as [|f L IH]; intros s Hg; [apply srun_refl|]. cbn [fold_left].
  assert (S1 : srun s (rc_hdr_step s f)).
  { unfold rc_hdr_step. destruct (f_hdr f); [apply srun_refl|].
    exists [EHeader (FSeg (f_id f) (f_seq f))]. split; [reflexivity|]. split; [reflexivity|].
    destruct (header_seg_safe (s_disk s) (f_id f) (f_seq f) Hg) as [A B].
    apply sr_cons; [reflexivity|exact A|exact B|apply sr_nil]. }
  eapply srun_trans; [exact S1|]. apply IH. apply (srun_good _ _ S1 Hg).
Qed.

(* ---- swapSegment during open: a new, empty segment file ---- *)
Lemma srun_swap (s : st) (m : mem) :
  Good (s_disk s) -> rc_magree (m_segs m) (s_disk s) -> ids_increasing (m_segs m) ->
  (forall g, In g (m_segs m) -> g_seq g <= m_maxseq m) ->
  srun s (fst (swap_segment flat_ops s m)).
Proof.
  intros Hg Hmag Hinc Hmax. unfold swap_segment.
  destruct (find (fun g => negb (sm_full (g_meta g))) (m_segs m)) as [g|]; [apply srun_refl|].
  cbn [fst]. set (id := lowest_free 0 (m_segs m)). set (seq := m_maxseq m + 1).
  exists [ECreate (FSeg id seq); EHeader (FSeg id seq)].
  split; [apply s_trace_emits|]. split; [apply s_disk_emits|].
  apply create_header_safe; [exact Hg|].
  assert (Hfresh : forall g, In g (m_segs m) -> g_id g <> id).
  { intros g Hin. apply lowest_free_fresh; assumption. }
  assert (Hsegs : d_segs (run_evs [ECreate (FSeg id seq); EHeader (FSeg id seq)] (s_disk s)) =
                  d_segs (s_disk s) ++ [rc_newf id seq]).
  { cbn [fold_left apply_ev]. rewrite d_segs_upd_seg. cbn [set_segs d_segs]. rewrite map_app. f_equal.
    - rewrite <- (map_id (d_segs (s_disk s))) at 2. apply map_ext_in. intros f Hf.
      destruct (proj2 Hmag f Hf) as (g & Hin & E1 & _). unfold is_seg.
      destruct (N.eqb_spec (f_id f) id) as [E|_]; [|reflexivity].
      exfalso. apply (Hfresh g Hin). congruence.
    - cbn [map]. unfold is_seg. cbn [f_id f_seq]. rewrite !N.eqb_refl. reflexivity. }
  destruct Hg as (Hok & _).
  apply (rc_create_spec (s_disk s) _ (m_segs m) (m_maxseq m) id seq Hok Hmag Hinc Hmax eq_refl Hfresh Hsegs).
Qed.

(* ---- recover(): the truncation of a stuck tail ---- *)
Lemma trunc_safe (d : disk) id seq f :
  Good d -> find_dseg id d = Some f ->
  Good (apply_ev flat_ops d (ETrunc (FSeg id seq) (header_size + recs_len (f_recs f) + 0))) /\
  olog (apply_ev flat_ops d (ETrunc (FSeg id seq) (header_size + recs_len (f_recs f) + 0))) = olog d.
Proof.
  intros ((H1 & H2 & H3) & Hb & Hl) Ef.
  set (n := header_size + recs_len (f_recs f) + 0).
  destruct (lock_bac_step d (ETrunc (FSeg id seq) n) eq_refl Logic.I Hb Hl) as [Hb' Hl'].
  assert (Hx : forall x, In x (d_segs d) ->
             rc_rcore (if is_seg id seq x then trunc_seg n x else x) = rc_rcore x /\
             dseg_ok (if is_seg id seq x then trunc_seg n x else x)).
  { intros x Hin. rewrite Forall_forall in H1. pose proof (H1 x Hin) as Hdx.
    destruct (is_seg id seq x) eqn:Es; [|split; [reflexivity|exact Hdx]].
    assert (E : x = f) by (apply (rc_is_seg_unique d id seq f x H2 Ef Hin Es)). subst x.
    destruct (f_hdr f) eqn:Eh.
    - unfold n. rewrite (rc_trunc_seg_all f Eh). split; [reflexivity|].
      destruct Hdx as (A1 & A2 & A3 & A4 & A5). unfold dseg_ok, rc_clean. cbn [f_recs f_tail f_hdr].
      split; [exact A1|]. split; [apply tail_stuck_nil|]. split; [constructor|].
      split; [discriminate|exact A5].
    - unfold trunc_seg. rewrite Eh. cbn [negb]. split; [reflexivity|exact Hdx]. }
  assert (Hsegs : d_segs (apply_ev flat_ops d (ETrunc (FSeg id seq) n)) =
                  map (fun x => if is_seg id seq x then trunc_seg n x else x) (d_segs d)).
  { cbn [apply_ev]. apply d_segs_upd_seg. }
  assert (Hrs : rc_rsim d (apply_ev flat_ops d (ETrunc (FSeg id seq) n))).
  { unfold rc_rsim. rewrite Hsegs, map_map. apply map_ext_in. intros x Hin. symmetry. apply (Hx x Hin). }
  split; [|apply rc_rsim_olog; exact Hrs].
  split; [|split; assumption].
  unfold DiskOK. rewrite (rc_rsim_ids _ _ Hrs), (rc_rsim_seqs _ _ Hrs). split; [|split; assumption].
  rewrite Hsegs. apply Forall_forall. intros y Hy. apply in_map_iff in Hy. destruct Hy as (x & <- & Hin).
  apply (Hx x Hin).
Qed.

Lemma srun_recover_segment P id seq (s : st) (m : mem) :
  Good (s_disk s) -> srun s (fst (recover_segment flat_ops P id seq s m)).
Proof.
  intros Hg. unfold recover_segment.
  destruct (find_dseg id (s_disk s)) as [f|] eqn:Ef; [|apply srun_refl].
  destruct (find_dseg_In _ _ _ Ef) as [Hin _].
  assert (Hst : tail_stuck (f_tail f)).
  { destruct Hg as ((H1 & _) & _). rewrite Forall_forall in H1. apply (H1 f Hin). }
  destruct (rc_tail_stuck_parse _ Hst) as (why & Ep & _). rewrite Ep. cbv beta iota zeta.
  rewrite rc_reframe_nil. cbn [fst].
  assert (St : srun s (emit flat_ops (ETrunc (FSeg id seq) (header_size + recs_len (f_recs f) + 0)) s)).
  { exists [ETrunc (FSeg id seq) (header_size + recs_len (f_recs f) + 0)].
    split; [reflexivity|]. split; [reflexivity|].
    destruct (trunc_safe (s_disk s) id seq f Hg Ef) as [A B].
    apply sr_cons; [reflexivity|exact A|exact B|apply sr_nil]. }
  destruct why; [apply srun_refl|exact St|exact St|exact St].
Qed.

Lemma srun_recover_loop P (L : list mseg) : forall (s : st) (m : mem),
  Good (s_disk s) ->
  srun s (fst (fold_left (fun sm g => recover_segment flat_ops P (g_id g) (g_seq g) (fst sm) (snd sm)) L (s, m))).
Proof.
  induction L as [|g L IH]; intros s m Hg; [apply srun_refl|]. cbn [fold_left fst snd].
  pose proof (srun_recover_segment P (g_id g) (g_seq g) s m Hg) as S1.
  destruct (recover_segment flat_ops P (g_id g) (g_seq g) s m) as [s1 m1]. cbn [fst] in S1.
  eapply srun_trans; [exact S1|]. apply IH. apply (srun_good _ _ S1 Hg).
Qed.

(* ---- removeRecoveryBackupFiles ---- *)
Lemma nrun_remove_bac (s : st) : bac_ok (s_disk s) -> nrun s (remove_bac flat_ops s).
Proof.
  intros Hb. unfold remove_bac. apply (nrun_fold_emit (fun f => ERemove f)).
  apply Forall_forall. intros f Hf. apply (Permutation_in _ (rc_sort_names_perm _)) in Hf.
  unfold bac_ok in Hb. rewrite Forall_forall in Hb. pose proof (Hb f Hf) as Hx.
  destruct f; try destruct Hx. split; [reflexivity|split; [reflexivity|exact Logic.I]].
Qed.

(* recover(): the loop, then swapSegment (D13: it picks the newest segment; in a recovery it finds it
   writable and emits nothing -- but the proof below does not need to know that: should it create a new
   segment file, the step is safe because the disk it leads to is well-formed), the index, the *.bac files *)
Lemma srun_recover P (s : st) (m : mem) :
  Good (s_disk s) -> DiskOK (s_disk (fst (recover flat_ops P s m))) -> srun s (fst (recover flat_ops P s m)).
Proof.
  intros Hg. unfold recover.
  pose proof (srun_recover_loop P (by_seq (m_segs m)) s m Hg) as S1.
  destruct (fold_left _ (by_seq (m_segs m)) (s, m)) as [s1 m1]. cbn [fst] in S1 |- *.
  destruct (srun_good _ _ S1 Hg) as [Hg1 _].
  set (m2 := seal_all_but_last (by_seq (m_segs m)) m1).
  assert (Tail : forall (s1' : st) (m3 : mem), Good (s_disk s1') ->
            srun s1' (remove_bac flat_ops (emit flat_ops (EIndex (m_idx m3)) s1'))).
  { intros s1' m3 Hg'.
    assert (S2 : srun s1' (emit flat_ops (EIndex (m_idx m3)) s1')).
    { apply nrun_srun; [apply nrun_emit; apply neutral_index|exact Hg']. }
    destruct (srun_good _ _ S2 Hg') as [Hg2 _].
    eapply srun_trans; [exact S2|]. apply nrun_srun; [apply nrun_remove_bac; apply Hg2|exact Hg2]. }
  unfold swap_segment.
  destruct (find (fun g => negb (sm_full (g_meta g))) (m_segs m2)) as [gc|].
  - cbn [fst]. intros _. eapply srun_trans; [exact S1|]. apply Tail. exact Hg1.
  - cbv zeta. set (id := lowest_free 0 (m_segs m2)). set (seq := m_maxseq m2 + 1).
    set (s1' := emits flat_ops [ECreate (FSeg id seq); EHeader (FSeg id seq)] s1).
    match goal with |- context [m_idx ?x] => set (m3 := x) end.
    cbn [fst]. intros HokF.
    assert (Ed' : s_disk s1' = run_evs [ECreate (FSeg id seq); EHeader (FSeg id seq)] (s_disk s1)) by apply s_disk_emits.
    destruct Hg1 as (Hok1 & Hb1 & Hl1).
    destruct (lock_bac_step _ (ECreate (FSeg id seq)) eq_refl Logic.I Hb1 Hl1) as [Hb1a Hl1a].
    destruct (lock_bac_step _ (EHeader (FSeg id seq)) eq_refl Logic.I Hb1a Hl1a) as [Hb1' Hl1'].
    destruct (lock_bac_step _ (EIndex (m_idx m3)) eq_refl Logic.I Hb1' Hl1') as [Hb2 _].
    assert (N3 : nrun s1' (remove_bac flat_ops (emit flat_ops (EIndex (m_idx m3)) s1'))).
    { eapply nrun_trans; [apply nrun_emit; apply neutral_index|]. apply nrun_remove_bac.
      rewrite s_disk_emit, Ed'. exact Hb2. }
    assert (Hok1' : DiskOK (s_disk s1')).
    { destruct N3 as (es & _ & D & Hn & _).
      assert (Hsl : same_log (s_disk s1') (run_evs es (s_disk s1'))).
      { apply (no_log_images_same_log es); [|apply crash_image_full].
        apply Forall_forall. intros e He. rewrite Forall_forall in Hn. apply (Hn e He). }
      rewrite <- D in Hsl. apply (same_log_DiskOK _ _ (same_log_sym _ _ Hsl)). exact HokF. }
    assert (S2 : srun s1 s1').
    { exists [ECreate (FSeg id seq); EHeader (FSeg id seq)]. split; [apply s_trace_emits|]. split; [exact Ed'|].
      apply create_header_safe; [split; [exact Hok1|split; assumption]|]. rewrite <- Ed'. exact Hok1'. }
    eapply srun_trans; [exact S1|]. eapply srun_trans; [exact S2|]. apply Tail.
    split; [exact Hok1'|]. rewrite Ed'. split; assumption.
Qed.

(* ---- the whole recovering Open ---- *)
Lemma open_srun P seed (d : disk) : Good d -> srun (closed d) (fst (db_open flat_ops P seed (closed d))).
Proof.
  intros Hg. pose proof Hg as (Hok & Hbac & Hlock).
  assert (HokF : DiskOK (s_disk (fst (db_open flat_ops P seed (closed d))))).
  { pose proof (open_recover_gen P seed (closed d) eq_refl Hok Hbac Hlock) as HR.
    destruct (db_open flat_ops P seed (closed d)) as [sf of]. cbn [fst].
    destruct HR as (_ & HIf & Hmf & _). destruct (s_mem sf) as [mf|] eqn:Emf; [|congruence].
    apply (Inv_open P sf mf Emf HIf). }
  revert HokF.
  unfold db_open. change (s_mem (closed d)) with (@None mem). cbv iota.
  change (d_lock (s_disk (closed d))) with (d_lock d). rewrite Hlock. cbv iota.
  (* backupNonsegmentFiles *)
  pose proof (rc_backup_spec (closed d) Hok Hbac) as H1. cbv zeta in H1.
  pose proof (nrun_backup (closed d)) as N1.
  set (s1 := backup_nonseg flat_ops (closed d)) in *.
  destruct H1 as (_ & _ & _ & Hi1 & Hmeta1 & _).
  assert (S1 : srun (closed d) s1) by (apply nrun_srun; [exact N1|exact Hg]).
  destruct (srun_good _ _ S1 Hg) as [Hg1 _].
  (* openIndex *)
  destruct (rc_open_index_fresh s1 Hi1) as (s2 & E2 & Hsegs2 & _).
  rewrite E2. pose proof (nrun_open_index s1 s2 [] E2) as N2.
  assert (S2 : srun s1 s2) by (apply nrun_srun; [exact N2|exact Hg1]).
  destruct (srun_good _ _ S2 Hg1) as [Hg2 _].
  (* openDatalog *)
  assert (Hmeta2 : forall f, In f (d_segs (s_disk s2)) -> f_meta f = GAbsent).
  { rewrite Hsegs2. exact Hmeta1. }
  destruct (rc_open_segments_recovery s2 (proj1 Hg2) Hmeta2)
    as (s3 & segs & E3 & _ & _ & Hmag3 & Hinc3 & _).
  destruct (rc_open_segments_spec s2 (proj1 (proj2 (proj1 Hg2)))) as (s3' & segs' & E3' & _ & _ & _ & Efold & _).
  rewrite E3 in E3'. injection E3' as <- <-. rewrite E3.
  assert (S3 : srun s2 s3) by (rewrite Efold; apply srun_hdr_fold; exact Hg2).
  destruct (srun_good _ _ S3 Hg2) as [Hg3 _].
  (* swapSegment *)
  match goal with |- context [swap_segment flat_ops s3 ?m] => set (m0 := m) end.
  assert (S4 : srun s3 (fst (swap_segment flat_ops s3 m0))).
  { apply srun_swap; [exact Hg3|exact Hmag3|exact Hinc3|]. intros g Hin. apply (rc_fold_max_ge segs 0). exact Hin. }
  destruct (swap_segment flat_ops s3 m0) as [s4 m1]. cbn [fst] in S4.
  destruct (srun_good _ _ S4 Hg3) as [Hg4 _].
  assert (S04 : srun (closed d) s4).
  { eapply srun_trans; [exact S1|]. eapply srun_trans; [exact S2|]. eapply srun_trans; [exact S3|exact S4]. }
  cbn [ix_count flat_ops nlen]. change (0 =? 0) with true. cbv iota.
  (* recover *)
  match goal with |- context [recover flat_ops P s4 ?m] => set (m2 := m) end.
  pose proof (srun_recover P s4 m2 Hg4) as S5.
  destruct (recover flat_ops P s4 m2) as [s5 m3]. cbn [fst] in S5 |- *. intros HokF.
  eapply srun_trans; [exact S04|]. eapply srun_trans; [exact (S5 HokF)|].
  apply srun_same; reflexivity.
Qed.

(* The events of a recovering Open only rename / create / remove non-segment files, write the headers
   of empty segment files, create one empty segment file, truncate stuck tails and write the index:
   whenever the process dies during recovery, what is left is as recoverable as before. *)
Theorem crash_open_recover P seed (d : disk) :
  DiskOK d -> bac_ok d -> d_lock d = true ->
  forall img, crash_image d (s_trace (fst (db_open flat_ops P seed {| s_mem := None; s_disk := d; s_trace := [] |}))) img ->
  DiskOK img /\ bac_ok img /\ d_lock img = true /\ forall k, sget (abs img) k = sget (abs d) k.
Proof.
  intros Hok Hb Hl img Himg. assert (Hg : Good d) by (split; [exact Hok|split; assumption]).
  destruct (open_srun P seed d Hg) as (es & T & _ & Hs). fold (closed d) in Himg.
  cbn [closed s_trace app] in T. rewrite T in Himg. cbn [closed s_disk] in Hs.
  destruct (safe_run_images es d img Hs Hg Himg) as ((G1 & G2 & G3) & Ho).
  split; [exact G1|]. split; [exact G2|]. split; [exact G3|]. intros k. rewrite (olog_abs _ _ Ho). reflexivity.
Qed.

Theorem C04_recover_after_crashed_recovery P seed seed2 (d : disk) img :
  params_ok P -> DiskOK d -> bac_ok d -> d_lock d = true ->
  crash_image d (s_trace (fst (db_open flat_ops P seed {| s_mem := None; s_disk := d; s_trace := [] |}))) img ->
  exists s2, db_open flat_ops P seed2 {| s_mem := None; s_disk := img; s_trace := [] |} = (s2, OOpened true) /\
    Inv P s2 /\ s_mem s2 <> None /\ bac_ok (s_disk s2) /\
    (forall k, sget (abs (s_disk s2)) k = sget (abs d) k).
Proof.
  intros HP Hok Hb Hl Himg.
  destruct (crash_open_recover P seed d Hok Hb Hl img Himg) as (G1 & G2 & G3 & Hc).
  destruct (crash_then_recover P seed2 img HP G1 G2 G3) as (s2 & E2 & HI2 & Hm2 & Hb2 & Ha2).
  exists s2. split; [exact E2|]. split; [exact HI2|]. split; [exact Hm2|]. split; [exact Hb2|].
  intros k. rewrite Ha2. apply Hc.
Qed.

(* ================================================================================================ *)
(* 7. C04: any finite sequence of epochs  [history of acknowledged operations ; crash in the middle
      of an operation ; recovery attempts that crash themselves ; a recovery that completes]        *)
Inductive op := OpPut (k : key) (v : val) | OpDelete (k : key) | OpSync.

Definition run_op (P : params) (o : op) (s : st) : st :=
  match o with
  | OpPut k v => fst (db_put flat_ops P k v (clear_trace s))
  | OpDelete k => fst (db_delete flat_ops P k (clear_trace s))
  | OpSync => fst (db_sync flat_ops (clear_trace s))
  end.

(* the per-operation side conditions ([room]: no segment is within one maximal record of 4 GiB) *)
Definition op_pre (o : op) (s : st) : Prop :=
  match o with
  | OpPut k v => (exists m, s_mem s = Some m /\ room m) /\
                 Forall byte k /\ Forall byte v /\ nlen k <= max_key_len /\ nlen v <= max_val_len
  | OpDelete k => (exists m, s_mem s = Some m /\ room m) /\ Forall byte k
  | OpSync => True
  end.

(* an open, consistent database *)
Definition Open (P : params) (s : st) : Prop := Inv P s /\ s_mem s <> None /\ bac_ok (s_disk s).

(* contents, as a function; the specification of the operations *)
Definition cmap := key -> option val.
Definition cont (d : disk) : cmap := fun k => sget (abs d) k.
Definition ceq (a b : cmap) : Prop := forall k, a k = b k.
Definition spec_op (o : op) (c : cmap) : cmap :=
  match o with
  | OpPut k v => fun k' => if key_eqb k' k then Some v else c k'
  | OpDelete k => fun k' => if key_eqb k' k then None else c k'
  | OpSync => c
  end.
Definition spec_hist (h : list op) (c : cmap) : cmap := fold_left (fun c o => spec_op o c) h c.

Lemma ceq_refl c : ceq c c. Proof. intros k. reflexivity. Qed.
Lemma ceq_sym a b : ceq a b -> ceq b a. Proof. intros H k. symmetry. apply H. Qed.
Lemma ceq_trans a b c : ceq a b -> ceq b c -> ceq a c. Proof. intros H1 H2 k. rewrite H1. apply H2. Qed.
Lemma spec_op_ceq o a b : ceq a b -> ceq (spec_op o a) (spec_op o b).
Proof. intros H k. destruct o as [k0 v|k0|]; cbn [spec_op]; try rewrite H; reflexivity. Qed.
Lemma spec_hist_ceq h : forall a b, ceq a b -> ceq (spec_hist h a) (spec_hist h b).
Proof.
  induction h as [|o h IH]; intros a b H; [exact H|]. unfold spec_hist. cbn [fold_left].
  apply IH. apply spec_op_ceq. exact H.
Qed.

(* a completed operation: its final disk is one of its crash images, and it meets its specification *)
Lemma op_final_image P o (s : st) :
  params_ok P -> Open P s -> op_pre o s ->
  crash_image (s_disk s) (s_trace (run_op P o s)) (s_disk (run_op P o s)).
Proof.
  intros HP (HI & Hm & Hb) Hpre. destruct o as [k v|k|]; cbn [run_op op_pre] in *.
  - destruct Hpre as (Hroom & Hbk & Hbv & Hk & Hv).
    destruct (put_ok_ex P (clear_trace s) k v HP (Inv_clear P s HI) Hroom Hbk Hbv Hk Hv)
      as (s' & E & _ & _ & _ & id & seq & off & pre & i2 & post & Et & _ & _ & _ & _ & Ed).
    rewrite E. cbn [fst]. cbn [clear_trace s_trace s_disk] in Et, Ed. rewrite app_nil_l in Et. rewrite Et, Ed.
    rewrite app_assoc. apply crash_image_app_l. apply crash_image_full.
  - destruct Hpre as (Hroom & Hbk).
    destruct (delete_ok_ex P (clear_trace s) k HP (Inv_clear P s HI) Hroom Hbk)
      as (s' & E & _ & _ & _ & _ & Hcases).
    rewrite E. cbn [fst].
    destruct Hcases as [(_ & Ed & _)|(_ & _ & id & seq & off & pre & i1 & post & Et & _ & _ & _ & _ & Ed)].
    + cbn [clear_trace s_disk] in Ed. rewrite Ed. apply ci_here.
    + cbn [clear_trace s_trace s_disk] in Et, Ed. rewrite app_nil_l in Et. rewrite Et, Ed.
      rewrite app_assoc. apply crash_image_app_l. apply crash_image_full.
  - destruct (sync_trace s Hm) as [Ed _]. rewrite Ed. apply ci_here.
Qed.

Lemma op_crash P o (s : st) img :
  params_ok P -> Open P s -> op_pre o s ->
  crash_image (s_disk s) (s_trace (run_op P o s)) img ->
  Good img /\ (ceq (cont img) (cont (s_disk s)) \/ ceq (cont img) (spec_op o (cont (s_disk s)))).
Proof.
  intros HP (HI & Hm & Hb) Hpre Himg. destruct o as [k v|k|]; cbn [run_op op_pre spec_op] in *.
  - destruct Hpre as (Hroom & Hbk & Hbv & Hk & Hv).
    pose proof (surjective_pairing (db_put flat_ops P k v (clear_trace s))) as E.
    destruct (crash_put P s _ k v _ HP HI Hroom Hb Hbk Hbv Hk Hv E img Himg) as (G1 & G2 & G3 & Hc).
    split; [split; [exact G1|split; assumption]|].
    destruct Hc as [Hc|Hc]; [left; exact Hc|right].
    pose proof (put_ok P (clear_trace s) k v HP (Inv_clear P s HI) Hroom Hbk Hbv Hk Hv) as Hp.
    rewrite E in Hp. destruct Hp as (_ & _ & _ & Hnew). cbn [clear_trace s_disk] in Hnew.
    intros k'. unfold cont. rewrite Hc. apply Hnew.
  - destruct Hpre as (Hroom & Hbk).
    pose proof (surjective_pairing (db_delete flat_ops P k (clear_trace s))) as E.
    destruct (crash_delete P s _ k _ HP HI Hroom Hb Hbk E img Himg) as (G1 & G2 & G3 & Hc).
    split; [split; [exact G1|split; assumption]|].
    destruct Hc as [Hc|Hc]; [left; exact Hc|right].
    pose proof (delete_ok P (clear_trace s) k HP (Inv_clear P s HI) Hroom Hbk) as Hp.
    rewrite E in Hp. destruct Hp as (_ & _ & _ & Hnew & _). cbn [clear_trace s_disk] in Hnew.
    intros k'. unfold cont. rewrite Hc. apply Hnew.
  - pose proof (surjective_pairing (db_sync flat_ops (clear_trace s))) as E.
    destruct (crash_sync P s _ _ HI Hm Hb E img Himg) as (G1 & G2 & G3 & Hc & _).
    split; [split; [exact G1|split; assumption]|]. left. exact Hc.
Qed.

Lemma op_ok P o (s : st) :
  params_ok P -> Open P s -> op_pre o s ->
  Open P (run_op P o s) /\ ceq (cont (s_disk (run_op P o s))) (spec_op o (cont (s_disk s))).
Proof.
  intros HP HO Hpre.
  destruct (op_crash P o s _ HP HO Hpre (op_final_image P o s HP HO Hpre)) as ((_ & Hb' & _) & _).
  destruct HO as (HI & Hm & Hb). destruct o as [k v|k|]; cbn [run_op op_pre spec_op] in *.
  - destruct Hpre as (Hroom & Hbk & Hbv & Hk & Hv).
    pose proof (put_ok P (clear_trace s) k v HP (Inv_clear P s HI) Hroom Hbk Hbv Hk Hv) as Hp.
    destruct (db_put flat_ops P k v (clear_trace s)) as [s' o']. cbn [fst] in *.
    destruct Hp as (_ & HI' & Hm' & Hnew). split; [split; [exact HI'|split; assumption]|exact Hnew].
  - destruct Hpre as (Hroom & Hbk).
    pose proof (delete_ok P (clear_trace s) k HP (Inv_clear P s HI) Hroom Hbk) as Hp.
    destruct (db_delete flat_ops P k (clear_trace s)) as [s' o']. cbn [fst] in *.
    destruct Hp as (_ & HI' & Hm' & Hnew & _). split; [split; [exact HI'|split; assumption]|exact Hnew].
  - pose proof (sync_ok P (clear_trace s) (Inv_clear P s HI) Hm) as Hp.
    destruct (db_sync flat_ops (clear_trace s)) as [s' o']. cbn [fst] in *.
    destruct Hp as (_ & HI' & Ed & Em). cbn [clear_trace s_disk s_mem] in Ed, Em.
    split; [split; [exact HI'|split; [congruence|exact Hb']]|]. rewrite Ed. apply ceq_refl.
Qed.

(* a finite history of acknowledged operations *)
Inductive history (P : params) : st -> list op -> st -> Prop :=
| h_nil s : history P s [] s
| h_cons s o h s' : op_pre o s -> history P (run_op P o s) h s' -> history P s (o :: h) s'.

Lemma history_ok P (s : st) h sh :
  params_ok P -> history P s h sh -> Open P s ->
  Open P sh /\ ceq (cont (s_disk sh)) (spec_hist h (cont (s_disk s))).
Proof.
  intros HP H. induction H as [s|s o h s' Hpre H IH]; intros HO.
  - split; [exact HO|apply ceq_refl].
  - destruct (op_ok P o s HP HO Hpre) as [HO1 Hc1]. destruct (IH HO1) as [HO' Hc'].
    split; [exact HO'|]. eapply ceq_trans; [exact Hc'|]. unfold spec_hist at 2. cbn [fold_left].
    apply spec_hist_ceq. exact Hc1.
Qed.

(* recovery attempts: any number of recoveries that crash themselves, then one that completes *)
Inductive recoveries (P : params) : disk -> st -> Prop :=
| rec_done d seed : recoveries P d (fst (db_open flat_ops P seed (closed d)))
| rec_crash d seed img s' :
    crash_image d (s_trace (fst (db_open flat_ops P seed (closed d)))) img ->
    recoveries P img s' -> recoveries P d s'.

Lemma recoveries_ok P (d : disk) s' :
  params_ok P -> recoveries P d s' -> Good d -> Open P s' /\ ceq (cont (s_disk s')) (cont d).
Proof.
  intros HP H. induction H as [d seed|d seed img s' Himg H IH]; intros (G1 & G2 & G3).
  - destruct (crash_then_recover P seed d HP G1 G2 G3) as (s2 & E2 & HI2 & Hm2 & Hb2 & Ha2).
    unfold closed. rewrite E2. cbn [fst]. split; [split; [exact HI2|split; assumption]|exact Ha2].
  - destruct (crash_open_recover P seed d G1 G2 G3 img Himg) as (A1 & A2 & A3 & Hc).
    destruct (IH (conj A1 (conj A2 A3))) as [HO Hc']. split; [exact HO|].
    eapply ceq_trans; [exact Hc'|exact Hc].
Qed.

(* one epoch: history [h] is acknowledged, operation [o] is in flight when the process dies (a crash
   between operations is [o := OpSync] with the image [ci_here]); then the recovery attempts *)
Inductive epochs (P : params) : st -> list (list op * op) -> st -> Prop :=
| ep_nil s : epochs P s [] s
| ep_cons s h sh o img s1 rest s' :
    history P s h sh -> op_pre o sh ->
    crash_image (s_disk sh) (s_trace (run_op P o sh)) img ->
    recoveries P img s1 ->
    epochs P s1 rest s' ->
    epochs P s ((h, o) :: rest) s'.

(* what the specification allows after the same epochs: every acknowledged operation has taken
   effect, in order; the operation in flight at each crash has taken effect entirely or not at all *)
Inductive spec_epochs : cmap -> list (list op * op) -> cmap -> Prop :=
| se_nil c c' : ceq c c' -> spec_epochs c [] c'
| se_lost c h o rest c' : spec_epochs (spec_hist h c) rest c' -> spec_epochs c ((h, o) :: rest) c'
| se_done c h o rest c' : spec_epochs (spec_op o (spec_hist h c)) rest c' -> spec_epochs c ((h, o) :: rest) c'.

Lemma spec_epochs_ceq c1 es c' : spec_epochs c1 es c' -> forall c2, ceq c1 c2 -> spec_epochs c2 es c'.
Proof.
  intros H. induction H as [c c' Hc|c h o rest c' H IH|c h o rest c' H IH]; intros c2 H12.
  - apply se_nil. eapply ceq_trans; [apply ceq_sym; exact H12|exact Hc].
  - apply se_lost. apply IH. apply spec_hist_ceq. exact H12.
  - apply se_done. apply IH. apply spec_op_ceq. apply spec_hist_ceq. exact H12.
Qed.

Theorem C04_chain P (s : st) es s' :
  params_ok P -> Open P s -> epochs P s es s' ->
  Inv P s' /\ s_mem s' <> None /\ bac_ok (s_disk s') /\
  spec_epochs (cont (s_disk s)) es (cont (s_disk s')).
Proof.
  intros HP HO H. revert HO.
  induction H as [s|s h sh o img s1 rest s' Hh Hpre Himg Hrec Hep IH]; intros HO.
  - destruct HO as (A & B & C). split; [exact A|]. split; [exact B|]. split; [exact C|].
    apply se_nil. apply ceq_refl.
  - destruct (history_ok P s h sh HP Hh HO) as [HOh Hch].
    destruct (op_crash P o sh img HP HOh Hpre Himg) as [Hg Hci].
    destruct (recoveries_ok P img s1 HP Hrec Hg) as [HO1 Hc1].
    destruct (IH HO1) as (A & B & C & Hspec).
    split; [exact A|]. split; [exact B|]. split; [exact C|].
    destruct Hci as [Hci|Hci].
    + apply se_lost. apply (spec_epochs_ceq _ _ _ Hspec).
      eapply ceq_trans; [exact Hc1|]. eapply ceq_trans; [exact Hci|exact Hch].
    + apply se_done. apply (spec_epochs_ceq _ _ _ Hspec).
      eapply ceq_trans; [exact Hc1|]. eapply ceq_trans; [exact Hci|]. apply spec_op_ceq. exact Hch.
Qed.

(* one epoch, spelled out: the C03 relation between consecutive reopened states *)
Corollary C04_epoch P (s : st) h o s' :
  params_ok P -> Open P s -> epochs P s [(h, o)] s' ->
  Inv P s' /\ s_mem s' <> None /\
  (ceq (cont (s_disk s')) (spec_hist h (cont (s_disk s))) \/
   ceq (cont (s_disk s')) (spec_op o (spec_hist h (cont (s_disk s))))).
Proof.
  intros HP HO H. destruct (C04_chain P s _ s' HP HO H) as (A & B & _ & Hs).
  split; [exact A|]. split; [exact B|].
  inversion Hs as [|c h0 o0 rest c' H1|c h0 o0 rest c' H1]; subst;
    inversion H1 as [c0 c0' Hc| |]; subst; [left|right]; apply ceq_sym; exact Hc.
Qed.

(* ================================================================================================ *)
(* 7b. C03 for compaction: the pick (seals only) and every micro-step                              *)

(* writeRecord: the shape of its events (write_record_spec without [params_ok]) *)
Lemma write_record_shape P r (s : st) (m : mem) :
  InvLog m (s_disk s) -> room m -> rec_fits r ->
  exists s' m' id off seq pre,
    write_record flat_ops P r s m = Some (s', m', id, off) /\
    s_trace s' = s_trace s ++ pre ++ [EAppend id seq off r] /\
    s_disk s' = run_evs (pre ++ [EAppend id seq off r]) (s_disk s) /\
    wr_pre_shape pre id seq.
Proof.
  intros HI Hroom Hr. rewrite write_record_eq.
  destruct (wr_prelude_spec P r s m HI Hroom)
    as (s1 & m1 & g & pre & E1 & HI1 & Hroom1 & Ec1 & Hnf1 & _ & _ & _ & _ & _ & Et1 & Ed1 & Hp1).
  rewrite E1.
  destruct (append_step m1 (s_disk s1) r g HI1 Hroom1 Hr Ec1 Hnf1) as (f & Hfind & Efseq & Efl & Hlt & _).
  unfold wr_tail. rewrite Ec1, Hfind, Efseq, Efl, !N.eqb_refl. cbn [andb negb].
  rewrite (u32_small _ Hlt).
  eexists _, _, (g_id g), (g_size g), (g_seq g), pre. split; [reflexivity|].
  split; [rewrite s_trace_emit, Et1, app_assoc; reflexivity|].
  split; [rewrite s_disk_emit, fold_left_app, <- Ed1; reflexivity|exact Hp1].
Qed.

(* removeSegment: neutral events (Sync of the current segment, removal of the side file), then the
   removal of the segment file *)
Lemma remove_segment_shape id seq (s : st) (m : mem) :
  exists es, Forall neutral es /\
    s_trace (remove_segment flat_ops id seq s m) = s_trace s ++ es ++ [ERemove (FSeg id seq)] /\
    s_disk (remove_segment flat_ops id seq s m) = run_evs (es ++ [ERemove (FSeg id seq)]) (s_disk s).
Proof.
  unfold remove_segment.
  set (s1 := do_sync flat_ops s m).
  assert (N1 : nrun s s1).
  { unfold s1, do_sync. destruct (cur_seg m); [apply nrun_emit; apply neutral_sync|apply nrun_refl]. }
  set (s2 := if exists_file (s_disk s1) (FSegMeta id seq) then emit flat_ops (ERemove (FSegMeta id seq)) s1 else s1).
  assert (N2 : nrun s1 s2).
  { unfold s2. destruct (exists_file (s_disk s1) (FSegMeta id seq)); [|apply nrun_refl].
    apply nrun_emit. split; [reflexivity|split; [reflexivity|exact Logic.I]]. }
  destruct (nrun_trans _ _ _ N1 N2) as (es & T & D & Hn & _). exists es. split; [exact Hn|].
  cbn [with_mem s_trace s_disk]. rewrite s_trace_emit, s_disk_emit, T, D, fold_left_app, <- app_assoc.
  split; reflexivity.
Qed.

(* the three kinds of micro-step, by their events *)
Lemma compact_step_shape P (s : st) (c : cursor) s' c' :
  Inv P s -> (exists m, s_mem s = Some m /\ room m) ->
  compact_step flat_ops P s c = CMore s' c' ->
  (s_trace s' = s_trace s /\ s_disk s' = s_disk s) \/
  (exists r nid seq noff pre i2, rec_fits r /\ wr_pre_shape pre nid seq /\
     s_trace s' = s_trace s ++ pre ++ [EAppend nid seq noff r; EIndex i2] /\
     s_disk s' = run_evs (pre ++ [EAppend nid seq noff r; EIndex i2]) (s_disk s)) \/
  (exists es id seq, Forall neutral es /\
     s_trace s' = s_trace s ++ es ++ [ERemove (FSeg id seq)] /\
     s_disk s' = run_evs (es ++ [ERemove (FSeg id seq)]) (s_disk s)).
Proof.
  intros HI (m & Em & Hroom) E. unfold compact_step in E. rewrite Em in E.
  pose proof (Inv_InvLog P s m Em HI) as HL.
  destruct (c_src c) as [[[id seq] off]|].
  2:{ destruct (c_todo c) as [|[id seq] todo]; [discriminate|].
      left. assert (Es : s' = with_mem (set_msegs m (upd_mseg id (fun g => set_gmeta g (set_full (g_meta g))) (m_segs m))) s) by congruence.
      rewrite Es. split; reflexivity. }
  destruct (find_dseg id (s_disk s)) as [f|] eqn:Ef; [|discriminate].
  destruct (rec_at off (seg_entries f)) as [r|] eqn:Er.
  - destruct (rdel r); [left; assert (Es : s' = s) by congruence; rewrite Es; split; reflexivity|].
    cbn [ix_repoint flat_ops] in E.
    destruct (fl_repoint (m_idx m) (p_hash P (m_seed m) (rk r)) id (u32 off) id (u32 off));
      [|left; assert (Es : s' = s) by congruence; rewrite Es; split; reflexivity].
    assert (Hrf : rec_fits r).
    { destruct (find_dseg_In _ _ _ Ef) as [Hin _]. destruct HL as ((Hok & _) & _).
      rewrite Forall_forall in Hok. destruct (Hok f Hin) as (Hrecs & _). rewrite Forall_forall in Hrecs.
      apply Hrecs. apply (seg_entries_In_rec f off r). apply rec_at_In. exact Er. }
    destruct (write_record_shape P r s m HL Hroom Hrf) as (s1 & m1 & nid & noff & sq & pre & Ew & Et & Ed & Hsh).
    rewrite Ew in E.
    destruct (fl_repoint (m_idx m1) (p_hash P (m_seed m) (rk r)) id (u32 off) nid noff) as [i2|]; [|discriminate].
    right. left. exists r, nid, sq, noff, pre, i2. split; [exact Hrf|]. split; [exact Hsh|].
    assert (Es : s' = with_mem (set_idx m1 i2) (emit flat_ops (EIndex i2) s1)) by congruence.
    rewrite Es. cbn [with_mem s_trace s_disk]. rewrite s_trace_emit, s_disk_emit, Et, Ed. split.
    + rewrite <- !app_assoc. reflexivity.
    + rewrite !fold_left_app. reflexivity.
  - destruct (negb ((flen f =? off) && (f_seq f =? seq))); [discriminate|].
    right. right. destruct (remove_segment_shape id seq s m) as (es & Hn & T & D).
    exists es, id, seq. assert (Es : s' = remove_segment flat_ops id seq s m) by congruence.
    rewrite Es. split; [exact Hn|split; assumption].
Qed.

Lemma sync_only_images es : forall (d : disk) img,
  Forall is_sync es -> crash_image d es img -> img = d.
Proof.
  induction es as [|e es IH]; intros d img Hs H.
  - inversion H; subst. reflexivity.
  - inversion Hs as [|? ? (i & q & ->) Hs']; subst.
    inversion H as [d0 es0|d0 e0 es0 img0 H'|]; subst; [reflexivity|].
    apply (IH _ _ Hs' H').
Qed.

(* pickForCompaction + seal: Sync calls only; every image is the disk itself *)
Theorem crash_compact_pick P (s s' : st) (c : cursor) :
  Inv P s -> s_mem s <> None -> bac_ok (s_disk s) ->
  compact_pick flat_ops P (clear_trace s) = Some (s', c) ->
  Forall is_sync (s_trace s') /\ s_disk s' = s_disk s /\
  forall img, crash_image (s_disk s) (s_trace s') img ->
  img = s_disk s /\ DiskOK img /\ bac_ok img /\ d_lock img = true /\
  forall k, sget (abs img) k = sget (abs (s_disk s)) k.
Proof.
  intros HI Hm Hb E. pose proof (Inv_Good P s HI Hm Hb) as (G1 & G2 & G3).
  destruct (s_mem s) as [m|] eqn:Em; [|congruence].
  pose proof (Inv_InvLog P s m Em HI) as (_ & _ & Hinc & _).
  unfold compact_pick in E. cbn [clear_trace s_mem] in E. rewrite Em in E.
  destruct (cp_seal_all (pick P m) (clear_trace s) m Hinc) as (s1 & m1 & Ef & _ & Ed & _ & (es & Et & Hs) & _).
  rewrite Ef in E. injection E as <- _. cbn [with_mem s_trace s_disk]. cbn [clear_trace s_trace s_disk app] in Et, Ed.
  rewrite Et, Ed. split; [exact Hs|]. split; [reflexivity|].
  intros img Himg. rewrite (sync_only_images es _ _ Hs Himg).
  split; [reflexivity|]. split; [exact G1|]. split; [exact G2|]. split; [exact G3|]. reflexivity.
Qed.

(* one micro-step of Compact: start of a segment / skip of a dead record (no event), promotion of a
   live record (writeRecord of a COPY, then the index), removal of the exhausted segment *)
Theorem crash_compact_step P (s : st) (c : cursor) s' c' :
  Inv P s -> CInv s c -> (exists m, s_mem s = Some m /\ room m) -> bac_ok (s_disk s) ->
  compact_step flat_ops P (clear_trace s) c = CMore s' c' ->
  forall img, crash_image (s_disk s) (s_trace s') img ->
  DiskOK img /\ bac_ok img /\ d_lock img = true /\ forall k, sget (abs img) k = sget (abs (s_disk s)) k.
Proof.
  intros HI HC Hroom Hb E img Himg.
  assert (Hmn : s_mem s <> None) by (destruct Hroom as (m & -> & _); discriminate).
  pose proof (Inv_Good P s HI Hmn Hb) as Hg.
  assert (HC' : CInv (clear_trace s) c) by exact HC.
  pose proof (compact_step_ok_ex P (clear_trace s) c (Inv_clear P s HI) HC' Hroom) as Hpost.
  rewrite E in Hpost. destruct Hpost as (HI' & _ & Hm' & Habs & _ & _ & _ & Hbac').
  cbn [clear_trace s_disk] in Habs, Hbac'.
  assert (Hb' : bac_ok (s_disk s')) by (unfold bac_ok; rewrite Hbac'; exact Hb).
  pose proof (Inv_Good P s' HI' Hm' Hb') as Hg'.
  destruct (compact_step_shape P (clear_trace s) c s' c' (Inv_clear P s HI) Hroom E)
    as [(T & _)|[(r & nid & sq & noff & pre & i2 & Hrf & Hsh & T & D)|(es & id & seq & Hn & T & D)]];
    cbn [clear_trace s_trace s_disk] in T; try rewrite app_nil_l in T.
  - rewrite T in Himg. inversion Himg; subst. destruct Hg as (G1 & G2 & G3).
    split; [exact G1|]. split; [exact G2|]. split; [exact G3|]. reflexivity.
  - cbn [clear_trace s_disk] in D. rewrite T in Himg.
    rewrite <- (app_nil_r [EAppend nid sq noff r; EIndex i2]) in Himg.
    destruct (write_crash (s_disk s) (s_disk s') r nid sq noff pre i2 [] img Hg Hsh (or_introl eq_refl) D
                (proj1 Hg') (Inv_tails_nil P s' HI' Hm') Hrf Himg) as ((G1 & G2 & G3) & Ho).
    split; [exact G1|]. split; [exact G2|]. split; [exact G3|]. intros k.
    destruct Ho as [Ho|Ho]; rewrite (olog_abs _ _ Ho); [reflexivity|apply Habs].
  - cbn [clear_trace s_disk] in D. rewrite T in Himg.
    destruct (crash_image_split _ _ _ _ Himg) as [Hl|Hr].
    + destruct (neutral_images es (s_disk s) img Hn Hg Hl) as ((G1 & G2 & G3) & Ho).
      split; [exact G1|]. split; [exact G2|]. split; [exact G3|]. intros k. rewrite (olog_abs _ _ Ho). reflexivity.
    + destruct (crash_image_single _ (ERemove (FSeg id seq)) _ eq_refl Hr) as [-> | ->].
      * destruct (neutral_images es (s_disk s) _ Hn Hg (crash_image_full es _)) as ((G1 & G2 & G3) & Ho).
        split; [exact G1|]. split; [exact G2|]. split; [exact G3|]. intros k. rewrite (olog_abs _ _ Ho). reflexivity.
      * rewrite fold_left_app in D. cbn [fold_left] in D. rewrite <- D.
        destruct Hg' as (G1 & G2 & G3). split; [exact G1|]. split; [exact G2|]. split; [exact G3|exact Habs].
Qed.

Theorem C03_compact_step P seed (s : st) (c : cursor) s' c' img :
  params_ok P -> Inv P s -> CInv s c -> (exists m, s_mem s = Some m /\ room m) -> bac_ok (s_disk s) ->
  compact_step flat_ops P (clear_trace s) c = CMore s' c' ->
  crash_image (s_disk s) (s_trace s') img ->
  exists s2, db_open flat_ops P seed {| s_mem := None; s_disk := img; s_trace := [] |} = (s2, OOpened true) /\
    Inv P s2 /\ s_mem s2 <> None /\ bac_ok (s_disk s2) /\
    (forall k, sget (abs (s_disk s2)) k = sget (abs (s_disk s)) k) /\
    (forall k, sget (abs (s_disk s2)) k = sget (abs (s_disk s')) k).
Proof.
  intros HP HI HC Hroom Hb E Himg.
  destruct (crash_compact_step P s c s' c' HI HC Hroom Hb E img Himg) as (G1 & G2 & G3 & Hc).
  destruct (crash_then_recover P seed img HP G1 G2 G3) as (s2 & E2 & HI2 & Hm2 & Hb2 & Ha2).
  exists s2. split; [exact E2|]. split; [exact HI2|]. split; [exact Hm2|]. split; [exact Hb2|].
  assert (HC' : CInv (clear_trace s) c) by exact HC.
  pose proof (compact_step_ok P (clear_trace s) c (Inv_clear P s HI) HC' Hroom) as Hpost.
  rewrite E in Hpost. destruct Hpost as (_ & _ & _ & Habs). cbn [clear_trace s_disk] in Habs.
  split; intros k; rewrite Ha2, Hc; [reflexivity|symmetry; apply Habs].
Qed.

Theorem C03_compact_pick P seed (s s' : st) (c : cursor) img :
  params_ok P -> Inv P s -> s_mem s <> None -> bac_ok (s_disk s) ->
  compact_pick flat_ops P (clear_trace s) = Some (s', c) ->
  crash_image (s_disk s) (s_trace s') img ->
  exists s2, db_open flat_ops P seed {| s_mem := None; s_disk := img; s_trace := [] |} = (s2, OOpened true) /\
    Inv P s2 /\ s_mem s2 <> None /\ bac_ok (s_disk s2) /\
    (forall k, sget (abs (s_disk s2)) k = sget (abs (s_disk s)) k).
Proof.
  intros HP HI Hm Hb E Himg.
  destruct (crash_compact_pick P s s' c HI Hm Hb E) as (_ & _ & H).
  destruct (H img Himg) as (_ & G1 & G2 & G3 & Hc).
  destruct (crash_then_recover P seed img HP G1 G2 G3) as (s2 & E2 & HI2 & Hm2 & Hb2 & Ha2).
  exists s2. split; [exact E2|]. split; [exact HI2|]. split; [exact Hm2|]. split; [exact Hb2|].
  intros k. rewrite Ha2. apply Hc.
Qed.

(* ================================================================================================ *)
(* 8. Non-vacuity: a concrete database, a Put that has to start a new segment, a torn image of it   *)
Definition ex_P : params :=
  {| p_maxseg := 540; p_minseg := 0; p_frag := fun _ _ => false; p_sync := true;
     p_grow := fun _ _ => false; p_hash := fun _ _ => 0 |}.
Definition ex_k : key := [5].
Definition ex_v : val := [6; 7].
Definition ex_s1 : st := Eval vm_compute in fst (db_open flat_ops ex_P 7 (closed disk0)).
Definition ex_s2 : st := Eval vm_compute in fst (db_put flat_ops ex_P [1] [2] (clear_trace ex_s1)).
Definition ex_s3 : st := Eval vm_compute in fst (db_put flat_ops ex_P [3] [4] (clear_trace ex_s2)).
Definition ex_s4 : st := Eval vm_compute in fst (db_put flat_ops ex_P ex_k ex_v (clear_trace ex_s3)).
Definition ex_pre : list fsev := [ESync (FSeg 0 1); ECreate (FSeg 1 2); EHeader (FSeg 1 2)].
Definition ex_img : disk := Eval vm_compute in torn (run_evs ex_pre (s_disk ex_s3)) 1 2 (mkput ex_k ex_v) 5.

Lemma ex_open : db_open flat_ops ex_P 7 (closed disk0) = (ex_s1, OOpened false).
Proof. vm_compute. reflexivity. Qed.
Lemma ex_put1 : db_put flat_ops ex_P [1] [2] (clear_trace ex_s1) = (ex_s2, OOk).
Proof. vm_compute. reflexivity. Qed.
Lemma ex_put2 : db_put flat_ops ex_P [3] [4] (clear_trace ex_s2) = (ex_s3, OOk).
Proof. vm_compute. reflexivity. Qed.
Lemma ex_put3 : db_put flat_ops ex_P ex_k ex_v (clear_trace ex_s3) = (ex_s4, OOk).
Proof. vm_compute. reflexivity. Qed.

Lemma ex_params_ok : params_ok ex_P. Proof. reflexivity. Qed.

Lemma ex_bytes (l : bytes) : forallb (fun b => b <? 256) l = true -> Forall byte l.
Proof.
  intros H. apply Forall_forall. intros b Hb. rewrite forallb_forall in H. apply N.ltb_lt. apply H. exact Hb.
Qed.

Lemma ex_room (s : st) : match s_mem s with Some m => room_b m | None => false end = true ->
  exists m, s_mem s = Some m /\ room m.
Proof.
  destruct (s_mem s) as [m|]; [|discriminate]. intros H. exists m. split; [reflexivity|].
  intros g Hg. unfold room_b in H. rewrite forallb_forall in H. apply N.ltb_lt. apply H. exact Hg.
Qed.

(* the freshly created database *)
Lemma ex_inv1 : Inv ex_P ex_s1.
Proof.
  unfold Inv, ex_s1. cbn [s_mem s_disk].
  split; [|split; [|split; [|split; [|split; [|split; [|split; [reflexivity|split; reflexivity]]]]]]].
  - unfold DiskOK. cbn [d_segs map f_id f_seq]. split; [|split].
    + constructor; [|constructor]. unfold dseg_ok. cbn [f_recs f_tail f_hdr].
      split; [constructor|]. split; [apply tail_stuck_nil|]. split; [constructor|].
      split; [discriminate|reflexivity].
    + constructor; [intros []|constructor].
    + constructor; [intros []|constructor].
  - split.
    + intros g [<-|[]]. eexists. split; [left; reflexivity|]. repeat split.
    + intros f [<-|[]]. eexists. split; [left; reflexivity|]. repeat split.
  - split; [intros g' []|exact Logic.I].
  - split.
    + intros g [<-|[]]. cbn [g_seq m_maxseq]. lia.
    + intros g g' [<-|[]] [<-|[]] _. cbn [g_seq]. lia.
  - intros _. eexists. split; [left; reflexivity|]. split; reflexivity.
  - unfold index_agrees. cbn [m_idx map find option_map]. split; [constructor|]. split; [constructor|].
    intros k. reflexivity.
Qed.

Lemma ex_inv2 : Inv ex_P ex_s2.
Proof.
  pose proof (put_ok ex_P (clear_trace ex_s1) [1] [2] ex_params_ok (Inv_clear _ _ ex_inv1)) as H.
  rewrite ex_put1 in H. apply H.
  - apply ex_room. vm_compute. reflexivity.
  - apply ex_bytes. reflexivity.
  - apply ex_bytes. reflexivity.
  - vm_compute. discriminate.
  - vm_compute. discriminate.
Qed.

Lemma ex_inv3 : Inv ex_P ex_s3.
Proof.
  pose proof (put_ok ex_P (clear_trace ex_s2) [3] [4] ex_params_ok (Inv_clear _ _ ex_inv2)) as H.
  rewrite ex_put2 in H. apply H.
  - apply ex_room. vm_compute. reflexivity.
  - apply ex_bytes. reflexivity.
  - apply ex_bytes. reflexivity.
  - vm_compute. discriminate.
  - vm_compute. discriminate.
Qed.

Example crash_put_nonvacuous :
  (* the hypotheses of crash_put / C03_put *)
  params_ok ex_P /\ Inv ex_P ex_s3 /\ (exists m, s_mem ex_s3 = Some m /\ room m) /\ bac_ok (s_disk ex_s3) /\
  Forall byte ex_k /\ Forall byte ex_v /\ nlen ex_k <= max_key_len /\ nlen ex_v <= max_val_len /\
  db_put flat_ops ex_P ex_k ex_v (clear_trace ex_s3) = (ex_s4, OOk) /\
  (* the Put seals segment 0, creates segment 1 and appends there *)
  s_trace ex_s4 = ex_pre ++ [EAppend 1 2 512 (mkput ex_k ex_v);
                             EIndex (match s_mem ex_s4 with Some m => m_idx m | None => [] end);
                             ESync (FSeg 1 2)] /\
  (* a torn image: 5 of the 13 bytes of the record reached the new segment file *)
  crash_image (s_disk ex_s3) (s_trace ex_s4) ex_img /\
  ex_img = torn (run_evs ex_pre (s_disk ex_s3)) 1 2 (mkput ex_k ex_v) 5 /\
  (exists f, In f (d_segs ex_img) /\ nlen (f_tail f) = 5) /\
  (* it holds exactly the contents before the Put; the completed Put holds the new value *)
  abs ex_img = abs (s_disk ex_s3) /\ sget (abs ex_img) ex_k = None /\ sget (abs ex_img) [1] = Some [2] /\
  sget (abs (s_disk ex_s4)) ex_k = Some ex_v.
Proof.
  split; [exact ex_params_ok|]. split; [exact ex_inv3|].
  split; [apply ex_room; vm_compute; reflexivity|]. split; [constructor|].
  split; [apply ex_bytes; reflexivity|]. split; [apply ex_bytes; reflexivity|].
  split; [vm_compute; discriminate|]. split; [vm_compute; discriminate|].
  split; [exact ex_put3|]. split; [reflexivity|].
  split.
  - change (s_trace ex_s4) with (ex_pre ++ [EAppend 1 2 512 (mkput ex_k ex_v);
                             EIndex (match s_mem ex_s4 with Some m => m_idx m | None => [] end);
                             ESync (FSeg 1 2)]).
    apply crash_image_app_r.
    change ex_img with (torn (run_evs ex_pre (s_disk ex_s3)) 1 2 (mkput ex_k ex_v) 5).
    apply ci_torn; reflexivity.
  - split; [reflexivity|]. split.
    + eexists. split; [right; left; reflexivity|reflexivity].
    + repeat split; vm_compute; reflexivity.
Qed.

(* ... and recovery from that image gives a consistent database with the old contents *)
Example crash_put_nonvacuous_recover :
  exists s2, db_open flat_ops ex_P 9 {| s_mem := None; s_disk := ex_img; s_trace := [] |} = (s2, OOpened true) /\
    Inv ex_P s2 /\ (forall k', sget (abs (s_disk s2)) k' = sget (abs (s_disk ex_s3)) k') /\
    sget (abs (s_disk s2)) ex_k = None /\ sget (abs (s_disk s2)) [3] = Some [4].
Proof.
  destruct crash_put_nonvacuous as (HP & HI & Hroom & Hb & Hbk & Hbv & Hk & Hv & Eput & _ & Himg & _ & _ & Eabs & _).
  destruct (crash_put ex_P ex_s3 ex_s4 ex_k ex_v OOk HP HI Hroom Hb Hbk Hbv Hk Hv Eput ex_img Himg) as (G1 & G2 & G3 & _).
  destruct (crash_then_recover ex_P 9 ex_img HP G1 G2 G3) as (s2 & E2 & HI2 & _ & _ & Ha2).
  exists s2. split; [exact E2|]. split; [exact HI2|].
  split; [intros k'; rewrite Ha2, Eabs; reflexivity|]. rewrite !Ha2. split; vm_compute; reflexivity.
Qed.

(* ================================================================================================ *)

Print Assumptions crash_image_split.
Print Assumptions image_facts_indep.
Print Assumptions crash_facts_indep.
Print Assumptions crash_promote.
Print Assumptions crash_put.
Print Assumptions crash_delete.
Print Assumptions crash_sync.
Print Assumptions crash_then_recover.
Print Assumptions C03_put.
Print Assumptions C03_delete.
Print Assumptions C03_sync.
Print Assumptions crash_close.
Print Assumptions C03_close.
Print Assumptions crash_open_recover.
Print Assumptions C04_recover_after_crashed_recovery.
Print Assumptions C04_chain.
Print Assumptions C04_epoch.
Print Assumptions crash_compact_pick.
Print Assumptions crash_compact_step.
Print Assumptions C03_compact_step.
Print Assumptions C03_compact_pick.
Print Assumptions crash_put_nonvacuous.
Print Assumptions crash_put_nonvacuous_recover.
