(* DBProofsCompact.v -- compaction (Compact = pick + seal ; per picked segment: start, one record per
   critical section, remove) of the database model instantiated with the flat reference index is
   LOGICALLY INVISIBLE at every micro-step, with arbitrary writer operations (Put, Delete, Sync)
   interleaved between micro-steps, and leaks no files.  No axioms (Print Assumptions at the end).

   EXTRA INVARIANT (DBMeta.v): [MetaOK s] -- the in-memory DeleteRecords counter of every live segment
   is exact.  pickForCompaction trusts that counter; [Inv] does not constrain it, and
   [wrong_counter_refuted] below is a concrete [inv_b]-state in which db_compact resurrects a key.
   MetaOK is a hypothesis of compact_pick_ok / db_compact_ok only, and is preserved by every operation
   of this file.  After the pick, the cursor invariant is purely about the disk.

   Main definitions
     crem c            the picked segments still to be processed, the source first
     has_del d id      segment [id] holds a delete record
     sealed m x        x = (id, seq) is a live segment of m_segs whose meta says Full
     boundary f off    off is the offset of a record of f, or the end of its records
     CInv s c          the cursor invariant: every remaining picked segment is live and sealed; they are
                       ordered by increasing sequence id; for the source (id, seq, off): off is a record
                       boundary of its file and every index slot pointing into it has sl_off >= off; for
                       every remaining picked segment that holds a delete record, EVERY older live segment
                       is itself among the remaining ones (so, the list being ordered, precedes it; when its
                       turn comes it is the oldest live segment).  Slots into removed segments cannot exist
                       by Inv (no_slot_into_removed).
     files_exact s     d_orphans = [] /\ d_bac = []
     cmeasure d c      number of micro-steps left (one per record, two per segment)
     run_room P fuel s c, compact_room P s    [room] holds in every state the run goes through
     creach P s c ops s' c'   micro-steps and writer operations [ops] interleaved in any way

   Main theorems
     ptrl_remove_segment / absl_remove_segment   the list lemma (remove a segment from the ordered log)
     cp_write_record           writeRecord once more, with the frame (other segments untouched, the target is
                               not a sealed segment, new segments are newer than everything), no params_ok
     compact_pick_ok           (needs MetaOK)
     compact_step_ok_ex / compact_step_ok / compact_step_MetaOK / compact_step_files
     put_preserves_CInv, delete_preserves_CInv, sync_preserves_CInv (+ _MetaOK, _files variants;
       put_preserves / delete_preserves / sync_preserves give all of them at once)
     compact_run_ok, db_compact_ok   (the fuel of db_compact suffices: cmeasure decreases by exactly one)
     dir_exact, compact_removes_files, pick_preserves_files
     creach_ok, compact_no_resurrection
     pick_without_seal_refuted, remove_meta_wrong_ext_refuted, wrong_counter_refuted  (vm_compute) *)
From Coq Require Import ZArith Lia ZifyN ZifyNat ZifyBool Permutation Sorted.
From Pogreb Require Import Base BaseLemmas Crc Bytes Record RecordProofs Flat Spec DB DBInv DBLemmas DBProofsOps DBMeta DBProofsRecovery.
Ltac Zify.zify_post_hook ::= Z.div_mod_to_equations.

Local Notation disk := (@DB.disk flat).
Local Notation st := (@DB.st flat).
Local Notation mem := (@DB.mem flat).
Local Notation fsev := (@DB.fsev flat).


(* ================================================================================================ *)
(* A. The list-level lemma: removing a segment from the ordered log                                  *)
Definition cp_ptr_from (m : key -> option (N * N)) (l : list entry) := fold_left upd_ptr l m.

Lemma cp_ptrl_eq l : ptrl l = cp_ptr_from (fun _ => None) l. Proof. reflexivity. Qed.

Lemma cp_from_app m l1 l2 : cp_ptr_from m (l1 ++ l2) = cp_ptr_from (cp_ptr_from m l1) l2.
Proof. apply fold_left_app. Qed.

Lemma cp_from_cons m e l : cp_ptr_from m (e :: l) = cp_ptr_from (upd_ptr m e) l.
Proof. reflexivity. Qed.

Lemma cp_from_not_mentioned m l k :
  (forall e, In e l -> rk (snd e) <> k) -> cp_ptr_from m l k = m k.
Proof.
  revert m. induction l as [|e l IH]; intros m H; [reflexivity|].
  rewrite cp_from_cons, IH by (intros e' He'; apply H; right; exact He').
  rewrite upd_ptr_eq. destruct (key_eqb k (rk (snd e))) eqn:E; [|reflexivity].
  apply key_eqb_eq in E. exfalso. apply (H e (or_introl eq_refl)). congruence.
Qed.

Lemma cp_mention_dec (l : list entry) k :
  (exists e, In e l /\ rk (snd e) = k) \/ (forall e, In e l -> rk (snd e) <> k).
Proof.
  induction l as [|e l [IH|IH]].
  - right. intros e [].
  - left. destruct IH as (e0 & Hin & Hk). exists e0. split; [right; exact Hin|exact Hk].
  - destruct (list_eq_dec N.eq_dec (rk (snd e)) k) as [E|NE].
    + left. exists e. split; [left; reflexivity|exact E].
    + right. intros e' [<-|Hin]; [exact NE|apply IH; exact Hin].
Qed.

Lemma cp_from_mentioned m m' l k :
  (exists e, In e l /\ rk (snd e) = k) -> cp_ptr_from m l k = cp_ptr_from m' l k.
Proof.
  revert m m'. induction l as [|e l IH]; intros m m' (e0 & Hin & Hk); [destruct Hin|].
  rewrite !cp_from_cons. destruct (cp_mention_dec l k) as [Hm|Hn].
  - apply IH. exact Hm.
  - rewrite !cp_from_not_mentioned by exact Hn.
    destruct Hin as [->|Hin]; [|exfalso; exact (Hn e0 Hin Hk)].
    rewrite !upd_ptr_eq, Hk, key_eqb_refl. reflexivity.
Qed.

Lemma cp_from_points m l k id off :
  cp_ptr_from m l k = Some (id, off) ->
  ((forall e, In e l -> rk (snd e) <> k) /\ m k = Some (id, off)) \/
  exists r, In (id, off, r) l /\ rk r = k /\ rdel r = false.
Proof.
  revert m. induction l as [|e l IH]; intros m H.
  - left. split; [intros e []|exact H].
  - rewrite cp_from_cons in H. destruct (IH _ H) as [[Hn Hm]|(r & Hin & Hk & Hv)].
    + rewrite upd_ptr_eq in Hm. destruct (key_eqb k (rk (snd e))) eqn:E.
      * right. apply key_eqb_eq in E. destruct e as [[i o] r]. cbn [fst snd] in *.
        destruct (rdel r) eqn:Ed; [discriminate|]. inversion Hm; subst.
        exists r. split; [left; reflexivity|]. split; [reflexivity|exact Ed].
      * left. split; [|exact Hm]. apply key_eqb_neq in E.
        intros e' [<-|Hin]; [congruence|apply Hn; exact Hin].
    + right. exists r. split; [right; exact Hin|]. split; assumption.
Qed.

Lemma cp_from_puts_some m (S : list entry) k :
  (exists e, In e S /\ rk (snd e) = k) -> (forall e, In e S -> rdel (snd e) = false) ->
  cp_ptr_from m S k <> None.
Proof.
  revert m. induction S as [|e S IH]; intros m (e0 & Hin & Hk) Hput; [destruct Hin|].
  rewrite cp_from_cons. destruct (cp_mention_dec S k) as [Hm|Hn].
  - apply IH; [exact Hm|]. intros e' He'. apply Hput. right. exact He'.
  - rewrite cp_from_not_mentioned by exact Hn.
    destruct Hin as [->|Hin]; [|exfalso; exact (Hn e0 Hin Hk)].
    rewrite upd_ptr_eq, Hk, key_eqb_refl, (Hput e0 (or_introl eq_refl)). discriminate.
Qed.

(* Removing the entries S of one segment from the ordered log l1 ++ S ++ l2 does not change what a
   replay yields, provided no rebuilt pointer points into S and S holds delete records only if
   nothing older is left. *)
Theorem ptrl_remove_segment (l1 S l2 : list entry) :
  (forall k id off, ptrl (l1 ++ S ++ l2) k = Some (id, off) -> forall r, ~ In (id, off, r) S) ->
  (l1 = [] \/ forall e, In e S -> rdel (snd e) = false) ->
  forall k, ptrl (l1 ++ l2) k = ptrl (l1 ++ S ++ l2) k.
Proof.
  intros Hlive Hdel k. rewrite (cp_ptrl_eq (l1 ++ l2)), (cp_ptrl_eq (l1 ++ S ++ l2)), !cp_from_app.
  destruct (cp_mention_dec l2 k) as [M2|N2]; [apply cp_from_mentioned; exact M2|].
  rewrite !(cp_from_not_mentioned _ l2) by exact N2.
  destruct (cp_mention_dec S k) as [MS|NS]; [|rewrite (cp_from_not_mentioned _ S) by exact NS; reflexivity].
  specialize (Hlive k). rewrite cp_ptrl_eq, !cp_from_app in Hlive.
  rewrite (cp_from_not_mentioned _ l2) in Hlive by exact N2.
  destruct (cp_ptr_from (cp_ptr_from (fun _ => None) l1) S k) as [[id off]|] eqn:E.
  - exfalso. destruct (cp_from_points _ _ _ _ _ E) as [[Hn _]|(r & Hin & _)].
    + destruct MS as (e & Hin & Hk). exact (Hn e Hin Hk).
    + exact (Hlive id off eq_refl r Hin).
  - destruct Hdel as [->|Hput]; [reflexivity|].
    exfalso. exact (cp_from_puts_some _ S k MS Hput E).
Qed.

(* the same for the contents *)
Theorem absl_remove_segment (l1 S l2 : list entry) :
  (forall id off r r', In (id, off, r) (l1 ++ S ++ l2) -> In (id, off, r') (l1 ++ S ++ l2) -> r = r') ->
  (forall k id off, ptrl (l1 ++ S ++ l2) k = Some (id, off) -> forall r, ~ In (id, off, r) S) ->
  (l1 = [] \/ forall e, In e S -> rdel (snd e) = false) ->
  forall k, sget (absl (l1 ++ l2)) k = sget (absl (l1 ++ S ++ l2)) k.
Proof.
  intros Hfun Hlive Hdel k. pose proof (ptrl_remove_segment l1 S l2 Hlive Hdel k) as Hp.
  destruct (ptrl_absl (l1 ++ l2) k) as [A1 A2]. destruct (ptrl_absl (l1 ++ S ++ l2) k) as [B1 B2].
  destruct (ptrl (l1 ++ S ++ l2) k) as [[id off]|] eqn:E.
  - destruct (A1 id off Hp) as (r' & Hin' & _ & _ & G'). destruct (B1 id off eq_refl) as (r & Hin & _ & _ & G).
    assert (r' = r); [|congruence].
    apply (Hfun id off r' r); [|exact Hin]. apply in_app_or in Hin'. apply in_or_app.
    destruct Hin' as [H|H]; [left; exact H|right; apply in_or_app; right; exact H].
  - rewrite (A2 Hp), (B2 eq_refl). reflexivity.
Qed.


(* ================================================================================================ *)
(* B. writeRecord once more: what it does to the OTHER segments (frame), without params_ok           *)

(* counters may change, "full" may get set; identity, size and the delete-record counter stay *)
Definition mkeep (g g' : mseg) : Prop :=
  g_id g' = g_id g /\ g_seq g' = g_seq g /\ g_size g' = g_size g /\
  (sm_full (g_meta g) = true -> sm_full (g_meta g') = true) /\
  sm_delrec (g_meta g') = sm_delrec (g_meta g).

Lemma mkeep_refl g : mkeep g g. Proof. repeat split; auto. Qed.
Lemma mkeep_trans a b c : mkeep a b -> mkeep b c -> mkeep a c.
Proof.
  intros (A1 & A2 & A3 & A4 & A5) (B1 & B2 & B3 & B4 & B5).
  repeat split; try congruence. auto.
Qed.

Definition msim2 (m m' : mem) : Prop :=
  (exists F, (forall g, mkeep g (F g)) /\ m_segs m' = map F (m_segs m)) /\
  m_cur m' = m_cur m /\ m_cur_removed m' = m_cur_removed m /\ m_maxseq m' = m_maxseq m /\
  m_idx m' = m_idx m /\ m_seed m' = m_seed m.

Lemma msim2_refl (m : mem) : msim2 m m.
Proof.
  split; [|repeat split]. exists (fun g => g). split; [apply mkeep_refl|]. rewrite map_id. reflexivity.
Qed.

Lemma msim2_trans (a b c : mem) : msim2 a b -> msim2 b c -> msim2 a c.
Proof.
  intros ((F & HF & EF) & A1 & A2 & A3 & A4 & A5) ((G & HG & EG) & B1 & B2 & B3 & B4 & B5).
  split; [|repeat split; congruence].
  exists (fun g => G (F g)). split.
  - intros g. eapply mkeep_trans; [apply HF|apply HG].
  - rewrite EG, EF, map_map. reflexivity.
Qed.

Lemma msim2_mem_sim (m m' : mem) : msim2 m m' -> mem_sim m m'.
Proof.
  intros ((F & HF & EF) & A1 & A2 & A3 & _). split; [|auto].
  exists F. split; [|exact EF]. intros g. destruct (HF g) as (H1 & H2 & H3 & H4 & _). repeat split; auto.
Qed.

Lemma msim2_upd_mseg (m : mem) id F :
  (forall g, mkeep g (F g)) -> msim2 m (set_msegs m (upd_mseg id F (m_segs m))).
Proof.
  intros HF. split; [|repeat split]. exists (fun g => if g_id g =? id then F g else g). split; [|reflexivity].
  intros g. destruct (g_id g =? id); [apply HF|apply mkeep_refl].
Qed.

Lemma msim2_In (m m' : mem) g : msim2 m m' -> In g (m_segs m) -> exists g', In g' (m_segs m') /\ mkeep g g'.
Proof.
  intros ((F & HF & EF) & _) Hg. exists (F g). split; [rewrite EF; apply in_map; exact Hg|apply HF].
Qed.

Lemma msim2_In_inv (m m' : mem) g' : msim2 m m' -> In g' (m_segs m') -> exists g, In g (m_segs m) /\ mkeep g g'.
Proof.
  intros ((F & HF & EF) & _) Hg. rewrite EF in Hg. apply in_map_iff in Hg. destruct Hg as (g & <- & Hg).
  exists g. split; [exact Hg|apply HF].
Qed.

Definition full_g (g : mseg) : mseg := set_gmeta g (set_full (g_meta g)).
Lemma mkeep_full_g g : mkeep g (full_g g).
Proof. repeat split; auto. Qed.

(* sealSegment *)
Lemma cp_seal (s : st) (m : mem) id :
  exists s0 m0, seal flat_ops id s m = (s0, m0) /\ msim2 m m0 /\ s_disk s0 = s_disk s /\ s_mem s0 = s_mem s /\
    (s_trace s0 = s_trace s \/ exists i q, s_trace s0 = s_trace s ++ [ESync (FSeg i q)]) /\
    (forall g, In g (m_segs m) -> g_id g = id -> ids_increasing (m_segs m) ->
       exists g0, In g0 (m_segs m0) /\ mkeep g g0 /\ sm_full (g_meta g0) = true).
Proof.
  unfold seal. destruct (find_mseg id (m_segs m)) as [g|] eqn:Ef.
  - destruct (find_mseg_In _ _ _ Ef) as [Hg Hid].
    destruct (sm_full (g_meta g)) eqn:Efull.
    + exists s, m. split; [reflexivity|]. split; [apply msim2_refl|]. split; [reflexivity|]. split; [reflexivity|].
      split; [left; reflexivity|]. intros g' Hg' Hid' Hinc.
      assert (g' = g) by (apply (ids_increasing_unique _ g' g Hinc Hg' Hg); congruence). subst g'.
      exists g. split; [exact Hg|]. split; [apply mkeep_refl|exact Efull].
    + eexists _, _. split; [reflexivity|]. split; [apply msim2_upd_mseg; intros x; apply mkeep_full_g|].
      split; [reflexivity|]. split; [reflexivity|]. split; [right; eexists _, _; reflexivity|].
      intros g' Hg' Hid' Hinc. exists (full_g g'). split; [|split; [apply mkeep_full_g|reflexivity]].
      cbn [m_segs set_msegs]. apply In_upd_mseg. exists g'. split; [exact Hg'|].
      rewrite Hid', N.eqb_refl. reflexivity.
  - exists s, m. split; [reflexivity|]. split; [apply msim2_refl|]. split; [reflexivity|]. split; [reflexivity|].
    split; [left; reflexivity|]. intros g Hg Hid _. exfalso. exact (find_mseg_None _ _ Ef g Hg Hid).
Qed.

(* swapSegment: the segment list only grows, by a fresh segment that becomes the current one *)
Lemma cp_swap (s : st) (m : mem) s1 m1 :
  InvLog m (s_disk s) -> swap_segment flat_ops s m = (s1, m1) ->
  (forall g, In g (m_segs m) -> In g (m_segs m1)) /\
  (forall g1, In g1 (m_segs m1) -> In g1 (m_segs m) \/
     (g_meta g1 = smeta0 /\ m_cur m1 = (g_id g1, g_seq g1) /\
      forall g, In g (m_segs m) -> g_id g <> g_id g1 /\ g_seq g < g_seq g1)).
Proof.
  intros (Hd & Ha & Hinc & [Hs1 Hs2] & Hcur). unfold swap_segment.
  destruct (find (fun g => negb (sm_full (g_meta g))) (m_segs m)) as [g|] eqn:Efind; intros E; inversion E; subst s1 m1.
  - split; [auto|]. intros g1 Hg1. left. exact Hg1.
  - cbn [m_segs set_cur set_maxseq set_msegs m_cur]. split.
    + intros g Hg. apply insert_mseg_In. right. exact Hg.
    + intros g1 Hg1. apply insert_mseg_In in Hg1. destruct Hg1 as [->|Hg1]; [right|left; exact Hg1].
      cbn [g_meta g_id g_seq]. split; [reflexivity|]. split; [reflexivity|].
      intros g Hg. split; [apply lowest_free_fresh; assumption|]. pose proof (Hs1 g Hg). lia.
Qed.

(* after the prelude of writeRecord *)
Definition mpre (m m1 : mem) : Prop :=
  (forall g, In g (m_segs m) -> exists g1, In g1 (m_segs m1) /\ mkeep g g1) /\
  (forall g1, In g1 (m_segs m1) ->
     (exists g, In g (m_segs m) /\ mkeep g g1) \/
     (g_meta g1 = smeta0 /\ m_cur m1 = (g_id g1, g_seq g1) /\
      forall g, In g (m_segs m) -> g_id g <> g_id g1 /\ g_seq g < g_seq g1)).

Lemma mpre_refl (m : mem) : mpre m m.
Proof.
  split; intros g Hg; [exists g|left; exists g]; (split; [exact Hg|apply mkeep_refl]).
Qed.

Lemma cp_sim_swap (m m0 m1 : mem) (s0 s1 : st) :
  msim2 m m0 -> InvLog m0 (s_disk s0) -> swap_segment flat_ops s0 m0 = (s1, m1) -> mpre m m1.
Proof.
  intros Hsim HI E. destruct (cp_swap s0 m0 s1 m1 HI E) as [H1 H2]. split.
  - intros g Hg. destruct (msim2_In _ _ g Hsim Hg) as (g0 & Hg0 & Hk). exists g0. split; [apply H1; exact Hg0|exact Hk].
  - intros g1 Hg1. destruct (H2 g1 Hg1) as [Hg0|(A1 & A2 & A3)].
    + left. apply (msim2_In_inv _ _ g1 Hsim Hg0).
    + right. split; [exact A1|]. split; [exact A2|]. intros g Hg.
      destruct (msim2_In _ _ g Hsim Hg) as (g0 & Hg0 & (K1 & K2 & _)). rewrite <- K1, <- K2. apply A3. exact Hg0.
Qed.

Lemma cp_prelude_frame P r (s : st) (m : mem) s1 m1 :
  InvLog m (s_disk s) -> wr_prelude P r s m = (s1, m1) -> mpre m m1.
Proof.
  intros HI. unfold wr_prelude. destruct (cur_seg m) as [g|] eqn:Ec.
  - destruct (sm_full (g_meta g) || (p_maxseg P <? g_size g + rsize r)).
    + destruct (cp_seal s m (g_id g)) as (s0 & m0 & E0 & Hsim & Ed0 & _). rewrite E0. intros E.
      apply (cp_sim_swap m m0 m1 s0 s1 Hsim); [|exact E].
      rewrite Ed0. apply (mem_sim_InvLog m); [apply msim2_mem_sim; exact Hsim|exact HI].
    + intros E. inversion E; subst. apply mpre_refl.
  - intros E. apply (cp_sim_swap m m m1 s s1 (msim2_refl m) HI E).
Qed.

(* ---- the disk: every other segment file is untouched ---- *)
Lemma cp_find_create (d : disk) id seq id' :
  id' <> id -> find_dseg id' (apply_ev flat_ops d (ECreate (FSeg id seq))) = find_dseg id' d.
Proof.
  intros Hne. unfold find_dseg. rewrite d_segs_create_seg, find_app.
  destruct (find (fun s => f_id s =? id') (d_segs d)); [reflexivity|].
  cbn [find f_id]. destruct (N.eqb_spec id id'); [congruence|reflexivity].
Qed.

Lemma cp_find_header (d : disk) id seq id' :
  id' <> id -> find_dseg id' (apply_ev flat_ops d (EHeader (FSeg id seq))) = find_dseg id' d.
Proof. intros Hne. cbn [apply_ev]. apply find_dseg_upd_seg_other; [reflexivity|exact Hne]. Qed.

Lemma cp_find_append (d : disk) id seq off r id' :
  id' <> id -> find_dseg id' (apply_ev flat_ops d (EAppend id seq off r)) = find_dseg id' d.
Proof. intros Hne. rewrite apply_ev_append. apply find_dseg_upd_seg_other; [reflexivity|exact Hne]. Qed.

Lemma cp_find_pre (d : disk) pre id seq id' :
  wr_pre_shape pre id seq -> id' <> id -> find_dseg id' (fold_left (apply_ev flat_ops) pre d) = find_dseg id' d.
Proof.
  intros Hs Hne. destruct Hs as [->|[(i & q & ->)|[->|(i & q & ->)]]]; cbn [fold_left].
  - reflexivity.
  - rewrite apply_ev_sync. reflexivity.
  - rewrite cp_find_header, cp_find_create by exact Hne. reflexivity.
  - rewrite apply_ev_sync, cp_find_header, cp_find_create by exact Hne. reflexivity.
Qed.

(* ---- the whole of writeRecord ---- *)
Definition delrec_after (r : rec) (n : N) : N := if rdel r then u32 (n + 1) else n.

Theorem cp_write_record P r (s : st) (m : mem) :
  InvLog m (s_disk s) -> room m -> rec_fits r ->
  exists s' m' id off,
    write_record flat_ops P r s m = Some (s', m', id, off) /\
    InvLog m' (s_disk s') /\
    olog (s_disk s') = olog (s_disk s) ++ [(id, off, r)] /\
    off < 4294967296 /\
    m_idx m' = m_idx m /\ m_seed m' = m_seed m /\ s_mem s' = s_mem s /\
    same_rest (s_disk s) (s_disk s') /\
    (exists es, s_trace s' = s_trace s ++ es) /\
    (* the other segments, in memory and on disk *)
    (forall g, In g (m_segs m) -> g_id g <> id -> exists g', In g' (m_segs m') /\ mkeep g g') /\
    (forall g', In g' (m_segs m') -> g_id g' <> id -> exists g, In g (m_segs m) /\ mkeep g g') /\
    (forall g, In g (m_segs m) -> sm_full (g_meta g) = true -> g_id g <> id) /\
    (forall id', id' <> id -> find_dseg id' (s_disk s') = find_dseg id' (s_disk s)) /\
    (* the segment written to: an existing one or a fresh one, newer than everything *)
    (exists g', In g' (m_segs m') /\ g_id g' = id /\
       ((exists g, In g (m_segs m) /\ g_id g = id /\ g_seq g' = g_seq g /\
                   sm_delrec (g_meta g') = delrec_after r (sm_delrec (g_meta g))) \/
        ((forall g, In g (m_segs m) -> g_id g <> id /\ g_seq g < g_seq g') /\
         sm_delrec (g_meta g') = delrec_after r 0))).
Proof.
  intros HI Hroom Hr. rewrite write_record_eq.
  destruct (wr_prelude_spec P r s m HI Hroom)
    as (s1 & m1 & g & pre & E1 & HI1 & Hroom1 & Ec1 & Hnf1 & Eo1 & Hr1 & Em1 & Ei1 & Esd1 & Et1 & Ed1 & Hp1).
  pose proof (cp_prelude_frame P r s m s1 m1 HI E1) as [Hpre1 Hpre2].
  rewrite E1.
  destruct (append_step m1 (s_disk s1) r g HI1 Hroom1 Hr Ec1 Hnf1)
    as (f & Hfind & Efseq & Efl & Hlt & HI2 & Eo2 & Hrec).
  cbn zeta in HI2, Eo2, Hrec.
  unfold wr_tail. rewrite Ec1, Hfind, Efseq, Efl, !N.eqb_refl. cbn [andb negb].
  rewrite (u32_small _ Hlt).
  destruct (cur_seg_Some _ _ Ec1) as (_ & Hg1 & Hcid & _).
  assert (Hinc1 : ids_increasing (m_segs m1)) by apply HI1.
  set (Fm := fun x : mseg => set_gmeta (set_gsize x (g_size g + rsize r)) (count_rec r (g_meta x))).
  eexists _, _, (g_id g), (g_size g). split; [reflexivity|].
  rewrite s_disk_emit. cbn [m_segs set_msegs m_idx m_seed].
  split; [exact HI2|]. split; [rewrite Eo2, Eo1; reflexivity|]. split; [exact Hlt|].
  split; [exact Ei1|]. split; [exact Esd1|]. split; [rewrite s_mem_emit; exact Em1|].
  split; [eapply same_rest_trans; [exact Hr1|apply apply_ev_append_rest]|].
  split; [eexists; rewrite s_trace_emit, Et1, <- app_assoc; reflexivity|].
  split; [|split; [|split; [|split]]].
  - intros g0 Hg0 Hne. destruct (Hpre1 g0 Hg0) as (g1 & Hg1' & Hk). exists g1. split; [|exact Hk].
    apply In_upd_mseg. exists g1. split; [exact Hg1'|].
    destruct Hk as (K1 & _). destruct (N.eqb_spec (g_id g1) (g_id g)); [congruence|reflexivity].
  - intros g' Hg' Hne. apply In_upd_mseg in Hg'. destruct Hg' as (g1 & Hg1' & ->).
    destruct (N.eqb_spec (g_id g1) (g_id g)) as [E|Hne1]; [exfalso; apply Hne; exact E|].
    destruct (Hpre2 g1 Hg1') as [H|(_ & A2 & _)]; [exact H|].
    exfalso. apply Hne1. rewrite A2 in Hcid. cbn [fst] in Hcid. congruence.
  - intros g0 Hg0 Hfull E. destruct (Hpre1 g0 Hg0) as (g1 & Hg1' & (K1 & _ & _ & K4 & _)).
    assert (g1 = g) by (apply (ids_increasing_unique _ g1 g Hinc1 Hg1' Hg1); congruence). subst g1.
    rewrite (K4 Hfull) in Hnf1. discriminate.
  - intros id' Hne. rewrite cp_find_append by exact Hne. rewrite Ed1. apply (cp_find_pre _ _ _ _ _ Hp1 Hne).
  - exists (Fm g). split; [apply In_upd_mseg; exists g; split; [exact Hg1|rewrite N.eqb_refl; reflexivity]|].
    split; [reflexivity|].
    assert (Hdr : forall n, sm_delrec (g_meta g) = n -> sm_delrec (g_meta (Fm g)) = delrec_after r n).
    { intros n <-. unfold Fm, delrec_after, count_rec; cbn [g_meta set_gmeta]. destruct (rdel r); reflexivity. }
    destruct (Hpre2 g Hg1) as [(g0 & Hg0 & (K1 & K2 & _ & _ & K5))|(A1 & _ & A3)].
    + left. exists g0. split; [exact Hg0|]. split; [congruence|]. split; [cbn [Fm g_seq set_gmeta set_gsize]; congruence|].
      apply Hdr. exact K5.
    + right. split; [exact A3|]. apply Hdr. rewrite A1. reflexivity.
Qed.


(* ================================================================================================ *)
(* C. The cursor invariant                                                                           *)

(* the picked segments still to be processed, the source first *)
Definition crem (c : cursor) : list (N * N) :=
  match c_src c with Some (id, seq, _) => (id, seq) :: c_todo c | None => c_todo c end.

(* segment [id] holds a delete record *)
Definition has_del (d : disk) (id : N) : Prop := exists off r, rec_of d id off = Some r /\ rdel r = true.

(* a live segment that accepts no more writes *)
Definition sealed (m : mem) (x : N * N) : Prop :=
  exists g, In g (m_segs m) /\ g_id g = fst x /\ g_seq g = snd x /\ sm_full (g_meta g) = true.

(* [off] is the offset of a record of [f] or the end of its records *)
Definition boundary (f : dseg) (off : N) : Prop :=
  exists pre post, f_recs f = pre ++ post /\ off = header_size + recs_len pre.

Definition pair_lt (a b : N * N) : Prop := snd a < snd b.

Definition CInv (s : st) (c : cursor) : Prop :=
  exists m, s_mem s = Some m /\
    (* every remaining picked segment is live and sealed *)
    (forall x, In x (crem c) -> sealed m x) /\
    (* oldest first *)
    StronglySorted pair_lt (crem c) /\
    (* the source: the cursor is at a record boundary; what lies before it is no longer referenced *)
    (match c_src c with
     | None => True
     | Some (id, seq, off) =>
         (exists f, find_dseg id (s_disk s) = Some f /\ boundary f off) /\
         (forall sl, In sl (m_idx m) -> sl_seg sl = id -> off <= sl_off sl)
     end) /\
    (* a remaining picked segment with a delete record: every older live segment is also still to be
       processed (hence, the list being ordered, comes before it) *)
    (forall x, In x (crem c) -> has_del (s_disk s) (fst x) ->
       forall g, In g (m_segs m) -> g_seq g < snd x -> In (g_id g, g_seq g) (crem c)).

(* ---- generic list facts ---- *)
Lemma cp_sorted_app_inv {A} (R : A -> A -> Prop) (l1 l2 : list A) :
  StronglySorted R (l1 ++ l2) ->
  StronglySorted R l1 /\ StronglySorted R l2 /\ forall x y, In x l1 -> In y l2 -> R x y.
Proof.
  induction l1 as [|a l1 IH]; intros H.
  - split; [constructor|]. split; [exact H|]. intros x y [].
  - cbn [app] in H. inversion H as [|? ? H' Ha]; subst. destruct (IH H') as (I1 & I2 & I3).
    split; [|split; [exact I2|]].
    + constructor; [exact I1|]. apply Forall_forall. intros y Hy.
      apply (proj1 (Forall_forall _ _) Ha). apply in_or_app. left. exact Hy.
    + intros x y [<-|Hx] Hy; [|apply I3; assumption].
      apply (proj1 (Forall_forall _ _) Ha). apply in_or_app. right. exact Hy.
Qed.

Lemma cp_sorted_app {A} (R : A -> A -> Prop) (l1 l2 : list A) :
  StronglySorted R l1 -> StronglySorted R l2 -> (forall x y, In x l1 -> In y l2 -> R x y) ->
  StronglySorted R (l1 ++ l2).
Proof.
  induction l1 as [|a l1 IH]; intros H1 H2 H; [exact H2|].
  inversion H1 as [|? ? H1' Ha]; subst. cbn [app]. constructor.
  - apply IH; [exact H1'|exact H2|]. intros x y Hx Hy. apply H; [right; exact Hx|exact Hy].
  - apply Forall_forall. intros y Hy. apply in_app_or in Hy. destruct Hy as [Hy|Hy].
    + exact (proj1 (Forall_forall _ _) Ha y Hy).
    + apply H; [left; reflexivity|exact Hy].
Qed.

Lemma cp_sorted_map {A B} (R : A -> A -> Prop) (R' : B -> B -> Prop) (h : A -> B) l :
  (forall a b, R a b -> R' (h a) (h b)) -> StronglySorted R l -> StronglySorted R' (map h l).
Proof.
  intros HR. induction l as [|a l IH]; intros H; [constructor|].
  inversion H as [|? ? H' Ha]; subst. cbn [map]. constructor; [apply IH; exact H'|].
  apply Forall_forall. intros y Hy. apply in_map_iff in Hy. destruct Hy as (b & <- & Hb).
  apply HR. exact (proj1 (Forall_forall _ _) Ha b Hb).
Qed.

Lemma cp_sorted_head {A} (R : A -> A -> Prop) a l x : StronglySorted R (a :: l) -> In x l -> R a x.
Proof. intros H Hx. inversion H as [|? ? _ Ha]; subst. exact (proj1 (Forall_forall _ _) Ha x Hx). Qed.

Lemma cp_sorted_tail {A} (R : A -> A -> Prop) a l : StronglySorted R (a :: l) -> StronglySorted R l.
Proof. intros H. inversion H; assumption. Qed.

Lemma cp_sorted_le_lt {A} (key : A -> N) (l : list A) :
  NoDup (map key l) -> StronglySorted (fun a b => key a <= key b) l ->
  StronglySorted (fun a b => key a < key b) l.
Proof.
  induction l as [|x l IH]; intros Hnd Hs; [constructor|].
  cbn [map] in Hnd. inversion Hnd as [|? ? Hx Hnd']; subst. inversion Hs as [|? ? Hs' Hle]; subst.
  constructor; [apply IH; assumption|].
  apply Forall_forall. intros y Hy. fa Hle y Hy.
  assert (key x <> key y); [|lia]. intros E. apply Hx. rewrite E. apply in_map. exact Hy.
Qed.

Lemma cp_NoDup_map_on {A B} (key : A -> B) (l : list A) :
  NoDup l -> (forall a b, In a l -> In b l -> key a = key b -> a = b) -> NoDup (map key l).
Proof.
  induction l as [|x l IH]; intros Hnd Hinj; [constructor|].
  inversion Hnd as [|? ? Hx Hnd']; subst. cbn [map]. constructor.
  - intros HIn. apply in_map_iff in HIn. destruct HIn as (y & E & Hy).
    assert (y = x) by (apply Hinj; [right; exact Hy|left; reflexivity|exact E]). subst y. exact (Hx Hy).
  - apply IH; [exact Hnd'|]. intros a b Ha Hb. apply Hinj; right; assumption.
Qed.

(* ---- by_seq ---- *)
Local Notation mins_fold := (fold_left (fun acc g => insert_by_seq g acc)).

Lemma cp_insert_by_seq_perm g l : Permutation (insert_by_seq g l) (g :: l).
Proof.
  induction l as [|x l IH]; [reflexivity|]. cbn [insert_by_seq].
  destruct (g_seq g <? g_seq x); [reflexivity|]. rewrite IH. apply perm_swap.
Qed.
Lemma cp_mins_fold_perm l : forall acc, Permutation (mins_fold l acc) (acc ++ l).
Proof.
  induction l as [|x l IH]; intros acc; cbn [fold_left].
  - rewrite app_nil_r. reflexivity.
  - rewrite IH, cp_insert_by_seq_perm. cbn [app]. apply Permutation_middle.
Qed.
Lemma cp_by_seq_perm l : Permutation (by_seq l) l.
Proof. unfold by_seq. rewrite cp_mins_fold_perm. reflexivity. Qed.
Lemma cp_by_seq_In l g : In g (by_seq l) <-> In g l.
Proof. split; apply Permutation_in; [|symmetry]; apply cp_by_seq_perm. Qed.

Lemma cp_insert_by_seq_sorted g l :
  StronglySorted (fun a b => g_seq a <= g_seq b) l ->
  StronglySorted (fun a b => g_seq a <= g_seq b) (insert_by_seq g l).
Proof.
  induction l as [|x l IH]; intros Hs.
  - cbn [insert_by_seq]. constructor; constructor.
  - cbn [insert_by_seq]. inversion Hs as [|? ? Hs' Hx]; subst.
    destruct (N.ltb_spec (g_seq g) (g_seq x)) as [Hlt|Hge].
    + constructor; [exact Hs|]. constructor; [lia|].
      apply Forall_forall. intros y Hy. pose proof (proj1 (Forall_forall _ _) Hx y Hy) as Hxy. cbn beta in Hxy. lia.
    + constructor; [apply IH; exact Hs'|].
      apply Forall_forall. intros y Hy.
      apply (Permutation_in _ (cp_insert_by_seq_perm g l)) in Hy. destruct Hy as [<-|Hy]; [exact Hge|].
      exact (proj1 (Forall_forall _ _) Hx y Hy).
Qed.
Lemma cp_mins_fold_sorted l : forall acc,
  StronglySorted (fun a b => g_seq a <= g_seq b) acc ->
  StronglySorted (fun a b => g_seq a <= g_seq b) (mins_fold l acc).
Proof.
  induction l as [|x l IH]; intros acc Hs; [exact Hs|].
  cbn [fold_left]. apply IH. apply cp_insert_by_seq_sorted. exact Hs.
Qed.
Lemma cp_by_seq_sorted l : StronglySorted (fun a b => g_seq a <= g_seq b) (by_seq l).
Proof. apply cp_mins_fold_sorted. constructor. Qed.

(* sequence ids identify live segments *)
Lemma cp_seq_inj (m : mem) (d : disk) a b :
  InvLog m d -> In a (m_segs m) -> In b (m_segs m) -> g_seq a = g_seq b -> a = b.
Proof.
  intros ((_ & _ & Hnseq) & [Ha1 _] & Hinc & _) Ha Hb E.
  destruct (Ha1 a Ha) as (fa' & Hfa & A1 & A2 & _). destruct (Ha1 b Hb) as (fb & Hfb & B1 & B2 & _).
  assert (fa' = fb) by (apply (NoDup_map_inj f_seq _ fa' fb Hnseq Hfa Hfb); congruence). subst fb.
  apply (ids_increasing_unique _ a b Hinc Ha Hb). congruence.
Qed.

Lemma cp_id_seq (m : mem) (d : disk) a b :
  InvLog m d -> In a (m_segs m) -> In b (m_segs m) -> g_id a = g_id b -> a = b.
Proof. intros (_ & _ & Hinc & _). apply ids_increasing_unique. exact Hinc. Qed.

Definition lt_seq (a b : mseg) : Prop := g_seq a < g_seq b.

Lemma cp_by_seq_sorted_lt (m : mem) (d : disk) : InvLog m d -> StronglySorted lt_seq (by_seq (m_segs m)).
Proof.
  intros HI. apply (cp_sorted_le_lt g_seq); [|apply cp_by_seq_sorted].
  apply cp_NoDup_map_on.
  - apply (Permutation_NoDup (l := m_segs m)); [symmetry; apply cp_by_seq_perm|].
    apply (NoDup_map_inv g_id). apply ids_increasing_NoDup. apply HI.
  - intros a b Ha Hb. apply (proj1 (cp_by_seq_In _ _)) in Ha. apply (proj1 (cp_by_seq_In _ _)) in Hb. apply (cp_seq_inj m d a b HI Ha Hb).
Qed.

(* ---- pickForCompaction ---- *)
Lemma cp_pick_rev P rs : forall acc,
  StronglySorted lt_seq (rev rs) ->
  exists front, pick_rev P rs acc = front ++ acc /\
    StronglySorted lt_seq front /\ (forall x, In x front -> In x (rev rs)) /\
    (forall x, In x front -> 0 < sm_delrec (g_meta x) ->
       forall y, In y (rev rs) -> g_seq y < g_seq x -> In y front).
Proof.
  induction rs as [|g older IH]; intros acc Hs.
  - exists []. split; [reflexivity|]. split; [constructor|]. split; intros x [].
  - cbn [rev] in Hs |- *. destruct (cp_sorted_app_inv _ _ _ Hs) as (Hs1 & _ & Hlt).
    assert (Hmax : forall y, In y (rev older) -> g_seq y < g_seq g).
    { intros y Hy. apply (Hlt y g Hy). left. reflexivity. }
    assert (Hskip : exists front, pick_rev P older acc = front ++ acc /\
      StronglySorted lt_seq front /\ (forall x, In x front -> In x (rev older ++ [g])) /\
      (forall x, In x front -> 0 < sm_delrec (g_meta x) ->
         forall y, In y (rev older ++ [g]) -> g_seq y < g_seq x -> In y front)).
    { destruct (IH acc Hs1) as (front & E & F1 & F2 & F3). exists front.
      split; [exact E|]. split; [exact F1|]. split.
      - intros x Hx. apply in_or_app. left. apply F2. exact Hx.
      - intros x Hx Hd y Hy Hyx. apply in_app_or in Hy. destruct Hy as [Hy|[<-|[]]]; [apply (F3 x Hx Hd y Hy Hyx)|].
        pose proof (Hmax x (F2 x Hx)). lia. }
    cbn [pick_rev].
    destruct (u32 (g_size g) <? p_minseg P); [exact Hskip|].
    destruct (negb (p_frag P (sm_delbytes (g_meta g)) (g_size g))); [exact Hskip|].
    destruct (N.ltb_spec 0 (sm_delrec (g_meta g))) as [Hd|Hd].
    + exists (rev older ++ [g]). split; [rewrite <- app_assoc; reflexivity|]. split; [exact Hs|].
      split; [auto|]. intros x _ _ y Hy _. exact Hy.
    + destruct (IH (g :: acc) Hs1) as (front & E & F1 & F2 & F3). exists (front ++ [g]).
      split; [rewrite E, <- app_assoc; reflexivity|]. split; [|split].
      * apply cp_sorted_app; [exact F1|constructor; constructor|].
        intros x y Hx [<-|[]]. apply Hmax. apply F2. exact Hx.
      * intros x Hx. apply in_app_or in Hx. apply in_or_app. destruct Hx as [Hx|Hx]; [left; apply F2; exact Hx|right; exact Hx].
      * intros x Hx Hdx y Hy Hyx. apply in_app_or in Hx. destruct Hx as [Hx|[<-|[]]]; [|lia].
        apply in_or_app. left. apply in_app_or in Hy. destruct Hy as [Hy|[<-|[]]]; [apply (F3 x Hx Hdx y Hy Hyx)|].
        pose proof (Hmax x (F2 x Hx)). lia.
Qed.

Lemma cp_pick_spec P (m : mem) (d : disk) :
  InvLog m d ->
  StronglySorted lt_seq (pick P m) /\ (forall g, In g (pick P m) -> In g (m_segs m)) /\
  (forall x, In x (pick P m) -> 0 < sm_delrec (g_meta x) ->
     forall y, In y (m_segs m) -> g_seq y < g_seq x -> In y (pick P m)).
Proof.
  intros HI. unfold pick.
  assert (Hs : StronglySorted lt_seq (rev (rev (by_seq (m_segs m))))) by (rewrite rev_involutive; apply (cp_by_seq_sorted_lt m d HI)).
  destruct (cp_pick_rev P (rev (by_seq (m_segs m))) [] Hs) as (front & E & F1 & F2 & F3).
  rewrite E, app_nil_r. rewrite rev_involutive in F2, F3. split; [exact F1|]. split.
  - intros g Hg. apply cp_by_seq_In. apply F2. exact Hg.
  - intros x Hx Hd y Hy. apply F3; [exact Hx|exact Hd|]. apply cp_by_seq_In. exact Hy.
Qed.

(* ---- sealing everything picked ---- *)
Definition is_sync (e : fsev) : Prop := exists i q, e = ESync (FSeg i q).

Lemma msim2_ids_increasing (m m' : mem) : msim2 m m' -> ids_increasing (m_segs m) -> ids_increasing (m_segs m').
Proof.
  intros ((F & HF & EF) & _) H. rewrite EF. apply ids_increasing_map; [|exact H]. intros g. apply (HF g).
Qed.

Lemma cp_seal_all (picked : list mseg) : forall (s : st) (m : mem),
  ids_increasing (m_segs m) ->
  exists s1 m1,
    fold_left (fun sm g => seal flat_ops (g_id g) (fst sm) (snd sm)) picked (s, m) = (s1, m1) /\
    msim2 m m1 /\ s_disk s1 = s_disk s /\ s_mem s1 = s_mem s /\
    (exists es, s_trace s1 = s_trace s ++ es /\ Forall is_sync es) /\
    (forall g g0, In g picked -> In g0 (m_segs m) -> g_id g0 = g_id g ->
       exists g1, In g1 (m_segs m1) /\ mkeep g0 g1 /\ sm_full (g_meta g1) = true).
Proof.
  induction picked as [|g picked IH]; intros s m Hinc.
  - exists s, m. split; [reflexivity|]. split; [apply msim2_refl|]. split; [reflexivity|]. split; [reflexivity|].
    split; [exists []; rewrite app_nil_r; split; [reflexivity|constructor]|]. intros g g0 [].
  - cbn [fold_left fst snd].
    destruct (cp_seal s m (g_id g)) as (s0 & m0 & E0 & Hsim0 & Ed0 & Em0 & Et0 & Hfull0). rewrite E0.
    pose proof (msim2_ids_increasing _ _ Hsim0 Hinc) as Hinc0.
    destruct (IH s0 m0 Hinc0) as (s1 & m1 & E1 & Hsim1 & Ed1 & Em1 & (es & Et1 & Hes) & Hfull1).
    exists s1, m1. split; [exact E1|]. split; [eapply msim2_trans; eassumption|].
    split; [congruence|]. split; [congruence|]. split.
    + destruct Et0 as [Et0|(i & q & Et0)].
      * exists es. split; [congruence|exact Hes].
      * exists (ESync (FSeg i q) :: es). split; [rewrite Et1, Et0, <- app_assoc; reflexivity|].
        constructor; [eexists _, _; reflexivity|exact Hes].
    + intros x g0 [<-|Hx] Hg0 Eid.
      * destruct (Hfull0 g0 Hg0 Eid Hinc) as (g00 & Hg00 & K0 & F0).
        destruct (msim2_In _ _ g00 Hsim1 Hg00) as (g1 & Hg1 & K1).
        exists g1. split; [exact Hg1|]. split; [eapply mkeep_trans; eassumption|].
        destruct K1 as (_ & _ & _ & K4 & _). exact (K4 F0).
      * destruct (msim2_In _ _ g0 Hsim0 Hg0) as (g00 & Hg00 & K0).
        assert (Eid0 : g_id g00 = g_id x) by (destruct K0 as (K & _); congruence).
        destruct (Hfull1 x g00 Hx Hg00 Eid0) as (g1 & Hg1 & K1 & F1).
        exists g1. split; [exact Hg1|]. split; [eapply mkeep_trans; eassumption|exact F1].
Qed.

(* ---- a delete record shows in the counter ---- *)
Lemma cp_has_del_counter (s : st) (m : mem) g :
  MetaOK s -> s_mem s = Some m -> In g (m_segs m) -> has_del (s_disk s) (g_id g) -> 0 < sm_delrec (g_meta g).
Proof.
  unfold MetaOK. intros HM Em Hg (off & r & Hrec & Hdel). rewrite Em in HM.
  unfold rec_of in Hrec. destruct (find_dseg (g_id g) (s_disk s)) as [f|] eqn:Ef; [|discriminate].
  rewrite (HM g f Hg Ef). apply nlen_pos_iff.
  apply rec_at_In, seg_entries_In_rec in Hrec.
  assert (HIn : In r (filter rdel (f_recs f))) by (apply filter_In; split; assumption).
  intros E. rewrite E in HIn. destruct HIn.
Qed.

(* ================================================================================================ *)
(* pick + seal: one critical section                                                                  *)
Theorem compact_pick_ok P (s : st) :
  Inv P s -> MetaOK s -> s_mem s <> None ->
  exists s' c, compact_pick flat_ops P s = Some (s', c) /\ Inv P s' /\ CInv s' c /\ s_disk s' = s_disk s /\
    MetaOK s' /\ c_src c = None /\
    (exists es, s_trace s' = s_trace s ++ es /\ Forall is_sync es) /\
    (forall m m', s_mem s = Some m -> s_mem s' = Some m' -> room m -> room m').
Proof.
  intros HI HM Hm. destruct (s_mem s) as [m|] eqn:Em; [|congruence].
  destruct (Inv_open P s m Em HI) as (HL & Hidx & Hlock & Hindex & Hovf).
  destruct (cp_pick_spec P m (s_disk s) HL) as (Hsort & Hlive & Hold).
  assert (Hinc : ids_increasing (m_segs m)) by apply HL.
  destruct (cp_seal_all (pick P m) s m Hinc) as (s1 & m1 & E1 & Hsim & Ed1 & Em1 & Htr & Hfull).
  unfold compact_pick. rewrite Em, E1.
  eexists _, _. split; [reflexivity|].
  cbn [s_disk with_mem s_mem s_trace c_src].
  assert (HL1 : InvLog m1 (s_disk s1)).
  { rewrite Ed1. apply (mem_sim_InvLog m); [apply msim2_mem_sim; exact Hsim|exact HL]. }
  destruct Hsim as (HsimF & _ & _ & _ & Eidx & Eseed).
  split; [|split; [|split; [exact Ed1|split; [|split; [reflexivity|split; [exact Htr|]]]]]].
  - apply (Inv_intro P _ m1); [reflexivity|exact HL1| | | |]; cbn [s_disk with_mem]; rewrite Ed1;
      [rewrite Eidx, Eseed; exact Hidx|exact Hlock|congruence|exact Hovf].
  - exists m1. split; [reflexivity|]. unfold crem; cbn [c_src c_todo s_disk with_mem].
    split; [|split; [|split; [exact I|]]].
    + intros x Hx. apply in_map_iff in Hx. destruct Hx as (g & <- & Hg).
      destruct (Hfull g g Hg (Hlive g Hg) eq_refl) as (g1 & Hg1 & (K1 & K2 & _) & F1).
      exists g1. cbn [fst snd]. auto.
    + apply (cp_sorted_map lt_seq pair_lt); [|exact Hsort]. intros a b H. exact H.
    + intros x Hx Hdel g' Hg' Hlt. apply in_map_iff in Hx. destruct Hx as (g & <- & Hg). cbn [fst snd] in *.
      rewrite Ed1 in Hdel.
      pose proof (cp_has_del_counter s m g HM Em (Hlive g Hg) Hdel) as Hcnt.
      destruct HsimF as (F & HF & EF). rewrite EF in Hg'. apply in_map_iff in Hg'. destruct Hg' as (g0 & <- & Hg0).
      destruct (HF g0) as (K1 & K2 & _). rewrite K1, K2. rewrite K2 in Hlt.
      apply (in_map (fun g => (g_id g, g_seq g))). apply (Hold g Hg Hcnt g0 Hg0 Hlt).
  - unfold MetaOK. cbn [s_mem with_mem s_disk]. rewrite Ed1. intros g1 f Hg1 Hf.
    destruct HsimF as (F & HF & EF). rewrite EF in Hg1. apply in_map_iff in Hg1. destruct Hg1 as (g0 & <- & Hg0).
    destruct (HF g0) as (K1 & _ & _ & _ & K5). rewrite K5. rewrite K1 in Hf.
    unfold MetaOK in HM. rewrite Em in HM. apply (HM g0 f Hg0 Hf).
  - intros m0 m' E0 E' Hroom. inversion E0; subst m0. inversion E'; subst m'.
    intros g1 Hg1. destruct HsimF as (F & HF & EF). rewrite EF in Hg1. apply in_map_iff in Hg1.
    destruct Hg1 as (g0 & <- & Hg0). destruct (HF g0) as (_ & _ & K3 & _). rewrite K3. apply Hroom. exact Hg0.
Qed.


(* ================================================================================================ *)
(* D. Disk-level helpers                                                                             *)

(* ---- the cursor position inside the source segment ---- *)
Lemma cp_rec_at_boundary pre post :
  rec_at (header_size + recs_len pre) (with_offsets header_size (pre ++ post)) =
  match post with [] => None | r :: _ => Some r end.
Proof.
  rewrite with_offsets_app, rec_at_app, rec_at_out_of_range by lia.
  destruct post as [|r post]; [reflexivity|]. rewrite with_offsets_cons, rec_at_cons, N.eqb_refl. reflexivity.
Qed.

Lemma cp_entries_after pre r post p r' :
  In (p, r') (with_offsets header_size (pre ++ r :: post)) -> header_size + recs_len pre <= p ->
  p = header_size + recs_len pre \/ header_size + recs_len pre + rsize r <= p.
Proof.
  rewrite with_offsets_app, with_offsets_cons. intros HIn Hle. apply in_app_or in HIn.
  destruct HIn as [HIn|[E|HIn]].
  - apply with_offsets_In_range in HIn. pose proof (rsize_pos r'). lia.
  - inversion E. left. reflexivity.
  - apply with_offsets_In_range in HIn. right. lia.
Qed.

(* records from the cursor to the end *)
Definition remaining (f : dseg) (off : N) : nat :=
  length (filter (fun p => off <=? fst p) (seg_entries f)).

Lemma cp_remaining pre post f :
  f_recs f = pre ++ post -> remaining f (header_size + recs_len pre) = length post.
Proof.
  intros E. unfold remaining, seg_entries. rewrite E, with_offsets_app, filter_app.
  rewrite (filter_none _ (with_offsets header_size pre)), (filter_all _ (with_offsets _ post)).
  - cbn [app]. apply with_offsets_length.
  - intros [p r] HIn. apply with_offsets_In_range in HIn. cbn [fst]. apply N.leb_le. lia.
  - intros [p r] HIn. apply with_offsets_In_range in HIn. cbn [fst]. apply N.leb_gt. pose proof (rsize_pos r). lia.
Qed.

(* ---- find_dseg through the events of a removal ---- *)
Lemma cp_find_filter {A} (p q : A -> bool) l :
  (forall x, In x l -> p x = true -> q x = true) -> find p (filter q l) = find p l.
Proof.
  induction l as [|a l IH]; intros H; [reflexivity|]. cbn [filter find].
  assert (IH' : find p (filter q l) = find p l) by (apply IH; intros x Hx; apply H; right; exact Hx).
  destruct (q a) eqn:Eq.
  - cbn [find]. rewrite IH'. reflexivity.
  - destruct (p a) eqn:Ep; [|exact IH']. rewrite (H a (or_introl eq_refl) Ep) in Eq. discriminate.
Qed.

Lemma cp_find_remove_seg (d : disk) id seq id' :
  id' <> id -> find_dseg id' (apply_ev flat_ops d (ERemove (FSeg id seq))) = find_dseg id' d.
Proof.
  intros Hne. unfold find_dseg. rewrite d_segs_remove_seg. apply cp_find_filter.
  intros x _ Hx. apply N.eqb_eq in Hx. unfold is_seg. destruct (N.eqb_spec (f_id x) id); [congruence|reflexivity].
Qed.

Lemma cp_find_removed_seg (d : disk) id seq :
  (forall x, In x (d_segs d) -> f_id x = id -> f_seq x = seq) ->
  find_dseg id (apply_ev flat_ops d (ERemove (FSeg id seq))) = None.
Proof.
  intros H. apply find_dseg_None. intros x Hx E. rewrite d_segs_remove_seg in Hx.
  apply filter_In in Hx. destruct Hx as [Hx Hn]. unfold is_seg in Hn.
  rewrite E, (H x Hx E), !N.eqb_refl in Hn. discriminate.
Qed.

Lemma cp_same_log_find (d d' : disk) id :
  same_log d d' -> option_map seg_core (find_dseg id d') = option_map seg_core (find_dseg id d).
Proof.
  unfold same_log, find_dseg. generalize (d_segs d') as l'. generalize (d_segs d) as l.
  induction l as [|a l IH]; intros [|b l'] E; try discriminate; [reflexivity|].
  cbn [map] in E. pose proof (f_equal (@tl _) E) as E2. cbn [tl] in E2.
  pose proof (f_equal (hd (seg_core a)) E) as E1. cbn [hd] in E1. cbn [find].
  assert (Eid : f_id b = f_id a) by (unfold seg_core in E1; congruence). rewrite Eid.
  destruct (f_id a =? id); [cbn [option_map]; congruence|apply IH; exact E2].
Qed.

Lemma cp_same_log_find_Some (d d' : disk) id f :
  same_log d d' -> find_dseg id d = Some f -> exists f', find_dseg id d' = Some f' /\ seg_core f' = seg_core f.
Proof.
  intros H E. pose proof (cp_same_log_find d d' id H) as Hf. rewrite E in Hf.
  destruct (find_dseg id d') as [f'|]; [|discriminate]. exists f'. split; [reflexivity|].
  cbn [option_map] in Hf. congruence.
Qed.

(* ---- the entries of one segment inside the ordered log ---- *)
Lemma cp_filter_id (l : list dseg) f :
  NoDup (map f_id l) -> In f l -> filter (fun x => f_id x =? f_id f) l = [f].
Proof.
  induction l as [|a l IH]; intros Hnd HIn; [destruct HIn|].
  cbn [map] in Hnd. inversion Hnd as [|? ? Ha Hnd']; subst. cbn [filter]. destruct HIn as [->|HIn].
  - rewrite N.eqb_refl. f_equal. apply filter_none. intros y Hy.
    apply N.eqb_neq. intros E. apply Ha. rewrite <- E. apply in_map. exact Hy.
  - destruct (N.eqb_spec (f_id a) (f_id f)) as [E|_]; [|apply IH; assumption].
    exfalso. apply Ha. rewrite E. apply in_map. exact HIn.
Qed.

Definition in_seg (id : N) (e : entry) : bool := fst (fst e) =? id.

Lemma cp_olog_seg (d : disk) id :
  DiskOK d ->
  filter (in_seg id) (olog d) = match find_dseg id d with Some f => dseg_entries f | None => [] end.
Proof.
  intros (_ & Hnid & Hnseq). unfold olog.
  rewrite <- (concat_map_filter dseg_entries (fun x => f_id x =? id) (in_seg id)).
  2:{ intros x _ y Hy. apply dseg_entries_In in Hy. unfold in_seg. rewrite (proj1 Hy). reflexivity. }
  rewrite <- dby_seq_filter by exact Hnseq.
  destruct (find_dseg id d) as [f|] eqn:Ef.
  - apply find_dseg_In in Ef. destruct Ef as [Hf <-]. rewrite (cp_filter_id _ f Hnid Hf).
    unfold dby_seq. cbn [fold_left insert_dseg_seq map concat]. apply app_nil_r.
  - rewrite filter_none; [reflexivity|]. intros y Hy. apply N.eqb_neq. exact (proj1 (find_dseg_None _ _) Ef y Hy).
Qed.

Lemma cp_entries_recs f : map snd (dseg_entries f) = f_recs f.
Proof. unfold dseg_entries, seg_entries. rewrite map_map. cbn [snd]. apply with_offsets_map_snd. Qed.

(* the records of the segment written to *)
Lemma cp_write_target (d d' : disk) id off r f' :
  DiskOK d -> DiskOK d' -> olog d' = olog d ++ [(id, off, r)] -> find_dseg id d' = Some f' ->
  f_recs f' = match find_dseg id d with Some f => f_recs f | None => [] end ++ [r].
Proof.
  intros Hd Hd' Eo Ef'. pose proof (cp_olog_seg d' id Hd') as H'. pose proof (cp_olog_seg d id Hd) as H.
  rewrite Ef', Eo, filter_app in H'. cbn [filter] in H'. unfold in_seg at 2 in H'. cbn [fst] in H'.
  rewrite N.eqb_refl, H in H'. rewrite <- cp_entries_recs, <- H', map_app. cbn [map snd].
  destruct (find_dseg id d); [rewrite cp_entries_recs|]; reflexivity.
Qed.

Lemma cp_count_bound (rs : list rec) : 10 * nlen (filter rdel rs) <= recs_len rs.
Proof.
  induction rs as [|r rs IH]; [cbn; lia|]. cbn [filter]. rewrite recs_len_cons. pose proof (rsize_ge r).
  destruct (rdel r); [rewrite nlen_cons|]; lia.
Qed.

(* ---- the split of the ordered log around one segment ---- *)
Lemma cp_olog_split (d : disk) f :
  DiskOK d -> In f (d_segs d) ->
  exists A B,
    (forall x, In x A -> In x (d_segs d) /\ f_seq x < f_seq f /\ f_id x <> f_id f) /\
    (forall x, In x B -> In x (d_segs d) /\ f_id x <> f_id f) /\
    olog d = concat (map dseg_entries A) ++ dseg_entries f ++ concat (map dseg_entries B) /\
    olog (apply_ev flat_ops d (ERemove (FSeg (f_id f) (f_seq f)))) =
      concat (map dseg_entries A) ++ concat (map dseg_entries B).
Proof.
  intros (Hok & Hnid & Hnseq) Hf.
  assert (Hf' : In f (dby_seq (d_segs d))) by (apply dby_seq_In; exact Hf).
  destruct (in_split _ _ Hf') as (A & B & E).
  pose proof (dby_seq_sorted_lt _ Hnseq) as Hs. rewrite E in Hs.
  destruct (cp_sorted_app_inv _ _ _ Hs) as (_ & HsB & HAB).
  assert (HinA : forall x, In x A -> In x (d_segs d)).
  { intros x Hx. apply dby_seq_In. rewrite E. apply in_or_app. left. exact Hx. }
  assert (HinB : forall x, In x B -> In x (d_segs d)).
  { intros x Hx. apply dby_seq_In. rewrite E. apply in_or_app. right. right. exact Hx. }
  assert (Hid : forall x, In x (d_segs d) -> f_seq x <> f_seq f -> f_id x <> f_id f).
  { intros x Hx Hne Eid. apply Hne. f_equal. exact (NoDup_map_inj f_id _ x f Hnid Hx Hf Eid). }
  assert (HA : forall x, In x A -> In x (d_segs d) /\ f_seq x < f_seq f /\ f_id x <> f_id f).
  { intros x Hx. pose proof (HAB x f Hx (or_introl eq_refl)) as Hlt. cbn beta in Hlt.
    split; [apply HinA; exact Hx|]. split; [exact Hlt|]. apply Hid; [apply HinA; exact Hx|lia]. }
  assert (HB : forall x, In x B -> In x (d_segs d) /\ f_id x <> f_id f).
  { intros x Hx. pose proof (cp_sorted_head _ _ _ x HsB Hx) as Hlt. cbn beta in Hlt.
    split; [apply HinB; exact Hx|]. apply Hid; [apply HinB; exact Hx|lia]. }
  exists A, B. split; [exact HA|]. split; [exact HB|]. split.
  - unfold olog. rewrite E, map_app, concat_app. cbn [map concat]. reflexivity.
  - rewrite olog_remove_seg by exact Hnseq. rewrite E, filter_app. cbn [filter].
    unfold is_seg at 2. rewrite !N.eqb_refl. cbn [andb negb].
    rewrite (filter_all _ A), (filter_all _ B), map_app, concat_app; [reflexivity| |].
    + intros y Hy. unfold is_seg. destruct (N.eqb_spec (f_id y) (f_id f)) as [Ey|_]; [|reflexivity].
      exfalso. exact (proj2 (HB y Hy) Ey).
    + intros y Hy. unfold is_seg. destruct (N.eqb_spec (f_id y) (f_id f)) as [Ey|_]; [|reflexivity].
      exfalso. exact (proj2 (proj2 (HA y Hy)) Ey).
Qed.

(* removing a segment no pointer points into, that is the oldest one or holds no delete record *)
Theorem cp_remove_reads (d : disk) f :
  DiskOK d -> In f (d_segs d) ->
  (forall k i o, ptr_of d k = Some (i, o) -> i <> f_id f) ->
  ((forall x, In x (d_segs d) -> f_seq f <= f_seq x) \/ (forall r, In r (f_recs f) -> rdel r = false)) ->
  let d' := apply_ev flat_ops d (ERemove (FSeg (f_id f) (f_seq f))) in
  (forall k, ptr_of d' k = ptr_of d k) /\ (forall k, sget (abs d') k = sget (abs d) k).
Proof.
  intros Hd Hf Hptr Hold. destruct (cp_olog_split d f Hd Hf) as (A & B & HA & HB & Eo & Eo').
  cbn zeta. set (l1 := concat (map dseg_entries A)) in *. set (l2 := concat (map dseg_entries B)) in *.
  assert (Hlive : forall k id off, ptrl (l1 ++ dseg_entries f ++ l2) k = Some (id, off) ->
                   forall r, ~ In (id, off, r) (dseg_entries f)).
  { intros k id off Hp r HIn. rewrite <- Eo, <- ptr_of_eq in Hp. apply (Hptr k id off Hp).
    apply dseg_entries_In in HIn. exact (proj1 HIn). }
  assert (Hdel : l1 = [] \/ forall e, In e (dseg_entries f) -> rdel (snd e) = false).
  { destruct Hold as [Hmin|Hput].
    - left. destruct A as [|a A]; [reflexivity|]. exfalso.
      destruct (HA a (or_introl eq_refl)) as (Ha & Hlt & _). pose proof (Hmin a Ha). lia.
    - right. intros [[i o] r] HIn. apply dseg_entries_In in HIn. cbn [fst snd] in HIn |- *.
      apply Hput. apply (seg_entries_In_rec f o r). exact (proj2 HIn). }
  split; intros k.
  - rewrite !ptr_of_eq, Eo, Eo'. apply ptrl_remove_segment; assumption.
  - rewrite !abs_eq, Eo, Eo'. apply absl_remove_segment; try assumption.
    intros id off r r' H1 H2. rewrite <- Eo in H1, H2.
    apply (rec_of_olog d id off r (proj1 (proj2 Hd))) in H1. apply (rec_of_olog d id off r' (proj1 (proj2 Hd))) in H2.
    congruence.
Qed.

(* ---- promoteRecord: finding the slot ---- *)
Lemma cp_repoint_None l h seg off a b :
  fl_repoint l h seg off a b = None -> forall x, In x l -> fl_points h seg off x = false.
Proof.
  induction l as [|s l IH]; intros H x Hx; [destruct Hx|]. cbn [fl_repoint] in H.
  destruct (fl_points h seg off s) eqn:Ep; [discriminate|].
  destruct (fl_repoint l h seg off a b) eqn:Er; [discriminate|].
  destruct Hx as [<-|Hx]; [exact Ep|apply IH; [reflexivity|exact Hx]].
Qed.

Lemma cp_repoint_indep l h seg off a b a' b' :
  fl_repoint l h seg off a b = None -> fl_repoint l h seg off a' b' = None.
Proof.
  induction l as [|s l IH]; intros H; [reflexivity|]. cbn [fl_repoint] in H |- *.
  destruct (fl_points h seg off s); [discriminate|].
  destruct (fl_repoint l h seg off a b) eqn:Er; [discriminate|]. rewrite IH; reflexivity.
Qed.

Lemma cp_repoint_Some l h seg off a b : forall l',
  fl_repoint l h seg off a b = Some l' ->
  exists pre sl post, l = pre ++ sl :: post /\ l' = pre ++ repointed sl a b :: post /\
                      fl_points h seg off sl = true.
Proof.
  induction l as [|s l IH]; intros l' H; [discriminate|]. cbn [fl_repoint] in H.
  destruct (fl_points h seg off s) eqn:Ep.
  - inversion H; subst. exists [], s, l. auto.
  - destruct (fl_repoint l h seg off a b) as [l0|] eqn:Er; [|discriminate]. cbn [option_map] in H.
    inversion H; subst. destruct (IH l0 eq_refl) as (pre & sl & post & E1 & E2 & E3).
    exists (s :: pre), sl, post. rewrite E1, E2. auto.
Qed.

Lemma cp_points_inv h seg off sl : fl_points h seg off sl = true -> sl_h sl = h /\ sl_off sl = off /\ sl_seg sl = seg.
Proof.
  unfold fl_points. intros H. apply andb_true_iff in H. destruct H as [H H3].
  apply andb_true_iff in H. destruct H as [H1 H2].
  apply N.eqb_eq in H1. apply N.eqb_eq in H2. apply N.eqb_eq in H3. auto.
Qed.

(* ---- slots through a change of the disk that keeps their segment ---- *)
Lemma cp_slot_keep P (d d1 : disk) seed sl :
  (forall off, rec_of d1 (sl_seg sl) off = rec_of d (sl_seg sl) off) ->
  slot_ok P d seed sl -> slot_ok P d1 seed sl /\ slot_key d1 sl = slot_key d sl.
Proof.
  intros H Hok. split.
  - apply slot_ok_rec_of. apply slot_ok_rec_of in Hok. rewrite H. exact Hok.
  - unfold slot_key. rewrite !read_kv_rec_of, H. reflexivity.
Qed.


(* ================================================================================================ *)
(* E. One critical section of Compact                                                                *)

Definition metaok (m : mem) (d : disk) : Prop :=
  forall g f, In g (m_segs m) -> find_dseg (g_id g) d = Some f ->
    sm_delrec (g_meta g) = nlen (filter rdel (f_recs f)).

Lemma MetaOK_eq (s : st) m : s_mem s = Some m -> (MetaOK s <-> metaok m (s_disk s)).
Proof. unfold MetaOK, metaok. intros ->. reflexivity. Qed.

(* no side file without its segment, no leftover of a recovery *)
Definition files_exact (s : st) : Prop := d_orphans (s_disk s) = [] /\ d_bac (s_disk s) = [].

(* the work left: one step per record, two per segment (start, remove) *)
Definition seg_nrecs (d : disk) (id : N) : nat :=
  match find_dseg id d with Some f => length (f_recs f) | None => O end.
Definition todo_measure (d : disk) (l : list (N * N)) : nat :=
  fold_right (fun x n => (2 + seg_nrecs d (fst x) + n)%nat) O l.
Definition cmeasure (d : disk) (c : cursor) : nat :=
  (match c_src c with
   | Some (id, _, off) => S (match find_dseg id d with Some f => remaining f off | None => O end)
   | None => O
   end + todo_measure d (c_todo c))%nat.

Definition step_post (P : params) (s : st) (c : cursor) (s' : st) (c' : cursor) : Prop :=
  Inv P s' /\ CInv s' c' /\ s_mem s' <> None /\
  (forall k, sget (abs (s_disk s')) k = sget (abs (s_disk s)) k) /\
  S (cmeasure (s_disk s') c') = cmeasure (s_disk s) c /\
  (MetaOK s -> MetaOK s') /\ (files_exact s -> files_exact s') /\
  d_bac (s_disk s') = d_bac (s_disk s).

Lemma cp_todo_measure_ext (d d' : disk) l :
  (forall x, In x l -> seg_nrecs d' (fst x) = seg_nrecs d (fst x)) -> todo_measure d' l = todo_measure d l.
Proof.
  induction l as [|x l IH]; intros H; [reflexivity|]. cbn [todo_measure fold_right].
  fold (todo_measure d' l). fold (todo_measure d l). rewrite IH, (H x (or_introl eq_refl)); [reflexivity|].
  intros y Hy. apply H. right. exact Hy.
Qed.

(* ---- what a sealed segment looks like on disk ---- *)
Lemma cp_sealed_file (m : mem) (d : disk) x :
  InvLog m d -> sealed m x ->
  exists g f, In g (m_segs m) /\ g_id g = fst x /\ g_seq g = snd x /\ sm_full (g_meta g) = true /\
    find_dseg (fst x) d = Some f /\ In f (d_segs d) /\ f_id f = fst x /\ f_seq f = snd x /\
    f_hdr f = true /\ f_tail f = [] /\ flen f = header_size + recs_len (f_recs f).
Proof.
  intros (Hd & [Ha1 _] & _) (g & Hg & G1 & G2 & G3).
  destruct (Ha1 g Hg) as (f & Hf & F1 & F2 & F3 & F4 & F5).
  exists g, f. repeat split; try assumption; try congruence.
  - rewrite <- G1, <- F1. apply find_dseg_unique; [apply Hd|exact Hf].
  - apply flen_clean; assumption.
Qed.

Lemma cp_sealed_sim (m m' : mem) x : msim2 m m' -> sealed m x -> sealed m' x.
Proof.
  intros Hsim (g & Hg & G1 & G2 & G3). destruct (msim2_In _ _ g Hsim Hg) as (g' & Hg' & K1 & K2 & _ & K4 & _).
  exists g'. split; [exact Hg'|]. split; [congruence|]. split; [congruence|auto].
Qed.

(* two remaining picked segments with the same id are the same *)
Lemma cp_sealed_ids (m : mem) (d : disk) x y :
  InvLog m d -> sealed m x -> sealed m y -> fst x = fst y -> snd x = snd y.
Proof.
  intros HI (g & Hg & G1 & G2 & _) (g' & Hg' & G1' & G2' & _) E.
  assert (g = g') by (apply (cp_id_seq m d g g' HI Hg Hg'); congruence). subst g'. congruence.
Qed.

(* slots point to records *)
Lemma cp_slot_entry P (d : disk) seed sl f :
  slot_ok P d seed sl -> find_dseg (sl_seg sl) d = Some f ->
  exists r, In (sl_off sl, r) (seg_entries f) /\ rdel r = false /\ sl_h sl = p_hash P seed (rk r) /\
            slot_key d sl = rk r.
Proof.
  intros Hok Ef. destruct (slot_ok_read P d seed sl Hok) as (r & Er & Hd & _ & _ & Hh & _ & Hk).
  unfold rec_of in Er. rewrite Ef in Er. exists r. split; [apply rec_at_In; exact Er|]. auto.
Qed.

(* ---- case 1: start the next picked segment ---- *)
Lemma cp_step_start P (s : st) (c : cursor) (m : mem) id seq todo c' :
  Inv P s -> CInv s c -> s_mem s = Some m -> c_src c = None -> c_todo c = (id, seq) :: todo ->
  c_todo c' = todo -> c_src c' = Some (id, seq, header_size) ->
  step_post P s c (with_mem (set_msegs m (upd_mseg id (fun g => set_gmeta g (set_full (g_meta g))) (m_segs m))) s) c'.
Proof.
  intros HI (m0 & Em0 & C1 & C2 & _ & C4) Em Esrc Etodo Etodo' Esrc'.
  assert (m0 = m) by congruence. subst m0. clear Em0.
  destruct (Inv_open P s m Em HI) as (HL & Hidx & Hlock & Hindex & Hovf).
  set (m1 := set_msegs m (upd_mseg id (fun g => set_gmeta g (set_full (g_meta g))) (m_segs m))).
  assert (Hsim : msim2 m m1) by (apply msim2_upd_mseg; intros g; apply mkeep_full_g).
  assert (HL1 : InvLog m1 (s_disk s)) by (apply (mem_sim_InvLog m); [apply msim2_mem_sim; exact Hsim|exact HL]).
  assert (Erem : crem c = (id, seq) :: todo) by (unfold crem; rewrite Esrc; exact Etodo).
  assert (Erem' : crem c' = (id, seq) :: todo) by (unfold crem; rewrite Esrc', Etodo'; reflexivity).
  assert (Hsl : sealed m (id, seq)) by (apply C1; rewrite Erem; left; reflexivity).
  destruct (cp_sealed_file m (s_disk s) _ HL Hsl) as (g & f & Hg & G1 & G2 & G3 & Ef & Hf & F1 & F2 & F3 & F4 & F5).
  cbn [fst snd] in *.
  refine (conj _ (conj _ (conj _ (conj _ (conj _ (conj _ (conj _ _))))))); [| |discriminate|reflexivity| | | |reflexivity].
  - apply (Inv_intro P _ m1); [reflexivity|exact HL1|exact Hidx|exact Hlock|exact Hindex|exact Hovf].
  - exists m1. split; [reflexivity|]. rewrite Erem', Esrc'. cbn [s_disk with_mem]. rewrite <- Erem.
    split; [intros x Hx; apply (cp_sealed_sim m m1 x Hsim); apply C1; exact Hx|]. split; [exact C2|]. split; [split|].
    + exists f. split; [exact Ef|]. exists [], (f_recs f). split; [reflexivity|]. rewrite recs_len_nil. lia.
    + intros sl Hsl' Eseg. fa (proj1 Hidx) sl Hsl'. rewrite <- Eseg in Ef.
      destruct (cp_slot_entry P _ _ sl f Hfa Ef) as (r & HIn & _). apply seg_entries_range in HIn. lia.
    + intros x Hx Hdel g1 Hg1 Hlt. destruct (msim2_In_inv _ _ g1 Hsim Hg1) as (g0 & Hg0 & K1 & K2 & _).
      rewrite K1, K2. apply (C4 x Hx Hdel g0 Hg0). congruence.
  - unfold cmeasure. rewrite Esrc, Esrc', Etodo, Etodo'. cbn [s_disk with_mem todo_measure fold_right fst].
    fold (todo_measure (s_disk s) todo). unfold seg_nrecs. rewrite Ef.
    assert (E : remaining f header_size = length (f_recs f)).
    { pose proof (cp_remaining [] (f_recs f) f eq_refl) as H. rewrite recs_len_nil, N.add_0_r in H. exact H. }
    rewrite E. lia.
  - intros HM. apply (MetaOK_eq s m Em) in HM. apply (proj2 (MetaOK_eq (with_mem m1 s) m1 eq_refl)). cbn [s_disk with_mem].
    intros g1 f1 Hg1 Hf1. destruct (msim2_In_inv _ _ g1 Hsim Hg1) as (g0 & Hg0 & K1 & _ & _ & _ & K5).
    rewrite K5. apply (HM g0 f1 Hg0). congruence.
  - intros H. exact H.
Qed.

(* ---- case 2: the record under the cursor is dropped (delete record, or no slot points to it) ---- *)
Lemma cp_cursor_advance (f : dseg) off r :
  boundary f off -> rec_at off (seg_entries f) = Some r ->
  boundary f (off + rsize r) /\ remaining f off = S (remaining f (off + rsize r)) /\
  (forall p r', In (p, r') (seg_entries f) -> off <= p -> p = off \/ off + rsize r <= p).
Proof.
  intros (pre & post & E & ->) Hrec. unfold seg_entries in Hrec. rewrite E, cp_rec_at_boundary in Hrec.
  destruct post as [|r0 post]; [discriminate|]. inversion Hrec; subst r0.
  assert (E2 : f_recs f = (pre ++ [r]) ++ post) by (rewrite <- app_assoc; exact E).
  assert (Eoff : header_size + recs_len pre + rsize r = header_size + recs_len (pre ++ [r])) by (rewrite recs_len_snoc; lia).
  split; [|split].
  - exists (pre ++ [r]), post. split; [exact E2|exact Eoff].
  - rewrite Eoff, (cp_remaining pre (r :: post) f E), (cp_remaining (pre ++ [r]) post f E2). reflexivity.
  - intros p r' HIn Hle. unfold seg_entries in HIn. rewrite E in HIn. apply (cp_entries_after pre r post p r' HIn Hle).
Qed.

Lemma cp_step_skip P (s : st) (c : cursor) (m : mem) id seq off f r c' :
  Inv P s -> CInv s c -> s_mem s = Some m -> c_src c = Some (id, seq, off) ->
  find_dseg id (s_disk s) = Some f -> rec_at off (seg_entries f) = Some r ->
  (forall sl, In sl (m_idx m) -> sl_seg sl = id -> sl_off sl <> off) ->
  c_todo c' = c_todo c -> c_src c' = Some (id, seq, off + rsize r) ->
  step_post P s c s c'.
Proof.
  intros HI (m0 & Em0 & C1 & C2 & C3 & C4) Em Esrc Ef Hrec Hnoslot Etodo' Esrc'.
  assert (m0 = m) by congruence. subst m0. clear Em0.
  destruct (Inv_open P s m Em HI) as (HL & Hidx & _).
  rewrite Esrc in C3. destruct C3 as ((f0 & Ef0 & Hb) & Hslots).
  assert (f0 = f) by congruence. subst f0.
  destruct (cp_cursor_advance f off r Hb Hrec) as (Hb' & Hrem & Hafter).
  assert (Erem : crem c' = crem c) by (unfold crem; rewrite Esrc, Esrc', Etodo'; reflexivity).
  refine (conj HI (conj _ (conj _ (conj _ (conj _ (conj _ (conj _ _))))))); [|congruence|reflexivity| |auto|auto|reflexivity].
  - exists m. split; [exact Em|]. rewrite Erem, Esrc'. split; [exact C1|]. split; [exact C2|]. split; [split|exact C4].
    + exists f. split; [exact Ef|exact Hb'].
    + intros sl Hsl Eseg. pose proof (Hslots sl Hsl Eseg) as Hle. fa (proj1 Hidx) sl Hsl.
      rewrite <- Eseg in Ef. destruct (cp_slot_entry P _ _ sl f Hfa Ef) as (r' & HIn & _).
      destruct (Hafter _ _ HIn Hle) as [E|H]; [exfalso; exact (Hnoslot sl Hsl Eseg E)|exact H].
  - unfold cmeasure. rewrite Esrc, Esrc', Etodo', Ef, Hrem. reflexivity.
Qed.


(* ---- the counters after a write ---- *)
Lemma cp_metaok_write (m m' : mem) (d d' : disk) id off r :
  InvLog m d -> DiskOK d' -> ids_increasing (m_segs m') -> olog d' = olog d ++ [(id, off, r)] -> metaok m d ->
  (forall g', In g' (m_segs m') -> g_id g' <> id -> exists g, In g (m_segs m) /\ mkeep g g') ->
  (forall id', id' <> id -> find_dseg id' d' = find_dseg id' d) ->
  (exists g', In g' (m_segs m') /\ g_id g' = id /\
     ((exists g, In g (m_segs m) /\ g_id g = id /\ g_seq g' = g_seq g /\
                 sm_delrec (g_meta g') = delrec_after r (sm_delrec (g_meta g))) \/
      ((forall g, In g (m_segs m) -> g_id g <> id /\ g_seq g < g_seq g') /\
       sm_delrec (g_meta g') = delrec_after r 0))) ->
  metaok m' d'.
Proof.
  intros HL Hd' Hinc' Eo HM M2 D1 (gt & Hgt & Egt & M4) g' f' Hg' Ef'.
  pose proof HL as (Hd & [Ha1 Ha2] & _).
  destruct (N.eq_dec (g_id g') id) as [E|Hne].
  - assert (g' = gt) by (apply (ids_increasing_unique _ g' gt Hinc' Hg' Hgt); congruence). subst gt.
    rewrite E in Ef'.
    set (old := match find_dseg id d with Some f => f_recs f | None => [] end).
    assert (Erecs : f_recs f' = old ++ [r]) by apply (cp_write_target d d' id off r f' Hd Hd' Eo Ef').
    assert (Hcnt : sm_delrec (g_meta g') = delrec_after r (nlen (filter rdel old))).
    { destruct M4 as [(g & Hg & Eg & _ & Edr)|(Hfresh & Edr)].
      - rewrite Edr. f_equal. destruct (Ha1 g Hg) as (f0 & Hf0 & F1 & _).
        assert (Ef0 : find_dseg id d = Some f0) by (rewrite <- Eg, <- F1; apply find_dseg_unique; [apply Hd|exact Hf0]).
        unfold old. rewrite Ef0. apply (HM g f0 Hg). rewrite Eg. exact Ef0.
      - rewrite Edr. f_equal. unfold old.
        assert (En : find_dseg id d = None).
        { apply find_dseg_None. intros f0 Hf0 E0. destruct (Ha2 f0 Hf0) as (g & Hg & G1 & _).
          apply (proj1 (Hfresh g Hg)). congruence. }
        rewrite En. reflexivity. }
    apply find_dseg_In in Ef'. destruct Ef' as [Hf' _].
    fa (proj1 Hd') f' Hf'. destruct Hfa as (_ & _ & _ & _ & Hlt).
    pose proof (cp_count_bound (f_recs f')) as Hb.
    rewrite Hcnt. rewrite Erecs in Hb |- *. rewrite filter_app, nlen_app in Hb |- *. cbn [filter] in Hb |- *.
    unfold delrec_after. destruct (rdel r) eqn:Er; [|cbn [nlen]; lia].
    rewrite nlen_cons, nlen_nil in Hb |- *. apply u32_small. rewrite Erecs in Hlt. consts. lia.
  - destruct (M2 g' Hg' Hne) as (g & Hg & K1 & _ & _ & _ & K5). rewrite K5.
    rewrite (D1 (g_id g') Hne) in Ef'. apply (HM g f' Hg). congruence.
Qed.

(* ---- promoteRecord: the index after the record was copied to the end of the log ---- *)
Lemma cp_repoint_index P seed (d d1 : disk) pre sl post nid noff r :
  DiskOK d -> DiskOK d1 -> idx_agrees P seed (pre ++ sl :: post) d ->
  olog d1 = olog d ++ [(nid, noff, r)] ->
  rec_of d (sl_seg sl) (sl_off sl) = Some r ->
  idx_agrees P seed (pre ++ repointed sl nid noff :: post) d1 /\
  (forall k, sget (abs d1) k = sget (abs d) k) /\ slot_key d sl = rk r.
Proof.
  intros Hd Hd1 Hidx Eo Hrec. pose proof Hidx as (Hok & Hnd & Hptr).
  pose proof (olog_keep d d1 _ Hd Hd1 Eo) as Hkeep.
  pose proof (olog_new d d1 _ _ _ Hd1 Eo) as Hnew.
  assert (HslIn : In sl (pre ++ sl :: post)) by (apply in_or_app; right; left; reflexivity).
  fa Hok sl HslIn.
  destruct (slot_ok_read P d seed sl Hfa) as (r0 & Er0 & Hdel & Hks & Hvs & Hh & Hrk & Hkey).
  assert (r0 = r) by congruence. subst r0.
  set (sl' := repointed sl nid noff).
  assert (Hsl' : slot_ok P d1 seed sl').
  { apply slot_ok_rec_of. exists r. unfold sl', repointed; cbn [sl_seg sl_off sl_ks sl_vs sl_h]. auto. }
  set (kf := slot_key d) in *. set (kf1 := slot_key d1).
  assert (Hkf1 : kf1 sl' = rk r).
  { destruct (slot_ok_read P d1 seed sl' Hsl') as (r1 & Er1 & _ & _ & _ & _ & _ & Ek1).
    unfold kf1. rewrite Ek1. unfold sl', repointed in Er1; cbn [sl_seg sl_off] in Er1. congruence. }
  assert (Hone : forall x, In x (pre ++ sl :: post) -> slot_ok P d1 seed x /\ kf1 x = kf x).
  { intros x Hx. fa Hok x Hx. destruct (slot_keep P d d1 seed x Hkeep Hfa0) as (A & _ & B). auto. }
  assert (Hpre : forall x, In x pre -> In x (pre ++ sl :: post)) by (intros x Hx; apply in_or_app; left; exact Hx).
  assert (Hpost : forall x, In x post -> In x (pre ++ sl :: post)) by (intros x Hx; apply in_or_app; right; right; exact Hx).
  assert (Emap : map kf1 (pre ++ sl' :: post) = map kf (pre ++ sl :: post)).
  { rewrite !map_app. cbn [map]. rewrite Hkf1, Hkey. f_equal; [|f_equal]; apply map_ext_in; intros x Hx.
    - apply (Hone x (Hpre x Hx)).
    - apply (Hone x (Hpost x Hx)). }
  assert (Hnotin : ~ In (rk r) (map kf pre ++ map kf post)).
  { rewrite map_app in Hnd. cbn [map] in Hnd. rewrite Hkey in Hnd. apply (NoDup_remove_2 _ _ _ Hnd). }
  split; [|split; [|exact Hkey]].
  - split; [|split].
    + apply Forall_forall. intros x Hx. apply in_app_or in Hx. destruct Hx as [Hx|[<-|Hx]].
      * apply (Hone x (Hpre x Hx)).
      * exact Hsl'.
      * apply (Hone x (Hpost x Hx)).
    + fold kf1. rewrite Emap. exact Hnd.
    + intros k. fold kf1. rewrite (ptr_of_snoc d d1 _ Eo), upd_ptr_eq, Hptr. cbn [fst snd]. rewrite Hdel.
      fold kf. rewrite !find_app. cbn [find].
      rewrite (find_ext_in (khit kf1 k) (khit kf k) pre), (find_ext_in (khit kf1 k) (khit kf k) post).
      2:{ intros x Hx. unfold khit. rewrite (proj2 (Hone x (Hpost x Hx))). reflexivity. }
      2:{ intros x Hx. unfold khit. rewrite (proj2 (Hone x (Hpre x Hx))). reflexivity. }
      unfold khit at 2 5. rewrite Hkf1, Hkey.
      destruct (key_eqb k (rk r)) eqn:Ek.
      * apply key_eqb_eq in Ek. subst k.
        rewrite (proj2 (find_khit_None kf (rk r) pre)); [reflexivity|].
        intros HIn. apply Hnotin. apply in_or_app. left. exact HIn.
      * reflexivity.
  - intros k. rewrite (abs_snoc d d1 _ Eo), sget_apply_rec. cbn [snd]. rewrite Hdel.
    destruct (key_eqb k (rk r)) eqn:Ek; [|reflexivity]. apply key_eqb_eq in Ek. subst k.
    pose proof (idx_lookup P seed _ d (kf sl) Hd Hidx) as Hlk. fold kf in Hlk.
    rewrite (find_khit_In kf _ sl Hnd HslIn) in Hlk.
    destruct Hlk as (_ & v & Erd & Eg). rewrite Hkey in Eg. rewrite Eg. congruence.
Qed.


(* what a write (of a writer or of promoteRecord) does to the picked segments *)
Lemma cp_write_keeps_picked (m m' : mem) (d d' : disk) (l : list (N * N)) nid :
  InvLog m d -> ids_increasing (m_segs m') ->
  (forall g, In g (m_segs m) -> g_id g <> nid -> exists g', In g' (m_segs m') /\ mkeep g g') ->
  (forall g', In g' (m_segs m') -> g_id g' <> nid -> exists g, In g (m_segs m) /\ mkeep g g') ->
  (forall g, In g (m_segs m) -> sm_full (g_meta g) = true -> g_id g <> nid) ->
  (forall id', id' <> nid -> find_dseg id' d' = find_dseg id' d) ->
  (exists g', In g' (m_segs m') /\ g_id g' = nid /\
     ((exists g, In g (m_segs m) /\ g_id g = nid /\ g_seq g' = g_seq g) \/
      (forall g, In g (m_segs m) -> g_id g <> nid /\ g_seq g < g_seq g'))) ->
  (forall x, In x l -> sealed m x) ->
  (forall x, In x l -> has_del d (fst x) ->
     forall g, In g (m_segs m) -> g_seq g < snd x -> In (g_id g, g_seq g) l) ->
  (forall x, In x l -> sealed m' x /\ fst x <> nid) /\
  (forall x, In x l -> has_del d' (fst x) ->
     forall g, In g (m_segs m') -> g_seq g < snd x -> In (g_id g, g_seq g) l).
Proof.
  intros HL Hinc' M1 M2 M3 D1 (gt & Hgt & Egt & M4) C1 C4.
  assert (S1 : forall x, In x l -> sealed m' x /\ fst x <> nid).
  { intros x Hx. destruct (C1 x Hx) as (g & Hg & G1 & G2 & G3).
    pose proof (M3 g Hg G3) as Hne. destruct (M1 g Hg Hne) as (g' & Hg' & K1 & K2 & _ & K4 & _).
    split; [|congruence]. exists g'. split; [exact Hg'|]. split; [congruence|]. split; [congruence|auto]. }
  split; [exact S1|].
  intros x Hx Hdel g' Hg' Hlt. destruct (S1 x Hx) as [_ Hne].
  assert (Hdel0 : has_del d (fst x)).
  { destruct Hdel as (off & r & Hr & Hdr). exists off, r. split; [|exact Hdr].
    unfold rec_of in *. rewrite (D1 _ Hne) in Hr. exact Hr. }
  destruct (N.eq_dec (g_id g') nid) as [E|Hne'].
  - assert (g' = gt) by (apply (ids_increasing_unique _ g' gt Hinc' Hg' Hgt); congruence). subst gt.
    destruct M4 as [(g & Hg & G1 & G2)|Hfresh].
    + rewrite E, <- G1, G2. apply (C4 x Hx Hdel0 g Hg). congruence.
    + exfalso. destruct (C1 x Hx) as (gx & Hgx & _ & G2 & _). pose proof (proj2 (Hfresh gx Hgx)). lia.
  - destruct (M2 g' Hg' Hne') as (g & Hg & K1 & K2 & _). rewrite K1, K2. apply (C4 x Hx Hdel0 g Hg). congruence.
Qed.

(* ---- case 3: the record under the cursor is live: copy it to the end of the log, repoint its slot ---- *)
Lemma cp_step_promote P (s : st) (c : cursor) (m : mem) id seq off f r s1 m1 nid noff i2 c' :
  Inv P s -> CInv s c -> s_mem s = Some m -> room m -> c_src c = Some (id, seq, off) ->
  find_dseg id (s_disk s) = Some f -> rec_at off (seg_entries f) = Some r ->
  write_record flat_ops P r s m = Some (s1, m1, nid, noff) ->
  fl_repoint (m_idx m1) (p_hash P (m_seed m) (rk r)) id (u32 off) nid noff = Some i2 ->
  c_todo c' = c_todo c -> c_src c' = Some (id, seq, off + rsize r) ->
  step_post P s c (with_mem (set_idx m1 i2) (emit flat_ops (EIndex i2) s1)) c'.
Proof.
  intros HI (m0 & Em0 & C1 & C2 & C3 & C4) Em Hroom Esrc Ef Hrec Ew Erp Etodo' Esrc'.
  assert (m0 = m) by congruence. subst m0. clear Em0.
  destruct (Inv_open P s m Em HI) as (HL & Hidx & Hlock & Hindex & Hovf).
  assert (Hd : DiskOK (s_disk s)) by apply HL.
  rewrite Esrc in C3. destruct C3 as ((f0 & Ef0 & Hb) & Hslots).
  assert (f0 = f) by congruence. subst f0.
  destruct (cp_cursor_advance f off r Hb Hrec) as (Hb' & Hrem & Hafter).
  assert (Hrecof : rec_of (s_disk s) id off = Some r) by (unfold rec_of; rewrite Ef; exact Hrec).
  pose proof (rec_of_rec_fits _ _ _ _ Hd Hrecof) as Hfits.
  destruct (cp_write_record P r s m HL Hroom Hfits)
    as (s1' & m1' & nid' & noff' & Ew' & HL1 & Eo & Hnoff & Ei & Esd & Em1 & Hrest & _ & M1 & M2 & M3 & D1 & M4).
  rewrite Ew in Ew'. inversion Ew'; subst s1' m1' nid' noff'. clear Ew'.
  assert (Hd1 : DiskOK (s_disk s1)) by apply HL1.
  assert (Hoff32 : u32 off = off).
  { apply u32_small. apply rec_at_In, seg_entries_range in Hrec.
    apply find_dseg_In in Ef. fa (proj1 Hd) f (proj1 Ef). destruct Hfa as (_ & _ & _ & _ & Hlt). lia. }
  rewrite Ei, Hoff32 in Erp.
  destruct (cp_repoint_Some _ _ _ _ _ _ _ Erp) as (pre & sl & post & Eidx & Ei2 & Hpts).
  destruct (cp_points_inv _ _ _ _ Hpts) as (Hslh & Hsloff & Hslseg).
  assert (Erem : crem c' = crem c) by (unfold crem; rewrite Esrc, Esrc', Etodo'; reflexivity).
  assert (Hhead : In (id, seq) (crem c)) by (unfold crem; rewrite Esrc; left; reflexivity).
  set (d := s_disk s) in *. set (d1 := s_disk s1) in *.
  set (d' := apply_ev flat_ops d1 (EIndex i2)).
  assert (Hsl : same_log d1 d') by (apply same_log_segs; apply d_segs_index).
  assert (Hinc1 : ids_increasing (m_segs m1)) by apply HL1.
  assert (M4' : exists g', In g' (m_segs m1) /\ g_id g' = nid /\
     ((exists g, In g (m_segs m) /\ g_id g = nid /\ g_seq g' = g_seq g) \/
      (forall g, In g (m_segs m) -> g_id g <> nid /\ g_seq g < g_seq g'))).
  { destruct M4 as (gt & Hgt & Egt & [(g & A1 & A2 & A3 & _)|(A1 & _)]); exists gt; (split; [exact Hgt|split; [exact Egt|]]).
    - left. exists g. auto.
    - right. exact A1. }
  destruct (cp_write_keeps_picked m m1 d d1 (crem c) nid HL Hinc1 M1 M2 M3 D1 M4' C1 C4) as [S1 S4].
  destruct (S1 _ Hhead) as [_ Hne]. cbn [fst] in Hne.
  assert (Hfind' : forall id', id' <> nid -> find_dseg id' d' = find_dseg id' d).
  { intros id' H. rewrite <- (D1 id' H). apply find_dseg_segs. apply d_segs_index. }
  rewrite Eidx in Hidx. rewrite <- Hslseg, <- Hsloff in Hrecof.
  destruct (cp_repoint_index P (m_seed m) d d1 pre sl post nid noff r Hd Hd1 Hidx Eo Hrecof) as (Hidx2 & Habs & Hkey).
  rewrite <- Ei2 in Hidx2.
  destruct (apply_ev_index_frame d1 i2) as (_ & Fo & Fov & _ & _ & Fl & Fb). fold d' in Fo, Fov, Fl, Fb.
  destruct Hrest as (Ro & _ & Rov & _ & _ & Rl & Rb).
  refine (conj _ (conj _ (conj _ (conj _ (conj _ (conj _ (conj _ _))))))); [| |discriminate| | | | |]; cbn [s_disk with_mem]; rewrite ?s_disk_emit; fold d1; fold d'.
  - apply (Inv_intro P _ (set_idx m1 i2)); [reflexivity| | | | |]; cbn [s_disk with_mem m_seed m_idx set_idx]; rewrite ?s_disk_emit; fold d1; fold d'.
    + apply (InvLog_same_log _ _ _ Hsl). apply set_idx_InvLog. exact HL1.
    + rewrite Esd. apply (idx_agrees_same_log _ _ _ _ _ Hsl Hidx2).
    + congruence.
    + apply d_index_index.
    + congruence.
  - exists (set_idx m1 i2). split; [reflexivity|]. rewrite Erem, Esrc'. cbn [s_disk with_mem m_segs m_idx set_idx]. rewrite ?s_disk_emit. fold d1; fold d'.
    split; [intros x Hx; apply (S1 x Hx)|]. split; [exact C2|]. split; [split|].
    + exists f. split; [rewrite (Hfind' id Hne); exact Ef|exact Hb'].
    + intros x Hx Eseg. rewrite Ei2 in Hx. apply in_app_or in Hx.
      assert (Hold : In x (pre ++ sl :: post) -> x <> sl -> off + rsize r <= sl_off x).
      { intros HIn Hnsl. rewrite <- Eidx in HIn. pose proof (Hslots x HIn Eseg) as Hle.
        rewrite Eidx in HIn. fa (proj1 Hidx) x HIn.
        assert (Efx : find_dseg (sl_seg x) d = Some f) by (rewrite Eseg; exact Ef).
        destruct (cp_slot_entry P _ _ x f Hfa Efx) as (r' & HIn' & _ & _ & Hk').
        destruct (Hafter _ _ HIn' Hle) as [E|H]; [|exact H].
        exfalso. apply Hnsl.
        assert (Er' : r' = r).
        { apply rec_at_In in Hrec. unfold seg_entries in *. rewrite E in HIn'. eapply with_offsets_inj; eassumption. }
        apply (NoDup_map_inj (slot_key d) _ x sl (proj1 (proj2 Hidx)) HIn); [apply in_or_app; right; left; reflexivity|].
        rewrite Hk', Hkey, Er'. reflexivity. }
      assert (Hnd : NoDup (pre ++ sl :: post)) by (apply (NoDup_map_inv (slot_key d)); apply Hidx).
      destruct Hx as [Hx|[<-|Hx]].
      * apply Hold; [apply in_or_app; left; exact Hx|]. intros ->. apply (NoDup_remove_2 _ _ _ Hnd). apply in_or_app. left. exact Hx.
      * exfalso. unfold repointed in Eseg; cbn [sl_seg] in Eseg. congruence.
      * apply Hold; [apply in_or_app; right; right; exact Hx|]. intros ->. apply (NoDup_remove_2 _ _ _ Hnd). apply in_or_app. right. exact Hx.
    + intros x Hx Hdel g' Hg' Hlt. apply (S4 x Hx); [|exact Hg'|exact Hlt].
      destruct Hdel as (o & r0 & Hr0 & Hd0). exists o, r0. split; [|exact Hd0].
      rewrite <- (same_log_rec_of _ _ (fst x) o Hsl). exact Hr0.
  - intros k. rewrite (same_log_abs _ _ Hsl). apply Habs.
  - unfold cmeasure. rewrite Esrc, Esrc', Etodo'. rewrite (Hfind' id Hne). fold d. rewrite Ef, Hrem.
    rewrite (cp_todo_measure_ext d d' (c_todo c)); [reflexivity|].
    intros x Hx. unfold seg_nrecs. rewrite Hfind'; [reflexivity|].
    apply (S1 x). unfold crem. rewrite Esrc. right. exact Hx.
  - intros HM. apply (MetaOK_eq s m Em) in HM. apply (proj2 (MetaOK_eq (with_mem (set_idx m1 i2) (emit flat_ops (EIndex i2) s1)) _ eq_refl)).
    cbn [s_disk with_mem]. rewrite s_disk_emit. fold d1; fold d'.
    assert (HM1 : metaok m1 d1).
    { apply (cp_metaok_write m m1 d d1 nid noff r HL Hd1 Hinc1 Eo HM M2 D1 M4). }
    intros g0 f0 Hg0 Hf0. apply (HM1 g0 f0 Hg0). rewrite <- Hf0. symmetry. apply find_dseg_segs. apply d_segs_index.
  - unfold files_exact. cbn [s_disk with_mem]. rewrite s_disk_emit. fold d; fold d1; fold d'.
    intros [H1 H2]. split; congruence.
  - fold d. congruence.
Qed.


(* ---- removeSegment ---- *)
(* the disk before the segment file itself is removed: the side file, if there is one, is gone *)
Definition meta_removed (d : disk) (id seq : N) : disk :=
  if exists_file d (FSegMeta id seq) then apply_ev flat_ops d (ERemove (FSegMeta id seq)) else d.

Definition mem_removed (m : mem) (id seq : N) : mem :=
  let m1 := set_msegs m (filter (fun g => negb (g_id g =? id)) (m_segs m)) in
  if (fst (m_cur m) =? id) && (snd (m_cur m) =? seq) then set_cur m1 (m_cur m) true else m1.

Lemma cp_remove_segment_eq id seq (s : st) (m : mem) :
  s_disk (remove_segment flat_ops id seq s m) =
    apply_ev flat_ops (meta_removed (s_disk s) id seq) (ERemove (FSeg id seq)) /\
  s_mem (remove_segment flat_ops id seq s m) = Some (mem_removed m id seq).
Proof.
  unfold remove_segment, meta_removed, mem_removed. destruct (do_sync_spec s m) as (_ & E2 & _).
  cbn [s_disk s_mem with_mem]. rewrite s_disk_emit, E2. split; [|reflexivity].
  destruct (exists_file (s_disk s) (FSegMeta id seq)); [rewrite s_disk_emit, E2|rewrite E2]; reflexivity.
Qed.

Lemma cp_mem_removed_segs (m : mem) id seq :
  m_segs (mem_removed m id seq) = filter (fun g => negb (g_id g =? id)) (m_segs m) /\
  m_maxseq (mem_removed m id seq) = m_maxseq m /\ m_idx (mem_removed m id seq) = m_idx m /\
  m_seed (mem_removed m id seq) = m_seed m.
Proof. unfold mem_removed. destruct ((fst (m_cur m) =? id) && (snd (m_cur m) =? seq)); repeat split. Qed.

Lemma cp_fname_eqb_refl f : fname_eqb f f = true.
Proof. induction f; cbn [fname_eqb]; rewrite ?N.eqb_refl; auto. Qed.

Lemma cp_meta_removed (d : disk) id seq :
  let dm := meta_removed d id seq in
  same_log d dm /\ d_lock dm = d_lock d /\ d_index dm = d_index d /\ d_overflow dm = d_overflow d /\
  d_bac dm = d_bac d /\
  (d_orphans d = [] ->
   d_orphans dm = [] /\ forall x, In x (d_segs dm) -> is_seg id seq x = true -> gob_present (f_meta x) = false).
Proof.
  cbn zeta. unfold meta_removed. destruct (exists_file d (FSegMeta id seq)) eqn:Ex.
  - split; [apply apply_ev_same_log; reflexivity|]. split; [reflexivity|]. split; [reflexivity|].
    split; [reflexivity|]. split; [reflexivity|]. intros Ho. cbn [apply_ev file_removed d_orphans set_orphans]. rewrite Ho.
    split; [reflexivity|]. intros x Hx Hs. cbn [d_segs set_orphans] in Hx. rewrite d_segs_upd_seg in Hx.
    apply in_map_iff in Hx. destruct Hx as (y & <- & Hy).
    destruct (is_seg id seq y) eqn:Ey; [reflexivity|]. congruence.
  - split; [apply same_log_refl|]. repeat (split; [reflexivity|]). intros Ho. split; [exact Ho|].
    intros x Hx Hs. destruct (gob_present (f_meta x)) eqn:Eg; [|reflexivity]. exfalso.
    unfold exists_file in Ex. assert (Hex : existsb (fname_eqb (FSegMeta id seq)) (dir d) = true); [|congruence].
    apply existsb_exists. exists (FSegMeta id seq). split; [|apply cp_fname_eqb_refl].
    unfold dir. apply in_or_app. left. unfold seg_names. apply in_concat.
    exists (FSeg (f_id x) (f_seq x) :: (if gob_present (f_meta x) then [FSegMeta (f_id x) (f_seq x)] else [])).
    split; [apply (in_map (fun s => FSeg (f_id s) (f_seq s) :: (if gob_present (f_meta s) then [FSegMeta (f_id s) (f_seq s)] else []))); exact Hx|].
    rewrite Eg. right. left. unfold is_seg in Hs. apply andb_true_iff in Hs. destruct Hs as [H1 H2].
    apply N.eqb_eq in H1. apply N.eqb_eq in H2. congruence.
Qed.

Lemma cp_ids_increasing_filter p l : ids_increasing l -> ids_increasing (filter p l).
Proof.
  induction l as [|g l IH]; intros H; [exact I|]. destruct H as [H1 H2]. cbn [filter].
  destruct (p g); [|apply IH; exact H2]. split; [|apply IH; exact H2].
  intros g' Hg'. apply filter_In in Hg'. apply H1. exact (proj1 Hg').
Qed.

(* the log part of the invariant after the removal of a live segment *)
Lemma cp_remove_InvLog (m : mem) (dm : disk) id seq g :
  InvLog m dm -> In g (m_segs m) -> g_id g = id -> g_seq g = seq ->
  InvLog (mem_removed m id seq) (apply_ev flat_ops dm (ERemove (FSeg id seq))).
Proof.
  intros (Hd & [Ha1 Ha2] & Hinc & [Hs1 Hs2] & Hcur) Hg Gid Gseq.
  destruct (cp_mem_removed_segs m id seq) as (Esegs & Emax & _).
  set (d' := apply_ev flat_ops dm (ERemove (FSeg id seq))).
  assert (Ed' : d_segs d' = filter (fun s => negb (is_seg id seq s)) (d_segs dm)) by apply d_segs_remove_seg.
  assert (HIn : forall x, In x (m_segs (mem_removed m id seq)) <-> In x (m_segs m) /\ g_id x <> id).
  { intros x. rewrite Esegs, filter_In. split; intros [A B]; (split; [exact A|]).
    - intros E. rewrite E, N.eqb_refl in B. discriminate.
    - destruct (N.eqb_spec (g_id x) id); [contradiction|reflexivity]. }
  assert (Hsrc : forall x, In x (d_segs dm) -> f_id x = id -> f_seq x = seq).
  { intros x Hx E. destruct (Ha2 x Hx) as (gx & Hgx & G1 & G2).
    assert (gx = g) by (apply (ids_increasing_unique _ gx g Hinc Hgx Hg); congruence). subst gx. congruence. }
  destruct Hd as (Hok & Hnid & Hnseq).
  split; [|split; [|split; [|split]]].
  - split; [|split]; rewrite Ed'.
    + apply Forall_forall. intros x Hx. apply filter_In in Hx. exact (proj1 (Forall_forall _ _) Hok x (proj1 Hx)).
    + apply NoDup_map_filter. exact Hnid.
    + apply NoDup_map_filter. exact Hnseq.
  - split.
    + intros x Hx. apply HIn in Hx. destruct Hx as [Hx Hne]. destruct (Ha1 x Hx) as (f0 & Hf0 & F1 & F).
      exists f0. split; [|split; [exact F1|exact F]]. rewrite Ed'. apply filter_In. split; [exact Hf0|].
      unfold is_seg. destruct (N.eqb_spec (f_id f0) id); [congruence|reflexivity].
    + intros f0 Hf0. rewrite Ed' in Hf0. apply filter_In in Hf0. destruct Hf0 as [Hf0 Hns].
      destruct (Ha2 f0 Hf0) as (gx & Hgx & G1 & G2). exists gx. split; [|split; assumption].
      apply HIn. split; [exact Hgx|]. intros E. unfold is_seg in Hns.
      rewrite <- G1, E, N.eqb_refl, (Hsrc f0 Hf0), N.eqb_refl in Hns by congruence. discriminate.
  - rewrite Esegs. apply cp_ids_increasing_filter. exact Hinc.
  - split.
    + intros x Hx. apply HIn in Hx. rewrite Emax. apply Hs1. exact (proj1 Hx).
    + intros x y Hx Hy. apply HIn in Hx. apply HIn in Hy. apply Hs2; [exact (proj1 Hx)|exact (proj1 Hy)].
  - unfold cur_ok, mem_removed.
    destruct ((fst (m_cur m) =? id) && (snd (m_cur m) =? seq)) eqn:Ec; cbn [m_cur_removed m_cur set_cur set_msegs m_segs]; [discriminate|].
    intros Hr. destruct (Hcur Hr) as (gc & Hgc & G1 & G2). exists gc. split; [|split; assumption].
    apply filter_In. split; [exact Hgc|]. destruct (N.eqb_spec (g_id gc) id) as [E|_]; [|reflexivity]. exfalso.
    assert (gc = g) by (apply (ids_increasing_unique _ gc g Hinc Hgc Hg); congruence). subst gc.
    rewrite <- G1, <- G2, Gid, Gseq, !N.eqb_refl in Ec. discriminate.
Qed.

Lemma cp_has_rec_off f r : In r (f_recs f) -> exists off, rec_at off (seg_entries f) = Some r.
Proof.
  intros HIn. unfold seg_entries. rewrite <- (with_offsets_map_snd header_size (f_recs f)) in HIn.
  apply in_map_iff in HIn. destruct HIn as ([o r'] & E & HIn). cbn [snd] in E. subst r'.
  exists o. apply rec_at_with_offsets. exact HIn.
Qed.

(* ---- case 4: the end of the source segment: remove it ---- *)
Lemma cp_step_remove P (s : st) (c : cursor) (m : mem) id seq off f c' :
  Inv P s -> CInv s c -> s_mem s = Some m -> c_src c = Some (id, seq, off) ->
  find_dseg id (s_disk s) = Some f -> rec_at off (seg_entries f) = None ->
  c_todo c' = c_todo c -> c_src c' = None ->
  flen f = off /\ f_seq f = seq /\ step_post P s c (remove_segment flat_ops id seq s m) c'.
Proof.
  intros HI (m0 & Em0 & C1 & C2 & C3 & C4) Em Esrc Ef Hrec Etodo' Esrc'.
  assert (m0 = m) by congruence. subst m0. clear Em0.
  destruct (Inv_open P s m Em HI) as (HL & Hidx & Hlock & Hindex & Hovf).
  assert (Hd : DiskOK (s_disk s)) by apply HL.
  rewrite Esrc in C3. destruct C3 as ((f0 & Ef0 & Hb) & Hslots).
  assert (f0 = f) by congruence. subst f0. clear Ef0.
  assert (Erem : crem c = (id, seq) :: c_todo c) by (unfold crem; rewrite Esrc; reflexivity).
  assert (Erem' : crem c' = c_todo c) by (unfold crem; rewrite Esrc'; exact Etodo').
  rewrite Erem in C1, C2, C4.
  destruct (cp_sealed_file m _ _ HL (C1 _ (or_introl eq_refl)))
    as (g & f0 & Hg & G1 & G2 & G3 & Ef0 & Hf & F1 & F2 & F3 & F4 & F5). cbn [fst snd] in *.
  assert (f0 = f) by congruence. subst f0. clear Ef0.
  (* the cursor is at the end of the file *)
  assert (Eoff : off = header_size + recs_len (f_recs f)).
  { destruct Hb as (pre & post & E & ->). unfold seg_entries in Hrec. rewrite E, cp_rec_at_boundary in Hrec.
    destruct post; [|discriminate]. rewrite E, app_nil_r. reflexivity. }
  split; [congruence|]. split; [exact F2|].
  destruct (cp_remove_segment_eq id seq s m) as [Edisk Emem].
  set (s' := remove_segment flat_ops id seq s m) in *.
  set (d := s_disk s) in *. set (dm := meta_removed d id seq) in *.
  set (d' := apply_ev flat_ops dm (ERemove (FSeg id seq))) in *.
  set (m' := mem_removed m id seq) in *.
  destruct (cp_meta_removed d id seq) as (Hslm & Flock & Findex & Fovf & Fbac & Forph). fold dm in Hslm, Flock, Findex, Fovf, Fbac, Forph.
  destruct (cp_mem_removed_segs m id seq) as (Esegs & Emax & Eidx & Eseed). fold m' in Esegs, Emax, Eidx, Eseed.
  assert (HLm : InvLog m dm) by (apply (InvLog_same_log _ _ _ Hslm HL)).
  assert (Hdm : DiskOK dm) by apply HLm.
  pose proof (cp_remove_InvLog m dm id seq g HLm Hg G1 G2) as HL'. fold d' m' in HL'.
  (* the other segments *)
  assert (Hfind' : forall i, i <> id -> find_dseg i d' = find_dseg i dm) by (intros i Hi; apply cp_find_remove_seg; exact Hi).
  assert (Hrecof' : forall i o, i <> id -> rec_of d' i o = rec_of d i o).
  { intros i o Hi. rewrite <- (same_log_rec_of _ _ i o Hslm). unfold rec_of. rewrite (Hfind' i Hi). reflexivity. }
  assert (Hrecs' : forall i, i <> id -> option_map f_recs (find_dseg i d') = option_map f_recs (find_dseg i d)).
  { intros i Hi. rewrite (Hfind' i Hi). pose proof (cp_same_log_find d dm i Hslm) as H.
    destruct (find_dseg i dm) as [a|], (find_dseg i d) as [b|]; cbn [option_map] in *; try discriminate; [|reflexivity].
    f_equal. unfold seg_core in H. congruence. }
  (* no slot points into the source *)
  assert (Hnoslot : forall sl, In sl (m_idx m) -> sl_seg sl <> id).
  { intros sl Hsl E. pose proof (Hslots sl Hsl E) as Hle. fa (proj1 Hidx) sl Hsl.
    assert (Efx : find_dseg (sl_seg sl) d = Some f) by (rewrite E; exact Ef).
    destruct (cp_slot_entry P _ _ sl f Hfa Efx) as (r & HIn & _). apply seg_entries_range in HIn.
    pose proof (rsize_pos r). lia. }
  (* the file in dm *)
  destruct (cp_same_log_find_Some d dm id f Hslm Ef) as (f1 & Ef1 & Hcore).
  destruct (seg_core_inv _ _ Hcore) as (K1 & K2 & _ & K4 & _).
  destruct (find_dseg_In _ _ _ Ef1) as [Hf1 _].
  (* the remaining picked segments have other ids *)
  assert (Htodo_ne : forall x, In x (c_todo c) -> fst x <> id).
  { intros x Hx E. pose proof (cp_sorted_head _ _ _ x C2 Hx) as Hlt. unfold pair_lt in Hlt. cbn [snd] in Hlt.
    pose proof (cp_sealed_ids m d x (id, seq) HL (C1 x (or_intror Hx)) (C1 _ (or_introl eq_refl)) E) as Es.
    cbn [snd] in Es. lia. }
  (* reads *)
  assert (Hreads : (forall k, ptr_of d' k = ptr_of d k) /\ (forall k, sget (abs d') k = sget (abs d) k)).
  { rewrite <- (same_log_ptr_of _ _ Hslm), <- (same_log_abs _ _ Hslm).
    assert (Ed2 : d' = apply_ev flat_ops dm (ERemove (FSeg (f_id f1) (f_seq f1)))) by (unfold d'; congruence).
    rewrite Ed2.
    apply (cp_remove_reads dm f1 Hdm Hf1).
    - intros k i o Hp. rewrite (same_log_ptr_of _ _ Hslm) in Hp. destruct Hidx as (_ & _ & Hptr). rewrite Hptr in Hp.
      destruct (find (khit (slot_key d) k) (m_idx m)) as [sl|] eqn:Efind; [|discriminate].
      apply find_khit_Some in Efind. cbn [option_map] in Hp. inversion Hp as [[Hi Ho]]. rewrite K1, F1. apply Hnoslot. exact (proj1 Efind).
    - destruct (existsb rdel (f_recs f)) eqn:Edel.
      + left. apply existsb_exists in Edel. destruct Edel as (r & Hr & Hdr).
        destruct (cp_has_rec_off f r Hr) as (o & Ho).
        assert (Hhd : has_del d id) by (exists o, r; split; [unfold rec_of; rewrite Ef; exact Ho|exact Hdr]).
        intros x Hx. destruct (proj2 (proj1 (proj2 HLm)) x Hx) as (gx & Hgx & _ & Gs). rewrite K2, F2, <- Gs.
        destruct (N.le_gt_cases seq (g_seq gx)) as [H|H]; [exact H|]. exfalso.
        pose proof (C4 (id, seq) (or_introl eq_refl) Hhd gx Hgx H) as HIn. destruct HIn as [E|HIn].
        * inversion E. lia.
        * pose proof (cp_sorted_head _ _ _ _ C2 HIn) as Hlt. unfold pair_lt in Hlt. cbn [snd] in Hlt. lia.
      + right. rewrite K4. intros r Hr. destruct (rdel r) eqn:Er; [|reflexivity].
        assert (existsb rdel (f_recs f) = true); [|congruence]. apply existsb_exists. exists r. auto. }
  destruct Hreads as [Hptr' Habs'].
  (* the slots *)
  assert (Hslots' : forall sl, In sl (m_idx m) -> slot_ok P d' (m_seed m) sl /\ slot_key d' sl = slot_key d sl).
  { intros sl Hsl. fa (proj1 Hidx) sl Hsl. apply cp_slot_keep; [|exact Hfa].
    intros o. apply Hrecof'. apply Hnoslot. exact Hsl. }
  assert (HIn' : forall x, In x (m_segs m') <-> In x (m_segs m) /\ g_id x <> id).
  { intros x. rewrite Esegs, filter_In. split; intros [A B]; (split; [exact A|]).
    - intros E. rewrite E, N.eqb_refl in B. discriminate.
    - destruct (N.eqb_spec (g_id x) id); [contradiction|reflexivity]. }
  refine (conj _ (conj _ (conj _ (conj _ (conj _ (conj _ (conj _ _))))))).
  - apply (Inv_intro P s' m' Emem); rewrite Edisk; fold dm; fold d'.
    + exact HL'.
    + rewrite Eidx, Eseed. split; [|split].
      * apply Forall_forall. intros sl Hsl. apply (Hslots' sl Hsl).
      * rewrite (map_ext_in _ (slot_key d)); [apply Hidx|]. intros sl Hsl. apply (Hslots' sl Hsl).
      * intros k. rewrite Hptr'. destruct Hidx as (_ & _ & Hp). rewrite Hp. f_equal. apply find_ext_in.
        intros sl Hsl. unfold khit. rewrite (proj2 (Hslots' sl Hsl)). reflexivity.
    + unfold d'. rewrite apply_ev_d_lock by reflexivity. congruence.
    + unfold d'. rewrite apply_ev_d_index by reflexivity. congruence.
    + unfold d'. rewrite apply_ev_d_overflow by reflexivity. congruence.
  - exists m'. split; [exact Emem|]. rewrite Erem', Esrc', Edisk. fold dm; fold d'.
    split; [|split; [exact (cp_sorted_tail _ _ _ C2)|split; [exact I|]]].
    + intros x Hx. destruct (C1 x (or_intror Hx)) as (gx & Hgx & X1 & X2 & X3).
      exists gx. split; [|auto]. apply HIn'. split; [exact Hgx|]. rewrite X1. apply Htodo_ne. exact Hx.
    + intros x Hx Hdel gx Hgx Hlt. apply HIn' in Hgx. destruct Hgx as [Hgx Hne].
      assert (Hdel0 : has_del d (fst x)).
      { destruct Hdel as (o & r & Hr & Hdr). exists o, r. split; [|exact Hdr].
        rewrite <- (Hrecof' (fst x) o (Htodo_ne x Hx)). exact Hr. }
      destruct (C4 x (or_intror Hx) Hdel0 gx Hgx Hlt) as [E|H]; [|exact H]. inversion E. congruence.
  - congruence.
  - rewrite Edisk. fold dm; fold d'. exact Habs'.
  - unfold cmeasure. rewrite Esrc, Esrc', Etodo', Edisk. fold dm; fold d'; fold d. rewrite Ef.
    assert (Er0 : remaining f off = O).
    { destruct Hb as (pre & post & E & E2). rewrite E2, (cp_remaining pre post f E).
      rewrite E2 in Hrec. unfold seg_entries in Hrec. rewrite E, cp_rec_at_boundary in Hrec. destruct post; [reflexivity|discriminate]. }
    rewrite Er0. rewrite (cp_todo_measure_ext d d' (c_todo c)); [reflexivity|].
    intros x Hx. unfold seg_nrecs. pose proof (Hrecs' (fst x) (Htodo_ne x Hx)) as H.
    destruct (find_dseg (fst x) d') as [a|], (find_dseg (fst x) d) as [b|]; cbn [option_map] in H; try discriminate; [|reflexivity].
    congruence.
  - intros HM. apply (MetaOK_eq s m Em) in HM. apply (proj2 (MetaOK_eq s' m' Emem)). rewrite Edisk. fold dm; fold d'.
    intros gx fx Hgx Hfx. apply HIn' in Hgx. destruct Hgx as [Hgx Hne].
    pose proof (Hrecs' (g_id gx) Hne) as H. rewrite Hfx in H. fold d in HM.
    destruct (find_dseg (g_id gx) d) as [b|] eqn:Eb; cbn [option_map] in H; [|discriminate].
    rewrite (HM gx b Hgx Eb). congruence.
  - unfold files_exact. rewrite Edisk. fold dm; fold d'; fold d. intros [Ho Hb'].
    destruct (Forph Ho) as [Hom Hnometa]. split.
    + unfold d'. cbn [apply_ev file_removed d_orphans set_orphans]. rewrite Hom. cbn [app].
      apply concat_nil_Forall. apply Forall_forall. intros l Hl. apply in_map_iff in Hl. destruct Hl as (x & <- & Hx).
      apply filter_In in Hx. rewrite (Hnometa x (proj1 Hx) (proj2 Hx)). reflexivity.
    + unfold d'. rewrite apply_ev_d_bac by reflexivity. congruence.
  - rewrite Edisk. fold dm; fold d'. unfold d'. rewrite apply_ev_d_bac by reflexivity. exact Fbac.
Qed.


Lemma cp_slot_at P (d : disk) seed idx sl id off f r :
  Forall (slot_ok P d seed) idx -> In sl idx -> sl_seg sl = id -> sl_off sl = off ->
  find_dseg id d = Some f -> rec_at off (seg_entries f) = Some r ->
  rdel r = false /\ sl_h sl = p_hash P seed (rk r).
Proof.
  intros Hok Hsl Eseg Eoff Ef Hrec. fa Hok sl Hsl. rewrite <- Eseg in Ef.
  destruct (cp_slot_entry P d seed sl f Hfa Ef) as (r' & HIn & Hd & Hh & _).
  rewrite Eoff in HIn. apply rec_at_In in Hrec. unfold seg_entries in *.
  assert (r' = r) by (eapply with_offsets_inj; eassumption). subst r'. auto.
Qed.

(* ================================================================================================ *)
(* every micro-step of Compact: invariants kept, contents unchanged, work left decreases by one       *)
Theorem compact_step_ok_ex P (s : st) (c : cursor) :
  Inv P s -> CInv s c -> (exists m, s_mem s = Some m /\ room m) ->
  match compact_step flat_ops P s c with
  | CDone => c_src c = None /\ c_todo c = []
  | CFail _ => False
  | CMore s' c' => step_post P s c s' c'
  end.
Proof.
  intros HI HC (m & Em & Hroom). pose proof HC as (m0 & Em0 & C1 & C2 & C3 & C4).
  assert (m0 = m) by congruence. subst m0. clear Em0.
  destruct (Inv_open P s m Em HI) as (HL & Hidx & _). assert (Hd : DiskOK (s_disk s)) by apply HL.
  unfold compact_step. rewrite Em. destruct (c_src c) as [[[id seq] off]|] eqn:Esrc.
  - destruct C3 as ((f & Ef & Hb) & Hslots). rewrite Ef.
    destruct (rec_at off (seg_entries f)) as [r|] eqn:Hrec.
    + cbn zeta.
      assert (Hoff32 : u32 off = off).
      { apply u32_small. pose proof Hrec as Hrec'. apply rec_at_In, seg_entries_range in Hrec'.
        apply find_dseg_In in Ef. fa (proj1 Hd) f (proj1 Ef). destruct Hfa as (_ & _ & _ & _ & Hlt). lia. }
      destruct (rdel r) eqn:Edel.
      * apply (cp_step_skip P s c m id seq off f r); try assumption; try reflexivity.
        intros sl Hsl Eseg Eoff. destruct (cp_slot_at P _ _ _ sl id off f r (proj1 Hidx) Hsl Eseg Eoff Ef Hrec) as [H _]. congruence.
      * cbn [ix_repoint flat_ops].
        destruct (fl_repoint (m_idx m) (p_hash P (m_seed m) (rk r)) id (u32 off) id (u32 off)) as [i1|] eqn:Erp1.
        -- assert (Hrecof : rec_of (s_disk s) id off = Some r) by (unfold rec_of; rewrite Ef; exact Hrec).
           pose proof (rec_of_rec_fits _ _ _ _ Hd Hrecof) as Hfits.
           destruct (cp_write_record P r s m HL Hroom Hfits) as (s1 & m1 & nid & noff & Ew & _ & _ & _ & Ei & _).
           rewrite Ew.
           destruct (fl_repoint (m_idx m1) (p_hash P (m_seed m) (rk r)) id (u32 off) nid noff) as [i2|] eqn:Erp2.
           ++ apply (cp_step_promote P s c m id seq off f r s1 m1 nid noff i2); try assumption; reflexivity.
           ++ rewrite Ei in Erp2. rewrite (cp_repoint_indep _ _ _ _ _ _ id (u32 off) Erp2) in Erp1. discriminate.
        -- apply (cp_step_skip P s c m id seq off f r); try assumption; try reflexivity.
           intros sl Hsl Eseg Eoff.
           destruct (cp_slot_at P _ _ _ sl id off f r (proj1 Hidx) Hsl Eseg Eoff Ef Hrec) as [_ Hh].
           pose proof (cp_repoint_None _ _ _ _ _ _ Erp1 sl Hsl) as Hp. unfold fl_points in Hp.
           rewrite Hh, Hoff32, Eseg, Eoff, !N.eqb_refl in Hp. discriminate.
    + destruct (cp_step_remove P s c m id seq off f
                 {| c_todo := c_todo c; c_src := None; c_segs := c_segs c + 1; c_recs := c_recs c; c_bytes := c_bytes c |}
                 HI HC Em Esrc Ef Hrec eq_refl eq_refl) as (E1 & E2 & Hpost).
      rewrite E1, E2, !N.eqb_refl. cbn [andb negb]. exact Hpost.
  - destruct (c_todo c) as [|[id seq] todo] eqn:Etodo; [auto|].
    apply (cp_step_start P s c m id seq todo); try assumption; reflexivity.
Qed.

Theorem compact_step_ok P (s : st) (c : cursor) :
  Inv P s -> CInv s c -> (exists m, s_mem s = Some m /\ room m) ->
  match compact_step flat_ops P s c with
  | CDone => c_src c = None /\ c_todo c = []
  | CFail _ => False
  | CMore s' c' => Inv P s' /\ CInv s' c' /\ s_mem s' <> None /\
                   (forall k, sget (abs (s_disk s')) k = sget (abs (s_disk s)) k)
  end.
Proof.
  intros HI HC Hm. pose proof (compact_step_ok_ex P s c HI HC Hm) as H.
  destruct (compact_step flat_ops P s c) as [|s' c'|w]; [exact H| |exact H].
  destruct H as (H1 & H2 & H3 & H4 & _). auto.
Qed.

Corollary compact_step_MetaOK P (s : st) (c : cursor) s' c' :
  Inv P s -> CInv s c -> (exists m, s_mem s = Some m /\ room m) -> MetaOK s ->
  compact_step flat_ops P s c = CMore s' c' -> MetaOK s'.
Proof.
  intros HI HC Hm HM E. pose proof (compact_step_ok_ex P s c HI HC Hm) as H. rewrite E in H.
  destruct H as (_ & _ & _ & _ & _ & H & _). exact (H HM).
Qed.

Corollary compact_step_files P (s : st) (c : cursor) s' c' :
  Inv P s -> CInv s c -> (exists m, s_mem s = Some m /\ room m) -> files_exact s ->
  compact_step flat_ops P s c = CMore s' c' -> files_exact s'.
Proof.
  intros HI HC Hm HF E. pose proof (compact_step_ok_ex P s c HI HC Hm) as H. rewrite E in H.
  destruct H as (_ & _ & _ & _ & _ & _ & H & _). exact (H HF).
Qed.


(* ================================================================================================ *)
(* F. Writers between two micro-steps                                                                *)

(* The cursor invariant survives any change of the state that keeps the picked segments sealed and
   their files untouched, adds only segments newer than every picked one, and adds no slot that
   points into a picked segment. *)
Lemma cp_CInv_transfer (s s' : st) (c : cursor) (m m' : mem) :
  CInv s c -> s_mem s = Some m -> s_mem s' = Some m' ->
  (forall x, In x (crem c) -> sealed m x -> sealed m' x) ->
  (forall g', In g' (m_segs m') ->
     (exists g, In g (m_segs m) /\ g_id g = g_id g' /\ g_seq g = g_seq g') \/
     (forall x, In x (crem c) -> snd x < g_seq g')) ->
  (forall sl, In sl (m_idx m') -> In sl (m_idx m) \/ ~ In (sl_seg sl) (map fst (crem c))) ->
  (forall x, In x (crem c) -> find_dseg (fst x) (s_disk s') = find_dseg (fst x) (s_disk s)) ->
  CInv s' c.
Proof.
  intros (m0 & Em0 & C1 & C2 & C3 & C4) Em Em' Hsealed Hsegs Hslots Hfind.
  assert (m0 = m) by congruence. subst m0. clear Em0.
  exists m'. split; [exact Em'|]. split; [intros x Hx; apply Hsealed; [exact Hx|apply C1; exact Hx]|].
  split; [exact C2|]. split.
  - destruct (c_src c) as [[[id seq] off]|] eqn:Esrc; [|exact I].
    assert (Hhead : In (id, seq) (crem c)) by (unfold crem; rewrite Esrc; left; reflexivity).
    destruct C3 as ((f & Ef & Hb) & Hsl). split.
    + exists f. split; [|exact Hb]. pose proof (Hfind _ Hhead) as Hf. cbn [fst] in Hf. rewrite Hf. exact Ef.
    + intros sl HIn Eseg. destruct (Hslots sl HIn) as [H|H]; [apply Hsl; assumption|].
      exfalso. apply H. rewrite Eseg. apply (in_map fst _ _ Hhead).
  - intros x Hx Hdel g' Hg' Hlt.
    assert (Hdel0 : has_del (s_disk s) (fst x)).
    { destruct Hdel as (o & r & Hr & Hdr). exists o, r. split; [|exact Hdr].
      unfold rec_of in *. rewrite (Hfind x Hx) in Hr. exact Hr. }
    destruct (Hsegs g' Hg') as [(g & Hg & E1 & E2)|Hnew].
    + rewrite <- E1, <- E2. apply (C4 x Hx Hdel0 g Hg). congruence.
    + pose proof (Hnew x Hx). lia.
Qed.

(* what a write does to the sealed segments, and where the segments afterwards come from *)
Lemma cp_write_picked (m m1 : mem) nid :
  ids_increasing (m_segs m1) ->
  (forall g, In g (m_segs m) -> g_id g <> nid -> exists g', In g' (m_segs m1) /\ mkeep g g') ->
  (forall g', In g' (m_segs m1) -> g_id g' <> nid -> exists g, In g (m_segs m) /\ mkeep g g') ->
  (forall g, In g (m_segs m) -> sm_full (g_meta g) = true -> g_id g <> nid) ->
  (exists g', In g' (m_segs m1) /\ g_id g' = nid /\
     ((exists g, In g (m_segs m) /\ g_id g = nid /\ g_seq g' = g_seq g) \/
      (forall g, In g (m_segs m) -> g_id g <> nid /\ g_seq g < g_seq g'))) ->
  (forall x, sealed m x -> sealed m1 x /\ fst x <> nid) /\
  (forall g1, In g1 (m_segs m1) ->
     (exists g, In g (m_segs m) /\ g_id g = g_id g1 /\ g_seq g = g_seq g1) \/
     (forall g, In g (m_segs m) -> g_seq g < g_seq g1)).
Proof.
  intros Hinc1 M1 M2 M3 (gt & Hgt & Egt & M4). split.
  - intros x (g & Hg & G1 & G2 & G3). pose proof (M3 g Hg G3) as Hne.
    destruct (M1 g Hg Hne) as (g' & Hg' & K1 & K2 & _ & K4 & _).
    split; [|congruence]. exists g'. split; [exact Hg'|]. split; [congruence|]. split; [congruence|auto].
  - intros g1 Hg1. destruct (N.eq_dec (g_id g1) nid) as [E|Hne].
    + assert (g1 = gt) by (apply (ids_increasing_unique _ g1 gt Hinc1 Hg1 Hgt); congruence). subst gt.
      destruct M4 as [(g & Hg & G1 & G2)|Hfresh].
      * left. exists g. split; [exact Hg|]. split; congruence.
      * right. intros g Hg. apply (Hfresh g Hg).
    + left. destruct (M2 g1 Hg1 Hne) as (g & Hg & K1 & K2 & _). exists g. auto.
Qed.

Lemma cp_M4_weaken (m m1 : mem) nid r :
  (exists g', In g' (m_segs m1) /\ g_id g' = nid /\
     ((exists g, In g (m_segs m) /\ g_id g = nid /\ g_seq g' = g_seq g /\
                 sm_delrec (g_meta g') = delrec_after r (sm_delrec (g_meta g))) \/
      ((forall g, In g (m_segs m) -> g_id g <> nid /\ g_seq g < g_seq g') /\
       sm_delrec (g_meta g') = delrec_after r 0))) ->
  exists g', In g' (m_segs m1) /\ g_id g' = nid /\
     ((exists g, In g (m_segs m) /\ g_id g = nid /\ g_seq g' = g_seq g) \/
      (forall g, In g (m_segs m) -> g_id g <> nid /\ g_seq g < g_seq g')).
Proof.
  intros (gt & Hgt & Egt & [(g & A1 & A2 & A3 & _)|(A1 & _)]); exists gt; (split; [exact Hgt|split; [exact Egt|]]).
  - left. exists g. auto.
  - right. exact A1.
Qed.

(* index changes of Put and Delete *)
Lemma cp_fl_replace_In hit new l : forall l' o,
  fl_replace hit new l = Some (l', o) -> forall x, In x l' -> x = new \/ In x l.
Proof.
  induction l as [|a l IH]; intros l' o H x Hx; [discriminate|]. cbn [fl_replace] in H.
  destruct (hit a).
  - inversion H; subst. destruct Hx as [<-|Hx]; [left; reflexivity|right; right; exact Hx].
  - destruct (fl_replace hit new l) as [[l0 o0]|] eqn:E; [|discriminate]. inversion H; subst.
    destruct Hx as [<-|Hx]; [right; left; reflexivity|].
    destruct (IH l0 o eq_refl x Hx) as [->|H']; [left; reflexivity|right; right; exact H'].
Qed.

Lemma cp_fl_put_In grow l sl mt i2 old :
  fl_put grow l sl mt = (i2, old) -> forall x, In x i2 -> x = sl \/ In x l.
Proof.
  unfold fl_put. destruct (fl_replace (fl_hit (sl_h sl) mt) sl l) as [[l' o]|] eqn:E; intros H x Hx; inversion H; subst.
  - apply (cp_fl_replace_In _ _ _ _ _ E x Hx).
  - apply in_app_or in Hx. destruct Hx as [Hx|[<-|[]]]; [right; exact Hx|left; reflexivity].
Qed.

Lemma cp_fl_remove_In hit l : forall l' o, fl_remove hit l = Some (l', o) -> forall x, In x l' -> In x l.
Proof.
  induction l as [|a l IH]; intros l' o H x Hx; [discriminate|]. cbn [fl_remove] in H.
  destruct (hit a).
  - inversion H; subst. right. exact Hx.
  - destruct (fl_remove hit l) as [[l0 o0]|] eqn:E; [|discriminate]. inversion H; subst.
    destruct Hx as [<-|Hx]; [left; reflexivity|right; apply (IH l0 o eq_refl x Hx)].
Qed.

Lemma cp_fl_del_In l h mt i1 old : fl_del l h mt = (i1, old) -> forall x, In x i1 -> In x l.
Proof.
  unfold fl_del. destruct (fl_remove (fl_hit h mt) l) as [[l' o]|] eqn:E; intros H x Hx; inversion H; subst.
  - apply (cp_fl_remove_In _ _ _ _ E x Hx).
  - exact Hx.
Qed.

Lemma msim2_track_del sl (m : mem) : msim2 m (track_del sl m).
Proof. unfold track_del. apply msim2_upd_mseg. intros g. repeat split; auto. Qed.
Lemma msim2_add_delbytes id n (m : mem) : msim2 m (add_delbytes id n m).
Proof. unfold add_delbytes. apply msim2_upd_mseg. intros g. repeat split; auto. Qed.
Lemma msim2_set_idx (m : mem) i : (exists F, (forall g, mkeep g (F g)) /\ m_segs (set_idx m i) = map F (m_segs m)).
Proof. exists (fun g => g). split; [apply mkeep_refl|]. cbn [set_idx m_segs]. rewrite map_id. reflexivity. Qed.

Lemma cp_metaok_sim (m m' : mem) (d d' : disk) :
  msim2 m m' -> (forall id, find_dseg id d' = find_dseg id d) -> metaok m d -> metaok m' d'.
Proof.
  intros Hsim Hf HM g' f' Hg' Ef'. destruct (msim2_In_inv _ _ g' Hsim Hg') as (g & Hg & K1 & _ & _ & _ & K5).
  rewrite K5. apply (HM g f' Hg). rewrite <- K1, <- Hf. exact Ef'.
Qed.

(* the common part of Put and Delete: a write to the log, counter updates, a new index *)
Lemma cp_writer (s : st) (c : cursor) (m m0 : mem) P r (s1 : st) (m1 m2 : mem) nid noff i2 (s' : st) :
  InvLog m0 (s_disk s) -> s_mem s = Some m -> msim2 m m0 -> CInv s c ->
  write_record flat_ops P r s m0 = Some (s1, m1, nid, noff) -> room m0 -> rec_fits r ->
  msim2 m1 m2 -> (forall x, In x i2 -> sl_seg x = nid \/ In x (m_idx m)) ->
  s_mem s' = Some (set_idx m2 i2) -> s_disk s' = apply_ev flat_ops (s_disk s1) (EIndex i2) ->
  CInv s' c /\ (MetaOK s -> MetaOK s') /\ (files_exact s -> files_exact s') /\
  d_bac (s_disk s') = d_bac (s_disk s).
Proof.
  intros HL0 Em Hsim0 HC Ew Hroom Hfits Hsim2 Hidx Em' Ed'.
  destruct (cp_write_record P r s m0 HL0 Hroom Hfits)
    as (s1' & m1' & nid' & noff' & Ew' & HL1 & Eo & _ & _ & _ & _ & Hrest & _ & M1 & M2 & M3 & D1 & M4).
  rewrite Ew in Ew'. inversion Ew'; subst s1' m1' nid' noff'. clear Ew'.
  assert (Hinc1 : ids_increasing (m_segs m1)) by apply HL1.
  destruct (cp_write_picked m0 m1 nid Hinc1 M1 M2 M3 (cp_M4_weaken _ _ _ _ M4)) as [S1 S2].
  assert (Hfind' : forall id, find_dseg id (s_disk s') = find_dseg id (s_disk s1)).
  { intros id. rewrite Ed'. apply find_dseg_segs. apply d_segs_index. }
  split; [|split; [|split]].
  - apply (cp_CInv_transfer s s' c m (set_idx m2 i2) HC Em Em').
    + intros x _ Hx. change (sealed m2 x). apply (cp_sealed_sim m1 m2 x Hsim2). apply S1. apply (cp_sealed_sim m m0 x Hsim0 Hx).
    + intros g' Hg'. cbn [set_idx m_segs] in Hg'. destruct (msim2_In_inv _ _ g' Hsim2 Hg') as (g1 & Hg1 & K1 & K2 & _).
      destruct (S2 g1 Hg1) as [(g0 & Hg0 & E1 & E2)|Hnew].
      * left. destruct (msim2_In_inv _ _ g0 Hsim0 Hg0) as (g & Hg & J1 & J2 & _). exists g. split; [exact Hg|]. split; congruence.
      * right. intros x Hx. destruct HC as (mm & Emm & C1 & _). assert (mm = m) by congruence. subst mm.
        destruct (C1 x Hx) as (g & Hg & _ & G2 & _). destruct (msim2_In _ _ g Hsim0 Hg) as (g0 & Hg0 & _ & J2 & _).
        pose proof (Hnew g0 Hg0). rewrite K2. lia.
    + intros sl Hsl. cbn [set_idx m_idx] in Hsl. destruct (Hidx sl Hsl) as [E|H]; [right|left; exact H].
      intros HIn. apply in_map_iff in HIn. destruct HIn as (x & Ex & Hx).
      destruct HC as (mm & Emm & C1 & _). assert (mm = m) by congruence. subst mm.
      destruct (S1 x (cp_sealed_sim m m0 x Hsim0 (C1 x Hx))) as [_ Hne]. congruence.
    + intros x Hx. rewrite Hfind'. apply D1.
      destruct HC as (mm & Emm & C1 & _). assert (mm = m) by congruence. subst mm.
      apply (S1 x (cp_sealed_sim m m0 x Hsim0 (C1 x Hx))).
  - intros HM. apply (MetaOK_eq s m Em) in HM. apply (proj2 (MetaOK_eq s' _ Em')).
    assert (HM0 : metaok m0 (s_disk s)) by (apply (cp_metaok_sim m m0 _ _ Hsim0 (fun _ => eq_refl) HM)).
    assert (HM1 : metaok m1 (s_disk s1)).
    { apply (cp_metaok_write m0 m1 _ _ nid noff r HL0 (proj1 HL1) Hinc1 Eo HM0 M2 D1 M4). }
    intros g' f' Hg' Ef'. cbn [set_idx m_segs] in Hg'.
    apply (cp_metaok_sim m1 m2 _ _ Hsim2 Hfind' HM1 g' f' Hg' Ef').
  - unfold files_exact. rewrite Ed'. pose proof (apply_ev_index_frame (s_disk s1) i2) as Hfr. cbn zeta in Hfr.
    destruct Hfr as (_ & Fo & _ & _ & _ & _ & Fb).
    destruct Hrest as (Ro & _ & _ & _ & _ & _ & Rb). intros [H1 H2]. split; [exact (eq_trans Fo (eq_trans Ro H1))|exact (eq_trans Fb (eq_trans Rb H2))].
  - rewrite Ed'. pose proof (apply_ev_index_frame (s_disk s1) i2) as Hfr. cbn zeta in Hfr.
    destruct Hfr as (_ & _ & _ & _ & _ & _ & Fb). destruct Hrest as (_ & _ & _ & _ & _ & _ & Rb).
    exact (eq_trans Fb Rb).
Qed.

Section Writers.
Variable P : params.

Theorem put_preserves (s : st) (c : cursor) k v :
  Inv P s -> (exists m, s_mem s = Some m /\ room m) ->
  Forall byte k -> Forall byte v -> nlen k <= max_key_len -> nlen v <= max_val_len ->
  CInv s c ->
  CInv (fst (db_put flat_ops P k v s)) c /\
  (MetaOK s -> MetaOK (fst (db_put flat_ops P k v s))) /\
  (files_exact s -> files_exact (fst (db_put flat_ops P k v s))) /\
  d_bac (s_disk (fst (db_put flat_ops P k v s))) = d_bac (s_disk s).
Proof.
  intros HI (m & Em & Hroom) Hbk Hbv Hk Hv HC.
  destruct (Inv_open P s m Em HI) as (HL & _).
  assert (Hr : rec_fits (mkput k v)) by (apply rec_fits_mkput; assumption).
  destruct (cp_write_record P (mkput k v) s m HL Hroom Hr) as (s1 & m1 & nid & noff & Ew & _ & _ & _ & Ei & _).
  unfold db_put. rewrite Em, (proj2 (N.ltb_ge _ _) Hk), (proj2 (N.ltb_ge _ _) Hv), Ew. cbn [ix_put flat_ops].
  destruct (fl_put (p_grow P) (m_idx m1) _ (matchf (s_disk s1) k)) as [i2 old] eqn:Eput.
  set (m2 := match old with Some o => track_del o m1 | None => m1 end).
  destruct (finish_spec P (emit flat_ops (EIndex i2) s1) (set_idx m2 i2)) as (s' & Ef & Ems' & Eds' & _).
  rewrite Ef. cbn [fst]. rewrite s_disk_emit in Eds'.
  apply (cp_writer s c m m P (mkput k v) s1 m1 m2 nid noff i2 s' HL Em (msim2_refl m) HC Ew Hroom Hr); try assumption.
  - unfold m2. destruct old; [apply msim2_track_del|apply msim2_refl].
  - intros x Hx. destruct (cp_fl_put_In _ _ _ _ _ _ Eput x Hx) as [->|H]; [left; reflexivity|right; congruence].
Qed.

Theorem delete_preserves (s : st) (c : cursor) k :
  Inv P s -> (exists m, s_mem s = Some m /\ room m) -> Forall byte k -> CInv s c ->
  CInv (fst (db_delete flat_ops P k s)) c /\
  (MetaOK s -> MetaOK (fst (db_delete flat_ops P k s))) /\
  (files_exact s -> files_exact (fst (db_delete flat_ops P k s))) /\
  d_bac (s_disk (fst (db_delete flat_ops P k s))) = d_bac (s_disk s).
Proof.
  intros HI (m & Em & Hroom) Hbk HC.
  destruct (Inv_open P s m Em HI) as (HL & Hidx & _). assert (Hd : DiskOK (s_disk s)) by apply HL.
  unfold db_delete. rewrite Em. cbn [ix_del flat_ops].
  destruct (fl_del (m_idx m) (p_hash P (m_seed m) k) (matchf (s_disk s) k)) as [i1 old] eqn:Edel.
  destruct old as [o|].
  - destruct (del_found P _ _ _ k i1 o Hd Hidx Edel) as [Hk _].
    assert (Hr : rec_fits (mkdel k)) by (apply rec_fits_mkdel; assumption).
    pose proof (track_del_InvLog o m _ HL) as HL0. pose proof (track_del_room o m Hroom) as Hroom0.
    destruct (cp_write_record P (mkdel k) s (track_del o m) HL0 Hroom0 Hr) as (s1 & m1 & nid & noff & Ew & _).
    rewrite Ew.
    set (m2 := add_delbytes nid (u32 (rsize (mkdel k))) m1).
    destruct (finish_spec P (emit flat_ops (EIndex i1) s1) (set_idx m2 i1)) as (s' & Ef & Ems' & Eds' & _).
    rewrite Ef. cbn [fst]. rewrite s_disk_emit in Eds'.
    apply (cp_writer s c m (track_del o m) P (mkdel k) s1 m1 m2 nid noff i1 s' HL0 Em (msim2_track_del o m) HC Ew Hroom0 Hr); try assumption.
    + apply msim2_add_delbytes.
    + intros x Hx. right. apply (cp_fl_del_In _ _ _ _ _ Edel x Hx).
  - destruct (del_absent P _ _ _ k i1 Hd Hidx Edel) as [-> _].
    destruct (finish_spec P s m) as (s' & Ef & Ems' & Eds' & _). rewrite Ef. cbn [fst].
    split; [|split; [|split]].
    + apply (cp_CInv_transfer s s' c m m HC Em Ems'); auto.
      * intros g' Hg'. left. exists g'. auto.
      * intros x _. rewrite Eds'. reflexivity.
    + unfold MetaOK. rewrite Em, Ems', Eds'. auto.
    + unfold files_exact. rewrite Eds'. auto.
    + rewrite Eds'. reflexivity.
Qed.

Theorem sync_preserves (s : st) (c : cursor) :
  CInv s c ->
  CInv (fst (db_sync flat_ops s)) c /\ (MetaOK s -> MetaOK (fst (db_sync flat_ops s))) /\
  (files_exact s -> files_exact (fst (db_sync flat_ops s))) /\
  d_bac (s_disk (fst (db_sync flat_ops s))) = d_bac (s_disk s).
Proof.
  intros HC. pose proof HC as (m & Em & _). unfold db_sync. rewrite Em. cbn [fst].
  destruct (do_sync_spec s m) as (E1 & E2 & _). split; [|split; [|split]].
  - apply (cp_CInv_transfer s _ c m m HC Em); [congruence|auto| |auto|].
    + intros g' Hg'. left. exists g'. auto.
    + intros x _. rewrite E2. reflexivity.
  - unfold MetaOK. rewrite E1, Em, E2. auto.
  - unfold files_exact. rewrite E2. auto.
  - rewrite E2. reflexivity.
Qed.
End Writers.


(* ================================================================================================ *)
(* G. The whole run of Compact on a database nobody else touches                                     *)

(* the 32-bit offset side condition [room] holds in every state the run goes through *)
Fixpoint run_room (P : params) (fuel : nat) (s : st) (c : cursor) : Prop :=
  match fuel with
  | O => True
  | S f => (exists m, s_mem s = Some m /\ room m) /\
           match compact_step flat_ops P s c with
           | CMore s' c' => run_room P f s' c'
           | _ => True
           end
  end.

Theorem compact_run_ok P fuel : forall (s : st) (c : cursor),
  Inv P s -> CInv s c -> (cmeasure (s_disk s) c < fuel)%nat -> run_room P fuel s c ->
  let '(s', o) := compact_run flat_ops P fuel s c in
  (exists a b n, o = OCompact a b n) /\ Inv P s' /\ s_mem s' <> None /\
  (forall k, sget (abs (s_disk s')) k = sget (abs (s_disk s)) k) /\
  (MetaOK s -> MetaOK s') /\ (files_exact s -> files_exact s') /\
  d_bac (s_disk s') = d_bac (s_disk s).
Proof.
  induction fuel as [|f IH]; intros s c HI HC Hlt Hroom; [lia|].
  cbn [run_room] in Hroom. destruct Hroom as [Hm Hrest]. cbn [compact_run].
  pose proof (compact_step_ok_ex P s c HI HC Hm) as Hstep.
  destruct (compact_step flat_ops P s c) as [|s1 c1|w]; [| |destruct Hstep].
  - split; [eexists _, _, _; reflexivity|]. split; [exact HI|]. destruct Hm as (m & Em & _).
    split; [congruence|]. split; [reflexivity|]. auto.
  - destruct Hstep as (HI1 & HC1 & _ & Habs1 & Hmeas & HM1 & HF1 & HB1).
    assert (Hlt1 : (cmeasure (s_disk s1) c1 < f)%nat) by lia.
    pose proof (IH s1 c1 HI1 HC1 Hlt1 Hrest) as H.
    destruct (compact_run flat_ops P f s1 c1) as [s' o].
    destruct H as (A1 & A2 & A3 & A4 & A5 & A6 & A7).
    split; [exact A1|]. split; [exact A2|]. split; [exact A3|].
    split; [intros k; rewrite A4; apply Habs1|]. split; [auto|]. split; [auto|congruence].
Qed.

(* ---- the fuel of db_compact is enough ---- *)
Definition nrecs_in (L : list dseg) (id : N) : nat :=
  match find (fun s => f_id s =? id) L with Some f => length (f_recs f) | None => O end.
Definition sum_nrecs (L : list dseg) (ids : list N) : nat := fold_right (fun id n => (nrecs_in L id + n)%nat) O ids.
Definition total_of (L : list dseg) : nat := fold_right (fun f n => (length (f_recs f) + n)%nat) O L.

Lemma cp_sum_cons_notin f L ids : ~ In (f_id f) ids -> sum_nrecs (f :: L) ids = sum_nrecs L ids.
Proof.
  induction ids as [|id ids IH]; intros H; [reflexivity|]. cbn [sum_nrecs fold_right].
  fold (sum_nrecs (f :: L) ids). fold (sum_nrecs L ids). rewrite IH by (intros X; apply H; right; exact X).
  unfold nrecs_in. cbn [find]. destruct (N.eqb_spec (f_id f) id) as [E|_]; [|reflexivity].
  exfalso. apply H. left. symmetry. exact E.
Qed.

Lemma cp_sum_cons f L ids : NoDup ids -> (sum_nrecs (f :: L) ids <= length (f_recs f) + sum_nrecs L ids)%nat.
Proof.
  induction ids as [|id ids IH]; intros Hnd; [cbn; lia|]. inversion Hnd as [|? ? Hid Hnd']; subst.
  cbn [sum_nrecs fold_right]. fold (sum_nrecs (f :: L) ids). fold (sum_nrecs L ids).
  unfold nrecs_in at 1. cbn [find]. destruct (N.eqb_spec (f_id f) id) as [E|_].
  - rewrite cp_sum_cons_notin by (rewrite E; exact Hid). lia.
  - fold (nrecs_in L id). specialize (IH Hnd'). lia.
Qed.

Lemma cp_sum_total L : forall ids, NoDup ids -> (sum_nrecs L ids <= total_of L)%nat.
Proof.
  induction L as [|f L IH]; intros ids Hnd.
  - induction ids as [|id ids IHi]; [cbn; lia|]. inversion Hnd; subst. cbn [sum_nrecs fold_right].
    fold (sum_nrecs [] ids). specialize (IHi H2). unfold nrecs_in. cbn [find total_of fold_right] in *. lia.
  - pose proof (cp_sum_cons f L ids Hnd). specialize (IH ids Hnd). cbn [total_of fold_right]. fold (total_of L). lia.
Qed.

Lemma cp_todo_measure_sum (d : disk) l :
  todo_measure d l = (2 * length l + sum_nrecs (d_segs d) (map fst l))%nat.
Proof.
  induction l as [|x l IH]; [reflexivity|]. cbn [todo_measure fold_right map length sum_nrecs].
  fold (todo_measure d l). fold (sum_nrecs (d_segs d) (map fst l)). rewrite IH.
  unfold seg_nrecs, nrecs_in, find_dseg. lia.
Qed.

Lemma cp_picked_NoDup (m : mem) (d : disk) l :
  InvLog m d -> (forall x, In x l -> sealed m x) -> StronglySorted pair_lt l -> NoDup (map fst l).
Proof.
  intros HL. induction l as [|x l IH]; intros Hs Hsort; [constructor|].
  cbn [map]. constructor.
  - intros HIn. apply in_map_iff in HIn. destruct HIn as (y & E & Hy).
    pose proof (cp_sorted_head _ _ _ y Hsort Hy) as Hlt. unfold pair_lt in Hlt.
    pose proof (cp_sealed_ids m d y x HL (Hs y (or_intror Hy)) (Hs x (or_introl eq_refl)) E). lia.
  - apply IH; [intros y Hy; apply Hs; right; exact Hy|exact (cp_sorted_tail _ _ _ Hsort)].
Qed.

Lemma cp_total_recs (d : disk) : total_recs d = total_of (d_segs d).
Proof. reflexivity. Qed.

Definition compact_room (P : params) (s : st) : Prop :=
  match compact_pick flat_ops P s with
  | Some (s1, c) => run_room P (S (2 * length (c_todo c) + 2 * total_recs (s_disk s1) + 2)) s1 c
  | None => True
  end.

Theorem db_compact_ok P (s : st) :
  Inv P s -> MetaOK s -> s_mem s <> None -> compact_room P s ->
  let '(s', o) := db_compact flat_ops P s in
  (exists a b n, o = OCompact a b n) /\ Inv P s' /\ s_mem s' <> None /\
  (forall k, sget (abs (s_disk s')) k = sget (abs (s_disk s)) k) /\
  MetaOK s' /\ (files_exact s -> files_exact s') /\ d_bac (s_disk s') = d_bac (s_disk s).
Proof.
  intros HI HM Hm Hroom. unfold compact_room in Hroom. unfold db_compact.
  destruct (compact_pick_ok P s HI HM Hm) as (s1 & c & Ep & HI1 & HC1 & Ed1 & HM1 & Esrc & _).
  rewrite Ep in Hroom |- *.
  assert (Hlt : (cmeasure (s_disk s1) c < S (2 * length (c_todo c) + 2 * total_recs (s_disk s1) + 2))%nat).
  { unfold cmeasure. rewrite Esrc, cp_todo_measure_sum, cp_total_recs. cbn [plus].
    pose proof HC1 as (m1 & Em1 & C1 & C2 & _). unfold crem in C1, C2. rewrite Esrc in C1, C2.
    destruct (Inv_open P s1 m1 Em1 HI1) as (HL1 & _).
    pose proof (cp_sum_total (d_segs (s_disk s1)) _ (cp_picked_NoDup m1 _ _ HL1 C1 C2)). lia. }
  pose proof (compact_run_ok P _ s1 c HI1 HC1 Hlt Hroom) as H.
  destruct (compact_run flat_ops P _ s1 c) as [s' o].
  destruct H as (A1 & A2 & A3 & A4 & A5 & A6 & A7).
  split; [exact A1|]. split; [exact A2|]. split; [exact A3|]. split; [intros k; rewrite A4, Ed1; reflexivity|].
  split; [exact (A5 HM1)|]. split; [|congruence]. intros HF. apply A6. unfold files_exact in *. rewrite Ed1. exact HF.
Qed.


(* ================================================================================================ *)
(* H. Files: compaction reclaims space, nothing leaks                                                *)
Lemma cp_seg_names_In (d : disk) n :
  In n (seg_names d) <->
  exists x, In x (d_segs d) /\
    (n = FSeg (f_id x) (f_seq x) \/ (gob_present (f_meta x) = true /\ n = FSegMeta (f_id x) (f_seq x))).
Proof.
  unfold seg_names. rewrite in_concat. split.
  - intros (l & Hl & Hn). apply in_map_iff in Hl. destruct Hl as (x & <- & Hx). exists x. split; [exact Hx|].
    destruct Hn as [<-|Hn]; [left; reflexivity|]. right.
    destruct (gob_present (f_meta x)); [|destruct Hn]. destruct Hn as [<-|[]]. auto.
  - intros (x & Hx & H). eexists. split; [apply in_map_iff; exists x; split; [reflexivity|exact Hx]|].
    destruct H as [->|[Hg ->]]; [left; reflexivity|]. right. rewrite Hg. left. reflexivity.
Qed.

Definition fixed_name (n : fname) : Prop :=
  n = FMain \/ n = FOverflow \/ n = FIndexMeta \/ n = FDbMeta \/ n = FLock.

Lemma cp_dir_In (d : disk) n :
  d_orphans d = [] -> d_bac d = [] ->
  (In n (dir d) <->
   In n (seg_names d) \/
   (n = FMain /\ d_index d <> None) \/ (n = FOverflow /\ d_overflow d = true) \/
   (n = FIndexMeta /\ gob_present (d_imeta d) = true) \/ (n = FDbMeta /\ gob_present (d_dbmeta d) = true) \/
   (n = FLock /\ d_lock d = true)).
Proof.
  intros Ho Hb. unfold dir. rewrite Ho, Hb. cbn [map]. rewrite !in_app_iff.
  destruct (d_index d) as [i|], (d_overflow d), (gob_present (d_imeta d)), (gob_present (d_dbmeta d)), (d_lock d);
    cbn [In]; intuition (try congruence; try discriminate; eauto).
Qed.

(* every file of an open database belongs to a live segment or is one of the five fixed files *)
Theorem dir_exact P (s : st) (m : mem) n :
  Inv P s -> files_exact s -> s_mem s = Some m -> In n (dir (s_disk s)) ->
  (exists g, In g (m_segs m) /\ (n = FSeg (g_id g) (g_seq g) \/ n = FSegMeta (g_id g) (g_seq g))) \/
  fixed_name n.
Proof.
  intros HI [Ho Hb] Em HIn. destruct (Inv_open P s m Em HI) as ((_ & [_ Ha2] & _) & _).
  apply (cp_dir_In _ n Ho Hb) in HIn. unfold fixed_name.
  destruct HIn as [HIn|[[-> _]|[[-> _]|[[-> _]|[[-> _]|[-> _]]]]]]; [|tauto|tauto|tauto|tauto|tauto].
  left. apply cp_seg_names_In in HIn. destruct HIn as (x & Hx & H).
  destruct (Ha2 x Hx) as (g & Hg & G1 & G2). exists g. split; [exact Hg|]. rewrite G1, G2.
  destruct H as [->|[_ ->]]; auto.
Qed.

Lemma cp_filter_map_seg id seq (G : dseg -> dseg) (l : list dseg) :
  (forall x, is_seg id seq (G x) = is_seg id seq x) ->
  filter (fun s => negb (is_seg id seq s)) (map (fun s => if is_seg id seq s then G s else s) l) =
  filter (fun s => negb (is_seg id seq s)) l.
Proof.
  intros HG. induction l as [|a l IH]; [reflexivity|]. cbn [map filter].
  destruct (is_seg id seq a) eqn:Ea.
  - rewrite HG, Ea. cbn [negb]. exact IH.
  - rewrite Ea. cbn [negb]. rewrite IH. reflexivity.
Qed.

(* the disk after removeSegment *)
Lemma cp_removed_disk (d : disk) id seq :
  d_orphans d = [] ->
  let d' := apply_ev flat_ops (meta_removed d id seq) (ERemove (FSeg id seq)) in
  d_segs d' = filter (fun s => negb (is_seg id seq s)) (d_segs d) /\ d_orphans d' = [] /\
  d_index d' = d_index d /\ d_overflow d' = d_overflow d /\ d_imeta d' = d_imeta d /\
  d_dbmeta d' = d_dbmeta d /\ d_lock d' = d_lock d /\ d_bac d' = d_bac d.
Proof.
  intros Ho. cbn zeta. destruct (cp_meta_removed d id seq) as (_ & Fl & Fi & Fo & Fb & Forph).
  destruct (Forph Ho) as [Hom Hnometa].
  assert (Esegs : filter (fun s => negb (is_seg id seq s)) (d_segs (meta_removed d id seq)) =
                  filter (fun s => negb (is_seg id seq s)) (d_segs d)).
  { unfold meta_removed. destruct (exists_file d (FSegMeta id seq)); [|reflexivity].
    cbn [apply_ev file_removed d_segs set_orphans]. rewrite d_segs_upd_seg. apply cp_filter_map_seg. reflexivity. }
  assert (Emeta : d_imeta (meta_removed d id seq) = d_imeta d /\ d_dbmeta (meta_removed d id seq) = d_dbmeta d).
  { unfold meta_removed. destruct (exists_file d (FSegMeta id seq)); split; reflexivity. }
  split; [rewrite d_segs_remove_seg; exact Esegs|]. split.
  - cbn [apply_ev file_removed d_orphans set_orphans]. rewrite Hom. cbn [app].
    apply concat_nil_Forall. apply Forall_forall. intros l Hl. apply in_map_iff in Hl. destruct Hl as (x & <- & Hx).
    apply filter_In in Hx. rewrite (Hnometa x (proj1 Hx) (proj2 Hx)). reflexivity.
  - rewrite apply_ev_d_index, apply_ev_d_overflow, apply_ev_d_imeta, apply_ev_d_dbmeta, apply_ev_d_lock, apply_ev_d_bac by reflexivity.
    destruct Emeta as [E1 E2]. repeat split; congruence.
Qed.

(* the step that removes segment (id, seq): exactly its two files disappear *)
Theorem compact_removes_files P (s : st) (c : cursor) (m : mem) id seq off f :
  Inv P s -> files_exact s -> CInv s c -> s_mem s = Some m -> c_src c = Some (id, seq, off) ->
  find_dseg id (s_disk s) = Some f -> rec_at off (seg_entries f) = None ->
  let s' := remove_segment flat_ops id seq s m in
  compact_step flat_ops P s c =
    CMore s' {| c_todo := c_todo c; c_src := None; c_segs := c_segs c + 1; c_recs := c_recs c; c_bytes := c_bytes c |} /\
  ~ In (FSeg id seq) (dir (s_disk s')) /\ ~ In (FSegMeta id seq) (dir (s_disk s')) /\
  (forall n, In n (dir (s_disk s')) <-> In n (dir (s_disk s)) /\ n <> FSeg id seq /\ n <> FSegMeta id seq) /\
  files_exact s'.
Proof.
  intros HI HF HC Em Esrc Ef Hrec. cbn zeta.
  destruct (cp_step_remove P s c m id seq off f
             {| c_todo := c_todo c; c_src := None; c_segs := c_segs c + 1; c_recs := c_recs c; c_bytes := c_bytes c |}
             HI HC Em Esrc Ef Hrec eq_refl eq_refl) as (E1 & E2 & Hpost).
  destruct Hpost as (_ & _ & _ & _ & _ & _ & HF' & _). specialize (HF' HF).
  assert (Hstep : compact_step flat_ops P s c = CMore (remove_segment flat_ops id seq s m)
            {| c_todo := c_todo c; c_src := None; c_segs := c_segs c + 1; c_recs := c_recs c; c_bytes := c_bytes c |}).
  { unfold compact_step. rewrite Em, Esrc, Ef, Hrec, E1, E2, !N.eqb_refl. reflexivity. }
  split; [exact Hstep|].
  destruct (cp_remove_segment_eq id seq s m) as [Edisk _].
  destruct HF as [Ho Hb]. destruct HF' as [Ho' Hb'].
  destruct (cp_removed_disk (s_disk s) id seq Ho) as (Dsegs & _ & Di & Dov & Dim & Ddb & Dl & _).
  rewrite <- Edisk in Dsegs, Di, Dov, Dim, Ddb, Dl.
  set (d := s_disk s) in *. set (d' := s_disk (remove_segment flat_ops id seq s m)) in *.
  destruct (Inv_open P s m Em HI) as (((_ & Hnid & _) & _) & _). fold d in Hnid.
  assert (Hone : forall x, In x (d_segs d) -> f_id x = id -> f_seq x = seq).
  { intros x Hx E. apply find_dseg_In in Ef. destruct Ef as [Hf Hfid].
    assert (x = f) by (apply (NoDup_map_inj f_id _ x f Hnid Hx Hf); congruence). subst x. exact E2. }
  assert (Hiff : forall n, In n (dir d') <-> In n (dir d) /\ n <> FSeg id seq /\ n <> FSegMeta id seq).
  { intros n. rewrite (cp_dir_In d' n Ho' Hb'), (cp_dir_In d n Ho Hb), !cp_seg_names_In, Dsegs, Di, Dov, Dim, Ddb, Dl.
    split.
    - intros [(x & Hx & H)|H].
      + apply filter_In in Hx. destruct Hx as [Hx Hns]. split; [left; exists x; auto|].
        assert (Hnot : ~ (f_id x = id /\ f_seq x = seq)).
        { intros [A B]. unfold is_seg in Hns. rewrite A, B, !N.eqb_refl in Hns. cbn [andb negb] in Hns. discriminate Hns. }
        destruct H as [->|[_ ->]]; split; intros E; inversion E; apply Hnot; auto.
      + split; [right; exact H|]. split; intros ->; intuition discriminate.
    - intros [[(x & Hx & H)|H] [Hn1 Hn2]]; [|right; exact H].
      left. exists x. split; [|exact H]. apply filter_In. split; [exact Hx|].
      unfold is_seg. destruct (N.eqb_spec (f_id x) id) as [E|_]; [|reflexivity].
      exfalso. pose proof (Hone x Hx E) as Es. rewrite E, Es in H. destruct H as [->|[_ ->]]; congruence. }
  split; [intros H; apply Hiff in H; tauto|]. split; [intros H; apply Hiff in H; tauto|].
  split; [exact Hiff|split; assumption].
Qed.

(* ================================================================================================ *)
(* No resurrection: micro-steps of Compact interleaved with writers, then a crash                    *)
Inductive wop := WPut (k : key) (v : val) | WDel (k : key).
Definition apply_wop (a : smap) (o : wop) : smap :=
  match o with WPut k v => sput a k v | WDel k => sdel a k end.

Section Reach.
Variable P : params.

(* [creach s c ops s' c']: from (s, c), micro-steps of Compact and the writer operations [ops]
   (in this order, interleaved in any way, with Syncs) lead to (s', c') *)
Inductive creach : st -> cursor -> list wop -> st -> cursor -> Prop :=
| cr_refl s c : creach s c [] s c
| cr_step s c ops s1 c1 s2 c2 :
    creach s c ops s1 c1 -> (exists m, s_mem s1 = Some m /\ room m) ->
    compact_step flat_ops P s1 c1 = CMore s2 c2 -> creach s c ops s2 c2
| cr_put s c ops s1 c1 k v :
    creach s c ops s1 c1 -> (exists m, s_mem s1 = Some m /\ room m) ->
    Forall byte k -> Forall byte v -> nlen k <= max_key_len -> nlen v <= max_val_len ->
    creach s c (ops ++ [WPut k v]) (fst (db_put flat_ops P k v s1)) c1
| cr_del s c ops s1 c1 k :
    creach s c ops s1 c1 -> (exists m, s_mem s1 = Some m /\ room m) -> Forall byte k ->
    creach s c (ops ++ [WDel k]) (fst (db_delete flat_ops P k s1)) c1
| cr_sync s c ops s1 c1 :
    creach s c ops s1 c1 -> creach s c ops (fst (db_sync flat_ops s1)) c1.

Lemma cp_sget_ext_wop (a b : smap) o :
  (forall k, sget a k = sget b k) -> forall k, sget (apply_wop a o) k = sget (apply_wop b o) k.
Proof.
  intros H k. destruct o as [k0 v|k0]; cbn [apply_wop]; rewrite ?sget_sput, ?sget_sdel, H; reflexivity.
Qed.

Theorem creach_ok (s : st) (c : cursor) ops s' c' :
  params_ok P -> Inv P s -> CInv s c -> creach s c ops s' c' ->
  Inv P s' /\ CInv s' c' /\ s_mem s' <> None /\
  (forall k, sget (abs (s_disk s')) k = sget (fold_left apply_wop ops (abs (s_disk s))) k) /\
  (MetaOK s -> MetaOK s') /\ (files_exact s -> files_exact s') /\ d_bac (s_disk s') = d_bac (s_disk s).
Proof.
  intros HP HI HC Hr. induction Hr as [s c|s c ops s1 c1 s2 c2 Hr IH Hm Hstep|s c ops s1 c1 k v Hr IH Hm Hbk Hbv Hk Hv
                                      |s c ops s1 c1 k Hr IH Hm Hbk|s c ops s1 c1 Hr IH].
  - destruct HC as (m & Em & HC'). split; [exact HI|]. split; [exists m; auto|]. split; [congruence|].
    split; [reflexivity|]. auto.
  - destruct (IH HI HC) as (I1 & C1 & _ & A1 & M1 & F1 & B1).
    pose proof (compact_step_ok_ex P s1 c1 I1 C1 Hm) as H. rewrite Hstep in H.
    destruct H as (I2 & C2 & N2 & A2 & _ & M2 & F2 & B2).
    split; [exact I2|]. split; [exact C2|]. split; [exact N2|]. split; [intros k; rewrite A2; apply A1|].
    split; [auto|]. split; [auto|congruence].
  - destruct (IH HI HC) as (I1 & C1 & _ & A1 & M1 & F1 & B1).
    pose proof (put_ok P s1 k v HP I1 Hm Hbk Hbv Hk Hv) as Hput.
    destruct (put_preserves P s1 c1 k v I1 Hm Hbk Hbv Hk Hv C1) as (C2 & M2 & F2 & B2).
    destruct (db_put flat_ops P k v s1) as [s2 o]. cbn [fst] in *. destruct Hput as (_ & I2 & N2 & A2).
    split; [exact I2|]. split; [exact C2|]. split; [exact N2|]. split.
    + intros k'. rewrite A2, fold_left_app. cbn [fold_left apply_wop]. rewrite sget_sput, A1. reflexivity.
    + split; [auto|]. split; [auto|congruence].
  - destruct (IH HI HC) as (I1 & C1 & _ & A1 & M1 & F1 & B1).
    pose proof (delete_ok P s1 k HP I1 Hm Hbk) as Hdel.
    destruct (delete_preserves P s1 c1 k I1 Hm Hbk C1) as (C2 & M2 & F2 & B2).
    destruct (db_delete flat_ops P k s1) as [s2 o]. cbn [fst] in *. destruct Hdel as (_ & I2 & N2 & A2 & _).
    split; [exact I2|]. split; [exact C2|]. split; [exact N2|]. split.
    + intros k'. rewrite A2, fold_left_app. cbn [fold_left apply_wop]. rewrite sget_sdel, A1. reflexivity.
    + split; [auto|]. split; [auto|congruence].
  - destruct (IH HI HC) as (I1 & C1 & N1 & A1 & M1 & F1 & B1).
    pose proof (sync_ok P s1 I1 N1) as Hs.
    destruct (sync_preserves s1 c1 C1) as (C2 & M2 & F2 & B2).
    destruct (db_sync flat_ops s1) as [s2 o]. cbn [fst] in *. destruct Hs as (_ & I2 & E2 & E3).
    split; [exact I2|]. split; [exact C2|]. split; [congruence|]. split; [rewrite E2; exact A1|].
    split; [auto|]. split; [auto|congruence].
Qed.

(* crash (the handle is lost, the disk stays) and recovery: exactly the writers' operations are
   visible; nothing that compaction dropped comes back *)
Theorem compact_no_resurrection seed (s : st) (c : cursor) ops s' c' :
  params_ok P -> Inv P s -> CInv s c -> bac_ok (s_disk s) -> creach s c ops s' c' ->
  let '(s2, o) := db_open flat_ops P seed {| s_mem := None; s_disk := s_disk s'; s_trace := [] |} in
  o = OOpened true /\ Inv P s2 /\ s_mem s2 <> None /\
  (forall k, sget (abs (s_disk s2)) k = sget (abs (s_disk s')) k) /\
  (forall k, sget (abs (s_disk s2)) k = sget (fold_left apply_wop ops (abs (s_disk s))) k).
Proof.
  intros HP HI HC Hbac Hr. destruct (creach_ok s c ops s' c' HP HI HC Hr) as (I1 & _ & N1 & A1 & _ & _ & B1).
  destruct (s_mem s') as [m'|] eqn:Em'; [|congruence].
  destruct (Inv_open P s' m' Em' I1) as (HL & _ & Hlock & _).
  assert (Hbac' : bac_ok (s_disk s')) by (unfold bac_ok in *; rewrite B1; exact Hbac).
  pose proof (open_recover_ok P seed (s_disk s') HP (proj1 HL) Hbac' Hlock) as H.
  destruct (db_open flat_ops P seed {| s_mem := None; s_disk := s_disk s'; s_trace := [] |}) as [s2 o].
  destruct H as (H1 & H2 & H3 & H4 & _).
  split; [exact H1|]. split; [exact H2|]. split; [exact H3|]. split; [exact H4|].
  intros k. rewrite H4. apply A1.
Qed.
End Reach.


(* ================================================================================================ *)
(* I. Sensitivity witnesses (executed by vm_compute)                                                  *)

(* ---- (a) pick without seal (defect D3) ---- *)
Definition compact_pick_pinned (P : params) (s : st) : option (st * cursor) :=
  match s_mem s with
  | None => None
  | Some m =>
    Some (s, {| c_todo := map (fun g => (g_id g, g_seq g)) (pick P m); c_src := None;
                c_segs := 0; c_recs := 0; c_bytes := 0 |})
  end.

Definition w_P : params :=
  {| p_maxseg := 552; p_minseg := 0; p_frag := fun delbytes _ => 0 <? delbytes; p_sync := false;
     p_grow := fun _ _ => false; p_hash := fun _ _ => 0 |}.
Definition w_k : key := [107].
Definition w_j : key := [106].
Definition w_big : val := repeat 65 20%nat.

Definition w_crash (s : st) : st := {| s_mem := None; s_disk := s_disk s; s_trace := [] |}.

Definition w_s0 : st := {| s_mem := None; s_disk := disk0; s_trace := [] |}.
Definition w_s1 : st := fst (db_open flat_ops w_P 7 w_s0).                 (* fresh: segment 0, seq 1 *)
Definition w_s2 : st := fst (db_put flat_ops w_P w_k w_big w_s1).          (* 00000-1: put k *)
Definition w_s3 : st := fst (db_put flat_ops w_P w_j [1] w_s2).            (* does not fit: 00001-2 *)
Definition w_s4 : st := fst (db_put flat_ops w_P w_j [2] w_s3).            (* 00001-2 now has dead bytes *)

(* the run: pick, a Delete of k by a writer, all micro-steps, crash, recovery *)
Definition w_run (pickf : params -> st -> option (st * cursor)) : st :=
  match pickf w_P w_s4 with
  | None => w_s4
  | Some (s5, c) =>
    let s6 := fst (db_delete flat_ops w_P w_k s5) in
    let s7 := fst (compact_run flat_ops w_P 20 s6 c) in
    fst (db_open flat_ops w_P 9 (w_crash s7))
  end.

Theorem pick_without_seal_refuted :
  (* only the newer segment is picked; it holds no delete record at that time *)
  option_map (fun p => c_todo (snd p)) (compact_pick_pinned w_P w_s4) = Some [(1, 2)] /\
  option_map (fun p => c_todo (snd p)) (compact_pick flat_ops w_P w_s4) = Some [(1, 2)] /\
  db_get flat_ops w_P w_k w_s4 = OVal (Some w_big) /\
  (* pinned: the Delete lands in the picked segment, its marker is dropped, the old Put survives *)
  db_get flat_ops w_P w_k (w_run compact_pick_pinned) = OVal (Some w_big) /\
  sget (abs (s_disk (w_run compact_pick_pinned))) w_k = Some w_big /\
  (* with the seal inside the pick section the key stays deleted *)
  db_get flat_ops w_P w_k (w_run (compact_pick flat_ops)) = OVal None /\
  sget (abs (s_disk (w_run (compact_pick flat_ops)))) w_k = None /\
  db_get flat_ops w_P w_j (w_run (compact_pick flat_ops)) = OVal (Some [2]).
Proof. vm_compute. repeat split. Qed.

(* ---- (b) removeSegment removes the wrong name instead of the side file (defect D8) ---- *)
Definition remove_segment_pinned (id seq : N) (s : st) (m : mem) : st :=
  let s1 := do_sync flat_ops s m in
  let m1 := set_msegs m (filter (fun g => negb (g_id g =? id)) (m_segs m)) in
  let m2 := if (fst (m_cur m) =? id) && (snd (m_cur m) =? seq)
            then set_cur m1 (m_cur m) true else m1 in
  (* "name.psg" + ".psg" in place of "name.psg" + ".pmt": the model's nearest name is the segment itself *)
  let s2 := if exists_file (s_disk s1) (FSeg id seq)
            then emit flat_ops (ERemove (FSeg id seq)) s1 else s1 in
  with_mem m2 (emit flat_ops (ERemove (FSeg id seq)) s2).

(* compact_step with the removal as a parameter *)
Definition compact_step_with (rm : N -> N -> st -> mem -> st) (P : params) (s : st) (c : cursor) : cstep :=
  match s_mem s with
  | None => CFail 10
  | Some m =>
    match c_src c with
    | None =>
      match c_todo c with
      | [] => CDone
      | (id, seq) :: todo =>
        let m1 := set_msegs m (upd_mseg id (fun g => set_gmeta g (set_full (g_meta g))) (m_segs m)) in
        CMore (with_mem m1 s)
              {| c_todo := todo; c_src := Some (id, seq, header_size);
                 c_segs := c_segs c; c_recs := c_recs c; c_bytes := c_bytes c |}
      end
    | Some (id, seq, off) =>
      match find_dseg id (s_disk s) with
      | None => CFail 11
      | Some f =>
        match rec_at off (seg_entries f) with
        | None =>
          if negb ((flen f =? off) && (f_seq f =? seq)) then CFail 12 else
          CMore (rm id seq s m)
                {| c_todo := c_todo c; c_src := None;
                   c_segs := c_segs c + 1; c_recs := c_recs c; c_bytes := c_bytes c |}
        | Some r =>
          let next := Some (id, seq, off + rsize r) in
          let reclaimed := {| c_todo := c_todo c; c_src := next; c_segs := c_segs c;
                              c_recs := c_recs c + 1; c_bytes := c_bytes c + rsize r |} in
          let kept := {| c_todo := c_todo c; c_src := next; c_segs := c_segs c;
                         c_recs := c_recs c; c_bytes := c_bytes c |} in
          if rdel r then CMore s reclaimed
          else
            let h := p_hash P (m_seed m) (rk r) in
            match fl_repoint (m_idx m) h id (u32 off) id (u32 off) with
            | None => CMore s reclaimed
            | Some _ =>
              match write_record flat_ops P r s m with
              | None => CFail 13
              | Some (s1, m1, nid, noff) =>
                match fl_repoint (m_idx m1) h id (u32 off) nid noff with
                | None => CFail 14
                | Some i2 => CMore (with_mem (set_idx m1 i2) (emit flat_ops (EIndex i2) s1)) kept
                end
              end
            end
        end
      end
    end
  end.

Lemma compact_step_with_real P s c : compact_step_with (remove_segment flat_ops) P s c = compact_step flat_ops P s c.
Proof. reflexivity. Qed.

Fixpoint compact_run_with (rm : N -> N -> st -> mem -> st) (P : params) (fuel : nat) (s : st) (c : cursor) : st :=
  match fuel with
  | O => s
  | S f => match compact_step_with rm P s c with
           | CMore s' c' => compact_run_with rm P f s' c'
           | _ => s
           end
  end.

Definition db_compact_with (rm : N -> N -> st -> mem -> st) (P : params) (s : st) : st :=
  match compact_pick flat_ops P s with
  | None => s
  | Some (s1, c) => compact_run_with rm P 30 s1 c
  end.

(* a database with garbage, closed (side files written) and reopened cleanly *)
Definition v_s5 : st := clear_trace (fst (db_close flat_ops w_s4)).
Definition v_s6 : st := fst (db_open flat_ops w_P 9 v_s5).

Theorem remove_meta_wrong_ext_refuted :
  snd (db_open flat_ops w_P 9 v_s5) = OOpened false /\
  files_exact v_s6 /\
  (* the real removal: both files of the compacted segment are gone, nothing is left behind *)
  d_orphans (s_disk (db_compact_with (remove_segment flat_ops) w_P v_s6)) = [] /\
  existsb (fname_eqb (FSegMeta 1 2)) (dir (s_disk (db_compact_with (remove_segment flat_ops) w_P v_s6))) = false /\
  (* pinned: the side file of the removed segment stays *)
  d_orphans (s_disk (db_compact_with remove_segment_pinned w_P v_s6)) = [(1, 2)] /\
  existsb (fname_eqb (FSegMeta 1 2)) (dir (s_disk (db_compact_with remove_segment_pinned w_P v_s6))) = true /\
  existsb (fname_eqb (FSeg 1 2)) (dir (s_disk (db_compact_with remove_segment_pinned w_P v_s6))) = false.
Proof. vm_compute. repeat split. Qed.

(* ---- (c) why MetaOK is needed: a wrong DeleteRecords counter (side file lost) resurrects a key ---- *)
Definition u_P : params :=
  {| p_maxseg := 560; p_minseg := 0; p_frag := fun delbytes size => size <=? 30 * delbytes; p_sync := false;
     p_grow := fun _ _ => false; p_hash := fun _ _ => 0 |}.
Definition u_f : key := [102].
Definition u_s1 : st := fst (db_open flat_ops u_P 7 w_s0).
Definition u_s2 : st := fst (db_put flat_ops u_P w_k [1] u_s1).        (* 00000-1: put k *)
Definition u_s3 : st := fst (db_put flat_ops u_P u_f w_big u_s2).      (* 00000-1: put f *)
Definition u_s4 : st := fst (db_put flat_ops u_P w_j [2] (fst (db_put flat_ops u_P w_j [1] u_s3))).  (* 00001-2 *)
Definition u_s5 : st := fst (db_delete flat_ops u_P w_k u_s4).         (* the delete record goes to 00001-2 *)
(* forget the counter of segment 1, as openSegment does when the side file cannot be read *)
Definition u_forget (s : st) : st :=
  match s_mem s with
  | None => s
  | Some m => with_mem (set_msegs m (upd_mseg 1 (fun g => set_gmeta g
                {| sm_full := sm_full (g_meta g); sm_put := sm_put (g_meta g); sm_delrec := 0;
                   sm_delkeys := sm_delkeys (g_meta g); sm_delbytes := sm_delbytes (g_meta g) |}) (m_segs m))) s
  end.
Definition u_s6 : st := u_forget u_s5.

Theorem wrong_counter_refuted :
  inv_b u_P u_s6 = true /\                                           (* the invariant of DBInv.v holds *)
  sget (abs (s_disk u_s6)) w_k = None /\
  (exists a b n, snd (db_compact flat_ops u_P u_s6) = OCompact a b n) /\
  sget (abs (s_disk (fst (db_compact flat_ops u_P u_s6)))) w_k = Some [1] /\   (* but Compact brings k back *)
  sget (abs (s_disk (fst (db_compact flat_ops u_P u_s5)))) w_k = None.           (* exact counter: fine *)
Proof. vm_compute. repeat split. eexists _, _, _. reflexivity. Qed.

(* ================================================================================================ *)
(* J. The writers, under the requested names                                                         *)
Theorem put_preserves_CInv P (s : st) (c : cursor) k v :
  params_ok P -> Inv P s -> (exists m, s_mem s = Some m /\ room m) ->
  Forall byte k -> Forall byte v -> nlen k <= max_key_len -> nlen v <= max_val_len ->
  CInv s c -> CInv (fst (db_put flat_ops P k v s)) c.
Proof. intros _ HI Hm Hbk Hbv Hk Hv HC. apply (put_preserves P s c k v HI Hm Hbk Hbv Hk Hv HC). Qed.

Theorem delete_preserves_CInv P (s : st) (c : cursor) k :
  params_ok P -> Inv P s -> (exists m, s_mem s = Some m /\ room m) -> Forall byte k ->
  CInv s c -> CInv (fst (db_delete flat_ops P k s)) c.
Proof. intros _ HI Hm Hbk HC. apply (delete_preserves P s c k HI Hm Hbk HC). Qed.

Theorem sync_preserves_CInv P (s : st) (c : cursor) :
  Inv P s -> s_mem s <> None -> CInv s c -> CInv (fst (db_sync flat_ops s)) c.
Proof. intros _ _ HC. apply (sync_preserves s c HC). Qed.

Theorem put_preserves_MetaOK P (s : st) (c : cursor) k v :
  Inv P s -> (exists m, s_mem s = Some m /\ room m) ->
  Forall byte k -> Forall byte v -> nlen k <= max_key_len -> nlen v <= max_val_len ->
  CInv s c -> MetaOK s -> MetaOK (fst (db_put flat_ops P k v s)).
Proof. intros HI Hm Hbk Hbv Hk Hv HC. apply (put_preserves P s c k v HI Hm Hbk Hbv Hk Hv HC). Qed.

Theorem delete_preserves_MetaOK P (s : st) (c : cursor) k :
  Inv P s -> (exists m, s_mem s = Some m /\ room m) -> Forall byte k ->
  CInv s c -> MetaOK s -> MetaOK (fst (db_delete flat_ops P k s)).
Proof. intros HI Hm Hbk HC. apply (delete_preserves P s c k HI Hm Hbk HC). Qed.

Theorem put_preserves_files P (s : st) (c : cursor) k v :
  Inv P s -> (exists m, s_mem s = Some m /\ room m) ->
  Forall byte k -> Forall byte v -> nlen k <= max_key_len -> nlen v <= max_val_len ->
  CInv s c -> files_exact s -> files_exact (fst (db_put flat_ops P k v s)).
Proof. intros HI Hm Hbk Hbv Hk Hv HC. apply (put_preserves P s c k v HI Hm Hbk Hbv Hk Hv HC). Qed.

Theorem delete_preserves_files P (s : st) (c : cursor) k :
  Inv P s -> (exists m, s_mem s = Some m /\ room m) -> Forall byte k ->
  CInv s c -> files_exact s -> files_exact (fst (db_delete flat_ops P k s)).
Proof. intros HI Hm Hbk HC. apply (delete_preserves P s c k HI Hm Hbk HC). Qed.

Theorem sync_preserves_files (s : st) (c : cursor) :
  CInv s c -> files_exact s -> files_exact (fst (db_sync flat_ops s)).
Proof. intros HC. apply (sync_preserves s c HC). Qed.

Theorem pick_preserves_files P (s s' : st) c :
  compact_pick flat_ops P s = Some (s', c) -> Inv P s -> MetaOK s -> files_exact s -> files_exact s'.
Proof.
  intros E HI HM HF. assert (Hm : s_mem s <> None) by (unfold compact_pick in E; destruct (s_mem s); [discriminate|discriminate]).
  destruct (compact_pick_ok P s HI HM Hm) as (s1 & c1 & E1 & _ & _ & Ed & _).
  rewrite E in E1. inversion E1; subst. unfold files_exact in *. rewrite Ed. exact HF.
Qed.

(* index slots never point into a segment that is gone *)
Corollary no_slot_into_removed P (s : st) (m : mem) sl :
  Inv P s -> s_mem s = Some m -> In sl (m_idx m) -> find_dseg (sl_seg sl) (s_disk s) <> None.
Proof.
  intros HI Em Hsl. destruct (Inv_open P s m Em HI) as (_ & (Hok & _) & _). fa Hok sl Hsl.
  destruct Hfa as (f & r & Ef & _). congruence.
Qed.

(* ================================================================================================ *)
Print Assumptions ptrl_remove_segment.
Print Assumptions absl_remove_segment.
Print Assumptions cp_write_record.
Print Assumptions compact_pick_ok.
Print Assumptions compact_step_ok_ex.
Print Assumptions compact_step_ok.
Print Assumptions compact_step_MetaOK.
Print Assumptions compact_step_files.
Print Assumptions put_preserves_CInv.
Print Assumptions delete_preserves_CInv.
Print Assumptions sync_preserves_CInv.
Print Assumptions put_preserves_MetaOK.
Print Assumptions delete_preserves_MetaOK.
Print Assumptions put_preserves_files.
Print Assumptions delete_preserves_files.
Print Assumptions sync_preserves_files.
Print Assumptions pick_preserves_files.
Print Assumptions compact_run_ok.
Print Assumptions db_compact_ok.
Print Assumptions dir_exact.
Print Assumptions compact_removes_files.
Print Assumptions creach_ok.
Print Assumptions compact_no_resurrection.
Print Assumptions no_slot_into_removed.
Print Assumptions pick_without_seal_refuted.
Print Assumptions remove_meta_wrong_ext_refuted.
Print Assumptions wrong_counter_refuted.
