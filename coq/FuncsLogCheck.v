(* FuncsLogCheck.v -- OBLIGATIONS tying the integer code of the write-ahead log bookkeeping
   (datalog.go: the rollover test of writeRecord, trackDel, the DeletedBytes update of del;
   compaction.go: the minimum-size test of pickForCompaction) AS TRANSLATED FROM THE CURRENT SOURCES
   (gen/Funcs.v) to the expressions used by the model (DB.v: write_record, track_del, add_delbytes,
   pick_rev).  Each statement quantifies over ALL values of the Go types involved. *)
From Coq Require Import ZArith NArith Bool Lia ZifyN ZifyNat ZifyBool.
From Pogreb Require Import Base Record GoSem.
Ltac Zify.zify_post_hook ::= Z.div_mod_to_equations.
From Pogreb.gen Require Import Funcs.
Open Scope Z_scope.

(* writeRecord rolls over exactly when DB.write_record does:
   meta.Full || size + len(data) > maxSegmentSize (no wrap: int64 arithmetic on a size below 2^62) *)
Theorem need_swap_ok : forall (full : bool) (size dlen maxseg : N),
  (size < 2 ^ 62)%N -> (dlen < 2 ^ 62)%N -> (maxseg < 2 ^ 32)%N ->
  go_need_swap full (Z.of_N size) (Z.of_N dlen) (Z.of_N maxseg) = full || (maxseg <? size + dlen)%N.
Proof.
  intros full size dlen maxseg Hs Hd Hm.
  change (2 ^ 62)%N with 4611686018427387904%N in Hs, Hd. change (2 ^ 32)%N with 4294967296%N in Hm.
  unfold go_need_swap, go_conv, go_add, go_gtb.
  rewrite (wrap_S64 (Z.of_N dlen)) by lia. rewrite (wrap_S64 (Z.of_N maxseg)) by lia.
  rewrite wrap_S64 by lia. f_equal.
  destruct (N.ltb_spec maxseg (size + dlen)); [apply Z.ltb_lt|apply Z.ltb_ge]; lia.
Qed.

(* trackDel: DeletedKeys + 1 and DeletedBytes + encodedRecordSize(kvSize), both modulo 2^32, as in
   DB.track_del *)
Theorem trackdel_ok : forall dkeys dbytes ks vs : N,
  (dkeys < 2 ^ 32)%N -> (dbytes < 2 ^ 32)%N -> (ks < 2 ^ 16)%N -> (vs < 2 ^ 32)%N ->
  go_trackdel (Z.of_N dkeys) (Z.of_N dbytes) (Z.of_N ks) (Z.of_N vs)
  = (Z.of_N (u32 (dkeys + 1)), Z.of_N (u32 (dbytes + u32 (rec_overhead + u32 (ks + vs))))).
Proof.
  intros dkeys dbytes ks vs Hk Hb Hks Hvs.
  unfold go_trackdel, go_kvSize, go_encodedRecordSize, go_add, go_conv, u32, rec_overhead.
  change (2 ^ 32)%N with 4294967296%N in *. change (2 ^ 16)%N with 65536%N in Hks.
  cbn [wrap]. rewrite p2_32. rewrite !N2Z.inj_mod, !N2Z.inj_add, !N2Z.inj_mod, !N2Z.inj_add.
  change (Z.of_N 4294967296) with 4294967296. change (Z.of_N 10) with 10. change (Z.of_N 1) with 1.
  f_equal.
  rewrite (Z.mod_small (Z.of_N ks)) by lia.
  set (kv := (Z.of_N ks + Z.of_N vs) mod 4294967296).
  assert (Hkv : 0 <= kv < 4294967296) by (apply Z.mod_pos_bound; lia).
  f_equal. f_equal.
  (* ((6 + kv) mod m + 4) mod m = (10 + kv) mod m *)
  rewrite Zplus_mod_idemp_l. f_equal. lia.
Qed.

(* del: DeletedBytes += uint32(len(rec)) *)
Theorem del_bytes_ok : forall dbytes rlen : N, (dbytes < 2 ^ 32)%N -> (rlen < 2 ^ 32)%N ->
  go_del_bytes (Z.of_N dbytes) (Z.of_N rlen) = Z.of_N (u32 (dbytes + u32 rlen)).
Proof.
  intros dbytes rlen Hb Hr. change (2 ^ 32)%N with 4294967296%N in *.
  unfold go_del_bytes, go_add, go_conv, u32. cbn [wrap]. rewrite p2_32.
  rewrite !N2Z.inj_mod, !N2Z.inj_add, !N2Z.inj_mod. reflexivity.
Qed.

(* pickForCompaction skips a segment as too small exactly when DB.pick_rev does
   (uint32(seg.size): the size modulo 2^32) *)
Theorem pick_too_small_ok : forall size minseg : N, (size < 2 ^ 63)%N -> (minseg < 2 ^ 32)%N ->
  go_pick_too_small (Z.of_N size) (Z.of_N minseg) = (u32 size <? minseg)%N.
Proof.
  intros size minseg Hs Hm. unfold go_pick_too_small, go_conv, go_ltb, u32. cbn [wrap]. rewrite p2_32.
  change (2 ^ 32)%N with 4294967296%N in *.
  replace (Z.of_N size mod 4294967296) with (Z.of_N (size mod 4294967296)) by (rewrite N2Z.inj_mod; reflexivity).
  destruct (N.ltb_spec (size mod 4294967296) minseg); [apply Z.ltb_lt|apply Z.ltb_ge]; lia.
Qed.

(* writeRecord counts the record it appended exactly as DB.count_rec does (recordTypePut = 0,
   recordTypeDelete = 1; counters modulo 2^32) *)
Theorem count_rec_ok : forall (isdel : bool) (puts dels : N), (puts < 2 ^ 32)%N -> (dels < 2 ^ 32)%N ->
  go_count_rec (if isdel then 1 else 0) (Z.of_N puts) (Z.of_N dels)
  = (Z.of_N (if isdel then puts else u32 (puts + 1)), Z.of_N (if isdel then u32 (dels + 1) else dels)).
Proof.
  intros isdel puts dels Hp Hd. change (2 ^ 32)%N with 4294967296%N in *.
  unfold go_count_rec, go_eqb, go_add, u32. cbn [wrap]. rewrite p2_32.
  destruct isdel; cbn [Z.eqb Pos.eqb].
  - rewrite N2Z.inj_mod, N2Z.inj_add. reflexivity.
  - rewrite N2Z.inj_mod, N2Z.inj_add. reflexivity.
Qed.

(* recovery rebuilds the counters of a segment as DB.replay_rec does: a put record counts one put;
   a delete record counts one delete record and its own length as dead bytes -- unconditionally *)
Theorem recover_counters_ok : forall puts dels dbytes rlen : N,
  (puts < 2 ^ 32)%N -> (dels < 2 ^ 32)%N -> (dbytes < 2 ^ 32)%N -> (rlen < 2 ^ 62)%N ->
  go_recover_put (Z.of_N puts) = Z.of_N (u32 (puts + 1)) /\
  go_recover_del (Z.of_N dels) (Z.of_N dbytes) (Z.of_N rlen)
  = (Z.of_N (u32 (dels + 1)), Z.of_N (u32 (dbytes + u32 rlen))).
Proof.
  intros puts dels dbytes rlen Hp Hd Hb Hr. change (2 ^ 32)%N with 4294967296%N in *.
  unfold go_recover_put, go_recover_del, go_add, go_conv, u32. cbn [wrap]. rewrite p2_32.
  rewrite !N2Z.inj_mod, !N2Z.inj_add, !N2Z.inj_mod. split; reflexivity.
Qed.
